// Package c02: correspondence harness + direct oracle for C02 (skyway oracle safety).
//
// Drives the REAL skyway keeper of keeper.SetupFiveValChain with THREE remote chains registered in
// the EVM keeper ("test-chain", "test-chain-2" — one id a prefix of the other —, "evm-c"), each with
// its own bridge token and (two of them) a registered light-node sale contract.  Claims of all three
// types go through ValidateBasic and their msg server inside a tx-like cache context; the
// end-blocker steps attestationTally / pruneAttestations run through the verif hooks on the block
// context; UpdateValidatorNoncesToLatest is the keeper method; governance resets go through
// msgServer.OverrideNonceProposal; chain activation is the real eventbus event the EVM keeper
// publishes; powers are written into the real staking store and validator records are rewritten
// (Bonded / Unbonding / Unbonded, jailed flag) or removed in the real staking keeper; pending
// batches are real ones (SendToRemote + BuildOutgoingTXBatch, CancelOutgoingTXBatch); a genesis
// round trip is ExportGenesis, wiping the module's store, InitGenesis.
//
// After every operation the projected state of the addressed chain's real stores is recorded for
// the Coq model (Corr/C02.v) and the property's direct oracle is evaluated on the real state of ALL
// chains, independently of the model.
package c02

import (
	"context"
	"encoding/binary"
	"encoding/json"
	"errors"
	"fmt"
	"math/big"
	"math/rand"
	"os"
	"path/filepath"
	"sort"
	"strings"
	"testing"

	"cosmossdk.io/log"
	sdkmath "cosmossdk.io/math"
	sdk "github.com/cosmos/cosmos-sdk/types"
	govv1beta1 "github.com/cosmos/cosmos-sdk/x/gov/types/v1beta1"
	stakingtypes "github.com/cosmos/cosmos-sdk/x/staking/types"
	"github.com/palomachain/paloma/v2/util/eventbus"
	"github.com/palomachain/paloma/v2/verifharness/emit"
	"github.com/palomachain/paloma/v2/x/skyway"
	"github.com/palomachain/paloma/v2/x/skyway/keeper"
	"github.com/palomachain/paloma/v2/x/skyway/types"
	treasurytypes "github.com/palomachain/paloma/v2/x/treasury/types"
	valsettypes "github.com/palomachain/paloma/v2/x/valset/types"
)

const (
	nChains   = 3
	tokUnreg  = "0x3333333333333333333333333333333333333333"
	ethSender = "0x2222222222222222222222222222222222222222"
	ethDest   = "0x9999999999999999999999999999999999999999"
	nVals     = 5
	nRcv      = 3
	nClients  = 3 // per chain
	saleWrong = "0xDDdDddDdDdddDDddDDddDDDDdDdDDdDDdDDDDDDd"
)

var batchTimeout int64 // what getBatchTimeoutHeight gives in the fixture

var (
	chainNames = []string{"test-chain", "test-chain-2", "evm-c"}
	denomsC    = []string{"ugrain", "utokb", "utokc"}
	// registered bridge token of each chain (index in the model = chain index)
	tokC = []string{"0x0bc529c00C6401aEF6D220BE8C6Ea1667F6Ad93e", "0x1111111111111111111111111111111111111111", "0x4444444444444444444444444444444444444444"}
	// registered light-node sale contract of each chain ("" = none)
	saleC      = []string{"0xAaAaAaAaAaAaAaAaAaAaAaAaAaAaAaAaAaAaAaAa", "0xBbBbBbBbBbBbBbBbBbBbBbBbBbBbBbBbBbBbBbBb", ""}
	compassIDs = []string{"", "compass-one", "compass-two"}
)

// ---- operations (also the replay / corpus format; chain 0 when "c" is absent) ----
type claimT struct {
	Nonce   uint64 `json:"nonce"`
	Height  uint64 `json:"height"`
	Tok     bool   `json:"tok"`
	Amt     int64  `json:"amt"`
	Rcv     int    `json:"rcv"`
	Compass int    `json:"compass"`
	Batch   bool   `json:"batch,omitempty"`  // a MsgBatchSendToRemoteClaim (batch nonce = amt) instead of a deposit
	Sale    bool   `json:"sale,omitempty"`   // a MsgLightNodeSaleClaim: client = rcv, amount = amt, tok = names the registered sale contract
	OtherTk bool   `json:"othertk,omitempty"` // batch claim naming a token contract that has no batches
	Big     string `json:"big,omitempty"`     // deposit amount as a decimal string (whole math.Int range); overrides amt
	Case    int    `json:"case,omitempty"`    // letter-case variants of text fields: 1 receiver / client address, 2 compass id, 4 sale contract
}

type opT struct {
	Kind   string  `json:"op"` // vote tally prune powers valset catchup override activate mkbatch dropbatch regenesis
	C      int     `json:"c,omitempty"`
	V      int     `json:"v,omitempty"`
	S      *int    `json:"s,omitempty"` // vote: the account that creates / signs the message (absent = the named validator v itself)
	Claim  *claimT `json:"claim,omitempty"`
	N      uint64  `json:"n,omitempty"`
	ID     int     `json:"id,omitempty"`
	Pw     []int64 `json:"pw,omitempty"`
	Total  int64   `json:"total,omitempty"`
	Status []int   `json:"status,omitempty"` // valset: per validator 0 bonded 1 unbonding 2 unbonded 3 no staking record
	Jailed []bool  `json:"jailed,omitempty"`
	BN     uint64  `json:"bn,omitempty"` // dropbatch
}

func (c *claimT) amount() sdkmath.Int {
	if c.Big != "" {
		x, ok := sdkmath.NewIntFromString(c.Big)
		if !ok {
			panic("bad amount " + c.Big)
		}
		return x
	}
	return sdkmath.NewInt(c.Amt)
}

// flipCase changes the letter case of a text field (what is consumed case-sensitively downstream)
func flipCase(s string) string {
	if s == "" {
		return s
	}
	if u := strings.ToUpper(s); u != s {
		return u[:1] + s[1:len(s)/2] + u[len(s)/2:]
	}
	return strings.ToLower(s)
}

func (c *claimT) typ() string {
	switch {
	case c.Batch:
		return "batch"
	case c.Sale:
		return "sale"
	}
	return "deposit"
}

// palomaStub stands in for x/paloma (C18 drives the real one): one licence per client, first wins.
type palomaStub struct{ lic map[string]int64 }

func (p *palomaStub) CreateSaleLightNodeClientLicense(_ context.Context, client string, amount sdkmath.Int) error {
	if _, ok := p.lic[client]; ok {
		return errors.New("license already exists")
	}
	p.lic[client] = amount.Int64()
	return nil
}

type env struct {
	in     keeper.TestInput
	base   sdk.Context
	ms     types.MsgServer
	gov    govv1beta1.Handler
	pal    *palomaStub
	rcv    []sdk.AccAddress
	user   sdk.AccAddress
	client [][]string // [chain][i] bech32
	valIx  map[string]int
	rawIx  map[string]int
	hashH  map[uint64]string
	orig   []stakingtypes.Validator
}

func must(err error) {
	if err != nil {
		panic(err)
	}
}

func setup(t *testing.T) *env {
	in, c := keeper.SetupFiveValChain(t)
	e := &env{in: in, valIx: map[string]int{}, rawIx: map[string]int{}, hashH: map[uint64]string{}, pal: &palomaStub{lic: map[string]int64{}}}
	ctx := sdk.UnwrapSDKContext(c).WithLogger(log.NewNopLogger())
	k := in.SkywayKeeper
	e.ms = keeper.NewMsgServerImpl(k)
	e.gov = keeper.NewSkywayProposalHandler(k)
	for i := 0; i < nVals; i++ {
		e.valIx[keeper.ValAddrs[i].String()] = i
		e.rawIx[string(keeper.ValAddrs[i].Bytes())] = i
	}
	// two more remote chains; every validator has an account on each; fresh snapshot (batch building picks a relayer)
	must(in.EvmKeeper.AddSupportForNewChain(ctx, chainNames[1], 2, 123, "0x1234", big.NewInt(55)))
	must(in.EvmKeeper.AddSupportForNewChain(ctx, chainNames[2], 3, 123, "0x1234", big.NewInt(55)))
	for i, addr := range keeper.ValAddrs {
		v, err := in.StakingKeeper.GetValidator(ctx, addr)
		must(err)
		pk, err := v.ConsPubKey()
		must(err)
		var infos []*valsettypes.ExternalChainInfo
		var fees []treasurytypes.RelayerFeeSetting_FeeSetting
		for _, ch := range chainNames {
			infos = append(infos, &valsettypes.ExternalChainInfo{ChainType: "evm", ChainReferenceID: ch, Address: keeper.EthAddrs[i].String(), Pubkey: pk.Bytes()})
			fees = append(fees, treasurytypes.RelayerFeeSetting_FeeSetting{Multiplicator: sdkmath.LegacyMustNewDecFromStr("1.10"), ChainReferenceId: ch})
		}
		must(in.ValsetKeeper.AddExternalChainInfo(ctx, addr, infos))
		must(in.TreasuryKeeper.SetRelayerFee(ctx, addr, &treasurytypes.RelayerFeeSetting{ValAddress: addr.String(), Fees: fees}))
	}
	ctx = ctx.WithBlockHeight(ctx.BlockHeight() + 1)
	_, err := in.ValsetKeeper.TriggerSnapshotBuild(ctx)
	must(err)
	in.MetrixKeeper.UpdateUptime(ctx)
	for ci := 1; ci < nChains; ci++ {
		must(e.gov(ctx, &types.SetERC20ToDenomProposal{Title: "t", Description: "d", ChainReferenceId: chainNames[ci], Erc20: tokC[ci], Denom: denomsC[ci]}))
	}
	var sales []*types.LightNodeSaleContract
	for ci, a := range saleC {
		if a != "" {
			sales = append(sales, &types.LightNodeSaleContract{ChainReferenceId: chainNames[ci], ContractAddress: a})
		}
	}
	must(k.SetAllLighNodeSaleContracts(ctx, sales))
	k.VerifC11SetPalomaKeeper(e.pal)
	for i := 0; i < nRcv; i++ {
		b := make([]byte, 20)
		b[0], b[1], b[19] = 0xC0, 0x02, byte(i+1)
		e.rcv = append(e.rcv, sdk.AccAddress(b))
	}
	ub := make([]byte, 20)
	ub[0], ub[1], ub[19] = 0xC0, 0x02, 0x77
	e.user = sdk.AccAddress(ub)
	for _, d := range denomsC {
		cs := sdk.NewCoins(sdk.NewInt64Coin(d, 1_000_000))
		must(in.BankKeeper.MintCoins(ctx, types.ModuleName, cs))
		must(in.BankKeeper.SendCoinsFromModuleToAccount(ctx, types.ModuleName, e.user, cs))
	}
	for ci := 0; ci < nChains; ci++ {
		var l []string
		for i := 0; i < nClients; i++ {
			b := make([]byte, 20)
			b[0], b[1], b[18], b[19] = 0xC1, 0x02, byte(ci), byte(i+1)
			l = append(l, sdk.AccAddress(b).String())
		}
		for i := 0; i < nClients; i++ {
			l = append(l, flipCase(l[i]))
		}
		e.client = append(e.client, l)
	}
	for _, addr := range keeper.ValAddrs {
		v, err := in.StakingKeeper.GetValidator(ctx, addr)
		must(err)
		e.orig = append(e.orig, v)
	}
	e.base = ctx
	batchTimeout = ctx.BlockTime().Unix() + 600
	return e
}

func (e *env) orch(v int) string {
	if v >= 0 && v < nVals {
		return keeper.AccAddrs[v].String()
	}
	b := make([]byte, 20)
	b[0], b[19] = 0xEE, byte(v)
	return sdk.AccAddress(b).String()
}

func md(o string) valsettypes.MsgMetadata {
	return valsettypes.MsgMetadata{Creator: o, Signers: []string{o}}
}

func (o opT) signer() int {
	if o.S != nil {
		return *o.S
	}
	return o.V
}

// mkMsg builds the claim message account sg creates and signs on chain ci, naming validator v as orchestrator.
func (e *env) mkMsg(ci, v, sg int, c *claimT) types.EthereumClaim {
	o := e.orch(v)
	md := func(string) valsettypes.MsgMetadata { cr := e.orch(sg); return valsettypes.MsgMetadata{Creator: cr, Signers: []string{cr}} }
	cid := compassIDs[c.Compass]
	if c.Case&2 != 0 {
		cid = flipCase(cid)
	}
	switch {
	case c.Batch:
		tk := tokC[ci]
		if c.OtherTk {
			tk = tokUnreg
		}
		return &types.MsgBatchSendToRemoteClaim{EventNonce: c.Nonce, EthBlockHeight: c.Height, BatchNonce: uint64(c.Amt), TokenContract: tk,
			ChainReferenceId: chainNames[ci], Orchestrator: o, Metadata: md(o), SkywayNonce: c.Nonce, CompassId: cid}
	case c.Sale:
		sc := saleWrong
		if c.Tok {
			sc = saleC[ci]
			if c.Case&4 != 0 {
				sc = strings.ToLower(sc)
			}
		}
		cli := c.Rcv % nClients
		if c.Case&1 != 0 {
			cli += nClients // the same address in another letter case: another client downstream
		}
		return &types.MsgLightNodeSaleClaim{EventNonce: c.Nonce, EthBlockHeight: c.Height, Orchestrator: o, Metadata: md(o), ChainReferenceId: chainNames[ci],
			SkywayNonce: c.Nonce, ClientAddress: e.client[ci][cli], Amount: sdkmath.NewInt(c.Amt), SmartContractAddress: sc, CompassId: cid}
	}
	tok := tokUnreg
	if c.Tok {
		tok = tokC[ci]
	}
	rc := e.rcv[c.Rcv%nRcv].String()
	if c.Case&1 != 0 {
		rc = flipCase(rc) // mixed case: not a bech32 address, the deposit goes to the community pool
	}
	return &types.MsgSendToPalomaClaim{EventNonce: c.Nonce, EthBlockHeight: c.Height, TokenContract: tok, Amount: c.amount(), EthereumSender: ethSender,
		PalomaReceiver: rc, Orchestrator: o, ChainReferenceId: chainNames[ci], Metadata: md(o), SkywayNonce: c.Nonce, CompassId: cid}
}

func (e *env) hashOf(ci int, c *claimT) (uint64, []byte) {
	h, err := e.mkMsg(ci, 0, 0, c).ClaimHash()
	must(err)
	x := binary.BigEndian.Uint64(h[:8]) >> 1 // 63 bits, order preserving
	if prev, ok := e.hashH[x]; ok && prev != string(h) {
		panic("two claim hashes share their first 63 bits")
	}
	e.hashH[x] = string(h)
	return x, h
}

// ---- projected state of the real stores ----
type attObs struct {
	Nonce    uint64
	H        uint64
	Hash     string
	Votes    []int
	Observed bool
	Cl       types.EthereumClaim
	Compass  string
}

type snap struct {
	Last    uint64
	Height  uint64
	Compass int
	Atts    []attObs
	VN      [][2]uint64
	Bat     [][3]uint64 // token idx (chain idx, 9 = other), batch nonce, timeout — of this chain, ascending nonce
	Lic     [][2]int64  // client id (10*chain + i), amount — of this chain's clients
	Bal     []*big.Int  // receivers, all denoms together
}

func (e *env) observe(ctx sdk.Context, ci int) snap {
	k := e.in.SkywayKeeper
	chain := chainNames[ci]
	var s snap
	var err error
	s.Last, err = k.GetLastObservedSkywayNonce(ctx, chain)
	must(err)
	s.Height = k.GetLastObservedEthereumBlockHeight(ctx, chain).EthereumBlockHeight
	cid := k.GetLatestCompassID(ctx, chain)
	s.Compass = -1
	for i, x := range compassIDs {
		if x == cid {
			s.Compass = i
		}
	}
	must(k.IterateAttestations(ctx, chain, false, func(_ []byte, att types.Attestation) bool {
		cl, err := k.UnpackAttestationClaim(&att)
		must(err)
		hash, _ := cl.ClaimHash()
		a := attObs{Nonce: cl.GetSkywayNonce(), H: binary.BigEndian.Uint64(hash[:8]) >> 1, Hash: string(hash), Observed: att.Observed, Compass: cl.GetCompassID(), Cl: cl}
		for _, v := range att.Votes {
			ix, ok := e.valIx[v]
			if !ok {
				ix = -1
			}
			a.Votes = append(a.Votes, ix)
		}
		s.Atts = append(s.Atts, a)
		return false
	}))
	must(k.IterateValidatorLastEventNonces(ctx, chain, func(key []byte, nonce uint64) bool {
		ix, ok := e.rawIx[string(key)]
		if !ok {
			panic("validator nonce record of an unknown validator")
		}
		s.VN = append(s.VN, [2]uint64{uint64(ix), nonce})
		return false
	}))
	sort.Slice(s.VN, func(i, j int) bool { return s.VN[i][0] < s.VN[j][0] })
	bs, err := k.GetOutgoingTxBatches(ctx)
	must(err)
	for _, b := range bs {
		if b.ChainReferenceID != chain {
			continue
		}
		tk := uint64(9)
		for i, t := range tokC {
			if strings.EqualFold(t, b.TokenContract.GetAddress().Hex()) {
				tk = uint64(i)
			}
		}
		s.Bat = append(s.Bat, [3]uint64{tk, b.BatchNonce, b.BatchTimeout})
	}
	sort.Slice(s.Bat, func(i, j int) bool { return s.Bat[i][1] < s.Bat[j][1] })
	for i, c := range e.client[ci] {
		if a, ok := e.pal.lic[c]; ok {
			s.Lic = append(s.Lic, [2]int64{int64(10*ci + i + 1), a})
		}
	}
	for _, r := range e.rcv {
		sum := new(big.Int)
		for _, d := range denomsC {
			sum.Add(sum, e.in.BankKeeper.GetBalance(ctx, r, d).Amount.BigInt())
		}
		s.Bal = append(s.Bal, sum)
	}
	return s
}

func (e *env) observeAll(ctx sdk.Context) []snap {
	out := make([]snap, nChains)
	for ci := range out {
		out[ci] = e.observe(ctx, ci)
	}
	return out
}

// chainEqual: the chain-local part of two snapshots (everything but the bank balances)
func chainEqual(a, b snap) bool {
	return chainKey(a) == chainKey(b)
}

func chainKey(s snap) string {
	var sb strings.Builder
	fmt.Fprintf(&sb, "%d/%d/%d|", s.Last, s.Height, s.Compass)
	for _, a := range s.Atts {
		fmt.Fprintf(&sb, "%d:%x:%v:%v;", a.Nonce, a.Hash, a.Votes, a.Observed)
	}
	fmt.Fprintf(&sb, "|%v|%v|%v", s.VN, s.Bat, s.Lic)
	return sb.String()
}

func (e *env) powers(ctx sdk.Context) ([]int64, int64) {
	p := make([]int64, nVals)
	for i := range p {
		x, err := e.in.StakingKeeper.GetLastValidatorPower(ctx, keeper.ValAddrs[i])
		must(err)
		p[i] = x
	}
	t, err := e.in.StakingKeeper.GetLastTotalPower(ctx)
	must(err)
	return p, t.Int64()
}

func (e *env) isBonded(ctx sdk.Context, v int) bool {
	if v < 0 || v >= nVals {
		return false
	}
	val, err := e.in.StakingKeeper.GetValidator(ctx, keeper.ValAddrs[v])
	return err == nil && val.IsBonded()
}

// deliver runs f like baseapp runs a message: cache context, committed on success; panic = failed tx.
func deliver(root sdk.Context, f func(ctx sdk.Context) error) (err error) {
	cctx, write := root.CacheContext()
	defer func() {
		if r := recover(); r != nil {
			err = fmt.Errorf("panic: %v", r)
		}
	}()
	err = f(cctx)
	if err == nil {
		write()
	}
	return err
}

type applyOut struct {
	ok      bool
	errText string
	bn, to  uint64 // mkbatch: what the keeper stored
}

// apply executes one operation on the real keeper; ok = accepted (vote) / returned nil (tally).
func (e *env) apply(ctx sdk.Context, o opT) (out applyOut) {
	k := e.in.SkywayKeeper
	chain := chainNames[o.C]
	var err error
	switch o.Kind {
	case "vote":
		msg := e.mkMsg(o.C, o.V, o.signer(), o.Claim)
		switch m := msg.(type) {
		case *types.MsgBatchSendToRemoteClaim:
			if err = m.ValidateBasic(); err == nil {
				err = deliver(ctx, func(c sdk.Context) error { _, er := e.ms.BatchSendToRemoteClaim(c, m); return er })
			}
		case *types.MsgLightNodeSaleClaim:
			if err = m.ValidateBasic(); err == nil {
				err = deliver(ctx, func(c sdk.Context) error { _, er := e.ms.LightNodeSaleClaim(c, m); return er })
			}
		case *types.MsgSendToPalomaClaim:
			if err = m.ValidateBasic(); err == nil { // baseapp runs ValidateBasic before the handler
				err = deliver(ctx, func(c sdk.Context) error { _, er := e.ms.SendToPalomaClaim(c, m); return er })
			}
		}
	case "tally":
		func() { // EndBlocker recovers panics; it runs on the block context
			defer func() {
				if r := recover(); r != nil {
					err = fmt.Errorf("panic: %v", r)
				}
			}()
			err = skyway.VerifC02AttestationTally(ctx, k, chain)
		}()
	case "prune":
		must(skyway.VerifC02PruneAttestations(ctx, k, chain))
	case "powers":
		for i, p := range o.Pw {
			must(e.in.StakingKeeper.SetLastValidatorPower(ctx, keeper.ValAddrs[i], p))
		}
		must(e.in.StakingKeeper.SetLastTotalPower(ctx, sdkmath.NewInt(o.Total)))
	case "valset":
		for i, st := range o.Status {
			v := e.orig[i]
			if st == 3 { // no staking record: unbonded, emptied, removed
				v.Status, v.Tokens, v.DelegatorShares = stakingtypes.Unbonded, sdkmath.ZeroInt(), sdkmath.LegacyZeroDec()
				must(e.in.StakingKeeper.SetValidator(ctx, v))
				must(e.in.StakingKeeper.RemoveValidator(ctx, keeper.ValAddrs[i]))
				continue
			}
			v.Status = []stakingtypes.BondStatus{stakingtypes.Bonded, stakingtypes.Unbonding, stakingtypes.Unbonded}[st]
			v.Jailed = len(o.Jailed) > i && o.Jailed[i]
			must(e.in.StakingKeeper.SetValidator(ctx, v))
			must(e.in.StakingKeeper.SetValidatorByConsAddr(ctx, v))
		}
	case "catchup":
		must(k.UpdateValidatorNoncesToLatest(ctx, chain))
	case "override":
		must(deliver(ctx, func(c sdk.Context) error {
			_, er := e.ms.OverrideNonceProposal(c, &types.MsgNonceOverrideProposal{
				Metadata: valsettypes.MsgMetadata{Creator: k.GetAuthority()}, ChainReferenceId: chain, Nonce: o.N,
			})
			return er
		}))
	case "activate":
		eventbus.EVMActivatedChain().Publish(ctx, eventbus.EVMActivatedChainEvent{ChainReferenceID: chain, SmartContractUniqueID: []byte(compassIDs[o.ID])})
	case "mkbatch":
		// a user sends 10 units to the remote chain, the keeper builds a batch out of the pool
		err = deliver(ctx, func(c sdk.Context) error {
			if _, er := e.ms.SendToRemote(c, &types.MsgSendToRemote{EthDest: ethDest, Amount: sdk.NewInt64Coin(denomsC[o.C], 10), ChainReferenceId: chain, Metadata: md(e.user.String())}); er != nil {
				return er
			}
			contract, er := types.NewEthAddress(tokC[o.C])
			if er != nil {
				return er
			}
			b, er := k.BuildOutgoingTXBatch(c, chain, *contract, 10)
			if er != nil {
				return er
			}
			if b == nil {
				return errors.New("nothing batched")
			}
			out.bn, out.to = b.BatchNonce, b.BatchTimeout
			return nil
		})
		if err != nil {
			panic("mkbatch: " + err.Error())
		}
	case "dropbatch":
		contract, er := types.NewEthAddress(tokC[o.C])
		must(er)
		_ = k.CancelOutgoingTXBatch(ctx, *contract, o.BN) // unknown batch: error, nothing written
	case "regenesis":
		gs := keeper.ExportGenesis(ctx, k)
		st := k.VerifC11RawStore(ctx)
		var keys [][]byte
		it := st.Iterator(nil, nil)
		for ; it.Valid(); it.Next() {
			keys = append(keys, append([]byte{}, it.Key()...))
		}
		it.Close()
		for _, key := range keys {
			st.Delete(key)
		}
		keeper.InitGenesis(ctx, k, gs)
	default:
		panic("unknown op " + o.Kind)
	}
	if err != nil {
		return applyOut{ok: false, errText: err.Error()}
	}
	out.ok = true
	return out
}

// ---- Coq printers ----
func coqClaim(ci int, c *claimT, h int) string {
	kind, rcv, amt, tok := 0, int64(c.Rcv%nRcv), c.amount().BigInt(), c.Tok
	compass := c.Compass
	if c.Case&2 != 0 && c.Compass != 0 {
		compass = 7 // a compass id no deployment has
	}
	if c.Case&1 != 0 && !c.Batch && !c.Sale {
		rcv = 9 // not an address: minted to the community pool, none of the receivers
	}
	switch {
	case c.Batch:
		kind, rcv, tok = 1, int64(ci), false
		if c.OtherTk {
			rcv = 9
		}
	case c.Sale:
		kind, rcv = 2, int64(10*ci+c.Rcv%nClients+1)
		if c.Case&1 != 0 {
			rcv += nClients
		}
		tok = c.Tok && saleC[ci] != "" && c.Case&4 == 0
	}
	return fmt.Sprintf("(mkClaim %s %d %s %d %d %d %s %s)", emit.ZU(c.Nonce), h, emit.ZU(c.Height), compass, kind, rcv, emit.Z(amt), emit.Bool(tok))
}

func global(o opT) bool {
	return o.Kind == "powers" || o.Kind == "valset" || o.Kind == "regenesis"
}

func (e *env) coqOp(o opT, ao applyOut, rank map[uint64]int) string {
	switch o.Kind {
	case "vote":
		h, _ := e.hashOf(o.C, o.Claim)
		return fmt.Sprintf("VoteBy %s %s %s %s", emit.ZI(int64(o.signer())), emit.ZI(int64(o.V)), emit.Bool(o.V >= 0 && o.V < nVals), coqClaim(o.C, o.Claim, rank[h]))
	case "tally":
		return "Tally"
	case "prune":
		return "Prune"
	case "powers":
		var ps []string
		for i, p := range o.Pw {
			ps = append(ps, emit.Pair(emit.ZI(int64(i)), emit.ZI(p)))
		}
		return fmt.Sprintf("SetPowers %s %s", emit.List(ps), emit.ZI(o.Total))
	case "valset":
		var bs []string
		for i, st := range o.Status {
			if st == 0 {
				bs = append(bs, emit.ZI(int64(i)))
			}
		}
		return "SetBonded " + emit.List(bs)
	case "catchup":
		return "CatchUp"
	case "override":
		return "Override " + emit.ZU(o.N)
	case "activate":
		return fmt.Sprintf("Activate %d", o.ID)
	case "mkbatch":
		return fmt.Sprintf("MkBatch %d %s %s", o.C, emit.ZU(ao.bn), emit.ZU(ao.to))
	case "dropbatch":
		return fmt.Sprintf("DropBatch %d %s", o.C, emit.ZU(o.BN))
	case "regenesis":
		return "Regenesis"
	}
	panic("op")
}

type lists struct{ atts, vn, bal, bat, lic string }

func coqLists(s snap, rank map[uint64]int) lists {
	var as, vn, bal, bat, lic []string
	for _, a := range s.Atts {
		var vs []string
		for _, v := range a.Votes {
			vs = append(vs, emit.ZI(int64(v)))
		}
		as = append(as, emit.Pair(emit.ZU(a.Nonce), emit.ZI(int64(rank[a.H])), emit.List(vs), emit.Bool(a.Observed)))
	}
	for _, x := range s.VN {
		vn = append(vn, emit.Pair(emit.ZU(x[0]), emit.ZU(x[1])))
	}
	for i, b := range s.Bal {
		bal = append(bal, emit.Pair(emit.ZI(int64(i)), emit.Z(b)))
	}
	for _, b := range s.Bat {
		bat = append(bat, emit.Pair(emit.ZU(b[0]), emit.ZU(b[1])))
	}
	for _, l := range s.Lic {
		lic = append(lic, emit.Pair(emit.ZI(l[0]), emit.ZI(l[1])))
	}
	return lists{emit.List(as), emit.List(vn), emit.List(bal), emit.List(bat), emit.List(lic)}
}

// coqObs prints the observation of chain ci; the lists are printed only when they differ from the
// previous record of that chain.  Claim hashes are printed as their rank among all hashes of the
// history (order preserving, so the model's store order is the implementation's).
func coqObs(ci int, ok bool, s snap, prev *lists, rank map[uint64]int) (string, lists) {
	cur := coqLists(s, rank)
	opt := func(now, before string) string {
		if prev != nil && now == before {
			return "None"
		}
		return "(Some " + now + ")"
	}
	p := lists{}
	if prev != nil {
		p = *prev
	}
	return fmt.Sprintf("(mkObs %d %s %s %s %d %s %s %s %s %s)", ci, emit.Bool(ok), emit.ZU(s.Last), emit.ZU(s.Height), s.Compass,
		opt(cur.atts, p.atts), opt(cur.vn, p.vn), opt(cur.bal, p.bal), opt(cur.bat, p.bat), opt(cur.lic, p.lic)), cur
}

// ---- the direct oracle (independent mirror; speaks about the REAL state only) ----
type oracle struct {
	voted      map[string]map[int]bool // chain/claim hash -> validators whose vote for it was accepted
	body       map[string]map[int]string // chain/claim hash -> sender -> the claim body that sender submitted (latest accepted)
	epoch      [nChains]int
	seen       map[[3]uint64]bool // (chain, epoch, nonce) that took effect
	violations int
}

func newOracle() *oracle {
	return &oracle{voted: map[string]map[int]bool{}, body: map[string]map[int]string{}, seen: map[[3]uint64]bool{}}
}

type viol struct{ id, what string }

func distinctPower(a attObs, pw []int64) int64 {
	d := map[int]bool{}
	var sum int64
	for _, v := range a.Votes {
		if v >= 0 && !d[v] {
			d[v] = true
			sum += pw[v]
		}
	}
	return sum
}

// gt66: 100*sum > 66*total without overflow (powers go up to CometBFT's MaxTotalVotingPower = MaxInt64/8)
func gt66(sum, total int64) bool {
	a := new(big.Int).Mul(big.NewInt(100), big.NewInt(sum))
	b := new(big.Int).Mul(big.NewInt(66), big.NewInt(total))
	return a.Cmp(b) > 0
}

func inCompass(compass int, a attObs) bool {
	return compass <= 0 || a.Compass == compassIDs[compass]
}

// step evaluates the property on the real state before / after one operation.  bondedBefore: was
// the voting validator bonded in the real staking store before the operation.
func (or *oracle) step(e *env, ctx sdk.Context, run *emit.Run, o opT, ok bool, errText string, bondedBefore bool, preAll, postAll []snap) []viol {
	var out []viol
	c := o.C
	if global(o) {
		c = 0
	}
	pre, post := preAll[c], postAll[c]
	key := func(h string) string { return fmt.Sprintf("%d/%s", c, h) }
	if o.Kind == "vote" && ok {
		_, h := e.hashOf(o.C, o.Claim)
		if or.voted[key(string(h))] == nil {
			or.voted[key(string(h))] = map[int]bool{}
		}
		or.voted[key(string(h))][o.signer()] = true // who SENT the message (the harness built and "signed" it)
		if or.body[key(string(h))] == nil {
			or.body[key(string(h))] = map[int]string{}
		}
		or.body[key(string(h))][o.signer()] = bodyOf(e.mkMsg(o.C, o.V, o.signer(), o.Claim))
		if o.signer() != o.V {
			out = append(out, viol{"C02:vote-cast-by-other-account", fmt.Sprintf("chain %d: a %s claim created by account %d naming validator %d as orchestrator was accepted as validator %d's vote", c, o.Claim.typ(), o.signer(), o.V, o.V)})
		}
		if o.Claim.Batch && !o.Claim.OtherTk { // additionalPatchChecks: not at or after the timeout of a batch that is still pending
			for _, b := range pre.Bat {
				if b[0] == uint64(c) && b[1] == uint64(o.Claim.Amt) && b[2] <= o.Claim.Height {
					out = append(out, viol{"C02:batch-claim-past-timeout-accepted", fmt.Sprintf("chain %d: executed-batch vote at remote height %d accepted for the pending batch %d whose timeout is %d", c, o.Claim.Height, b[1], b[2])})
				}
			}
		}
		if !bondedBefore {
			out = append(out, viol{"C02:vote-of-unbonded-accepted", fmt.Sprintf("chain %d: the vote of validator %d was accepted although staking has no Bonded record for it", c, o.V)})
		}
	}
	// votes / end-blocker steps / resets of one chain never touch another chain; staking changes touch none
	if o.Kind != "regenesis" {
		for ci := 0; ci < nChains; ci++ {
			if (ci != c || global(o)) && !chainEqual(preAll[ci], postAll[ci]) {
				out = append(out, viol{"C02:cross-chain-interference", fmt.Sprintf("op %s addressed to chain %d changed the oracle stores of chain %d", o.Kind, o.C, ci)})
			}
		}
	}
	if global(o) && o.Kind != "regenesis" {
		return out
	}
	if o.Kind == "regenesis" { // cursor and observed flags of every chain survive; nothing takes effect
		for ci := 0; ci < nChains; ci++ {
			if preAll[ci].Last != postAll[ci].Last {
				out = append(out, viol{"C02:genesis-roundtrip-cursor", fmt.Sprintf("chain %d: cursor %d before export, %d after import", ci, preAll[ci].Last, postAll[ci].Last)})
			}
			was := map[string]bool{}
			for _, a := range preAll[ci].Atts {
				was[a.Hash] = a.Observed
			}
			now := map[string]bool{}
			for _, a := range postAll[ci].Atts {
				now[a.Hash] = true
			}
			for _, a := range preAll[ci].Atts {
				if inCompass(preAll[ci].Compass, a) && !now[a.Hash] {
					out = append(out, viol{"C02:genesis-roundtrip-observed", fmt.Sprintf("chain %d: the attestation at nonce %d (observed=%v) is gone after the genesis round trip", ci, a.Nonce, a.Observed)})
				}
			}
			for _, a := range postAll[ci].Atts {
				if w, okk := was[a.Hash]; !okk || w != a.Observed {
					out = append(out, viol{"C02:genesis-roundtrip-observed", fmt.Sprintf("chain %d: attestation at nonce %d has Observed=%v after import (before: present=%v observed=%v)", ci, a.Nonce, a.Observed, okk, w)})
				}
			}
			for i := range postAll[ci].Bal {
				if postAll[ci].Bal[i].Cmp(preAll[ci].Bal[i]) != 0 {
					out = append(out, viol{"C02:effect-not-exactly-once", "a genesis round trip changed a receiver balance"})
				}
			}
		}
		return out
	}
	preObs := map[string]bool{}
	for _, a := range pre.Atts {
		preObs[a.Hash] = a.Observed
	}
	var newly []attObs
	for _, a := range post.Atts {
		if a.Observed && !preObs[a.Hash] {
			newly = append(newly, a)
		}
	}
	pw, total := e.powers(ctx)
	expBal := make([]*big.Int, nRcv)
	for i := range expBal {
		expBal[i] = new(big.Int)
	}
	// batches / licences the newly observed claims must have consumed / created, in nonce order
	sort.Slice(newly, func(i, j int) bool { return newly[i].Nonce < newly[j].Nonce })
	bat := map[[2]uint64]uint64{}
	for _, b := range pre.Bat {
		bat[[2]uint64{b[0], b[1]}] = b[2]
	}
	lic := map[int64]int64{}
	for _, l := range pre.Lic {
		lic[l[0]] = l[1]
	}
	for _, a := range newly {
		if o.Kind != "tally" {
			out = append(out, viol{"C02:observed-outside-tally", fmt.Sprintf("attestation nonce %d became observed by op %s", a.Nonce, o.Kind)})
		}
		distinct := map[int]bool{}
		var sum int64
		for _, v := range a.Votes {
			if distinct[v] {
				continue
			}
			distinct[v] = true
			if v < 0 || !or.voted[key(a.Hash)][v] {
				out = append(out, viol{"C02:counted-validator-never-voted", fmt.Sprintf("chain %d nonce %d: validator %d is counted but it never sent an accepted claim message for this claim on this chain", c, a.Nonce, v)})
				continue
			}
			sum += pw[v]
			// the vote counts for the claim the validator SUBMITTED: its body equals the stored body field by field
			if sent := or.body[key(a.Hash)][v]; sent != bodyOf(a.Cl) {
				out = append(out, viol{"C02:counted-vote-for-other-claim", fmt.Sprintf("chain %d nonce %d: validator %d is counted for the stored claim {%s} but submitted {%s}", c, a.Nonce, v, bodyOf(a.Cl), sent)})
			}
		}
		if !gt66(sum, total) {
			out = append(out, viol{"C02:observed-without-66pct-distinct",
				fmt.Sprintf("claim at nonce %d observed with Votes=%v: distinct voters hold %d of %d (needs > 66%%)", a.Nonce, a.Votes, sum, total)})
		}
		if pre.Compass > 0 && a.Compass != compassIDs[pre.Compass] {
			out = append(out, viol{"C02:other-deployment-claim-applied",
				fmt.Sprintf("claim at nonce %d names compass %q but the bridge deployment is %q", a.Nonce, a.Compass, compassIDs[pre.Compass])})
		}
		k3 := [3]uint64{uint64(c), uint64(or.epoch[c]), a.Nonce}
		if or.seen[k3] {
			out = append(out, viol{"C02:two-claims-one-nonce", fmt.Sprintf("second claim took effect at nonce %d within one reset epoch", a.Nonce)})
		}
		or.seen[k3] = true
		ran := false
		switch m := a.Cl.(type) {
		case *types.MsgSendToPalomaClaim:
			ran = strings.EqualFold(m.TokenContract, tokC[c])
			if strings.EqualFold(m.TokenContract, tokC[c]) {
				for i, r := range e.rcv {
					if r.String() == m.PalomaReceiver {
						expBal[i].Add(expBal[i], m.Amount.BigInt())
					}
				}
			}
		case *types.MsgBatchSendToRemoteClaim:
			if strings.EqualFold(m.TokenContract, tokC[c]) {
				if to, okk := bat[[2]uint64{uint64(c), m.BatchNonce}]; okk && m.EthBlockHeight < to {
					delete(bat, [2]uint64{uint64(c), m.BatchNonce})
					ran = true
				}
			}
		case *types.MsgLightNodeSaleClaim:
			if saleC[c] != "" && m.SmartContractAddress == saleC[c] {
				for i, cl := range e.client[c] {
					id := int64(10*c + i + 1)
					if _, has := lic[id]; cl == m.ClientAddress && !has {
						lic[id] = m.Amount.Int64()
						ran = true
					}
				}
			}
		}
		run.Count("handler", fmt.Sprintf("%s ran=%v", a.Cl.GetType(), ran))
	}
	if o.Kind == "tally" || o.Kind == "vote" || o.Kind == "prune" || o.Kind == "catchup" || o.Kind == "override" || o.Kind == "activate" {
		// exactly once when applicable, never otherwise — batches and licences
		var wantBat []string
		for _, b := range pre.Bat {
			if _, still := bat[[2]uint64{b[0], b[1]}]; still {
				wantBat = append(wantBat, fmt.Sprint(b))
			}
		}
		var gotBat []string
		for _, b := range post.Bat {
			gotBat = append(gotBat, fmt.Sprint(b))
		}
		if strings.Join(wantBat, ",") != strings.Join(gotBat, ",") {
			out = append(out, viol{"C02:effect-not-exactly-once", fmt.Sprintf("chain %d pending batches %v, the executed-batch claims that took effect in this step leave %v", c, gotBat, wantBat)})
		}
		got := map[int64]int64{}
		for _, l := range post.Lic {
			got[l[0]] = l[1]
		}
		same := len(got) == len(lic)
		for kk, v := range lic {
			if got[kk] != v {
				same = false
			}
		}
		if !same {
			out = append(out, viol{"C02:effect-not-exactly-once", fmt.Sprintf("chain %d licences %v, the sale claims that took effect in this step give %v", c, got, lic)})
		}
	}
	if o.Kind == "override" || o.Kind == "activate" {
		or.epoch[c]++
		// a reset moves the cursor AND every existing validator record to the new value
		want := o.N
		if o.Kind == "activate" {
			want = 0
		}
		if post.Last != want {
			out = append(out, viol{"C02:reset-incomplete", fmt.Sprintf("chain %d: %s to %d left the cursor at %d", c, o.Kind, want, post.Last)})
		}
		for _, r := range post.VN {
			if r[1] != want {
				out = append(out, viol{"C02:reset-incomplete", fmt.Sprintf("chain %d: %s to %d left validator %d's nonce record at %d", c, o.Kind, want, r[0], r[1])})
			}
		}
		if len(post.VN) != len(pre.VN) {
			out = append(out, viol{"C02:reset-incomplete", fmt.Sprintf("chain %d: %s changed the set of validator nonce records (%d -> %d)", c, o.Kind, len(pre.VN), len(post.VN))})
		}
	} else {
		// the cursor moves only by claims taking effect, one nonce at a time
		good := post.Last-pre.Last == uint64(len(newly))
		for i, a := range newly {
			if a.Nonce != pre.Last+1+uint64(i) {
				good = false
			}
		}
		if !good {
			var ns []uint64
			for _, a := range newly {
				ns = append(ns, a.Nonce)
			}
			out = append(out, viol{"C02:cursor-not-consecutive-effects",
				fmt.Sprintf("op %s moved the cursor %d -> %d while the claims that took effect are at nonces %v", o.Kind, pre.Last, post.Last, ns)})
		}
	}
	for i := range post.Bal {
		if d := new(big.Int).Sub(post.Bal[i], pre.Bal[i]); d.Cmp(expBal[i]) != 0 {
			out = append(out, viol{"C02:effect-not-exactly-once",
				fmt.Sprintf("receiver %d balance changed by %s, the claims that took effect in this step (observed, registered token, deliverable receiver) pay %s", i, d, expBal[i])})
		}
	}
	if o.Kind == "tally" {
		out = append(out, or.stall(run, c, ok, errText, pre, post, newly, pw, total)...)
	}
	return out
}

// stall tells a stalled oracle (documented behaviour: theorems stalls_until_override,
// stalls_on_refused_height, tally_aborts_while_stalled) from a safety violation.  A tally that
// reports an error must be explained by a blocking attestation at cursor+1 of the current
// deployment — already observed, or holding > 66 % with a remote height below the last observed
// one —, must have written nothing unless a claim sorted BEFORE the blocker took effect, and must
// not have let anything sorted after it take effect.  A tally that reports no error must not leave
// behind an attestation at cursor+1 that could have been applied (a silent stall).
func (or *oracle) stall(run *emit.Run, c int, ok bool, errText string, pre, post snap, newly []attObs, pw []int64, total int64) []viol {
	var out []viol
	// the order in which the end-blocker meets the attestations: store order, cursor moving as claims take effect
	cur, ht := pre.Last, pre.Height
	kind := ""
	fires := map[string]bool{}
	for i := range pre.Atts {
		a := &pre.Atts[i]
		if a.Nonce != cur+1 || !inCompass(pre.Compass, *a) {
			continue
		}
		if a.Observed {
			kind = "already observed (reset to a lower nonce)"
			break
		}
		if gt66(distinctPower(*a, pw), total) {
			if a.Cl.GetEthBlockHeight() < ht {
				kind = "remote height below the last observed one"
				break
			}
			fires[a.Hash] = true
			cur, ht = a.Nonce, a.Cl.GetEthBlockHeight()
		}
	}
	if !ok {
		run.Count("tally_error", classify(errText))
		if kind == "" {
			return append(out, viol{"C02:tally-error-unexplained", fmt.Sprintf("chain %d: attestationTally failed (%s) with no blocking attestation at nonce %d", c, firstLine(errText), cur+1)})
		}
		run.Count("stall", kind)
		if len(newly) == 0 && !chainEqual(pre, post) {
			out = append(out, viol{"C02:stalled-tally-wrote", fmt.Sprintf("chain %d: attestationTally failed at nonce %d (%s) but changed the stores", c, cur+1, kind)})
		}
	} else if kind != "" {
		out = append(out, viol{"C02:blocker-passed", fmt.Sprintf("chain %d: attestationTally returned nil although the attestation it meets at nonce %d is blocking: %s", c, cur+1, kind)})
	}
	// what took effect is what is met before the blocker, nothing sorted after it
	for _, a := range newly {
		if !fires[a.Hash] {
			out = append(out, viol{"C02:effect-past-blocker", fmt.Sprintf("chain %d: the claim at nonce %d took effect although the tally order does not reach it (blocker: %q)", c, a.Nonce, kind)})
		}
		delete(fires, a.Hash)
	}
	if len(fires) > 0 {
		out = append(out, viol{"C02:silent-stall", fmt.Sprintf("chain %d: %d attestation(s) with > 66%% of the power, in order and with an acceptable height, were not applied by attestationTally (returned nil=%v)", c, len(fires), ok)})
	}
	if ok { // silent stall, judged on the state after the tally alone
		for _, a := range post.Atts {
			if a.Nonce == post.Last+1 && !a.Observed && inCompass(post.Compass, a) && gt66(distinctPower(a, pw), total) && a.Cl.GetEthBlockHeight() >= post.Height {
				out = append(out, viol{"C02:silent-stall", fmt.Sprintf("chain %d: attestationTally returned nil and left the attestation at nonce %d un-applied although distinct voters hold %d of %d and its height is not refused", c, a.Nonce, distinctPower(a, pw), total)})
			}
		}
	}
	return out
}

// bodyOf: every field of a claim except who submitted it (orchestrator, metadata), as exact text
func bodyOf(cl types.EthereumClaim) string {
	switch m := cl.(type) {
	case *types.MsgSendToPalomaClaim:
		return fmt.Sprintf("deposit nonce=%d/%d height=%d token=%q amount=%s sender=%q receiver=%q chain=%q compass=%q", m.EventNonce, m.SkywayNonce, m.EthBlockHeight, m.TokenContract, m.Amount, m.EthereumSender, m.PalomaReceiver, m.ChainReferenceId, m.CompassId)
	case *types.MsgBatchSendToRemoteClaim:
		return fmt.Sprintf("batch nonce=%d/%d height=%d batch=%d token=%q chain=%q compass=%q", m.EventNonce, m.SkywayNonce, m.EthBlockHeight, m.BatchNonce, m.TokenContract, m.ChainReferenceId, m.CompassId)
	case *types.MsgLightNodeSaleClaim:
		return fmt.Sprintf("sale nonce=%d/%d height=%d client=%q amount=%s contract=%q chain=%q compass=%q", m.EventNonce, m.SkywayNonce, m.EthBlockHeight, m.ClientAddress, m.Amount, m.SmartContractAddress, m.ChainReferenceId, m.CompassId)
	}
	return fmt.Sprintf("%T", cl)
}

func firstLine(s string) string {
	if i := strings.IndexByte(s, '\n'); i >= 0 {
		return s[:i]
	}
	return s
}

// ---- running one history ----
func (e *env) history(run *emit.Run, ops []opT, label string) {
	ctx, _ := e.base.CacheContext() // discarded: every history starts from the same fresh chain
	e.pal.lic = map[string]int64{}
	or := newOracle()
	var steps []string
	accepted, rejected, fired := 0, 0, 0
	// every history ends with an operation on each chain, so that each chain's final state is compared
	for ci := 0; ci < nChains; ci++ {
		ops = append(ops, opT{Kind: "tally", C: ci})
	}
	// order-preserving ranks of the claim hashes of this history
	var hs []uint64
	rank := map[uint64]int{}
	chainsUsed := map[int]bool{}
	for _, o := range ops {
		if o.Kind == "vote" {
			h, _ := e.hashOf(o.C, o.Claim)
			if _, ok := rank[h]; !ok {
				rank[h] = 0
				hs = append(hs, h)
			}
			chainsUsed[o.C] = true
		}
	}
	sort.Slice(hs, func(i, j int) bool { return hs[i] < hs[j] })
	for i, h := range hs {
		rank[h] = i + 1
	}
	// the model starts with nobody bonded; the fixture's five validators are
	pre := e.observeAll(ctx)
	prevL := make([]*lists, nChains)
	emitStep := func(o opT, ao applyOut, post []snap) {
		ci, tag := o.C, fmt.Sprintf("(Some %d)", o.C)
		if global(o) {
			ci, tag = 0, "None"
		}
		ob, cur := coqObs(ci, ao.ok, post[ci], prevL[ci], rank)
		prevL[ci] = &cur
		steps = append(steps, emit.Pair(tag, e.coqOp(o, ao, rank), ob))
	}
	emitStep(opT{Kind: "valset", Status: []int{0, 0, 0, 0, 0}}, applyOut{ok: true}, pre)
	for i, o := range ops {
		bondedBefore := o.Kind == "vote" && e.isBonded(ctx, o.V)
		ao := e.apply(ctx, o)
		post := e.observeAll(ctx)
		emitStep(o, ao, post)
		run.Count("ops", o.Kind)
		if o.Kind == "vote" || o.Kind == "tally" {
			if ao.ok {
				accepted++
			} else {
				rejected++
				if o.Kind == "vote" {
					run.Count("errors", classify(ao.errText))
				}
			}
		}
		if o.Kind == "vote" {
			run.Count("claim_type", o.Claim.typ())
			if o.signer() != o.V {
				run.Count("foreign_signer", fmt.Sprintf("%s accepted=%v", o.Claim.typ(), ao.ok))
			}
		}
		c := o.C
		if global(o) {
			c = 0
		}
		if post[c].Last != pre[c].Last && o.Kind == "tally" {
			fired++
			for _, a := range post[c].Atts {
				if a.Observed && a.Nonce > pre[c].Last && a.Nonce <= post[c].Last {
					run.Count("applied_type", a.Cl.GetType().String())
				}
			}
		}
		vs := or.step(e, ctx, run, o, ao.ok, ao.errText, bondedBefore, pre, post)
		if len(vs) > 0 {
			for _, v := range vs {
				run.Violate(v.id, v.what, map[string]any{"history": label, "ops": ops[:i+1]})
			}
			break
		}
		pre = post
	}
	run.Count("fired_per_history", fmt.Sprint(min(fired, 5)))
	run.Count("chains_voted_on", fmt.Sprint(len(chainsUsed)))
	run.Case("C02.CHist "+emit.List(steps), accepted > 0 && rejected > 0 && fired > 0, map[string]any{"label": label, "ops": len(ops)})
}

func classify(s string) string {
	switch {
	case strings.Contains(s, "non contiguous event nonce"):
		return "non-contiguous nonce"
	case strings.Contains(s, "invalid height"):
		return "height differs from stored claim"
	case strings.Contains(s, "must be positive"):
		return "nonce 0"
	case strings.Contains(s, "attempting to process observed attestation"):
		return "tally: already observed"
	case strings.Contains(s, "roll back Ethereum block height"):
		return "tally: height rollback"
	case strings.Contains(s, "timed out"):
		return "batch claim at or after the batch timeout"
	case strings.Contains(s, "not in active set"):
		return "validator not bonded"
	case strings.Contains(s, "validator"), strings.Contains(s, "orchestrator"), strings.Contains(s, "orchstrator"):
		return "unknown validator"
	case strings.Contains(s, "panic"):
		return "panic"
	}
	return "other: " + s
}

// ---- generators ----
var powerShapes = [][]int64{
	{1, 1, 1, 1, 1}, {20, 20, 20, 20, 20}, {34, 20, 20, 16, 10}, {67, 10, 10, 10, 3}, {66, 34, 0, 0, 0},
	{33, 33, 34, 0, 0}, {50, 50, 0, 0, 0}, {1000, 1, 1, 1, 1}, {22, 22, 22, 17, 17}, {0, 0, 0, 0, 1},
}

func genPowers(r *rand.Rand) opT {
	var pw []int64
	switch r.Intn(7) {
	case 6: // near CometBFT's cap on the total voting power (MaxInt64/8 = 1.15e18): 66*total does not fit an int64
		for i := 0; i < nVals; i++ {
			pw = append(pw, 100_000_000_000_000_000+r.Int63n(120_000_000_000_000_000))
		}
		var sum int64
		for _, p := range pw {
			sum += p
		}
		return opT{Kind: "powers", Pw: pw, Total: sum}
	case 0, 3:
		pw = append(pw, powerShapes[r.Intn(len(powerShapes))]...)
		r.Shuffle(len(pw), func(i, j int) { pw[i], pw[j] = pw[j], pw[i] })
	case 1, 4:
		for i := 0; i < nVals; i++ {
			pw = append(pw, int64(r.Intn(60)))
		}
	default:
		base := int64(1 + r.Intn(1000000))
		for i := 0; i < nVals; i++ {
			pw = append(pw, base*int64(1+r.Intn(4))+int64(r.Intn(3)))
		}
	}
	var sum int64
	for _, p := range pw {
		sum += p
	}
	total := sum
	if r.Intn(5) == 0 { // other bonded validators that never vote
		total += int64(r.Intn(int(sum/2 + 2)))
	} else if r.Intn(25) == 0 { // staking's two stores disagree (x/staking never does this): total below the sum, zero, negative
		total = []int64{sum / 2, 0, -5, sum - 1}[r.Intn(4)]
	}
	return opT{Kind: "powers", Pw: pw, Total: total}
}

// genValset: some validators leave the bonded set (unbonding / unbonded / record removed), some are
// jailed (a jailed validator is still Bonded until the staking end-blocker runs); usually followed
// by the powers staking would report (0 for those that left, total without them).
func genValset(r *rand.Rand, st []int) []opT {
	status := make([]int, nVals)
	jailed := make([]bool, nVals)
	for i := range status {
		switch x := r.Intn(10); {
		case x < 6:
			status[i] = 0
		case x < 7:
			status[i] = 1
		case x < 8:
			status[i] = 2
		default:
			status[i] = 3
		}
		jailed[i] = r.Intn(4) == 0
	}
	if r.Intn(3) == 0 { // everybody back
		status = make([]int, nVals)
	}
	copy(st, status)
	ops := []opT{{Kind: "valset", Status: status, Jailed: jailed}}
	if r.Intn(4) > 0 {
		p := genPowers(r)
		var sum int64
		for i := range p.Pw {
			if status[i] != 0 {
				p.Pw[i] = 0
			}
			sum += p.Pw[i]
		}
		p.Total = sum
		ops = append(ops, p)
	}
	return ops
}

// per-chain shadow of the generator (only to aim it)
type shadow struct {
	next    []uint64
	cursor  uint64
	compass int
	made    []uint64 // batch nonces built on this chain
	bigOn   bool              // this chain's deposits carry amounts over the whole math.Int range
	bigs    map[uint64]string // per event nonce, so that all validators report the same amount
	used255 *bool
}

func (sh *shadow) bigFor(r *rand.Rand, n uint64) string {
	if sh.bigs == nil {
		sh.bigs = map[uint64]string{}
	}
	if sh.used255 == nil {
		sh.used255 = new(bool)
	}
	if _, ok := sh.bigs[n]; !ok {
		sh.bigs[n] = bigAmount(r, n, sh.used255)
	}
	return sh.bigs[n]
}

var truthKind = 0 // the kind the "case" variant is derived from (set by the caller)

// amounts over the whole math.Int range, boundary biased (2^255 at most once per history: the supply must fit 256 bits)
func bigAmount(r *rand.Rand, n uint64, used *bool) string {
	// 2^255 itself is driven by the corpus witness w_deposit_2p255.json (one application, nothing else in the history)
	exps := []uint{63, 63, 64, 128, 200, 248}
	x := new(big.Int).Lsh(big.NewInt(1), exps[r.Intn(len(exps))])
	switch r.Intn(3) {
	case 0:
		x.Sub(x, big.NewInt(1))
	case 1:
		x.Add(x, big.NewInt(int64(n)))
	}
	return x.String()
}

// claim variants at one nonce: variant 0 is "what happened", the others compete with it.
func variant(r *rand.Rand, sh *shadow, n uint64, k int) *claimT {
	c := &claimT{Nonce: n, Height: 100 + 10*n, Tok: true, Amt: int64(1000 + n), Rcv: int(n % nRcv), Compass: sh.compass}
	if sh.bigOn && (k == 0 || k == 2 || k == 3 || k == 4 || k == 9) {
		c.Big = sh.bigFor(r, n)
	}
	switch k {
	case 9: // the event with a text field in another letter case (receiver / client, compass id, sale contract)
		t := variant(r, sh, n, truthKind)
		t.Case = []int{1, 1, 2, 4, 3}[r.Intn(5)]
		if t.Case&1 != 0 && !t.Batch && !t.Sale {
			t.Big = "" // an undeliverable deposit goes to the community pool, whose DecCoins hold 2^255 no more
		}
		return t
	case 1:
		c.Amt += 777
		c.Rcv = (c.Rcv + 1) % nRcv
	case 2:
		c.Tok = false // handler cannot apply it
	case 3:
		c.Height += 5
	case 4:
		c.Height = 1 // far below everything observed before
	case 5, 6: // executed-batch claim: a pending batch of this chain, an unknown one, or another token contract
		c.Batch, c.Tok, c.Rcv = true, false, 0
		c.Amt = int64(1 + n%3)
		if k == 5 && len(sh.made) > 0 { // "what happened": the same batch for every validator
			c.Amt = int64(sh.made[int(n)%len(sh.made)])
		} else if len(sh.made) > 0 && r.Intn(3) > 0 {
			c.Amt = int64(sh.made[r.Intn(len(sh.made))])
		}
		c.OtherTk = k == 6 && r.Intn(6) == 0
		if k == 6 && r.Intn(3) == 0 { // at / just below / just above the batch timeout (block time + 10 min, as a height)
			c.Height = uint64(batchTimeout + int64(r.Intn(3)) - 1)
		}
	case 7, 8: // light-node sale: right / wrong sale contract, one of three clients
		c.Sale = true
		c.Tok = k == 7 || r.Intn(2) == 0
		c.Rcv = int(n) % nClients
		if k == 8 {
			c.Rcv = r.Intn(nClients)
		}
		c.Amt = int64(50 + n)
	}
	return c
}

// what the events of a chain "really" are: a mix of the three types, fixed per (chain, nonce)
func truth(ci int, n uint64) int {
	switch (n + uint64(ci)) % 5 {
	case 3:
		return 5
	case 4:
		return 7
	}
	return 0
}

func (e *env) structured(r *rand.Rand, hostile bool) []opT {
	ops := []opT{genPowers(r)}
	n := 8 + r.Intn(30)
	// how many chains this history works on
	active := []int{r.Intn(nChains)}
	if x := r.Intn(10); x >= 3 {
		active = r.Perm(nChains)[:2+r.Intn(2)]
	}
	sh := make([]*shadow, nChains)
	used255 := new(bool)
	for ci := range sh {
		sh[ci] = &shadow{next: []uint64{1, 1, 1, 1, 1}, bigOn: r.Intn(4) == 0, used255: used255}
	}
	status := make([]int, nVals)
	for _, ci := range active {
		if r.Intn(4) == 0 {
			sh[ci].compass = 1 + r.Intn(2)
			ops = append(ops, opT{Kind: "activate", C: ci, ID: sh[ci].compass})
		}
		if r.Intn(3) == 0 {
			ops = append(ops, opT{Kind: "mkbatch", C: ci})
			sh[ci].made = append(sh[ci].made, uint64(e.countBatches(ops)))
		}
	}
	for len(ops) < n {
		ci := active[r.Intn(len(active))]
		s := sh[ci]
		x := r.Intn(100)
		switch {
		case x < 56:
			v := r.Intn(nVals)
			nn := s.next[v]
			k := truth(ci, nn)
			truthKind = k
			if r.Intn(100) >= 70 {
				k = 1 + r.Intn(9)
			}
			cl := variant(r, s, nn, k)
			if r.Intn(12) == 0 {
				cl.Compass = r.Intn(3)
			}
			oc := ci
			if hostile || r.Intn(10) == 0 {
				switch r.Intn(7) {
				case 0:
					cl.Nonce = nn + 1
				case 1:
					if nn > 1 {
						cl.Nonce = nn - 1
					}
				case 2:
					cl.Nonce = 0
				case 3:
					v = nVals + r.Intn(3) // not a validator
				case 4:
					cl.Nonce = s.cursor + 1
				case 5:
					oc = r.Intn(nChains) // the same claim sent to another chain
				default:
					cl.Nonce = uint64(r.Intn(4))
				}
			}
			vo := opT{Kind: "vote", C: oc, V: v, Claim: cl}
			if r.Intn(100) < 5 || (hostile && r.Intn(5) == 0) { // created by another account (a validator's or an outsider's) naming v
				sg := r.Intn(nVals + 3)
				if sg != v {
					vo.S = &sg
				}
			}
			ops = append(ops, vo)
			if vo.S != nil {
				break
			}
			if oc != ci {
				if v < nVals && status[v] == 0 && cl.Nonce == sh[oc].next[v] {
					sh[oc].next[v]++
				}
				break
			}
			if v < nVals && cl.Nonce == nn && status[v] == 0 {
				s.next[v] = nn + 1
			}
			// bursts: the other validators follow with the same claim
			if r.Intn(5) < 2 {
				cnt := nVals
				if r.Intn(2) == 0 {
					cnt = 1 + r.Intn(nVals)
				}
				for _, w := range r.Perm(nVals)[:cnt] {
					if s.next[w] == cl.Nonce {
						c2 := *cl
						ops = append(ops, opT{Kind: "vote", C: ci, V: w, Claim: &c2})
						if status[w] == 0 {
							s.next[w]++
						}
					}
				}
			}
		case x < 58:
			// impersonation: one account (an outsider, or one validator) submits the claim in the name of every validator
			sg := nVals + r.Intn(3)
			if r.Intn(3) == 0 {
				sg = r.Intn(nVals)
			}
			nn := s.cursor + 1
			cl := variant(r, s, nn, []int{0, 5, 7, 1 + r.Intn(8)}[r.Intn(4)])
			for _, w := range r.Perm(nVals) {
				c2, sg2 := *cl, sg
				vo := opT{Kind: "vote", C: ci, V: w, Claim: &c2}
				if sg2 != w {
					vo.S = &sg2
				} else if s.next[w] == cl.Nonce && status[w] == 0 {
					s.next[w]++
				}
				ops = append(ops, vo)
			}
			ops = append(ops, opT{Kind: "tally", C: ci})
		case x < 61:
			// the same event reported with a text field in another letter case by the FIRST voter, properly by the others
			nn := s.cursor + 1
			truthKind = truth(ci, nn)
			first := true
			for _, w := range r.Perm(nVals) {
				if s.next[w] != nn {
					continue
				}
				cl := variant(r, s, nn, truthKind)
				if first {
					cl = variant(r, s, nn, 9)
					first = false
				}
				ops = append(ops, opT{Kind: "vote", C: ci, V: w, Claim: cl})
				if status[w] == 0 {
					s.next[w]++
				}
			}
			ops = append(ops, opT{Kind: "tally", C: ci})
		case x < 73:
			ops = append(ops, opT{Kind: "tally", C: ci})
			if r.Intn(3) == 0 {
				ops = append(ops, opT{Kind: "prune", C: ci})
			}
		case x < 78:
			ops = append(ops, genPowers(r))
		case x < 82:
			ops = append(ops, genValset(r, status)...)
		case x < 85:
			ops = append(ops, opT{Kind: "catchup", C: ci})
		case x < 93:
			var to uint64
			switch r.Intn(6) {
			case 0:
				to = 0
			case 1:
				to = s.cursor
			case 2:
				if s.cursor > 0 {
					to = s.cursor - 1
				}
			case 3:
				to = s.cursor + 1 + uint64(r.Intn(3))
			case 4:
				to = 1000 + uint64(r.Intn(5))
			default:
				to = uint64(r.Intn(4))
			}
			s.cursor = to
			for i := range s.next {
				s.next[i] = to + 1
			}
			ops = append(ops, opT{Kind: "override", C: ci, N: to})
		case x < 95:
			s.compass = 1 + r.Intn(2)
			s.cursor = 0
			for i := range s.next {
				s.next[i] = 1
			}
			ops = append(ops, opT{Kind: "activate", C: ci, ID: s.compass})
		case x < 97:
			ops = append(ops, opT{Kind: "mkbatch", C: ci})
			s.made = append(s.made, uint64(e.countBatches(ops)))
		case x < 98:
			if len(s.made) > 0 {
				ops = append(ops, opT{Kind: "dropbatch", C: ci, BN: s.made[r.Intn(len(s.made))]})
			} else {
				ops = append(ops, opT{Kind: "dropbatch", C: ci, BN: uint64(1 + r.Intn(3))})
			}
		case x < 99:
			ops = append(ops, opT{Kind: "regenesis"})
			for _, t := range sh { // the compass id is not exported
				t.compass = 0
			}
		default:
			ops = append(ops, opT{Kind: "prune", C: ci})
		}
		// keep the shadow cursor roughly right: a full round of votes followed by a tally moves it
		if len(ops) > 0 && ops[len(ops)-1].Kind == "tally" {
			min := s.next[0]
			for _, x := range s.next {
				if x < min {
					min = x
				}
			}
			if min > s.cursor+1 {
				s.cursor = min - 1
			}
		}
	}
	for _, ci := range active {
		ops = append(ops, opT{Kind: "tally", C: ci})
	}
	return ops
}

// capAmounts keeps the premise "the deposits of one token sum to less than 2^256" (true of any ERC20: its total
// supply is a uint256; the bank's supply is a 256-bit math.Int and a mint beyond it panics): per chain (= per denom)
// the running sum of the huge amounts of the generated vote operations — each counted as if it alone made the
// claim take effect once — stays below 2^255 + 2^200; an amount that no longer fits falls back to the small one.
var amountBudget = new(big.Int).Add(new(big.Int).Lsh(big.NewInt(1), 255), new(big.Int).Lsh(big.NewInt(1), 200))

func capAmounts(ops []opT) []opT {
	sum := map[int]*big.Int{}
	for i := range ops {
		o := &ops[i]
		if o.Kind != "vote" || o.Claim == nil || o.Claim.Big == "" || o.Claim.Batch || o.Claim.Sale {
			continue
		}
		if sum[o.C] == nil {
			sum[o.C] = new(big.Int)
		}
		next := new(big.Int).Add(sum[o.C], o.Claim.amount().BigInt())
		if next.Cmp(amountBudget) > 0 {
			c2 := *o.Claim
			c2.Big = ""
			o.Claim = &c2
			continue
		}
		sum[o.C] = next
	}
	return ops
}

func (e *env) countBatches(ops []opT) int {
	n := 0
	for _, o := range ops {
		if o.Kind == "mkbatch" {
			n++
		}
	}
	return n
}

// boundary aims at the threshold itself: the first k voters hold exactly floor(66*T/100) + d of the
// total T (d in -1, 0, +1); 0 and -1 must not fire, +1 must.
func (e *env) boundary(r *rand.Rand) []opT {
	totals := []int64{3, 5, 7, 10, 50, 99, 100, 101, 150, 200, 1000, 12345, int64(1 + r.Intn(1000000))}
	T := totals[r.Intn(len(totals))]
	q := 66 * T / 100
	s := q + []int64{0, 0, 1, 1, -1}[r.Intn(5)]
	if s < 0 {
		s = 0
	}
	if s > T {
		s = T
	}
	k := 1 + r.Intn(4)
	split := func(x int64, parts int) []int64 {
		out := make([]int64, parts)
		for i := 0; i < parts-1; i++ {
			out[i] = r.Int63n(x + 1)
			x -= out[i]
		}
		out[parts-1] = x
		return out
	}
	perm := r.Perm(nVals)
	pw := make([]int64, nVals)
	for i, x := range split(s, k) {
		pw[perm[i]] = x
	}
	for i, x := range split(T-s, nVals-k) {
		pw[perm[k+i]] = x
	}
	total := T
	ci := r.Intn(nChains)
	sh := &shadow{}
	ops := []opT{{Kind: "powers", Pw: pw, Total: total}}
	cl := variant(r, sh, 1, r.Intn(3))
	for i := 0; i < k; i++ {
		c := *cl
		ops = append(ops, opT{Kind: "vote", C: ci, V: perm[i], Claim: &c})
	}
	ops = append(ops, opT{Kind: "tally", C: ci})
	if r.Intn(3) == 0 { // power moves between vote and tally
		ops = append(ops, genPowers(r), opT{Kind: "tally", C: ci})
	}
	for i := k; i < nVals; i++ {
		c := *cl
		if r.Intn(4) == 0 {
			c = *variant(r, sh, 1, 3)
		}
		ops = append(ops, opT{Kind: "vote", C: ci, V: perm[i], Claim: &c}, opT{Kind: "tally", C: ci})
	}
	// a second nonce, voted by everybody who can
	for i := 0; i < nVals; i++ {
		ops = append(ops, opT{Kind: "vote", C: ci, V: perm[i], Claim: variant(r, sh, 2, 0)})
	}
	ops = append(ops, opT{Kind: "tally", C: ci})
	return ops
}

// stalls aims at the two documented stalls and at the ways out of them.
func (e *env) stalls(r *rand.Rand) []opT {
	ci := r.Intn(nChains)
	sh := &shadow{}
	ops := []opT{{Kind: "powers", Pw: []int64{1, 1, 1, 1, 1}, Total: 5}}
	all := func(c *claimT, vs []int) {
		for _, v := range vs {
			cc := *c
			ops = append(ops, opT{Kind: "vote", C: ci, V: v, Claim: &cc})
		}
	}
	k := uint64(1 + r.Intn(3))
	for n := uint64(1); n <= k; n++ {
		all(variant(r, sh, n, 0), r.Perm(nVals))
	}
	ops = append(ops, opT{Kind: "tally", C: ci})
	var at uint64
	if r.Intn(2) == 0 {
		// (1) override to a lower nonce: the events are re-submitted and land on observed attestations
		at = uint64(r.Intn(int(k)))
		ops = append(ops, opT{Kind: "override", C: ci, N: at})
		p := r.Perm(nVals)
		nre := r.Intn(3)
		all(variant(r, sh, at+1, 0), p[:nre])             // the honest re-submission
		all(variant(r, sh, at+1, 1+r.Intn(3)), p[nre:])   // a competing claim, higher or lower hash, with or without the votes
	} else {
		// (2) the next event names a remote height below the last observed one
		at = k
		low := variant(r, sh, at+1, 4)
		p := r.Perm(nVals)
		nlow := 3 + r.Intn(3)
		all(low, p[:nlow])
		all(variant(r, sh, at+1, 1), p[nlow:])
	}
	ops = append(ops, opT{Kind: "tally", C: ci}, opT{Kind: "tally", C: ci})
	if r.Intn(2) == 0 {
		ops = append(ops, genPowers(r), opT{Kind: "tally", C: ci})
	}
	// the way out: governance overrides again
	to := k
	if r.Intn(3) == 0 {
		to = at + 1
	}
	ops = append(ops, opT{Kind: "override", C: ci, N: to})
	nx := variant(r, sh, to+1, 0)
	nx.Height = 100 + 10*(k+2)
	all(nx, r.Perm(nVals))
	ops = append(ops, opT{Kind: "tally", C: ci})
	return ops
}

// ---- corpus: minimised past failures, replayed first ----
func corpusDir() string {
	if d := os.Getenv("VERIF_CORPUS"); d != "" {
		return d
	}
	return "/verif/harness/corpus/C02"
}

func loadCorpus(t *testing.T) map[string][]opT {
	out := map[string][]opT{}
	files, _ := filepath.Glob(filepath.Join(corpusDir(), "*.json"))
	sort.Strings(files)
	for _, f := range files {
		b, err := os.ReadFile(f)
		if err != nil {
			t.Fatal(err)
		}
		var doc struct {
			Ops []opT `json:"ops"`
		}
		if err := json.Unmarshal(b, &doc); err != nil {
			t.Fatalf("%s: %v", f, err)
		}
		out[filepath.Base(f)] = doc.Ops
	}
	return out
}

func TestCorr(t *testing.T) {
	run := emit.Start("C02", 400)
	run.Rule("one case = one history on the real skyway keeper (SetupFiveValChain) with three remote chains (per-chain cursor, validator nonces, compass id, bridge token, sale contract) over one staking module; " +
		"1-3 chains per history, 8-38 operations: claims of all three types (SendToPalomaClaim / BatchSendToRemoteClaim for real pending batches, unknown batches, another token / LightNodeSaleClaim with the right or a wrong sale contract) " +
		"through ValidateBasic + their msg server in a cache context, by 5 validators, up to 9 competing variants per nonce (other amount/receiver, unregistered token, other height, height below the last observed one, other compass id, the same claim sent to another chain), bursts of " +
		"followers, attestationTally / pruneAttestations (hooks), power changes between vote and tally (equal, 34%, 66/34, 67%, zero powers, non-voting power in the total), " +
		"validator records rewritten in the real staking keeper between vote and tally (Bonded / Unbonding / Unbonded / record removed, jailed flag; powers 0 for those that left), " +
		"UpdateValidatorNoncesToLatest, governance nonce override to 0 / cursor / cursor-1 / higher / >1000, chain activation with a new compass id, real batches built and cancelled, genesis export + store wipe + import; " +
		"~12% threshold histories (k voters holding exactly floor(66T/100)-1, +0, +1 of T, T from 3 to 10^6); ~10% stall histories (override to a lower nonce with re-submission and a competing claim; an event whose remote height is below the last observed one; then the override that ends the stall); ~15% hostile histories (non-contiguous nonces, nonce 0, unknown orchestrators, re-votes, claims sent to the wrong chain). " +
		"Every step: projected stores of the addressed chain compared with the model, the other chains' stores compared with their state before the step on the real side; direct oracle on the real state (incl. stall vs violation). " +
		"non-trivial = history with an accepted vote, a rejected operation and at least one claim taking effect")
	search := os.Getenv("VERIF_SEARCH") != ""
	if search {
		run.Extra("search", true)
	}
	e := setup(t)
	corp := loadCorpus(t)
	var names []string
	for k := range corp {
		names = append(names, k)
	}
	sort.Strings(names)
	for _, k := range names {
		e.history(run, corp[k], "corpus/"+k)
	}
	i := 0
	for run.NCases() < run.N {
		x := run.Rng.Intn(100)
		switch {
		case x < 12 || (search && x < 30):
			run.Count("kind", "boundary")
			e.history(run, e.boundary(run.Rng), fmt.Sprintf("seed%d/%d/boundary", run.Seed, i))
		case x < 22 || (search && x < 45):
			run.Count("kind", "stall")
			e.history(run, e.stalls(run.Rng), fmt.Sprintf("seed%d/%d/stall", run.Seed, i))
		default:
			hostile := x >= 85
			run.Count("kind", map[bool]string{true: "hostile", false: "structured"}[hostile])
			e.history(run, capAmounts(e.structured(run.Rng, hostile)), fmt.Sprintf("seed%d/%d", run.Seed, i))
		}
		i++
	}
	if err := run.Finish("Skyway.Oracle Skyway.OracleChains Corr.C02", "C02.case", "C02.check"); err != nil {
		t.Fatal(err)
	}
}
