// Package c02: correspondence harness + direct oracle for C02 (skyway oracle safety).
//
// Drives the REAL skyway keeper of keeper.SetupFiveValChain: claims go through ValidateBasic and
// msgServer.SendToPalomaClaim inside a tx-like cache context; the end-blocker steps
// attestationTally / pruneAttestations run through the verif hooks on the block context (the
// end-blocker has no cache context); UpdateValidatorNoncesToLatest is the keeper method;
// governance resets go through msgServer.OverrideNonceProposal; chain activation is the real
// eventbus event the EVM keeper publishes; powers are written into the real staking store
// (SetLastValidatorPower / SetLastTotalPower), which is what TryAttestation reads.
//
// After every operation the projected state of the real stores is recorded for the Coq model
// (Corr/C02.v) and the property's direct oracle is evaluated on the real state, independently of
// the model.
package c02

import (
	"encoding/binary"
	"encoding/json"
	"fmt"
	"math/rand"
	"os"
	"path/filepath"
	"sort"
	"strings"
	"testing"

	"cosmossdk.io/log"
	sdkmath "cosmossdk.io/math"
	sdk "github.com/cosmos/cosmos-sdk/types"
	"github.com/palomachain/paloma/v2/util/eventbus"
	"github.com/palomachain/paloma/v2/verifharness/emit"
	"github.com/palomachain/paloma/v2/x/skyway"
	"github.com/palomachain/paloma/v2/x/skyway/keeper"
	"github.com/palomachain/paloma/v2/x/skyway/types"
	valsettypes "github.com/palomachain/paloma/v2/x/valset/types"
)

const (
	chain     = "test-chain"
	denom     = "ugrain"
	tokReg    = "0x0bc529c00C6401aEF6D220BE8C6Ea1667F6Ad93e" // mapped to ugrain by the test environment
	tokUnreg  = "0x3333333333333333333333333333333333333333"
	ethSender = "0x2222222222222222222222222222222222222222"
	nVals     = 5
	nRcv      = 3
)

var compassIDs = []string{"", "compass-one", "compass-two"}

// ---- operations (also the replay / corpus format) ----
type claimT struct {
	Nonce   uint64 `json:"nonce"`
	Height  uint64 `json:"height"`
	Tok     bool   `json:"tok"`
	Amt     int64  `json:"amt"`
	Rcv     int    `json:"rcv"`
	Compass int    `json:"compass"`
	Batch   bool   `json:"batch,omitempty"` // a MsgBatchSendToRemoteClaim (batch nonce = amt) instead of a deposit
}

type opT struct {
	Kind  string  `json:"op"` // vote tally prune powers catchup override activate
	V     int     `json:"v,omitempty"`
	Claim *claimT `json:"claim,omitempty"`
	N     uint64  `json:"n,omitempty"`
	ID    int     `json:"id,omitempty"`
	Pw    []int64 `json:"pw,omitempty"`
	Total int64   `json:"total,omitempty"`
}

type env struct {
	in    keeper.TestInput
	base  sdk.Context
	ms    types.MsgServer
	rcv   []sdk.AccAddress
	valIx map[string]int // valoper bech32 -> index
	rawIx map[string]int // raw address bytes -> index
	hashH map[uint64]string
}

func setup(t *testing.T) *env {
	in, c := keeper.SetupFiveValChain(t)
	e := &env{in: in, valIx: map[string]int{}, rawIx: map[string]int{}, hashH: map[uint64]string{}}
	e.base = sdk.UnwrapSDKContext(c).WithLogger(log.NewNopLogger())
	e.ms = keeper.NewMsgServerImpl(in.SkywayKeeper)
	for i := 0; i < nVals; i++ {
		e.valIx[keeper.ValAddrs[i].String()] = i
		e.rawIx[string(keeper.ValAddrs[i].Bytes())] = i
	}
	for i := 0; i < nRcv; i++ {
		b := make([]byte, 20)
		b[0], b[1], b[19] = 0xC0, 0x02, byte(i+1)
		e.rcv = append(e.rcv, sdk.AccAddress(b))
	}
	return e
}

func (e *env) orch(v int) string {
	if v >= 0 && v < nVals {
		return keeper.AccAddrs[v].String()
	}
	b := make([]byte, 20)
	b[0], b[19] = 0xEE, byte(v)
	return sdk.AccAddress(b).String()
}

func (e *env) mkBatchClaim(v int, c *claimT) *types.MsgBatchSendToRemoteClaim {
	o := e.orch(v)
	return &types.MsgBatchSendToRemoteClaim{
		EventNonce:       c.Nonce,
		EthBlockHeight:   c.Height,
		BatchNonce:       uint64(c.Amt),
		TokenContract:    tokReg,
		ChainReferenceId: chain,
		Orchestrator:     o,
		Metadata:         valsettypes.MsgMetadata{Creator: o, Signers: []string{o}},
		SkywayNonce:      c.Nonce,
		CompassId:        compassIDs[c.Compass],
	}
}

func (e *env) mkClaim(v int, c *claimT) *types.MsgSendToPalomaClaim {
	tok := tokUnreg
	if c.Tok {
		tok = tokReg
	}
	o := e.orch(v)
	return &types.MsgSendToPalomaClaim{
		EventNonce:       c.Nonce,
		EthBlockHeight:   c.Height,
		TokenContract:    tok,
		Amount:           sdkmath.NewInt(c.Amt),
		EthereumSender:   ethSender,
		PalomaReceiver:   e.rcv[c.Rcv].String(),
		Orchestrator:     o,
		ChainReferenceId: chain,
		Metadata:         valsettypes.MsgMetadata{Creator: o, Signers: []string{o}},
		SkywayNonce:      c.Nonce,
		CompassId:        compassIDs[c.Compass],
	}
}

func (e *env) hashOf(c *claimT) (uint64, []byte) {
	var h []byte
	var err error
	if c.Batch {
		h, err = e.mkBatchClaim(0, c).ClaimHash()
	} else {
		h, err = e.mkClaim(0, c).ClaimHash()
	}
	if err != nil {
		panic(err)
	}
	x := binary.BigEndian.Uint64(h[:8]) >> 1 // 63 bits, order preserving
	if prev, ok := e.hashH[x]; ok && prev != string(h) {
		panic("two claim hashes share their first 63 bits")
	}
	e.hashH[x] = string(h)
	return x, h
}

// ---- projected state of the real stores ----
type attObs struct {
	Nonce    uint64
	H        uint64
	Hash     string
	Votes    []int
	RawVotes []string
	Observed bool
	Claim    *types.MsgSendToPalomaClaim
	Compass  string
}

type snap struct {
	Last    uint64
	Height  uint64
	Compass int
	Atts    []attObs
	VN      [][2]uint64
	Bal     []int64
}

func (e *env) observe(ctx sdk.Context) snap {
	k := e.in.SkywayKeeper
	var s snap
	var err error
	s.Last, err = k.GetLastObservedSkywayNonce(ctx, chain)
	if err != nil {
		panic(err)
	}
	s.Height = k.GetLastObservedEthereumBlockHeight(ctx, chain).EthereumBlockHeight
	cid := k.GetLatestCompassID(ctx, chain)
	s.Compass = -1
	for i, x := range compassIDs {
		if x == cid {
			s.Compass = i
		}
	}
	err = k.IterateAttestations(ctx, chain, false, func(_ []byte, att types.Attestation) bool {
		cl, err := k.UnpackAttestationClaim(&att)
		if err != nil {
			panic(err)
		}
		hash, _ := cl.ClaimHash()
		a := attObs{Nonce: cl.GetSkywayNonce(), H: binary.BigEndian.Uint64(hash[:8]) >> 1, Hash: string(hash), Observed: att.Observed, RawVotes: att.Votes, Compass: cl.GetCompassID()}
		a.Claim, _ = cl.(*types.MsgSendToPalomaClaim)
		for _, v := range att.Votes {
			ix, ok := e.valIx[v]
			if !ok {
				ix = -1
			}
			a.Votes = append(a.Votes, ix)
		}
		s.Atts = append(s.Atts, a)
		return false
	})
	if err != nil {
		panic(err)
	}
	err = k.IterateValidatorLastEventNonces(ctx, chain, func(key []byte, nonce uint64) bool {
		ix, ok := e.rawIx[string(key)]
		if !ok {
			panic("validator nonce record of an unknown validator")
		}
		s.VN = append(s.VN, [2]uint64{uint64(ix), nonce})
		return false
	})
	if err != nil {
		panic(err)
	}
	sort.Slice(s.VN, func(i, j int) bool { return s.VN[i][0] < s.VN[j][0] })
	for _, r := range e.rcv {
		s.Bal = append(s.Bal, e.in.BankKeeper.GetBalance(ctx, r, denom).Amount.Int64())
	}
	return s
}

func (e *env) powers(ctx sdk.Context) ([]int64, int64) {
	p := make([]int64, nVals)
	for i := range p {
		x, err := e.in.StakingKeeper.GetLastValidatorPower(ctx, keeper.ValAddrs[i])
		if err != nil {
			panic(err)
		}
		p[i] = x
	}
	t, err := e.in.StakingKeeper.GetLastTotalPower(ctx)
	if err != nil {
		panic(err)
	}
	return p, t.Int64()
}

// deliver runs f like baseapp runs a message: cache context, committed on success; panic = failed tx.
func deliver(root sdk.Context, f func(ctx sdk.Context) error) (err error) {
	cctx, write := root.CacheContext()
	defer func() {
		if r := recover(); r != nil {
			err = fmt.Errorf("panic: %v", r)
		}
	}()
	err = f(cctx)
	if err == nil {
		write()
	}
	return err
}

// apply executes one operation on the real keeper; ok = accepted (vote) / returned nil (tally).
func (e *env) apply(ctx sdk.Context, o opT) (ok bool, errText string) {
	k := e.in.SkywayKeeper
	var err error
	switch o.Kind {
	case "vote":
		if o.Claim.Batch {
			msg := e.mkBatchClaim(o.V, o.Claim)
			if err = msg.ValidateBasic(); err == nil {
				err = deliver(ctx, func(c sdk.Context) error { _, er := e.ms.BatchSendToRemoteClaim(c, msg); return er })
			}
		} else {
			msg := e.mkClaim(o.V, o.Claim)
			if err = msg.ValidateBasic(); err == nil { // baseapp runs ValidateBasic before the handler
				err = deliver(ctx, func(c sdk.Context) error { _, er := e.ms.SendToPalomaClaim(c, msg); return er })
			}
		}
	case "tally":
		func() { // EndBlocker recovers panics; it runs on the block context
			defer func() {
				if r := recover(); r != nil {
					err = fmt.Errorf("panic: %v", r)
				}
			}()
			err = skyway.VerifC02AttestationTally(ctx, k, chain)
		}()
	case "prune":
		err = skyway.VerifC02PruneAttestations(ctx, k, chain)
		if err != nil {
			panic(err)
		}
	case "powers":
		for i, p := range o.Pw {
			if er := e.in.StakingKeeper.SetLastValidatorPower(ctx, keeper.ValAddrs[i], p); er != nil {
				panic(er)
			}
		}
		if er := e.in.StakingKeeper.SetLastTotalPower(ctx, sdkmath.NewInt(o.Total)); er != nil {
			panic(er)
		}
	case "catchup":
		if er := k.UpdateValidatorNoncesToLatest(ctx, chain); er != nil {
			panic(er)
		}
	case "override":
		err = deliver(ctx, func(c sdk.Context) error {
			_, er := e.ms.OverrideNonceProposal(c, &types.MsgNonceOverrideProposal{
				Metadata: valsettypes.MsgMetadata{Creator: k.GetAuthority()}, ChainReferenceId: chain, Nonce: o.N,
			})
			return er
		})
		if err != nil {
			panic(err)
		}
	case "activate":
		eventbus.EVMActivatedChain().Publish(ctx, eventbus.EVMActivatedChainEvent{ChainReferenceID: chain, SmartContractUniqueID: []byte(compassIDs[o.ID])})
	default:
		panic("unknown op " + o.Kind)
	}
	if err != nil {
		return false, err.Error()
	}
	return true, ""
}

// ---- Coq printers ----
func coqClaim(c *claimT, h int) string {
	if c.Batch { // the handler finds no such batch: nothing is applied
		return fmt.Sprintf("(mkClaim %s %d %s %d 0 %s false)", emit.ZU(c.Nonce), h, emit.ZU(c.Height), c.Compass, emit.ZI(c.Amt))
	}
	return fmt.Sprintf("(mkClaim %s %d %s %d %d %s %s)", emit.ZU(c.Nonce), h, emit.ZU(c.Height), c.Compass, c.Rcv, emit.ZI(c.Amt), emit.Bool(c.Tok))
}

func (e *env) coqOp(o opT, rank map[uint64]int) string {
	switch o.Kind {
	case "vote":
		h, _ := e.hashOf(o.Claim)
		return fmt.Sprintf("Vote %s %s %s", emit.ZI(int64(o.V)), emit.Bool(o.V >= 0 && o.V < nVals), coqClaim(o.Claim, rank[h]))
	case "tally":
		return "Tally"
	case "prune":
		return "Prune"
	case "powers":
		var ps []string
		for i, p := range o.Pw {
			ps = append(ps, emit.Pair(emit.ZI(int64(i)), emit.ZI(p)))
		}
		return fmt.Sprintf("SetPowers %s %s", emit.List(ps), emit.ZI(o.Total))
	case "catchup":
		return "CatchUp"
	case "override":
		return "Override " + emit.ZU(o.N)
	case "activate":
		return fmt.Sprintf("Activate %d", o.ID)
	}
	panic("op")
}

// coqObs prints the observation; the three lists are printed only when they differ from the
// previous step's.  Claim hashes are printed as their rank among all hashes of the history
// (order preserving, so the model's store order is the implementation's).
func coqObs(ok bool, s snap, prev *snap, rank map[uint64]int) string {
	var as, vn, bal []string
	for _, a := range s.Atts {
		var vs []string
		for _, v := range a.Votes {
			vs = append(vs, emit.ZI(int64(v)))
		}
		as = append(as, emit.Pair(emit.ZU(a.Nonce), emit.ZI(int64(rank[a.H])), emit.List(vs), emit.Bool(a.Observed)))
	}
	for _, x := range s.VN {
		vn = append(vn, emit.Pair(emit.ZU(x[0]), emit.ZU(x[1])))
	}
	for i, b := range s.Bal {
		bal = append(bal, emit.Pair(emit.ZI(int64(i)), emit.ZI(b)))
	}
	sa, sv, sb := emit.List(as), emit.List(vn), emit.List(bal)
	oa, ov, ob := "(Some "+sa+")", "(Some "+sv+")", "(Some "+sb+")"
	if prev != nil {
		var pas, pvn, pbal []string
		for _, a := range prev.Atts {
			var vs []string
			for _, v := range a.Votes {
				vs = append(vs, emit.ZI(int64(v)))
			}
			pas = append(pas, emit.Pair(emit.ZU(a.Nonce), emit.ZI(int64(rank[a.H])), emit.List(vs), emit.Bool(a.Observed)))
		}
		for _, x := range prev.VN {
			pvn = append(pvn, emit.Pair(emit.ZU(x[0]), emit.ZU(x[1])))
		}
		for i, b := range prev.Bal {
			pbal = append(pbal, emit.Pair(emit.ZI(int64(i)), emit.ZI(b)))
		}
		if emit.List(pas) == sa {
			oa = "None"
		}
		if emit.List(pvn) == sv {
			ov = "None"
		}
		if emit.List(pbal) == sb {
			ob = "None"
		}
	}
	return fmt.Sprintf("(mkObs %s %s %s %d %s %s %s)", emit.Bool(ok), emit.ZU(s.Last), emit.ZU(s.Height), s.Compass, oa, ov, ob)
}

// ---- the direct oracle (independent mirror; speaks about the REAL state only) ----
type oracle struct {
	voted      map[string]map[int]bool // claim hash -> validators whose vote for it was accepted
	epoch      int
	seen       map[[2]uint64]bool // (epoch, nonce) that took effect
	violations int
}

func newOracle() *oracle {
	return &oracle{voted: map[string]map[int]bool{}, seen: map[[2]uint64]bool{}}
}

type viol struct{ id, what string }

func (or *oracle) step(e *env, ctx sdk.Context, o opT, ok bool, pre, post snap) []viol {
	var out []viol
	if o.Kind == "vote" && ok {
		_, h := e.hashOf(o.Claim)
		if or.voted[string(h)] == nil {
			or.voted[string(h)] = map[int]bool{}
		}
		or.voted[string(h)][o.V] = true
	}
	preObs := map[string]bool{}
	for _, a := range pre.Atts {
		preObs[a.Hash] = a.Observed
	}
	var newly []attObs
	for _, a := range post.Atts {
		if a.Observed && !preObs[a.Hash] {
			newly = append(newly, a)
		}
	}
	pw, total := e.powers(ctx)
	expBal := make([]int64, nRcv)
	for _, a := range newly {
		if o.Kind != "tally" {
			out = append(out, viol{"C02:observed-outside-tally", fmt.Sprintf("attestation nonce %d became observed by op %s", a.Nonce, o.Kind)})
		}
		distinct := map[int]bool{}
		var sum int64
		for _, v := range a.Votes {
			if distinct[v] {
				continue
			}
			distinct[v] = true
			if v < 0 || !or.voted[a.Hash][v] {
				out = append(out, viol{"C02:counted-validator-never-voted", fmt.Sprintf("nonce %d: validator %d is counted but no accepted vote of it for this claim exists", a.Nonce, v)})
				continue
			}
			sum += pw[v]
		}
		if !(100*sum > 66*total) {
			out = append(out, viol{"C02:observed-without-66pct-distinct",
				fmt.Sprintf("claim at nonce %d observed with Votes=%v: distinct voters hold %d of %d (needs > 66%%)", a.Nonce, a.Votes, sum, total)})
		}
		if pre.Compass > 0 && a.Compass != compassIDs[pre.Compass] {
			out = append(out, viol{"C02:other-deployment-claim-applied",
				fmt.Sprintf("claim at nonce %d names compass %q but the bridge deployment is %q", a.Nonce, a.Compass, compassIDs[pre.Compass])})
		}
		key := [2]uint64{uint64(or.epoch), a.Nonce}
		if or.seen[key] {
			out = append(out, viol{"C02:two-claims-one-nonce", fmt.Sprintf("second claim took effect at nonce %d within one reset epoch", a.Nonce)})
		}
		or.seen[key] = true
		if a.Claim != nil && a.Claim.TokenContract == tokReg {
			for i, r := range e.rcv {
				if r.String() == a.Claim.PalomaReceiver {
					expBal[i] += a.Claim.Amount.Int64()
				}
			}
		}
	}
	if o.Kind == "override" || o.Kind == "activate" {
		or.epoch++
	} else {
		// the cursor moves only by claims taking effect, one nonce at a time
		sort.Slice(newly, func(i, j int) bool { return newly[i].Nonce < newly[j].Nonce })
		good := post.Last-pre.Last == uint64(len(newly))
		for i, a := range newly {
			if a.Nonce != pre.Last+1+uint64(i) {
				good = false
			}
		}
		if !good {
			var ns []uint64
			for _, a := range newly {
				ns = append(ns, a.Nonce)
			}
			out = append(out, viol{"C02:cursor-not-consecutive-effects",
				fmt.Sprintf("op %s moved the cursor %d -> %d while the claims that took effect are at nonces %v", o.Kind, pre.Last, post.Last, ns)})
		}
	}
	for i := range post.Bal {
		if post.Bal[i]-pre.Bal[i] != expBal[i] {
			out = append(out, viol{"C02:effect-not-exactly-once",
				fmt.Sprintf("receiver %d balance changed by %d, the claims that took effect in this step pay %d", i, post.Bal[i]-pre.Bal[i], expBal[i])})
		}
	}
	return out
}

// ---- running one history ----
func (e *env) history(run *emit.Run, ops []opT, label string) {
	ctx, _ := e.base.CacheContext() // discarded: every history starts from the same fresh chain
	or := newOracle()
	var steps []string
	accepted, rejected, fired := 0, 0, 0
	// order-preserving ranks of the claim hashes of this history
	var hs []uint64
	rank := map[uint64]int{}
	for _, o := range ops {
		if o.Kind == "vote" {
			h, _ := e.hashOf(o.Claim)
			if _, ok := rank[h]; !ok {
				rank[h] = 0
				hs = append(hs, h)
			}
		}
	}
	sort.Slice(hs, func(i, j int) bool { return hs[i] < hs[j] })
	for i, h := range hs {
		rank[h] = i + 1
	}
	pre := e.observe(ctx)
	var prevObs *snap
	for i, o := range ops {
		ok, errText := e.apply(ctx, o)
		post := e.observe(ctx)
		steps = append(steps, emit.Pair(e.coqOp(o, rank), coqObs(ok, post, prevObs, rank)))
		pcopy := post
		prevObs = &pcopy
		run.Count("ops", o.Kind)
		if o.Kind == "vote" || o.Kind == "tally" {
			if ok {
				accepted++
			} else {
				rejected++
				run.Count("errors", classify(errText))
			}
		}
		if post.Last != pre.Last && o.Kind == "tally" {
			fired++
		}
		vs := or.step(e, ctx, o, ok, pre, post)
		if len(vs) > 0 {
			for _, v := range vs {
				run.Violate(v.id, v.what, map[string]any{"history": label, "ops": ops[:i+1]})
			}
			break
		}
		pre = post
	}
	run.Count("fired_per_history", fmt.Sprint(min(fired, 5)))
	run.Case("C02.CHist "+emit.List(steps), accepted > 0 && rejected > 0 && fired > 0, map[string]any{"label": label, "ops": len(ops)})
}

func classify(s string) string {
	switch {
	case strings.Contains(s, "non contiguous event nonce"):
		return "non-contiguous nonce"
	case strings.Contains(s, "invalid height"):
		return "height differs from stored claim"
	case strings.Contains(s, "must be positive"):
		return "nonce 0"
	case strings.Contains(s, "attempting to process observed attestation"):
		return "tally: already observed"
	case strings.Contains(s, "roll back Ethereum block height"):
		return "tally: height rollback"
	case strings.Contains(s, "validator"), strings.Contains(s, "orchestrator"), strings.Contains(s, "orchstrator"):
		return "unknown validator"
	case strings.Contains(s, "panic"):
		return "panic"
	}
	return "other: " + s
}

// ---- generators ----
var powerShapes = [][]int64{
	{1, 1, 1, 1, 1}, {20, 20, 20, 20, 20}, {34, 20, 20, 16, 10}, {67, 10, 10, 10, 3}, {66, 34, 0, 0, 0},
	{33, 33, 34, 0, 0}, {50, 50, 0, 0, 0}, {1000, 1, 1, 1, 1}, {22, 22, 22, 17, 17}, {0, 0, 0, 0, 1},
}

func genPowers(r *rand.Rand) opT {
	var pw []int64
	switch r.Intn(3) {
	case 0:
		pw = append(pw, powerShapes[r.Intn(len(powerShapes))]...)
		r.Shuffle(len(pw), func(i, j int) { pw[i], pw[j] = pw[j], pw[i] })
	case 1:
		for i := 0; i < nVals; i++ {
			pw = append(pw, int64(r.Intn(60)))
		}
	default:
		base := int64(1 + r.Intn(1000000))
		for i := 0; i < nVals; i++ {
			pw = append(pw, base*int64(1+r.Intn(4))+int64(r.Intn(3)))
		}
	}
	var sum int64
	for _, p := range pw {
		sum += p
	}
	total := sum
	if r.Intn(5) == 0 { // other bonded validators that never vote
		total += int64(r.Intn(int(sum/2 + 2)))
	}
	return opT{Kind: "powers", Pw: pw, Total: total}
}

// claim variants at one nonce: variant 0 is "what happened", the others compete with it.
func variant(n uint64, k int, compass int) *claimT {
	c := &claimT{Nonce: n, Height: 100 + 10*n, Tok: true, Amt: int64(1000 + n), Rcv: int(n % nRcv), Compass: compass}
	switch k {
	case 1:
		c.Amt += 777
		c.Rcv = (c.Rcv + 1) % nRcv
	case 2:
		c.Tok = false // handler cannot apply it
	case 3:
		c.Height += 5
	case 4:
		c.Height = 1 // far below everything observed before
	case 5:
		c.Batch = true // executed-batch claim for a batch that does not exist: observed, handler fails
		c.Amt = int64(1 + n%3)
	}
	return c
}

func (e *env) structured(r *rand.Rand, hostile bool) []opT {
	ops := []opT{genPowers(r)}
	n := 6 + r.Intn(26)
	// shadow of what the validators think their next nonce is (only to aim the generator)
	next := make([]uint64, nVals)
	for i := range next {
		next[i] = 1
	}
	cursor := uint64(0)
	compass := 0
	if r.Intn(4) == 0 {
		compass = 1 + r.Intn(2)
		ops = append(ops, opT{Kind: "activate", ID: compass})
	}
	pickVariant := func() int {
		if r.Intn(100) < 70 {
			return 0
		}
		return 1 + r.Intn(5)
	}
	for len(ops) < n {
		x := r.Intn(100)
		switch {
		case x < 58:
			v := r.Intn(nVals)
			nn := next[v]
			cl := variant(nn, pickVariant(), compass)
			if r.Intn(12) == 0 {
				cl.Compass = r.Intn(3)
			}
			if hostile || r.Intn(10) == 0 {
				switch r.Intn(6) {
				case 0:
					cl.Nonce = nn + 1
				case 1:
					if nn > 1 {
						cl.Nonce = nn - 1
					}
				case 2:
					cl.Nonce = 0
				case 3:
					v = nVals + r.Intn(3) // not a validator
				case 4:
					cl.Nonce = cursor + 1
				default:
					cl.Nonce = uint64(r.Intn(4))
				}
			}
			ops = append(ops, opT{Kind: "vote", V: v, Claim: cl})
			if v < nVals && cl.Nonce == nn {
				next[v] = nn + 1
			}
			// bursts: the other validators follow with the same claim
			if r.Intn(5) < 2 {
				cnt := nVals
				if r.Intn(2) == 0 {
					cnt = 1 + r.Intn(nVals)
				}
				for _, w := range r.Perm(nVals)[:cnt] {
					if next[w] == cl.Nonce {
						c2 := *cl
						ops = append(ops, opT{Kind: "vote", V: w, Claim: &c2})
						next[w]++
					}
				}
			}
		case x < 76:
			ops = append(ops, opT{Kind: "tally"})
			if r.Intn(3) == 0 {
				ops = append(ops, opT{Kind: "prune"})
			}
		case x < 82:
			ops = append(ops, genPowers(r))
		case x < 86:
			ops = append(ops, opT{Kind: "catchup"})
		case x < 95:
			var to uint64
			switch r.Intn(6) {
			case 0:
				to = 0
			case 1:
				to = cursor
			case 2:
				if cursor > 0 {
					to = cursor - 1
				}
			case 3:
				to = cursor + 1 + uint64(r.Intn(3))
			case 4:
				to = 1000 + uint64(r.Intn(5))
			default:
				to = uint64(r.Intn(4))
			}
			cursor = to
			for i := range next {
				next[i] = to + 1
			}
			ops = append(ops, opT{Kind: "override", N: to})
		case x < 98:
			compass = 1 + r.Intn(2)
			cursor = 0
			for i := range next {
				next[i] = 1
			}
			ops = append(ops, opT{Kind: "activate", ID: compass})
		default:
			ops = append(ops, opT{Kind: "prune"})
		}
		// keep the shadow cursor roughly right: a full round of votes followed by a tally moves it
		if len(ops) > 0 && ops[len(ops)-1].Kind == "tally" {
			min := next[0]
			for _, x := range next {
				if x < min {
					min = x
				}
			}
			if min > cursor+1 {
				cursor = min - 1
			}
		}
	}
	ops = append(ops, opT{Kind: "tally"})
	return ops
}

// boundary aims at the threshold itself: the first k voters hold exactly floor(66*T/100) + d of the
// total T (d in -1, 0, +1); 0 and -1 must not fire, +1 must.
func (e *env) boundary(r *rand.Rand) []opT {
	totals := []int64{3, 5, 7, 10, 50, 99, 100, 101, 150, 200, 1000, 12345, int64(1 + r.Intn(1000000))}
	T := totals[r.Intn(len(totals))]
	q := 66 * T / 100
	s := q + []int64{0, 0, 1, 1, -1}[r.Intn(5)]
	if s < 0 {
		s = 0
	}
	if s > T {
		s = T
	}
	k := 1 + r.Intn(4)
	split := func(x int64, parts int) []int64 {
		out := make([]int64, parts)
		for i := 0; i < parts-1; i++ {
			out[i] = r.Int63n(x + 1)
			x -= out[i]
		}
		out[parts-1] = x
		return out
	}
	perm := r.Perm(nVals)
	pw := make([]int64, nVals)
	for i, x := range split(s, k) {
		pw[perm[i]] = x
	}
	for i, x := range split(T-s, nVals-k) {
		pw[perm[k+i]] = x
	}
	total := T
	ops := []opT{{Kind: "powers", Pw: pw, Total: total}}
	cl := variant(1, r.Intn(3), 0)
	for i := 0; i < k; i++ {
		c := *cl
		ops = append(ops, opT{Kind: "vote", V: perm[i], Claim: &c})
	}
	ops = append(ops, opT{Kind: "tally"})
	if r.Intn(3) == 0 { // power moves between vote and tally
		ops = append(ops, genPowers(r), opT{Kind: "tally"})
	}
	for i := k; i < nVals; i++ {
		c := *cl
		if r.Intn(4) == 0 {
			c = *variant(1, 3, 0)
		}
		ops = append(ops, opT{Kind: "vote", V: perm[i], Claim: &c}, opT{Kind: "tally"})
	}
	// a second nonce, voted by everybody who can
	for i := 0; i < nVals; i++ {
		ops = append(ops, opT{Kind: "vote", V: perm[i], Claim: variant(2, 0, 0)})
	}
	ops = append(ops, opT{Kind: "tally"})
	return ops
}

// ---- corpus: minimised past failures, replayed first ----
func corpusDir() string {
	if d := os.Getenv("VERIF_CORPUS"); d != "" {
		return d
	}
	return "/verif/harness/corpus/C02"
}

func loadCorpus(t *testing.T) map[string][]opT {
	out := map[string][]opT{}
	files, _ := filepath.Glob(filepath.Join(corpusDir(), "*.json"))
	sort.Strings(files)
	for _, f := range files {
		b, err := os.ReadFile(f)
		if err != nil {
			t.Fatal(err)
		}
		var doc struct {
			Ops []opT `json:"ops"`
		}
		if err := json.Unmarshal(b, &doc); err != nil {
			t.Fatalf("%s: %v", f, err)
		}
		out[filepath.Base(f)] = doc.Ops
	}
	return out
}

func TestCorr(t *testing.T) {
	run := emit.Start("C02", 400)
	run.Rule("one case = one history on the real skyway keeper (SetupFiveValChain): SetPowers first, then 6-32 operations: " +
		"SendToPalomaClaim votes (ValidateBasic + msg server in a cache context) by 5 validators for up to 6 competing claims per nonce " +
		"(other amount/receiver, unregistered token, other height, height below the last observed one, a BatchSendToRemoteClaim for an unknown batch, other compass id), bursts of " +
		"followers, attestationTally / pruneAttestations (hooks), power changes between vote and tally (equal, 34%, 66/34, 67%, zero powers, " +
		"non-voting power in the total), UpdateValidatorNoncesToLatest, governance nonce override to 0 / cursor / cursor-1 / higher / >1000, " +
		"chain activation with a new compass id; ~15% threshold histories (k voters holding exactly floor(66T/100)-1, +0, +1 of T, T from 3 to 10^6); ~15% hostile histories (non-contiguous nonces, nonce 0, unknown orchestrators, re-votes). " +
		"Every step: full projected store state compared with the model; direct oracle on the real state. " +
		"non-trivial = history with an accepted vote, a rejected operation and at least one claim taking effect")
	search := os.Getenv("VERIF_SEARCH") != ""
	if search {
		run.Extra("search", true)
	}
	e := setup(t)
	corp := loadCorpus(t)
	var names []string
	for k := range corp {
		names = append(names, k)
	}
	sort.Strings(names)
	for _, k := range names {
		e.history(run, corp[k], "corpus/"+k)
	}
	i := 0
	for run.NCases() < run.N {
		x := run.Rng.Intn(100)
		switch {
		case x < 15 || (search && x < 40):
			run.Count("kind", "boundary")
			e.history(run, e.boundary(run.Rng), fmt.Sprintf("seed%d/%d/boundary", run.Seed, i))
		default:
			hostile := x >= 85
			run.Count("kind", map[bool]string{true: "hostile", false: "structured"}[hostile])
			e.history(run, e.structured(run.Rng, hostile), fmt.Sprintf("seed%d/%d", run.Seed, i))
		}
		i++
	}
	if err := run.Finish("Skyway.Oracle Corr.C02", "C02.case", "C02.check"); err != nil {
		t.Fatal(err)
	}
}
