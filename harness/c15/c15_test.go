// Package c15: correspondence harness + direct oracle for C15 (skyway bridge tax and transfer
// limits applied exactly as configured).  Drives the REAL msgServer.SendToRemote /
// CancelSendToRemote, the governance proposal handler and the keeper's batch functions on
// keeper.SetupFiveValChain (= CreateTestEnv + five validators), every message inside a tx-like
// cache context, and records the projected observables for the Coq model (Corr/C15.v).
package c15

import (
	"errors"
	"fmt"
	"math/big"
	"math/rand"
	"os"
	"sort"
	"strings"
	"testing"

	sdkmath "cosmossdk.io/math"
	sdk "github.com/cosmos/cosmos-sdk/types"
	sdkerrors "github.com/cosmos/cosmos-sdk/types/errors"
	govv1beta1 "github.com/cosmos/cosmos-sdk/x/gov/types/v1beta1"
	"github.com/palomachain/paloma/v2/verifharness/emit"
	"github.com/palomachain/paloma/v2/x/skyway"
	"github.com/palomachain/paloma/v2/x/skyway/keeper"
	"github.com/palomachain/paloma/v2/x/skyway/types"
	valsettypes "github.com/palomachain/paloma/v2/x/valset/types"
)

const chain = "test-chain"

type tokInfo struct {
	denom    string
	contract string
	mapped   bool
}

type env struct {
	in    keeper.TestInput
	base  sdk.Context
	ms    types.MsgServer
	gov   govv1beta1.Handler
	toks  []tokInfo
	accts []sdk.AccAddress
	// token strings are compared byte for byte: every string governance may submit has ONE model
	// identifier (a token's index if it is exactly a token's denom, otherwise a "ghost" identifier
	// >= 1000 of a token that nobody holds)
	spell   map[string]int
	ghosts  []string // ghost identifier - 1000 -> string
	mappedT []int    // indices of the tokens with an ERC20 mapping
}

const (
	ibcUpper     = "ibc/27394FB092D2ECCD56123C74F36E4C1F926001CEADA9CA97EA622B25F41E5EB2"
	ibcLower     = "ibc/27394fb092d2eccd56123c74f36e4c1f926001ceada9ca97ea622b25f41e5eb2"
	factoryUpper = "factory/paloma1ahx7f8wyertuus9r20284ej0asrs085c945jyk/WETH"
	factoryLower = "factory/paloma1ahx7f8wyertuus9r20284ej0asrs085c945jyk/weth"
)

// twin: the token whose denom differs from tok's only in the case of some letters (-1: none).
var twin = []int{-1, 6, 3, 2, 5, 4, 1, -1}

// spellings of a token's denom a hand-written proposal may carry instead of the denom itself
func spellings(d string) []string {
	title := strings.ToUpper(d[:1]) + d[1:]
	return []string{strings.ToUpper(d), strings.ToLower(d), " " + d, d + " ", "\t" + d + "\n", title, d + "/"}
}

// tokID: the model identifier of a submitted token string.
func (e *env) tokID(sp string) int {
	id, ok := e.spell[sp]
	if !ok {
		panic("unregistered token spelling " + sp)
	}
	return id
}

var two256 = new(big.Int).Lsh(big.NewInt(1), 256)
var maxInt = new(big.Int).Sub(two256, big.NewInt(1))

func setup(t *testing.T) *env {
	in, c := keeper.SetupFiveValChain(t)
	e := &env{in: in}
	e.base = sdk.UnwrapSDKContext(c)
	e.ms = keeper.NewMsgServerImpl(in.SkywayKeeper)
	e.gov = keeper.NewSkywayProposalHandler(in.SkywayKeeper)
	// denoms as they exist on a live chain: plain lower case, IBC vouchers (upper-case hex), token
	// factory denoms with an upper-case subdenom, and for each a twin that differs only in case
	e.toks = []tokInfo{
		{"ugrain", "0x0bc529c00C6401aEF6D220BE8C6Ea1667F6Ad93e", true},
		{"utokb", "0x1111111111111111111111111111111111111111", true},
		{ibcUpper, "0x2222222222222222222222222222222222222222", true},
		{ibcLower, "0x4444444444444444444444444444444444444444", true},
		{factoryUpper, "0x5555555555555555555555555555555555555555", true},
		{factoryLower, "0x6666666666666666666666666666666666666666", true},
		{"uTokB", "0x7777777777777777777777777777777777777777", true},
		{"Unmapped", "0x3333333333333333333333333333333333333333", false},
	}
	for _, tk := range e.toks[1:7] {
		err := e.gov(e.base, &types.SetERC20ToDenomProposal{Title: "t", Description: "d", ChainReferenceId: chain, Erc20: tk.contract, Denom: tk.denom})
		if err != nil {
			t.Fatal(err)
		}
	}
	e.spell = map[string]int{}
	for i, tk := range e.toks {
		e.spell[tk.denom] = i
		if tk.mapped {
			e.mappedT = append(e.mappedT, i)
		}
	}
	for _, tk := range e.toks {
		for _, sp := range spellings(tk.denom) {
			if _, ok := e.spell[sp]; !ok {
				e.spell[sp] = 1000 + len(e.ghosts)
				e.ghosts = append(e.ghosts, sp)
			}
		}
	}
	for i := 0; i < 4; i++ {
		b := make([]byte, 20)
		b[0] = 0xC1
		b[1] = 0x5A
		b[19] = byte(i + 1)
		e.accts = append(e.accts, sdk.AccAddress(b))
	}
	return e
}

// ---- outcome classes (Corr/C15.v out_code) ----
const (
	oOk        = 0
	oPanic     = 1
	oInvalid   = 10
	oDenom     = 11
	oLimit     = 12
	oFunds     = 13
	oCoins     = 14
	oUnknownTx = 15
	oNotSender = 16
	oNoBatch   = 17
	oRate      = 18
	oOther     = 99
)

func classify(kind string, err error, panicked bool) int {
	if panicked {
		return oPanic
	}
	if err == nil {
		return oOk
	}
	msg := err.Error()
	switch {
	case strings.Contains(msg, "limit for bridge transfer reached"):
		return oLimit
	case errors.Is(err, sdkerrors.ErrInsufficientFunds):
		return oFunds
	case errors.Is(err, sdkerrors.ErrInvalidCoins):
		return oCoins
	case errors.Is(err, types.ErrERC20NotFound):
		return oDenom
	}
	switch kind {
	case "send":
		if errors.Is(err, types.ErrInvalid) || strings.Contains(msg, "invalid sender") || strings.Contains(msg, "invalid eth dest") {
			return oInvalid
		}
	case "cancel":
		if strings.Contains(msg, "unknown transaction") {
			return oUnknownTx
		}
		if strings.Contains(msg, "did not send Id") {
			return oNotSender
		}
		if errors.Is(err, types.ErrInvalid) {
			return oInvalid
		}
	case "execute", "unbatch":
		if strings.Contains(msg, "unknown batch nonce") || errors.Is(err, types.ErrUnknown) {
			return oNoBatch
		}
	case "settax":
		if strings.Contains(msg, "invalid tax rate value") {
			return oRate
		}
	}
	return oOther
}

// run f like baseapp runs a message: on a cache context, committed only on success; a panic is a
// failed transaction.
func deliver(root sdk.Context, atomic bool, f func(ctx sdk.Context) error) (err error, panicked bool) {
	if !atomic {
		defer func() {
			if r := recover(); r != nil {
				panicked = true
			}
		}()
		return f(root), false
	}
	cctx, write := root.CacheContext()
	defer func() {
		if r := recover(); r != nil {
			panicked = true
		}
	}()
	err = f(cctx)
	if err == nil {
		write()
	}
	return err, false
}

// ---- oracle-side mirror of the configuration (independent of the Coq model) ----
type taxCfg struct {
	rate   *big.Rat
	exempt map[int]bool
}
type limCfg struct {
	limit  *big.Int
	period int
	exempt map[int]bool
}
type pending struct {
	id, sender, tok int
	amount, tax     *big.Int
}
type window struct {
	has        bool
	start      int64
	sum        *big.Int
	limitAtAcc *big.Int
}

var periodBlocks = map[int]int64{1: 57600, 2: 57600 * 7, 3: 57600 * 30, 4: 57600 * 365}
var periodCoq = []string{"PNone", "PDaily", "PWeekly", "PMonthly", "PYearly"}

func floorMul(a *big.Int, r *big.Rat) *big.Int {
	x := new(big.Rat).Mul(r, new(big.Rat).SetInt(a))
	q := new(big.Int)
	m := new(big.Int)
	q.DivMod(x.Num(), x.Denom(), m) // Euclidean: floor for positive denominator
	return q
}

type snap struct {
	ws     []int        // the tokens observed (a history's working set); the slices are indexed by token
	bals   [][]*big.Int // [tok][acct]
	escrow []*big.Int
	supply []*big.Int
	usage  []*types.BridgeTransferUsage
}

func (e *env) snapshot(ctx sdk.Context, ws []int) snap {
	s := snap{ws: ws, bals: make([][]*big.Int, len(e.toks)), escrow: make([]*big.Int, len(e.toks)),
		supply: make([]*big.Int, len(e.toks)), usage: make([]*types.BridgeTransferUsage, len(e.toks))}
	mod := e.in.AccountKeeper.GetModuleAddress(types.ModuleName)
	for _, t := range ws {
		tk := e.toks[t]
		var row []*big.Int
		for _, a := range e.accts {
			row = append(row, e.in.BankKeeper.GetBalance(ctx, a, tk.denom).Amount.BigInt())
		}
		s.bals[t] = row
		s.escrow[t] = e.in.BankKeeper.GetBalance(ctx, mod, tk.denom).Amount.BigInt()
		s.supply[t] = e.in.BankKeeper.GetSupply(ctx, tk.denom).Amount.BigInt()
		u, err := e.in.SkywayKeeper.BridgeTransferUsage(ctx, tk.denom)
		if err != nil {
			u = nil
		}
		s.usage[t] = u
	}
	return s
}

func usageEq(a, b *types.BridgeTransferUsage) bool {
	if a == nil || b == nil {
		return a == nil && b == nil
	}
	return a.Total.Equal(b.Total) && a.StartBlockHeight == b.StartBlockHeight
}

func (s snap) equal(o snap) bool {
	for _, t := range s.ws {
		for a := range s.bals[t] {
			if s.bals[t][a].Cmp(o.bals[t][a]) != 0 {
				return false
			}
		}
		if s.escrow[t].Cmp(o.escrow[t]) != 0 || s.supply[t].Cmp(o.supply[t]) != 0 || !usageEq(s.usage[t], o.usage[t]) {
			return false
		}
	}
	return true
}

// zc prints a Z literal; values above 2^64 in hexadecimal (Coq's decimal parser is quadratic).
func zc(x *big.Int) string {
	if x.BitLen() <= 64 {
		return emit.Z(x)
	}
	if x.Sign() < 0 {
		return "(-0x" + new(big.Int).Neg(x).Text(16) + ")"
	}
	return "0x" + x.Text(16)
}

func coqUsage(u *types.BridgeTransferUsage) string {
	if u == nil {
		return "None"
	}
	return "(Some " + emit.Pair(zc(u.Total.BigInt()), emit.ZI(u.StartBlockHeight)) + ")"
}

func coqTx(id uint64, sender, tok int, amount, tax *big.Int) string {
	return emit.Pair(emit.ZU(id), emit.ZI(int64(sender)), emit.ZI(int64(tok)), zc(amount), zc(tax))
}

func intList(xs []int) string {
	s := make([]string, len(xs))
	for i, x := range xs {
		s[i] = emit.ZI(int64(x))
	}
	return emit.List(s)
}

// ---- generators ----
var rateStrings = []string{
	"0", "0.0", "1", "0.02", "0.2", "0.5", "0.3333", "0.999999999999999999", "1/3", "2/3", "7/1000", "1/7", "22/7", "3/2",
	"2e-2", "15e-1", "1e-18", "5E-3", "0.000000000000000001", "1.5", "10", "123456789012345678901234567890/7",
	"1/340282366920938463463374607431768211456", "340282366920938463463374607431768211455/340282366920938463463374607431768211456",
	"6/4", "0.50", "+0.25", "1e-80", "1e80", "-0.1", "-1/3", "abc", "1/0", "", "0x1p-2", "1_0/3",
}

func genRate(r *rand.Rand) string {
	switch r.Intn(6) {
	case 0:
		return fmt.Sprintf("0.%0*d", 1+r.Intn(6), r.Intn(1000))
	case 1:
		return fmt.Sprintf("%d/%d", r.Intn(50), 1+r.Intn(200))
	case 2:
		return fmt.Sprintf("%de-%d", 1+r.Intn(99), 1+r.Intn(6))
	default:
		return rateStrings[r.Intn(len(rateStrings))]
	}
}

func subset(r *rand.Rand, n int) []int {
	var out []int
	if r.Intn(3) == 0 {
		return out
	}
	for i := 0; i < n; i++ {
		if r.Intn(3) == 0 {
			out = append(out, i)
		}
	}
	return out
}

type histCtx struct {
	e        *env
	run      *emit.Run
	r        *rand.Rand
	root     sdk.Context
	height   int64
	tax      map[int]*taxCfg
	lim      map[int]*limCfg
	win      map[int]*window
	// windows that were open when the chain was restarted from an exported genesis which dropped the
	// token's usage tally (known finding C15:usage-tally-lost-in-genesis-export): only used to report
	// that finding; the limit itself is checked on [win], which starts afresh like the real tally
	oldWin map[int]*window
	pend     map[uint64]*pending
	batches  map[string][]uint64 // "tok/nonce" -> tx ids
	supply0  []*big.Int
	steps    []string
	opsHuman []string
	focus    int
	ws       []int // working set: the tokens this history holds, observes and operates on
	ethH     uint64 // remote block height of the next voted claim
	okCount  int
	errCount int
	replay   map[string]any
}

func (h *histCtx) violate(id, what string) {
	rp := map[string]any{"history": append([]string{}, h.opsHuman...)}
	for k, v := range h.replay {
		rp[k] = v
	}
	h.run.Violate(id, what, rp)
}

// record one step: Coq op term + observation for token tok.
func (h *histCtx) record(op string, human string, atomic bool, out int, tok int, acct int, after snap) {
	burned := new(big.Int).Sub(h.supply0[tok], after.supply[tok])
	ob := fmt.Sprintf("{| C15.so_tx := %s; C15.so_out := %d; C15.so_tok := %d; C15.so_acct := %d; C15.so_bal := %s; C15.so_escrow := %s; C15.so_burned := %s; C15.so_usage := %s |}",
		emit.Bool(atomic), out, tok, acct, zc(after.bals[tok][acct]), zc(after.escrow[tok]), zc(burned), coqUsage(after.usage[tok]))
	h.steps = append(h.steps, "("+op+", "+ob+")")
	h.opsHuman = append(h.opsHuman, fmt.Sprintf("%s -> %d", human, out))
	if out == oOk {
		h.okCount++
	} else {
		h.errCount++
	}
	h.run.Count("outcome", fmt.Sprint(out))
}

func (h *histCtx) limited(sender, tok int) *limCfg {
	lc := h.lim[tok]
	if lc == nil || lc.exempt[sender] || lc.period == 0 {
		return nil
	}
	return lc
}

func (h *histCtx) doSetTax(tok int, rate string, ex []int) {
	h.doSetTaxSp(h.e.toks[tok].denom, tok, rate, ex)
}

func sameAddrs(got []sdk.AccAddress, want []sdk.AccAddress) bool {
	if len(got) != len(want) {
		return false
	}
	for i := range got {
		if !got[i].Equals(want[i]) {
			return false
		}
	}
	return true
}

// doSetTaxSp: governance submits a SetBridgeTaxProposal whose Token is the string sp, verbatim (a
// token's denom or another spelling of it); obs is the working-set token observed after the step.
func (h *histCtx) doSetTaxSp(sp string, obs int, rate string, ex []int) {
	e := h.e
	tok := e.tokID(sp)
	addrs := make([]string, len(ex))
	accs := make([]sdk.AccAddress, len(ex))
	for i, a := range ex {
		addrs[i] = e.accts[a].String()
		accs[i] = e.accts[a]
	}
	before := e.snapshot(h.root, h.ws)
	err, pan := deliver(h.root, true, func(ctx sdk.Context) error {
		return e.gov(ctx, &types.SetBridgeTaxProposal{Title: "t", Description: "d", Rate: rate, Token: sp, ExemptAddresses: addrs})
	})
	out := classify("settax", err, pan)
	rat, ok := new(big.Rat).SetString(rate)
	num, den := big.NewInt(0), big.NewInt(1)
	if ok {
		num, den = rat.Num(), rat.Denom()
	}
	if out == oOk {
		if !ok || rat.Sign() < 0 {
			h.violate("C15:invalid-rate-accepted", fmt.Sprintf("SetBridgeTax accepted rate %q", rate))
		} else {
			m := map[int]bool{}
			for _, a := range ex {
				m[a] = true
			}
			h.tax[tok] = &taxCfg{rate: rat, exempt: m}
		}
		// configured = stored: the record is found under exactly the submitted string and carries it
		if rec, err := e.in.SkywayKeeper.BridgeTax(h.root, sp); err != nil || rec == nil || rec.Token != sp || rec.Rate != rate || !sameAddrs(rec.ExemptAddresses, accs) {
			h.violate("C15:configured-not-stored-verbatim", fmt.Sprintf("accepted SetBridgeTaxProposal for token %q rate %q: BridgeTax(%q) returns %v (err %v)", sp, rate, sp, rec, err))
		}
	}
	after := e.snapshot(h.root, h.ws)
	if !before.equal(after) {
		h.violate("C15:config-change-moved-funds", "SetBridgeTax changed balances or usage")
	}
	h.run.Count("op", "settax")
	h.run.Count("rate-notation", rateKind(rate))
	h.run.Count("proposal-token", spellKind(e, sp))
	h.record(fmt.Sprintf("SetTax %d %s %s %s %s", tok, emit.Bool(ok), zc(num), zc(den), intList(ex)),
		fmt.Sprintf("SetTax token=%q (id %d) rate=%q exempt=%v", sp, tok, rate, ex), true, out, obs, h.r.Intn(4), after)
}

// spellKind classifies a submitted token string for the input statistics.
func spellKind(e *env, sp string) string {
	if id := e.tokID(sp); id >= 1000 {
		return "other spelling of a denom (no such coin)"
	}
	switch {
	case strings.HasPrefix(sp, "ibc/"):
		if sp == strings.ToLower(sp) {
			return "exact denom: ibc/<hex> lower case"
		}
		return "exact denom: ibc/<HEX>"
	case strings.HasPrefix(sp, "factory/"):
		if sp == strings.ToLower(sp) {
			return "exact denom: factory/../lower"
		}
		return "exact denom: factory/../UPPER"
	case sp != strings.ToLower(sp):
		return "exact denom: mixed case"
	}
	return "exact denom: lower case"
}

func rateKind(s string) string {
	switch {
	case strings.Contains(s, "/"):
		return "fraction"
	case strings.ContainsAny(s, "eE") && !strings.HasPrefix(s, "0x"):
		return "exponent"
	case strings.Contains(s, "."):
		return "decimal"
	default:
		return "integer/other"
	}
}

func (h *histCtx) doSetLimit(tok int, limit *big.Int, period int, ex []int) {
	h.doSetLimitSp(h.e.toks[tok].denom, tok, limit, period, ex)
}

func (h *histCtx) doSetLimitSp(sp string, obs int, limit *big.Int, period int, ex []int) {
	e := h.e
	tok := e.tokID(sp)
	addrs := make([]string, len(ex))
	accs := make([]sdk.AccAddress, len(ex))
	for i, a := range ex {
		addrs[i] = e.accts[a].String()
		accs[i] = e.accts[a]
	}
	before := e.snapshot(h.root, h.ws)
	err, pan := deliver(h.root, true, func(ctx sdk.Context) error {
		return e.gov(ctx, &types.SetBridgeTransferLimitProposal{Title: "t", Description: "d", Token: sp,
			Limit: sdkmath.NewIntFromBigInt(limit), LimitPeriod: types.LimitPeriod(period), ExemptAddresses: addrs})
	})
	out := classify("setlimit", err, pan)
	if out == oOk {
		m := map[int]bool{}
		for _, a := range ex {
			m[a] = true
		}
		h.lim[tok] = &limCfg{limit: limit, period: period, exempt: m}
		// the oracle's window bookkeeping is per configuration: a configuration change starts a new
		// observation (the stored tally is kept by the code; the model covers that part)
		delete(h.win, tok)
		delete(h.oldWin, tok)
		if rec, err := e.in.SkywayKeeper.BridgeTransferLimit(h.root, sp); err != nil || rec == nil || rec.Token != sp || rec.Limit.BigInt().Cmp(limit) != 0 ||
			int(rec.LimitPeriod) != period || !sameAddrs(rec.ExemptAddresses, accs) {
			h.violate("C15:configured-not-stored-verbatim", fmt.Sprintf("accepted SetBridgeTransferLimitProposal for token %q limit %s: BridgeTransferLimit(%q) returns %v (err %v)", sp, limit, sp, rec, err))
		}
	}
	after := e.snapshot(h.root, h.ws)
	if !before.equal(after) {
		h.violate("C15:config-change-moved-funds", "SetBridgeTransferLimit changed balances or usage")
	}
	h.run.Count("op", "setlimit")
	h.run.Count("period", periodCoq[period])
	h.run.Count("proposal-token", spellKind(e, sp))
	h.record(fmt.Sprintf("SetLimit %d %s %s %s", tok, zc(limit), periodCoq[period], intList(ex)),
		fmt.Sprintf("SetLimit token=%q (id %d) limit=%s period=%s exempt=%v", sp, tok, limit, periodCoq[period], ex), true, out, obs, h.r.Intn(4), after)
}

func (h *histCtx) poolTx(ctx sdk.Context, id uint64) *types.InternalOutgoingTransferTx {
	txs, err := h.e.in.SkywayKeeper.GetUnbatchedTransactions(ctx)
	if err != nil {
		return nil
	}
	for _, tx := range txs {
		if tx.Id == id {
			return tx
		}
	}
	return nil
}

func (h *histCtx) doSend(height int64, sender, tok int, amount *big.Int, mal int, atomic bool) {
	e := h.e
	h.root = h.root.WithBlockHeight(height)
	h.height = height
	creator := e.accts[sender].String()
	dest := "0xd041c41EA1bf0F006ADBb6d2c9ef9D425dE5eaD7"
	switch mal {
	case 1:
		creator = "paloma1notbech32"
	case 2:
		dest = "0x1234"
	}
	msg := &types.MsgSendToRemote{
		EthDest:          dest,
		Amount:           sdk.Coin{Denom: e.toks[tok].denom, Amount: sdkmath.NewIntFromBigInt(amount)},
		ChainReferenceId: chain,
		Metadata:         valsettypes.MsgMetadata{Creator: creator, Signers: []string{creator}},
	}
	before := e.snapshot(h.root, h.ws)
	err, pan := deliver(h.root, atomic, func(ctx sdk.Context) error {
		_, err := e.ms.SendToRemote(ctx, msg)
		return err
	})
	out := classify("send", err, pan)
	after := e.snapshot(h.root, h.ws)
	human := fmt.Sprintf("Send h=%d sender=%d tok=%d amount=%s mal=%d tx=%v", height, sender, tok, amount, mal, atomic)
	h.opsHuman = append(h.opsHuman, human+" ...")

	// ---- direct oracle ----
	lc := h.limited(sender, tok)
	// the window this transfer falls into, by the restart rule, on the accepted transfers only
	var wsum *big.Int
	if lc != nil {
		w := h.win[tok]
		if w == nil || !w.has || height-w.start >= periodBlocks[lc.period] {
			wsum = new(big.Int).Set(amount)
		} else {
			wsum = new(big.Int).Add(w.sum, amount)
		}
	}
	if out == oOk {
		expTax := big.NewInt(0)
		if tc := h.tax[tok]; tc != nil && !tc.exempt[sender] {
			expTax = floorMul(amount, tc.rate)
		}
		cost := new(big.Int).Add(amount, expTax)
		paid := new(big.Int).Sub(before.bals[tok][sender], after.bals[tok][sender])
		if paid.Cmp(cost) != 0 {
			h.violate("C15:send-cost-mismatch", fmt.Sprintf("sender paid %s for amount %s, expected amount+floor(amount*rate) = %s", paid, amount, cost))
		}
		locked := new(big.Int).Sub(after.escrow[tok], before.escrow[tok])
		if locked.Cmp(cost) != 0 {
			h.violate("C15:send-lock-mismatch", fmt.Sprintf("module account received %s, expected %s", locked, cost))
		}
		for a := range e.accts {
			if a != sender && before.bals[tok][a].Cmp(after.bals[tok][a]) != 0 {
				h.violate("C15:send-touched-other-account", "another account's balance changed on a send")
			}
		}
		// the tax is recorded with the transfer
		var rec *types.InternalOutgoingTransferTx
		txs, _ := e.in.SkywayKeeper.GetUnbatchedTransactions(h.root)
		newID := uint64(0)
		for _, tx := range txs {
			if _, known := h.pend[tx.Id]; !known && !h.inBatch(tx.Id) {
				rec = tx
				newID = tx.Id
			}
		}
		if rec == nil {
			h.violate("C15:transfer-not-recorded", "accepted send left no unbatched transfer")
		} else {
			if rec.BridgeTaxAmount.BigInt().Cmp(expTax) != 0 || rec.Erc20Token.Amount.BigInt().Cmp(amount) != 0 || !rec.Sender.Equals(e.accts[sender]) {
				h.violate("C15:recorded-tax-mismatch", fmt.Sprintf("transfer %d records amount %s tax %s, expected %s / %s", rec.Id, rec.Erc20Token.Amount, rec.BridgeTaxAmount, amount, expTax))
			}
			h.pend[newID] = &pending{id: int(newID), sender: sender, tok: tok, amount: new(big.Int).Set(amount), tax: expTax}
		}
		if lc != nil {
			w := h.win[tok]
			fresh := w == nil || !w.has || height-w.start >= periodBlocks[lc.period]
			if wsum.Cmp(lc.limit) > 0 {
				h.violate("C15:window-total-exceeds-limit", fmt.Sprintf("accepted transfers in the window starting at the restart total %s > limit %s", wsum, lc.limit))
			}
			if ow := h.oldWin[tok]; ow != nil {
				if height-ow.start >= periodBlocks[lc.period] {
					delete(h.oldWin, tok)
				} else {
					ow.sum = new(big.Int).Add(ow.sum, amount)
					if ow.sum.Cmp(lc.limit) > 0 {
						h.violate("C15:usage-tally-lost-in-genesis-export", fmt.Sprintf("accepted transfers of one limit window (restart rule) total %s > limit %s: the chain was restarted from an exported genesis inside the window and the usage tally is not part of the export", ow.sum, lc.limit))
						h.run.Count("known-finding", "window total above the limit across a genesis restart")
					}
				}
			}
			if fresh {
				h.win[tok] = &window{has: true, start: height, sum: wsum}
			} else {
				w.sum = wsum
			}
		} else if !usageEq(before.usage[tok], after.usage[tok]) {
			h.violate("C15:exempt-or-unlimited-consumed-allowance", "a transfer the limiter must ignore changed the usage tally")
		}
	} else {
		if atomic && !before.equal(after) {
			h.violate("C15:rejected-send-changed-state", "a rejected send changed balances, supply or the usage tally")
		}
		if out == oLimit {
			if lc == nil {
				h.violate("C15:exempt-or-unlimited-restricted", "limit error for an exempt sender / token without an active limit")
			} else if w := h.win[tok]; wsum.Cmp(lc.limit) <= 0 && (w != nil || before.usage[tok] == nil) {
				// (when the configuration changed mid-window the stored tally may legitimately be larger
				//  than the oracle's per-configuration window; then w == nil and usage != nil)
				h.violate("C15:send-rejected-within-limit", fmt.Sprintf("limit error although the window total would be %s <= limit %s", wsum, lc.limit))
			}
			if !usageEq(before.usage[tok], after.usage[tok]) {
				h.violate("C15:limit-rejection-consumed-allowance", "a transfer rejected by the limiter changed the usage tally (keeper level)")
			}
		}
	}
	h.opsHuman = h.opsHuman[:len(h.opsHuman)-1]
	h.run.Count("op", "send")
	if lc != nil {
		h.run.Count("send-limited", fmt.Sprint(out))
	}
	if tc := h.tax[tok]; tc != nil && !tc.exempt[sender] && tc.rate.Sign() > 0 {
		h.run.Count("send-taxed", fmt.Sprint(out))
	}
	if amount.BitLen() > 200 {
		h.run.Count("send-amount", ">2^200")
	} else if amount.BitLen() > 64 {
		h.run.Count("send-amount", ">2^64")
	} else {
		h.run.Count("send-amount", "small")
	}
	h.record(fmt.Sprintf("Send %d %d %d %s %s", height, sender, tok, zc(amount), emit.Bool(mal != 0)), human, atomic, out, tok, sender, after)
}

func (h *histCtx) inBatch(id uint64) bool {
	for _, ids := range h.batches {
		for _, x := range ids {
			if x == id {
				return true
			}
		}
	}
	return false
}

func (h *histCtx) doCancel(sender int, id uint64) {
	e := h.e
	creator := e.accts[sender].String()
	before := e.snapshot(h.root, h.ws)
	err, pan := deliver(h.root, true, func(ctx sdk.Context) error {
		_, err := e.ms.CancelSendToRemote(ctx, &types.MsgCancelSendToRemote{TransactionId: id, Metadata: valsettypes.MsgMetadata{Creator: creator, Signers: []string{creator}}})
		return err
	})
	out := classify("cancel", err, pan)
	after := e.snapshot(h.root, h.ws)
	tok := h.focus
	p := h.pend[id]
	if p != nil {
		tok = p.tok
	}
	if out == oOk {
		if p == nil || h.inBatch(id) {
			h.violate("C15:cancel-of-unknown-transfer", "cancel succeeded for a transfer that is not in the pool")
		} else {
			refund := new(big.Int).Sub(after.bals[tok][sender], before.bals[tok][sender])
			exp := new(big.Int).Add(p.amount, p.tax)
			if refund.Cmp(exp) != 0 || p.sender != sender {
				h.violate("C15:cancel-refund-mismatch", fmt.Sprintf("cancel refunded %s, expected amount+tax = %s", refund, exp))
			}
			out2 := new(big.Int).Sub(before.escrow[tok], after.escrow[tok])
			if out2.Cmp(exp) != 0 {
				h.violate("C15:cancel-refund-mismatch", fmt.Sprintf("module account released %s, expected %s", out2, exp))
			}
			if !usageEq(before.usage[tok], after.usage[tok]) {
				h.violate("C15:cancel-changed-usage", "cancel changed the usage tally")
			}
			delete(h.pend, id)
		}
	} else if !before.equal(after) {
		h.violate("C15:rejected-cancel-changed-state", "a rejected cancel changed state")
	}
	h.run.Count("op", "cancel")
	h.record(fmt.Sprintf("Cancel %d %d", sender, id), fmt.Sprintf("Cancel sender=%d id=%d", sender, id), true, out, tok, sender, after)
}

func (h *histCtx) doBatch(tok int) {
	e := h.e
	contract, _ := types.NewEthAddress(e.toks[tok].contract)
	var nonce uint64
	var ids []uint64
	err, pan := deliver(h.root, true, func(ctx sdk.Context) error {
		b, err := e.in.SkywayKeeper.BuildOutgoingTXBatch(ctx, chain, *contract, keeper.OutgoingTxBatchSize)
		if err == nil && b != nil {
			nonce = b.BatchNonce
			for _, tx := range b.Transactions {
				ids = append(ids, tx.Id)
			}
		}
		return err
	})
	out := classify("batch", err, pan)
	if out == oOk && len(ids) > 0 {
		h.batches[fmt.Sprintf("%d/%d", tok, nonce)] = ids
	}
	after := e.snapshot(h.root, h.ws)
	h.run.Count("op", "batch")
	h.record(fmt.Sprintf("Batch %d", tok), fmt.Sprintf("Batch tok=%d", tok), true, out, tok, h.r.Intn(4), after)
}

func (h *histCtx) doExecute(tok int, nonce uint64, unbatch bool) { h.doExecuteVia(tok, nonce, unbatch, false) }

// executeByVote: the five validators' orchestrators submit MsgBatchSendToRemoteClaim for the next
// skyway nonce (each inside its own transaction), then the end-blocker's attestation tally runs on the
// block context: TryAttestation -> processAttestation -> handler -> OutgoingTxBatchExecuted.  Handler
// errors are swallowed there (logged), so the outcome is read off the batch store.
func (h *histCtx) executeByVote(tok int, nonce uint64) (out int) {
	e := h.e
	k := e.in.SkywayKeeper
	contract, _ := types.NewEthAddress(e.toks[tok].contract)
	existed := func() bool {
		b, err := k.GetOutgoingTXBatch(h.root, *contract, nonce)
		return err == nil && b != nil
	}
	had := existed()
	last, err := k.GetLastObservedSkywayNonce(h.root, chain)
	if err != nil {
		panic(err)
	}
	h.ethH++
	for v := 0; v < 5; v++ {
		o := keeper.AccAddrs[v].String()
		claim := &types.MsgBatchSendToRemoteClaim{EventNonce: last + 1, EthBlockHeight: h.ethH, BatchNonce: nonce, TokenContract: e.toks[tok].contract,
			ChainReferenceId: chain, Orchestrator: o, SkywayNonce: last + 1, Metadata: valsettypes.MsgMetadata{Creator: o, Signers: []string{o}},
			CompassId: k.GetLatestCompassID(h.root, chain)}
		if err := claim.ValidateBasic(); err != nil {
			panic("claim ValidateBasic: " + err.Error())
		}
		cerr, pan := deliver(h.root, true, func(ctx sdk.Context) error {
			_, err := e.ms.BatchSendToRemoteClaim(ctx, claim)
			return err
		})
		if cerr != nil || pan {
			panic(fmt.Sprintf("fixture: validator %d could not submit its claim: %v panic=%v", v, cerr, pan))
		}
	}
	terr, pan := deliver(h.root, false, func(ctx sdk.Context) error { return skyway.VerifC02AttestationTally(ctx, k, chain) })
	now, err := k.GetLastObservedSkywayNonce(h.root, chain)
	if err != nil {
		panic(err)
	}
	if terr != nil || pan || now != last+1 {
		panic(fmt.Sprintf("fixture: the tally did not observe the unanimous claim: err=%v panic=%v nonce %d -> %d", terr, pan, last, now))
	}
	switch {
	case had && !existed():
		return oOk
	case !had:
		return oNoBatch
	}
	return oOther
}

func (h *histCtx) doExecuteVia(tok int, nonce uint64, unbatch bool, voted bool) {
	e := h.e
	contract, _ := types.NewEthAddress(e.toks[tok].contract)
	before := e.snapshot(h.root, h.ws)
	kind := "execute"
	if unbatch {
		kind = "unbatch"
	}
	var out int
	if voted && !unbatch && nonce > 0 { // a claim with batch nonce 0 does not pass ValidateBasic
		out = h.executeByVote(tok, nonce)
		h.run.Count("execute-route", "claims voted by 5 validators + attestation tally")
	} else {
		err, pan := deliver(h.root, true, func(ctx sdk.Context) error {
			if unbatch {
				return e.in.SkywayKeeper.CancelOutgoingTXBatch(ctx, *contract, nonce)
			}
			return e.in.SkywayKeeper.OutgoingTxBatchExecuted(ctx, *contract, types.MsgBatchSendToRemoteClaim{
				BatchNonce: nonce, EthBlockHeight: 0, TokenContract: e.toks[tok].contract, ChainReferenceId: chain,
			})
		})
		out = classify(kind, err, pan)
		if !unbatch {
			h.run.Count("execute-route", "OutgoingTxBatchExecuted called directly")
		}
	}
	after := e.snapshot(h.root, h.ws)
	key := fmt.Sprintf("%d/%d", tok, nonce)
	if out == oOk {
		ids, ok := h.batches[key]
		if !ok {
			h.violate("C15:"+kind+"-of-unknown-batch", "succeeded for an unknown batch")
		} else if unbatch {
			if !before.equal(after) {
				h.violate("C15:unbatch-moved-funds", "returning a batch to the pool changed balances or usage")
			}
			delete(h.batches, key)
		} else {
			exp := new(big.Int)
			for _, id := range ids {
				p := h.pend[id]
				exp.Add(exp, p.amount)
				exp.Add(exp, p.tax)
				delete(h.pend, id)
			}
			burned := new(big.Int).Sub(before.supply[tok], after.supply[tok])
			released := new(big.Int).Sub(before.escrow[tok], after.escrow[tok])
			if burned.Cmp(exp) != 0 || released.Cmp(exp) != 0 {
				h.violate("C15:execute-burn-mismatch", fmt.Sprintf("execution burned %s (module released %s), expected sum(amount+tax) = %s", burned, released, exp))
			}
			delete(h.batches, key)
		}
	} else if !before.equal(after) {
		h.violate("C15:rejected-"+kind+"-changed-state", "a rejected batch operation changed state")
	}
	h.run.Count("op", kind)
	name := "Execute"
	if unbatch {
		name = "Unbatch"
	}
	h.record(fmt.Sprintf("%s %d %d", name, tok, nonce), fmt.Sprintf("%s tok=%d nonce=%d", name, tok, nonce), true, out, tok, h.r.Intn(4), after)
}

type pendDigest struct {
	pool, batches string
	taxes, limits string
}

func (h *histCtx) pendingDigest() pendDigest {
	k := h.e.in.SkywayKeeper
	var d pendDigest
	txs, err := k.GetUnbatchedTransactions(h.root)
	if err != nil {
		panic(err)
	}
	var ps []string
	for _, tx := range txs {
		ps = append(ps, fmt.Sprintf("%d/%s/%s/%s/%s/%s", tx.Id, tx.Sender, tx.Erc20Token.Contract.GetAddress().Hex(), tx.Erc20Token.Amount, tx.BridgeTaxAmount, tx.DestAddress.GetAddress().Hex()))
	}
	sort.Strings(ps)
	d.pool = strings.Join(ps, ";")
	bs, err := k.GetOutgoingTxBatches(h.root)
	if err != nil {
		panic(err)
	}
	var bb []string
	for _, b := range bs {
		var items []string
		for _, tx := range b.Transactions {
			items = append(items, fmt.Sprintf("%d/%s/%s/%s", tx.Id, tx.Sender, tx.Erc20Token.Amount, tx.BridgeTaxAmount))
		}
		bb = append(bb, fmt.Sprintf("%d@%s[%s]", b.BatchNonce, b.TokenContract.GetAddress().Hex(), strings.Join(items, ",")))
	}
	sort.Strings(bb)
	d.batches = strings.Join(bb, ";")
	taxes, _ := k.AllBridgeTaxes(h.root)
	var tt []string
	for _, t := range taxes {
		tt = append(tt, fmt.Sprintf("%q=%q%v", t.Token, t.Rate, t.ExemptAddresses))
	}
	sort.Strings(tt)
	d.taxes = strings.Join(tt, ";")
	limits, _ := k.AllBridgeTransferLimits(h.root)
	var ll []string
	for _, l := range limits {
		ll = append(ll, fmt.Sprintf("%q=%s/%d%v", l.Token, l.Limit, l.LimitPeriod, l.ExemptAddresses))
	}
	sort.Strings(ll)
	d.limits = strings.Join(ll, ";")
	return d
}

// doGenesis: the chain is restarted from an exported genesis: ExportGenesis, every key of the module's
// store deleted, InitGenesis (the bank ledger is the bank module's own genesis, left in place).
func (h *histCtx) doGenesis() {
	e := h.e
	k := e.in.SkywayKeeper
	before := e.snapshot(h.root, h.ws)
	dBefore := h.pendingDigest()
	_, pan := deliver(h.root, false, func(ctx sdk.Context) error {
		gs := keeper.ExportGenesis(ctx, k)
		st := k.VerifC11RawStore(ctx)
		var keys [][]byte
		it := st.Iterator(nil, nil)
		for ; it.Valid(); it.Next() {
			keys = append(keys, append([]byte{}, it.Key()...))
		}
		it.Close()
		for _, key := range keys {
			st.Delete(key)
		}
		keeper.InitGenesis(ctx, k, gs)
		return nil
	})
	out := oOk
	if pan {
		out = oPanic
		h.violate("C15:genesis-round-trip-panicked", "ExportGenesis / InitGenesis panicked on a state reached by sends, cancels, batches and governance settings")
	}
	after := e.snapshot(h.root, h.ws)
	dAfter := h.pendingDigest()
	if dBefore.taxes != dAfter.taxes || dBefore.limits != dAfter.limits {
		h.violate("C15:genesis-lost-settings", fmt.Sprintf("bridge tax / transfer limit records differ after export+import: taxes %q -> %q, limits %q -> %q", dBefore.taxes, dAfter.taxes, dBefore.limits, dAfter.limits))
	}
	if dBefore.pool != dAfter.pool || dBefore.batches != dAfter.batches {
		h.violate("C15:genesis-changed-pending-transfers", fmt.Sprintf("pending transfers (amount, recorded tax) differ after export+import: pool %q -> %q, batches %q -> %q", dBefore.pool, dAfter.pool, dBefore.batches, dAfter.batches))
	}
	lost := false
	for _, t := range h.ws {
		if before.bals[t] != nil && (before.escrow[t].Cmp(after.escrow[t]) != 0 || before.supply[t].Cmp(after.supply[t]) != 0) {
			h.violate("C15:genesis-moved-funds", "export+import changed the module balance or the supply")
		}
		if before.usage[t] != nil && after.usage[t] == nil {
			lost = true
			// the real tally starts afresh: so does the window the limit is checked on; the open window
			// is kept aside to report the known finding
			if w := h.win[t]; w != nil && w.has {
				if h.oldWin[t] == nil {
					h.oldWin[t] = w
				}
				delete(h.win, t)
			}
		} else if !usageEq(before.usage[t], after.usage[t]) {
			h.violate("C15:genesis-changed-usage-tally", "export+import changed a usage tally")
		}
	}
	h.run.Count("op", "genesis")
	if lost {
		h.run.Count("genesis", "a running usage tally was dropped")
	} else {
		h.run.Count("genesis", "no running tally")
	}
	h.record("Genesis", "Genesis export+import", true, out, h.focus, h.r.Intn(4), after)
}

// ---- one history ----
// working set of a history: the focus token, its case twin, one more mapped token (with its twin
// when there is room), and in hostile histories the token without an ERC20 mapping.
func (e *env) workingSet(r *rand.Rand, focus int, hostile bool) []int {
	ws := []int{focus}
	if twin[focus] >= 0 {
		ws = append(ws, twin[focus])
	}
	for {
		o := e.mappedT[r.Intn(len(e.mappedT))]
		if o != focus && o != twin[focus] {
			ws = append(ws, o)
			if twin[o] >= 0 && r.Intn(2) == 0 {
				ws = append(ws, twin[o])
			}
			break
		}
	}
	if hostile {
		ws = append(ws, len(e.toks)-1)
	}
	sort.Ints(ws)
	return ws
}

func (e *env) history(run *emit.Run, r *rand.Rand, hostile bool, ws []int, minBal int64, script func(h *histCtx)) {
	root, _ := e.base.CacheContext() // never written back: every history starts from the same base state
	h := &histCtx{e: e, run: run, r: r, root: root, tax: map[int]*taxCfg{}, lim: map[int]*limCfg{}, win: map[int]*window{},
		pend: map[uint64]*pending{}, batches: map[string][]uint64{}, replay: map[string]any{}, oldWin: map[int]*window{}}
	h.height = 1 + r.Int63n(2_000_000)
	h.root = h.root.WithBlockHeight(h.height)

	// initial balances; only the focus token of a history can hold very large amounts (big literals are
	// what the Coq side spends its time on)
	if ws == nil {
		h.focus = e.mappedT[r.Intn(len(e.mappedT))]
		ws = e.workingSet(r, h.focus, hostile)
	} else {
		h.focus = ws[0]
		ws = append([]int{}, ws...)
		sort.Ints(ws)
	}
	h.ws = ws
	run.Count("focus-denom", spellKind(e, e.toks[h.focus].denom))
	var balTerms []string
	balHuman := map[string]string{}
	for _, t := range h.ws {
		tk := e.toks[t]
		mode := r.Intn(2)
		if t == h.focus {
			mode = []int{0, 0, 0, 0, 0, 1, 1, 2, 2, 3, 3, 3}[r.Intn(12)]
		}
		if minBal > 0 {
			mode = 0
		}
		if t == 0 && mode == 3 {
			mode = 2 // ugrain is the staking denom of the fixture: its supply is not ours alone
		}
		left := new(big.Int).Set(maxInt)
		for a := range e.accts {
			var amt *big.Int
			switch mode {
			case 0:
				amt = big.NewInt(int64(r.Intn(3000)))
			case 1:
				amt = new(big.Int).Rand(r, new(big.Int).Lsh(big.NewInt(1), uint(1+r.Intn(64))))
			case 2:
				amt = new(big.Int).Rand(r, new(big.Int).Lsh(big.NewInt(1), 250))
			default:
				if a == 0 {
					amt = new(big.Int).Sub(maxInt, big.NewInt(int64(r.Intn(3000))))
				} else {
					amt = big.NewInt(int64(r.Intn(1000)))
				}
			}
			if amt.Cmp(left) > 0 {
				amt = new(big.Int).Set(left)
			}
			if r.Intn(8) == 0 {
				amt = big.NewInt(0)
			}
			if minBal > 0 && amt.Cmp(big.NewInt(minBal)) < 0 {
				amt = big.NewInt(minBal + int64(r.Intn(100)))
			}
			left.Sub(left, amt)
			if amt.Sign() > 0 {
				coins := sdk.NewCoins(sdk.NewCoin(tk.denom, sdkmath.NewIntFromBigInt(amt)))
				if err := e.in.BankKeeper.MintCoins(h.root, types.ModuleName, coins); err != nil {
					panic(err)
				}
				if err := e.in.BankKeeper.SendCoinsFromModuleToAccount(h.root, types.ModuleName, e.accts[a], coins); err != nil {
					panic(err)
				}
				balTerms = append(balTerms, emit.Pair(emit.ZI(int64(a)), emit.ZI(int64(t)), zc(amt)))
				balHuman[fmt.Sprintf("acct%d/tok%d", a, t)] = amt.String()
			}
		}
	}
	s0 := e.snapshot(h.root, h.ws)
	h.supply0 = s0.supply
	h.replay["balances"] = balHuman
	denoms := map[string]string{}
	for _, t := range h.ws {
		denoms[fmt.Sprintf("tok%d", t)] = e.toks[t].denom
	}
	h.replay["denoms"] = denoms
	for _, t := range h.ws {
		if s0.escrow[t].Sign() != 0 {
			panic("fixture: skyway module account not empty")
		}
	}

	script(h)

	// ---- final observation ----
	fin := e.snapshot(h.root, h.ws)
	var poolT, batchT, balT, usT, taxT, limT []string
	txs, err := e.in.SkywayKeeper.GetUnbatchedTransactions(h.root)
	if err != nil {
		panic(err)
	}
	tokOf := func(contract string) int {
		for i, tk := range e.toks {
			if strings.EqualFold(tk.contract, contract) {
				return i
			}
		}
		return -1
	}
	acctOf := func(a sdk.AccAddress) int {
		for i, x := range e.accts {
			if x.Equals(a) {
				return i
			}
		}
		return -1
	}
	lockedByTok := make([]*big.Int, len(e.toks))
	for i := range lockedByTok {
		lockedByTok[i] = new(big.Int)
	}
	for _, tx := range txs {
		t := tokOf(tx.Erc20Token.Contract.GetAddress().Hex())
		poolT = append(poolT, coqTx(tx.Id, acctOf(tx.Sender), t, tx.Erc20Token.Amount.BigInt(), tx.BridgeTaxAmount.BigInt()))
		lockedByTok[t].Add(lockedByTok[t], tx.Erc20Token.Amount.BigInt())
		lockedByTok[t].Add(lockedByTok[t], tx.BridgeTaxAmount.BigInt())
	}
	bs, err := e.in.SkywayKeeper.GetOutgoingTxBatches(h.root)
	if err != nil {
		panic(err)
	}
	for _, b := range bs {
		t := tokOf(b.TokenContract.GetAddress().Hex())
		var items []string
		for _, tx := range b.Transactions {
			items = append(items, coqTx(tx.Id, acctOf(tx.Sender), t, tx.Erc20Token.Amount.BigInt(), tx.BridgeTaxAmount.BigInt()))
			lockedByTok[t].Add(lockedByTok[t], tx.Erc20Token.Amount.BigInt())
			lockedByTok[t].Add(lockedByTok[t], tx.BridgeTaxAmount.BigInt())
		}
		batchT = append(batchT, emit.Pair(emit.ZU(b.BatchNonce), emit.ZI(int64(t)), emit.List(items)))
	}
	exemptIdx := func(as []sdk.AccAddress) []int {
		out := make([]int, len(as))
		for i, a := range as {
			out[i] = acctOf(a)
		}
		return out
	}
	for _, t := range h.ws {
		row := make([]string, len(e.accts))
		for a := range e.accts {
			row[a] = zc(fin.bals[t][a])
		}
		balT = append(balT, emit.List(row))
		usT = append(usT, coqUsage(fin.usage[t]))
		// the settings a send of exactly this denom meets, as the store returns them
		if rec, err := e.in.SkywayKeeper.BridgeTax(h.root, e.toks[t].denom); err == nil && rec != nil {
			rat, ok := new(big.Rat).SetString(rec.Rate)
			if !ok {
				panic("stored rate does not parse: " + rec.Rate)
			}
			taxT = append(taxT, "(Some "+emit.Pair(zc(rat.Num()), zc(rat.Denom()), intList(exemptIdx(rec.ExemptAddresses)))+")")
		} else {
			taxT = append(taxT, "None")
		}
		if rec, err := e.in.SkywayKeeper.BridgeTransferLimit(h.root, e.toks[t].denom); err == nil && rec != nil {
			limT = append(limT, "(Some "+emit.Pair(zc(rec.Limit.BigInt()), emit.ZI(int64(rec.LimitPeriod)), intList(exemptIdx(rec.ExemptAddresses)))+")")
		} else {
			limT = append(limT, "None")
		}
		// the tax stays locked with the amount until the transfer is finished
		if fin.escrow[t].Cmp(lockedByTok[t]) != 0 {
			h.violate("C15:escrow-differs-from-pending-amount-plus-tax", fmt.Sprintf("token %d: module account holds %s, pending transfers record amount+tax = %s", t, fin.escrow[t], lockedByTok[t]))
		}
	}
	h.checkListedSettings()
	var mp []int
	for _, t := range h.ws {
		if e.toks[t].mapped {
			mp = append(mp, t)
		}
	}
	finT := fmt.Sprintf("{| C15.fo_pool := %s; C15.fo_batches := %s; C15.fo_bals := %s; C15.fo_usages := %s; C15.fo_taxes := %s; C15.fo_limits := %s |}",
		emit.List(poolT), emit.List(batchT), emit.List(balT), emit.List(usT), emit.List(taxT), emit.List(limT))
	sort.Strings(balTerms)
	term := fmt.Sprintf("C15.CHist [0; 1; 2; 3] %s %s %s %s %s", intList(h.ws), emit.List(balTerms), intList(mp), emit.List(h.steps), finT)
	kind := "structured"
	if hostile {
		kind = "hostile"
	}
	run.Count("history", kind)
	run.Count("history-length", fmt.Sprint(len(h.steps)))
	run.Case(term, h.okCount > 0 && h.errCount > 0, map[string]any{"kind": kind, "balances": balHuman, "ops": h.opsHuman})
}

// checkListedSettings: what the queries list (AllBridgeTaxes / AllBridgeTransferLimits) is exactly what
// governance submitted in this history: the same token strings, each with its last accepted settings.
func (h *histCtx) checkListedSettings() {
	e := h.e
	name := func(id int) string {
		if id >= 1000 {
			return e.ghosts[id-1000]
		}
		return e.toks[id].denom
	}
	taxes, err := e.in.SkywayKeeper.AllBridgeTaxes(h.root)
	if err != nil && len(h.tax) > 0 {
		h.violate("C15:listed-settings-differ-from-configured", "AllBridgeTaxes: "+err.Error())
		return
	}
	listed := map[string]*types.BridgeTax{}
	for _, tx := range taxes {
		listed[tx.Token] = tx
	}
	for id, tc := range h.tax {
		rec := listed[name(id)]
		if rec == nil {
			h.violate("C15:listed-settings-differ-from-configured", fmt.Sprintf("bridge tax configured for token %q is not listed under that token", name(id)))
			continue
		}
		if rat, ok := new(big.Rat).SetString(rec.Rate); !ok || rat.Cmp(tc.rate) != 0 {
			h.violate("C15:listed-settings-differ-from-configured", fmt.Sprintf("bridge tax of token %q listed with rate %q, configured %s", name(id), rec.Rate, tc.rate))
		}
	}
	if len(listed) != len(h.tax) {
		h.violate("C15:listed-settings-differ-from-configured", fmt.Sprintf("%d bridge tax records listed, %d tokens configured", len(listed), len(h.tax)))
	}
	limits, err := e.in.SkywayKeeper.AllBridgeTransferLimits(h.root)
	if err != nil && len(h.lim) > 0 {
		h.violate("C15:listed-settings-differ-from-configured", "AllBridgeTransferLimits: "+err.Error())
		return
	}
	listedL := map[string]*types.BridgeTransferLimit{}
	for _, l := range limits {
		listedL[l.Token] = l
	}
	for id, lc := range h.lim {
		rec := listedL[name(id)]
		if rec == nil {
			h.violate("C15:listed-settings-differ-from-configured", fmt.Sprintf("transfer limit configured for token %q is not listed under that token", name(id)))
			continue
		}
		if rec.Limit.BigInt().Cmp(lc.limit) != 0 || int(rec.LimitPeriod) != lc.period {
			h.violate("C15:listed-settings-differ-from-configured", fmt.Sprintf("transfer limit of token %q listed as %s / %s, configured %s / %s", name(id), rec.Limit, rec.LimitPeriod, lc.limit, periodCoq[lc.period]))
		}
	}
	if len(listedL) != len(h.lim) {
		h.violate("C15:listed-settings-differ-from-configured", fmt.Sprintf("%d transfer limit records listed, %d tokens configured", len(listedL), len(h.lim)))
	}
}

// pickAmount draws an amount aimed at the interesting boundaries of the current state.
func (h *histCtx) pickAmount(sender, tok int, hostile bool) *big.Int {
	r := h.r
	e := h.e
	bal := e.in.BankKeeper.GetBalance(h.root, e.accts[sender], e.toks[tok].denom).Amount.BigInt()
	var remaining *big.Int
	if lc := h.lim[tok]; lc != nil {
		remaining = new(big.Int).Set(lc.limit)
		if u, err := e.in.SkywayKeeper.BridgeTransferUsage(h.root, e.toks[tok].denom); err == nil && u != nil {
			remaining.Sub(remaining, u.Total.BigInt())
		}
	}
	k := r.Intn(12)
	if hostile {
		k = r.Intn(16)
	}
	var a *big.Int
	switch k {
	case 0:
		a = big.NewInt(int64(1 + r.Intn(200)))
	case 1:
		a = big.NewInt(int64(1 + r.Intn(200)))
		// around the smallest amounts at which the tax becomes k: ceil(k/rate) - 1, +0, +1 (tiny rates such
		// as 1e-18 tax nothing below 1e18)
		if tc := h.tax[tok]; tc != nil && !tc.exempt[sender] && tc.rate.Sign() > 0 {
			kk := big.NewInt(int64(1 + r.Intn(3)))
			q := new(big.Rat).Quo(new(big.Rat).SetInt(kk), tc.rate)
			c := new(big.Int).Quo(q.Num(), q.Denom())
			if new(big.Int).Mul(c, q.Denom()).Cmp(q.Num()) != 0 {
				c.Add(c, big.NewInt(1))
			}
			c.Add(c, big.NewInt(int64(r.Intn(3)-1)))
			if c.Sign() > 0 && c.Cmp(bal) <= 0 {
				a = c
				h.run.Count("send-amount-aim", "tax threshold ceil(k/rate)+-1")
			}
		}
	case 2:
		a = new(big.Int).Set(bal)
	case 3:
		a = new(big.Int).Add(bal, big.NewInt(1))
	case 4:
		// largest amount the balance pays for with the tax on top: a + floor(a*r) <= bal
		a = new(big.Int).Set(bal)
		if tc := h.tax[tok]; tc != nil && !tc.exempt[sender] && tc.rate.Sign() > 0 {
			onePlus := new(big.Rat).Add(big.NewRat(1, 1), tc.rate)
			q := new(big.Rat).Quo(new(big.Rat).SetInt(bal), onePlus)
			a = new(big.Int).Quo(q.Num(), q.Denom())
			a.Add(a, big.NewInt(int64(r.Intn(3))))
		}
	case 5, 6:
		if remaining != nil {
			a = new(big.Int).Add(remaining, big.NewInt(int64(r.Intn(3)-1)))
		} else {
			a = new(big.Int).Rand(r, new(big.Int).Add(bal, big.NewInt(1)))
		}
	case 7:
		if remaining != nil && remaining.Sign() > 0 {
			a = new(big.Int).Rand(r, remaining)
		} else {
			a = big.NewInt(int64(r.Intn(1000)))
		}
	case 8:
		a = new(big.Int).Rand(r, new(big.Int).Add(bal, big.NewInt(1)))
	case 9:
		if lc := h.lim[tok]; lc != nil {
			a = new(big.Int).Add(lc.limit, big.NewInt(int64(r.Intn(3)-1)))
		} else {
			a = big.NewInt(int64(r.Intn(50)))
		}
	case 10:
		a = new(big.Int).Quo(bal, big.NewInt(int64(2+r.Intn(5))))
	case 11:
		a = emit.BigUpTo(r, 256)
	case 12:
		a = big.NewInt(0)
	case 13:
		a = big.NewInt(-int64(1 + r.Intn(5)))
	case 14:
		a = new(big.Int).Set(maxInt)
	default:
		a = new(big.Int).Sub(maxInt, big.NewInt(int64(r.Intn(4))))
	}
	if a.CmpAbs(maxInt) > 0 {
		a = new(big.Int).Set(maxInt)
	}
	if !hostile && a.Sign() < 0 {
		a = big.NewInt(0)
	}
	return a
}

// nextHeight: heights aimed at the window boundaries of the token's current tally.
func (h *histCtx) nextHeight(tok int) int64 {
	r := h.r
	cur := h.height
	var L int64 = 57600
	if lc := h.lim[tok]; lc != nil && lc.period != 0 {
		L = periodBlocks[lc.period]
	}
	start := cur
	if u, err := h.e.in.SkywayKeeper.BridgeTransferUsage(h.root, h.e.toks[tok].denom); err == nil && u != nil {
		start = u.StartBlockHeight
	}
	var c int64
	switch r.Intn(10) {
	case 0, 1, 2:
		c = cur
	case 3:
		c = cur + 1 + r.Int63n(10)
	case 4:
		c = start + L - 1
	case 5:
		c = start + L
	case 6:
		c = start + L + 1
	case 7:
		c = start + L - 2
	case 8:
		c = cur + L
	default:
		c = cur + r.Int63n(L)
	}
	if c < cur {
		c = cur
	}
	h.run.Count("send-height", func() string {
		switch d := c - start; {
		case d == L-1:
			return "start+L-1"
		case d == L:
			return "start+L"
		case d == L+1:
			return "start+L+1"
		case d < L:
			return "inside"
		default:
			return "beyond"
		}
	}())
	return c
}

func (h *histCtx) randomLimit(tok int) *big.Int {
	r := h.r
	switch r.Intn(8) {
	case 0:
		return big.NewInt(0)
	case 1:
		return big.NewInt(int64(1 + r.Intn(300)))
	case 2:
		return big.NewInt(int64(100 + r.Intn(5000)))
	case 3:
		b := h.e.in.BankKeeper.GetBalance(h.root, h.e.accts[r.Intn(4)], h.e.toks[tok].denom).Amount.BigInt()
		return new(big.Int).Quo(b, big.NewInt(int64(1+r.Intn(4))))
	case 4:
		return new(big.Int).Set(maxInt)
	case 5:
		return new(big.Int).Lsh(big.NewInt(1), uint(r.Intn(256)))
	case 6:
		return big.NewInt(-int64(r.Intn(3)))
	default:
		return new(big.Int).Rand(r, new(big.Int).Lsh(big.NewInt(1), uint(1+r.Intn(255))))
	}
}

func structured(hostile bool) func(h *histCtx) {
	return func(h *histCtx) {
		r := h.r
		e := h.e
		focus := h.focus // most operations are about one token so that windows fill up
		var mappedWs []int
		for _, t := range h.ws {
			if e.toks[t].mapped {
				mappedWs = append(mappedWs, t)
			}
		}
		pickTok := func() int {
			switch k := r.Intn(8); {
			case k < 5:
				return focus
			case k < 7 && twin[focus] >= 0:
				return twin[focus] // the denom that differs from the focus only in case
			}
			return h.ws[r.Intn(len(h.ws))]
		}
		pickMapped := func() int {
			if r.Intn(3) != 0 {
				return focus
			}
			return mappedWs[r.Intn(len(mappedWs))]
		}
		// the token string of a proposal: the denom itself, or (1 in 6; 1 in 3 in hostile histories)
		// another spelling of it — upper / lower case, surrounding blanks, ... — which names another token
		pickSpelling := func(tok int) string {
			d := e.toks[tok].denom
			n := 6
			if hostile {
				n = 3
			}
			if r.Intn(n) == 0 {
				sp := spellings(d)
				return sp[r.Intn(len(sp))]
			}
			return d
		}
		setTax := func(tok int) { h.doSetTaxSp(pickSpelling(tok), tok, genRate(r), subset(r, 4)) }
		setLimit := func(tok int, p int) { h.doSetLimitSp(pickSpelling(tok), tok, h.randomLimit(tok), p, subset(r, 4)) }
		// configuration first (usually); the case twin often gets settings of its own
		if r.Intn(6) != 0 {
			h.doSetTax(focus, genRate(r), subset(r, 4))
		}
		if r.Intn(6) != 0 {
			p := 1 + r.Intn(4)
			if r.Intn(8) == 0 {
				p = 0
			}
			h.doSetLimit(focus, h.randomLimit(focus), p, subset(r, 4))
		}
		if tw := twin[focus]; tw >= 0 && r.Intn(2) == 0 {
			if r.Intn(2) == 0 {
				h.doSetTax(tw, genRate(r), subset(r, 4))
			} else {
				h.doSetLimit(tw, h.randomLimit(tw), 1+r.Intn(4), subset(r, 4))
			}
		}
		n := 3 + r.Intn(10)
		for i := 0; i < n; i++ {
			k := r.Intn(21)
			switch {
			case k == 20:
				h.doGenesis()
			case k < 11:
				tok := pickTok()
				sender := r.Intn(4)
				mal := 0
				if hostile && r.Intn(10) == 0 {
					mal = 1 + r.Intn(2)
				}
				atomic := true
				if i == n-1 && r.Intn(4) == 0 {
					atomic = false // keeper-level view of the last step: ties the model's raw handler
				}
				h.doSend(h.nextHeight(tok), sender, tok, h.pickAmount(sender, tok, hostile), mal, atomic)
			case k < 14:
				// cancel: usually an existing transfer by its sender
				var ids []uint64
				for id := range h.pend {
					ids = append(ids, id)
				}
				sort.Slice(ids, func(i, j int) bool { return ids[i] < ids[j] })
				if len(ids) > 0 && r.Intn(5) != 0 {
					id := ids[r.Intn(len(ids))]
					s := h.pend[id].sender
					if r.Intn(6) == 0 {
						s = r.Intn(4)
					}
					h.doCancel(s, id)
				} else {
					h.doCancel(r.Intn(4), uint64(r.Intn(6)))
				}
			case k < 16:
				h.doBatch(pickMapped())
			case k < 18:
				var keys []string
				for k := range h.batches {
					keys = append(keys, k)
				}
				sort.Strings(keys)
				if len(keys) > 0 && r.Intn(5) != 0 {
					var tok int
					var nonce uint64
					fmt.Sscanf(keys[r.Intn(len(keys))], "%d/%d", &tok, &nonce)
					h.doExecuteVia(tok, nonce, r.Intn(3) == 0, r.Intn(2) == 0)
				} else {
					h.doExecuteVia(pickMapped(), uint64(r.Intn(4)), r.Intn(2) == 0, r.Intn(3) == 0)
				}
			case k < 19:
				setTax(pickTok())
			default:
				setLimit(pickTok(), r.Intn(5))
			}
		}
	}
}

// corpus: fixed histories replayed first (boundaries named in the property statement).
type corpusCase struct {
	ws     []int // working set, focus first
	minBal int64 // every account holds at least this much of every token of the working set
	f      func(h *histCtx)
}

func corpus() []corpusCase {
	return []corpusCase{
		// rounding direction: 1/3 of 100 is 33, of 101 is 33, of 2 is 0
		{[]int{1, 6, 0}, 0, func(h *histCtx) {
			h.doSetTax(1, "1/3", nil)
			for _, a := range []int64{100, 101, 2, 1, 3} {
				h.doSend(h.height, 0, 1, big.NewInt(a), 0, true)
			}
			h.doCancel(0, 1)
			h.doBatch(1)
			h.doExecute(1, 1, false)
		}},
		// window roll-over at the exact boundary block
		{[]int{0, 1, 2}, 0, func(h *histCtx) {
			h.doSetLimit(0, big.NewInt(150), 1, nil)
			h0 := h.height
			h.doSend(h0, 0, 0, big.NewInt(100), 0, true)
			h.doSend(h0+57599, 0, 0, big.NewInt(51), 0, true)
			h.doSend(h0+57599, 0, 0, big.NewInt(50), 0, true)
			h.doSend(h0+57600, 1, 0, big.NewInt(151), 0, true)
			h.doSend(h0+57600, 1, 0, big.NewInt(150), 0, true)
			h.doSend(h0+57600+57599, 1, 0, big.NewInt(1), 0, true)
		}},
		// failed send (insufficient funds) must not consume allowance; keeper-level view last
		{[]int{2, 3, 1}, 0, func(h *histCtx) {
			h.doSetLimit(2, big.NewInt(1000), 2, []int{3})
			bal := h.e.in.BankKeeper.GetBalance(h.root, h.e.accts[1], h.e.toks[2].denom).Amount.BigInt()
			h.doSend(h.height, 1, 2, new(big.Int).Add(bal, big.NewInt(1)), 0, true)
			h.doSend(h.height, 3, 2, big.NewInt(5), 0, true)
			h.doSend(h.height, 1, 2, new(big.Int).Add(bal, big.NewInt(1)), 0, false)
		}},
		// an IBC voucher (upper-case hex) configured through governance: 10% tax, 1000 a day
		{[]int{2, 3, 1}, 5000, func(h *histCtx) {
			h.doSetTax(2, "0.1", nil)
			h.doSetLimit(2, big.NewInt(1000), 1, nil)
			h.doSend(h.height, 0, 2, big.NewInt(600), 0, true)    // pays 660
			h.doSend(h.height+10, 0, 2, big.NewInt(600), 0, true) // 1200 > 1000: rejected
			h.doSend(h.height+10, 0, 2, big.NewInt(400), 0, true) // pays 440
			h.doSend(h.height+10, 0, 3, big.NewInt(600), 0, true) // the lower-case twin: no tax, no limit
			h.doSend(h.height+10, 0, 3, big.NewInt(600), 0, true)
		}},
		// two token factory denoms that differ only in case have independent settings
		{[]int{4, 5, 1, 6}, 5000, func(h *histCtx) {
			h.doSetTax(4, "1/10", nil)
			h.doSetTax(5, "1/2", []int{1})
			h.doSetLimit(4, big.NewInt(1000), 1, nil)
			h.doSetLimit(5, big.NewInt(700), 2, []int{1})
			h.doSend(h.height, 0, 4, big.NewInt(600), 0, true) // 660
			h.doSend(h.height, 0, 5, big.NewInt(600), 0, true) // 900
			h.doSend(h.height, 1, 5, big.NewInt(600), 0, true) // exempt from both: 600
			h.doSend(h.height+1, 0, 4, big.NewInt(401), 0, true) // rejected
			h.doSend(h.height+1, 0, 5, big.NewInt(101), 0, true) // rejected
			h.doSend(h.height+1, 0, 4, big.NewInt(400), 0, true)
			h.doSend(h.height+1, 0, 5, big.NewInt(100), 0, true)
			h.doSetTax(5, "0", nil) // changing one leaves the other
			h.doSend(h.height+57600, 0, 4, big.NewInt(10), 0, true) // 11
		}},
		// a proposal whose token is another spelling of a denom configures THAT string, not the denom
		{[]int{1, 6, 4, 5}, 5000, func(h *histCtx) {
			h.doSetTaxSp(" utokb", 1, "0.5", nil)
			h.doSetTaxSp("UTOKB", 1, "0.25", nil)
			h.doSetLimitSp("utokb ", 1, big.NewInt(10), 1, nil)
			h.doSend(h.height, 0, 1, big.NewInt(100), 0, true) // utokb: neither taxed nor limited
			h.doSetTax(6, "0.2", nil)                          // uTokB is a coin of its own
			h.doSend(h.height, 0, 6, big.NewInt(100), 0, true) // 120
			h.doSend(h.height, 0, 1, big.NewInt(100), 0, true) // still 100
			h.doSetLimitSp(strings.ToLower(factoryUpper), 4, big.NewInt(50), 1, nil) // = the denom of token 5
			h.doSend(h.height, 0, 4, big.NewInt(100), 0, true)                       // WETH: unlimited
			h.doSend(h.height, 0, 5, big.NewInt(51), 0, true)                        // weth: rejected
		}},
		// a tiny rate is a rate: 1e-18 taxes nothing below 1e18 and exactly 1 from there on
		{[]int{6, 1, 2}, 3_000_000_000_000_000_000, func(h *histCtx) {
			h.doSetTax(6, "1e-18", nil)
			e18 := new(big.Int).Exp(big.NewInt(10), big.NewInt(18), nil)
			h.doSend(h.height, 0, 6, new(big.Int).Sub(e18, big.NewInt(1)), 0, true)
			h.doSend(h.height, 1, 6, e18, 0, true)
			h.doSend(h.height, 2, 6, new(big.Int).Add(e18, big.NewInt(1)), 0, true)
			h.doSetTax(6, "0.000000001", nil)
			h.doSend(h.height, 3, 6, big.NewInt(999_999_999), 0, true)
			h.doSend(h.height, 3, 6, big.NewInt(1_000_000_000), 0, true)
			h.doCancel(1, 2)
		}},
		// the witness of Properties/C15.v window_total_across_genesis_refuted on the real keeper: the usage
		// tally is not exported, the allowance is available again after a restart from genesis
		{[]int{0, 1, 6}, 5000, func(h *histCtx) {
			h.doSetLimit(0, big.NewInt(150), 1, nil)
			h.doSend(h.height, 0, 0, big.NewInt(100), 0, true)
			h.doGenesis()
			h.doSend(h.height+1, 0, 0, big.NewInt(100), 0, true) // accepted: 200 in one window (known finding)
			h.doSend(h.height+1, 0, 0, big.NewInt(51), 0, true)  // rejected by the new tally
		}},
		// more pending transfers than a batch holds (OutgoingTxBatchSize = 100): the batch takes the 100
		// largest (amount, id), the rest stays cancellable; executions through voted claims; a restart from
		// genesis with a batch open: the recorded taxes are burned all the same
		{[]int{1, 6, 4}, 20000, func(h *histCtx) {
			h.doSetTax(1, "1/7", []int{2})
			for i := 0; i < 103; i++ {
				h.doSend(h.height, i%4, 1, big.NewInt(int64(5+(i*7)%13)), 0, true)
			}
			h.doBatch(1)
			var left []uint64
			for id := range h.pend {
				if !h.inBatch(id) {
					left = append(left, id)
				}
			}
			sort.Slice(left, func(i, j int) bool { return left[i] < left[j] })
			if len(left) > 0 {
				h.doCancel(h.pend[left[0]].sender, left[0])
			}
			h.doSend(h.height, 3, 1, big.NewInt(17), 0, true)
			h.doBatch(1)
			h.doExecuteVia(1, 1, false, true)
			h.doGenesis()
			h.doExecuteVia(1, 2, false, true)
			h.doExecuteVia(1, 2, false, true) // again: unknown batch, nothing burned
		}},
	}
}

func TestCorr(t *testing.T) {
	run := emit.Start("C15", 600)
	run.Rule("one case = one history on the real skyway keeper (SetupFiveValChain), every message delivered inside a cache context " +
		"committed on success: 0-2 governance settings then 3-12 operations (send / cancel / build batch / execute / return batch / " +
		"SetBridgeTax / SetBridgeTransferLimit) over 4 accounts x 3-5 of 8 tokens (plain lower-case denoms, an IBC voucher ibc/<HEX>, a token " +
		"factory denom factory/<addr>/WETH, a mixed-case denom, each with a twin that differs only in case, one token without ERC20 mapping); " +
		"the Token of a proposal is the denom or (1 in 6, hostile 1 in 3) another spelling of it (upper / lower case, blanks) which the model " +
		"treats as the different token it is; balances up to 2^256-1; rates in " +
		"decimal, fraction and exponent notation parsed by big.Rat on the Go side; all five periods; send heights aimed at " +
		"start+L-1, start+L, start+L+1; amounts aimed at balance, balance+1, remaining allowance +-1, limit +-1, 2^256-1; ~15% hostile " +
		"histories (negative / zero amounts, malformed sender or destination, unmapped denom, unknown ids); a quarter of the final " +
		"sends run on the bare context (keeper-level view). non-trivial = history with at least one accepted and one rejected operation")
	if os.Getenv("VERIF_SEARCH") != "" {
		run.Extra("search", true)
	}
	e := setup(t)
	for _, sc := range corpus() {
		e.history(run, run.Rng, false, sc.ws, sc.minBal, sc.f)
	}
	for run.NCases() < run.N {
		hostile := run.Rng.Intn(100) < 15
		e.history(run, run.Rng, hostile, nil, 0, structured(hostile))
	}
	if err := run.Finish("Skyway.TaxLimit Corr.C15", "C15.case", "C15.check"); err != nil {
		t.Fatal(err)
	}
}
