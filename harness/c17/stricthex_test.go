//go:build verif

package c17

import (
	"github.com/ethereum/go-ethereum/common"
	evmkeeper "github.com/palomachain/paloma/v2/x/evm/keeper"
)

// strictHexImpl: what the implementation makes of a hexPayload string: refused by unmarshalJob's
// validation, or else the bytes common.FromHex decodes.
func strictHexImpl(s string) ([]byte, bool) {
	if err := evmkeeper.VerifValidateHexPayload(s); err != nil {
		return nil, false
	}
	return common.FromHex(s), true
}
