//go:build verif

// Package c17: correspondence harness + direct oracle for property C17 (scheduler jobs are
// immutable; each run enqueues exactly the stored call plus the caller's identity; a failed
// execute enqueues no contract call).
//
// Every history runs against a fresh integration fixture (tests/integration/helper.InitFixture:
// real auth/staking/valset/metrix/treasury/consensus/evm/scheduler keepers on one store) through
//   - the scheduler msg server (CreateJob / ExecuteJob, account callers),
//   - the wasm bindings (customMessenger create/execute, legacy messenger execute; contract callers),
//   - the keeper directly (AddNewJob / ExecuteJob with arbitrary owner / sender / contract bytes),
// and after every request reads the job store and all turnstone queues of the consensus keeper.
package c17

import (
	"context"
	"encoding/hex"
	"encoding/json"
	"errors"
	"fmt"
	"math/big"
	"math/rand"
	"os"
	"path/filepath"
	"sort"
	"strings"
	"testing"
	"time"

	"cosmossdk.io/log"
	"cosmossdk.io/math"
	"cosmossdk.io/store/prefix"
	"cosmossdk.io/x/feegrant"
	wasmvmtypes "github.com/CosmWasm/wasmvm/v2/types"
	codectypes "github.com/cosmos/cosmos-sdk/codec/types"
	"github.com/cosmos/cosmos-sdk/crypto/keys/ed25519"
	sdk "github.com/cosmos/cosmos-sdk/types"
	stakingtypes "github.com/cosmos/cosmos-sdk/x/staking/types"
	"github.com/ethereum/go-ethereum/common"
	"github.com/onsi/ginkgo/v2"
	xchain "github.com/palomachain/paloma/v2/internal/x-chain"
	"github.com/palomachain/paloma/v2/tests/integration/helper"
	"github.com/palomachain/paloma/v2/util/libwasm"
	"github.com/palomachain/paloma/v2/verifharness/emit"
	consensustypes "github.com/palomachain/paloma/v2/x/consensus/types"
	evmkeeper "github.com/palomachain/paloma/v2/x/evm/keeper"
	evmtypes "github.com/palomachain/paloma/v2/x/evm/types"
	palomamodule "github.com/palomachain/paloma/v2/x/paloma"
	schedmodule "github.com/palomachain/paloma/v2/x/scheduler"
	"github.com/palomachain/paloma/v2/x/scheduler/bindings"
	bindingstypes "github.com/palomachain/paloma/v2/x/scheduler/bindings/types"
	schedkeeper "github.com/palomachain/paloma/v2/x/scheduler/keeper"
	schedtypes "github.com/palomachain/paloma/v2/x/scheduler/types"
	treasurytypes "github.com/palomachain/paloma/v2/x/treasury/types"
	valsettypes "github.com/palomachain/paloma/v2/x/valset/types"
	protov2 "google.golang.org/protobuf/proto"
)

// ---------------------------------------------------------------------------------------------
// history specification (JSON-serialisable: it is the replay of a violation and the corpus format)
// ---------------------------------------------------------------------------------------------

type jobSpec struct {
	ID      string `json:"id"`
	CType   string `json:"ctype"`
	CRef    string `json:"cref"`
	Def     string `json:"def"`     // raw bytes of the definition (ASCII in all pools)
	Payload string `json:"payload"` // raw bytes of the payload
	Mod     bool   `json:"mod"`
	Mev     bool   `json:"mev"`
}

type opSpec struct {
	Kind string `json:"kind"` // create | exec | resnap | genesis | block
	Path string `json:"path"` // msg | wasm | legacy | keeper
	// resnap: build the new snapshot with the snapshot listeners on (the evm keeper publishes it to the chains)
	Listeners bool `json:"listeners,omitempty"`
	// resnap: let 31 days pass first (the listener does not publish to a chain whose valset is younger than 30 days)
	Age bool `json:"age,omitempty"`
	// msg path (create and exec): the transaction's signer if it is not the creator (hex), whether the creator
	// granted that signer a fee allowance, and (exec) whether the creator is left without an account
	Signer    string `json:"signer,omitempty"`
	Granted   bool   `json:"granted,omitempty"`
	NoAccount bool   `json:"no_account,omitempty"`
	// msg create: the Owner field of the Job inside the message, as sent (hex; the msg server must overwrite it with the creator)
	ClaimedOwner string `json:"claimed_owner,omitempty"`
	// wasm / legacy exec: the "sender" member of the message body (any string; "" = member absent for legacy)
	Claimed string `json:"claimed,omitempty"`
	// create
	Job     *jobSpec `json:"job,omitempty"`
	Creator string   `json:"creator,omitempty"` // hex of the creator / owner address
	// exec
	ID       string `json:"id,omitempty"`
	In       string `json:"in,omitempty"`    // supplied payload (raw for msg/keeper; the contract's bytes for wasm/legacy)
	InNil    bool   `json:"in_nil,omitempty"`
	Sender   string `json:"sender,omitempty"` // hex; msg: the creator account; wasm/legacy: the contract
	SNil     bool   `json:"sender_nil,omitempty"`
	Contract string `json:"contract,omitempty"`
	CNil     bool   `json:"contract_nil,omitempty"`
	Atomic   bool   `json:"atomic,omitempty"`
}

type envSpec struct {
	Time    int64  `json:"time"`
	NVals   int    `json:"nvals"`
	MevEth  []bool `json:"mev_eth"`  // validator i has the MEV trait on eth-main
	FeeEth  []bool `json:"fee_eth"`  // validator i has a relayer fee for eth-main
	FeeBnb  []bool `json:"fee_bnb"`  // ... for bnb-main (gnosis-main: nobody, so selection always fails there)
	Publish []bool `json:"publish"`  // first snapshot marked as published on chain k
}

type histSpec struct {
	Env envSpec  `json:"env"`
	Ops []opSpec `json:"ops"`
}

// matic-main: registered, served by every validator (accounts + relayer fees: selection works), but NOT active --
// no compass deployed yet (SmartContractAddr and unique id empty)
var chainRefs = []string{"eth-main", "bnb-main", "gnosis-main", "matic-main"}
var turnstones = []string{"ts-eth", "ts-bnb", "ts-gno", ""}

const inactiveChain = 3

func unhex(s string) []byte { b, _ := hex.DecodeString(s); return b }

// ---------------------------------------------------------------------------------------------
// environment
// ---------------------------------------------------------------------------------------------

type env struct {
	f      *helper.Fixture
	ctx    sdk.Context
	k      schedkeeper.Keeper
	ms     schedtypes.MsgServer
	// the libwasm router in front of the scheduler's two messengers, as app.go builds it: what a contract's
	// custom message really goes through
	router interface {
		DispatchMsg(sdk.Context, sdk.AccAddress, string, wasmvmtypes.CosmosMsg) ([]sdk.Event, [][]byte, [][]*codectypes.Any, error)
	}
	ante   palomamodule.VerifyAuthorisedSignatureDecorator
	grants *fakeGrants
	am     schedmodule.AppModule
	vals  []sdk.ValAddress
	valID map[string]int64
	nextV int
}

func valAddr(i int) sdk.ValAddress {
	b := make([]byte, 20)
	b[0] = 0x5a
	b[19] = byte(i + 1)
	return sdk.ValAddress(b)
}

func (e *env) addValidator(ctx sdk.Context, i int, mevEth, feeEth, feeBnb bool) error {
	priv := ed25519.GenPrivKeyFromSecret([]byte{0xC1, 0x17, byte(i)})
	pk, err := codectypes.NewAnyWithValue(priv.PubKey())
	if err != nil {
		return err
	}
	op := valAddr(i)
	val := stakingtypes.Validator{OperatorAddress: op.String(), Tokens: sdk.TokensFromConsensusPower(int64(1000+i), sdk.DefaultPowerReduction), Status: stakingtypes.Bonded, ConsensusPubkey: pk}
	if err := e.f.StakingKeeper.SetValidator(ctx, val); err != nil {
		return err
	}
	var infos []*valsettypes.ExternalChainInfo
	for c, ref := range chainRefs {
		ci := &valsettypes.ExternalChainInfo{ChainType: "evm", ChainReferenceID: ref, Address: fmt.Sprintf("0x%038x%02x", c+1, i+1), Pubkey: []byte{byte(c + 1), byte(i + 1)}}
		if c == 0 && mevEth {
			ci.Traits = []string{valsettypes.PIGEON_TRAIT_MEV}
		}
		infos = append(infos, ci)
	}
	if err := e.f.ValsetKeeper.AddExternalChainInfo(ctx, op, infos); err != nil {
		return err
	}
	var fees []treasurytypes.RelayerFeeSetting_FeeSetting
	if feeEth {
		fees = append(fees, treasurytypes.RelayerFeeSetting_FeeSetting{Multiplicator: math.LegacyMustNewDecFromStr(fmt.Sprintf("1.%d", i+1)), ChainReferenceId: chainRefs[0]})
	}
	if feeBnb {
		fees = append(fees, treasurytypes.RelayerFeeSetting_FeeSetting{Multiplicator: math.LegacyMustNewDecFromStr("1.1"), ChainReferenceId: chainRefs[1]})
	}
	fees = append(fees, treasurytypes.RelayerFeeSetting_FeeSetting{Multiplicator: math.LegacyMustNewDecFromStr("1.2"), ChainReferenceId: chainRefs[inactiveChain]})
	if len(fees) > 0 {
		if err := e.f.TreasuryKeeper.SetRelayerFee(ctx, op, &treasurytypes.RelayerFeeSetting{ValAddress: op.String(), Fees: fees}); err != nil {
			return err
		}
	}
	e.vals = append(e.vals, op)
	e.valID[op.String()] = int64(i)
	return nil
}

func newEnv(es envSpec) (*env, error) {
	f := helper.InitFixture(ginkgo.GinkgoT())
	ctx := f.Ctx.WithBlockHeight(5).WithBlockTime(time.Unix(es.Time, 0).UTC())
	e := &env{f: f, k: f.SchedulerKeeper, valID: map[string]int64{}}
	for i, c := range chainRefs {
		if err := f.EvmKeeper.AddSupportForNewChain(ctx, c, uint64(i+1), 123, "0x1234", big.NewInt(55)); err != nil {
			return nil, err
		}
		if err := f.EvmKeeper.SetFeeManagerAddress(ctx, c, "0xb794f5ea0ba39494ce839613fffba74279579268"); err != nil {
			return nil, err
		}
		if i == inactiveChain {
			continue
		}
		if err := f.EvmKeeper.ActivateChainReferenceID(ctx, c, &evmtypes.SmartContract{Id: 123}, "addr", []byte(turnstones[i])); err != nil {
			return nil, err
		}
	}
	for i := 0; i < es.NVals; i++ {
		if err := e.addValidator(ctx, i, es.MevEth[i], es.FeeEth[i], es.FeeBnb[i]); err != nil {
			return nil, err
		}
	}
	e.nextV = es.NVals
	snap, err := f.ValsetKeeper.TriggerSnapshotBuild(ctx)
	if err != nil {
		return nil, err
	}
	f.MetrixKeeper.UpdateUptime(ctx)
	if snap != nil {
		for c, ref := range chainRefs {
			if c < len(es.Publish) && c != inactiveChain && es.Publish[c] {
				if err := f.ValsetKeeper.SetSnapshotOnChain(ctx, snap.Id, ref); err != nil {
					return nil, err
				}
			}
		}
	}
	e.ctx = ctx
	e.ms = schedkeeper.NewMsgServerImpl(e.k)
	e.router = libwasm.NewRouterMessageDecorator(log.NewNopLogger(), bindings.NewLegacyMessenger(e.k), bindings.NewMessenger(e.k, e.ms), nil, nil)(nil)
	e.grants = &fakeGrants{by: map[string][]string{}}
	e.ante = palomamodule.NewVerifyAuthorisedSignatureDecorator(e.grants)
	e.am = schedmodule.NewAppModule(f.Codec, e.k, nil, nil)
	return e, nil
}

// rawJobs: the job records as they lie in the module's store (raw key without the "jobs" prefix -> raw bytes),
// read past every keeper function (a lookup cache, a canonicalising getter ... cannot colour this view).
func (e *env) rawJobs(ctx sdk.Context) map[string]string {
	out := map[string]string{}
	st := prefix.NewStore(e.k.Store(ctx), []byte("jobs"))
	it := st.Iterator(nil, nil)
	defer it.Close()
	for ; it.Valid(); it.Next() {
		out[string(it.Key())] = string(it.Value())
	}
	return out
}

// fakeGrants: the fee-grant keeper as far as the ante decorator uses it (AllowancesByGranter).
type fakeGrants struct{ by map[string][]string }

func (g *fakeGrants) AllowancesByGranter(_ context.Context, req *feegrant.QueryAllowancesByGranterRequest) (*feegrant.QueryAllowancesByGranterResponse, error) {
	out := &feegrant.QueryAllowancesByGranterResponse{}
	for _, ge := range g.by[req.Granter] {
		out.Allowances = append(out.Allowances, &feegrant.Grant{Granter: req.Granter, Grantee: ge})
	}
	return out, nil
}

func (g *fakeGrants) GrantAllowance(_ context.Context, granter, grantee sdk.AccAddress, _ feegrant.FeeAllowanceI) error {
	g.by[granter.String()] = append(g.by[granter.String()], grantee.String())
	return nil
}

type fakeTx struct{ msgs []sdk.Msg }

func (f fakeTx) GetMsgs() []sdk.Msg                    { return f.msgs }
func (f fakeTx) GetMsgsV2() ([]protov2.Message, error) { return nil, nil }

// admit: what stands between a signed transaction message and the msg server on the chain:
// ValidateBasic (baseapp) and the VerifyAuthorisedSignatureDecorator of the ante chain.
func (e *env) admit(ctx sdk.Context, msg sdk.Msg) (err error) {
	defer func() {
		if r := recover(); r != nil {
			err = fmt.Errorf("refused (panic): %v", r)
		}
	}()
	if vb, ok := msg.(interface{ ValidateBasic() error }); ok {
		if err := vb.ValidateBasic(); err != nil {
			return err
		}
	}
	reached := false
	if _, err := e.ante.AnteHandle(ctx, fakeTx{[]sdk.Msg{msg}}, false, func(c sdk.Context, _ sdk.Tx, _ bool) (sdk.Context, error) {
		reached = true
		return c, nil
	}); err != nil {
		return err
	}
	if !reached {
		return errors.New("ante chain stopped")
	}
	return nil
}

// metadata of a transaction message: creator, and who signed
func (e *env) metadata(creator []byte, op *opSpec) (valsettypes.MsgMetadata, []byte) {
	signer := creator
	if op.Signer != "" {
		signer = unhex(op.Signer)
		e.ensureAccount(e.ctx, signer) // whoever signs a transaction has an account
		if op.Granted && len(creator) > 0 && len(signer) > 0 {
			_ = e.grants.GrantAllowance(e.ctx, creator, signer, nil)
		}
	}
	return valsettypes.MsgMetadata{Creator: sdk.AccAddress(creator).String(), Signers: []string{sdk.AccAddress(signer).String()}}, signer
}

// authorisedBy: the independent reading of "the creator stands behind this transaction".
func (e *env) authorisedBy(creator, signer []byte) bool {
	if len(creator) == 0 || len(signer) == 0 {
		return false
	}
	if string(creator) == string(signer) {
		return true
	}
	for _, ge := range e.grants.by[sdk.AccAddress(creator).String()] {
		if ge == sdk.AccAddress(signer).String() {
			return true
		}
	}
	return false
}

func (e *env) ensureAccount(ctx sdk.Context, a sdk.AccAddress) {
	ak := e.k.VerifAccountKeeper()
	if len(a) > 0 && !ak.HasAccount(ctx, a) {
		ak.SetAccount(ctx, ak.NewAccountWithAddress(ctx, a))
	}
}

// resnap: one more bonded validator, new snapshot built with the listeners switched off (so the
// snapshot is current but not yet announced to the chains: the next job run triggers the
// just-in-time valset update of PreJobExecution).
func (e *env) resnap(listeners, age bool) error {
	if age {
		e.ctx = e.ctx.WithBlockTime(e.ctx.BlockTime().Add(31 * 24 * time.Hour))
	}
	if err := e.addValidator(e.ctx, e.nextV, false, true, true); err != nil {
		return err
	}
	e.nextV++
	ls := e.f.ValsetKeeper.SnapshotListeners
	if !listeners {
		e.f.ValsetKeeper.SnapshotListeners = nil
	}
	_, err := e.f.ValsetKeeper.TriggerSnapshotBuild(e.ctx)
	e.f.ValsetKeeper.SnapshotListeners = ls
	e.f.MetrixKeeper.UpdateUptime(e.ctx)
	return err
}

// ---------------------------------------------------------------------------------------------
// queue observation
// ---------------------------------------------------------------------------------------------

type qitem struct {
	chain int
	id    uint64
	raw   string // marshalled QueuedSignedMessage
	call  *evmtypes.SubmitLogicCall
	msg   *evmtypes.Message
	kind  string // call | valset | other
	vid   uint64 // valset: Valset.ValsetID
	key   string
}

// ordered: the live content of all turnstone queues in the order of the consensus keeper's global message counter
func ordered(m map[string]*qitem) []*qitem {
	out := make([]*qitem, 0, len(m))
	for _, v := range m {
		out = append(out, v)
	}
	sort.Slice(out, func(i, j int) bool { return out[i].id < out[j].id })
	return out
}

// diff: positions (in the ordered previous content) of the messages that disappeared, and the new messages in id order
func diff(before, after map[string]*qitem) (removed []*qitem, pos []int, added []*qitem) {
	for i, it := range ordered(before) {
		if _, ok := after[it.key]; !ok {
			pos = append(pos, i)
			removed = append(removed, it)
		}
	}
	for _, it := range ordered(after) {
		if _, ok := before[it.key]; !ok {
			added = append(added, it)
		}
	}
	return
}

func coqPos(pos []int) string {
	var t []string
	for _, p := range pos {
		t = append(t, emit.ZI(int64(p)))
	}
	return emit.List(t)
}

func queueName(ref string) string {
	return consensustypes.Queue(evmtypes.ConsensusTurnstoneMessage, xchain.Type("evm"), xchain.ReferenceID(ref))
}

func (e *env) readQueues(ctx sdk.Context) (map[string]*qitem, error) {
	out := map[string]*qitem{}
	for c, ref := range chainRefs {
		msgs, err := e.f.ConsensusKeeper.GetMessagesFromQueue(ctx, queueName(ref), 0)
		if err != nil {
			return nil, err
		}
		for _, m := range msgs {
			cm, err := m.ConsensusMsg(e.f.Codec)
			if err != nil {
				return nil, err
			}
			em, ok := cm.(*evmtypes.Message)
			if !ok {
				return nil, fmt.Errorf("queue %s holds %T", ref, cm)
			}
			it := &qitem{chain: c, id: m.GetId(), msg: em, kind: "other"}
			bz, err := em.Marshal()
			if err != nil {
				return nil, err
			}
			it.raw = string(bz)
			switch a := em.Action.(type) {
			case *evmtypes.Message_SubmitLogicCall:
				it.kind, it.call = "call", a.SubmitLogicCall
			case *evmtypes.Message_UpdateValset:
				it.kind = "valset"
				if a.UpdateValset != nil && a.UpdateValset.Valset != nil {
					it.vid = a.UpdateValset.Valset.ValsetID
				}
			}
			it.key = fmt.Sprintf("%d/%d", c, m.GetId())
			out[it.key] = it
		}
	}
	return out, nil
}

func newItems(before, after map[string]*qitem) []*qitem {
	var out []*qitem
	for k, v := range after {
		if _, ok := before[k]; !ok {
			out = append(out, v)
		}
	}
	sort.Slice(out, func(i, j int) bool {
		if out[i].chain != out[j].chain {
			return out[i].chain < out[j].chain
		}
		return out[i].id < out[j].id
	})
	return out
}

// ---------------------------------------------------------------------------------------------
// Coq printers
// ---------------------------------------------------------------------------------------------

// cb prints a byte string as a Corr.C17 literal: (bs "text") for printable ASCII, (hx "hex") otherwise.
func cb(b []byte) string {
	if len(b) == 0 {
		return "[]"
	}
	if intern != nil && len(b) >= 6 {
		return intern.name(b)
	}
	return cbLit(b)
}

// interner: byte strings that occur several times in one history are bound once
// (let b3 := C17.bs "…" in …); parsing literals dominates the cost of evaluating a cases file.
type interner struct {
	names map[string]string
	defs  []string
}

var intern *interner

func (in *interner) name(b []byte) string {
	if n, ok := in.names[string(b)]; ok {
		return n
	}
	n := fmt.Sprintf("b%d", len(in.defs))
	in.names[string(b)] = n
	in.defs = append(in.defs, "let "+n+" := "+cbLit(b)+" in")
	return n
}

func cbLit(b []byte) string {
	printable := true
	for _, c := range b {
		if c < 0x20 || c > 0x7e {
			printable = false
			break
		}
	}
	if printable {
		return "(C17.bs \"" + strings.ReplaceAll(string(b), "\"", "\"\"") + "\")"
	}
	return "(C17.hx \"" + hex.EncodeToString(b) + "\")"
}
func cs(s string) string { return cb([]byte(s)) }
func cob(b []byte, isNil bool) string {
	if isNil {
		return "None"
	}
	return "(Some " + cb(b) + ")"
}

func coqJob(j *schedtypes.Job) string {
	return fmt.Sprintf("(mkJob %s %s %s %s %s %s %s %s)", cs(j.ID), cb(j.Owner), cs(j.Routing.ChainType), cs(j.Routing.ChainReferenceID),
		cb(j.Definition), cb(j.Payload), emit.Bool(j.IsPayloadModifiable), emit.Bool(j.EnforceMEVRelay))
}

func (e *env) coqItem(it *qitem) string {
	switch it.kind {
	case "valset":
		return "(QValset " + cs(it.msg.ChainReferenceID) + " " + cs(it.msg.TurnstoneID) + " " + emit.ZU(it.vid) + ")"
	case "call":
		a, ok := e.valID[it.msg.Assignee]
		if !ok {
			a = -1
		}
		c := it.call
		return fmt.Sprintf("(QCall (mkCall %s %s %s %s %s %s %s %s %s))", cs(it.msg.ChainReferenceID), cs(it.msg.TurnstoneID), cs(c.HexContractAddress),
			cb(c.Abi), cb(c.Payload), cob(c.SenderAddress, c.SenderAddress == nil), cob(c.ContractAddress, c.ContractAddress == nil),
			emit.Bool(c.ExecutionRequirements.EnforceMEVRelay), emit.ZI(a))
	}
	return "(QValset [0%Z] [] 0)" // an unexpected message kind: never equal to anything the model produces
}

// ---------------------------------------------------------------------------------------------
// error classes
// ---------------------------------------------------------------------------------------------

func classify(err error) string {
	if err == nil {
		return "Ok"
	}
	var se *json.SyntaxError
	var te *json.UnmarshalTypeError
	s := err.Error()
	if strings.HasPrefix(s, "unauthorised:") {
		return "(Err EUnauthorised)"
	}
	switch {
	case errors.Is(err, schedtypes.ErrJobNotFound):
		return "(Err ENotFound)"
	case errors.Is(err, schedtypes.ErrCannotModifyJobPayload):
		return "(Err ECannotModify)"
	case errors.As(err, &se), errors.As(err, &te), strings.Contains(s, "unexpected end of JSON input"), strings.Contains(s, "invalid character"), strings.Contains(s, "cannot unmarshal"):
		return "(Err EBadJSON)"
	case strings.Contains(s, "invalid hex payload"):
		return "(Err EBadHex)"
	case errors.Is(err, evmkeeper.ErrChainNotFound):
		return "(Err ENoChain)"
	case strings.Contains(s, "Can not zero pad"):
		return "(Err EPad)"
	case strings.Contains(s, "invalid job id"), strings.Contains(s, "missing payload"), strings.Contains(s, "you must provide a jobID"):
		return "(Err EWasmInvalid)"
	case strings.Contains(s, "panic"):
		return "(Err EPanic)"
	}
	return "other:" + s
}

// ---------------------------------------------------------------------------------------------
// running one history
// ---------------------------------------------------------------------------------------------

type created struct {
	spec    jobSpec
	owner   []byte
	stored  []byte // marshalled job as read back right after creation
	defAddr string
	defABI  string
	order   int
}

type jsonDef struct {
	ABI     string `json:"abi"`
	Address string `json:"address"`
}
type jsonPay struct {
	HexPayload string `json:"hexPayload"`
}

// strictHex: the exact decoding the property asks for (0x optional, odd length padded on the left).
func strictHex(s string) ([]byte, bool) {
	if len(s) >= 2 && s[0] == '0' && (s[1] == 'x' || s[1] == 'X') {
		s = s[2:]
	}
	if len(s)%2 == 1 {
		s = "0" + s
	}
	b, err := hex.DecodeString(s)
	return b, err == nil
}

func leftPad32(b []byte) []byte {
	out := make([]byte, 32)
	copy(out[32-len(b):], b)
	return out
}

func wrapJSON(raw []byte) []byte {
	return []byte(`{"hexPayload":"` + hex.EncodeToString(raw) + `"}`)
}

func (e *env) mkJob(js *jobSpec, owner []byte) *schedtypes.Job {
	return &schedtypes.Job{ID: js.ID, Owner: owner, Routing: schedtypes.Routing{ChainType: js.CType, ChainReferenceID: js.CRef},
		Definition: []byte(js.Def), Payload: []byte(js.Payload), IsPayloadModifiable: js.Mod, EnforceMEVRelay: js.Mev}
}

type histResult struct {
	term       string
	nontrivial bool
	sample     any
}

func runHistory(run *emit.Run, hs *histSpec, tag string) (res *histResult, fatal error) {
	e, err := newEnv(hs.Env)
	if err != nil {
		return nil, err
	}
	intern = &interner{names: map[string]string{}}
	defer func() { intern = nil }()
	violate := func(id, what string) {
		run.Violate(id, what, map[string]any{"history": hs, "tag": tag})
	}
	ptab := map[string]bool{}
	dtab := map[string]bool{}
	var ptabL, dtabL []string
	notePay := func(b []byte) {
		if !ptab[string(b)] {
			ptab[string(b)] = true
			ptabL = append(ptabL, string(b))
		}
	}
	noteDef := func(b []byte) {
		if !dtab[string(b)] {
			dtab[string(b)] = true
			dtabL = append(dtabL, string(b))
		}
	}
	jobs := map[string]*created{}
	var order []string
	var steps []string
	okOps, errOps := 0, 0
	idsTerm := func() string {
		var t []string
		for _, id := range order {
			t = append(t, cs(id))
		}
		return emit.List(t)
	}
	itemsTerm := func(items []*qitem) string {
		var t []string
		for _, it := range items {
			t = append(t, e.coqItem(it))
		}
		return emit.List(t)
	}

	calls := map[string]string{} // every logic call ever seen: key -> raw
	// invariants of the live queues, and: calls never disappear or change
	checkQueues := func(after map[string]*qitem, when string) {
		nvs := map[int]int{}
		for k, it := range after {
			switch it.kind {
			case "call":
				if old, ok := calls[k]; ok && old != it.raw {
					violate("C17:call-changed", fmt.Sprintf("queued call %s changed %s", k, when))
				}
				calls[k] = it.raw
			case "valset":
				nvs[it.chain]++
			}
			if it.msg.TurnstoneID != turnstones[it.chain] || it.msg.ChainReferenceID != chainRefs[it.chain] {
				violate("C17:queue-message-of-other-chain", fmt.Sprintf("message %s in the queue of %s names chain %q turnstone %q", k, chainRefs[it.chain], it.msg.ChainReferenceID, it.msg.TurnstoneID))
			}
		}
		for c, n := range nvs {
			if n > 1 {
				violate("C17:two-valset-updates", fmt.Sprintf("%d valset updates in the queue of %s %s", n, chainRefs[c], when))
			}
		}
		for k := range calls {
			if _, ok := after[k]; !ok {
				violate("C17:call-removed", fmt.Sprintf("queued call %s disappeared %s", k, when))
			}
		}
	}

	// ----- the queue content left by the environment's setup, as publications of the snapshot listener -----
	seen, err := e.readQueues(e.ctx)
	if err != nil {
		return nil, err
	}
	for _, it := range ordered(seen) {
		if it.kind != "valset" {
			return nil, fmt.Errorf("setup left a %s message in a turnstone queue", it.kind)
		}
		steps = append(steps, fmt.Sprintf("(OPublish %s (Some %s), Ok, [], %s, [])", cs(chainRefs[it.chain]), emit.ZU(it.vid), itemsTerm([]*qitem{it})))
		run.Count("op", "publish-at-setup")
	}
	checkQueues(seen, "after setup")

	// the whole job-record key space after every operation: nothing that was there may change or go, and the
	// only record that may appear is the one of the job this operation created
	rawPrev := e.rawJobs(e.ctx)
	justCreated := ""
	hasCreated := false
	probeIDs := map[string]bool{}
	checkJobs := func(when string) {
		now := e.rawJobs(e.ctx)
		for k, v := range rawPrev {
			nv, ok := now[k]
			switch {
			case !ok:
				violate("C17:job-record-removed", fmt.Sprintf("the stored record of job %q is gone %s", k, when))
			case nv != v:
				violate("C17:job-record-changed", fmt.Sprintf("the stored record of job %q changed %s (%d -> %d bytes)", k, when, len(v), len(nv)))
			}
		}
		for k, v := range now {
			if _, ok := rawPrev[k]; ok {
				continue
			}
			var j schedtypes.Job
			if uerr := j.Unmarshal([]byte(v)); uerr != nil || j.ID != k || !hasCreated || k != justCreated {
				violate("C17:phantom-job-record", fmt.Sprintf("a record appeared under job key %q %s that is not the job created by this operation (%d bytes, decodes: %v)", k, when, len(v), uerr == nil))
			}
		}
		rawPrev = now
		justCreated, hasCreated = "", false
		// every lookup agrees with the store
		for k := range now {
			probeIDs[k] = true
		}
		for id := range probeIDs {
			j, gerr := e.k.GetJob(e.ctx, id)
			raw, there := now[id]
			switch {
			case there && (gerr != nil || j == nil):
				violate("C17:lookup-differs-from-store", fmt.Sprintf("job %q is stored but GetJob fails %s: %v", id, when, gerr))
			case !there && gerr == nil && j != nil:
				violate("C17:lookup-differs-from-store", fmt.Sprintf("GetJob finds a job %q that is not in the store %s", id, when))
			case there:
				if bz, _ := j.Marshal(); string(bz) != raw {
					violate("C17:lookup-differs-from-store", fmt.Sprintf("GetJob(%q) differs from the stored record %s", id, when))
				}
			}
			if e.k.JobIDExists(e.ctx, id) != there {
				violate("C17:lookup-differs-from-store", fmt.Sprintf("JobIDExists(%q) = %v, stored: %v %s", id, !there, there, when))
			}
		}
		for id, c := range jobs {
			j, err := e.k.GetJob(e.ctx, id)
			if err != nil || j == nil {
				violate("C17:job-lost", fmt.Sprintf("job %q no longer readable %s", id, when))
				continue
			}
			bz, _ := j.Marshal()
			if string(bz) != string(c.stored) {
				violate("C17:job-mutated", fmt.Sprintf("stored job %q changed %s", id, when))
			}
		}
	}

	for oi, op := range hs.Ops {
		op := op
		when := fmt.Sprintf("after op %d (%s/%s)", oi, op.Kind, op.Path)
		switch op.Kind {
		case "resnap":
			if err := e.resnap(op.Listeners, op.Age); err != nil {
				return nil, fmt.Errorf("resnap: %w", err)
			}
			after, err := e.readQueues(e.ctx)
			if err != nil {
				return nil, err
			}
			// one publication per chain that received the new valset, in the order of the message ids
			removed, _, added := diff(seen, after)
			cur := ordered(seen)
			handled := map[string]bool{}
			for _, it := range added {
				if it.kind != "valset" {
					violate("C17:foreign-message", fmt.Sprintf("snapshot publication enqueued a %s message", it.kind))
					continue
				}
				var pos []int
				var next []*qitem
				for i, o := range cur {
					gone := false
					for _, r := range removed {
						if r.key == o.key && r.chain == it.chain {
							gone = true
							handled[r.key] = true
						}
					}
					if gone {
						pos = append(pos, i)
					} else {
						next = append(next, o)
					}
				}
				cur = append(next, it)
				steps = append(steps, fmt.Sprintf("(OPublish %s (Some %s), Ok, %s, %s, %s)", cs(chainRefs[it.chain]), emit.ZU(it.vid), coqPos(pos), itemsTerm([]*qitem{it}), idsTerm()))
				run.Count("op", "publish")
			}
			for _, r := range removed {
				if r.kind != "valset" {
					violate("C17:call-removed", fmt.Sprintf("snapshot publication removed a %s message", r.kind))
				}
				if !handled[r.key] {
					violate("C17:valset-update-dropped", fmt.Sprintf("snapshot publication removed the valset update of %s without putting a new one", chainRefs[r.chain]))
				}
			}
			seen = after
			checkQueues(after, when)
			checkJobs(when)
			run.Count("op", fmt.Sprintf("resnap listeners=%v aged=%v", op.Listeners, op.Age))
			continue

		case "simulate":
			// a branch of the state that is thrown away (a simulated transaction, the first messages of a transaction whose
			// last message fails, a reverted sub-message): a job is created there under an id, looked up and run -- nothing
			// of it may be visible afterwards, in the store or through any lookup
			js := op.Job
			owner := unhex(op.Creator)
			probeIDs[js.ID] = true
			bctx, _ := e.ctx.CacheContext()
			var serr, rerr error
			func() {
				defer func() {
					if r := recover(); r != nil {
						serr = fmt.Errorf("panic: %v", r)
					}
				}()
				switch op.Path {
				case "msg":
					e.ensureAccount(bctx, owner)
					md, _ := e.metadata(owner, &opSpec{})
					_, serr = e.ms.CreateJob(bctx, &schedtypes.MsgCreateJob{Job: e.mkJob(js, nil), Metadata: md})
				case "wasm":
					cm, _ := json.Marshal(libwasm.CustomMessage{Scheduler: &bindingstypes.Message{CreateJob: &bindingstypes.CreateJob{Job: &bindingstypes.Job{
						JobId: js.ID, ChainType: js.CType, ChainReferenceId: js.CRef, Definition: js.Def, Payload: js.Payload, PayloadModifiable: js.Mod, IsMEV: js.Mev}}}})
					_, _, _, serr = e.router.DispatchMsg(bctx, sdk.AccAddress(owner), "", wasmvmtypes.CosmosMsg{Custom: cm})
				default:
					serr = e.k.AddNewJob(bctx, e.mkJob(js, owner))
				}
				_, _ = e.k.GetJob(bctx, js.ID)
				_ = e.k.JobIDExists(bctx, js.ID)
				_, rerr = e.k.ExecuteJob(bctx, js.ID, nil, owner, nil)
				if rerr != nil && js.Mod {
					_, rerr = e.k.ExecuteJob(bctx, js.ID, []byte(`{"hexPayload":"0x01"}`), owner, nil)
				}
			}()
			run.Count("simulate", fmt.Sprintf("created=%v ran=%v id-taken-in-committed-state=%v", serr == nil, serr == nil && rerr == nil, func() bool { _, ok := jobs[js.ID]; return ok }()))
			// the branch is dropped here
			after, err := e.readQueues(e.ctx)
			if err != nil {
				return nil, err
			}
			if _, pos, added := diff(seen, after); len(pos) > 0 || len(added) > 0 {
				violate("C17:discarded-branch-leaked", fmt.Sprintf("a discarded branch left %d queue messages and removed %d", len(added), len(pos)))
			}
			seen = after
			checkQueues(after, when)
			checkJobs(when)
			continue

		case "block":
			// the module's block hooks, as the module manager calls them
			schedmodule.BeginBlocker(e.ctx)
			berr := e.am.BeginBlock(e.ctx)
			schedmodule.EndBlocker(e.ctx, e.k)
			eerr := e.am.EndBlock(e.ctx)
			after, err := e.readQueues(e.ctx)
			if err != nil {
				return nil, err
			}
			_, pos, added := diff(seen, after)
			if berr != nil || eerr != nil || len(pos) > 0 || len(added) > 0 {
				violate("C17:block-hook-acted", fmt.Sprintf("scheduler Begin/EndBlock: errors %v %v, %d queue messages removed, %d added", berr, eerr, len(pos), len(added)))
			}
			steps = append(steps, fmt.Sprintf("(OBlock, Ok, %s, %s, %s)", coqPos(pos), itemsTerm(added), idsTerm()))
			seen = after
			checkJobs(when)
			run.Count("op", "block")
			continue

		case "genesis":
			// export, empty the module's store, import: through the AppModule, as a genesis restart does
			bz := e.am.ExportGenesis(e.ctx, e.f.Codec)
			st := e.k.Store(e.ctx)
			var keys [][]byte
			it := st.Iterator(nil, nil)
			for ; it.Valid(); it.Next() {
				keys = append(keys, append([]byte{}, it.Key()...))
			}
			it.Close()
			for _, k := range keys {
				st.Delete(k)
			}
			e.am.InitGenesis(e.ctx, e.f.Codec, bz)
			lost := 0
			var keep []string
			for _, id := range order {
				c := jobs[id]
				j, gerr := e.k.GetJob(e.ctx, id)
				if gerr != nil || j == nil {
					lost++
					delete(jobs, id)
					continue
				}
				if b2, _ := j.Marshal(); string(b2) != string(c.stored) {
					violate("C17:job-mutated", fmt.Sprintf("job %q differs after a genesis export / import", id))
				}
				keep = append(keep, id)
			}
			order = keep
			// nothing that was not there before may be there now
			st2 := e.k.Store(e.ctx)
			it2 := st2.Iterator(nil, nil)
			n2 := 0
			for ; it2.Valid(); it2.Next() {
				n2++
			}
			it2.Close()
			if n2 != len(keep) {
				violate("C17:genesis-import-created", fmt.Sprintf("scheduler store holds %d keys after the import, %d known jobs survived", n2, len(keep)))
			}
			after, err := e.readQueues(e.ctx)
			if err != nil {
				return nil, err
			}
			_, pos, added := diff(seen, after)
			steps = append(steps, fmt.Sprintf("(OGenesisRoundTrip, Ok, %s, %s, %s)", coqPos(pos), itemsTerm(added), idsTerm()))
			seen = after
			for k, v := range e.rawJobs(e.ctx) {
				if old, ok := rawPrev[k]; !ok || old != v {
					violate("C17:genesis-import-created", fmt.Sprintf("job record %q after the import was not there (or differs from what was there) before the export", k))
				}
			}
			rawPrev = e.rawJobs(e.ctx)
			run.Count("genesis-round-trip", fmt.Sprintf("jobs-before=%d lost=%d", len(keys), lost))
			continue

		case "create":
			js := op.Job
			owner := unhex(op.Creator)
			probeIDs[js.ID] = true
			noteDef([]byte(js.Def))
			notePay([]byte(js.Payload))
			vb := e.mkJob(js, owner).ValidateBasic() == nil
			_, existed := jobs[js.ID]
			var cerr error
			func() {
				defer func() {
					if r := recover(); r != nil {
						cerr = fmt.Errorf("panic: %v", r)
					}
				}()
				switch op.Path {
				case "msg":
					e.ensureAccount(e.ctx, owner)
					md, signer := e.metadata(owner, &op)
					msg := &schedtypes.MsgCreateJob{Job: e.mkJob(js, unhex(op.ClaimedOwner)), Metadata: md}
					if op.ClaimedOwner != "" {
						run.Count("create", "message-names-another-owner")
					}
					if aerr := e.admit(e.ctx, msg); aerr != nil {
						cerr = fmt.Errorf("unauthorised: %w", aerr)
						vb = false
						if e.authorisedBy(owner, signer) && len(md.Creator) > 0 {
							run.Count("create", "refused-although-authorised")
						}
						break
					}
					if !e.authorisedBy(owner, signer) {
						violate("C17:create-not-authorised", fmt.Sprintf("MsgCreateJob for creator %x signed by %x was let through", owner, signer))
					}
					_, cerr = e.ms.CreateJob(e.ctx, msg)
				case "wasm":
					cm, _ := json.Marshal(libwasm.CustomMessage{Scheduler: &bindingstypes.Message{CreateJob: &bindingstypes.CreateJob{Job: &bindingstypes.Job{
						JobId: js.ID, ChainType: js.CType, ChainReferenceId: js.CRef, Definition: js.Def, Payload: js.Payload, PayloadModifiable: js.Mod, IsMEV: js.Mev}}}})
					_, _, _, cerr = e.router.DispatchMsg(e.ctx, sdk.AccAddress(owner), "", wasmvmtypes.CosmosMsg{Custom: cm})
				default:
					cerr = e.k.AddNewJob(e.ctx, e.mkJob(js, owner))
				}
			}()
			resTerm := "Ok"
			if cerr != nil {
				resTerm = "(Err ERejected)"
				errOps++
				run.Count("create", "rejected")
				if existed {
					run.Count("create", "duplicate-rejected")
				}
			} else {
				okOps++
				run.Count("create", "ok/"+op.Path)
				if existed {
					violate("C17:duplicate-id-accepted", fmt.Sprintf("job id %q created twice", js.ID))
				}
				j, gerr := e.k.GetJob(e.ctx, js.ID)
				if gerr != nil || j == nil {
					violate("C17:created-job-missing", fmt.Sprintf("job %q not stored after successful create", js.ID))
				} else {
					if string(j.Owner) != string(owner) {
						violate("C17:owner-not-creator", fmt.Sprintf("job %q owner %x, creator %x", js.ID, []byte(j.Owner), owner))
					}
					if j.ID != js.ID || j.Routing.ChainType != js.CType || j.Routing.ChainReferenceID != js.CRef || string(j.Definition) != js.Def ||
						string(j.Payload) != js.Payload || j.IsPayloadModifiable != js.Mod || j.EnforceMEVRelay != js.Mev {
						violate("C17:stored-job-differs", fmt.Sprintf("job %q stored fields differ from the request", js.ID))
					}
					bz, _ := j.Marshal()
					if !existed {
						justCreated, hasCreated = js.ID, true
						var jd jsonDef
						_ = json.Unmarshal([]byte(js.Def), &jd)
						jobs[js.ID] = &created{spec: *js, owner: owner, stored: bz, defAddr: jd.Address, defABI: jd.ABI, order: len(order)}
						order = append(order, js.ID)
					}
				}
			}
			after, err := e.readQueues(e.ctx)
			if err != nil {
				return nil, err
			}
			_, pos, nw := diff(seen, after)
			if len(nw) > 0 || len(pos) > 0 {
				violate("C17:create-enqueued", fmt.Sprintf("create of %q put %d message(s) into a turnstone queue and removed %d", js.ID, len(nw), len(pos)))
			}
			seen = after
			steps = append(steps, fmt.Sprintf("(OCreate %s %s, %s, %s, %s, %s)", coqJob(e.mkJob(js, owner)), emit.Bool(vb), resTerm, coqPos(pos), itemsTerm(nw), idsTerm()))
			checkJobs(when)

		case "exec":
			sender, contract := unhex(op.Sender), unhex(op.Contract)
			probeIDs[op.ID] = true
			var in []byte
			if !op.InNil {
				in = []byte(op.In)
				if in == nil {
					in = []byte{}
				}
			}
			// ----- the environment's answers, computed on branches of the state -----
			preT, pick, pickOK := "None", int64(-1), false
			preFires := false
			var pickErr error
			stored, known := jobs[op.ID]
			if j, gerr := e.k.GetJob(e.ctx, op.ID); gerr == nil && j != nil {
				// (a) does the hook get as far as SendValsetMsgForChain, and with which valset id?  On a branch
				// where the chain's queue is empty that function always puts its message.
				actx, _ := e.ctx.CacheContext()
				for c, ref := range chainRefs {
					if ref != j.Routing.ChainReferenceID {
						continue
					}
					msgs, err := e.f.ConsensusKeeper.GetMessagesFromQueue(actx, queueName(ref), 0)
					if err != nil {
						return nil, err
					}
					// (only the valset updates are taken out: that is all SendValsetMsgForChain looks for, and
					// removing a message makes the queue compute its bytes to sign, which a malformed call may not survive)
					for _, m := range msgs {
						cm, cerr := m.ConsensusMsg(e.f.Codec)
						if cerr != nil {
							return nil, cerr
						}
						if em, ok := cm.(*evmtypes.Message); ok {
							if _, isV := em.Action.(*evmtypes.Message_UpdateValset); !isV {
								continue
							}
						}
						if err := e.f.ConsensusKeeper.DeleteJob(actx, queueName(ref), m.GetId()); err != nil {
							return nil, err
						}
					}
					_ = e.k.PreJobExecution(actx, j)
					a1, err := e.readQueues(actx)
					if err != nil {
						return nil, err
					}
					for _, it := range ordered(a1) {
						if it.chain == c && it.kind == "valset" {
							preT = "(Some " + emit.ZU(it.vid) + ")"
							preFires = true
						}
					}
				}
				// (b) relayer selection for the call, after the real hook
				bctx, _ := e.ctx.CacheContext()
				_ = e.k.PreJobExecution(bctx, j)
				a, _, perr := e.f.EvmKeeper.PickValidatorForMessage(bctx, j.Routing.ChainReferenceID, &xchain.JobRequirements{EnforceMEVRelay: j.EnforceMEVRelay})
				pickErr = perr
				if perr == nil {
					if id, ok := e.valID[a]; ok {
						pick, pickOK = id, true
					}
				}
			}
			pickT := "None"
			if pickOK {
				pickT = "(Some " + emit.ZI(pick) + ")"
			}
			// ----- the request -----
			octx := e.ctx
			var write func()
			if op.Atomic {
				octx, write = e.ctx.CacheContext()
			}
			var xerr error
			var msgID uint64
			haveID := false
			var opTerm string
			var suppliedJSON []byte // what reaches ScheduleNow as `in`
			suppliedNil := false
			var effSender, effContract []byte
			sNil, cNil := false, false
			func() {
				defer func() {
					if r := recover(); r != nil {
						xerr = fmt.Errorf("panic: %v", r)
					}
				}()
				switch op.Path {
				case "msg":
					if !op.NoAccount {
						e.ensureAccount(e.ctx, sender)
					}
					hasAcct := len(sender) > 0 && e.k.VerifAccountKeeper().HasAccount(e.ctx, sender)
					md, signer := e.metadata(sender, &op)
					msg := &schedtypes.MsgExecuteJob{JobID: op.ID, Payload: in, Metadata: md}
					authorised := true
					if aerr := e.admit(octx, msg); aerr != nil {
						authorised = false
						xerr = fmt.Errorf("unauthorised: %w", aerr)
					} else {
						if !e.authorisedBy(sender, signer) {
							violate("C17:execute-not-authorised", fmt.Sprintf("MsgExecuteJob for creator %x signed by %x was let through", sender, signer))
						}
						// baseapp recovers a panic of the handler and fails the transaction
						func() {
							defer func() {
								if r := recover(); r != nil {
									xerr = fmt.Errorf("panic: %v", r)
								}
							}()
							var r *schedtypes.MsgExecuteJobResponse
							r, xerr = e.ms.ExecuteJob(octx, msg)
							if xerr == nil {
								msgID, haveID = r.MessageID, true
							}
						}()
					}
					run.Count("msg-execute", fmt.Sprintf("signed-by-creator=%v granted=%v authorised=%v account=%v ok=%v", op.Signer == "", op.Granted, authorised, hasAcct, xerr == nil))
					suppliedJSON, suppliedNil = in, in == nil
					effSender, effContract, cNil = sender, nil, true
					opTerm = fmt.Sprintf("(OMsgExec %s %s %s %s %s %s %s %s)", cb(sender), emit.Bool(authorised), emit.Bool(hasAcct), cs(op.ID), cob(in, in == nil), preT, pickT, emit.Bool(op.Atomic))
				case "wasm":
					// the contract's custom message, as JSON, through the libwasm router; its body names a sender of its own choice
					cm, _ := json.Marshal(libwasm.CustomMessage{Scheduler: &bindingstypes.Message{ExecuteJob: &bindingstypes.ExecuteJob{JobID: op.ID, Sender: op.Claimed, Payload: in}}})
					suppliedJSON = wrapJSON(in)
					effSender, effContract = contract, contract
					opTerm = fmt.Sprintf("(OWasmExec %s %s %s %s %s %s %s)", cs(op.ID), cb(in), cb(contract), cs(op.Claimed), preT, pickT, emit.Bool(op.Atomic))
					_, _, _, xerr = e.router.DispatchMsg(octx, sdk.AccAddress(contract), "", wasmvmtypes.CosmosMsg{Custom: cm})
				case "legacy":
					body := map[string]any{"job_id": op.ID, "payload": in}
					if op.Claimed != "" {
						body["sender"] = op.Claimed
						body["contract"] = op.Claimed
					}
					lj, _ := json.Marshal(body)
					suppliedJSON = wrapJSON(in)
					effSender, effContract = contract, contract
					opTerm = fmt.Sprintf("(OLegacyExec %s %s %s %s %s %s %s)", cs(op.ID), cb(in), cb(contract), cs(op.Claimed), preT, pickT, emit.Bool(op.Atomic))
					_, _, _, xerr = e.router.DispatchMsg(octx, sdk.AccAddress(contract), "", wasmvmtypes.CosmosMsg{Custom: lj})
				default:
					var s, c sdk.AccAddress
					if !op.SNil {
						s = sdk.AccAddress(sender)
						if s == nil {
							s = sdk.AccAddress{}
						}
					}
					if !op.CNil {
						c = sdk.AccAddress(contract)
						if c == nil {
							c = sdk.AccAddress{}
						}
					}
					suppliedJSON, suppliedNil = in, in == nil
					effSender, effContract, sNil, cNil = sender, contract, op.SNil, op.CNil
					opTerm = fmt.Sprintf("(OExec (mkExec %s %s %s %s %s %s %s))", cs(op.ID), cob(in, in == nil), cob(sender, op.SNil), cob(contract, op.CNil), preT, pickT, emit.Bool(op.Atomic))
					msgID, xerr = e.k.ExecuteJob(octx, op.ID, in, s, c)
					haveID = xerr == nil
				}
			}()
			if op.Atomic && xerr == nil {
				write()
			}
			if !suppliedNil {
				notePay(suppliedJSON)
			}
			resTerm := classify(xerr)
			if strings.HasPrefix(resTerm, "other:") {
				if pickErr != nil && strings.Contains(xerr.Error(), pickErr.Error()) {
					resTerm = "(Err EPick)"
				} else {
					run.Count("unclassified-error", xerr.Error())
					resTerm = "(Err ERejected)" // never produced by the model for an execute: shows up as a mismatch
				}
			}
			run.Count("exec/"+op.Path, resTerm)
			if op.Path == "wasm" || op.Path == "legacy" {
				kind := "other-address"
				switch {
				case op.Claimed == "":
					kind = "absent"
				case op.Claimed == sdk.AccAddress(contract).String():
					kind = "own-address"
				default:
					if _, berr := sdk.AccAddressFromBech32(op.Claimed); berr != nil {
						kind = "not-an-address"
					}
				}
				run.Count("message-names-sender", fmt.Sprintf("%s/%s ok=%v", op.Path, kind, xerr == nil))
			}
			run.Count("caller-bytes", fmt.Sprintf("%s/%d", op.Path, len(sender)+len(contract)*map[bool]int{true: 1, false: 0}[op.Path != "keeper"]))
			after, err := e.readQueues(e.ctx)
			if err != nil {
				return nil, err
			}
			removed, pos, nw := diff(seen, after)
			run.Count("hook-valset-update", fmt.Sprintf("reaches-send=%v put=%v replaced=%d ok=%v atomic=%v", preFires, func() bool {
				for _, it := range nw {
					if it.kind == "valset" {
						return true
					}
				}
				return false
			}(), len(removed), xerr == nil, op.Atomic))
			var newCalls []*qitem
			nValset := 0
			for _, it := range nw {
				switch it.kind {
				case "call":
					newCalls = append(newCalls, it)
				case "valset":
					nValset++
				default:
					violate("C17:foreign-message", fmt.Sprintf("execute of %q enqueued an unexpected message kind", op.ID))
				}
			}
			for _, r := range removed {
				if r.kind != "valset" || !known || chainRefs[r.chain] != stored.spec.CRef {
					violate("C17:hook-removed-foreign", fmt.Sprintf("execute of %q removed a %s message from the queue of %s", op.ID, r.kind, chainRefs[r.chain]))
				}
			}
			if len(removed) > 0 && nValset == 0 {
				violate("C17:valset-update-dropped", fmt.Sprintf("execute of %q removed %d valset update(s) without putting a new one", op.ID, len(removed)))
			}
			// ----- direct oracle on the real state -----
			// the REAL caller: the creator behind the transaction (msg server), the dispatching contract (both wasm
			// messengers) -- whatever the message body says; for keeper-level calls what the Go caller passed
			caller := effSender
			if sNil {
				caller = effContract
				if cNil {
					caller = nil
				}
			}
			if xerr != nil {
				errOps++
				if len(newCalls) > 0 {
					violate("C17:failed-execute-enqueued", fmt.Sprintf("execute of %q failed (%v) but %d contract call(s) were enqueued", op.ID, xerr, len(newCalls)))
				}
				if op.Atomic && (len(nw) > 0 || len(pos) > 0) {
					violate("C17:failed-tx-left-messages", fmt.Sprintf("failed transactional execute of %q left %d message(s), removed %d", op.ID, len(nw), len(pos)))
				}
			} else {
				okOps++
				switch {
				case !known:
					violate("C17:executed-unknown-job", fmt.Sprintf("execute of never-created job %q succeeded", op.ID))
				case len(newCalls) != 1:
					violate("C17:not-exactly-one-call", fmt.Sprintf("successful execute of %q enqueued %d contract calls", op.ID, len(newCalls)))
				default:
					it := newCalls[0]
					js := stored.spec
					if chainRefs[it.chain] != js.CRef || it.msg.ChainReferenceID != js.CRef {
						violate("C17:wrong-chain", fmt.Sprintf("call of job %q (chain %s) enqueued on %s", op.ID, js.CRef, chainRefs[it.chain]))
					}
					if nValset > 1 || len(nw) != 1+nValset {
						violate("C17:extra-messages", fmt.Sprintf("execute of %q enqueued %d messages (%d valset updates)", op.ID, len(nw), nValset))
					}
					if nw[len(nw)-1] != it {
						violate("C17:call-not-last", fmt.Sprintf("execute of %q: the contract call is not the last message enqueued", op.ID))
					}
					for _, o := range nw {
						if o.chain != it.chain {
							violate("C17:other-chain-touched", fmt.Sprintf("execute of %q enqueued on chain %s as well", op.ID, chainRefs[o.chain]))
						}
					}
					if it.call.HexContractAddress != stored.defAddr {
						violate("C17:wrong-contract", fmt.Sprintf("job %q calls %q, the stored definition says %q", op.ID, it.call.HexContractAddress, stored.defAddr))
					}
					if string(it.call.Abi) != string(common.FromHex(stored.defABI)) {
						violate("C17:wrong-abi", fmt.Sprintf("call of job %q carries abi %x, the stored definition says %q", op.ID, it.call.Abi, stored.defABI))
					}
					if haveID && msgID != it.id {
						violate("C17:wrong-message-id", fmt.Sprintf("execute of %q returned id %d, call has id %d", op.ID, msgID, it.id))
					}
					if !pickOK || e.valID[it.msg.Assignee] != pick {
						violate("C17:assignee-not-picked", fmt.Sprintf("call of %q assigned to %q, selection said %d/%v", op.ID, it.msg.Assignee, pick, pickOK))
					}
					if it.call.ExecutionRequirements.EnforceMEVRelay != js.Mev {
						violate("C17:mev-flag", fmt.Sprintf("call of %q has MEV flag %v", op.ID, it.call.ExecutionRequirements.EnforceMEVRelay))
					}
					// the identity fields of the call name the real caller
					if op.Path != "keeper" {
						wantC := effContract
						if string(it.call.SenderAddress) != string(caller) || string(it.call.ContractAddress) != string(wantC) {
							violate("C17:wrong-caller-identity", fmt.Sprintf("execute of %q requested by %x (%s): the call names sender %x, contract %x", op.ID, caller, op.Path, []byte(it.call.SenderAddress), []byte(it.call.ContractAddress)))
						}
					}
					// the contract path end to end: the call carries exactly the bytes the contract supplied, then its address
					if op.Path == "wasm" || op.Path == "legacy" {
						shape := "call-data"
						if t := strings.TrimSpace(string(in)); json.Valid(in) && len(t) > 0 {
							shape = "json"
							if strings.Contains(t, "hexPayload") {
								shape = "payload-document"
							}
						} else if _, ok := strictHex(string(in)); ok && len(in) > 0 {
							shape = "hex-string"
						}
						run.Count("contract-bytes", op.Path+"/"+shape)
						if string(it.call.Payload) != string(append(append([]byte{}, in...), leftPad32(contract)...)) {
							violate("C17:contract-bytes-reinterpreted", fmt.Sprintf("contract %x ran %q through %s with the %d bytes %q: the call carries %x, not those bytes followed by the contract's padded address", contract, op.ID, op.Path, len(in), string(in), it.call.Payload))
						}
					}
					run.Count("ran-on-chain", fmt.Sprintf("%s active=%v", js.CRef, js.CRef != chainRefs[inactiveChain]))
					base := []byte(js.Payload)
					usedSupplied := false
					if !suppliedNil && js.Mod {
						base, usedSupplied = suppliedJSON, true
					}
					if !js.Mod && len(suppliedJSON) > 0 {
						violate("C17:fixed-payload-overridden", fmt.Sprintf("job %q is not modifiable but a run with a supplied payload succeeded", op.ID))
					}
					lb := strings.ToLower(string(base))
					run.Count("ran-with-document", fmt.Sprintf("supplied=%v definition-keys-in-payload=%v duplicate-hexpayload=%v", usedSupplied,
						strings.Contains(lb, "address") || strings.Contains(lb, "\"abi\""), strings.Count(lb, "hexpayload") > 1))
					var jp jsonPay
					if jerr := json.Unmarshal(base, &jp); jerr != nil {
						violate("C17:undecodable-payload-executed", fmt.Sprintf("job %q ran with a payload that is not JSON", op.ID))
					} else if want, ok := strictHex(jp.HexPayload); !ok {
						violate("C17:nonhex-payload-truncated", fmt.Sprintf("job %q ran although hexPayload %q is not hex; call payload %x", op.ID, jp.HexPayload, it.call.Payload))
					} else if len(caller) > 32 {
						violate("C17:long-caller", fmt.Sprintf("execute of %q by a %d-byte caller succeeded", op.ID, len(caller)))
					} else if string(it.call.Payload) != string(append(append([]byte{}, want...), leftPad32(caller)...)) {
						run.Count("last-word-of-effective-payload", fmt.Sprintf("is-caller-word=%v wrong=true", len(want) >= 32 && string(want[len(want)-32:]) == string(leftPad32(caller))))
						violate("C17:wrong-payload", fmt.Sprintf("job %q requested by %x through %s (supplied used: %v): call payload %x, expected %x ++ pad32(%x)", op.ID, caller, op.Path, usedSupplied, it.call.Payload, want, caller))
					} else if len(want) >= 32 && string(want[len(want)-32:]) == string(leftPad32(caller)) {
						run.Count("last-word-of-effective-payload", "is-caller-word, sender word appended once more")
					}
				}
			}
			checkQueues(after, when)
			seen = after
			steps = append(steps, fmt.Sprintf("(%s, %s, %s, %s, %s)", opTerm, resTerm, coqPos(pos), itemsTerm(nw), idsTerm()))
			checkJobs(when)
		}
	}

	// ----- final job store, in creation order -----
	var finalT []string
	for _, id := range order {
		j, err := e.k.GetJob(e.ctx, id)
		if err != nil || j == nil {
			continue
		}
		finalT = append(finalT, coqJob(j))
	}
	// ----- decoder tables: Go's json.Unmarshal on every document of this history -----
	var pT, dT []string
	for _, p := range ptabL {
		var jp evmtypes.JobPayload
		if err := json.Unmarshal([]byte(p), &jp); err != nil {
			pT = append(pT, "("+cs(p)+", None)")
		} else {
			pT = append(pT, "("+cs(p)+", Some "+cs(jp.HexPayload)+")")
		}
	}
	for _, d := range dtabL {
		var jd evmtypes.JobDefinition
		if err := json.Unmarshal([]byte(d), &jd); err != nil {
			dT = append(dT, "("+cs(d)+", None)")
		} else {
			dT = append(dT, "("+cs(d)+", Some ("+cs(jd.ABI)+", "+cs(jd.Address)+"))")
		}
	}
	var chT []string
	for i, c := range chainRefs {
		chT = append(chT, "("+cs(c)+", "+cs(turnstones[i])+")")
	}
	term := fmt.Sprintf("(%s\n   C17.Hist %s\n    %s\n    %s\n    %s\n    %s)", strings.Join(intern.defs, " "), emit.List(chT), emit.List(pT), emit.List(dT), "["+strings.Join(steps, ";\n     ")+"]", emit.List(finalT))
	return &histResult{term: term, nontrivial: okOps > 0 && errOps > 0, sample: hs}, nil
}

// ---------------------------------------------------------------------------------------------
// generators
// ---------------------------------------------------------------------------------------------

var jobIDs = []string{"j0", "j1", "j2", "job-3", "a.b_c", "BAD", "has-paloma-in", "", "x"}

// The first nGoodDef / nGoodPay entries are accepted documents (structured histories draw mostly from
// them); they include documents with additional members: every field name of JobDefinition inside a
// payload, hexPayload inside a definition, unknown members, different orders, duplicated members.
const nGoodDef = 6

var defPool = []string{
	`{"abi":"0xabcd","address":"0x1111111111111111111111111111111111111111"}`,
	`{"abi":"","address":"0x2222222222222222222222222222222222222222"}`,
	`{"abi":"[{\"inputs\":[],\"name\":\"f\",\"type\":\"function\"}]","address":"0x3333333333333333333333333333333333333333"}`,
	`{"hexPayload":"dead","abi":"0x0102","address":"0x5555555555555555555555555555555555555555","note":[1,{"a":null}]}`,
	`{"address":"0x6666666666666666666666666666666666666666","address":"0x7777777777777777777777777777777777777777","abi":"0a"}`,
	`{"address":"0x4444444444444444444444444444444444444444","extra":1}`,
	`{"ABI":"a1b2c","Address":"not-an-address"}`,
	`{"hexPayload":"zz","address":"0x8888888888888888888888888888888888888888"}`,
	`{}`,
	`{"abi":5}`,
	`not json`,
	``,
}

const nGoodPay = 14

var payPool = []string{
	`{"hexPayload":"a9059cbb000000000000000000000000aabbccddeeff00112233445566778899aabbccdd"}`,
	`{"hexPayload":"0xdeadbeef"}`,
	`{"hexPayload":"0XDEADBEEF01"}`,
	`{"hexPayload":"abc"}`,
	`{"hexPayload":"0x1"}`,
	`{"hexPayload":""}`,
	`{}`,
	`{"hexPayload":"beef","address":"0x9999999999999999999999999999999999999999"}`,
	`{"address":"0x9999999999999999999999999999999999999999","abi":"0xffff","hexPayload":"c0de"}`,
	`{"ABI":"ee","hexPayload":"02","Address":"0xaaaaaaaaaaaaaaaaaaaaaaaaaaaaaaaaaaaaaaaa"}`,
	`{"abi":"0x77","unknown":{"a":[1,2]},"hexPayload":"03","x":null}`,
	`{"hexPayload":"01","hexPayload":"04"}`,
	`{"hexPayload":"zz","hexPayload":"05"}`,
	`{"address":"0xbbbbbbbbbbbbbbbbbbbbbbbbbbbbbbbbbbbbbbbb"}`,
	`{"hexPayload":"06","hexPayload":"zz"}`,
	`{"hexPayload":"07","address":7}`,
	`{"hexPayload":"12zz34"}`,
	`{"hexPayload":"0xg0"}`,
	`{"hexPayload":"6 "}`,
	`{"hexPayload":"00x12"}`,
	`{"hexpayload":"beef"}`,
	`{"hexPayload":12}`,
	`{"hexPayload":"ab"`,
	`payload`,
	``,
}

func randAddr(r *rand.Rand, n int) []byte {
	b := make([]byte, n)
	r.Read(b)
	if n > 0 && r.Intn(4) == 0 {
		b[0] = 0 // leading zero byte
	}
	return b
}

func genEnv(r *rand.Rand) envSpec {
	n := 2 + r.Intn(3)
	es := envSpec{Time: 1700000000 + int64(r.Intn(1000)), NVals: n}
	mode := r.Intn(8)
	for i := 0; i < n; i++ {
		es.MevEth = append(es.MevEth, mode != 0 && r.Intn(2) == 0)
		es.FeeEth = append(es.FeeEth, mode != 1 && r.Intn(5) != 0)
		es.FeeBnb = append(es.FeeBnb, mode != 2 && r.Intn(3) != 0)
	}
	for c := 0; c < 3; c++ {
		es.Publish = append(es.Publish, r.Intn(3) != 0)
	}
	es.Publish = append(es.Publish, false)
	return es
}

func genHistory(r *rand.Rand, hostile bool) *histSpec {
	hs := &histSpec{Env: genEnv(r)}
	accounts := [][]byte{randAddr(r, 20), randAddr(r, 20), randAddr(r, 32), randAddr(r, 33), randAddr(r, 1)}
	contracts := [][]byte{randAddr(r, 32), randAddr(r, 32), randAddr(r, 20)}
	ghost := append([]byte{0x9b}, randAddr(r, 19)...) // an address that never gets an account
	// who signs a transaction message: mostly its creator; sometimes somebody else, with or without a fee grant of the creator
	signing := func(op *opSpec, creator string) {
		if k := r.Intn(4); k == 0 || hostile && k < 2 {
			other := hex.EncodeToString(accounts[r.Intn(3)])
			if other != creator {
				op.Signer = other
				op.Granted = r.Intn(3) != 0 && !hostile || r.Intn(3) == 0
			}
		}
	}
	// near misses of an id: the same characters in another case, with blanks around, with look-alike or invisible runes
	nearMiss := func(id string) string {
		if id == "" {
			return " "
		}
		switch r.Intn(9) {
		case 0:
			return strings.ToUpper(id)
		case 1:
			return strings.ToUpper(id[:1]) + id[1:]
		case 2:
			return " " + id
		case 3:
			return id + " "
		case 4:
			return id + "\t"
		case 5:
			return id + "\u200b" // zero width space
		case 6:
			return string(rune(0xff00+int(id[0])-0x20)) + id[1:] // full-width first character
		case 7:
			return id + "\n"
		default:
			return "\u00a0" + id // no-break space
		}
	}
	// ids built from other ids and from the module's own key vocabulary: "<id>" next to "-runs-<id>", "s-runs-<id>",
	// prefixes / extensions of existing ids, the store prefixes themselves, ids of one character
	words := []string{"runs", "run", "count", "meta", "owner", "idx", "ids", "n", "port"}
	craftID := func(base string) string {
		w := words[r.Intn(len(words))]
		if r.Intn(3) == 0 {
			w = "runs"
		}
		switch r.Intn(16) {
		case 0, 1, 2:
			return "-" + w + "-" + base
		case 3:
			return "s-" + w + "-" + base
		case 4:
			return "-" + w + base
		case 5:
			if len(base) > 1 {
				return base[:len(base)-1]
			}
			return base + base
		case 6:
			return base + "0"
		case 7:
			return base + "-"
		case 8:
			return "-" + base
		case 9:
			return "s" + base
		case 10:
			return "jobs" + base
		case 11:
			return "generated-ids-" + base
		case 12:
			return "scheduler-port-" + base
		case 13:
			return []string{"-", "_", ".", "0", "s", "--", "jobs", "-runs-"}[r.Intn(8)]
		case 14:
			return base + "-" + w
		default:
			return base + "-" + w + "-" + base
		}
	}
	// the payload BYTES a contract hands over: mostly arbitrary call data; sometimes bytes that look like something the
	// chain itself understands -- a payload document, a job definition, a hex string, JSON of other shapes, quotes, NULs
	lookalikes := []string{`{"hexPayload":"deadbeef"}`, `{"hexPayload":"0xdeadbeef"}`, `{"hexPayload":""}`, `{"hexPayload":"abc","address":"0x9999999999999999999999999999999999999999"}`,
		`{"hexPayload":"c0de","abi":"0xffff","x":[1,{"y":null}]}`, ` {"hexPayload":"01"} `, `{"hexPayload":"zz"}`, `{"hexPayload":null}`, `{"hexPayload":12}`, `{"HexPayload":"02"}`, `{"hexpayload":"03"}`, `{}`, `[]`, `[{"hexPayload":"04"}]`, `null`, `"deadbeef"`, `"`,
		`{"abi":"0xabcd","address":"0x1111111111111111111111111111111111111111"}`, `{"job_id":"j1","payload":"AQI="}`, "0xdeadbeef", "0x", "0xabc", "abc", "deadbeef", "\x00", "\x00\x00{\"hexPayload\":\"05\"}", "{\"hexPayload\":\"06\"}\x00", "\"}", "\\"}
	contractBytes := func(allowEmpty bool) string {
		switch k := r.Intn(10); {
		case k < 3:
			return lookalikes[r.Intn(len(lookalikes))]
		case k == 3:
			return payPool[r.Intn(len(payPool)-1)]
		case k == 4 && allowEmpty:
			return ""
		}
		return string(randAddr(r, 1+r.Intn(40)))
	}
	// what a contract's message says about its sender
	claim := func(contract []byte) string {
		switch r.Intn(8) {
		case 0:
			return ""
		case 1:
			return "ignored"
		case 2:
			return sdk.AccAddress(contract).String()
		case 3:
			return sdk.AccAddress(contracts[r.Intn(len(contracts))]).String()
		default:
			return sdk.AccAddress(accounts[r.Intn(3)]).String()
		}
	}
	pick := func(pool []string, good int) string {
		if !hostile && r.Intn(8) != 0 {
			return pool[r.Intn(good)]
		}
		return pool[r.Intn(len(pool))]
	}
	ids := jobIDs
	nOps := 4 + r.Intn(7)
	type madeJob struct {
		id  string
		mod bool
	}
	var made []madeJob
	used := map[string]bool{}
	forceID := "" // the id of the next create, when a pattern wants a particular one
	genCreate := func(fresh bool) {
		id := ids[r.Intn(5)]
		if fresh && !hostile {
			for k := 0; k < 5 && used[id]; k++ {
				id = ids[r.Intn(5)]
			}
		}
		if hostile && r.Intn(3) == 0 || r.Intn(14) == 0 {
			id = ids[r.Intn(len(ids))]
		}
		if len(made) > 0 && (r.Intn(12) == 0 || hostile && r.Intn(4) == 0) {
			id = nearMiss(made[r.Intn(len(made))].id)
		}
		if r.Intn(7) == 0 || hostile && r.Intn(4) == 0 {
			base := ids[r.Intn(5)]
			if len(made) > 0 && r.Intn(3) != 0 {
				base = made[r.Intn(len(made))].id
			}
			id = craftID(base)
		}
		if forceID != "" {
			id, forceID = forceID, ""
		}
		js := &jobSpec{ID: id, CType: "evm", CRef: chainRefs[r.Intn(2)], Def: pick(defPool, nGoodDef), Payload: pick(payPool, nGoodPay), Mod: r.Intn(5) < 3}
		switch r.Intn(24) {
		case 0, 1:
			js.CRef = "gnosis-main"
		case 5, 6, 7:
			js.CRef = chainRefs[inactiveChain]
		case 2:
			js.CRef = "ghost-chain"
		case 3:
			js.CType = "cosmos"
		case 4:
			js.CRef = ""
		}
		if r.Intn(4) == 0 {
			js.Mev = true
			if r.Intn(6) != 0 {
				js.CRef = chainRefs[r.Intn(2)]
				if r.Intn(8) == 0 {
					js.CRef = chainRefs[inactiveChain]
				}
			}
		}
		if r.Intn(8) == 0 {
			js.Payload = string(wrapJSON(append(randAddr(r, []int{0, 4, 36}[r.Intn(3)]), leftPad32(accounts[r.Intn(3)])...)))
			if r.Intn(2) == 0 {
				js.Mod = false
			}
		}
		op := opSpec{Kind: "create", Job: js}
		switch r.Intn(3) {
		case 0:
			op.Path = "msg"
			op.Creator = hex.EncodeToString(accounts[r.Intn(len(accounts))])
			signing(&op, op.Creator)
			if r.Intn(3) == 0 {
				op.ClaimedOwner = hex.EncodeToString(accounts[r.Intn(len(accounts))])
			}
		case 1:
			op.Path = "wasm"
			op.Creator = hex.EncodeToString(contracts[r.Intn(len(contracts))])
		default:
			op.Path = "keeper"
			op.Creator = hex.EncodeToString(accounts[r.Intn(len(accounts))])
			if r.Intn(10) == 0 {
				op.Creator = ""
			}
		}
		hs.Ops = append(hs.Ops, op)
		if !used[id] {
			made = append(made, madeJob{id, js.Mod})
		}
		used[id] = true
	}
	genExec := func() {
		target := madeJob{ids[r.Intn(5)], r.Intn(2) == 0}
		if len(made) > 0 && (hostile && r.Intn(2) == 0 || !hostile && r.Intn(10) != 0) {
			target = made[r.Intn(len(made))]
		}
		op := opSpec{Kind: "exec", ID: target.id, Atomic: r.Intn(2) == 0}
		if r.Intn(16) == 0 || hostile && r.Intn(5) == 0 {
			op.ID = nearMiss(target.id)
		}
		path := r.Intn(4)
		if !target.mod && !hostile && r.Intn(4) != 0 {
			path = 3 * r.Intn(2) // a fixed job can only be run without a payload: msg server or keeper
		}
		switch path {
		case 0:
			op.Path = "msg"
			op.Sender = hex.EncodeToString(accounts[r.Intn(len(accounts))])
			if !hostile && r.Intn(3) != 0 {
				op.Sender = hex.EncodeToString(accounts[r.Intn(3)])
			}
			signing(&op, op.Sender)
			if r.Intn(20) == 0 {
				op.Sender, op.NoAccount = hex.EncodeToString(ghost), true
			}
			switch k := r.Intn(4); {
			case k == 0 || !target.mod && k < 3:
				op.InNil = true
			case k == 1 || k == 2:
				op.In = pick(payPool, nGoodPay)
			default:
				op.In = ""
			}
		case 1:
			op.Path = "wasm"
			op.Contract = hex.EncodeToString(contracts[r.Intn(len(contracts))])
			op.Claimed = claim(unhex(op.Contract))
			op.In = contractBytes(false)
			if r.Intn(10) == 0 {
				op.In = ""
			}
			if r.Intn(14) == 0 {
				op.ID = ""
			}
		case 2:
			op.Path = "legacy"
			op.Contract = hex.EncodeToString(contracts[r.Intn(len(contracts))])
			op.Claimed = claim(unhex(op.Contract))
			op.In = contractBytes(true)
			if r.Intn(14) == 0 {
				op.ID = ""
			}
		default:
			op.Path = "keeper"
			lens := []int{20, 32, 20, 32, 33, 0, 31, 64}
			op.Sender = hex.EncodeToString(randAddr(r, lens[r.Intn(len(lens))]))
			op.Contract = hex.EncodeToString(randAddr(r, lens[r.Intn(len(lens))]))
			op.SNil = r.Intn(3) == 0
			op.CNil = r.Intn(3) == 0
			switch k := r.Intn(4); {
			case k == 0 || !target.mod && k < 3:
				op.InNil = true
			case k == 1:
				op.In = pick(payPool, nGoodPay)
			default:
				op.In = string(wrapJSON(randAddr(r, r.Intn(8))))
			}
		}
		// call data whose LAST word is a padded address: the requester's own (f(address beneficiary) run by the
		// beneficiary, a contract passing itself as last argument), another account's, a contract's
		if r.Intn(8) == 0 {
			caller := unhex(op.Sender)
			if op.Path == "wasm" || op.Path == "legacy" || op.Path == "keeper" && op.SNil {
				caller = unhex(op.Contract)
			}
			word := caller
			switch r.Intn(5) {
			case 0:
				word = accounts[r.Intn(3)]
			case 1:
				word = contracts[r.Intn(len(contracts))]
			}
			if len(word) <= 32 {
				data := append(randAddr(r, []int{0, 4, 4, 36, 7}[r.Intn(5)]), leftPad32(word)...)
				if op.Path == "wasm" || op.Path == "legacy" {
					op.In = string(data)
				} else {
					op.In, op.InNil = string(wrapJSON(data)), false
				}
			}
		}
		hs.Ops = append(hs.Ops, op)
	}
	if !hostile {
		for k := 1 + r.Intn(2); k > 0; k-- {
			genCreate(true)
		}
	}
	for len(hs.Ops) < nOps {
		switch k := r.Intn(40); {
		case k < 8:
			genCreate(r.Intn(2) == 0)
		case k < 12:
			ls := r.Intn(2) == 0
			hs.Ops = append(hs.Ops, opSpec{Kind: "resnap", Listeners: ls, Age: ls && r.Intn(3) != 0})
		case k == 12:
			hs.Ops = append(hs.Ops, opSpec{Kind: "block"})
		case k == 13 && len(made) > 0:
			// the module's genesis is exported and imported: every job is gone afterwards
			hs.Ops = append(hs.Ops, opSpec{Kind: "genesis"})
			made, used = nil, map[string]bool{}
		case k < 16 && len(made) > 0:
			// a shadow id: "-<word>-<id>" is created (by whoever) before <id> runs; then both run
			x := made[r.Intn(len(made))]
			w := words[r.Intn(len(words))]
			if r.Intn(2) == 0 {
				w = "runs"
			}
			shadow := "-" + w + "-" + x.id
			if len(shadow) <= 32 {
				forceID = shadow
				genCreate(false)
				for _, id := range []string{x.id, shadow, x.id} {
					genExec()
					o := &hs.Ops[len(hs.Ops)-1]
					o.ID = id
					if o.Path == "wasm" || o.Path == "legacy" {
						if o.In == "" {
							o.In = "\x01"
						}
					}
				}
			}
		case k < 19:
			// a job created, looked up and run under an id on a branch that is discarded; then the id is created for
			// real with other content by somebody else, and run
			id := ids[r.Intn(5)]
			if len(made) > 0 && r.Intn(4) == 0 {
				id = made[r.Intn(len(made))].id
			}
			prior := used[id]
			forceID = id
			genCreate(false)
			sim := hs.Ops[len(hs.Ops)-1]
			sim.Kind = "simulate"
			sim.Signer, sim.Granted, sim.ClaimedOwner = "", false, ""
			hs.Ops[len(hs.Ops)-1] = sim
			// genCreate booked the id as made: undo that, the branch is dropped
			if n := len(made); n > 0 && made[n-1].id == id && !prior {
				made = made[:n-1]
				delete(used, id)
			}
			if r.Intn(4) != 0 {
				forceID = id
				genCreate(false)
				genExec()
				hs.Ops[len(hs.Ops)-1].ID = id
			}
		case k < 21 && len(made) > 0:
			// valset churn: a run, a new snapshot, the same run again -- the second hook replaces the update of the first
			genExec()
			x := hs.Ops[len(hs.Ops)-1]
			hs.Ops = append(hs.Ops[:len(hs.Ops)-1], opSpec{Kind: "resnap", Listeners: r.Intn(3) == 0, Age: r.Intn(2) == 0}, x, opSpec{Kind: "resnap"}, x)
		default:
			genExec()
		}
	}
	return hs
}

// opSpec.In carries arbitrary bytes for the contract paths: make the JSON replay lossless.
func (o opSpec) MarshalJSON() ([]byte, error) {
	type plain opSpec
	p := plain(o)
	p.In = hex.EncodeToString([]byte(o.In))
	return json.Marshal(p)
}

func (o *opSpec) UnmarshalJSON(b []byte) error {
	type plain opSpec
	var p plain
	if err := json.Unmarshal(b, &p); err != nil {
		return err
	}
	raw, err := hex.DecodeString(p.In)
	if err != nil {
		return err
	}
	p.In = string(raw)
	*o = opSpec(p)
	return nil
}

// ---------------------------------------------------------------------------------------------

func corpusDir() string {
	if d := os.Getenv("VERIF_CORPUS"); d != "" {
		return d
	}
	return "/verif/harness/corpus/C17"
}

func TestCorr(t *testing.T) {
	run := emit.Start("C17", 300)
	run.Rule("fresh integration fixture per history (3 EVM chains, 2-4 validators with drawn MEV traits / relayer fees, so that relayer selection fails on some chains); " +
		"4-10 requests per history: create (msg server | wasm binding | keeper; duplicate, invalid, other-chain, MEV jobs; JSON / hex / non-hex / odd-length payload pool; stored and supplied documents with extra members: address / abi inside a payload, hexPayload inside a definition, unknown and duplicated members, any order), " +
		"execute (msg server account caller | wasm binding | legacy binding | keeper with 0/20/31/32/33/64-byte sender or contract, nil or empty or supplied payload, transactional or not), " +
		"resnap (new snapshot, announced by the snapshot listener or not yet announced => just-in-time valset update replacing the queued one), block (the module's Begin/EndBlock), genesis (ExportGenesis, emptied store, InitGenesis through the AppModule). " +
		"Transaction messages pass ValidateBasic and the VerifyAuthorisedSignatureDecorator first (signed by the creator | by another account with / without a fee grant of the creator; a creator without account); " +
		"contract messages go as JSON through the libwasm router and name a sender of their own choice (absent | junk | own address | another contract | an account); " +
		"simulate (a job created, looked up and run on a branch that is discarded, then the same id created for real with other content by somebody else and run); " +
		"1 payload in 8 (stored and supplied, all entry points) ends with a 32-byte padded address: the requester's own, another account's, a contract's; " +
		"a fourth chain (matic-main) is registered and served by every validator but not active (no compass): jobs target it through all entry points; " +
		"contract payload BYTES that look like payload documents ({\"hexPayload\":...} with extra members, arrays, null), job definitions, hex strings (0x..., odd length), JSON of other shapes, quotes, NULs, empty; " +
		"job ids built from other ids and the module's key vocabulary (-runs-<id>, s-runs-<id>, -<word>-<id> created before <id> runs, prefixes / extensions of ids, jobs<id>, generated-ids-<id>, one-character ids); " +
		"after every operation the raw job-record key space of the store is diffed (nothing may change or go; only the job created by this operation may appear) and every lookup is compared with the store; " +
		"job ids of creates and lookups include near misses of existing ids (other case, blanks, tab, newline, zero-width and no-break space, full-width first character). 1 history in 6 is drawn from the hostile pools only. " +
		"non-trivial = at least one accepted and one rejected request. Plus unit cases for injectSenderIntoPayload, common.FromHex and the binding's wrapping.")
	search := os.Getenv("VERIF_SEARCH") == "1"

	// corpus first
	files, _ := filepath.Glob(filepath.Join(corpusDir(), "*.json"))
	sort.Strings(files)
	for _, fn := range files {
		bz, err := os.ReadFile(fn)
		if err != nil {
			t.Fatal(err)
		}
		var wrapper struct {
			History *histSpec `json:"history"`
		}
		if err := json.Unmarshal(bz, &wrapper); err != nil || wrapper.History == nil {
			t.Fatalf("corpus %s: %v", fn, err)
		}
		res, err := runHistory(run, wrapper.History, "corpus:"+filepath.Base(fn))
		if err != nil {
			t.Fatalf("corpus %s: %v", fn, err)
		}
		run.Case(res.term, res.nontrivial, nil)
		run.Count("source", "corpus")
	}
	if rp := os.Getenv("VERIF_REPLAY"); rp != "" {
		bz, err := os.ReadFile(rp)
		if err != nil {
			t.Fatal(err)
		}
		var wrapper struct {
			History *histSpec `json:"history"`
			Input   *struct {
				History *histSpec `json:"history"`
			} `json:"input"`
		}
		if err := json.Unmarshal(bz, &wrapper); err == nil && wrapper.History == nil && wrapper.Input != nil {
			wrapper.History = wrapper.Input.History
		}
		if wrapper.History == nil {
			t.Fatalf("replay %s: no history in file", rp)
		}
		res, err := runHistory(run, wrapper.History, "replay")
		if err != nil {
			t.Fatal(err)
		}
		run.Case(res.term, res.nontrivial, wrapper.History)
	}

	type pending struct {
		term string
		nt   bool
		smp  any
	}
	var hist, unit []pending
	nHist := run.N
	for h := 0; h < nHist; h++ {
		hostile := h%6 == 5 || (search && h%2 == 1)
		hs := genHistory(run.Rng, hostile)
		res, err := runHistory(run, hs, fmt.Sprintf("seed=%d history=%d", run.Seed, h))
		if err != nil {
			t.Fatalf("history %d: %v", h, err)
		}
		hist = append(hist, pending{res.term, res.nontrivial, res.sample})
		run.Count("source", map[bool]string{true: "hostile", false: "structured"}[hostile])
		run.Count("ops-per-history", fmt.Sprint(len(hs.Ops)))
	}

	// unit cases
	nUnit := run.N * 2
	lens := []int{0, 1, 19, 20, 21, 31, 32, 33, 34, 64}
	for i := 0; i < nUnit; i++ {
		s := randAddr(run.Rng, lens[run.Rng.Intn(len(lens))])
		p := randAddr(run.Rng, run.Rng.Intn(40))
		out, err := evmkeeper.VerifInjectSenderIntoPayload(s, append([]byte{}, p...))
		unit = append(unit, pending{fmt.Sprintf("C17.Inject %s %s %s", cb(s), cb(p), cob(out, err != nil)), len(s) > 0, nil})
		run.Count("inject", map[bool]string{true: "error", false: "ok"}[err != nil])
		if err == nil && (len(out) != len(p)+32 || string(out[len(p):]) != string(leftPad32(s)) || string(out[:len(p)]) != string(p)) {
			run.Violate("C17:inject-suffix", fmt.Sprintf("injectSenderIntoPayload(%x, %x) = %x", s, p, out), map[string]any{"sender": hex.EncodeToString(s), "payload": hex.EncodeToString(p)})
		}
		if err != nil && len(s) <= 32 {
			run.Violate("C17:inject-error", fmt.Sprintf("injectSenderIntoPayload(%x) failed: %v", s, err), map[string]any{"sender": hex.EncodeToString(s)})
		}
	}
	alphabet := "0123456789abcdefABCDEF"
	junk := "xXgG zZ-_\"\\\x00\xff"
	for i := 0; i < nUnit; i++ {
		n := run.Rng.Intn(24)
		var sb strings.Builder
		switch run.Rng.Intn(4) {
		case 0:
			sb.WriteString("0x")
		case 1:
			sb.WriteString("0X")
		}
		for k := 0; k < n; k++ {
			if run.Rng.Intn(12) == 0 {
				sb.WriteByte(junk[run.Rng.Intn(len(junk))])
			} else {
				sb.WriteByte(alphabet[run.Rng.Intn(len(alphabet))])
			}
		}
		s := sb.String()
		lenient := common.FromHex(s)
		strict, ok := strictHexImpl(s)
		unit = append(unit, pending{fmt.Sprintf("C17.FromHex %s %s %s", cs(s), cb(lenient), cob(strict, !ok)), !ok, nil})
		run.Count("fromhex", map[bool]string{true: "valid", false: "invalid"}[ok])
		raw := randAddr(run.Rng, run.Rng.Intn(20))
		unit = append(unit, pending{fmt.Sprintf("C17.Wrap %s %s", cb(raw), cb(wrapJSON(raw))), true, nil})
		var back evmtypes.JobPayload
		if jerr := json.Unmarshal(wrapJSON(raw), &back); jerr != nil || back.HexPayload != hex.EncodeToString(raw) {
			run.Violate("C17:wrapped-document-not-read-back", fmt.Sprintf("json.Unmarshal of the binding's document for %x gives %q (%v)", raw, back.HexPayload, jerr), map[string]any{"raw": hex.EncodeToString(raw)})
		}
	}
	// interleave, so that the shards of the cases file are balanced
	per := 1
	if len(hist) > 0 {
		per = (len(unit) + len(hist) - 1) / len(hist)
	}
	u := 0
	for _, h := range hist {
		run.Case(h.term, h.nt, h.smp)
		for k := 0; k < per && u < len(unit); k++ {
			run.Case(unit[u].term, unit[u].nt, nil)
			u++
		}
	}
	for ; u < len(unit); u++ {
		run.Case(unit[u].term, unit[u].nt, nil)
	}
	if err := run.Finish("Scheduler.Jobs Corr.C17", "C17.case", "C17.check"); err != nil {
		t.Fatal(err)
	}
}

var _ = context.Background
