// Package c07: correspondence harness + direct oracle for property C07 (a remote transaction proves
// delivery of exactly the message it carries, once).
//
// Part A feeds the REAL (*Action).VerifyAgainstTX of x/evm/types with transactions whose call data
// is packed here, independently, with go-ethereum from the compass ABI in x/evm/keeper/testdata:
// the correct call for every signature prefix, every single-field corruption, multi-field
// corruptions, other methods, mangled bytes.  Part B drives the REAL keepers of the integration
// fixture (evm, consensus, valset, staking, metrix, skyway ...) through histories: messages of
// the five action types are queued, signed with real secp256k1 keys, given evidence by the
// snapshot's validators, and attested through attestRouter (one message) or the consensus
// end-blocker loop CheckAndProcessAttestedMessages; the stores are read back after every step.
package c07

import (
	"bytes"
	"context"
	"crypto/ecdsa"
	"encoding/json"
	"errors"
	"fmt"
	"math/big"
	"math/rand"
	"os"
	"path/filepath"
	"sort"
	"strings"
	"testing"
	"time"

	"cosmossdk.io/log"
	sdkmath "cosmossdk.io/math"
	"github.com/cometbft/cometbft/crypto/ed25519"
	cryptocodec "github.com/cosmos/cosmos-sdk/crypto/codec"
	codectypes "github.com/cosmos/cosmos-sdk/codec/types"
	sdk "github.com/cosmos/cosmos-sdk/types"
	authcodec "github.com/cosmos/cosmos-sdk/x/auth/codec"
	slashingtypes "github.com/cosmos/cosmos-sdk/x/slashing/types"
	stakingtypes "github.com/cosmos/cosmos-sdk/x/staking/types"
	"github.com/ethereum/go-ethereum/accounts/abi"
	"github.com/ethereum/go-ethereum/common"
	ethtypes "github.com/ethereum/go-ethereum/core/types"
	"github.com/ethereum/go-ethereum/crypto"
	"github.com/ethereum/go-ethereum/crypto/kzg4844"
	"github.com/holiman/uint256"
	"github.com/onsi/ginkgo/v2"
	chainparams "github.com/palomachain/paloma/v2/app/params"
	xchain "github.com/palomachain/paloma/v2/internal/x-chain"
	"github.com/palomachain/paloma/v2/tests/integration/helper"
	"github.com/palomachain/paloma/v2/util/blocks"
	"github.com/palomachain/paloma/v2/verifharness/emit"
	"github.com/palomachain/paloma/v2/x/consensus/keeper/consensus"
	consensustypes "github.com/palomachain/paloma/v2/x/consensus/types"
	consensusmodule "github.com/palomachain/paloma/v2/x/consensus"
	evmmodule "github.com/palomachain/paloma/v2/x/evm"
	evmkeeper "github.com/palomachain/paloma/v2/x/evm/keeper"
	evmtypes "github.com/palomachain/paloma/v2/x/evm/types"
	treasurytypes "github.com/palomachain/paloma/v2/x/treasury/types"
	valsettypes "github.com/palomachain/paloma/v2/x/valset/types"
)

// ---------- kinds / field indices (Gen/C07.v field_index; 100 = the follow-up's store key) ----------

const (
	kUploadCompass = 0
	kUploadUser    = 1
	kUpdateValset  = 2
	kSLC           = 3
	kHandover      = 4
)

const (
	fContract = 2
	fPayload  = 3
	fFeeR     = 4
	fFeeC     = 5
	fFeeS     = 6
	fSender   = 7
	fDeadline = 9
	fNewVS    = 11
	fDeployer = 13
	fBytecode = 14
	fCtor     = 15
	fForward  = 16
	fKey      = 100
)

var two256 = new(big.Int).Lsh(big.NewInt(1), 256)

// ---------- interning of byte strings ----------

type interner struct{ ids map[string]int64 }

func (in *interner) id(b []byte) int64 {
	if v, ok := in.ids[string(b)]; ok {
		return v
	}
	v := int64(len(in.ids) + 1)
	in.ids[string(b)] = v
	return v
}

var tab = &interner{ids: map[string]int64{}}

func addrID(a common.Address) int64 { return tab.id(a.Bytes()) }

// ---------- symbolic descriptions ----------

type vset struct {
	Vals []common.Address
	Pows []uint64
	ID   uint64
}

func (v vset) flat() []*big.Int {
	out := []*big.Int{big.NewInt(int64(len(v.Vals)))}
	for _, a := range v.Vals {
		out = append(out, big.NewInt(addrID(a)))
	}
	for _, p := range v.Pows {
		out = append(out, big.NewInt(int64(p))) // packed as big.NewInt(int64(p)) mod 2^256
	}
	return append(out, big.NewInt(int64(v.ID)))
}
func (v vset) coq() string {
	vs := make([]string, len(v.Vals))
	for i, a := range v.Vals {
		vs[i] = emit.ZI(addrID(a))
	}
	ps := make([]string, len(v.Pows))
	for i, p := range v.Pows {
		ps[i] = emit.ZI(int64(p))
	}
	return emit.Pair(emit.List(vs), emit.List(ps), emit.ZU(v.ID))
}
func (v vset) real() *evmtypes.Valset {
	out := &evmtypes.Valset{ValsetID: v.ID, Powers: append([]uint64{}, v.Pows...)}
	for _, a := range v.Vals {
		out.Validators = append(out.Validators, a.Hex())
	}
	return out
}

type fwd struct {
	Addr    common.Address
	Payload []byte
}

// callSpec: one compass call (or contract creation, or mangled bytes) by its values
type callSpec struct {
	Method   int // 1 submit_logic_call 2 update_valset 3 compass_update_batch 4 deploy_contract 5 creation 0 mangled
	VS       vset
	Sigs     [][]byte // one per VS validator; nil = zero signature
	Addr     common.Address
	Payload  []byte
	Fees     [3]*big.Int // the three uint256 fee words of the call
	Sender   [32]byte
	MsgID    *big.Int
	Deadline *big.Int
	Relayer  common.Address
	Gas      *big.Int
	NewVS    vset
	Forward  []fwd
	Bytecode []byte
	Ctor     []byte
	Raw      []byte
}

func u256(x *big.Int) *big.Int { return new(big.Int).Mod(x, two256) }

func z(x *big.Int) []*big.Int  { return []*big.Int{u256(x)} }
func zi(x int64) []*big.Int    { return []*big.Int{big.NewInt(x)} }
func zu(x uint64) []*big.Int   { return []*big.Int{new(big.Int).SetUint64(x)} }
func zb(b []byte) []*big.Int   { return zi(tab.id(b)) }
func za(a common.Address) []*big.Int { return zi(addrID(a)) }

func sigVals(sigs [][]byte) []*big.Int {
	out := make([]*big.Int, len(sigs))
	for i, s := range sigs {
		if s == nil {
			out[i] = big.NewInt(0)
		} else {
			out[i] = big.NewInt(tab.id(s))
		}
	}
	return out
}

func fwdVals(f []fwd) []*big.Int {
	out := []*big.Int{big.NewInt(int64(len(f)))}
	for _, x := range f {
		out = append(out, big.NewInt(addrID(x.Addr)), big.NewInt(tab.id(x.Payload)))
	}
	return out
}

// positional values, exactly what the compass method takes (flattened)
func (c *callSpec) values() [][]*big.Int {
	switch c.Method {
	case 1:
		return [][]*big.Int{c.VS.flat(), sigVals(c.Sigs), za(c.Addr), zb(c.Payload), z(c.Fees[0]), z(c.Fees[1]), z(c.Fees[2]),
			zb(c.Sender[:]), z(c.MsgID), z(c.Deadline), za(c.Relayer)}
	case 2:
		return [][]*big.Int{c.VS.flat(), sigVals(c.Sigs), c.NewVS.flat(), za(c.Relayer), z(c.Gas)}
	case 3:
		return [][]*big.Int{c.VS.flat(), sigVals(c.Sigs), fwdVals(c.Forward), z(c.Deadline), z(c.Gas), za(c.Relayer)}
	case 4:
		return [][]*big.Int{c.VS.flat(), sigVals(c.Sigs), za(c.Addr), zb(c.Bytecode), z(c.Fees[0]), z(c.Fees[1]), z(c.Fees[2]),
			zb(c.Sender[:]), z(c.MsgID), z(c.Deadline), za(c.Relayer)}
	case 5:
		return [][]*big.Int{zb(c.Bytecode), zb(c.Ctor)}
	}
	return [][]*big.Int{zb(c.Raw)}
}

func coqVals(vs [][]*big.Int) string {
	s := make([]string, len(vs))
	for i, v := range vs {
		s[i] = emit.ZList(v)
	}
	return emit.List(s)
}
func (c *callSpec) coq() string { return emit.Pair(emit.ZI(int64(c.Method)), coqVals(c.values())) }

func sameVals(a, b [][]*big.Int) bool {
	if len(a) != len(b) {
		return false
	}
	for i := range a {
		if len(a[i]) != len(b[i]) {
			return false
		}
		for j := range a[i] {
			if a[i][j].Cmp(b[i][j]) != 0 {
				return false
			}
		}
	}
	return true
}
func (c *callSpec) same(d *callSpec) bool { return c.Method == d.Method && sameVals(c.values(), d.values()) }

// ---------- packing with go-ethereum, independent of eth_txable.go ----------

type hSig struct{ V, R, S *big.Int }
type hValset struct {
	Validators []common.Address
	Powers     []*big.Int
	ValsetId   *big.Int
}
type hConsensus struct {
	Valset     hValset
	Signatures []hSig
}
type hCall struct {
	LogicContractAddress common.Address
	Payload              []byte
}
type hFees struct {
	RelayerFee, CommunityFee, SecurityFee *big.Int
	FeePayerPalomaAddress                 [32]byte
}

func hvs(v vset) hValset {
	out := hValset{ValsetId: big.NewInt(int64(v.ID)), Validators: []common.Address{}, Powers: []*big.Int{}}
	out.Validators = append(out.Validators, v.Vals...)
	for _, p := range v.Pows {
		out.Powers = append(out.Powers, big.NewInt(int64(p)))
	}
	return out
}
func hcons(v vset, sigs [][]byte) hConsensus {
	out := hConsensus{Valset: hvs(v), Signatures: []hSig{}}
	for _, s := range sigs {
		if s == nil {
			out.Signatures = append(out.Signatures, hSig{big.NewInt(0), big.NewInt(0), big.NewInt(0)})
		} else {
			out.Signatures = append(out.Signatures, hSig{big.NewInt(int64(s[64]) + 27), new(big.Int).SetBytes(s[:32]), new(big.Int).SetBytes(s[32:64])})
		}
	}
	return out
}
func hfees(c *callSpec) hFees {
	return hFees{c.Fees[0], c.Fees[1], c.Fees[2], c.Sender}
}

var (
	compassABIJSON string
	compassABI     abi.ABI
)

func loadABI(t *testing.T) {
	repo := os.Getenv("VERIF_REPO")
	if repo == "" {
		repo = "/repo"
	}
	b, err := os.ReadFile(filepath.Join(repo, "x/evm/keeper/testdata/sample-abi.json"))
	if err != nil {
		t.Fatal(err)
	}
	compassABIJSON = string(b)
	compassABI, err = abi.JSON(strings.NewReader(compassABIJSON))
	if err != nil {
		t.Fatal(err)
	}
}

func (c *callSpec) pack() ([]byte, error) {
	switch c.Method {
	case 1:
		return compassABI.Pack("submit_logic_call", hcons(c.VS, c.Sigs), hCall{c.Addr, c.Payload}, hfees(c), c.MsgID, c.Deadline, c.Relayer)
	case 2:
		return compassABI.Pack("update_valset", hcons(c.VS, c.Sigs), hvs(c.NewVS), c.Relayer, c.Gas)
	case 3:
		fs := []hCall{}
		for _, f := range c.Forward {
			fs = append(fs, hCall{f.Addr, f.Payload})
		}
		return compassABI.Pack("compass_update_batch", hcons(c.VS, c.Sigs), fs, c.Deadline, c.Gas, c.Relayer)
	case 4:
		return compassABI.Pack("deploy_contract", hcons(c.VS, c.Sigs), c.Addr, c.Bytecode, hfees(c), c.MsgID, c.Deadline, c.Relayer)
	case 5:
		return append(append([]byte{}, c.Bytecode...), c.Ctor...), nil
	}
	return c.Raw, nil
}

// ---------- messages ----------

type sigE struct {
	Addr common.Address
	Sig  []byte // 65 bytes
}

type bodyT struct {
	Kind     int
	Relayer  string // AssigneeRemoteAddress as stored
	Contract string
	Payload  []byte
	Fees     [3]uint64
	Sender   []byte
	Deadline int64
	NewVS    vset
	Forward  []fwd
	Deployer string
	Bytecode []byte
	Ctor     []byte
	Key      uint64 // contract id / user contract id / new valset id
	Height   int64  // UploadUserSmartContract.BlockHeight
	Retries  uint32
	NoFees   bool // Fees == nil: no transaction matches such a message (VerifyAgainstTX used to dereference it)
	Chain    int  // index of the chain whose queue holds the message (0 = the history's first chain)
}

func pad32(b []byte) [32]byte {
	var out [32]byte
	copy(out[32-len(b):], b)
	return out
}

func (b *bodyT) coq() string {
	var vals []string
	add := func(idx int, v []*big.Int) { vals = append(vals, emit.Pair(emit.ZI(int64(idx)), emit.ZList(v))) }
	p := pad32(b.Sender)
	switch b.Kind {
	case kSLC:
		add(fContract, za(common.HexToAddress(b.Contract)))
		add(fPayload, zb(b.Payload))
		add(fFeeR, zu(b.Fees[0]))
		add(fFeeC, zu(b.Fees[1]))
		add(fFeeS, zu(b.Fees[2]))
		add(fSender, zb(p[:]))
		add(fDeadline, z(big.NewInt(b.Deadline)))
	case kUpdateValset:
		add(fNewVS, b.NewVS.flat())
	case kHandover:
		add(fForward, fwdVals(b.Forward))
		add(fDeadline, z(big.NewInt(b.Deadline)))
	case kUploadUser:
		add(fDeployer, za(common.HexToAddress(b.Deployer)))
		add(fBytecode, zb(b.Bytecode))
		add(fFeeR, zu(b.Fees[0]))
		add(fFeeC, zu(b.Fees[1]))
		add(fFeeS, zu(b.Fees[2]))
		add(fSender, zb(p[:]))
		add(fDeadline, z(big.NewInt(b.Deadline)))
	case kUploadCompass:
		add(fBytecode, zb(b.Bytecode))
		add(fCtor, zb(b.Ctor))
	}
	add(fKey, zu(b.Key))
	if b.NoFees && (b.Kind == kSLC || b.Kind == kUploadUser) {
		add(101, zi(1))
	}
	if b.Kind == kUploadUser { // what the follow-ups look the deployment record up by, and the retry counter
		add(102, zi(b.Height))
		add(103, zi(int64(b.Retries)))
	}
	if b.Chain != 0 {
		add(104, zi(int64(b.Chain)))
	}
	return emit.Pair(emit.ZI(int64(b.Kind)), emit.ZI(addrID(common.HexToAddress(b.Relayer))), emit.List(vals))
}

// the correct call for this body with the first i signatures (i = 0: none)
func (b *bodyT) correct(id uint64, gas uint64, vs vset, sigs []sigE, i int) *callSpec {
	c := &callSpec{VS: vs, Relayer: common.HexToAddress(b.Relayer), MsgID: big.NewInt(int64(id)), Gas: new(big.Int).SetUint64(gas),
		Deadline: big.NewInt(b.Deadline), Sender: pad32(b.Sender),
		Fees: [3]*big.Int{new(big.Int).SetUint64(b.Fees[0]), new(big.Int).SetUint64(b.Fees[1]), new(big.Int).SetUint64(b.Fees[2])}}
	m := map[common.Address][]byte{}
	for _, s := range sigs[:i] {
		m[s.Addr] = s.Sig
	}
	for _, a := range vs.Vals {
		c.Sigs = append(c.Sigs, m[a])
	}
	switch b.Kind {
	case kSLC:
		c.Method, c.Addr, c.Payload = 1, common.HexToAddress(b.Contract), b.Payload
	case kUpdateValset:
		c.Method, c.NewVS = 2, b.NewVS
	case kHandover:
		c.Method, c.Forward = 3, b.Forward
	case kUploadUser:
		c.Method, c.Addr, c.Bytecode = 4, common.HexToAddress(b.Deployer), b.Bytecode
	case kUploadCompass:
		c.Method, c.Bytecode, c.Ctor = 5, b.Bytecode, b.Ctor
	}
	return c
}

func (b *bodyT) fees() *evmtypes.Fees {
	if b.NoFees {
		return nil
	}
	return &evmtypes.Fees{RelayerFee: b.Fees[0], CommunityFee: b.Fees[1], SecurityFee: b.Fees[2]}
}

func (b *bodyT) message(chain string, assignee string) *evmtypes.Message {
	m := &evmtypes.Message{ChainReferenceID: chain, TurnstoneID: "turnstone-c07", Assignee: assignee, AssigneeRemoteAddress: b.Relayer,
		AssignedAtBlockHeight: sdkmath.NewInt(1)}
	switch b.Kind {
	case kSLC:
		m.Action = &evmtypes.Message_SubmitLogicCall{SubmitLogicCall: &evmtypes.SubmitLogicCall{HexContractAddress: b.Contract, Payload: b.Payload,
			Deadline: b.Deadline, SenderAddress: b.Sender, Fees: b.fees(), Retries: b.Retries}}
	case kUpdateValset:
		m.Action = &evmtypes.Message_UpdateValset{UpdateValset: &evmtypes.UpdateValset{Valset: b.NewVS.real()}}
	case kHandover:
		h := &evmtypes.CompassHandover{Id: b.Key, Deadline: b.Deadline}
		for _, f := range b.Forward {
			h.ForwardCallArgs = append(h.ForwardCallArgs, evmtypes.CompassHandover_ForwardCallArgs{HexContractAddress: f.Addr.Hex(), Payload: f.Payload})
		}
		m.Action = &evmtypes.Message_CompassHandover{CompassHandover: h}
	case kUploadUser:
		m.Action = &evmtypes.Message_UploadUserSmartContract{UploadUserSmartContract: &evmtypes.UploadUserSmartContract{Bytecode: b.Bytecode,
			DeployerAddress: b.Deployer, Deadline: b.Deadline, SenderAddress: b.Sender, BlockHeight: b.Height, Id: b.Key, Fees: b.fees(), Retries: b.Retries}}
	case kUploadCompass:
		m.Action = &evmtypes.Message_UploadSmartContract{UploadSmartContract: &evmtypes.UploadSmartContract{Bytecode: b.Bytecode, Abi: compassABIJSON,
			ConstructorInput: b.Ctor, Id: b.Key, Retries: b.Retries}}
	}
	return m
}

// projection of a stored message back to a body (used for messages the keepers enqueue themselves)
func projectBody(m *evmtypes.Message) (*bodyT, bool) {
	b := &bodyT{Relayer: m.AssigneeRemoteAddress}
	switch a := m.Action.(type) {
	case *evmtypes.Message_SubmitLogicCall:
		x := a.SubmitLogicCall
		b.Kind, b.Contract, b.Payload, b.Deadline, b.Sender, b.Retries = kSLC, x.HexContractAddress, x.Payload, x.Deadline, x.SenderAddress, x.Retries
		if x.Fees != nil {
			b.Fees = [3]uint64{x.Fees.RelayerFee, x.Fees.CommunityFee, x.Fees.SecurityFee}
		} else {
			b.NoFees = true
		}
	case *evmtypes.Message_UpdateValset:
		b.Kind = kUpdateValset
		v := a.UpdateValset.Valset
		b.NewVS = vset{ID: v.GetValsetID(), Pows: v.GetPowers()}
		for _, s := range v.GetValidators() {
			b.NewVS.Vals = append(b.NewVS.Vals, common.HexToAddress(s))
		}
		b.Key = v.GetValsetID()
	case *evmtypes.Message_CompassHandover:
		b.Kind, b.Deadline, b.Key = kHandover, a.CompassHandover.Deadline, a.CompassHandover.Id
		for _, f := range a.CompassHandover.ForwardCallArgs {
			b.Forward = append(b.Forward, fwd{common.HexToAddress(f.HexContractAddress), f.Payload})
		}
	case *evmtypes.Message_UploadUserSmartContract:
		x := a.UploadUserSmartContract
		b.Kind, b.Bytecode, b.Deployer, b.Deadline, b.Sender, b.Height, b.Key, b.Retries = kUploadUser, x.Bytecode, x.DeployerAddress, x.Deadline, x.SenderAddress, x.BlockHeight, x.Id, x.Retries
		if x.Fees != nil {
			b.Fees = [3]uint64{x.Fees.RelayerFee, x.Fees.CommunityFee, x.Fees.SecurityFee}
		} else {
			b.NoFees = true
		}
	case *evmtypes.Message_UploadSmartContract:
		x := a.UploadSmartContract
		b.Kind, b.Bytecode, b.Ctor, b.Key, b.Retries = kUploadCompass, x.Bytecode, x.ConstructorInput, x.Id, x.Retries
	default:
		return nil, false
	}
	return b, true
}

// ---------- pools ----------

type pools struct {
	r        *rand.Rand
	addrs    []common.Address
	payloads [][]byte
	codes    [][]byte
	ctors    [][]byte
	senders  [][]byte
}

func newPools(r *rand.Rand) *pools {
	p := &pools{r: r}
	for i := 0; i < 14; i++ {
		var a common.Address
		r.Read(a[:])
		if i == 0 {
			a = common.Address{} // the zero address is a legal value too
		}
		p.addrs = append(p.addrs, a)
	}
	for i := 0; i < 6; i++ {
		n := []int{0, 1, 4, 31, 32, 33, 68, 100}[r.Intn(8)]
		b := make([]byte, n)
		r.Read(b)
		p.payloads = append(p.payloads, b)
	}
	p.payloads = append(p.payloads, append(append([]byte{}, p.payloads[5]...), 0)) // differs by one trailing zero byte
	for i := 0; i < 4; i++ {
		b := make([]byte, 20+r.Intn(60))
		r.Read(b)
		p.codes = append(p.codes, b)
	}
	for i := 0; i < 4; i++ {
		var id [32]byte
		r.Read(id[:])
		v := hvs(vset{Vals: []common.Address{p.addrs[1+i], p.addrs[2+i]}, Pows: []uint64{uint64(1 + i), 7}, ID: uint64(i)})
		in, err := compassABI.Pack("", id, big.NewInt(int64(i)), big.NewInt(0), v, p.addrs[3])
		if err != nil {
			panic(err)
		}
		p.ctors = append(p.ctors, in)
	}
	p.ctors = append(p.ctors, []byte{})
	for i := 0; i < 4; i++ {
		b := make([]byte, []int{20, 20, 32, 0}[i])
		r.Read(b)
		p.senders = append(p.senders, b)
	}
	return p
}

func (p *pools) addr() common.Address { return p.addrs[p.r.Intn(len(p.addrs))] }
func (p *pools) addrStr() string {
	a := p.addr()
	switch p.r.Intn(4) {
	case 0:
		return strings.ToLower(a.Hex())
	case 1:
		return strings.TrimPrefix(a.Hex(), "0x")
	}
	return a.Hex()
}
func (p *pools) u64() uint64 {
	switch p.r.Intn(4) {
	case 0:
		return uint64(p.r.Intn(5))
	case 1:
		return emit.U64(p.r)
	}
	return uint64(p.r.Intn(1_000_000))
}
func (p *pools) fee() uint64 {
	switch p.r.Intn(7) {
	case 0:
		return 1<<63 + uint64(p.r.Intn(4))
	case 1:
		return []uint64{1<<64 - 1, 1<<64 - 2, 1<<63 - 1, 1 << 63}[p.r.Intn(4)]
	}
	return p.u64()
}
func (p *pools) deadline() int64 {
	switch p.r.Intn(8) {
	case 0:
		return 0
	case 1:
		return -1 - int64(p.r.Intn(3)) // packed as 2^256 - k
	}
	return 1_700_000_000 + int64(p.r.Intn(1000))
}
func (p *pools) vset(id uint64, n int) vset {
	v := vset{ID: id}
	perm := p.r.Perm(len(p.addrs) - 1)
	for i := 0; i < n; i++ {
		v.Vals = append(v.Vals, p.addrs[1+perm[i]])
		v.Pows = append(v.Pows, uint64(1+p.r.Intn(1<<30)))
	}
	return v
}
func (p *pools) sig() []byte {
	s := make([]byte, 65)
	p.r.Read(s)
	s[64] = byte(p.r.Intn(2))
	return s
}

func (p *pools) body(kind int) *bodyT {
	b := &bodyT{Kind: kind, Relayer: p.addrStr(), Deadline: p.deadline(), Fees: [3]uint64{p.fee(), p.fee(), p.fee()},
		Sender: p.senders[p.r.Intn(len(p.senders))]}
	switch kind {
	case kSLC:
		b.Contract, b.Payload = p.addrStr(), p.payloads[p.r.Intn(len(p.payloads))]
	case kUpdateValset:
		b.NewVS = p.vset(uint64(1+p.r.Intn(50)), 1+p.r.Intn(4))
		b.Key = b.NewVS.ID
	case kHandover:
		for i, n := 0, p.r.Intn(4); i < n; i++ {
			b.Forward = append(b.Forward, fwd{p.addr(), p.payloads[p.r.Intn(len(p.payloads))]})
		}
		b.Key = uint64(1 + p.r.Intn(5))
	case kUploadUser:
		b.Deployer, b.Bytecode = p.addrStr(), p.codes[p.r.Intn(len(p.codes))]
		b.Key = uint64(1 + p.r.Intn(5))
	case kUploadCompass:
		b.Bytecode, b.Ctor = p.codes[p.r.Intn(len(p.codes))], p.ctors[p.r.Intn(len(p.ctors))]
		b.Key = uint64(1 + p.r.Intn(5))
	}
	return b
}

// ---------- corruptions ----------

var corruptNames = []string{"cur-valset", "signature", "address", "payload/bytecode", "fee", "sender", "msg-id", "deadline", "relayer", "gas",
	"new-valset", "forward-calls", "ctor"}

func (p *pools) corrupt(c *callSpec, which int) {
	r := p.r
	mutVS := func(v *vset) {
		nv := vset{ID: v.ID, Vals: append([]common.Address{}, v.Vals...), Pows: append([]uint64{}, v.Pows...)}
		switch k := r.Intn(6); {
		case k == 0:
			nv.ID += uint64(1 + r.Intn(2))
		case k == 1 && len(nv.Pows) > 0:
			nv.Pows[r.Intn(len(nv.Pows))] += 1
		case k == 2 && len(nv.Vals) > 0:
			nv.Vals[r.Intn(len(nv.Vals))] = p.addr()
		case k == 3 && len(nv.Vals) > 1:
			i, j := 0, 1+r.Intn(len(nv.Vals)-1)
			nv.Vals[i], nv.Vals[j] = nv.Vals[j], nv.Vals[i]
		case k == 4 && len(nv.Vals) > 0:
			nv.Vals, nv.Pows = nv.Vals[1:], nv.Pows[1:]
		default:
			nv.Vals, nv.Pows = append(nv.Vals, p.addr()), append(nv.Pows, 5)
		}
		*v = nv
	}
	switch which {
	case 0:
		old := len(c.VS.Vals)
		mutVS(&c.VS)
		for len(c.Sigs) < len(c.VS.Vals) {
			c.Sigs = append(c.Sigs, nil)
		}
		if len(c.VS.Vals) < old {
			c.Sigs = c.Sigs[1:]
		}
	case 1:
		if len(c.Sigs) > 0 {
			c.Sigs = append([][]byte{}, c.Sigs...)
			i := r.Intn(len(c.Sigs))
			switch {
			case c.Sigs[i] != nil && r.Intn(2) == 0:
				c.Sigs[i] = nil
			case c.Sigs[i] != nil:
				s := append([]byte{}, c.Sigs[i]...)
				s[r.Intn(65)] ^= 1 << uint(r.Intn(8))
				if s[64] > 1 {
					s[64] &= 1
					s[0] ^= 1
				}
				c.Sigs[i] = s
			default:
				c.Sigs[i] = p.sig()
			}
		}
	case 2:
		c.Addr = p.addr()
	case 3:
		if c.Method == 4 {
			c.Bytecode = p.codes[r.Intn(len(p.codes))]
		} else if c.Method == 5 {
			c.Bytecode = p.codes[r.Intn(len(p.codes))]
		} else {
			c.Payload = p.payloads[r.Intn(len(p.payloads))]
		}
	case 4:
		k := r.Intn(3)
		f := c.Fees[k]
		c.Fees = [3]*big.Int{c.Fees[0], c.Fees[1], c.Fees[2]}
		if f.BitLen() == 64 && r.Intn(2) == 0 {
			// the word a sign-extending int64 conversion of this fee would pack: 2^256 - (2^64 - fee)
			c.Fees[k] = u256(new(big.Int).Sub(f, new(big.Int).Lsh(big.NewInt(1), 64)))
		} else {
			c.Fees[k] = new(big.Int).Add(f, big.NewInt(int64(1+r.Intn(2))))
		}
	case 5:
		c.Sender[r.Intn(32)] ^= 1
	case 6:
		c.MsgID = new(big.Int).Add(c.MsgID, big.NewInt(int64(1+r.Intn(2))))
	case 7:
		c.Deadline = new(big.Int).Add(c.Deadline, big.NewInt(int64(1+r.Intn(2))))
	case 8:
		c.Relayer = p.addr()
	case 9:
		c.Gas = new(big.Int).Add(c.Gas, big.NewInt(1))
	case 10:
		mutVS(&c.NewVS)
	case 11:
		f := append([]fwd{}, c.Forward...)
		switch k := r.Intn(3); {
		case k == 0 && len(f) > 0:
			f = f[:len(f)-1]
		case k == 1 && len(f) > 0:
			f[r.Intn(len(f))].Payload = p.payloads[r.Intn(len(p.payloads))]
		default:
			f = append(f, fwd{p.addr(), p.payloads[0]})
		}
		c.Forward = f
	case 12:
		c.Ctor = p.ctors[r.Intn(len(p.ctors))]
	}
}

// which corruptions apply to a method
func fieldsOf(method int) []int {
	switch method {
	case 1:
		return []int{0, 1, 2, 3, 4, 5, 6, 7, 8}
	case 2:
		return []int{0, 1, 8, 9, 10}
	case 3:
		return []int{0, 1, 7, 8, 9, 11}
	case 4:
		return []int{0, 1, 2, 3, 4, 5, 6, 7, 8}
	case 5:
		return []int{3, 12}
	}
	return nil
}

// ---------- Part A: VerifyAgainstTX ----------

func nopCtx() sdk.Context { return sdk.Context{}.WithLogger(log.NewNopLogger()).WithContext(context.Background()) }

func realVerify(ctx context.Context, b *bodyT, id, gas uint64, vs vset, sigs []sigE, data []byte) (cls int, panicked any) {
	defer func() {
		if p := recover(); p != nil {
			cls, panicked = 9, p
		}
	}()
	tx := ethtypes.NewTx(&ethtypes.DynamicFeeTx{Data: data})
	q := &consensustypes.QueuedSignedMessage{Id: id, GasEstimate: gas}
	for _, s := range sigs {
		q.SignData = append(q.SignData, &consensustypes.SignData{ExternalAccountAddress: s.Addr.Hex(), Signature: s.Sig, PublicKey: s.Addr.Bytes()})
	}
	m := b.message("chain", "assignee")
	compass := &evmtypes.SmartContract{Id: 1, AbiJSON: compassABIJSON}
	var err error
	switch a := m.Action.(type) {
	case *evmtypes.Message_SubmitLogicCall:
		err = a.SubmitLogicCall.VerifyAgainstTX(ctx, tx, q, vs.real(), compass, b.Relayer)
	case *evmtypes.Message_UpdateValset:
		err = a.UpdateValset.VerifyAgainstTX(ctx, tx, q, vs.real(), compass, b.Relayer)
	case *evmtypes.Message_CompassHandover:
		err = a.CompassHandover.VerifyAgainstTX(ctx, tx, q, vs.real(), compass, b.Relayer)
	case *evmtypes.Message_UploadUserSmartContract:
		err = a.UploadUserSmartContract.VerifyAgainstTX(ctx, tx, q, vs.real(), compass, b.Relayer)
	case *evmtypes.Message_UploadSmartContract:
		err = a.UploadSmartContract.VerifyAgainstTX(ctx, tx, q, vs.real(), compass, b.Relayer)
	}
	switch {
	case err == nil:
		return 0, nil
	case errors.Is(err, evmtypes.ErrEthTxNotVerified):
		return 1, nil
	}
	return 2, err
}

func coqSigs(sigs []sigE) string {
	s := make([]string, len(sigs))
	for i, x := range sigs {
		s[i] = emit.Pair(emit.ZI(addrID(x.Addr)), emit.ZI(tab.id(x.Sig)))
	}
	return emit.List(s)
}

// matches: does the call equal the correct call of some admissible prefix?
func matches(b *bodyT, id, gas uint64, vs vset, sigs []sigE, c *callSpec) bool {
	if b.NoFees && (b.Kind == kSLC || b.Kind == kUploadUser) {
		return false // fees never set: no transaction matches
	}
	if b.Kind == kUploadCompass {
		return c.same(b.correct(id, gas, vs, sigs, 0))
	}
	for i := len(sigs); i > 0; i-- {
		if c.same(b.correct(id, gas, vs, sigs, i)) {
			return true
		}
	}
	return false
}

func partA(t *testing.T, run *emit.Run, n int) {
	r := run.Rng
	p := newPools(r)
	ctx := nopCtx()
	for it := 0; it < n; it++ {
		kind := r.Intn(5)
		b := p.body(kind)
		if (kind == kSLC || kind == kUploadUser) && r.Intn(12) == 0 {
			b.NoFees, b.Fees = true, [3]uint64{} // fees never set: whatever the transaction, it must be refused
		}
		id := uint64(1 + r.Intn(200))
		if r.Intn(40) == 0 {
			id = 1<<63 + uint64(r.Intn(3)) // int64(id) wraps: packed as a huge uint256
		}
		gas := p.u64()
		vs := p.vset(uint64(r.Intn(40)), 1+r.Intn(5))
		// signers: mostly members of the valset in random order, sometimes outsiders
		var sigs []sigE
		for _, k := range r.Perm(len(vs.Vals)) {
			if r.Intn(5) != 0 {
				sigs = append(sigs, sigE{vs.Vals[k], p.sig()})
			}
			if r.Intn(6) == 0 {
				sigs = append(sigs, sigE{p.addr(), p.sig()})
			}
		}
		if r.Intn(12) == 0 {
			sigs = nil
		}
		// the transaction
		i := 0
		if len(sigs) > 0 {
			i = 1 + r.Intn(len(sigs))
			if r.Intn(3) == 0 {
				i = len(sigs)
			}
		}
		var c *callSpec
		what := "correct"
		mode := r.Intn(10)
		if len(sigs) == 0 && kind != kUploadCompass {
			mode = 1 + r.Intn(9)
		}
		switch {
		case mode <= 1: // correct call with prefix i (i = 0 only when nobody signed: must be refused)
			c = b.correct(id, gas, vs, sigs, i)
			what = fmt.Sprintf("correct prefix=%d/%d", i, len(sigs))
			if i == 0 && kind != kUploadCompass {
				what = "no-signatures"
			}
		case mode <= 5: // single-field corruption
			c = b.correct(id, gas, vs, sigs, i)
			fs := fieldsOf(c.Method)
			f := fs[r.Intn(len(fs))]
			p.corrupt(c, f)
			what = "single:" + corruptNames[f]
		case mode <= 7: // multi-field corruption
			c = b.correct(id, gas, vs, sigs, i)
			fs := fieldsOf(c.Method)
			k := 2 + r.Intn(2)
			for j := 0; j < k; j++ {
				p.corrupt(c, fs[r.Intn(len(fs))])
			}
			what = "multi"
		case mode == 8: // the correct call of a different message (other kind or other body of the same kind)
			ob := p.body(r.Intn(5))
			c = ob.correct(id, gas, vs, sigs, i)
			what = "other-message"
		default: // mangled bytes
			base, _ := b.correct(id, gas, vs, sigs, i).pack()
			raw := append([]byte{}, base...)
			switch k := r.Intn(4); {
			case k == 0 && len(raw) > 0:
				raw = raw[:len(raw)-1-r.Intn(min(len(raw), 33))]
			case k == 1:
				raw = append(raw, byte(r.Intn(256)))
			case k == 2 && len(raw) > 0:
				raw[r.Intn(len(raw))] ^= 1 << uint(r.Intn(8))
			default:
				raw = append(raw, make([]byte, 32)...)
			}
			c = &callSpec{Method: 0, Raw: raw}
			what = "mangled"
		}
		data, err := c.pack()
		if err != nil {
			t.Fatalf("pack: %v", err)
		}
		cls, pv := realVerify(ctx, b, id, gas, vs, sigs, data)
		ok := matches(b, id, gas, vs, sigs, c)
		run.Count("A.kind", fmt.Sprint(kind))
		run.Count("A.tx", strings.SplitN(what, " ", 2)[0])
		run.Count("A.verdict", fmt.Sprintf("class=%d matches=%v", cls, ok))
		replay := map[string]any{"part": "A", "kind": kind, "tx": what, "msg_id": id, "gas": gas, "nsigs": len(sigs), "body": b.coq(), "call": c.coq()}
		switch {
		case pv != nil:
			t.Errorf("VerifyAgainstTX panicked: %v (%v)", pv, what)
		case cls == 0 && !ok:
			run.Violate("C07:accepts-non-matching-calldata", fmt.Sprintf("VerifyAgainstTX accepted a transaction whose call differs from the message's (%s, kind %d)", what, kind), replay)
		case cls == 2:
			t.Errorf("VerifyAgainstTX: unexpected error %v (%s)", pv, what)
		}
		run.Case(fmt.Sprintf("C07.CVerify %s %s %s %s %s %s %d", b.coq(), emit.ZU(id), emit.ZU(gas), vs.coq(), coqSigs(sigs), c.coq(), cls),
			cls == 0 || strings.HasPrefix(what, "single") || what == "multi", nil)
	}
}

// ---------- Part B: histories on the real keepers ----------

var valCodec = authcodec.NewBech32Codec(chainparams.ValidatorAddressPrefix)

const chainName = "c07-chain"
const chainNameB = "c07-chain-b" // the roll-out scenario's second chain

type hval struct {
	addr sdk.ValAddress
	key  *ecdsa.PrivateKey
	eth  common.Address
	// the validator's account on the second chain (two-chain environments): ANOTHER key, another address
	keyB *ecdsa.PrivateKey
	ethB common.Address
}

func (v hval) on(chain int) (*ecdsa.PrivateKey, common.Address) {
	if chain == 1 {
		return v.keyB, v.ethB
	}
	return v.key, v.eth
}

type henv struct {
	f     *helper.Fixture
	ctx   sdk.Context
	evm   *evmkeeper.Keeper
	vals  []hval
	queue string
	chains []string // chain reference ids, chains[0] = chainName
	queues []string // their turnstone queues, queues[0] = queue
	snaps []uint64 // snapshot ids
	// the current snapshot as VerifyEvidence weighs with it: share per validator index, recorded total
	shares  []int64
	total   int64
	snapNow uint64
	lastSnap uint64 // id of the last stored snapshot (= the current one)
}

func valAddr(i int) sdk.ValAddress {
	b := make([]byte, 20)
	b[0], b[19] = 0xC7, byte(i)
	return sdk.ValAddress(b)
}

func (e *henv) setValidator(i int, tokens int64) error {
	op, err := valCodec.BytesToString(valAddr(i))
	if err != nil {
		return err
	}
	seed := make([]byte, 32)
	seed[0], seed[1] = byte(i), 0x7
	pk, err := cryptocodec.FromCmtPubKeyInterface(ed25519.GenPrivKeyFromSecret(seed).PubKey())
	if err != nil {
		return err
	}
	v, err := stakingtypes.NewValidator(op, pk, stakingtypes.Description{Moniker: fmt.Sprintf("v%d", i)})
	if err != nil {
		return err
	}
	v.Status = stakingtypes.Bonded
	v.Tokens = sdkmath.NewInt(tokens)
	v.DelegatorShares = sdkmath.LegacyNewDec(tokens)
	if err := e.f.StakingKeeper.SetValidator(e.ctx, v); err != nil {
		return err
	}
	if err := e.f.StakingKeeper.SetValidatorByConsAddr(e.ctx, v); err != nil {
		return err
	}
	cons, err := v.GetConsAddr()
	if err != nil {
		return err
	}
	if err := e.f.SlashingKeeper.SetValidatorSigningInfo(e.ctx, cons, slashingtypes.NewValidatorSigningInfo(cons, 0, 0, time.Unix(0, 0), false, 0)); err != nil {
		return err
	}
	fs := &treasurytypes.RelayerFeeSetting{ValAddress: valAddr(i).String()}
	for _, c := range e.chains {
		fs.Fees = append(fs.Fees, treasurytypes.RelayerFeeSetting_FeeSetting{Multiplicator: sdkmath.LegacyMustNewDecFromStr("1.10"), ChainReferenceId: c})
	}
	return e.f.TreasuryKeeper.SetRelayerFee(e.ctx, valAddr(i), fs)
}

func newEnv(t *testing.T, r *rand.Rand, live bool) *henv { return newEnvChains(t, r, live, false) }

func newEnvChains(t *testing.T, r *rand.Rand, live bool, two bool) *henv {
	f := helper.InitFixture(ginkgo.GinkgoT())
	e := &henv{f: f, ctx: f.Ctx.WithLogger(log.NewNopLogger()).WithBlockHeight(10).WithBlockTime(time.Unix(1_700_000_000, 0).UTC())}
	// the evm keeper the consensus end-blocker really uses; metrix listens on it as in app.go
	for _, s := range f.ConsensusKeeper.VerifC07Registered() {
		if k, ok := s.(*evmkeeper.Keeper); ok {
			e.evm = k
		}
	}
	if e.evm == nil {
		t.Fatal("evm keeper not registered with the consensus keeper")
	}
	e.evm.AddMessageConsensusAttestedListener(&f.MetrixKeeper)
	e.queue = consensustypes.Queue(evmtypes.ConsensusTurnstoneMessage, xchain.Type("evm"), xchain.ReferenceID(chainName))
	e.chains, e.queues = []string{chainName}, []string{e.queue}
	if two {
		e.chains = append(e.chains, chainNameB)
		e.queues = append(e.queues, consensustypes.Queue(evmtypes.ConsensusTurnstoneMessage, xchain.Type("evm"), xchain.ReferenceID(chainNameB)))
	}
	must := func(err error) {
		if err != nil {
			t.Helper()
			t.Fatal(err)
		}
	}
	sc, err := e.evm.SaveNewSmartContract(e.ctx, compassABIJSON, []byte{0x60, 0x80, 0x01})
	must(err)
	must(e.evm.SetAsCompassContract(e.ctx, sc))
	must(e.evm.AddSupportForNewChain(e.ctx, chainName, 4242, 1, "0xbeef", big.NewInt(1)))
	if two {
		must(e.evm.AddSupportForNewChain(e.ctx, chainNameB, 4243, 1, "0xbeef", big.NewInt(1)))
	}
	nv := 4
	for i := 0; i < nv; i++ {
		must(e.setValidator(i, []int64{40, 30, 20, 10}[i]*1_000_000))
		key, err := crypto.GenerateKey()
		must(err)
		hv := hval{addr: valAddr(i), key: key, eth: crypto.PubkeyToAddress(key.PublicKey)}
		hv.keyB, err = crypto.GenerateKey()
		must(err)
		hv.ethB = crypto.PubkeyToAddress(hv.keyB.PublicKey)
		e.vals = append(e.vals, hv)
		var infos []*valsettypes.ExternalChainInfo
		for ci, c := range e.chains { // a different account on every chain
			_, a := hv.on(ci)
			infos = append(infos, &valsettypes.ExternalChainInfo{ChainType: "evm", ChainReferenceID: c, Address: a.Hex(), Pubkey: a.Bytes()})
		}
		must(f.ValsetKeeper.AddExternalChainInfo(e.ctx, hv.addr, infos))
	}
	f.MetrixKeeper.UpdateUptime(e.ctx)
	for k := 0; k < 2; k++ {
		if k == 1 { // a second snapshot with other shares
			must(e.setValidator(0, 25_000_000))
			e.ctx = e.ctx.WithBlockHeight(e.ctx.BlockHeight() + 1)
		}
		sn, err := f.ValsetKeeper.TriggerSnapshotBuild(e.ctx)
		must(err)
		if sn == nil {
			t.Fatal("no snapshot built")
		}
		e.snaps = append(e.snaps, sn.Id)
	}
	cur, err := f.ValsetKeeper.GetCurrentSnapshot(e.ctx)
	must(err)
	e.snapNow, e.total, e.lastSnap = cur.Id, cur.TotalShares.Int64(), cur.Id
	for _, v := range e.vals {
		sv, ok := cur.GetValidator(v.addr)
		if !ok {
			t.Fatal("validator missing from the current snapshot")
		}
		e.shares = append(e.shares, sv.ShareCount.Int64())
	}
	if live {
		must(e.evm.ActivateChainReferenceID(e.ctx, chainName, sc, "0x00000000000000000000000000000000000c0de1", []byte("uid-c07")))
		must(f.ValsetKeeper.SetSnapshotOnChain(e.ctx, e.snaps[0], chainName))
		must(e.evm.SetFeeManagerAddress(e.ctx, chainName, "0x00000000000000000000000000000000000fee01"))
		must(e.evm.SetSmartContractDeployer(e.ctx, chainName, "0x0000000000000000000000000000000000de9101"))
	}
	return e
}

func (e *henv) coqShares() string {
	s := make([]string, len(e.shares))
	for i, x := range e.shares {
		s[i] = emit.Pair(emit.ZI(int64(i)), emit.ZI(x))
	}
	return emit.List(s)
}

// the snapshot the votes are weighed with must still be the one recorded at set-up (the model's is fixed per history)
func (e *henv) checkSnapshot(t *testing.T) {
	cur, err := e.f.ValsetKeeper.GetCurrentSnapshot(e.ctx)
	if err != nil || cur.Id != e.lastSnap || cur.TotalShares.Int64() != e.total {
		t.Fatalf("the current snapshot changed behind the harness's back (%v)", err)
	}
	for i, v := range e.vals {
		if sv, ok := cur.GetValidator(v.addr); !ok || sv.ShareCount.Int64() != e.shares[i] {
			t.Fatalf("the shares of the current snapshot changed during the history")
		}
	}
}

// which stored snapshots list which chain (with repetitions), and the active compass of every chain: read from ALL stored
// snapshots, not through GetLatestSnapshotOnChain
func (e *henv) chainFacts(t *testing.T) (live, active [][2]int64) {
	for id := uint64(1); id <= e.lastSnap; id++ {
		sn, err := e.f.ValsetKeeper.FindSnapshotByID(e.ctx, id)
		if err != nil || sn == nil {
			continue
		}
		for _, c := range sn.Chains {
			for ci, n := range e.chains {
				if c == n {
					live = append(live, [2]int64{int64(id), int64(ci)})
				}
			}
		}
	}
	sort.Slice(live, func(i, j int) bool {
		if live[i][0] != live[j][0] {
			return live[i][0] < live[j][0]
		}
		return live[i][1] < live[j][1]
	})
	for ci, n := range e.chains {
		if info, err := e.evm.GetChainInfo(e.ctx, n); err == nil && info.ActiveSmartContractID != 0 {
			active = append(active, [2]int64{int64(ci), int64(info.ActiveSmartContractID)})
		}
	}
	return live, active
}

func coqPairs(l [][2]int64) string {
	s := make([]string, len(l))
	for i, x := range l {
		s[i] = emit.Pair(emit.ZI(x[0]), emit.ZI(x[1]))
	}
	return emit.List(s)
}

func (e *henv) q(t *testing.T) consensus.Queuer {
	q, err := e.f.ConsensusKeeper.VerifC07Queue(e.ctx, e.queue)
	if err != nil {
		t.Fatal(err)
	}
	return q
}

// the snapshot projected to this chain's compass valset, read through the public pieces the
// attestation itself uses
func (e *henv) snapVS(id uint64) (vset, bool) { return e.snapVSOn(id, 0) }

// the snapshot as the compass of the given chain knows it: the direct projection, computed for THAT chain
func (e *henv) snapVSOn(id uint64, chain int) (vset, bool) {
	sn, err := e.f.ValsetKeeper.FindSnapshotByID(e.ctx, id)
	if err != nil || sn == nil {
		return vset{}, false
	}
	v := evmkeeper.VerifC07TransformSnapshot(sn, e.chains[chain])
	out := vset{ID: v.ValsetID, Pows: v.Powers}
	mine := map[common.Address]bool{}
	for _, hv := range e.vals {
		_, a := hv.on(chain)
		mine[a] = true
	}
	for _, s := range v.Validators {
		a := common.HexToAddress(s)
		if !mine[a] {
			panic(fmt.Sprintf("projection of snapshot %d for chain %d names %s, not an account of that chain", id, chain, s))
		}
		out.Vals = append(out.Vals, a)
	}
	return out, true
}

type qmsg struct {
	id   uint64
	raw  consensustypes.QueuedSignedMessageI
	body *bodyT
}

func (e *henv) queued(t *testing.T) []qmsg {
	var out []qmsg
	for ci, qn := range e.queues {
		ms, err := e.f.ConsensusKeeper.GetMessagesFromQueue(e.ctx, qn, 0)
		if err != nil {
			t.Fatal(err)
		}
		for _, m := range ms {
			cm, err := m.ConsensusMsg(e.f.Codec)
			if err != nil {
				t.Fatal(err)
			}
			b, ok := projectBody(cm.(*evmtypes.Message))
			if !ok {
				t.Fatalf("unknown action in queue")
			}
			b.Chain = ci
			out = append(out, qmsg{m.GetId(), m, b})
		}
	}
	sort.Slice(out, func(i, j int) bool { return out[i].id < out[j].id })
	return out
}

func (e *henv) sign(m consensustypes.QueuedSignedMessageI, v hval) ([]byte, error) { return e.signOn(m, v, 0) }

func (e *henv) signOn(m consensustypes.QueuedSignedMessageI, v hval, chain int) ([]byte, error) {
	bz, err := m.GetBytesToSign(e.f.Codec)
	if err != nil {
		return nil, err
	}
	k, _ := v.on(chain)
	return crypto.Sign(crypto.Keccak256(append([]byte(evmkeeper.SignaturePrefix), bz...)), k)
}

// state facts the success follow-ups write
type facts struct {
	snapOnChain map[uint64]int    // snapshot id -> how many times the chain is listed
	deploy      map[uint64]string // contract id -> deployment status
	active      uint64
	current     uint64 // id of the current snapshot
	user        map[uint64]int // user contract id -> number of its deployment records on the chain that are ACTIVE
}

// one reading per chain
func (e *henv) facts(t *testing.T) []facts {
	var out []facts
	for ci := range e.chains {
		out = append(out, e.factsOf(t, ci))
	}
	return out
}

func (e *henv) factsOf(t *testing.T, ci int) facts {
	chain := e.chains[ci]
	f := facts{snapOnChain: map[uint64]int{}, deploy: map[uint64]string{}, user: map[uint64]int{}}
	for id := uint64(1); id <= e.lastSnap; id++ {
		if sn, err := e.f.ValsetKeeper.FindSnapshotByID(e.ctx, id); err == nil && sn != nil {
			for _, c := range sn.Chains {
				if c == chain {
					f.snapOnChain[id]++
				}
			}
		}
	}
	f.current = e.lastSnap
	ds, err := e.evm.AllSmartContractsDeployments(e.ctx)
	if err != nil {
		t.Fatal(err)
	}
	for _, d := range ds {
		if d.ChainReferenceID == chain {
			f.deploy[d.SmartContractID] = d.Status.String()
		}
	}
	if ci, err := e.evm.GetChainInfo(e.ctx, chain); err == nil {
		f.active = ci.ActiveSmartContractID
	}
	for _, r := range e.userRecords() {
		if r.chain == int64(ci) && r.status == 1 {
			f.user[uint64(r.cid)]++
		}
	}
	return f
}

// success follow-ups visible between two readings: (kind, key + 1000 * chain)
func diffFacts(as, bs []facts) [][2]int64 {
	var out [][2]int64
	for ci := range as {
		for _, x := range diffFactsChain(as[ci], bs[ci]) {
			out = append(out, [2]int64{x[0], x[1] + 1000*int64(ci)})
		}
	}
	return out
}

func diffFactsChain(a, b facts) [][2]int64 {
	var out [][2]int64
	// a compass upload that is the chain's first deployment also lists the current snapshot on the chain
	first := 0
	for id, st := range a.deploy {
		if _, still := b.deploy[id]; st == evmtypes.SmartContractDeployment_IN_FLIGHT.String() && !still && b.active == id && a.active != id {
			first++
		}
	}
	for id, n := range b.snapOnChain {
		for k := a.snapOnChain[id]; k < n; k++ {
			if first > 0 && id == b.current {
				first--
				continue
			}
			out = append(out, [2]int64{kUpdateValset, int64(id)})
		}
	}
	for id, st := range a.deploy {
		now, still := b.deploy[id]
		inflight := evmtypes.SmartContractDeployment_IN_FLIGHT.String()
		waiting := evmtypes.SmartContractDeployment_WAITING_FOR_ERC20_OWNERSHIP_TRANSFER.String()
		switch {
		case st == inflight && still && now == waiting:
			out = append(out, [2]int64{kUploadCompass, int64(id)})
		case st == inflight && !still && b.active == id && a.active != id:
			out = append(out, [2]int64{kUploadCompass, int64(id)})
		case st == waiting && !still && b.active == id && a.active != id:
			out = append(out, [2]int64{kHandover, int64(id)})
		}
	}
	for id, n := range b.user {
		for k := a.user[id]; k < n; k++ {
			out = append(out, [2]int64{kUploadUser, int64(id)})
		}
	}
	return out
}

type txInfo struct {
	tx     *ethtypes.Transaction
	spec   *callSpec
	hashID int64
}

type winInfo struct {
	kind   int // 0 none, 1 tx, 2 err proof, 3 other
	tx     *txInfo
	status int64
}

// rcpt: one receipt as a validator reports it.  fields = what the model sees of it:
// [type; post state; status; cumulative gas; bloom; logs] (byte strings interned)
type rcpt struct {
	status int64
	bytes  []byte // Receipt.MarshalBinary
	fields [6]int64
	what   string
}

// report: what one validator hands in for one message
type report struct {
	kind  int // 1 transaction proof, 2 error proof, 3 another registered proof type
	tx    *txInfo
	rc    *rcpt // nil: no receipt bytes
	msg   string
	tag   int64 // kind 3: 3 validator balances, 4 reference block
	data  []byte
	any   *codectypes.Any
	ident string // the harness's own notion of "the same report", independent of BytesToHash
}

type valReport struct {
	val int // index into henv.vals; >= len(vals): an address outside the snapshot
	rep *report
}

func (rp *report) coq() string {
	switch rp.kind {
	case 1:
		rc := "None"
		if rp.rc != nil {
			f := make([]string, 6)
			for i, x := range rp.rc.fields {
				f[i] = emit.ZI(x)
			}
			rc = "(Some " + emit.List(f) + ")"
		}
		return fmt.Sprintf("(C07.XPTx %d %s %s)", rp.tx.hashID, rp.tx.spec.coq(), rc)
	case 2:
		return fmt.Sprintf("(C07.XPErr %d)", tab.id([]byte("err:"+rp.msg)))
	}
	return fmt.Sprintf("(C07.XPOther %d %d)", rp.tag, tab.id(rp.data))
}

func classify(err error) int {
	switch {
	case err == nil:
		return 0
	case errors.Is(err, evmtypes.ErrEthTxNotVerified):
		return 1
	case errors.Is(err, evmtypes.ErrEthTxFailed):
		return 2
	case strings.Contains(err.Error(), "is already processed"):
		return 3
	}
	return 4
}

func (e *henv) attestOne(t *testing.T, ctx sdk.Context, id uint64) (cls int, err error) {
	sq, err := e.evm.SupportedQueues(ctx)
	if err != nil {
		t.Fatal(err)
	}
	for _, qn := range e.queues {
		q, err := e.f.ConsensusKeeper.VerifC07Queue(ctx, qn)
		if err != nil {
			t.Fatal(err)
		}
		m, err := q.GetMsgByID(ctx, id)
		if err != nil {
			continue
		}
		for _, s := range sq {
			if s.QueueTypeName == qn {
				err = s.ProcessMessageForAttestation(ctx, q, m)
				return classify(err), err
			}
		}
		t.Fatal("turnstone queue not supported")
	}
	return 0, nil // no such message: the end-blocker would not see it either
}

type obsT struct {
	res       int
	queue     []uint64
	processed []int64
	relay     [][2]int64
	effects   [][2]int64
	urecs     []urecT
	live      [][2]int64 // (snapshot id, chain) per listing
	active    [][2]int64 // (chain, active compass contract id)
}

// urecT: one deployment record of a user contract: (contract id, chain, created, updated, status 0 in flight / 1 active / 2 error)
type urecT struct {
	cid, chain, created, updated, status int64
	addr                                 string
}

func coqUrecs(l []urecT) string {
	s := make([]string, len(l))
	for i, x := range l {
		s[i] = emit.Pair(emit.ZI(x.cid), emit.ZI(x.chain), emit.ZI(x.created), emit.ZI(x.updated), emit.ZI(x.status))
	}
	return emit.List(s)
}

// the deployment records of all user contracts, by contract id, per contract in store order
func (e *henv) userRecords() []urecT {
	var out []urecT
	for _, v := range e.vals {
		cs, _ := e.evm.UserSmartContracts(e.ctx, v.addr.String())
		for _, c := range cs {
			for _, d := range c.Deployments {
				ch := int64(-1)
				for i, n := range e.chains {
					if d.ChainReferenceId == n {
						ch = int64(i)
					}
				}
				out = append(out, urecT{int64(c.Id), ch, d.CreatedAtBlockHeight, d.UpdatedAtBlockHeight, int64(d.Status) - 1, d.Address})
			}
		}
	}
	sort.SliceStable(out, func(i, j int) bool { return out[i].cid < out[j].cid })
	return out
}

func (o obsT) coq() string {
	q := make([]string, len(o.queue))
	for i, x := range o.queue {
		q[i] = emit.ZU(x)
	}
	p := make([]string, len(o.processed))
	for i, x := range o.processed {
		p[i] = emit.ZI(x)
	}
	rl := make([]string, len(o.relay))
	for i, x := range o.relay {
		rl[i] = emit.Pair(emit.ZI(x[0]), emit.Bool(x[1] == 1))
	}
	ef := make([]string, len(o.effects))
	for i, x := range o.effects {
		ef[i] = emit.Pair(emit.ZI(x[0]), emit.ZI(x[1]))
	}
	return emit.Pair(emit.ZI(int64(o.res)), emit.List(q), emit.List(p), emit.List(rl), emit.List(ef), coqUrecs(o.urecs), coqPairs(o.live), coqPairs(o.active))
}

func coqSpawn(bs []*bodyT, ok bool) string {
	if !ok {
		return "None"
	}
	s := make([]string, len(bs))
	for i, b := range bs {
		s[i] = b.coq()
	}
	return "(Some " + emit.List(s) + ")"
}

type history struct {
	t       *testing.T
	run     *emit.Run
	e       *henv
	p       *pools
	steps   []string
	log     []string
	txs     []*txInfo
	win     map[uint64]winInfo  // message id -> what 2/3 of the current snapshot's shares reported identically (the harness's own count)
	reports map[uint64][]valReport // message id -> stored reports, in order of first submission
	reporter map[uint64]int        // message id -> the validator whose public access data is stored with it
	known   map[uint64]*bodyT   // bodies of queued messages as the model knows them
	effects [][2]int64          // cumulative, from store diffs
	usedTx  map[int64]uint64    // hash id -> message id it produced a follow-up / acceptance for
	done    map[uint64]bool     // message ids whose transaction has been accepted
	vsid    map[uint64]uint64   // message id -> public access valset id
	gas     map[uint64]uint64
	sigs    map[uint64][]sigE
	nAccept int
	nReject int
	nextID  uint64 // the id the model will hand out next (0: unknown yet)
	last    obsT   // the previous step's reading
	height  int64  // the block height the model knows
	started bool
	evmMod  evmmodule.AppModule
	consMod consensusmodule.AppModule
}

func (h *history) observe(res int) obsT {
	e := h.e
	o := obsT{res: res, effects: append([][2]int64{}, h.effects...)}
	for _, m := range e.queued(h.t) {
		o.queue = append(o.queue, m.id)
	}
	seen := map[int64]bool{}
	for _, x := range h.txs {
		if e.evm.VerifC07IsTxProcessed(e.ctx, x.tx) && !seen[x.hashID] {
			seen[x.hashID] = true
			o.processed = append(o.processed, x.hashID)
		}
	}
	sort.Slice(o.processed, func(i, j int) bool { return o.processed[i] < o.processed[j] })
	for _, v := range e.vals {
		hi, err := e.f.MetrixKeeper.GetValidatorHistory(e.ctx, v.addr)
		if err != nil || hi == nil {
			continue
		}
		for _, r := range hi.Records {
			s := int64(0)
			if r.Success {
				s = 1
			}
			o.relay = append(o.relay, [2]int64{int64(r.MessageId), s})
		}
	}
	sort.SliceStable(o.relay, func(i, j int) bool { return o.relay[i][0] < o.relay[j][0] })
	sort.Slice(o.effects, func(i, j int) bool {
		if o.effects[i][0] != o.effects[j][0] {
			return o.effects[i][0] < o.effects[j][0]
		}
		return o.effects[i][1] < o.effects[j][1]
	})
	o.urecs = e.userRecords()
	o.live, o.active = e.chainFacts(h.t)
	return o
}

func (h *history) record(op string, res int) {
	h.syncHeight()
	h.last = h.observe(res)
	h.steps = append(h.steps, emit.Pair(op, h.last.coq()))
}

// recordKeep: an operation that touches nothing but the user deployment records
func (h *history) recordKeep(op string) {
	o := h.last
	o.res = 0
	o.urecs = h.e.userRecords()
	h.last = o
	h.steps = append(h.steps, emit.Pair(op, o.coq()))
}

// syncHeight: the model learns the block height the operation just recorded ran at (its state is still the previous reading's)
func (h *history) syncHeight() {
	if now := h.e.ctx.BlockHeight(); now != h.height || !h.started {
		if !h.started {
			h.started, h.last = true, h.observeBefore()
			h.chainSync("set-up")
		}
		h.height = now
		o := h.last
		o.res = 0
		h.steps = append(h.steps, emit.Pair(fmt.Sprintf("C07.XHeight %d", now), o.coq()))
	}
}

// chainSync: the model is told which snapshots list which chain, the active compass per chain and the id of the current
// snapshot as they ARE (set-up; snapshots built between two operations)
func (h *history) chainSync(why string) {
	o := h.last
	o.res = 0
	o.live, o.active = h.e.chainFacts(h.t)
	h.last = o
	h.logf("%s: live=%v active=%v current snapshot=%d", why, o.live, o.active, h.e.lastSnap)
	h.steps = append(h.steps, emit.Pair(fmt.Sprintf("C07.XChainSync %s %s %d", coqPairs(o.live), coqPairs(o.active), h.e.lastSnap), o.coq()))
}

// the reading before the first operation: nothing queued, nothing processed, no records
func (h *history) observeBefore() obsT { return obsT{} }

// messages that appeared in the queue without the harness having put them there
func (h *history) spawnedSince(before map[uint64]bool) []*bodyT {
	var out []*bodyT
	for _, m := range h.e.queued(h.t) {
		if !before[m.id] {
			out = append(out, m.body)
			h.known[m.id] = m.body
			if m.id >= h.nextID {
				h.nextID = m.id + 1
			}
		}
	}
	return out
}

func (h *history) ids() map[uint64]bool {
	out := map[uint64]bool{}
	for _, m := range h.e.queued(h.t) {
		out[m.id] = true
	}
	return out
}

// the direct oracle on one attested message, from what the stores show
func (h *history) oracle(id uint64, b *bodyT, w winInfo, cls int, vsBefore vset, eff [][2]int64, wasProcessed bool) {
	replay := map[string]any{"part": "B", "seed": h.run.Seed, "history": append([]string{}, h.log...)}
	accepted := cls == 0 && w.kind == 1
	stateEffect := false
	for _, x := range eff {
		if x[0] == int64(b.Kind) && x[1] == int64(b.Key)+1000*int64(b.Chain) {
			stateEffect = true
		}
	}
	if w.kind == 1 {
		_, usedBefore := h.usedTx[w.tx.hashID] // the harness's own record, independent of the processed store
		ok := matches(b, id, h.gas[id], vsBefore, h.sigs[id], w.tx.spec)
		switch {
		case (accepted || stateEffect) && !ok:
			h.run.Violate("C07:effects-for-non-matching-tx", fmt.Sprintf("message %d (kind %d): a transaction whose call differs from the message's was accepted (class %d, store effect %v)", id, b.Kind, cls, stateEffect), replay)
		case (accepted || stateEffect) && w.status != 1:
			h.run.Violate("C07:effects-on-failed-receipt", fmt.Sprintf("message %d (kind %d): receipt status %d, yet accepted (class %d, store effect %v) -- reports: %s", id, b.Kind, w.status, cls, stateEffect, h.reportsLine(id)), replay)
		case (accepted || stateEffect) && (wasProcessed || usedBefore):
			h.run.Violate("C07:tx-accepted-twice", fmt.Sprintf("message %d (kind %d): transaction already used for message %d accepted again", id, b.Kind, h.usedTx[w.tx.hashID]), replay)
		}
		if accepted || stateEffect {
			if h.done[id] {
				h.run.Violate("C07:effects-twice", fmt.Sprintf("message %d (kind %d): success follow-up applied a second time", id, b.Kind), replay)
			}
			h.done[id] = true
			h.usedTx[w.tx.hashID] = id
			h.nAccept++
		} else {
			h.nReject++
		}
	} else if stateEffect {
		h.run.Violate("C07:effects-without-tx", fmt.Sprintf("message %d (kind %d): success follow-up without a transaction proof agreed on by 2/3 of the shares (reports: %s)", id, b.Kind, h.reportsLine(id)), replay)
	}
}

// oracleErrorProof: the agreed report is an error proof.  The remote call was NOT delivered: the only thing that
// may follow is the one retry of the same action (one more on its retry counter, at most two retries, fees cleared),
// never a second copy, never another action
func (h *history) oracleErrorProof(id uint64, b *bodyT, cls int, sp []*bodyT) {
	replay := map[string]any{"part": "B", "seed": h.run.Seed, "history": append([]string{}, h.log...)}
	bad := ""
	switch {
	case len(sp) > 1:
		bad = fmt.Sprintf("%d messages queued", len(sp))
	case len(sp) == 1 && (b.Kind == kUpdateValset || b.Kind == kHandover):
		bad = "a message queued for an action that is never retried"
	case len(sp) == 1 && b.Retries >= 2:
		bad = "retried beyond the limit"
	case len(sp) == 1:
		n := sp[0]
		// the same action: every field of the kind, fees and relayer aside (the retry is assigned anew, its fees are set later)
		x, y := *n, *b
		x.Relayer, y.Relayer = "", ""
		x.NoFees, y.NoFees = false, false
		x.Fees, y.Fees = [3]uint64{}, [3]uint64{}
		x.Retries = y.Retries
		same := n.Retries == b.Retries+1 && x.coq() == y.coq()
		if !same {
			bad = "the queued message is not the retry of the failed action"
		} else if (b.Kind == kSLC || b.Kind == kUploadUser) && !n.NoFees {
			bad = "the retry keeps the fees of the failed attempt"
		}
	}
	h.run.Count("B.error-proof", fmt.Sprintf("kind=%d retries=%d queued=%d", b.Kind, b.Retries, len(sp)))
	if bad != "" {
		h.run.Violate("C07:error-proof-follow-up", fmt.Sprintf("message %d (kind %d, retries %d): error proof agreed on, class %d: %s", id, b.Kind, b.Retries, cls, bad), replay)
	}
}

// oracleRecords: the success effect of a user contract upload is a write to the deployment record OF THAT MESSAGE --
// (contract id, chain, the height at which the deployment was put in flight), the first such record.  After attesting the
// messages ms nothing else may have changed among the user deployment records: not another deployment of the same
// contract, not another contract's, and nothing at all when no user contract upload was attested.
func (h *history) oracleRecords(before, after []urecT, ms []*bodyT, ids []uint64) {
	own := map[int]int{} // index of a record that may change -> index into ms
	for k, b := range ms {
		if b.Kind != kUploadUser {
			continue
		}
		for i, r := range before {
			if _, taken := own[i]; !taken && r.cid == int64(b.Key) && r.chain == int64(b.Chain) && r.created == b.Height {
				own[i] = k
				break
			}
		}
	}
	replay := map[string]any{"part": "B", "seed": h.run.Seed, "history": append([]string{}, h.log...)}
	if len(before) != len(after) {
		h.run.Violate("C07:effect-on-another-record", fmt.Sprintf("attesting messages %v changed the NUMBER of user deployment records (%d -> %d)", ids, len(before), len(after)), replay)
		return
	}
	for i := range before {
		if before[i] == after[i] {
			continue
		}
		if _, ok := own[i]; ok && before[i].cid == after[i].cid && before[i].chain == after[i].chain && before[i].created == after[i].created {
			continue
		}
		h.run.Violate("C07:effect-on-another-record", fmt.Sprintf("attesting messages %v (user uploads: %s) changed the deployment record (contract %d, chain %d, created at %d): status %d -> %d, address %q -> %q -- not the record of any of these messages",
			ids, describeUploads(ms), before[i].cid, before[i].chain, before[i].created, before[i].status, after[i].status, before[i].addr, after[i].addr), replay)
	}
}

func describeUploads(ms []*bodyT) string {
	var s []string
	for _, b := range ms {
		if b.Kind == kUploadUser {
			s = append(s, fmt.Sprintf("contract %d chain %d put in flight at %d", b.Key, b.Chain, b.Height))
		}
	}
	return strings.Join(s, "; ")
}

// oracleUnagreed: attestRouter ran on one message for which 2/3 of the shares agree on no transaction
// proof and no error proof: nothing may be concluded from the reports, the message must still be queued
func (h *history) oracleUnagreed(id uint64, b *bodyT, w winInfo, cls int, stillQueued bool) {
	if (w.kind == 0 || w.kind == 3) && !stillQueued {
		replay := map[string]any{"part": "B", "seed": h.run.Seed, "history": append([]string{}, h.log...)}
		h.run.Violate("C07:attested-without-agreed-evidence", fmt.Sprintf("message %d (kind %d): attested and dropped (class %d) although no transaction or error proof was reported identically by 2/3 of the shares (reports: %s)", id, b.Kind, cls, h.reportsLine(id)), replay)
	}
}

// the transaction types of the vendored go-ethereum (v1.13: no set-code transactions yet); a blob transaction travels
// either in its canonical form or in the network form that carries the sidecar -- same transaction, same hash, other bytes
const (
	txLegacy = iota
	txAccessList
	txDynamicFee
	txBlob
	txBlobSidecar
)

var txTypeNames = []string{"legacy", "access-list", "dynamic-fee", "blob", "blob+sidecar"}

func (h *history) addTx(spec *callSpec, nonce uint64) *txInfo {
	typ := []int{txLegacy, txAccessList, txDynamicFee, txDynamicFee, txDynamicFee, txBlob, txBlobSidecar}[h.run.Rng.Intn(7)]
	return h.addTxOf(spec, nonce, typ)
}

func (h *history) addTxOf(spec *callSpec, nonce uint64, typ int) *txInfo {
	data, err := spec.pack()
	if err != nil {
		h.t.Fatal(err)
	}
	key := h.e.vals[0].key
	to := common.HexToAddress("0x00000000000000000000000000000000000c0de1")
	var pto *common.Address
	if spec.Method != 5 {
		pto = &to
	} else if typ >= txBlob {
		typ = txDynamicFee // a blob transaction cannot create a contract
	}
	var inner ethtypes.TxData
	switch typ {
	case txLegacy:
		inner = &ethtypes.LegacyTx{Nonce: nonce, Gas: 21000, GasPrice: big.NewInt(1), To: pto, Data: data}
	case txAccessList:
		inner = &ethtypes.AccessListTx{ChainID: big.NewInt(4242), Nonce: nonce, Gas: 21000, GasPrice: big.NewInt(1), To: pto, Data: data}
	case txDynamicFee:
		inner = &ethtypes.DynamicFeeTx{ChainID: big.NewInt(4242), Nonce: nonce, Gas: 21000, GasFeeCap: big.NewInt(1), GasTipCap: big.NewInt(1), To: pto, Data: data}
	default:
		sc := &ethtypes.BlobTxSidecar{Blobs: []kzg4844.Blob{{}}, Commitments: []kzg4844.Commitment{{}}, Proofs: []kzg4844.Proof{{}}}
		bt := &ethtypes.BlobTx{ChainID: uint256.NewInt(4242), Nonce: nonce, Gas: 21000, GasFeeCap: uint256.NewInt(1), GasTipCap: uint256.NewInt(1), To: to, Data: data,
			BlobFeeCap: uint256.NewInt(1), BlobHashes: sc.BlobHashes()}
		if typ == txBlobSidecar {
			bt.Sidecar = sc
		}
		inner = bt
	}
	tx, err := ethtypes.SignNewTx(key, ethtypes.NewCancunSigner(big.NewInt(4242)), inner)
	if err != nil {
		h.t.Fatal(err)
	}
	// the bytes must survive the trip through the proof
	bz, err := tx.MarshalBinary()
	if err != nil {
		h.t.Fatal(err)
	}
	var back ethtypes.Transaction
	if err := back.UnmarshalBinary(bz); err != nil || back.Hash() != tx.Hash() {
		h.t.Fatalf("transaction of type %s does not round-trip: %v", txTypeNames[typ], err)
	}
	h.run.Count("B.tx-type", txTypeNames[typ])
	x := &txInfo{tx: tx, spec: spec, hashID: tab.id(tx.Hash().Bytes())}
	h.txs = append(h.txs, x)
	return x
}

// otherForm: the same blob transaction in its other serialisation (with / without the sidecar); any other transaction as it is
func (h *history) otherForm(x *txInfo) *txInfo {
	if x.tx.Type() != ethtypes.BlobTxType || x.tx.BlobTxSidecar() == nil {
		return x
	}
	y := &txInfo{tx: x.tx.WithoutBlobTxSidecar(), spec: x.spec, hashID: x.hashID}
	h.txs = append(h.txs, y)
	return y
}

// receipt variants: what a validator may report about one transaction
const (
	rvPlain   = iota // status as given, the logs the follow-up needs, gas 21000, typed
	rvLogs           // one more log
	rvGas            // another cumulative gas
	rvLegacy         // serialised without the EIP-2718 type prefix
	rvPost           // pre-Byzantium: a post state root instead of the status (decodes as status 0)
	rvNoBloom        // empty bloom
)

var rvNames = []string{"plain", "logs", "gas", "legacy", "poststate", "bloom"}

func (h *history) receipt(x *txInfo, b *bodyT, status int64, variant int) *rcpt {
	rc := &ethtypes.Receipt{Type: x.tx.Type(), Status: uint64(status), CumulativeGasUsed: 21000, Logs: []*ethtypes.Log{}}
	if b.Kind == kUploadUser {
		// the ContractDeployed(child, deployer, event_id) log the follow-up reads the address from
		data, err := compassABI.Events["ContractDeployed"].Inputs.Pack(common.HexToAddress("0x00000000000000000000000000000000000c41d1"), common.HexToAddress(b.Deployer), big.NewInt(7))
		if err != nil {
			h.t.Fatal(err)
		}
		rc.Logs = append(rc.Logs, &ethtypes.Log{Topics: []common.Hash{crypto.Keccak256Hash([]byte("ContractDeployed(address,address,uint256)"))}, Data: data})
	}
	switch variant {
	case rvLogs:
		rc.Logs = append(rc.Logs, &ethtypes.Log{Address: common.HexToAddress("0x00000000000000000000000000000000000c0de1"), Topics: []common.Hash{crypto.Keccak256Hash([]byte("Other()"))}})
	case rvGas:
		rc.CumulativeGasUsed = 21001
	case rvLegacy:
		rc.Type = ethtypes.LegacyTxType
	case rvPost:
		rc.PostState = crypto.Keccak256([]byte("state"))
	}
	rc.Bloom = ethtypes.CreateBloom(ethtypes.Receipts{rc})
	if variant == rvNoBloom {
		rc.Bloom = ethtypes.Bloom{}
	}
	bz, err := rc.MarshalBinary()
	if err != nil {
		h.t.Fatal(err)
	}
	// what a node decoding these bytes sees (the attester's view)
	var dec ethtypes.Receipt
	if err := dec.UnmarshalBinary(bz); err != nil {
		h.t.Fatal(err)
	}
	out := &rcpt{status: int64(dec.Status), bytes: bz, what: fmt.Sprintf("status=%d/%s", dec.Status, rvNames[variant])}
	post := int64(0)
	if len(dec.PostState) > 0 {
		post = tab.id(dec.PostState)
	}
	var logs bytes.Buffer
	for _, l := range dec.Logs {
		logs.Write(l.Address.Bytes())
		for _, tp := range l.Topics {
			logs.Write(tp.Bytes())
		}
		logs.WriteByte(0xff)
		logs.Write(l.Data)
		logs.WriteByte(0xfe)
	}
	out.fields = [6]int64{int64(dec.Type), post, int64(dec.Status), int64(dec.CumulativeGasUsed), tab.id(dec.Bloom.Bytes()), tab.id(logs.Bytes())}
	return out
}

func (h *history) txReport(x *txInfo, rc *rcpt) *report {
	stx, err := x.tx.MarshalBinary()
	if err != nil {
		h.t.Fatal(err)
	}
	pr := &evmtypes.TxExecutedProof{SerializedTX: stx}
	ident := fmt.Sprintf("tx/%d/none", x.hashID)
	if rc != nil {
		pr.SerializedReceipt = rc.bytes
		ident = fmt.Sprintf("tx/%d/%x", x.hashID, rc.bytes)
	}
	a, err := codectypes.NewAnyWithValue(pr)
	if err != nil {
		h.t.Fatal(err)
	}
	return &report{kind: 1, tx: x, rc: rc, any: a, ident: ident}
}

func (h *history) errReport(msg string) *report {
	a, err := codectypes.NewAnyWithValue(&evmtypes.SmartContractExecutionErrorProof{ErrorMessage: msg})
	if err != nil {
		h.t.Fatal(err)
	}
	return &report{kind: 2, msg: msg, any: a, ident: "err/" + msg}
}

// another registered proof type: never a reason for a success follow-up
func (h *history) otherReport(which int, n int64) *report {
	var a *codectypes.Any
	var err error
	rp := &report{kind: 3}
	if which == 0 {
		a, err = codectypes.NewAnyWithValue(&evmtypes.ValidatorBalancesAttestationRes{BlockHeight: uint64(n), Balances: []string{"1", "2"}})
		rp.tag, rp.data = 3, []byte(fmt.Sprintf("balances/%d", n))
	} else {
		a, err = codectypes.NewAnyWithValue(&evmtypes.ReferenceBlockAttestationRes{BlockHeight: uint64(n), BlockHash: "0xabc"})
		rp.tag, rp.data = 4, []byte(fmt.Sprintf("refblock/%d", n))
	}
	if err != nil {
		h.t.Fatal(err)
	}
	rp.any, rp.ident = a, string(rp.data)
	return rp
}

func (h *history) valAddress(i int) sdk.ValAddress {
	if i < len(h.e.vals) {
		return h.e.vals[i].addr
	}
	return valAddr(i) // nobody's validator: not in the snapshot
}

// submit: the real AddMessageEvidence, validator by validator in the given order; the model gets
// the same submissions; the harness's own count of who reported what is updated
func (h *history) submit(id uint64, rp *report, who []int) {
	var ok []string
	for _, i := range who {
		qn := h.e.queue
		if b := h.known[id]; b != nil {
			qn = h.e.queues[b.Chain]
		}
		err := h.e.f.ConsensusKeeper.AddMessageEvidence(h.e.ctx, h.valAddress(i), &consensustypes.MsgAddEvidence{Proof: rp.any, MessageID: id, QueueTypeName: qn})
		if err != nil {
			h.t.Fatalf("AddMessageEvidence: %v", err)
		}
		ok = append(ok, emit.ZI(int64(i)))
		found := false
		for k := range h.reports[id] {
			if h.reports[id][k].val == i {
				h.reports[id][k].rep, found = rp, true
			}
		}
		if !found {
			h.reports[id] = append(h.reports[id], valReport{i, rp})
		}
	}
	h.win[id] = h.agreed(id)
	h.record(fmt.Sprintf("C07.XAddEv %d %s %s", id, emit.List(ok), rp.coq()), 0)
}

// agreed: the report that validators holding 2/3 of the current snapshot's shares handed in
// IDENTICALLY (same transaction and same receipt bytes / same error message), by the harness's own
// count -- it knows nothing of BytesToHash or of the grouping inside VerifyEvidence
func (h *history) agreed(id uint64) winInfo {
	sum := map[string]int64{}
	rep := map[string]*report{}
	for _, vr := range h.reports[id] {
		if vr.val < len(h.e.shares) {
			sum[vr.rep.ident] += h.e.shares[vr.val]
		}
		rep[vr.rep.ident] = vr.rep
	}
	for k, p := range sum {
		if 3*p >= 2*h.e.total {
			rp := rep[k]
			switch rp.kind {
			case 1:
				st := int64(-1)
				if rp.rc != nil {
					st = rp.rc.status
				}
				return winInfo{kind: 1, tx: rp.tx, status: st}
			case 2:
				return winInfo{kind: 2}
			}
			return winInfo{kind: 3}
		}
	}
	return winInfo{}
}

func (h *history) rcName(rc *rcpt) string {
	if rc == nil {
		return "no-receipt"
	}
	return rc.what
}

func (h *history) reportsLine(id uint64) string {
	var s []string
	for _, vr := range h.reports[id] {
		w := vr.rep.ident
		if vr.rep.kind == 1 {
			w = fmt.Sprintf("tx#%d", vr.rep.tx.hashID)
			if vr.rep.rc != nil {
				w += "/" + vr.rep.rc.what
			} else {
				w += "/no-receipt"
			}
		}
		s = append(s, fmt.Sprintf("v%d:%s", vr.val, w))
	}
	return strings.Join(s, " ")
}

func runHistory(t *testing.T, run *emit.Run, idx int) {
	r := run.Rng
	live := r.Intn(5) != 0
	e := newEnv(t, r, live)
	p := newPools(r)
	h := &history{t: t, run: run, e: e, p: p, win: map[uint64]winInfo{}, reports: map[uint64][]valReport{}, reporter: map[uint64]int{}, known: map[uint64]*bodyT{}, usedTx: map[int64]uint64{}, done: map[uint64]bool{},
		vsid: map[uint64]uint64{}, gas: map[uint64]uint64{}, sigs: map[uint64][]sigE{}}
	logf := func(f string, a ...any) { h.log = append(h.log, fmt.Sprintf(f, a...)) }
	logf("env live=%v snapshots=%v", live, e.snaps)

	// anything the set-up itself queued (valset updates published on snapshot build) is part of the initial state
	var snaps []string
	for _, id := range e.snaps {
		v, _ := e.snapVS(id)
		snaps = append(snaps, emit.Pair(emit.ZU(id), v.coq()))
	}
	first := uint64(0)
	pre := e.queued(t)
	for _, m := range pre {
		h.known[m.id] = m.body
	}
	// first id the queue will hand out: probe by putting and removing one message
	{
		b := p.body(kSLC)
		id, err := e.f.ConsensusKeeper.PutMessageInQueue(e.ctx, e.queue, b.message(chainName, e.vals[0].addr.String()), &consensus.PutOptions{RequireSignatures: true, RequireGasEstimation: true})
		if err != nil {
			t.Fatal(err)
		}
		if err := e.q(t).Remove(e.ctx, id); err != nil {
			t.Fatal(err)
		}
		first = id + 1
	}
	// whatever the set-up itself queued is dropped: the model starts from an empty queue
	for _, m := range pre {
		_ = e.q(t).Remove(e.ctx, m.id)
		delete(h.known, m.id)
	}
	n0 := first
	h.nextID = n0
	h.evmMod = evmmodule.NewAppModule(e.f.Codec, *e.evm, nil, nil)
	h.consMod = consensusmodule.NewAppModule(e.f.Codec, e.f.ConsensusKeeper, nil, nil)

	userContracts := map[uint64]int64{} // user contract id -> deployment height
	nops := 16 + r.Intn(14)
	var nonce uint64
	for step := 0; step < nops; step++ {
		qs := e.queued(t)
		pick := func() (qmsg, bool) {
			if len(qs) == 0 {
				return qmsg{}, false
			}
			return qs[r.Intn(len(qs))], true
		}
		if r.Intn(100) < 7 { // blocks pass, end-blockers run
			h.advance()
			continue
		}
		op := 22 + r.Intn(78)
		if len(qs) < 4 && r.Intn(100) < 30-6*len(qs) {
			op = 0
		}
		withWinner := func() (qmsg, bool) {
			var c []qmsg
			for _, m := range qs {
				if h.win[m.id].kind != 0 {
					c = append(c, m)
				}
			}
			if len(c) == 0 || r.Intn(6) == 0 {
				return pick()
			}
			return c[r.Intn(len(c))], true
		}
		unsignedFirst := func() (qmsg, bool) {
			var c []qmsg
			for _, m := range qs {
				if len(h.sigs[m.id]) < 2 {
					c = append(c, m)
				}
			}
			if len(c) == 0 || r.Intn(3) == 0 {
				return pick()
			}
			return c[r.Intn(len(c))], true
		}
		noWinner := func() (qmsg, bool) {
			var c []qmsg
			for _, m := range qs {
				if h.win[m.id].kind == 0 {
					c = append(c, m)
				}
			}
			if len(c) == 0 || r.Intn(3) == 0 {
				return pick()
			}
			return c[r.Intn(len(c))], true
		}
		switch {
		case op < 22 || len(qs) == 0: // enqueue
			kind := []int{kSLC, kSLC, kUpdateValset, kUpdateValset, kUploadCompass, kHandover, kUploadUser}[r.Intn(7)]
			b := p.body(kind)
			b.Relayer = e.vals[r.Intn(len(e.vals))].eth.Hex()
			if kind == kSLC || kind == kUploadUser || kind == kUploadCompass {
				b.Retries = []uint32{0, 0, 0, 1, 2, 2}[r.Intn(6)] // a retry of an earlier attempt; 2 = the limit is reached
			}
			switch kind {
			case kUpdateValset: // the valset to install: one of the stored snapshots (or, rarely, an unknown id)
				sid := e.snaps[r.Intn(len(e.snaps))]
				if v, ok := e.snapVS(sid); ok && r.Intn(10) != 0 {
					b.NewVS, b.Key = v, sid
				}
			case kUploadCompass:
				sc, err := e.evm.SaveNewSmartContract(e.ctx, compassABIJSON, b.Bytecode)
				if err != nil {
					t.Fatal(err)
				}
				b.Key = sc.Id
				if r.Intn(6) != 0 {
					ci, _ := e.evm.GetChainInfo(e.ctx, chainName)
					e.evm.VerifC07CreateDeployment(e.ctx, sc, ci, []byte(fmt.Sprintf("uid-%d", sc.Id)))
				}
			case kHandover:
				// hand over to a contract whose deployment waits for it (if any), else to an arbitrary id
				for id, st := range e.factsOf(t, 0).deploy {
					if st == evmtypes.SmartContractDeployment_WAITING_FOR_ERC20_OWNERSHIP_TRANSFER.String() {
						b.Key = id
					}
				}
			case kUploadUser:
				author := e.vals[r.Intn(len(e.vals))].addr
				cid, err := e.evm.SaveUserSmartContract(e.ctx, author.String(), &evmtypes.UserSmartContract{Title: "t", AbiJson: "[]", Bytecode: "0x6080", ConstructorInput: "0x"})
				if err == nil {
					before := h.ids()
					nrec := len(e.userRecords())
					_, derr := e.evm.CreateUserSmartContractDeployment(e.ctx, author.String(), cid, chainName)
					if len(e.userRecords()) > nrec { // a deployment record was written (also when queueing the message failed afterwards)
						h.syncHeight()
						h.recordKeep(fmt.Sprintf("C07.XUserDeploy %d 0", cid))
					}
					// the keeper may have queued its own upload message: make it known to the model first
					h.reconcile(before, fmt.Sprintf("CreateUserSmartContractDeployment (err=%v)", derr))
					if len(h.ids()) > len(before) { // one upload message per user deployment: the keeper's own is the subject
						continue
					}
					userContracts[cid] = e.ctx.BlockHeight()
					b.Key, b.Sender, b.Height = cid, author, e.ctx.BlockHeight()
				}
			}
			id, err := e.f.ConsensusKeeper.PutMessageInQueue(e.ctx, e.queue, b.message(chainName, e.vals[0].addr.String()), &consensus.PutOptions{RequireSignatures: true, RequireGasEstimation: true})
			if err != nil {
				t.Fatalf("PutMessageInQueue: %v", err)
			}
			h.noteID(id)
			h.known[id] = b
			logf("enqueue id=%d kind=%d key=%d", id, kind, b.Key)
			run.Count("B.op", "enqueue")
			run.Count("B.kind", fmt.Sprint(kind))
			h.record("C07.XEnqueue "+b.coq(), 0)
		case op < 44: // a validator signs (late signatures arrive one by one, in this order)
			m, _ := unsignedFirst()
			v := e.vals[r.Intn(len(e.vals))]
			sg, err := e.sign(m.raw, v)
			if err != nil {
				continue
			}
			err = e.f.ConsensusKeeper.AddMessageSignature(e.ctx, v.addr, []*consensustypes.ConsensusMessageSignature{{Id: m.id, QueueTypeName: e.queue, Signature: sg, SignedByAddress: v.eth.Hex()}})
			if err != nil {
				run.Count("B.op", "sign-rejected")
				continue
			}
			h.sigs[m.id] = append(h.sigs[m.id], sigE{v.eth, sg})
			logf("sign id=%d by %s", m.id, v.eth.Hex())
			run.Count("B.op", "sign")
			h.record(fmt.Sprintf("C07.XSign %d %s", m.id, emit.Pair(emit.ZI(addrID(v.eth)), emit.ZI(tab.id(sg)))), 0)
		case op < 47: // elected gas estimate
			m, _ := pick()
			g := 1 + uint64(r.Intn(1_000_000))
			if err := e.q(t).SetElectedGasEstimate(e.ctx, m.id, g); err != nil {
				continue
			}
			h.gas[m.id] = g
			h.sigs[m.id] = nil // SetElectedGasEstimate restarts the signing
			logf("gas id=%d %d", m.id, g)
			run.Count("B.op", "gas")
			h.record(fmt.Sprintf("C07.XGas %d %d", m.id, g), 0)
		case op < 54: // public access data names the valset the relayer used
			m, _ := pick()
			vid := []uint64{0, e.snaps[0], e.snaps[len(e.snaps)-1], e.snaps[len(e.snaps)-1], 77}[r.Intn(5)]
			rep := r.Intn(len(e.vals)) // ANY validator may report the delivery, not only the one the message is assigned to
			err := e.f.ConsensusKeeper.SetMessagePublicAccessData(e.ctx, e.vals[rep].addr, &consensustypes.MsgSetPublicAccessData{MessageID: m.id, QueueTypeName: e.queue, Data: []byte{1}, ValsetID: vid})
			if err != nil {
				continue
			}
			if _, set := h.vsid[m.id]; !set { // the first public access data stays
				h.vsid[m.id] = vid
				h.reporter[m.id] = rep
			}
			logf("public access id=%d valset=%d reported by v%d", m.id, vid, rep)
			run.Count("B.op", "valset")
			h.record(fmt.Sprintf("C07.XValset %d %d", m.id, vid), 0)
		case op < 57: // fees set after the estimate election: the body is replaced under the same id
			m, _ := pick()
			b := *h.known[m.id]
			if b.Kind != kSLC && b.Kind != kUploadUser {
				continue
			}
			b.Fees, b.NoFees = [3]uint64{p.fee(), p.fee(), p.fee()}, false
			if _, err := e.f.ConsensusKeeper.PutMessageInQueue(e.ctx, e.queue, b.message(chainName, e.vals[0].addr.String()), &consensus.PutOptions{MsgIDToReplace: m.id}); err != nil {
				t.Fatal(err)
			}
			h.known[m.id] = &b
			logf("replace id=%d", m.id)
			run.Count("B.op", "replace")
			h.record(fmt.Sprintf("C07.XReplace %d %s", m.id, b.coq()), 0)
		case op < 78: // evidence: the validators report, one by one
			m, _ := noWinner()
			if r.Intn(4) == 0 {
				m, _ = pick()
			}
			b := h.known[m.id]
			if b.NoFees {
				run.Count("B.op", "evidence-for-message-without-fees")
			}
			vs := vset{}
			if vid := h.vsid[m.id]; vid != 0 {
				vs, _ = e.snapVS(vid)
			}
			sigs := h.sigs[m.id]
			// a transaction for this message: the right one (some admissible prefix), a corrupted one, one seen before, the right call in a fresh transaction
			someTx := func() (*txInfo, string) {
				if rep, ok := h.reporter[m.id]; ok && r.Intn(5) == 0 && !strings.EqualFold(e.vals[rep].eth.Hex(), b.Relayer) && b.Kind != kUploadCompass {
					// the exact call of the message, except that it pays the validator that REPORTED the delivery instead of the assignee
					c := b.correct(m.id, h.gas[m.id], vs, sigs, len(sigs))
					c.Relayer = e.vals[rep].eth
					nonce++
					return h.addTx(c, nonce), "correct-but-relayer=reporter"
				}
				switch k := r.Intn(12); {
				case k < 5:
					i := len(sigs)
					if i > 0 && r.Intn(2) == 0 {
						i = 1 + r.Intn(i)
					}
					nonce++
					return h.addTx(b.correct(m.id, h.gas[m.id], vs, sigs, i), nonce), fmt.Sprintf("correct prefix=%d/%d", i, len(sigs))
				case k < 8:
					c := b.correct(m.id, h.gas[m.id], vs, sigs, len(sigs))
					fs := fieldsOf(c.Method)
					for j, n := 0, 1+r.Intn(2); j < n; j++ {
						p.corrupt(c, fs[r.Intn(len(fs))])
					}
					nonce++
					return h.addTx(c, nonce), "corrupted"
				case k < 10 && len(h.txs) > 0:
					return h.txs[r.Intn(len(h.txs))], "reused"
				}
				nonce++
				return h.addTx(b.correct(m.id, h.gas[m.id], vs, sigs, len(sigs)), nonce), "correct-fresh"
			}
			someReceipt := func(x *txInfo) *rcpt {
				switch r.Intn(8) {
				case 0:
					return h.receipt(x, b, 0, rvPlain)
				case 1:
					return nil // no receipt bytes
				}
				return h.receipt(x, b, 1, rvPlain)
			}
			order := r.Perm(len(e.vals))
			if r.Intn(6) == 0 { // somebody who is no validator reports too
				k := r.Intn(len(order) + 1)
				order = append(order[:k:k], append([]int{len(e.vals) + 3}, order[k:]...)...)
			}
			mode := r.Intn(24)
			switch {
			case mode < 7: // everybody reports the same transaction proof
				x, what := someTx()
				rc := someReceipt(x)
				rp := h.txReport(x, rc)
				logf("evidence id=%d unanimous tx(%s) hash#%d %s by %v", m.id, what, x.hashID, h.rcName(rc), order)
				run.Count("B.evidence", strings.SplitN(what, " ", 2)[0]+" "+h.rcName(rc))
				h.submit(m.id, rp, order)
			case mode < 15: // one transaction, two receipts: the validators disagree about what happened to it
				x, what := someTx()
				if r.Intn(3) != 0 && !strings.HasPrefix(what, "correct") { // mostly about the right transaction: that is where a wrong status matters
					nonce++
					x, what = h.addTx(b.correct(m.id, h.gas[m.id], vs, sigs, len(sigs)), nonce), "correct"
				}
				stA := int64(r.Intn(2))
				if r.Intn(3) == 0 {
					stA = 0
				}
				var rcA, rcB *rcpt
				rcA = h.receipt(x, b, stA, rvPlain)
				diff := "status"
				switch k := r.Intn(12); {
				case k < 6:
					rcB = h.receipt(x, b, 1-stA, rvPlain)
				case k == 6:
					rcB, diff = h.receipt(x, b, stA, rvLogs), "logs"
				case k == 7:
					rcB, diff = h.receipt(x, b, stA, rvGas), "gas"
				case k == 8:
					rcB, diff = h.receipt(x, b, stA, rvLegacy), "type"
				case k == 9:
					rcB, diff = h.receipt(x, b, stA, rvPost), "poststate"
				case k == 10:
					rcB, diff = h.receipt(x, b, stA, rvNoBloom), "bloom"
				default:
					rcB, diff = nil, "absent"
				}
				// who dissents (reports B): a non-empty proper subset of the reporters, mostly one of them
				nd := 1
				if r.Intn(3) == 0 {
					nd = 1 + r.Intn(len(order)-1)
				}
				pos := r.Perm(len(order))[:nd]
				isD := map[int]bool{}
				for _, k := range pos {
					isD[order[k]] = true
				}
				var maj, dis []int
				for _, v := range order {
					if isD[v] {
						dis = append(dis, v)
					} else {
						maj = append(maj, v)
					}
				}
				rpA, rpB := h.txReport(x, rcA), h.txReport(x, rcB)
				when := "first"
				switch r.Intn(4) {
				case 0:
					when = "last"
				case 1:
					when = "between"
				}
				logf("evidence id=%d tx(%s) hash#%d receipts differ in %s: %v report %s, %v report %s (dissent %s)", m.id, what, x.hashID, diff, maj, h.rcName(rcA), dis, h.rcName(rcB), when)
				run.Count("B.evidence", "disagree:"+diff+" dissent-"+when)
				switch when {
				case "first":
					h.submit(m.id, rpB, dis)
					h.submit(m.id, rpA, maj)
				case "last":
					h.submit(m.id, rpA, maj)
					h.submit(m.id, rpB, dis)
				default:
					k := r.Intn(len(maj) + 1)
					if k > 0 {
						h.submit(m.id, rpA, maj[:k])
					}
					h.submit(m.id, rpB, dis)
					if k < len(maj) {
						h.submit(m.id, rpA, maj[k:])
					}
				}
			case mode < 17: // one or two validators report (or change their mind): evidence accumulates over several steps
				who := order[:1+r.Intn(2)]
				var rp *report
				if prev := h.reports[m.id]; len(prev) > 0 && r.Intn(2) == 0 {
					rp = prev[r.Intn(len(prev))].rep // join somebody else's report
				} else {
					x, _ := someTx()
					rp = h.txReport(x, someReceipt(x))
				}
				logf("evidence id=%d partial %v report %s", m.id, who, rp.ident[:min(len(rp.ident), 24)])
				run.Count("B.evidence", "partial")
				h.submit(m.id, rp, who)
			case mode < 20: // error proof; below the retry limit the action is queued again by the keeper (learnt from the stores)
				msg := fmt.Sprintf("boom-%d", r.Intn(3))
				if r.Intn(4) == 0 { // two error messages
					logf("evidence id=%d error proofs, split", m.id)
					run.Count("B.evidence", "error-proof split")
					h.submit(m.id, h.errReport(msg), order[:1])
					h.submit(m.id, h.errReport(msg+"!"), order[1:])
				} else {
					logf("evidence id=%d error proof retries=%d", m.id, b.Retries)
					run.Count("B.evidence", fmt.Sprintf("error-proof retries=%d", b.Retries))
					h.submit(m.id, h.errReport(msg), order)
				}
			case mode < 21: // a registered proof type that is neither: nothing may follow from it
				rp := h.otherReport(r.Intn(2), int64(1+r.Intn(3)))
				logf("evidence id=%d other proof type %s", m.id, rp.ident)
				run.Count("B.evidence", "other-proof-type")
				h.submit(m.id, rp, order)
			default: // two transactions, no consensus
				nonce++
				x1 := h.addTx(b.correct(m.id, h.gas[m.id], vs, sigs, len(sigs)), nonce)
				nonce++
				x2 := h.addTx(b.correct(m.id, h.gas[m.id], vs, sigs, len(sigs)), nonce)
				logf("evidence id=%d split between two transactions", m.id)
				run.Count("B.evidence", "split")
				h.submit(m.id, h.txReport(x1, h.receipt(x1, b, 1, rvPlain)), []int{0, 3})
				h.submit(m.id, h.txReport(x2, h.receipt(x2, b, 1, rvPlain)), []int{1, 2})
			}
			logf("  reports id=%d: %s => agreed kind=%d status=%d", m.id, h.reportsLine(m.id), h.win[m.id].kind, h.win[m.id].status)
			run.Count("B.op", "evidence")
			run.Count("B.agreed", fmt.Sprintf("kind=%d status=%d", h.win[m.id].kind, h.win[m.id].status))
		case op < 95: // attestRouter on one message
			m, _ := withWinner()
			h.attestMsg(m)
		default: // the consensus end-blocker loop
			h.endBlock(false)
		}
		if step%5 == 4 {
			e.ctx = e.ctx.WithBlockHeight(e.ctx.BlockHeight() + 1).WithBlockTime(e.ctx.BlockTime().Add(6 * time.Second))
		}
	}
	run.Count("B.history", fmt.Sprintf("live=%v", live))
	run.Count("B.accepted", fmt.Sprint(min(h.nAccept, 3)))
	run.Case(fmt.Sprintf("C07.CHistory %s %d %s %d %s", emit.List(snaps), n0, e.coqShares(), e.total, emit.List(h.steps)), h.nAccept > 0 && h.nReject > 0,
		map[string]any{"history": h.log})
	_ = bytes.Equal
	_ = json.Marshal
}


// attestMsg: the real attestRouter on one queued message, every oracle, the step for the model
func (h *history) attestMsg(m qmsg) int {
	t, e, run := h.t, h.e, h.run
	b, w := h.known[m.id], h.win[m.id]
	vs := vset{}
	if vid := h.vsid[m.id]; vid != 0 {
		vs, _ = e.snapVSOn(vid, b.Chain)
	}
	was := w.kind == 1 && e.evm.VerifC07IsTxProcessed(e.ctx, w.tx.tx)
	before, f0 := h.ids(), e.facts(t)
	recs0 := e.userRecords()
	live0, active0 := e.chainFacts(t)
	cls, err := e.attestOne(t, e.ctx, m.id)
	h.oracleRecords(recs0, e.userRecords(), []*bodyT{b}, []uint64{m.id})
	{
		live1, active1 := e.chainFacts(t)
		good := cls == 0 && w.kind == 1 && w.status == 1 && !was && matches(b, m.id, h.gas[m.id], vs, h.sigs[m.id], w.tx.spec)
		h.oracleChainFacts(m.id, b, good, live0, active0, live1, active1)
	}
	eff := diffFacts(f0, e.facts(t))
	h.effects = append(h.effects, eff...)
	for _, x := range eff { // whatever success follow-up the stores show must be THIS message's: its kind, its record
		if x[0] != int64(b.Kind) || x[1] != int64(b.Key)+1000*int64(b.Chain) {
			h.run.Violate("C07:effect-on-another-record", fmt.Sprintf("attesting message %d (kind %d, key %d, chain %d) produced the success follow-up (kind %d, record %d) -- the record of another contract / message", m.id, b.Kind, b.Key, b.Chain, x[0], x[1]),
				map[string]any{"part": "B", "seed": h.run.Seed, "history": append([]string{}, h.log...)})
		}
	}
	sp := h.spawnedSince(before)
	h.logf("attest id=%d -> class %d (%v) effects=%v spawned=%d", m.id, cls, err, eff, len(sp))
	run.Count("B.op", "attest")
	run.Count("B.attest", fmt.Sprintf("kind=%d winner=%d class=%d", b.Kind, w.kind, cls))
	if w.kind == 1 && w.status == 1 && !was && (cls == 1) == matches(b, m.id, h.gas[m.id], vs, h.sigs[m.id], w.tx.spec) {
		cm, _ := m.raw.ConsensusMsg(e.f.Codec)
		t.Logf("DISAGREE id=%d cls=%d kind=%d gas=%d/%d vsid=%d nsigs=%d/%d pad=%v stored=%+v", m.id, cls, b.Kind, h.gas[m.id], m.raw.GetGasEstimate(), h.vsid[m.id], len(h.sigs[m.id]), len(m.raw.GetSignData()), m.raw.GetPublicAccessData(), cm)
	}
	h.oracle(m.id, b, w, cls, vs, eff, was)
	h.oracleUnagreed(m.id, b, w, cls, h.ids()[m.id])
	if w.kind == 2 {
		h.oracleErrorProof(m.id, b, cls, sp)
	}
	e.checkSnapshot(t)
	if w.kind == 1 && (cls == 1 || cls == 2) { // refused for good: count what the relayer's metrix record says (observation only:
		// the record is not one of the success effects the property lists; the model follows the code and X compares it)
		for _, rr := range h.observe(cls).relay {
			if rr[0] == int64(m.id) {
				run.Count("B.relay-record-for-refused-tx", fmt.Sprintf("success=%v", rr[1] == 1))
			}
		}
	}
	h.record(fmt.Sprintf("C07.XAttest %d %s", m.id, coqSpawn(sp, cls != 4)), cls)
	return cls
}

// ---------- scripted pieces shared by the scenarios ----------

func (h *history) msgByID(id uint64) (qmsg, bool) {
	for _, m := range h.e.queued(h.t) {
		if m.id == id {
			return m, true
		}
	}
	return qmsg{}, false
}

// put: the harness queues a message of its own on the body's chain
func (h *history) put(b *bodyT) uint64 {
	e := h.e
	id, err := e.f.ConsensusKeeper.PutMessageInQueue(e.ctx, e.queues[b.Chain], b.message(e.chains[b.Chain], e.vals[0].addr.String()), &consensus.PutOptions{RequireSignatures: true, RequireGasEstimation: true})
	if err != nil {
		h.t.Fatalf("PutMessageInQueue: %v", err)
	}
	h.noteID(id)
	h.known[id] = b
	h.logf("enqueue id=%d kind=%d key=%d chain=%d", id, b.Kind, b.Key, b.Chain)
	h.record("C07.XEnqueue "+b.coq(), 0)
	return id
}

// replaceBody: the body of a queued message is replaced under the same id (fees set after the estimate election)
func (h *history) replaceBody(id uint64, b *bodyT) {
	e := h.e
	if _, err := e.f.ConsensusKeeper.PutMessageInQueue(e.ctx, e.queues[b.Chain], b.message(e.chains[b.Chain], e.vals[0].addr.String()), &consensus.PutOptions{MsgIDToReplace: id}); err != nil {
		h.t.Fatal(err)
	}
	h.known[id] = b
	h.logf("replace id=%d", id)
	h.record(fmt.Sprintf("C07.XReplace %d %s", id, b.coq()), 0)
}

func (h *history) publicAccess(id uint64, vid uint64) {
	e := h.e
	qn := e.queues[h.known[id].Chain]
	rep := h.run.Rng.Intn(len(e.vals))
	if err := e.f.ConsensusKeeper.SetMessagePublicAccessData(e.ctx, e.vals[rep].addr, &consensustypes.MsgSetPublicAccessData{MessageID: id, QueueTypeName: qn, Data: []byte{1}, ValsetID: vid}); err != nil {
		h.t.Fatal(err)
	}
	if _, set := h.vsid[id]; !set {
		h.vsid[id] = vid
		h.reporter[id] = rep
	}
	h.logf("public access id=%d valset=%d", id, vid)
	mv := vid
	if vid != 0 { // the model files the projection of snapshot vid for chain c under vid + 1000 c
		mv = vid + 1000*uint64(h.known[id].Chain)
	}
	h.record(fmt.Sprintf("C07.XValset %d %d", id, mv), 0)
}

func (h *history) signBy(id uint64, k int) {
	e := h.e
	m, ok := h.msgByID(id)
	if !ok {
		h.t.Fatalf("message %d not queued", id)
	}
	v := e.vals[k]
	ch := h.known[id].Chain
	_, acct := v.on(ch)
	sg, err := e.signOn(m.raw, v, ch)
	if err != nil {
		h.t.Fatal(err)
	}
	qn := e.queues[ch]
	if err := e.f.ConsensusKeeper.AddMessageSignature(e.ctx, v.addr, []*consensustypes.ConsensusMessageSignature{{Id: id, QueueTypeName: qn, Signature: sg, SignedByAddress: acct.Hex()}}); err != nil {
		h.t.Fatal(err)
	}
	h.sigs[id] = append(h.sigs[id], sigE{acct, sg})
	h.logf("sign id=%d by v%d (chain %d account %s)", id, k, ch, acct.Hex())
	h.record(fmt.Sprintf("C07.XSign %d %s", id, emit.Pair(emit.ZI(addrID(acct)), emit.ZI(tab.id(sg)))), 0)
}

// the right transaction for a queued message: its call with the first i collected signatures
func (h *history) rightTx(id uint64, i int, nonce uint64) *txInfo {
	vs := vset{}
	if vid := h.vsid[id]; vid != 0 {
		vs, _ = h.e.snapVSOn(vid, h.known[id].Chain)
	}
	return h.addTx(h.known[id].correct(id, h.gas[id], vs, h.sigs[id], i), nonce)
}

func (h *history) everybodyReports(id uint64, x *txInfo, status int64) {
	h.logf("evidence id=%d hash#%d status=%d by everybody", id, x.hashID, status)
	h.submit(id, h.txReport(x, h.receipt(x, h.known[id], status, rvPlain)), h.run.Rng.Perm(len(h.e.vals)))
}

func (h *history) bumpHeight(d int64) {
	h.e.ctx = h.e.ctx.WithBlockHeight(h.e.ctx.BlockHeight() + d).WithBlockTime(h.e.ctx.BlockTime().Add(time.Duration(d) * 6 * time.Second))
	h.logf("height -> %d", h.e.ctx.BlockHeight())
}

func newScenario(t *testing.T, run *emit.Run, live, two bool) (*history, []string, uint64) {
	r := run.Rng
	e := newEnvChains(t, r, live, two)
	h := &history{t: t, run: run, e: e, p: newPools(r), win: map[uint64]winInfo{}, reports: map[uint64][]valReport{}, reporter: map[uint64]int{}, known: map[uint64]*bodyT{}, usedTx: map[int64]uint64{}, done: map[uint64]bool{},
		vsid: map[uint64]uint64{}, gas: map[uint64]uint64{}, sigs: map[uint64][]sigE{}}
	var snaps []string
	for ci := range e.chains {
		for _, id := range e.snaps {
			v, _ := e.snapVSOn(id, ci)
			snaps = append(snaps, emit.Pair(emit.ZU(id+1000*uint64(ci)), v.coq()))
		}
	}
	for _, m := range e.queued(t) {
		_ = e.q(t).Remove(e.ctx, m.id)
		if len(e.queues) > 1 {
			if qb, err := e.f.ConsensusKeeper.VerifC07Queue(e.ctx, e.queues[1]); err == nil {
				_ = qb.Remove(e.ctx, m.id)
			}
		}
	}
	// first id the queue will hand out: probe by putting and removing one message
	b := h.p.body(kSLC)
	id, err := e.f.ConsensusKeeper.PutMessageInQueue(e.ctx, e.queue, b.message(chainName, e.vals[0].addr.String()), &consensus.PutOptions{RequireSignatures: true, RequireGasEstimation: true})
	if err != nil {
		t.Fatal(err)
	}
	if err := e.q(t).Remove(e.ctx, id); err != nil {
		t.Fatal(err)
	}
	h.nextID = id + 1
	h.evmMod = evmmodule.NewAppModule(e.f.Codec, *e.evm, nil, nil)
	h.consMod = consensusmodule.NewAppModule(e.f.Codec, e.f.ConsensusKeeper, nil, nil)
	h.logf("scenario env live=%v chains=%v snapshots=%v", live, e.chains, e.snaps)
	return h, snaps, id + 1
}

func (h *history) finish(snaps []string, n0 uint64) {
	h.run.Case(fmt.Sprintf("C07.CHistory %s %d %s %d %s", emit.List(snaps), n0, h.e.coqShares(), h.e.total, emit.List(h.steps)), true, map[string]any{"history": h.log})
}

// runUserTwice: ONE user contract deployed TWICE to the same chain.  The first deployment is settled (its message attested
// with its transaction, or with an error proof beyond the retry limit) in the very block in which the second one is
// requested (or, as a control, in another block); later the second message's own successful transaction is attested.
// The success effect must land on the second message's own record: (contract, chain, height at which IT was put in flight).
func runUserTwice(t *testing.T, run *emit.Run) {
	r := run.Rng
	h, snaps, n0 := newScenario(t, run, true, false)
	e := h.e
	author := e.vals[r.Intn(len(e.vals))].addr
	cid, err := e.evm.SaveUserSmartContract(e.ctx, author.String(), &evmtypes.UserSmartContract{Title: "t", AbiJson: "[]", Bytecode: "0x6080", ConstructorInput: "0x"})
	if err != nil {
		t.Fatal(err)
	}
	var nonce uint64
	deploy := func() (uint64, bool) {
		before := h.ids()
		nrec := len(e.userRecords())
		_, derr := e.evm.CreateUserSmartContractDeployment(e.ctx, author.String(), cid, chainName)
		h.logf("user contract %d: deployment requested at height %d (err=%v)", cid, e.ctx.BlockHeight(), derr)
		if len(e.userRecords()) > nrec {
			h.syncHeight()
			h.recordKeep(fmt.Sprintf("C07.XUserDeploy %d 0", cid))
		}
		h.reconcile(before, "CreateUserSmartContractDeployment")
		for id := range h.ids() {
			if !before[id] {
				return id, true
			}
		}
		return 0, false
	}
	// settle: the message gets its fees, the relayer's valset, signatures, evidence, and is attested
	settle := func(id uint64, ok bool) int {
		b := *h.known[id]
		b.Fees, b.NoFees = [3]uint64{h.p.fee(), h.p.fee(), h.p.fee()}, false
		if !ok {
			b.Retries = 2 // the last retry: an error proof now marks the deployment failed for good
		}
		h.replaceBody(id, &b)
		h.publicAccess(id, e.snaps[len(e.snaps)-1])
		signers := r.Perm(len(e.vals))[:1+r.Intn(3)]
		for _, k := range signers {
			h.signBy(id, k)
		}
		if ok {
			nonce++
			h.everybodyReports(id, h.rightTx(id, 1+r.Intn(len(signers)), nonce), 1)
		} else {
			h.logf("evidence id=%d error proof by everybody", id)
			h.submit(id, h.errReport("boom"), r.Perm(len(e.vals)))
		}
		m, _ := h.msgByID(id)
		return h.attestMsg(m)
	}
	m1, ok1 := deploy()
	h.bumpHeight(1 + int64(r.Intn(3)))
	firstOK := r.Intn(2) == 0
	c1, c2 := -1, -1
	if ok1 {
		c1 = settle(m1, firstOK)
	}
	sameBlock := r.Intn(4) != 0
	if !sameBlock {
		h.bumpHeight(1)
	}
	m2, ok2 := deploy() // requested in the block in which the first one was settled
	h.bumpHeight(1 + int64(r.Intn(3)))
	if ok2 {
		c2 = settle(m2, true)
	}
	if r.Intn(2) == 0 { // and once more
		if m3, ok3 := deploy(); ok3 {
			h.bumpHeight(1)
			settle(m3, r.Intn(2) == 0)
		}
	}
	run.Count("B.user-twice", fmt.Sprintf("first-ok=%v same-block=%v classes=%d/%d", firstOK, sameBlock, c1, c2))
	h.finish(snaps, n0)
}

// runSameTx: ONE remote transaction offered to TWO messages, for every action type.  Two messages with the same action are
// queued (for update_valset, the handover and the compass upload the expected call carries no message id: the very same call
// data; for the upload also as a roll-out of one contract to TWO chains in the same block), signed by the same validators,
// the first one's transaction is accepted, then handed in for the second (must be refused: already used), then the second
// gets a transaction of its own.
func runSameTx(t *testing.T, run *emit.Run, variant int) {
	r := run.Rng
	two := variant == 2
	h, snaps, n0 := newScenario(t, run, variant != 2 || r.Intn(2) == 0, two)
	e := h.e
	var b1, b2 *bodyT
	mk := func(kind int) *bodyT {
		b := h.p.body(kind)
		b.Relayer = e.vals[0].eth.Hex()
		return b
	}
	compassDeployment := h.compassDeployment
	name := ""
	switch variant {
	case 0: // compass handover, same forwarded calls / deadline; first a compass upload is accepted, so that a deployment waits for the handover
		name = "handover"
		b0 := mk(kUploadCompass)
		b0.Key = compassDeployment(b0.Bytecode, 0)
		id0 := h.put(b0)
		h.everybodyReports(id0, h.rightTx(id0, 0, 7), 1)
		if m0, ok := h.msgByID(id0); ok {
			h.attestMsg(m0)
		}
		for _, m := range e.queued(t) { // the handover the keeper scheduled itself is not the subject here
			_ = e.q(t).Remove(e.ctx, m.id)
			h.logf("removed id=%d", m.id)
			delete(h.known, m.id)
			h.record(fmt.Sprintf("C07.XRemove %d", m.id), 0)
		}
		b1 = mk(kHandover)
		b1.Key = b0.Key
		c := *b1
		b2 = &c
	case 1: // two compass contracts with the same code, both in flight on one chain
		name = "upload-same-chain"
		b1 = mk(kUploadCompass)
		b1.Key = compassDeployment(b1.Bytecode, 0)
		c := *b1
		b2 = &c
		b2.Key = compassDeployment(b1.Bytecode, 0)
	case 2: // one compass contract rolled out to two chains in the same block
		name = "upload-two-chains"
		b1 = mk(kUploadCompass)
		b1.Key = compassDeployment(b1.Bytecode, 0, 1)
		c := *b1
		b2 = &c
		b2.Chain = 1
	case 3:
		name = "logic-call"
		b1 = mk(kSLC)
		c := *b1
		b2 = &c
	default: // user contract upload: the keeper's own message for a real deployment, and a copy of it
		name = "user-upload"
	}
	var id1, id2 uint64
	if variant >= 4 {
		// two user contracts, each deployed to the chain in this block: the keeper's own two upload messages
		deploy := func() uint64 {
			author := e.vals[r.Intn(len(e.vals))].addr
			cid, err := e.evm.SaveUserSmartContract(e.ctx, author.String(), &evmtypes.UserSmartContract{Title: "t", AbiJson: "[]", Bytecode: "0x6080", ConstructorInput: "0x"})
			if err != nil {
				t.Fatal(err)
			}
			before := h.ids()
			if _, err := e.evm.CreateUserSmartContractDeployment(e.ctx, author.String(), cid, chainName); err != nil {
				t.Fatal(err)
			}
			h.syncHeight()
			h.recordKeep(fmt.Sprintf("C07.XUserDeploy %d 0", cid))
			h.reconcile(before, "CreateUserSmartContractDeployment")
			for id := range h.ids() {
				if !before[id] {
					b := *h.known[id]
					b.Fees, b.NoFees = [3]uint64{h.p.fee(), h.p.fee(), h.p.fee()}, false
					h.replaceBody(id, &b)
					return id
				}
			}
			t.Fatal("the keeper queued no upload message")
			return 0
		}
		id1, id2 = deploy(), deploy()
	} else {
		id1, id2 = h.put(b1), h.put(b2)
	}
	vid := e.snaps[r.Intn(len(e.snaps))]
	signers := r.Perm(len(e.vals))[:1+r.Intn(3)]
	for _, id := range []uint64{id1, id2} {
		h.publicAccess(id, vid)
		for _, k := range signers {
			h.signBy(id, k)
		}
	}
	i := 1 + r.Intn(len(signers))
	x1 := h.rightTx(id1, i, 1)
	if r.Intn(3) == 0 && x1.spec.Method != 5 { // the delivery was made with a blob transaction, reported in the network form
		x1 = h.addTxOf(x1.spec, 1, txBlobSidecar)
	}
	attest := func(id uint64) int {
		m, ok := h.msgByID(id)
		if !ok {
			return -1
		}
		return h.attestMsg(m)
	}
	h.everybodyReports(id1, x1, 1)
	c1 := attest(id1)
	if r.Intn(3) == 0 {
		h.bumpHeight(1 + int64(r.Intn(400)))
	}
	if r.Intn(2) == 0 {
		h.everybodyReports(id2, h.otherForm(x1), 1) // the transaction of the first message, for the second (a blob transaction in its other form)
	} else {
		h.everybodyReports(id2, x1, 1) // the transaction of the first message, for the second
	}
	c2 := attest(id2)
	c3 := -1
	if _, still := h.msgByID(id2); still {
		h.everybodyReports(id2, h.rightTx(id2, i, 2), 1)
		c3 = attest(id2)
	}
	run.Count("B.same-tx", fmt.Sprintf("%s first=%d same=%d own=%d", name, c1, c2, c3))
	if variant == 0 || variant == 3 {
		h.reporterPays(b1)
	}
	h.finish(snaps, n0)
}

// compassDeployment: governance rolls a compass contract out to the given chains (deployment records IN_FLIGHT)
func (h *history) compassDeployment(code []byte, chains ...int) uint64 {
	e := h.e
	sc, err := e.evm.SaveNewSmartContract(e.ctx, compassABIJSON, code)
	if err != nil {
		h.t.Fatal(err)
	}
	for _, ci := range chains {
		info, err := e.evm.GetChainInfo(e.ctx, e.chains[ci])
		if err != nil {
			h.t.Fatal(err)
		}
		e.evm.VerifC07CreateDeployment(e.ctx, sc, info, []byte(fmt.Sprintf("uid-%d", e.ctx.BlockHeight()))) // unique id = block height: the same on every chain
	}
	return sc.Id
}

// oracleChainFacts: a snapshot newly listed on a chain / a new active compass are the success effects of update_valset and of
// the compass handover: they need THAT message's proving transaction.  The one exception is the compass upload that really is
// the first deployment on a chain -- no stored snapshot lists the chain, by the harness's own scan of all snapshots.
func (h *history) oracleChainFacts(id uint64, b *bodyT, good bool, live0, active0, live1, active1 [][2]int64) {
	noLiveBefore := true
	cnt := map[[2]int64]int{}
	for _, x := range live0 {
		cnt[x]--
		if x[1] == int64(b.Chain) {
			noLiveBefore = false
		}
	}
	for _, x := range live1 {
		cnt[x]++
	}
	replay := map[string]any{"part": "B", "seed": h.run.Seed, "history": append([]string{}, h.log...)}
	for x, n := range cnt {
		if n == 0 {
			continue
		}
		ok := n == 1 && good && int64(b.Chain) == x[1] &&
			((b.Kind == kUpdateValset && int64(b.Key) == x[0]) || (b.Kind == kUploadCompass && noLiveBefore && uint64(x[0]) == h.e.lastSnap))
		if !ok {
			h.run.Violate("C07:effects-without-proving-tx", fmt.Sprintf("attesting message %d (kind %d, key %d, chain %d, its own transaction accepted: %v): snapshot %d is now listed on chain %d (%+d) -- no update_valset for it was proved, and snapshots %v already listed a chain before",
				id, b.Kind, b.Key, b.Chain, good, x[0], x[1], n, live0), replay)
		}
	}
	act := func(l [][2]int64, ch int64) int64 {
		for _, x := range l {
			if x[0] == ch {
				return x[1]
			}
		}
		return 0
	}
	for ci := range h.e.chains {
		a0, a1 := act(active0, int64(ci)), act(active1, int64(ci))
		if a0 == a1 {
			continue
		}
		ok := good && b.Chain == ci && int64(b.Key) == a1 && (b.Kind == kHandover || (b.Kind == kUploadCompass && noLiveBefore))
		if !ok {
			h.run.Violate("C07:effects-without-proving-tx", fmt.Sprintf("attesting message %d (kind %d, key %d, chain %d, its own transaction accepted: %v): the active compass of chain %d changed %d -> %d -- no compass handover was proved, and the chain was live before (listings %v)",
				id, b.Kind, b.Key, b.Chain, good, ci, a0, a1, live0), replay)
		}
	}
}

// runUpgrade: a chain with an active compass whose live snapshot falls further and further behind (the validator set keeps
// changing, no update_valset is proved for the chain), then a compass UPGRADE is rolled out and its deployment transaction
// attested: the new compass must wait for its handover, and the current snapshot must not become live, however many
// snapshots lie in between.  Control: a chain that really has no live snapshot (first deployment).
func runUpgrade(t *testing.T, run *emit.Run) {
	r := run.Rng
	live := r.Intn(5) != 0
	h, snaps, n0 := newScenario(t, run, live, false)
	e := h.e
	k := []int{0, 3, 126, 127, 128, 140}[r.Intn(6)]
	for i := 0; i < k; i++ {
		sn, err := e.f.ValsetKeeper.VerifCreateNewSnapshot(e.ctx)
		if err != nil {
			t.Fatal(err)
		}
		if err := e.f.ValsetKeeper.VerifSetSnapshotAsCurrent(e.ctx, sn); err != nil {
			t.Fatal(err)
		}
		e.lastSnap = sn.Id
	}
	h.bumpHeight(int64(1 + k))
	h.syncHeight()
	if k > 0 {
		h.chainSync(fmt.Sprintf("%d snapshots built, none published to the chain", k))
	}
	b := h.p.body(kUploadCompass)
	b.Relayer = e.vals[0].eth.Hex()
	b.Key = h.compassDeployment(b.Bytecode, 0)
	id := h.put(b)
	if r.Intn(3) == 0 {
		// the stuck deployment is removed (the admin escape hatch) while its message is still queued, and a NEWER compass is
		// rolled out: the old message's transaction must not be booked on the new contract's deployment record
		e.evm.DeleteSmartContractDeploymentByContractID(e.ctx, b.Key, chainName)
		nb := h.p.body(kUploadCompass)
		newer := h.compassDeployment(nb.Bytecode, 0)
		h.logf("deployment of contract %d removed, newer compass %d rolled out", b.Key, newer)
		run.Count("B.upgrade", "superseded")
	}
	h.everybodyReports(id, h.rightTx(id, 0, 1), 1)
	m, _ := h.msgByID(id)
	cls := h.attestMsg(m)
	_, act := e.chainFacts(t)
	run.Count("B.upgrade", fmt.Sprintf("live=%v snapshots-behind=%d class=%d activated-at-once=%v", live, k, cls, len(act) > 0 && act[0][1] == int64(b.Key)))
	// the scheduled handover (if any) gets its own transaction
	for _, q := range e.queued(t) {
		if q.body.Kind == kHandover && q.body.Key == b.Key {
			h.publicAccess(q.id, e.snaps[0])
			h.signBy(q.id, r.Intn(len(e.vals)))
			h.everybodyReports(q.id, h.rightTx(q.id, 1, 2), 1)
			mq, _ := h.msgByID(q.id)
			h.attestMsg(mq)
		}
	}
	h.finish(snaps, n0)
}

// reporterPays: ANY validator may report a delivery (SetPublicAccessData).  A message assigned to one validator, its delivery
// reported by ANOTHER one (valid valset id), and evidence for a transaction that is the exact call of the message except that
// it names the REPORTER's account as the relayer to be paid: not the call the message carries, must be refused.
func (h *history) reporterPays(b0 *bodyT) int {
	e, r := h.e, h.run.Rng
	b := *b0
	b.Relayer = e.vals[0].eth.Hex()
	id := h.put(&b)
	rep := 1 + r.Intn(len(e.vals)-1)
	vid := e.snaps[r.Intn(len(e.snaps))]
	qn := e.queues[b.Chain]
	if err := e.f.ConsensusKeeper.SetMessagePublicAccessData(e.ctx, e.vals[rep].addr, &consensustypes.MsgSetPublicAccessData{MessageID: id, QueueTypeName: qn, Data: []byte{1}, ValsetID: vid}); err != nil {
		h.t.Fatal(err)
	}
	h.vsid[id], h.reporter[id] = vid, rep
	h.logf("public access id=%d valset=%d reported by v%d (assigned to v0)", id, vid, rep)
	h.record(fmt.Sprintf("C07.XValset %d %d", id, vid), 0)
	signers := r.Perm(len(e.vals))[:1+r.Intn(3)]
	for _, k := range signers {
		h.signBy(id, k)
	}
	vs, _ := e.snapVS(vid)
	c := b.correct(id, h.gas[id], vs, h.sigs[id], 1+r.Intn(len(signers)))
	c.Relayer = e.vals[rep].eth
	x := h.addTx(c, 9)
	h.logf("evidence id=%d: the message's call, but relayer = the reporter's account", id)
	h.submit(id, h.txReport(x, h.receipt(x, &b, 1, rvPlain)), r.Perm(len(e.vals)))
	m, _ := h.msgByID(id)
	cls := h.attestMsg(m)
	h.run.Count("B.reporter-pays", fmt.Sprintf("kind=%d class=%d", b.Kind, cls))
	return cls
}

// queryValset: the real GetValsetByID query (what every pigeon asks before it signs or relays): the answer must be the
// projection of that snapshot for THAT chain
func (h *history) queryValset(vid uint64, chain int) {
	e := h.e
	resp, err := e.evm.GetValsetByID(e.ctx, &evmtypes.QueryGetValsetByIDRequest{ValsetID: vid, ChainReferenceID: e.chains[chain]})
	if err != nil {
		h.t.Fatalf("GetValsetByID: %v", err)
	}
	want, _ := e.snapVSOn(vid, chain)
	got := vset{ID: resp.Valset.ValsetID, Pows: resp.Valset.Powers}
	for _, a := range resp.Valset.Validators {
		got.Vals = append(got.Vals, common.HexToAddress(a))
	}
	h.logf("query GetValsetByID(%d, chain %d)", vid, chain)
	h.run.Count("B.op", "query-valset")
	if got.coq() != want.coq() {
		h.run.Violate("C07:valset-of-another-chain", fmt.Sprintf("GetValsetByID(valset %d, chain %d) answers with accounts that are not the validators' accounts on that chain", vid, chain),
			map[string]any{"part": "B", "seed": h.run.Seed, "history": append([]string{}, h.log...)})
	}
}

// runTwoChains: two EVM chains on which every validator uses a DIFFERENT account.  Messages on both chains name the SAME
// snapshot in their public access data; attestations and GetValsetByID queries for the two chains are interleaved.  The call a
// message of chain B expects carries chain B's accounts: a transaction with chain A's validator set must be refused for it,
// its own transaction accepted -- whatever was projected for the other chain before.
func runTwoChains(t *testing.T, run *emit.Run) {
	r := run.Rng
	h, snaps, n0 := newScenario(t, run, true, true)
	e := h.e
	vid := e.snaps[r.Intn(len(e.snaps))]
	kind := []int{kUpdateValset, kUpdateValset, kSLC, kHandover}[r.Intn(4)]
	mkOn := func(chain int) uint64 {
		b := h.p.body(kind)
		b.Chain = chain
		_, acct := e.vals[0].on(chain)
		b.Relayer = acct.Hex()
		if kind == kUpdateValset {
			sid := e.snaps[r.Intn(len(e.snaps))]
			b.NewVS, _ = e.snapVSOn(sid, chain)
			b.Key = sid
		}
		id := h.put(b)
		h.publicAccess(id, vid)
		for _, k := range r.Perm(len(e.vals))[:1+r.Intn(3)] {
			h.signBy(id, k)
		}
		return id
	}
	order := []int{0, 1}
	if r.Intn(3) == 0 {
		order = []int{1, 0}
	}
	var nonce uint64
	for round := 0; round < 2; round++ {
		for _, ch := range order {
			if r.Intn(2) == 0 {
				h.queryValset(vid, r.Intn(2))
			}
			id := mkOn(ch)
			b := h.known[id]
			foreign := r.Intn(3) == 0
			var x *txInfo
			nonce++
			if foreign { // the message's call, but with the OTHER chain's projection of the same snapshot (and signatures filed under it)
				ovs, _ := e.snapVSOn(vid, 1-ch)
				x = h.addTx(b.correct(id, h.gas[id], ovs, h.sigs[id], len(h.sigs[id])), nonce)
			} else {
				x = h.rightTx(id, 1+r.Intn(len(h.sigs[id])), nonce)
			}
			h.everybodyReports(id, x, 1)
			m, _ := h.msgByID(id)
			cls := h.attestMsg(m)
			run.Count("B.two-chains", fmt.Sprintf("kind=%d chain=%d foreign-valset=%v class=%d", kind, ch, foreign, cls))
		}
		h.queryValset(vid, r.Intn(2))
	}
	h.finish(snaps, n0)
}

// endBlock: the attestation loop of the consensus end-blocker.  full=false calls the public
// CheckAndProcessAttestedMessages; full=true calls the consensus module's EndBlock (estimates,
// attestation loop, pruning of messages older than 300 blocks every 50 blocks).
func (h *history) endBlock(full bool) {
	t, e, run := h.t, h.e, h.run
	qs := e.queued(t)
	// dry run on a cache context, message by message, to learn which follow-ups fail / what they queue
	cctx, _ := e.ctx.CacheContext()
	var envs []string
	aborted := false
	type pend struct {
		m   qmsg
		w   winInfo
		vs  vset
		was bool
	}
	var ps []pend
	for _, m := range qs {
		w := h.win[m.id]
		vs := vset{}
		if vid := h.vsid[m.id]; vid != 0 {
			vs, _ = e.snapVS(vid)
		}
		was := w.kind == 1 && e.evm.VerifC07IsTxProcessed(cctx, w.tx.tx)
		bq, _ := e.f.ConsensusKeeper.GetMessagesFromQueue(cctx, e.queue, 0)
		bids := map[uint64]bool{}
		for _, x := range bq {
			bids[x.GetId()] = true
		}
		if !bids[m.id] {
			continue
		}
		cls, _ := e.attestOne(t, cctx, m.id)
		aq, _ := e.f.ConsensusKeeper.GetMessagesFromQueue(cctx, e.queue, 0)
		var sp []*bodyT
		for _, x := range aq {
			if !bids[x.GetId()] {
				cm, _ := x.ConsensusMsg(e.f.Codec)
				if sb, ok := projectBody(cm.(*evmtypes.Message)); ok {
					sp = append(sp, sb)
				}
			}
		}
		envs = append(envs, emit.Pair(emit.ZU(m.id), coqSpawn(sp, cls != 4)))
		ps = append(ps, pend{m, w, vs, was})
		if cls != 0 { // logged; the loop goes on with the next message
			aborted = true
		}
	}
	before, f0 := h.ids(), e.facts(t)
	recs0 := e.userRecords()
	var err error
	real := e.ctx
	if full {
		// the whole consensus end-blocker (estimates, attestation loop, pruning every 50 blocks) runs below; the state
		// right after its attestation loop is the dry run's, which is what this step is compared on
		_ = aborted // the end-blocker returns nil whatever happened to single messages
		e.ctx = cctx
	} else {
		err = e.f.ConsensusKeeper.CheckAndProcessAttestedMessages(e.ctx)
	}
	f1 := e.facts(t)
	{
		var bs []*bodyT
		var is []uint64
		for _, x := range ps {
			bs, is = append(bs, h.known[x.m.id]), append(is, x.m.id)
		}
		h.oracleRecords(recs0, e.userRecords(), bs, is)
	}
	eff := diffFacts(f0, f1)
	h.effects = append(h.effects, eff...)
	h.spawnedSince(before)
	res := 0
	if err != nil {
		res = 4
	}
	after := h.ids()
	// oracle per message.  Store effects are attributed first to the removed messages whose
	// transaction is the right one (receipt ok, not used before), then to anybody else removed
	// or kept -- any attribution of the second kind is a violation.
	pool := append([][2]int64{}, eff...)
	take := func(b *bodyT) [][2]int64 {
		for i, y := range pool {
			if y[0] == int64(b.Kind) && y[1] == int64(b.Key)+1000*int64(b.Chain) {
				pool = append(pool[:i], pool[i+1:]...)
				return [][2]int64{y}
			}
		}
		return nil
	}
	good := func(x pend) bool {
		b := h.known[x.m.id]
		return x.w.kind == 1 && x.w.status == 1 && !x.was && matches(b, x.m.id, h.gas[x.m.id], x.vs, h.sigs[x.m.id], x.w.tx.spec)
	}
	for pass := 0; pass < 2; pass++ {
		for _, x := range ps {
			b := h.known[x.m.id]
			if good(x) != (pass == 0) {
				continue
			}
			removed := !after[x.m.id]
			var mine [][2]int64
			if removed || pass == 1 {
				mine = take(b)
			}
			switch {
			case pass == 0 && removed: // accepted (class 0); for kinds without store effect removal is all there is to see
				h.oracle(x.m.id, b, x.w, 0, x.vs, mine, x.was)
			case pass == 1 && len(mine) > 0:
				cls := 4
				if removed {
					cls = 1
				}
				h.oracle(x.m.id, b, x.w, cls, x.vs, mine, x.was)
			case pass == 1 && removed && x.w.kind == 1:
				h.nReject++
			}
		}
	}
	h.logf("end-block full=%v -> err=%v effects=%v", full, err, eff)
	run.Count("B.op", fmt.Sprintf("endblock full=%v", full))
	h.record("C07.XEndBlock "+emit.List(envs), res)
	if full {
		afterLoop := h.ids()
		e.ctx = real
		if err := h.consMod.EndBlock(e.ctx); err != nil {
			t.Fatalf("consensus EndBlock: %v", err)
		}
		h.reconcile(afterLoop, "consensus end-blocker pruning")
	}
}

// reconcile: whatever an end-blocker did to the queue besides attesting is replayed into the
// model as plain removals / enqueues (ids consumed by other queues are skipped)
func (h *history) reconcile(before map[uint64]bool, what string) {
	now := h.e.queued(h.t)
	nowIDs := map[uint64]bool{}
	for _, m := range now {
		nowIDs[m.id] = true
	}
	var gone []string
	for id := range before {
		if !nowIDs[id] {
			gone = append(gone, emit.ZU(id))
			delete(h.known, id)
		}
	}
	if len(gone) > 0 {
		sort.Slice(gone, func(i, j int) bool { return len(gone[i]) < len(gone[j]) || (len(gone[i]) == len(gone[j]) && gone[i] < gone[j]) })
		h.logf("%s removed %v", what, gone)
		h.run.Count("B.op", "removed-by-end-blocker")
		h.record("C07.XRemoveMany "+emit.List(gone), 0)
	}
	for _, m := range now {
		if !before[m.id] {
			h.noteID(m.id)
			h.known[m.id] = m.body
			h.logf("%s queued id=%d kind=%d", what, m.id, m.body.Kind)
			h.run.Count("B.op", "enqueue-by-end-blocker")
			h.record("C07.XEnqueue "+m.body.coq(), 0)
		}
	}
}

// noteID: the queue is about to show a message with this id; ids the shared counter handed to other
// queues in between are skipped in the model
func (h *history) noteID(id uint64) {
	if h.nextID != 0 && id > h.nextID {
		h.logf("ids %d..%d went to other queues", h.nextID, id-1)
		o := h.last // the message is already in the real queue: the skip is compared on the previous reading
		o.res = 0
		h.steps = append(h.steps, emit.Pair(fmt.Sprintf("C07.XSkip %d", id-h.nextID), o.coq()))
	}
	h.nextID = id + 1
}

// syncIDs: ask the shared id counter (on a discarded cache context) what it would hand out next
func (h *history) syncIDs() {
	cctx, _ := h.e.ctx.CacheContext()
	b := h.p.body(kUpdateValset)
	b.Relayer = h.e.vals[0].eth.Hex()
	id, err := h.e.f.ConsensusKeeper.PutMessageInQueue(cctx, h.e.queue, b.message(chainName, h.e.vals[0].addr.String()), &consensus.PutOptions{RequireSignatures: true})
	if err != nil {
		h.t.Fatal(err)
	}
	if h.nextID != 0 && id > h.nextID {
		h.logf("ids %d..%d went to other queues", h.nextID, id-1)
		h.record(fmt.Sprintf("C07.XSkip %d", id-h.nextID), 0)
		h.nextID = id
	}
}

func (h *history) logf(f string, a ...any) { h.log = append(h.log, fmt.Sprintf(f, a...)) }

var jumps = []int64{1, 1, 300, blocks.DailyHeight, blocks.MonthlyHeight - 1, blocks.MonthlyHeight, blocks.MonthlyHeight + 1, 10 * blocks.MonthlyHeight}

// advance: blocks pass (boundary-biased jump, sometimes aligned to the periods the end-blockers
// use), then the evm and the consensus end-blockers run at the new height
func (h *history) advance() {
	e, r := h.e, h.run.Rng
	d := jumps[r.Intn(len(jumps))]
	nh := e.ctx.BlockHeight() + d
	if al := []int64{0, 0, 50, 300, 10000}[r.Intn(5)]; al > 0 {
		nh += (al - nh%al) % al
	}
	e.ctx = e.ctx.WithBlockHeight(nh).WithBlockTime(e.ctx.BlockTime().Add(time.Duration(d) * 1600 * time.Millisecond))
	h.logf("advance %d blocks -> height %d", d, nh)
	h.run.Count("B.advance", fmt.Sprint(d))
	before := h.ids()
	recs0 := e.userRecords()
	if err := h.evmMod.EndBlock(e.ctx); err != nil {
		h.t.Fatalf("evm EndBlock: %v", err)
	}
	if recs1 := e.userRecords(); coqUrecs(recs0) != coqUrecs(recs1) { // stale user contracts purged
		h.syncHeight()
		h.logf("evm end-blocker changed the user deployment records: %d -> %d", len(recs0), len(recs1))
		h.run.Count("B.op", "user-contracts-purged")
		h.recordKeep("C07.XUserSync " + coqUrecs(recs1))
	}
	h.reconcile(before, "evm end-blocker")
	h.syncIDs()
	h.endBlock(true)
}

// runTwin: the one situation in which a single remote transaction matches two queued messages —
// two valset updates with the same new valset, relayer, gas estimate and signers (update_valset
// carries no message id).  The transaction is accepted for the first, must be refused for the
// second (already processed), and a different transaction with the same call data is accepted.
func runTwin(t *testing.T, run *emit.Run) {
	r := run.Rng
	e := newEnv(t, r, true)
	p := newPools(r)
	h := &history{t: t, run: run, e: e, p: p, win: map[uint64]winInfo{}, reports: map[uint64][]valReport{}, reporter: map[uint64]int{}, known: map[uint64]*bodyT{}, usedTx: map[int64]uint64{}, done: map[uint64]bool{},
		vsid: map[uint64]uint64{}, gas: map[uint64]uint64{}, sigs: map[uint64][]sigE{}}
	logf := func(f string, a ...any) { h.log = append(h.log, fmt.Sprintf(f, a...)) }
	var snaps []string
	for _, id := range e.snaps {
		v, _ := e.snapVS(id)
		snaps = append(snaps, emit.Pair(emit.ZU(id), v.coq()))
	}
	for _, m := range e.queued(t) {
		_ = e.q(t).Remove(e.ctx, m.id)
	}
	b := p.body(kUpdateValset)
	b.Relayer = e.vals[r.Intn(len(e.vals))].eth.Hex()
	sid := e.snaps[r.Intn(len(e.snaps))]
	b.NewVS, _ = e.snapVS(sid)
	b.Key = sid
	vid := e.snaps[r.Intn(len(e.snaps))]
	h.evmMod = evmmodule.NewAppModule(e.f.Codec, *e.evm, nil, nil)
	h.consMod = consensusmodule.NewAppModule(e.f.Codec, e.f.ConsensusKeeper, nil, nil)
	var ids []uint64
	var n0 uint64
	signers := r.Perm(len(e.vals))[:1+r.Intn(3)]
	// publish: queue the valset update, name the valset the relayer used, collect the signatures
	publish := func() uint64 {
		id, err := e.f.ConsensusKeeper.PutMessageInQueue(e.ctx, e.queue, b.message(chainName, e.vals[0].addr.String()), &consensus.PutOptions{RequireSignatures: true, RequireGasEstimation: true})
		if err != nil {
			t.Fatal(err)
		}
		if len(ids) == 0 {
			n0 = id
		}
		h.noteID(id)
		ids = append(ids, id)
		h.known[id] = b
		logf("enqueue id=%d kind=2 key=%d (twin)", id, b.Key)
		h.record("C07.XEnqueue "+b.coq(), 0)
		if err := e.f.ConsensusKeeper.SetMessagePublicAccessData(e.ctx, e.vals[0].addr, &consensustypes.MsgSetPublicAccessData{MessageID: id, QueueTypeName: e.queue, Data: []byte{1}, ValsetID: vid}); err != nil {
			t.Fatal(err)
		}
		h.vsid[id] = vid
		h.record(fmt.Sprintf("C07.XValset %d %d", id, vid), 0)
		for _, k := range signers {
			v := e.vals[k]
			m, err := e.q(t).GetMsgByID(e.ctx, id)
			if err != nil {
				t.Fatal(err)
			}
			sg, err := e.sign(m, v)
			if err != nil {
				t.Fatal(err)
			}
			if err := e.f.ConsensusKeeper.AddMessageSignature(e.ctx, v.addr, []*consensustypes.ConsensusMessageSignature{{Id: id, QueueTypeName: e.queue, Signature: sg, SignedByAddress: v.eth.Hex()}}); err != nil {
				t.Fatal(err)
			}
			h.sigs[id] = append(h.sigs[id], sigE{v.eth, sg})
			h.record(fmt.Sprintf("C07.XSign %d %s", id, emit.Pair(emit.ZI(addrID(v.eth)), emit.ZI(tab.id(sg)))), 0)
		}
		return id
	}
	publish()
	vs, _ := e.snapVS(vid)
	i := 1 + r.Intn(len(signers))
	x1 := h.addTx(b.correct(ids[0], 0, vs, h.sigs[ids[0]], i), 1)
	if r.Intn(3) == 0 {
		x1 = h.addTxOf(x1.spec, 1, txBlobSidecar)
	}
	x2 := h.addTx(b.correct(ids[0], 0, vs, h.sigs[ids[0]], i), 2) // same call data, another transaction
	evidence := func(id uint64, x *txInfo) {
		logf("evidence id=%d hash#%d", id, x.hashID)
		h.submit(id, h.txReport(x, h.receipt(x, b, 1, rvPlain)), r.Perm(len(e.vals)))
	}
	attest := func(id uint64, viaBlock bool) int {
		w := h.win[id]
		was := e.evm.VerifC07IsTxProcessed(e.ctx, w.tx.tx)
		f0 := e.facts(t)
		var cls int
		var err error
		if viaBlock { // the loop returns nil: the message's own class comes from a dry run on a cache context
			cctx, _ := e.ctx.CacheContext()
			cls, _ = e.attestOne(t, cctx, id)
			if err = e.f.ConsensusKeeper.CheckAndProcessAttestedMessages(e.ctx); err != nil {
				t.Fatalf("CheckAndProcessAttestedMessages: %v", err)
			}
		} else {
			cls, err = e.attestOne(t, e.ctx, id)
		}
		eff := diffFacts(f0, e.facts(t))
		h.effects = append(h.effects, eff...)
		logf("attest id=%d block=%v -> class %d (%v) effects=%v", id, viaBlock, cls, err, eff)
		h.oracle(id, b, w, cls, vs, eff, was)
		if viaBlock {
			h.record("C07.XEndBlock []", 0)
		} else {
			h.record(fmt.Sprintf("C07.XAttest %d %s", id, coqSpawn(nil, cls != 4)), cls)
		}
		return cls
	}
	evidence(ids[0], x1)
	c1 := attest(ids[0], r.Intn(2) == 0)
	// blocks pass -- a few, a day, the 30 days after which a snapshot is published again, ten times that --
	// and the end-blockers run; then the same valset is published once more and the SAME transaction handed in
	nAdv := 1 + r.Intn(2)
	for k := 0; k < nAdv; k++ {
		h.advance()
	}
	publish()
	c2, c3 := -1, -1
	if h.ids()[ids[1]] {
		if r.Intn(2) == 0 {
			evidence(ids[1], h.otherForm(x1))
		} else {
			evidence(ids[1], x1)
		}
		c2 = attest(ids[1], r.Intn(2) == 0)
	}
	if h.ids()[ids[1]] { // still queued (it always is on the pinned tree: the reuse is refused without a flush)
		evidence(ids[1], x2)
		c3 = attest(ids[1], false)
	}
	run.Count("B.twin", fmt.Sprintf("first=%d reuse=%d fresh=%d", c1, c2, c3))
	if r.Intn(2) == 0 {
		h.reporterPays(b)
	}
	run.Case(fmt.Sprintf("C07.CHistory %s %d %s %d %s", emit.List(snaps), n0, e.coqShares(), e.total, emit.List(h.steps)), true, map[string]any{"history": h.log})
}

func TestCorr(t *testing.T) {
	run := emit.Start("C07", 1200)
	loadABI(t)
	run.Rule("Part A: one real VerifyAgainstTX call per case; message of a random action type, valset of 1-5, signers mostly members in random order " +
		"(sometimes outsiders, sometimes nobody); the transaction is the correct call for a random signature prefix, a single-field corruption, a " +
		"multi-field corruption, another message's call, or mangled bytes; non-trivial = accepted, or rejected for a field corruption. " +
		"Part B: one history per case on the integration fixture (real evm/consensus/valset/staking/metrix/skyway keepers, 4 validators with real " +
		"secp256k1 keys, two snapshots): enqueue / sign / gas / public-access valset / fee replacement / evidence (right, corrupted, reused, fresh " +
		"transaction; receipt status 1, 0, absent; error proof; split vote) / attestRouter on one message / consensus end-blocker loop; " +
		"non-trivial = at least one transaction accepted and one refused; every 8th history is the twin scenario: two identical valset updates signed by the " +
		"same validators, the first one's transaction offered to the second (must be refused), then an equal call in another transaction")
	nB := run.N / 12
	if v := os.Getenv("VERIF_C07_HISTORIES"); v != "" {
		fmt.Sscan(v, &nB)
	}
	nA := run.N - nB
	if nB == 0 {
		partA(t, run, nA)
	}
	// Part A cases and histories alternate, so that the shards of the cases file cost about the same
	for i := 0; i < nB; i++ {
		k := nA / nB
		if i < nA%nB {
			k++
		}
		partA(t, run, k)
		switch i % 8 {
		case 7:
			runTwin(t, run)
		case 3:
			runUserTwice(t, run)
		case 5:
			runSameTx(t, run, (i/8)%5)
		case 1:
			if (i/8)%2 == 0 {
				runUpgrade(t, run)
			} else {
				runTwoChains(t, run)
			}
		default:
			runHistory(t, run, i)
		}
	}
	if err := run.Finish("Evm.Attest Corr.C07", "C07.case", "C07.check"); err != nil {
		t.Fatal(err)
	}
}
