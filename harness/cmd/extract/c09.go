package main

import (
	"encoding/json"
	"fmt"
	"go/ast"
	"go/token"
	"os"
	"path/filepath"
	"sort"
	"strconv"
	"strings"
)

// C09: inventory of panic-capable sites reachable from any module's BeginBlock / EndBlock.
//
// Call graph: static and syntactic (go/parser only; go/types is not available offline for the whole
// module graph in reasonable time), deliberately an over-approximation:
//   - plain calls f(..) resolve to the function f of the same package;
//   - pkg.f(..) resolves through the file's imports to the function f of that paloma package;
//   - every other selector call x.m(..) (method or interface call, field func) resolves to EVERY method
//     named m with a compatible number of parameters anywhere under x/, util/, internal/;
//   - a function or method name used as a value (callback argument) is an edge too.
//
// Calls into packages outside the paloma module are not followed (SDK, go-ethereum, stdlib: the
// un-modelled part named in design/C09.md), but calls to their known-partial API are sites.
//
// Sites (syntactic patterns, each a Go operation that can panic for some operand):
//
//	uint64/int64  x.Uint64() x.Int64() (math.Int: out of range panics) ; must  Must*/whoops.Must/Assert ;
//	coin  NewCoin/NewCoins/NewInt64Coin/NewDecCoin (negative amount / bad denom) ; panic  explicit ;
//	assert  unchecked type assertion ; arrconv  [N]T(x) ; repeat  bytes/strings.Repeat ;
//	div  / % .Quo* .Mod with a non-literal divisor ; index  x[<int literal>] and x[a:b] with literal bounds.
//
// Every site gets the class recorded for its id in /verif/tables/c09_sites.json ("unclassified" when
// there is none), and Properties/C09.v proves forallb classified sites = true on the generated list.
// Also generated: the height periods and the recover facts the model's end_block is stated over, and
// the validation facts of UpsertRelayerFee / calculateFeesForEstimate.
func init() { extractors["C09"] = extractC09 }

type c09Func struct {
	key      string // relfile-dir + "." + recv + "." + name
	dir      string
	relfile  string
	recv     string
	name     string
	decl     *ast.FuncDecl
	file     *ast.File
	nparams  int
	variadic bool
}

type c09Site struct {
	ID, Kind, Expr, Func, File string
}

func c09SkipDir(name string) bool {
	switch name {
	case "client", "simulation", "mocks", "testutil", "testdata", "migrations", "bindings", "exported":
		return true
	}
	return false
}

func extractC09(c *Ctx) error {
	const modPath = "github.com/palomachain/paloma/v2/"
	var funcs []*c09Func
	byName := map[string][]*c09Func{}
	byDirName := map[string]*c09Func{} // plain functions: dir + "." + name
	pkgVars := map[string][]*c09Func{}
	for _, top := range []string{"x", "util", "internal"} {
		root := filepath.Join(c.Repo, top)
		err := filepath.Walk(root, func(p string, info os.FileInfo, err error) error {
			if err != nil {
				return err
			}
			if info.IsDir() {
				if c09SkipDir(info.Name()) {
					return filepath.SkipDir
				}
				return nil
			}
			n := info.Name()
			if !strings.HasSuffix(n, ".go") || strings.HasSuffix(n, "_test.go") || strings.HasSuffix(n, ".pb.go") ||
				strings.HasSuffix(n, ".pb.gw.go") || strings.HasPrefix(n, "verif_hooks") || n == "test_common.go" || n == "test_helpers.go" {
				return nil
			}
			rel, _ := filepath.Rel(c.Repo, p)
			f, err := c.Parse(rel)
			if err != nil {
				return err
			}
			for _, cg := range f.Comments {
				if cg.Pos() < f.Package && strings.Contains(cg.Text(), "go:build verif") {
					return nil
				}
			}
			for _, d := range f.Decls {
				if gd, ok := d.(*ast.GenDecl); ok && gd.Tok == token.VAR {
					// package-level initialisers (tables of callbacks): a pseudo function per declaration,
					// reachable as soon as any function of the package is
					hasFn := false
					ast.Inspect(gd, func(n ast.Node) bool {
						if _, ok := n.(*ast.FuncLit); ok {
							hasFn = true
						}
						return true
					})
					if hasFn {
						body := &ast.BlockStmt{List: []ast.Stmt{&ast.DeclStmt{Decl: gd}}}
						name := "var@" + strconv.Itoa(c.Fset.Position(gd.Pos()).Line)
						if vs, ok := gd.Specs[0].(*ast.ValueSpec); ok && len(vs.Names) > 0 {
							name = "var " + vs.Names[0].Name
						}
						fn := &c09Func{dir: filepath.Dir(rel), relfile: rel, recv: "", name: name,
							decl: &ast.FuncDecl{Name: ast.NewIdent(name), Type: &ast.FuncType{Params: &ast.FieldList{}}, Body: body}, file: f}
						fn.key = fn.dir + ".." + name
						funcs = append(funcs, fn)
						pkgVars[fn.dir] = append(pkgVars[fn.dir], fn)
					}
					continue
				}
				fd, ok := d.(*ast.FuncDecl)
				if !ok || fd.Body == nil {
					continue
				}
				recv := ""
				if fd.Recv != nil && len(fd.Recv.List) == 1 {
					t := fd.Recv.List[0].Type
					if s, ok := t.(*ast.StarExpr); ok {
						t = s.X
					}
					if ix, ok := t.(*ast.IndexExpr); ok {
						t = ix.X
					}
					if il, ok := t.(*ast.IndexListExpr); ok {
						t = il.X
					}
					if id, ok := t.(*ast.Ident); ok {
						recv = id.Name
					}
				}
				fn := &c09Func{dir: filepath.Dir(rel), relfile: rel, recv: recv, name: fd.Name.Name, decl: fd, file: f}
				for _, fl := range fd.Type.Params.List {
					k := len(fl.Names)
					if k == 0 {
						k = 1
					}
					fn.nparams += k
					if _, ok := fl.Type.(*ast.Ellipsis); ok {
						fn.variadic = true
					}
				}
				fn.key = fn.dir + "." + recv + "." + fn.name
				funcs = append(funcs, fn)
				if recv == "" {
					byDirName[fn.dir+"."+fn.name] = fn
				} else {
					byName[fn.name] = append(byName[fn.name], fn)
				}
			}
			return nil
		})
		if err != nil {
			return err
		}
	}

	// roots
	var roots []*c09Func
	for _, fn := range funcs {
		if fn.recv == "AppModule" && (fn.name == "BeginBlock" || fn.name == "EndBlock") && strings.HasSuffix(fn.relfile, "module.go") {
			roots = append(roots, fn)
		}
	}
	if len(roots) < 10 {
		return fmt.Errorf("expected BeginBlock/EndBlock of at least 5 modules, found %d roots", len(roots))
	}
	sort.Slice(roots, func(i, j int) bool { return roots[i].key < roots[j].key })

	imports := func(f *ast.File) map[string]string { // alias -> repo-relative dir ("" = external)
		m := map[string]string{}
		for _, is := range f.Imports {
			p, _ := strconv.Unquote(is.Path.Value)
			alias := filepath.Base(p)
			if strings.HasPrefix(alias, "v") && len(alias) <= 3 { // .../v2
				alias = filepath.Base(filepath.Dir(p))
			}
			if is.Name != nil {
				alias = is.Name.Name
			}
			if strings.HasPrefix(p, modPath) {
				m[alias] = strings.TrimPrefix(p, modPath)
			} else {
				m[alias] = ""
			}
		}
		return m
	}
	compatible := func(fn *c09Func, nargs int) bool {
		if fn.variadic {
			return nargs >= fn.nparams-1
		}
		return nargs == fn.nparams
	}

	reach := map[string]*c09Func{}
	var work []*c09Func
	var push func(fn *c09Func)
	push = func(fn *c09Func) {
		if _, ok := reach[fn.key]; !ok {
			reach[fn.key] = fn
			work = append(work, fn)
			for _, v := range pkgVars[fn.dir] {
				push(v)
			}
		}
	}
	for _, r := range roots {
		push(r)
	}
	for len(work) > 0 {
		fn := work[len(work)-1]
		work = work[:len(work)-1]
		imp := imports(fn.file)
		calledFun := map[ast.Expr]bool{}
		ast.Inspect(fn.decl.Body, func(n ast.Node) bool {
			ce, ok := n.(*ast.CallExpr)
			if !ok {
				return true
			}
			calledFun[ce.Fun] = true
			switch f := ce.Fun.(type) {
			case *ast.Ident:
				if t, ok := byDirName[fn.dir+"."+f.Name]; ok {
					push(t)
				}
			case *ast.SelectorExpr:
				if id, ok := f.X.(*ast.Ident); ok {
					if dir, isPkg := imp[id.Name]; isPkg && id.Obj == nil {
						if dir != "" {
							if t, ok := byDirName[dir+"."+f.Sel.Name]; ok {
								push(t)
							}
						}
						return true
					}
				}
				for _, t := range byName[f.Sel.Name] {
					if compatible(t, len(ce.Args)) {
						push(t)
					}
				}
			}
			return true
		})
		// function / method values (callbacks): any reference that is not itself the callee of a call
		ast.Inspect(fn.decl.Body, func(n ast.Node) bool {
			switch v := n.(type) {
			case *ast.Ident:
				if calledFun[v] || v.Obj != nil {
					return true
				}
				if t, ok := byDirName[fn.dir+"."+v.Name]; ok {
					push(t)
				}
			case *ast.SelectorExpr:
				if calledFun[v] {
					return true
				}
				if id, ok := v.X.(*ast.Ident); ok {
					if dir, isPkg := imp[id.Name]; isPkg && id.Obj == nil {
						if t, ok := byDirName[dir+"."+v.Sel.Name]; ok && dir != "" {
							push(t)
						}
						return true
					}
				}
				for _, t := range byName[v.Sel.Name] {
					push(t)
				}
			}
			return true
		})
	}

	// sites
	var sites []c09Site
	keys := make([]string, 0, len(reach))
	for k := range reach {
		keys = append(keys, k)
	}
	sort.Strings(keys)
	short := func(n ast.Node) string {
		s := strings.Join(strings.Fields(c.Src(n)), " ")
		if len(s) > 90 {
			s = s[:90] + "…"
		}
		return s
	}
	for _, k := range keys {
		fn := reach[k]
		seen := map[string]int{}
		add := func(kind string, n ast.Node) {
			e := short(n)
			base := fn.relfile + ":" + fn.recv + "." + fn.name + ":" + kind + ":" + e
			seen[base]++
			sites = append(sites, c09Site{ID: base + "#" + strconv.Itoa(seen[base]), Kind: kind, Expr: e, Func: fn.recv + "." + fn.name, File: fn.relfile})
		}
		okAssert := map[*ast.TypeAssertExpr]bool{}
		ast.Inspect(fn.decl.Body, func(n ast.Node) bool {
			switch v := n.(type) {
			case *ast.AssignStmt:
				if len(v.Lhs) == 2 && len(v.Rhs) == 1 {
					if ta, ok := v.Rhs[0].(*ast.TypeAssertExpr); ok {
						okAssert[ta] = true
					}
				}
			case *ast.ValueSpec:
				if len(v.Names) == 2 && len(v.Values) == 1 {
					if ta, ok := v.Values[0].(*ast.TypeAssertExpr); ok {
						okAssert[ta] = true
					}
				}
			}
			return true
		})
		// second round: X[i] where i is the key of an enclosing `range Y` over ANOTHER expression
		// (winner.Balances[i] inside `for i := range request.GetHexAddresses()`), and field access
		// through an optional (pointer) protobuf field without its nil-safe getter (m.Fees.RelayerFee)
		{
			var walk func(n ast.Node, keys map[string]string)
			walk = func(n ast.Node, keys map[string]string) {
				ast.Inspect(n, func(x ast.Node) bool {
					switch v := x.(type) {
					case *ast.RangeStmt:
						inner := map[string]string{}
						for k, y := range keys {
							inner[k] = y
						}
						if id, ok := v.Key.(*ast.Ident); ok && id.Name != "_" {
							inner[id.Name] = c.Src(v.X)
						}
						walk(v.Body, inner)
						return false
					case *ast.IndexExpr:
						if id, ok := v.Index.(*ast.Ident); ok {
							if over, ok := keys[id.Name]; ok && over != c.Src(v.X) {
								add("crossindex", v)
							}
						}
					}
					return true
				})
			}
			walk(fn.decl.Body, map[string]string{})
			getterCallee := map[*ast.SelectorExpr]bool{}
			ast.Inspect(fn.decl.Body, func(x ast.Node) bool {
				if ce, ok := x.(*ast.CallExpr); ok {
					if se, ok := ce.Fun.(*ast.SelectorExpr); ok && (strings.HasPrefix(se.Sel.Name, "Get") || se.Sel.Name == "String" || se.Sel.Name == "Size") {
						getterCallee[se] = true
					}
				}
				return true
			})
			ast.Inspect(fn.decl.Body, func(x ast.Node) bool {
				se, ok := x.(*ast.SelectorExpr)
				if !ok || getterCallee[se] {
					return true
				}
				if inner, ok := se.X.(*ast.SelectorExpr); ok && c09PtrFields(c)[inner.Sel.Name] {
					add("nilfield", se)
				}
				return true
			})
		}
		// round 6: (a) field read / non-getter method call on a pointer obtained as `x, _ := f(...)` (the second
		// result ignored: x may be nil — deployment.Status.String() after getSmartContractDeploymentByContractID);
		// (b) an index computed by a subtraction (w[rank-1], x[len(y)-1]) — negative on an empty slice
		{
			maybeNil := map[string]bool{}
			ast.Inspect(fn.decl.Body, func(x ast.Node) bool {
				as, ok := x.(*ast.AssignStmt)
				if !ok || len(as.Lhs) != 2 || len(as.Rhs) != 1 {
					return true
				}
				if _, isCall := as.Rhs[0].(*ast.CallExpr); !isCall {
					return true
				}
				a, ok1 := as.Lhs[0].(*ast.Ident)
				b, ok2 := as.Lhs[1].(*ast.Ident)
				if ok1 && ok2 && b.Name == "_" && a.Name != "_" {
					maybeNil[a.Name] = true
				}
				return true
			})
			if len(maybeNil) > 0 {
				callee := map[*ast.SelectorExpr]bool{}
				ast.Inspect(fn.decl.Body, func(x ast.Node) bool {
					if ce, ok := x.(*ast.CallExpr); ok {
						if se, ok := ce.Fun.(*ast.SelectorExpr); ok {
							callee[se] = true
						}
					}
					return true
				})
				ast.Inspect(fn.decl.Body, func(x ast.Node) bool {
					se, ok := x.(*ast.SelectorExpr)
					if !ok {
						return true
					}
					id, ok := se.X.(*ast.Ident)
					if !ok || !maybeNil[id.Name] {
						return true
					}
					if callee[se] && (strings.HasPrefix(se.Sel.Name, "Get") || se.Sel.Name == "String") {
						return true // generated getters are nil-safe
					}
					add("nilret", se)
					return true
				})
			}
			ast.Inspect(fn.decl.Body, func(x ast.Node) bool {
				ie, ok := x.(*ast.IndexExpr)
				if !ok {
					return true
				}
				if be, ok := ie.Index.(*ast.BinaryExpr); ok && be.Op == token.SUB {
					add("subindex", ie)
				}
				return true
			})
		}
		ast.Inspect(fn.decl.Body, func(n ast.Node) bool {
			switch v := n.(type) {
			case *ast.CallExpr:
				name := ""
				switch f := v.Fun.(type) {
				case *ast.Ident:
					name = f.Name
				case *ast.SelectorExpr:
					name = f.Sel.Name
				case *ast.ArrayType:
					if f.Len != nil {
						add("arrconv", v)
					}
				case *ast.ParenExpr:
					if st, ok := f.X.(*ast.StarExpr); ok {
						if at, ok := st.X.(*ast.ArrayType); ok && at.Len != nil {
							add("arrconv", v)
						}
					}
				}
				switch {
				case name == "panic":
					add("panic", v)
				case (name == "Uint64" || name == "Int64") && len(v.Args) == 0:
					add(strings.ToLower(name), v)
				case strings.HasPrefix(name, "Must") || strings.HasPrefix(name, "LegacyMust") || name == "Assert":
					add("must", v)
				case name == "NewCoin" || name == "NewCoins" || name == "NewInt64Coin" || name == "NewDecCoin" || name == "NewDecCoinFromDec":
					add("coin", v)
				case name == "Repeat":
					add("repeat", v)
				case name == "Quo" || name == "QuoInt" || name == "QuoInt64" || name == "QuoRaw" || name == "QuoTruncate" || name == "Mod" || name == "QuoRoundUp":
					add("div", v)
				}
			case *ast.TypeAssertExpr:
				if v.Type != nil && !okAssert[v] {
					add("assert", v)
				}
			case *ast.BinaryExpr:
				if v.Op == token.QUO || v.Op == token.REM {
					if _, lit := v.Y.(*ast.BasicLit); !lit {
						add("div", v)
					}
				}
			case *ast.IndexExpr:
				if bl, ok := v.Index.(*ast.BasicLit); ok && bl.Kind == token.INT {
					add("index", v)
				}
			case *ast.SliceExpr:
				for _, b := range []ast.Expr{v.Low, v.High, v.Max} {
					if bl, ok := b.(*ast.BasicLit); ok && bl.Kind == token.INT && bl.Value != "0" {
						add("index", v)
						break
					}
				}
			}
			return true
		})
	}

	// classification table
	type entry struct {
		Class   string `json:"class"`
		Why     string `json:"why"`
		Backing string `json:"backing"` // the proved lemma / harness oracle the class rests on (second round)
		// class "recovered": the function ("relfile:Recv.Func", Recv may be empty) whose deferred recover
		// contains the panic; the translator checks that this recover is EFFECTIVE (round 4)
		RecoverIn string `json:"recover_in"`
	}
	recoverOK := map[string]bool{}
	effective := func(where string) bool {
		if v, ok := recoverOK[where]; ok {
			return v
		}
		res := false
		if i := strings.LastIndex(where, ":"); i > 0 {
			file, fn := where[:i], where[i+1:]
			recv, name := "", fn
			if j := strings.Index(fn, "."); j >= 0 {
				recv, name = fn[:j], fn[j+1:]
			}
			if f, err := c.Parse(file); err == nil {
				if fd := FindFunc(f, recv, name); fd != nil && fd.Body != nil {
					res = c09EffectiveRecover(f, fd)
				}
			}
		}
		recoverOK[where] = res
		return res
	}
	recoveredAllEffective := true
	table := map[string]entry{}
	tpath := os.Getenv("VERIF_C09_TABLE")
	if tpath == "" {
		tpath = filepath.Join(filepath.Dir(filepath.Dir(filepath.Dir(c.Out))), "tables", "c09_sites.json")
	}
	if bz, err := os.ReadFile(tpath); err == nil {
		if err := json.Unmarshal(bz, &table); err != nil {
			return fmt.Errorf("%s: %v", tpath, err)
		}
	}
	classCount := map[string]int{}
	backed := 0
	var unclassified []string
	c.P("(* Roots: AppModule.BeginBlock / EndBlock of every module *)")
	var rk []string
	for _, r := range roots {
		rk = append(rk, r.relfile+":"+r.name)
	}
	c.P("Definition roots : list string := %s.", CoqStrList(rk))
	c.P("Definition reachable_functions : Z := %d.", len(reach))
	c.P("")
	c.P("(* (id, kind, class) of every panic-capable site in a function reachable from a root *)")
	c.P("Definition sites : list (string * string * string) := [")
	for i, s := range sites {
		cl := "unclassified"
		if e, ok := table[s.ID]; ok && e.Class != "" {
			cl = e.Class
			// a class that rests on an invariant outside the function must name what checks the invariant
			if cl == "not-sender-controlled" && strings.TrimSpace(e.Backing) == "" {
				cl = "unclassified"
			}
			if cl == "recovered" && !effective(e.RecoverIn) {
				// no function named, or its recover() is not called directly by a deferred function
				cl = "unclassified"
				recoveredAllEffective = false
			}
			if e.Backing != "" {
				backed++
			}
		}
		if cl == "unclassified" {
			unclassified = append(unclassified, s.ID)
		}
		classCount[cl]++
		sep := ";"
		if i == len(sites)-1 {
			sep = ""
		}
		c.P("  (%s, %s, %s)%s", CoqStr(s.ID), CoqStr(s.Kind), CoqStr(cl), sep)
	}
	c.P("].")
	stale := 0
	ids := map[string]bool{}
	for _, s := range sites {
		ids[s.ID] = true
	}
	for id := range table {
		if !ids[id] {
			stale++
		}
	}
	c.Info("reachable_functions", len(reach))
	c.Info("sites", len(sites))
	c.Info("classes", classCount)
	c.Info("stale_table_entries", stale)
	c.Info("sites_with_named_backing", backed)
	c.P("Definition recovered_sites_have_effective_recover : bool := %v.", recoveredAllEffective)
	if len(unclassified) > 0 {
		if len(unclassified) > 8 {
			c.Info("unclassified_first", unclassified[:8])
		} else {
			c.Info("unclassified_first", unclassified)
		}
	}
	if dump := os.Getenv("VERIF_C09_DUMP"); dump != "" {
		bz, _ := json.MarshalIndent(sites, "", " ")
		_ = os.WriteFile(dump, bz, 0o644)
	}

	// ---- constants and structural facts the model is stated over ----
	if err := c09Facts(c); err != nil {
		return err
	}
	// second round: attestation / pruning / skyway / valset facts (c09b.go)
	if err := c09Facts2(c); err != nil {
		return err
	}
	return nil
}

func c09Facts(c *Ctx) error {
	modFile := func(mod string) (*ast.File, error) { return c.Parse("x/" + mod + "/module.go") }
	// height periods: every `BlockHeight()%N == 0` guard in an EndBlock, by module
	periodsOf := func(mod string) ([]string, *ast.FuncDecl, *ast.File, error) {
		f, err := modFile(mod)
		if err != nil {
			return nil, nil, nil, err
		}
		fd := FindFunc(f, "AppModule", "EndBlock")
		if fd == nil {
			return nil, nil, nil, fmt.Errorf("x/%s/module.go: EndBlock not found", mod)
		}
		var out []string
		ast.Inspect(fd.Body, func(n ast.Node) bool {
			be, ok := n.(*ast.BinaryExpr)
			if ok && be.Op == token.REM && strings.HasSuffix(c.Src(be.X), "BlockHeight()") {
				v := c.Src(be.Y)
				if _, err := strconv.Atoi(v); err != nil {
					if lit, ok := ConstValue(c, []*ast.File{f}, v); ok {
						v = lit
					}
				}
				out = append(out, v)
			}
			return true
		})
		return out, fd, f, nil
	}
	hasRecover := func(fd *ast.FuncDecl) bool { return len(Calls(fd.Body, "recover")) > 0 }
	returnsCalleeError := func(fd *ast.FuncDecl) bool { // any `return err`-like statement (not `return nil`)
		found := false
		ast.Inspect(fd.Body, func(n ast.Node) bool {
			if _, ok := n.(*ast.FuncLit); ok {
				return false
			}
			rs, ok := n.(*ast.ReturnStmt)
			if ok && len(rs.Results) == 1 && c.Src(rs.Results[0]) != "nil" {
				found = true
			}
			return true
		})
		return found
	}
	for _, mod := range []string{"consensus", "evm", "valset", "paloma", "metrix", "skyway", "scheduler", "treasury", "tokenfactory"} {
		ps, fd, f, err := periodsOf(mod)
		if err != nil {
			return err
		}
		for i, p := range ps {
			p = strings.ReplaceAll(p, "_", "")
			if _, err := strconv.Atoi(p); err != nil {
				return fmt.Errorf("x/%s EndBlock: period %q is not an integer constant", mod, p)
			}
			ps[i] = p
		}
		c.P("Definition %s_periods : list Z := [%s].", mod, strings.Join(ps, "; "))
		c.P("Definition %s_endblock_recovers : bool := %v.", mod, hasRecover(fd))
		c.P("Definition %s_endblock_returns_error : bool := %v.", mod, returnsCalleeError(fd))
		bb := FindFunc(f, "AppModule", "BeginBlock")
		if bb == nil {
			return fmt.Errorf("x/%s/module.go: BeginBlock not found", mod)
		}
		c.P("Definition %s_beginblock_returns_error : bool := %v.", mod, returnsCalleeError(bb))
		c.P("Definition %s_beginblock_stmts : Z := %d.", mod, len(bb.Body.List))
	}

	// consensus estimate loop: one cache context per message, commit only on success, errors continue
	ef, err := c.Parse("x/consensus/keeper/estimate.go")
	if err != nil {
		return err
	}
	loop := FindFunc(ef, "Keeper", "CheckAndProcessEstimatedMessages")
	if loop == nil {
		return fmt.Errorf("CheckAndProcessEstimatedMessages not found")
	}
	perMsgCache := false
	ast.Inspect(loop.Body, func(n ast.Node) bool {
		rs, ok := n.(*ast.RangeStmt)
		if !ok || c.Src(rs.X) != "msgs" {
			return true
		}
		// expect: cachedCtx, commit := ...CacheContext(); if err := k.checkAndProcessEstimatedMessage(cachedCtx, ...); err != nil { ...; continue }; commit()
		if len(rs.Body.List) == 3 {
			a, ok1 := rs.Body.List[0].(*ast.AssignStmt)
			i, ok2 := rs.Body.List[1].(*ast.IfStmt)
			e, ok3 := rs.Body.List[2].(*ast.ExprStmt)
			if ok1 && ok2 && ok3 && strings.HasSuffix(c.Src(a.Rhs[0]), ".CacheContext()") && c.Src(e.X) == "commit()" &&
				strings.Contains(c.Src(i.Init), "checkAndProcessEstimatedMessage(cachedCtx") && len(i.Body.List) > 0 {
				if bs, ok := i.Body.List[len(i.Body.List)-1].(*ast.BranchStmt); ok && bs.Tok == token.CONTINUE {
					perMsgCache = true
				}
			}
		}
		return true
	})
	c.P("Definition estimate_loop_per_message_cache : bool := %v.", perMsgCache)
	c.P("Definition estimate_loop_recovers : bool := %v.", hasRecover(loop))

	// calculateFeesForEstimate: how each of the three fees is produced
	cf := FindFunc(ef, "Keeper", "calculateFeesForEstimate")
	if cf == nil {
		return fmt.Errorf("calculateFeesForEstimate not found")
	}
	unchecked := len(Calls(cf.Body, "Uint64"))
	checkedCalls := len(Calls(cf.Body, "mulCeilUint64"))
	c.P("Definition fees_unchecked_uint64_conversions : Z := %d.", unchecked)
	c.P("Definition fees_checked_products : Z := %d.", checkedCalls)
	if h := FindFunc(ef, "", "mulCeilUint64"); h != nil {
		src := c.Src(h.Body)
		c.P("Definition mulceil_rejects_nil : bool := %v.", strings.Contains(src, "d.IsNil()"))
		c.P("Definition mulceil_rejects_negative : bool := %v.", strings.Contains(src, "d.IsNegative()"))
		c.P("Definition mulceil_checks_uint64 : bool := %v.", strings.Contains(src, "!quo.IsUint64()"))
		c.P("Definition mulceil_rounds_up_on_positive_remainder : bool := %v.", strings.Contains(src, "rem.Sign() > 0"))
		c.P("Definition mulceil_unchecked_conversions : Z := %d.", len(Calls(h.Body, "Uint64"))-boolInt(strings.Contains(src, "!quo.IsUint64()") && strings.Contains(src, "return quo.Uint64(), nil")))
	} else {
		c.P("Definition mulceil_rejects_nil : bool := false.")
		c.P("Definition mulceil_rejects_negative : bool := false.")
		c.P("Definition mulceil_checks_uint64 : bool := false.")
		c.P("Definition mulceil_rounds_up_on_positive_remainder : bool := false.")
		c.P("Definition mulceil_unchecked_conversions : Z := 0.")
	}

	// UpsertRelayerFee: validation of every submitted multiplicator before anything is stored
	tf, err := c.Parse("x/treasury/keeper/msg_server.go")
	if err != nil {
		return err
	}
	up := FindFunc(tf, "msgServer", "UpsertRelayerFee")
	if up == nil {
		return fmt.Errorf("UpsertRelayerFee not found")
	}
	validatesAll := false
	ast.Inspect(up.Body, func(n ast.Node) bool {
		rs, ok := n.(*ast.RangeStmt)
		if ok && c.Src(rs.X) == "req.FeeSetting.Fees" && len(Calls(rs.Body, "validateMultiplicator")) == 1 {
			// must return the error
			ast.Inspect(rs.Body, func(m ast.Node) bool {
				if r, ok := m.(*ast.ReturnStmt); ok && len(r.Results) == 2 && c.Src(r.Results[0]) == "nil" {
					validatesAll = true
				}
				return true
			})
		}
		return true
	})
	// the validation loop must come before the store write
	if validatesAll {
		var posVal, posSet token.Pos
		for _, ce := range Calls(up.Body, "validateMultiplicator") {
			posVal = ce.Pos()
		}
		for _, ce := range Calls(up.Body, "SetRelayerFee") {
			posSet = ce.Pos()
		}
		if !(posVal < posSet) {
			validatesAll = false
		}
	}
	c.P("Definition upsert_validates_every_multiplicator : bool := %v.", validatesAll)
	maxMult := "0"
	lowerOK, nilOK, upperOK := false, false, false
	if vm := FindFunc(tf, "", "validateMultiplicator"); vm != nil {
		src := c.Src(vm.Body)
		nilOK = strings.Contains(src, "m.IsNil()")
		lowerOK = strings.Contains(src, "!m.IsPositive()")
		upperOK = strings.Contains(src, "m.GT(maxRelayerFeeMultiplicator)")
		if v, ok := ConstValue(c, []*ast.File{tf}, "maxRelayerFeeMultiplicator"); ok {
			// math.LegacyNewDec(N)
			v = strings.TrimSuffix(strings.TrimPrefix(v, "math.LegacyNewDec("), ")")
			v = strings.ReplaceAll(v, "_", "")
			if _, err := strconv.ParseInt(v, 10, 64); err != nil {
				return fmt.Errorf("maxRelayerFeeMultiplicator: unsupported expression %q", v)
			}
			maxMult = v
		}
	}
	c.P("Definition upsert_rejects_nil : bool := %v.", nilOK)
	c.P("Definition upsert_rejects_non_positive : bool := %v.", lowerOK)
	c.P("Definition upsert_rejects_above_max : bool := %v.", upperOK)
	c.P("Definition max_multiplicator_units : Z := %s.", maxMult)
	c.Info("upsert_validates", validatesAll)
	c.Info("max_multiplicator", maxMult)

	// AddMessageEstimates rejects a zero estimate
	cm, err := c.Parse("x/consensus/keeper/msg_server.go")
	if err != nil {
		return err
	}
	am := FindFunc(cm, "msgServer", "AddMessageEstimates")
	if am == nil {
		return fmt.Errorf("AddMessageEstimates not found")
	}
	c.P("Definition estimates_reject_below : Z := %s.", func() string {
		out := "0"
		ast.Inspect(am.Body, func(n ast.Node) bool {
			be, ok := n.(*ast.BinaryExpr)
			if ok && be.Op == token.LSS && strings.HasSuffix(c.Src(be.X), "GetValue()") {
				out = c.Src(be.Y)
			}
			return true
		})
		return out
	}())
	return nil
}

func boolInt(b bool) int {
	if b {
		return 1
	}
	return 0
}

// c09PtrFields: names of the pointer-typed message fields of the generated protobuf structs under
// x/*/types (optional sub-messages: nil when absent).
var c09PtrFieldCache map[string]bool

func c09PtrFields(c *Ctx) map[string]bool {
	if c09PtrFieldCache != nil {
		return c09PtrFieldCache
	}
	out := map[string]bool{}
	matches, _ := filepath.Glob(filepath.Join(c.Repo, "x", "*", "types", "*.pb.go"))
	for _, m := range matches {
		rel, err := filepath.Rel(c.Repo, m)
		if err != nil {
			continue
		}
		f, err := c.Parse(rel)
		if err != nil {
			continue
		}
		ast.Inspect(f, func(n ast.Node) bool {
			st, ok := n.(*ast.StructType)
			if !ok {
				return true
			}
			for _, fl := range st.Fields.List {
				se, ok := fl.Type.(*ast.StarExpr)
				if !ok {
					continue
				}
				if _, isIdent := se.X.(*ast.Ident); !isIdent {
					if _, isSel := se.X.(*ast.SelectorExpr); !isSel {
						continue
					}
				}
				for _, nm := range fl.Names {
					if ast.IsExported(nm.Name) && !strings.HasPrefix(nm.Name, "XXX_") {
						out[nm.Name] = true
					}
				}
			}
			return true
		})
	}
	c09PtrFieldCache = out
	return out
}
