package main

import (
	"fmt"
	"go/ast"
	"io/fs"
	"os"
	"path/filepath"
	"sort"
	"strings"
)

// C06: which item fields each turnstone message kind's signing bytes cover (keccak256 methods in
// x/evm/types/turnstone_abi.go), the default estimate / fees that alias "unset", whether
// SetElectedGasEstimate clears SignData, whether UpdateBatchGasEstimate deletes the confirms, which
// actions are fee payers, and the call-graph query: ReassignOrphanedMessages / ReassignValidator
// (which keep signatures while changing the relayer) must have no production caller.
func init() { extractors["C06"] = extractC06 }

func c06UsesIdent(n ast.Node, name string) bool {
	found := false
	ast.Inspect(n, func(x ast.Node) bool {
		if id, ok := x.(*ast.Ident); ok && id.Name == name {
			found = true
		}
		return !found
	})
	return found
}

func c06UsesSelector(n ast.Node, sel string) bool {
	found := false
	ast.Inspect(n, func(x ast.Node) bool {
		if s, ok := x.(*ast.SelectorExpr); ok && s.Sel.Name == sel {
			found = true
		}
		return !found
	})
	return found
}

func c06RecvName(fd *ast.FuncDecl) string {
	if fd.Recv == nil || len(fd.Recv.List) != 1 {
		return ""
	}
	t := fd.Recv.List[0].Type
	if s, ok := t.(*ast.StarExpr); ok {
		t = s.X
	}
	if ix, ok := t.(*ast.IndexExpr); ok {
		t = ix.X
	}
	if id, ok := t.(*ast.Ident); ok {
		return id.Name
	}
	return ""
}

func c06Bool(b bool) string {
	if b {
		return "true"
	}
	return "false"
}

// c06IntLit turns a Go integer literal such as 300_000 into a Coq Z literal.
func c06IntLit(s string) (string, bool) {
	s = strings.ReplaceAll(strings.TrimSpace(s), "_", "")
	if s == "" {
		return "", false
	}
	for _, ch := range s {
		if ch < '0' || ch > '9' {
			return "", false
		}
	}
	return s, true
}

func extractC06(c *Ctx) error {
	// ---- 1. coverage of the signing bytes per message kind ----
	f, err := c.Parse("x/evm/types/turnstone_abi.go")
	if err != nil {
		return err
	}
	type cover struct {
		kind                   string
		id, est, fees, relayer bool
		defaultEstimate        string
	}
	var covers []cover
	for _, d := range f.Decls {
		fd, ok := d.(*ast.FuncDecl)
		if !ok || fd.Name.Name != "keccak256" {
			continue
		}
		r := c06RecvName(fd)
		if !strings.HasPrefix(r, "Message_") {
			return fmt.Errorf("keccak256 on unexpected receiver %q", r)
		}
		var names []string
		for _, p := range fd.Type.Params.List {
			if len(p.Names) == 0 {
				return fmt.Errorf("%s.keccak256: unnamed parameter list", r)
			}
			for _, n := range p.Names {
				names = append(names, n.Name)
			}
		}
		if len(names) != 3 {
			return fmt.Errorf("%s.keccak256: expected (orig, nonce, gasEstimate), got %v", r, names)
		}
		cv := cover{kind: strings.TrimPrefix(r, "Message_")}
		cv.id = names[1] != "_" && c06UsesIdent(fd.Body, names[1])
		cv.est = names[2] != "_" && c06UsesIdent(fd.Body, names[2])
		cv.fees = len(Calls(fd.Body, "feesOrDefault")) > 0
		cv.relayer = names[0] != "_" && c06UsesSelector(fd.Body, "AssigneeRemoteAddress")
		if cv.est {
			// if estimate == 0 { estimate = <lit> }
			ast.Inspect(fd.Body, func(x ast.Node) bool {
				is, ok := x.(*ast.IfStmt)
				if !ok || !strings.Contains(c.Src(is.Cond), "== 0") || len(is.Body.List) != 1 {
					return true
				}
				if as, ok := is.Body.List[0].(*ast.AssignStmt); ok && len(as.Rhs) == 1 {
					if v, ok := c06IntLit(c.Src(as.Rhs[0])); ok {
						cv.defaultEstimate = v
					}
				}
				return true
			})
			if cv.defaultEstimate == "" {
				return fmt.Errorf("%s.keccak256 uses the gas estimate but no `if estimate == 0 { estimate = N }` default was recognised", r)
			}
		}
		covers = append(covers, cv)
	}
	if len(covers) == 0 {
		return fmt.Errorf("no keccak256 methods found in turnstone_abi.go")
	}
	sort.Slice(covers, func(i, j int) bool { return covers[i].kind < covers[j].kind })
	c.P("(* x/evm/types/turnstone_abi.go: what <kind>.keccak256 feeds into the signing bytes:")
	c.P("   (kind, (covers message id, covers elected gas estimate, covers fees, covers relayer address)) *)")
	var rows []string
	defEst := ""
	info := map[string]string{}
	for _, cv := range covers {
		rows = append(rows, fmt.Sprintf("(%s, (%s, %s, %s, %s))", CoqStr(cv.kind), c06Bool(cv.id), c06Bool(cv.est), c06Bool(cv.fees), c06Bool(cv.relayer)))
		info[cv.kind] = fmt.Sprintf("id=%v est=%v fees=%v relayer=%v", cv.id, cv.est, cv.fees, cv.relayer)
		if cv.defaultEstimate != "" {
			if defEst != "" && defEst != cv.defaultEstimate {
				return fmt.Errorf("two different default gas estimates: %s, %s", defEst, cv.defaultEstimate)
			}
			defEst = cv.defaultEstimate
		}
	}
	c.P("Definition keccak_cover : list (string * (bool * bool * bool * bool)) :=\n  [%s].", strings.Join(rows, ";\n   "))
	if defEst == "" {
		return fmt.Errorf("no default gas estimate found")
	}
	c.P("Definition default_gas_estimate : Z := %s.", defEst)
	c.Info("keccak_cover", info)

	// feesOrDefault
	fo := FindFunc(f, "", "feesOrDefault")
	if fo == nil {
		return fmt.Errorf("feesOrDefault not found")
	}
	var dfees []string
	ast.Inspect(fo.Body, func(x ast.Node) bool {
		cl, ok := x.(*ast.CompositeLit)
		if !ok {
			return true
		}
		want := []string{"RelayerFee", "CommunityFee", "SecurityFee"}
		if len(cl.Elts) != 3 {
			return true
		}
		for i, e := range cl.Elts {
			kv, ok := e.(*ast.KeyValueExpr)
			if !ok || c.Src(kv.Key) != want[i] {
				return true
			}
			v, ok := c06IntLit(c.Src(kv.Value))
			if !ok {
				return true
			}
			dfees = append(dfees, v)
		}
		return true
	})
	if len(dfees) != 3 {
		return fmt.Errorf("feesOrDefault: default Fees{RelayerFee, CommunityFee, SecurityFee} literal not recognised")
	}
	c.P("Definition default_fees : Z * Z * Z := (%s, %s, %s).", dfees[0], dfees[1], dfees[2])

	// fee payers: actions with a SetFees method
	tm, err := c.Parse("x/evm/types/turnstone_message.go")
	if err != nil {
		return err
	}
	var payers []string
	for _, d := range tm.Decls {
		if fd, ok := d.(*ast.FuncDecl); ok && fd.Name.Name == "SetFees" {
			payers = append(payers, strings.TrimPrefix(c06RecvName(fd), "Message_"))
		}
	}
	sort.Strings(payers)
	if len(payers) == 0 {
		return fmt.Errorf("no SetFees implementations found")
	}
	c.P("Definition fee_payers : list string := %s.", CoqStrList(payers))
	c.Info("fee_payers", payers)

	// ---- 2. SetElectedGasEstimate clears SignData ----
	cf, err := c.Parse("x/consensus/types/consensus.go")
	if err != nil {
		return err
	}
	se := FindFunc(cf, "QueuedSignedMessage", "SetElectedGasEstimate")
	if se == nil {
		return fmt.Errorf("QueuedSignedMessage.SetElectedGasEstimate not found")
	}
	clears := false
	for _, st := range se.Body.List {
		if as, ok := st.(*ast.AssignStmt); ok && len(as.Lhs) == 1 && len(as.Rhs) == 1 {
			l, r := c.Src(as.Lhs[0]), c.Src(as.Rhs[0])
			if strings.HasSuffix(l, ".SignData") && (r == "nil" || strings.HasSuffix(r, "SignData{}")) {
				clears = true
			}
		}
	}
	c.P("(* x/consensus/types/consensus.go: SetElectedGasEstimate resets SignData *)")
	c.P("Definition set_elected_clears_signdata : bool := %s.", c06Bool(clears))

	// ---- 3. skyway: UpdateBatchGasEstimate deletes the confirms; default estimate of the checkpoint ----
	bf, err := c.Parse("x/skyway/keeper/batch.go")
	if err != nil {
		return err
	}
	ub := FindFunc(bf, "Keeper", "UpdateBatchGasEstimate")
	if ub == nil {
		return fmt.Errorf("skyway Keeper.UpdateBatchGasEstimate not found")
	}
	c.P("(* x/skyway/keeper/batch.go: UpdateBatchGasEstimate calls DeleteBatchConfirms inside its cache context *)")
	c.P("Definition update_estimate_deletes_confirms : bool := %s.",
		c06Bool(len(Calls(ub.Body, "DeleteBatchConfirms")) > 0 && len(Calls(ub.Body, "CacheContext")) > 0))
	tb, err := c.ParseDir("x/skyway/types")
	if err != nil {
		return err
	}
	dv, ok := ConstValue(c, tb, "cConservativeDummyGasEstimate")
	if !ok {
		return fmt.Errorf("cConservativeDummyGasEstimate not found")
	}
	dz, ok := c06IntLit(dv)
	if !ok {
		return fmt.Errorf("cConservativeDummyGasEstimate is not an integer literal: %s", dv)
	}
	c.P("Definition skyway_default_gas_estimate : Z := %s.", dz)

	// ---- 4. call-graph query: who calls the signature-keeping reassignment ----
	callers, err := reassignCallers(c)
	if err != nil {
		return err
	}
	c.P("(* production (non-test) call sites of ReassignOrphanedMessages, and of ReassignValidator /")
	c.P("   reassignMessageValidator outside the chain ReassignOrphanedMessages -> reassignMessageValidator ->")
	c.P("   Queue.ReassignValidator (BatchQueue.ReassignValidator delegates) *)")
	c.P("Definition reassign_live_callers : list string := %s.", CoqStrList(callers))
	c.Info("reassign_live_callers", callers)
	return nil
}

// reassignCallers scans every non-test Go file of the tree (generated mocks and test utilities excluded).
func reassignCallers(c *Ctx) ([]string, error) {
	set := map[string]bool{}
	skipDir := map[string]bool{"mocks": true, "testutil": true, "tests": true, ".git": true, "node_modules": true, "vue": true, "docs": true, "proto": true}
	err := filepath.WalkDir(c.Repo, func(p string, d fs.DirEntry, err error) error {
		if err != nil {
			return err
		}
		if d.IsDir() {
			if skipDir[d.Name()] {
				return filepath.SkipDir
			}
			return nil
		}
		n := d.Name()
		if !strings.HasSuffix(n, ".go") || strings.HasSuffix(n, "_test.go") || strings.HasPrefix(n, "verif_hooks") {
			return nil
		}
		src, err := os.ReadFile(p)
		if err != nil {
			return err
		}
		if !strings.Contains(string(src), "Reassign") && !strings.Contains(string(src), "reassignMessageValidator") {
			return nil
		}
		rel, _ := filepath.Rel(c.Repo, p)
		f, err := c.Parse(rel)
		if err != nil {
			return err
		}
		for _, dcl := range f.Decls {
			fd, ok := dcl.(*ast.FuncDecl)
			if !ok || fd.Body == nil {
				continue
			}
			who := rel + ":" + c06RecvName(fd) + "." + fd.Name.Name
			for range Calls(fd.Body, "ReassignOrphanedMessages") {
				set[who+" -> ReassignOrphanedMessages"] = true
			}
			for range Calls(fd.Body, "reassignMessageValidator") {
				if fd.Name.Name != "ReassignOrphanedMessages" {
					set[who+" -> reassignMessageValidator"] = true
				}
			}
			for range Calls(fd.Body, "ReassignValidator") {
				if fd.Name.Name == "reassignMessageValidator" || (fd.Name.Name == "ReassignValidator" && c06RecvName(fd) == "BatchQueue") {
					continue
				}
				set[who+" -> ReassignValidator"] = true
			}
		}
		return nil
	})
	if err != nil {
		return nil, err
	}
	return SortedSet(set), nil
}
