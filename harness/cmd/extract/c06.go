package main

import (
	"fmt"
	"go/ast"
	"go/token"
	"regexp"
	"io/fs"
	"os"
	"path/filepath"
	"sort"
	"strings"
)

// C06: which item fields each turnstone message kind's signing bytes cover (keccak256 methods in
// x/evm/types/turnstone_abi.go), the default estimate / fees that alias "unset", whether
// SetElectedGasEstimate clears SignData, whether UpdateBatchGasEstimate deletes the confirms, which
// actions are fee payers, and the call-graph query: ReassignOrphanedMessages / ReassignValidator
// (which keep signatures while changing the relayer) must have no production caller.
func init() { extractors["C06"] = extractC06 }

func c06UsesIdent(n ast.Node, name string) bool {
	found := false
	ast.Inspect(n, func(x ast.Node) bool {
		if id, ok := x.(*ast.Ident); ok && id.Name == name {
			found = true
		}
		return !found
	})
	return found
}

func c06UsesSelector(n ast.Node, sel string) bool {
	found := false
	ast.Inspect(n, func(x ast.Node) bool {
		if s, ok := x.(*ast.SelectorExpr); ok && s.Sel.Name == sel {
			found = true
		}
		return !found
	})
	return found
}

func c06RecvName(fd *ast.FuncDecl) string {
	if fd.Recv == nil || len(fd.Recv.List) != 1 {
		return ""
	}
	t := fd.Recv.List[0].Type
	if s, ok := t.(*ast.StarExpr); ok {
		t = s.X
	}
	if ix, ok := t.(*ast.IndexExpr); ok {
		t = ix.X
	}
	if id, ok := t.(*ast.Ident); ok {
		return id.Name
	}
	return ""
}

func c06Bool(b bool) string {
	if b {
		return "true"
	}
	return "false"
}

// c06IntLit turns a Go integer literal such as 300_000 into a Coq Z literal.
func c06IntLit(s string) (string, bool) {
	s = strings.ReplaceAll(strings.TrimSpace(s), "_", "")
	if s == "" {
		return "", false
	}
	for _, ch := range s {
		if ch < '0' || ch > '9' {
			return "", false
		}
	}
	return s, true
}

func extractC06(c *Ctx) error {
	// ---- 1. coverage of the signing bytes per message kind ----
	f, err := c.Parse("x/evm/types/turnstone_abi.go")
	if err != nil {
		return err
	}
	type cover struct {
		kind                   string
		id, est, fees, relayer bool
		defaultEstimate        string
	}
	var covers []cover
	for _, d := range f.Decls {
		fd, ok := d.(*ast.FuncDecl)
		if !ok || fd.Name.Name != "keccak256" {
			continue
		}
		r := c06RecvName(fd)
		if !strings.HasPrefix(r, "Message_") {
			return fmt.Errorf("keccak256 on unexpected receiver %q", r)
		}
		var names []string
		for _, p := range fd.Type.Params.List {
			if len(p.Names) == 0 {
				return fmt.Errorf("%s.keccak256: unnamed parameter list", r)
			}
			for _, n := range p.Names {
				names = append(names, n.Name)
			}
		}
		if len(names) != 3 {
			return fmt.Errorf("%s.keccak256: expected (orig, nonce, gasEstimate), got %v", r, names)
		}
		cv := cover{kind: strings.TrimPrefix(r, "Message_")}
		cv.id = names[1] != "_" && c06UsesIdent(fd.Body, names[1])
		cv.est = names[2] != "_" && c06UsesIdent(fd.Body, names[2])
		cv.fees = len(Calls(fd.Body, "feesOrDefault")) > 0
		cv.relayer = names[0] != "_" && c06UsesSelector(fd.Body, "AssigneeRemoteAddress")
		if cv.est {
			// if estimate == 0 { estimate = <lit> }
			ast.Inspect(fd.Body, func(x ast.Node) bool {
				is, ok := x.(*ast.IfStmt)
				if !ok || !strings.Contains(c.Src(is.Cond), "== 0") || len(is.Body.List) != 1 {
					return true
				}
				if as, ok := is.Body.List[0].(*ast.AssignStmt); ok && len(as.Rhs) == 1 {
					if v, ok := c06IntLit(c.Src(as.Rhs[0])); ok {
						cv.defaultEstimate = v
					}
				}
				return true
			})
			if cv.defaultEstimate == "" {
				return fmt.Errorf("%s.keccak256 uses the gas estimate but no `if estimate == 0 { estimate = N }` default was recognised", r)
			}
		}
		covers = append(covers, cv)
	}
	if len(covers) == 0 {
		return fmt.Errorf("no keccak256 methods found in turnstone_abi.go")
	}
	sort.Slice(covers, func(i, j int) bool { return covers[i].kind < covers[j].kind })
	c.P("(* x/evm/types/turnstone_abi.go: what <kind>.keccak256 feeds into the signing bytes:")
	c.P("   (kind, (covers message id, covers elected gas estimate, covers fees, covers relayer address)) *)")
	var rows []string
	defEst := ""
	info := map[string]string{}
	for _, cv := range covers {
		rows = append(rows, fmt.Sprintf("(%s, (%s, %s, %s, %s))", CoqStr(cv.kind), c06Bool(cv.id), c06Bool(cv.est), c06Bool(cv.fees), c06Bool(cv.relayer)))
		info[cv.kind] = fmt.Sprintf("id=%v est=%v fees=%v relayer=%v", cv.id, cv.est, cv.fees, cv.relayer)
		if cv.defaultEstimate != "" {
			if defEst != "" && defEst != cv.defaultEstimate {
				return fmt.Errorf("two different default gas estimates: %s, %s", defEst, cv.defaultEstimate)
			}
			defEst = cv.defaultEstimate
		}
	}
	c.P("Definition keccak_cover : list (string * (bool * bool * bool * bool)) :=\n  [%s].", strings.Join(rows, ";\n   "))
	if defEst == "" {
		return fmt.Errorf("no default gas estimate found")
	}
	c.P("Definition default_gas_estimate : Z := %s.", defEst)
	c.Info("keccak_cover", info)

	// feesOrDefault
	fo := FindFunc(f, "", "feesOrDefault")
	if fo == nil {
		return fmt.Errorf("feesOrDefault not found")
	}
	var dfees []string
	ast.Inspect(fo.Body, func(x ast.Node) bool {
		cl, ok := x.(*ast.CompositeLit)
		if !ok {
			return true
		}
		want := []string{"RelayerFee", "CommunityFee", "SecurityFee"}
		if len(cl.Elts) != 3 {
			return true
		}
		for i, e := range cl.Elts {
			kv, ok := e.(*ast.KeyValueExpr)
			if !ok || c.Src(kv.Key) != want[i] {
				return true
			}
			v, ok := c06IntLit(c.Src(kv.Value))
			if !ok {
				return true
			}
			dfees = append(dfees, v)
		}
		return true
	})
	if len(dfees) != 3 {
		return fmt.Errorf("feesOrDefault: default Fees{RelayerFee, CommunityFee, SecurityFee} literal not recognised")
	}
	c.P("Definition default_fees : Z * Z * Z := (%s, %s, %s).", dfees[0], dfees[1], dfees[2])

	// fee payers: actions with a SetFees method
	tm, err := c.Parse("x/evm/types/turnstone_message.go")
	if err != nil {
		return err
	}
	var payers []string
	for _, d := range tm.Decls {
		if fd, ok := d.(*ast.FuncDecl); ok && fd.Name.Name == "SetFees" {
			payers = append(payers, strings.TrimPrefix(c06RecvName(fd), "Message_"))
		}
	}
	sort.Strings(payers)
	if len(payers) == 0 {
		return fmt.Errorf("no SetFees implementations found")
	}
	c.P("Definition fee_payers : list string := %s.", CoqStrList(payers))
	c.Info("fee_payers", payers)

	// ---- 2. SetElectedGasEstimate clears SignData ----
	cf, err := c.Parse("x/consensus/types/consensus.go")
	if err != nil {
		return err
	}
	se := FindFunc(cf, "QueuedSignedMessage", "SetElectedGasEstimate")
	if se == nil {
		return fmt.Errorf("QueuedSignedMessage.SetElectedGasEstimate not found")
	}
	clears := false
	for _, st := range se.Body.List {
		if as, ok := st.(*ast.AssignStmt); ok && len(as.Lhs) == 1 && len(as.Rhs) == 1 {
			l, r := c.Src(as.Lhs[0]), c.Src(as.Rhs[0])
			if strings.HasSuffix(l, ".SignData") && (r == "nil" || strings.HasSuffix(r, "SignData{}")) {
				clears = true
			}
		}
	}
	c.P("(* x/consensus/types/consensus.go: SetElectedGasEstimate resets SignData *)")
	c.P("Definition set_elected_clears_signdata : bool := %s.", c06Bool(clears))

	// ---- 3. skyway: UpdateBatchGasEstimate deletes the confirms; default estimate of the checkpoint ----
	bf, err := c.Parse("x/skyway/keeper/batch.go")
	if err != nil {
		return err
	}
	ub := FindFunc(bf, "Keeper", "UpdateBatchGasEstimate")
	if ub == nil {
		return fmt.Errorf("skyway Keeper.UpdateBatchGasEstimate not found")
	}
	c.P("(* x/skyway/keeper/batch.go: UpdateBatchGasEstimate calls DeleteBatchConfirms inside its cache context *)")
	c.P("Definition update_estimate_deletes_confirms : bool := %s.",
		c06Bool(len(Calls(ub.Body, "DeleteBatchConfirms")) > 0 && len(Calls(ub.Body, "CacheContext")) > 0))
	tb, err := c.ParseDir("x/skyway/types")
	if err != nil {
		return err
	}
	dv, ok := ConstValue(c, tb, "cConservativeDummyGasEstimate")
	if !ok {
		return fmt.Errorf("cConservativeDummyGasEstimate not found")
	}
	dz, ok := c06IntLit(dv)
	if !ok {
		return fmt.Errorf("cConservativeDummyGasEstimate is not an integer literal: %s", dv)
	}
	c.P("Definition skyway_default_gas_estimate : Z := %s.", dz)

	// ---- 3b. the readers the clearing / duplicate paths depend on, and whatever could cut their scans short ----
	if err := c06Readers(c); err != nil {
		return err
	}

	// ---- 3c. every production site that puts a message with MsgIDToReplace (Queue.Put keeps SignData on replace) ----
	rc, err := replaceCallers(c)
	if err != nil {
		return err
	}
	c.P("(* production (non-test) functions that build PutOptions with MsgIDToReplace / assign that field: Queue.Put keeps the")
	c.P("   SignData of a replaced message, so each such caller must not change covered fields of a signed message *)")
	c.P("Definition replace_callers : list string := %s.", CoqStrList(rc))
	c.Info("replace_callers", rc)

	// ---- 4. call-graph query: who calls the signature-keeping reassignment ----
	callers, err := reassignCallers(c)
	if err != nil {
		return err
	}
	c.P("(* production (non-test) call sites of ReassignOrphanedMessages, and of ReassignValidator /")
	c.P("   reassignMessageValidator outside the chain ReassignOrphanedMessages -> reassignMessageValidator ->")
	c.P("   Queue.ReassignValidator (BatchQueue.ReassignValidator delegates) *)")
	c.P("Definition reassign_live_callers : list string := %s.", CoqStrList(callers))
	c.Info("reassign_live_callers", callers)
	return nil
}

// reassignCallers scans every non-test Go file of the tree (generated mocks and test utilities excluded).
func reassignCallers(c *Ctx) ([]string, error) {
	set := map[string]bool{}
	skipDir := map[string]bool{"mocks": true, "testutil": true, "tests": true, ".git": true, "node_modules": true, "vue": true, "docs": true, "proto": true}
	err := filepath.WalkDir(c.Repo, func(p string, d fs.DirEntry, err error) error {
		if err != nil {
			return err
		}
		if d.IsDir() {
			if skipDir[d.Name()] {
				return filepath.SkipDir
			}
			return nil
		}
		n := d.Name()
		if !strings.HasSuffix(n, ".go") || strings.HasSuffix(n, "_test.go") || strings.HasPrefix(n, "verif_hooks") {
			return nil
		}
		src, err := os.ReadFile(p)
		if err != nil {
			return err
		}
		if !strings.Contains(string(src), "Reassign") && !strings.Contains(string(src), "reassignMessageValidator") {
			return nil
		}
		rel, _ := filepath.Rel(c.Repo, p)
		f, err := c.Parse(rel)
		if err != nil {
			return err
		}
		for _, dcl := range f.Decls {
			fd, ok := dcl.(*ast.FuncDecl)
			if !ok || fd.Body == nil {
				continue
			}
			who := rel + ":" + c06RecvName(fd) + "." + fd.Name.Name
			for range Calls(fd.Body, "ReassignOrphanedMessages") {
				set[who+" -> ReassignOrphanedMessages"] = true
			}
			for range Calls(fd.Body, "reassignMessageValidator") {
				if fd.Name.Name != "ReassignOrphanedMessages" {
					set[who+" -> reassignMessageValidator"] = true
				}
			}
			for range Calls(fd.Body, "ReassignValidator") {
				if fd.Name.Name == "reassignMessageValidator" || (fd.Name.Name == "ReassignValidator" && c06RecvName(fd) == "BatchQueue") {
					continue
				}
				set[who+" -> ReassignValidator"] = true
			}
		}
		return nil
	})
	if err != nil {
		return nil, err
	}
	return SortedSet(set), nil
}

// ---------- readers behind the clearing and duplicate checks ----------

var c06BoundName = regexp.MustCompile(`(?i)^(max|limit|cap$|page|count$|top)|MaxResults|Limit|PageSize`)

// c06ScanCuts lists every construct in fd's body that can end a scan early or bound what it reads:
// break / continue / goto (except `if cb(..) { break }` on a callback PARAMETER: then the callers' callbacks decide and
// are scanned themselves), a callback literal that returns anything but `false`, a `return` inside a loop that is not an
// error return, a loop whose condition is not `<iter>.Valid()`, a slice expression with a bound, an identifier that looks
// like a limit.  An empty list = the function reads everything it iterates over.
func c06ScanCuts(c *Ctx, fd *ast.FuncDecl) []string {
	var cuts []string
	cbs := map[string]bool{}
	for _, p := range fd.Type.Params.List {
		if _, ok := p.Type.(*ast.FuncType); ok {
			for _, n := range p.Names {
				cbs[n.Name] = true
			}
		}
	}
	one := func(n ast.Node) string { return strings.Join(strings.Fields(c.Src(n)), " ") }
	isCbCall := func(e ast.Expr) bool {
		ce, ok := e.(*ast.CallExpr)
		if !ok {
			return false
		}
		id, ok := ce.Fun.(*ast.Ident)
		return ok && cbs[id.Name]
	}
	var stmts func(list []ast.Stmt, inLoop, inLit bool, guard ast.Expr)
	var exprs func(n ast.Node)
	exprs = func(n ast.Node) {
		if n == nil {
			return
		}
		ast.Inspect(n, func(x ast.Node) bool {
			switch e := x.(type) {
			case *ast.FuncLit:
				stmts(e.Body.List, false, true, nil)
				return false
			case *ast.SliceExpr:
				if e.High != nil || e.Low != nil {
					cuts = append(cuts, "slice bound "+one(e))
				}
			case *ast.Ident:
				if c06BoundName.MatchString(e.Name) {
					cuts = append(cuts, "mentions "+e.Name)
				}
			}
			return true
		})
	}
	var stmt func(s ast.Stmt, inLoop, inLit bool, guard ast.Expr)
	stmt = func(s ast.Stmt, inLoop, inLit bool, guard ast.Expr) {
		switch x := s.(type) {
		case nil:
		case *ast.BlockStmt:
			stmts(x.List, inLoop, inLit, guard)
		case *ast.ForStmt:
			stmt(x.Init, inLoop, inLit, guard)
			ok := false
			if ce, isCall := x.Cond.(*ast.CallExpr); isCall && len(ce.Args) == 0 {
				if se, isSel := ce.Fun.(*ast.SelectorExpr); isSel && se.Sel.Name == "Valid" {
					ok = true
				}
			}
			if !ok {
				cond := "<none>"
				if x.Cond != nil {
					cond = one(x.Cond)
				}
				cuts = append(cuts, "loop condition "+cond)
			}
			exprs(x.Cond)
			stmt(x.Post, inLoop, inLit, guard)
			stmts(x.Body.List, true, inLit, nil)
		case *ast.RangeStmt:
			exprs(x.X)
			stmts(x.Body.List, true, inLit, nil)
		case *ast.IfStmt:
			stmt(x.Init, inLoop, inLit, guard)
			exprs(x.Cond)
			stmts(x.Body.List, inLoop, inLit, x.Cond)
			stmt(x.Else, inLoop, inLit, x.Cond)
		case *ast.SwitchStmt:
			stmt(x.Init, inLoop, inLit, guard)
			exprs(x.Tag)
			for _, cc := range x.Body.List {
				cl := cc.(*ast.CaseClause)
				for _, e := range cl.List {
					exprs(e)
				}
				stmts(cl.Body, inLoop, inLit, x.Tag)
			}
		case *ast.TypeSwitchStmt:
			for _, cc := range x.Body.List {
				stmts(cc.(*ast.CaseClause).Body, inLoop, inLit, guard)
			}
		case *ast.SelectStmt:
			for _, cc := range x.Body.List {
				stmts(cc.(*ast.CommClause).Body, inLoop, inLit, guard)
			}
		case *ast.LabeledStmt:
			stmt(x.Stmt, inLoop, inLit, guard)
		case *ast.BranchStmt:
			g := "<unconditional>"
			if guard != nil {
				g = one(guard)
			}
			if x.Tok == token.BREAK && inLoop && guard != nil && isCbCall(guard) {
				return // the callback's own stop request
			}
			cuts = append(cuts, x.Tok.String()+" under "+g)
		case *ast.ReturnStmt:
			for _, r := range x.Results {
				exprs(r)
			}
			if inLit {
				for _, r := range x.Results {
					if id, ok := r.(*ast.Ident); ok && (id.Name == "false" || id.Name == "nil" || id.Name == "err") {
						continue
					}
					if _, isCall := r.(*ast.CallExpr); isCall {
						continue // a wrapped error / a delegated decision; callbacks of the confirm store return bools, see below
					}
					cuts = append(cuts, "callback returns "+one(r))
				}
				return
			}
			if inLoop {
				last := "<nothing>"
				if len(x.Results) > 0 {
					last = one(x.Results[len(x.Results)-1])
				}
				if last == "nil" || last == "<nothing>" || last == "true" || last == "false" {
					cuts = append(cuts, "leaves the loop early with "+one(x))
				}
			}
		default:
			exprs(s)
		}
	}
	stmts = func(list []ast.Stmt, inLoop, inLit bool, guard ast.Expr) {
		for _, s := range list {
			stmt(s, inLoop, inLit, guard)
		}
	}
	stmts(fd.Body.List, false, false, nil)
	sort.Strings(cuts)
	return cuts
}

// c06Closure: fd and every function of the package (syntactic, by name) reachable from it through calls whose name
// matches follow.
func c06Closure(files []*ast.File, root *ast.FuncDecl, follow func(string) bool) []*ast.FuncDecl {
	seen := map[string]bool{root.Name.Name: true}
	out := []*ast.FuncDecl{root}
	for i := 0; i < len(out); i++ {
		ast.Inspect(out[i].Body, func(x ast.Node) bool {
			ce, ok := x.(*ast.CallExpr)
			if !ok {
				return true
			}
			name := ""
			switch f := ce.Fun.(type) {
			case *ast.SelectorExpr:
				name = f.Sel.Name
			case *ast.Ident:
				name = f.Name
			}
			if name == "" || seen[name] || !follow(name) {
				return true
			}
			for _, f := range files {
				for _, d := range f.Decls {
					if fd, ok := d.(*ast.FuncDecl); ok && fd.Name.Name == name && fd.Body != nil {
						seen[name] = true
						out = append(out, fd)
					}
				}
			}
			return true
		})
	}
	return out
}

func c06Readers(c *Ctx) error {
	files, err := c.ParseDir("x/skyway/keeper")
	if err != nil {
		return err
	}
	isConfirmStore := func(n string) bool { return strings.Contains(n, "BatchConfirm") }
	type row struct {
		fn   string
		cuts []string
	}
	var rows []row
	seen := map[string]bool{}
	scanFrom := func(root *ast.FuncDecl) bool {
		clean := true
		for _, fd := range c06Closure(files, root, isConfirmStore) {
			cuts := c06ScanCuts(c, fd)
			if len(cuts) > 0 {
				clean = false
			}
			name := fd.Name.Name
			if r := c06RecvName(fd); r != "" {
				name = r + "." + name
			}
			if !seen[name] {
				seen[name] = true
				rows = append(rows, row{name, cuts})
			}
		}
		return clean
	}

	// (a) DeleteBatchConfirms: lists the confirms of (batch.BatchNonce, batch.TokenContract) through the getter and deletes each
	del := FindFuncIn(files, "Keeper", "DeleteBatchConfirms")
	if del == nil {
		return fmt.Errorf("skyway Keeper.DeleteBatchConfirms not found")
	}
	delAll := scanFrom(del)
	var listed string
	ast.Inspect(del.Body, func(x ast.Node) bool {
		as, ok := x.(*ast.AssignStmt)
		if !ok || len(as.Rhs) != 1 || len(as.Lhs) < 1 {
			return true
		}
		if ce, ok := as.Rhs[0].(*ast.CallExpr); ok && len(Calls(ce, "GetBatchConfirmByNonceAndTokenContract")) > 0 && len(ce.Args) == 3 &&
			strings.HasSuffix(c.Src(ce.Args[1]), ".BatchNonce") && strings.HasSuffix(c.Src(ce.Args[2]), ".TokenContract") {
			listed = c.Src(as.Lhs[0])
		}
		return true
	})
	deletesEach := false
	if listed != "" {
		for _, st := range del.Body.List {
			rs, ok := st.(*ast.RangeStmt)
			if !ok || c.Src(rs.X) != listed {
				continue
			}
			guardsOK := true
			ast.Inspect(rs.Body, func(x ast.Node) bool {
				if is, ok := x.(*ast.IfStmt); ok {
					cond := strings.Join(strings.Fields(c.Src(is.Cond)), " ")
					if cond != "err != nil" && !strings.HasPrefix(cond, "store.Has(") {
						guardsOK = false
					}
				}
				return true
			})
			deletesEach = guardsOK && len(Calls(rs.Body, "Delete")) == 1 && len(Calls(rs.Body, "GetBatchConfirmKey")) == 1
		}
	}
	if listed == "" || !deletesEach {
		delAll = false
		rows = append(rows, row{"Keeper.DeleteBatchConfirms(shape)", []string{"does not list the batch's confirms with GetBatchConfirmByNonceAndTokenContract(ctx, batch.BatchNonce, batch.TokenContract) and delete each under no condition but store.Has"}})
	}

	// (b) the one-confirmation-per-orchestrator / per-key checks of ConfirmBatch
	msf, err := c.Parse("x/skyway/keeper/msg_server.go")
	if err != nil {
		return err
	}
	cb := FindFunc(msf, "msgServer", "ConfirmBatch")
	if cb == nil {
		return fmt.Errorf("msgServer.ConfirmBatch not found")
	}
	dupAll := scanFrom(cb)
	if len(Calls(cb.Body, "GetBatchConfirmByNonceAndTokenContract")) != 1 || len(Calls(cb.Body, "GetBatchConfirm")) != 1 || len(Calls(cb.Body, "SetBatchConfirm")) != 1 {
		dupAll = false
		rows = append(rows, row{"msgServer.ConfirmBatch(shape)", []string{"expected one GetBatchConfirm (orchestrator), one GetBatchConfirmByNonceAndTokenContract (eth key) and one SetBatchConfirm"}})
	}

	// (c) the consensus queue's duplicate check reads the whole SignData
	qf, err := c.Parse("x/consensus/keeper/consensus/consensus.go")
	if err != nil {
		return err
	}
	as := FindFunc(qf, "Queue", "AddSignature")
	if as == nil {
		return fmt.Errorf("Queue.AddSignature not found")
	}
	qcuts := c06ScanCuts(c, as)
	rows = append(rows, row{"Queue.AddSignature", qcuts})
	if len(qcuts) > 0 {
		dupAll = false
	}

	c.P("(* the readers behind the clearing and duplicate checks (skyway confirm store API reachable from DeleteBatchConfirms and")
	c.P("   ConfirmBatch; Queue.AddSignature), each with the constructs that could end its scan early or bound it *)")
	var rs []string
	info := map[string][]string{}
	for _, r := range rows {
		rs = append(rs, fmt.Sprintf("(%s, %s)", CoqStr(r.fn), CoqStrList(r.cuts)))
		info[r.fn] = r.cuts
	}
	c.P("Definition confirm_readers : list (string * list string) :=\n  [%s].", strings.Join(rs, ";\n   "))
	c.Info("confirm_readers", info)
	c.P("Definition delete_confirms_reads_all : bool := %s.", c06Bool(delAll))
	c.P("Definition dup_checks_read_all : bool := %s.", c06Bool(dupAll))

	// (d) every removal path deletes the confirms
	bf, err := c.Parse("x/skyway/keeper/batch.go")
	if err != nil {
		return err
	}
	for _, p := range [][2]string{{"CancelOutgoingTXBatch", "cancel_deletes_confirms"}, {"OutgoingTxBatchExecuted", "executed_deletes_confirms"}} {
		fd := FindFunc(bf, "Keeper", p[0])
		if fd == nil {
			return fmt.Errorf("skyway Keeper.%s not found", p[0])
		}
		c.P("Definition %s : bool := %s.", p[1], c06Bool(len(Calls(fd.Body, "DeleteBatchConfirms")) > 0 && len(Calls(fd.Body, "DeleteBatch")) > 0))
	}

	// (e) confirmHandlerCommon refuses orchestrators whose validator is neither bonded nor unbonding
	ch := FindFunc(msf, "msgServer", "confirmHandlerCommon")
	if ch == nil {
		return fmt.Errorf("msgServer.confirmHandlerCommon not found")
	}
	bondGate := false
	for _, st := range ch.Body.List {
		if is, ok := st.(*ast.IfStmt); ok {
			cond := strings.Join(strings.Fields(c.Src(is.Cond)), " ")
			if cond == "!validator.IsBonded() && !validator.IsUnbonding()" && len(is.Body.List) == 1 {
				if _, ok := is.Body.List[0].(*ast.ReturnStmt); ok {
					bondGate = true
				}
			}
		}
	}
	c.P("Definition confirm_requires_bonded_or_unbonding : bool := %s.", c06Bool(bondGate))

	// (e2) compass change: does skyway's EVMActivatedChain subscriber renew the open batches of the chain?
	kf := FindFuncIn(files, "", "NewKeeper")
	refresh := false
	if kf != nil {
		for _, ce := range Calls(kf.Body, "Subscribe") {
			if len(Calls(ce, "setLatestCompassID")) == 0 {
				continue
			}
			for _, name := range []string{"refreshOpenBatchCheckpoints"} {
				rf := FindFuncIn(files, "Keeper", name)
				if len(Calls(ce, name)) > 0 && rf != nil && len(Calls(rf.Body, "GetCheckpoint")) > 0 && len(Calls(rf.Body, "DeleteBatchConfirms")) > 0 &&
					len(Calls(rf.Body, "GetOutgoingTxBatches")) > 0 && len(c06ScanCuts(c, rf)) <= 2 {
					refresh = true
				}
			}
		}
	}
	c.P("(* x/skyway/keeper: the EVMActivatedChain subscriber renews the checkpoint of the chain's open batches and deletes their")
	c.P("   confirmations (information: the model's BRebody is that renewal; histories contain it only when this is true) *)")
	c.P("Definition redeploy_refreshes_open_batches : bool := %s.", c06Bool(refresh))
	c.Info("redeploy_refreshes_open_batches", refresh)

	// (e3) the confirmation's signature field is verified as a whole: EthAddressFromSignature has a length guard and hands the
	// very slice it was given to go-ethereum's SigToPub (which refuses anything but 65 bytes) - no copy, no sub-slice
	sf, err := c.Parse("x/skyway/types/ethereum_signer.go")
	if err != nil {
		return err
	}
	ea := FindFunc(sf, "", "EthAddressFromSignature")
	if ea == nil || len(ea.Type.Params.List) != 2 || len(ea.Type.Params.List[1].Names) != 1 {
		return fmt.Errorf("EthAddressFromSignature(hash, signature) not found")
	}
	sigParam := ea.Type.Params.List[1].Names[0].Name
	guard := ""
	for _, st := range ea.Body.List {
		if is, ok := st.(*ast.IfStmt); ok {
			cond := strings.Join(strings.Fields(c.Src(is.Cond)), " ")
			if strings.HasPrefix(cond, "len("+sigParam+")") && len(is.Body.List) == 1 {
				if _, ok := is.Body.List[0].(*ast.ReturnStmt); ok {
					guard = cond
				}
			}
		}
	}
	whole := guard != ""
	stp := Calls(ea.Body, "SigToPub")
	if len(stp) != 1 || len(stp[0].Args) != 2 {
		whole = false
	} else if id, ok := stp[0].Args[1].(*ast.Ident); !ok || id.Name != sigParam {
		whole = false
	}
	exactGuard := strings.Contains(guard, "!= 65") || strings.Contains(guard, "!= crypto.SignatureLength")
	ast.Inspect(ea.Body, func(x ast.Node) bool {
		switch e := x.(type) {
		case *ast.SliceExpr:
			if id, ok := e.X.(*ast.Ident); ok && id.Name == sigParam {
				whole = false
			}
		case *ast.AssignStmt: // signature = ... / sig := signature...
			for _, l := range e.Lhs {
				if id, ok := l.(*ast.Ident); ok && id.Name == sigParam {
					whole = false
				}
			}
		}
		return true
	})
	if len(Calls(ea.Body, "copy")) > 0 && !exactGuard {
		whole = false
	}
	ve := FindFunc(sf, "", "ValidateEthereumSignature")
	if ve == nil || len(Calls(ve.Body, "EthAddressFromSignature")) != 1 {
		whole = false
	}
	c.P("(* x/skyway/types/ethereum_signer.go: EthAddressFromSignature's length guard; the signature field reaches go-ethereum's")
	c.P("   SigToPub (65 bytes or an error) as the very slice that was handed in, or the guard demands exactly 65 bytes *)")
	c.P("Definition signature_length_guard : string := %s.", CoqStr(guard))
	c.P("Definition signature_checked_whole : bool := %s.", c06Bool(whole || (exactGuard && guard != "")))

	// (e4) the compass id ConfirmBatch puts into the checkpoint it verifies against comes from the evm chain info
	fromCI := false
	if gcs := Calls(cb.Body, "GetCheckpoint"); len(gcs) == 1 && len(gcs[0].Args) == 1 {
		arg := strings.Join(strings.Fields(c.Src(gcs[0].Args[0])), "")
		if strings.HasPrefix(arg, "string(") && strings.HasSuffix(arg, ".SmartContractUniqueID)") {
			v := strings.TrimSuffix(strings.TrimPrefix(arg, "string("), ".SmartContractUniqueID)")
			ast.Inspect(cb.Body, func(x ast.Node) bool {
				as, ok := x.(*ast.AssignStmt)
				if !ok || len(as.Lhs) < 1 || len(as.Rhs) != 1 || c.Src(as.Lhs[0]) != v {
					return true
				}
				rhs := strings.Join(strings.Fields(c.Src(as.Rhs[0])), "")
				if strings.HasSuffix(rhs, "EVMKeeper.GetChainInfo(ctx,batch.ChainReferenceID)") {
					fromCI = true
				}
				return true
			})
		}
	}
	c.P("(* msgServer.ConfirmBatch: the checkpoint it verifies against is batch.GetCheckpoint(string(ci.SmartContractUniqueID)) with")
	c.P("   ci := EVMKeeper.GetChainInfo(ctx, batch.ChainReferenceID) - the compass the chain is bound to, no secondary record *)")
	c.P("Definition confirm_compass_id_from_chain_info : bool := %s.", c06Bool(fromCI))

	// (f) valset GetSigningKey: which fields of an account every key-returning exit has compared with the arguments
	vf, err := c.Parse("x/valset/keeper/keeper.go")
	if err != nil {
		return err
	}
	gs := FindFunc(vf, "Keeper", "GetSigningKey")
	if gs == nil {
		return fmt.Errorf("valset Keeper.GetSigningKey not found")
	}
	var fieldSets []map[string]bool
	var visit func(list []ast.Stmt, conds []ast.Expr)
	visit = func(list []ast.Stmt, conds []ast.Expr) {
		for _, st := range list {
			switch x := st.(type) {
			case *ast.IfStmt:
				visit(x.Body.List, append(append([]ast.Expr{}, conds...), x.Cond))
				if x.Else != nil {
					if b, ok := x.Else.(*ast.BlockStmt); ok {
						visit(b.List, conds) // the negation compares nothing for our purpose
					} else {
						visit([]ast.Stmt{x.Else}, conds)
					}
				}
			case *ast.RangeStmt:
				visit(x.Body.List, conds)
			case *ast.ForStmt:
				visit(x.Body.List, conds)
			case *ast.BlockStmt:
				visit(x.List, conds)
			case *ast.ReturnStmt:
				if len(x.Results) != 2 || c.Src(x.Results[0]) == "nil" {
					continue
				}
				set := map[string]bool{}
				for _, cd := range conds {
					ast.Inspect(cd, func(y ast.Node) bool {
						be, ok := y.(*ast.BinaryExpr)
						if !ok || be.Op != token.EQL {
							return true
						}
						for _, pair := range [][2]ast.Expr{{be.X, be.Y}, {be.Y, be.X}} {
							se, ok := pair[0].(*ast.SelectorExpr)
							id, ok2 := pair[1].(*ast.Ident)
							if ok && ok2 && (id.Name == "chainType" || id.Name == "chainReferenceID" || id.Name == "signedByAddress") {
								set[se.Sel.Name] = true
							}
						}
						return true
					})
				}
				fieldSets = append(fieldSets, set)
			}
		}
	}
	visit(gs.Body.List, nil)
	if len(fieldSets) == 0 {
		return fmt.Errorf("GetSigningKey: no key-returning exit recognised")
	}
	common := map[string]bool{}
	for k := range fieldSets[0] {
		all := true
		for _, fs := range fieldSets[1:] {
			all = all && fs[k]
		}
		if all {
			common[k] = true
		}
	}
	c.P("(* x/valset/keeper/keeper.go GetSigningKey: account fields that EVERY key-returning exit has compared (==) with the")
	c.P("   chain type / chain reference / signed-by address arguments; number of such exits *)")
	c.P("Definition signing_key_match_fields : list string := %s.", CoqStrList(SortedSet(common)))
	c.P("Definition signing_key_exits : Z := %d.", len(fieldSets))
	return nil
}

// replaceCallers scans every non-test Go file for `MsgIDToReplace: ...` inside a composite literal and for assignments
// to a `.MsgIDToReplace` field (the option's declaration and Queue.Put's own read of it are not writers).
func replaceCallers(c *Ctx) ([]string, error) {
	set := map[string]bool{}
	skipDir := map[string]bool{"mocks": true, "testutil": true, "tests": true, ".git": true, "node_modules": true, "vue": true, "docs": true, "proto": true}
	err := filepath.WalkDir(c.Repo, func(p string, d fs.DirEntry, err error) error {
		if err != nil {
			return err
		}
		if d.IsDir() {
			if skipDir[d.Name()] {
				return filepath.SkipDir
			}
			return nil
		}
		n := d.Name()
		if !strings.HasSuffix(n, ".go") || strings.HasSuffix(n, "_test.go") || strings.HasPrefix(n, "verif_hooks") {
			return nil
		}
		src, err := os.ReadFile(p)
		if err != nil {
			return err
		}
		if !strings.Contains(string(src), "MsgIDToReplace") {
			return nil
		}
		rel, _ := filepath.Rel(c.Repo, p)
		f, err := c.Parse(rel)
		if err != nil {
			return err
		}
		for _, dcl := range f.Decls {
			fd, ok := dcl.(*ast.FuncDecl)
			if !ok || fd.Body == nil {
				continue
			}
			who := rel + ":" + c06RecvName(fd) + "." + fd.Name.Name
			ast.Inspect(fd.Body, func(x ast.Node) bool {
				switch e := x.(type) {
				case *ast.KeyValueExpr:
					if id, ok := e.Key.(*ast.Ident); ok && id.Name == "MsgIDToReplace" {
						set[who] = true
					}
				case *ast.AssignStmt:
					for _, l := range e.Lhs {
						if se, ok := l.(*ast.SelectorExpr); ok && se.Sel.Name == "MsgIDToReplace" {
							set[who] = true
						}
					}
				}
				return true
			})
		}
		return nil
	})
	if err != nil {
		return nil, err
	}
	return SortedSet(set), nil
}
