package main

import (
	"fmt"
	"go/ast"
	"go/parser"
	"go/token"
	"os"
	"path/filepath"
	"sort"
	"strconv"
	"strings"
)

// C16: x/tokenfactory. Constants of the denom codec, and the *guard skeleton* of every function on
// the path of the five messages: the ordered list of calls and of non-error-propagation `if`
// conditions (with what they return). The Coq model is written against these skeletons; the
// theorem Properties/C16.model_is_of_current_source states them literally, so a dropped, added or
// reordered check in the source breaks an obligation until the model has been looked at again.
func init() { extractors["C16"] = extractC16 }

func c16ConstInt(c *Ctx, files []*ast.File, e ast.Expr, depth int) (int64, error) {
	if depth > 8 {
		return 0, fmt.Errorf("constant expression too deep")
	}
	switch x := e.(type) {
	case *ast.BasicLit:
		if x.Kind != token.INT {
			return 0, fmt.Errorf("not an int literal: %s", c.Src(x))
		}
		return strconv.ParseInt(strings.ReplaceAll(x.Value, "_", ""), 0, 64)
	case *ast.ParenExpr:
		return c16ConstInt(c, files, x.X, depth+1)
	case *ast.Ident:
		for _, f := range files {
			for _, d := range f.Decls {
				gd, ok := d.(*ast.GenDecl)
				if !ok {
					continue
				}
				for _, s := range gd.Specs {
					vs, ok := s.(*ast.ValueSpec)
					if !ok {
						continue
					}
					for i, n := range vs.Names {
						if n.Name == x.Name && i < len(vs.Values) {
							return c16ConstInt(c, files, vs.Values[i], depth+1)
						}
					}
				}
			}
		}
		return 0, fmt.Errorf("constant %s not found", x.Name)
	case *ast.BinaryExpr:
		a, err := c16ConstInt(c, files, x.X, depth+1)
		if err != nil {
			return 0, err
		}
		b, err := c16ConstInt(c, files, x.Y, depth+1)
		if err != nil {
			return 0, err
		}
		switch x.Op {
		case token.ADD:
			return a + b, nil
		case token.SUB:
			return a - b, nil
		case token.MUL:
			return a * b, nil
		}
	}
	return 0, fmt.Errorf("constant expression not understood: %s", c.Src(e))
}

func c16Callee(e ast.Expr) (string, bool) {
	ce, ok := e.(*ast.CallExpr)
	if !ok {
		return "", false
	}
	switch f := ce.Fun.(type) {
	case *ast.SelectorExpr:
		return f.Sel.Name, true
	case *ast.Ident:
		return f.Name, true
	case *ast.IndexExpr: // generic instantiation f[T](…)
		if s, ok := f.X.(*ast.SelectorExpr); ok {
			return s.Sel.Name, true
		}
	}
	return "", false
}

func c16Norm(s string) string { return strings.Join(strings.Fields(s), " ") }

// c16Ret summarises what a return statement hands back as its error (last result).
func c16Ret(c *Ctx, r *ast.ReturnStmt) string {
	if len(r.Results) == 0 {
		return "return"
	}
	last := r.Results[len(r.Results)-1]
	if name, ok := c16Callee(last); ok {
		// types.ErrX.Wrapf(...) / sdkerrors.Wrapf(ErrX, ...) / fmt.Errorf(...): keep the sentinel
		ce := last.(*ast.CallExpr)
		if sel, ok := ce.Fun.(*ast.SelectorExpr); ok && (name == "Wrapf" || name == "Wrap") {
			if strings.HasPrefix(c.Src(sel.X), "sdkerrors") || strings.HasPrefix(c.Src(sel.X), "errors") {
				if len(ce.Args) > 0 {
					return "err:" + c16Norm(c.Src(ce.Args[0]))
				}
			}
			return "err:" + c16Norm(c.Src(sel.X))
		}
		if name == "Errorf" {
			return "err:Errorf"
		}
		return "ret-call:" + name
	}
	return "err:" + c16Norm(c.Src(last))
}

func c16Skip(c *Ctx, n ast.Node) bool {
	s := c.Src(n)
	return strings.Contains(s, "EventManager") || strings.Contains(s, "UnwrapSDKContext")
}

func c16Steps(c *Ctx, stmts []ast.Stmt, out *[]string) error {
	for _, st := range stmts {
		if c16Skip(c, st) {
			continue
		}
		switch s := st.(type) {
		case *ast.AssignStmt:
			if len(s.Rhs) == 1 {
				if name, ok := c16Callee(s.Rhs[0]); ok {
					*out = append(*out, "call:"+name)
					continue
				}
			}
			lhs := make([]string, len(s.Lhs))
			for i, l := range s.Lhs {
				lhs[i] = c16Norm(c.Src(l))
			}
			*out = append(*out, "assign:"+strings.Join(lhs, ","))
		case *ast.ExprStmt:
			name, ok := c16Callee(s.X)
			if !ok {
				return fmt.Errorf("expression statement not understood: %s", c.Src(s))
			}
			*out = append(*out, "call:"+name)
		case *ast.DeclStmt:
			*out = append(*out, "decl")
		case *ast.DeferStmt:
			*out = append(*out, "defer")
		case *ast.IfStmt:
			if s.Init != nil {
				if err := c16Steps(c, []ast.Stmt{s.Init}, out); err != nil {
					return err
				}
			}
			cond := c16Norm(c.Src(s.Cond))
			if cond == "err != nil" && s.Else == nil {
				// plain error propagation: every statement of the body must be a return (or, in
				// genesis code, a panic(err), which is recorded)
				panics := false
				for _, b := range s.Body.List {
					if es, ok := b.(*ast.ExprStmt); ok {
						if name, ok := c16Callee(es.X); ok && name == "panic" {
							panics = true
							continue
						}
					}
					if _, ok := b.(*ast.ReturnStmt); !ok {
						return fmt.Errorf("error branch does more than return: %s", c.Src(s))
					}
				}
				if panics {
					*out = append(*out, "panic-on-err")
				}
				continue
			}
			var inner []string
			if err := c16Steps(c, s.Body.List, &inner); err != nil {
				return err
			}
			*out = append(*out, "if("+cond+"){"+strings.Join(inner, ";")+"}")
			if s.Else != nil {
				var els []string
				switch e := s.Else.(type) {
				case *ast.BlockStmt:
					if err := c16Steps(c, e.List, &els); err != nil {
						return err
					}
				default:
					if err := c16Steps(c, []ast.Stmt{e}, &els); err != nil {
						return err
					}
				}
				*out = append(*out, "else{"+strings.Join(els, ";")+"}")
			}
		case *ast.ReturnStmt:
			r := c16Ret(c, s)
			if r == "err:nil" || r == "err:err" {
				continue
			}
			*out = append(*out, r)
		case *ast.ForStmt:
			var inner []string
			if err := c16Steps(c, s.Body.List, &inner); err != nil {
				return err
			}
			*out = append(*out, "loop{"+strings.Join(inner, ";")+"}")
		case *ast.RangeStmt:
			var inner []string
			if err := c16Steps(c, s.Body.List, &inner); err != nil {
				return err
			}
			*out = append(*out, "range("+c16Norm(c.Src(s.X))+"){"+strings.Join(inner, ";")+"}")
		case *ast.SwitchStmt:
			if s.Tag != nil || s.Init != nil {
				return fmt.Errorf("switch with tag/init not understood: %s", c.Src(s))
			}
			for _, cc := range s.Body.List {
				cl := cc.(*ast.CaseClause)
				var conds []string
				for _, e := range cl.List {
					conds = append(conds, c16Norm(c.Src(e)))
				}
				var inner []string
				if err := c16Steps(c, cl.Body, &inner); err != nil {
					return err
				}
				*out = append(*out, "case("+strings.Join(conds, ",")+"){"+strings.Join(inner, ";")+"}")
			}
		case *ast.IncDecStmt:
			*out = append(*out, "incdec")
		case *ast.BranchStmt:
			*out = append(*out, s.Tok.String())
		default:
			return fmt.Errorf("statement shape not understood: %T %s", st, c.Src(st))
		}
	}
	return nil
}

// c16Router: every consumer of app.MsgServiceRouter() (baseapp, gov, authz, wasm, ICA host) calls the
// handler the router registered; does that handler call ValidateBasic before the service method?
// Read from the cosmos-sdk version the tree's go.mod pins, in the module cache.
func c16Router(c *Ctx) error {
	gomod, err := os.ReadFile(filepath.Join(c.Repo, "go.mod"))
	if err != nil {
		return err
	}
	ver := ""
	for _, ln := range strings.Split(string(gomod), "\n") {
		f := strings.Fields(ln)
		if len(f) >= 2 && f[0] == "github.com/cosmos/cosmos-sdk" && strings.HasPrefix(f[1], "v") {
			ver = f[1]
		}
		if len(f) >= 4 && f[0] == "github.com/cosmos/cosmos-sdk" && f[1] == "=>" {
			return fmt.Errorf("cosmos-sdk is replaced in go.mod (%s): the router must be re-read", ln)
		}
	}
	if ver == "" {
		return fmt.Errorf("cosmos-sdk version not found in go.mod")
	}
	cache := os.Getenv("GOMODCACHE")
	if cache == "" {
		gp := os.Getenv("GOPATH")
		if gp == "" {
			home, _ := os.UserHomeDir()
			gp = filepath.Join(home, "go")
		}
		cache = filepath.Join(gp, "pkg", "mod")
	}
	path := filepath.Join(cache, "github.com", "cosmos", "cosmos-sdk@"+ver, "baseapp", "msg_service_router.go")
	f, err := parser.ParseFile(c.Fset, path, nil, 0)
	if err != nil {
		return fmt.Errorf("cosmos-sdk %s router source: %v", ver, err)
	}
	// the function literal stored as msr.routes[...]: ValidateBasic must be called, and before the
	// service method handler is invoked
	found, validates := false, false
	ast.Inspect(f, func(n ast.Node) bool {
		as, ok := n.(*ast.AssignStmt)
		if !ok || len(as.Lhs) != 1 || len(as.Rhs) != 1 {
			return true
		}
		ix, ok := as.Lhs[0].(*ast.IndexExpr)
		if !ok || !strings.HasSuffix(c.Src(ix.X), ".routes") {
			return true
		}
		fl, ok := as.Rhs[0].(*ast.FuncLit)
		if !ok {
			return true
		}
		found = true
		vbPos, callPos := token.NoPos, token.NoPos
		for _, st := range fl.Body.List {
			src := c.Src(st)
			if is, ok := st.(*ast.IfStmt); ok && strings.Contains(c.Src(is.Init)+c.Src(is.Cond), "HasValidateBasic") &&
				strings.Contains(c.Src(is.Body), ".ValidateBasic()") && strings.Contains(c.Src(is.Body), "return nil, err") {
				if vbPos == token.NoPos {
					vbPos = st.Pos()
				}
			}
			if strings.Contains(src, "methodHandler(") && callPos == token.NoPos {
				callPos = st.Pos()
			}
		}
		validates = vbPos != token.NoPos && callPos != token.NoPos && vbPos < callPos
		return false
	})
	if !found {
		return fmt.Errorf("cosmos-sdk %s: msr.routes[...] = func literal not found in msg_service_router.go", ver)
	}
	c.P("(* cosmos-sdk %s baseapp/msg_service_router.go: the registered handler calls ValidateBasic before the service method *)", ver)
	c.P("Definition sdk_version : string := %s.", CoqStr(ver))
	c.P("Definition sdk_router_validates_basic : bool := %v.", validates)
	c.Info("sdk_router_validates_basic", validates)
	return nil
}

// c16DirectCallers: who, outside the msg service router, builds the tokenfactory msg server and calls
// it directly (those callers must validate themselves: their skeletons are pinned below).
func c16DirectCallers(c *Ctx) error {
	var sites []string
	for _, root := range []string{"app", "x", "util"} {
		err := filepath.Walk(filepath.Join(c.Repo, root), func(path string, info os.FileInfo, err error) error {
			if err != nil || info.IsDir() || !strings.HasSuffix(path, ".go") || strings.HasSuffix(path, "_test.go") {
				return err
			}
			f, err := parser.ParseFile(c.Fset, path, nil, 0)
			if err != nil {
				return err
			}
			alias := ""
			for _, im := range f.Imports {
				if strings.Trim(im.Path.Value, "\"") == "github.com/palomachain/paloma/v2/x/tokenfactory/keeper" {
					alias = "keeper"
					if im.Name != nil {
						alias = im.Name.Name
					}
				}
			}
			rel, _ := filepath.Rel(c.Repo, path)
			inPkg := strings.HasPrefix(rel, "x/tokenfactory/keeper/")
			if alias == "" && !inPkg {
				return nil
			}
			for _, d := range f.Decls {
				fd, ok := d.(*ast.FuncDecl)
				if !ok || fd.Body == nil {
					continue
				}
				n := 0
				ast.Inspect(fd.Body, func(x ast.Node) bool {
					ce, ok := x.(*ast.CallExpr)
					if !ok {
						return true
					}
					switch fn := ce.Fun.(type) {
					case *ast.SelectorExpr:
						if id, ok := fn.X.(*ast.Ident); ok && id.Name == alias && fn.Sel.Name == "NewMsgServerImpl" {
							n++
						}
					case *ast.Ident:
						if inPkg && fn.Name == "NewMsgServerImpl" {
							n++
						}
					}
					return true
				})
				if n > 0 {
					sites = append(sites, fmt.Sprintf("%s:%s", rel, fd.Name.Name))
				}
			}
			return nil
		})
		if err != nil {
			return err
		}
	}
	sort.Strings(sites)
	c.P("(* functions that build the tokenfactory msg server themselves (not through the router) *)")
	c.P("Definition direct_msg_server_callers : list string := %s.", CoqStrList(sites))
	c.Info("direct_msg_server_callers", len(sites))
	return nil
}

// c16GenesisOrder: is bank's InitGenesis ordered before tokenfactory's in app.go?
func c16GenesisOrder(c *Ctx) error {
	f, err := c.Parse("app/app.go")
	if err != nil {
		return err
	}
	bank, tf := -1, -1
	ast.Inspect(f, func(n ast.Node) bool {
		ce, ok := n.(*ast.CallExpr)
		if !ok {
			return true
		}
		sel, ok := ce.Fun.(*ast.SelectorExpr)
		if !ok || sel.Sel.Name != "SetOrderInitGenesis" {
			return true
		}
		for i, a := range ce.Args {
			switch c16Norm(c.Src(a)) {
			case "banktypes.ModuleName":
				bank = i
			case "tokenfactorymoduletypes.ModuleName":
				tf = i
			}
		}
		return false
	})
	if bank < 0 || tf < 0 {
		return fmt.Errorf("SetOrderInitGenesis: bank / tokenfactory not found (%d, %d)", bank, tf)
	}
	c.P("(* app/app.go SetOrderInitGenesis *)")
	c.P("Definition bank_genesis_before_tokenfactory : bool := %v.", bank < tf)
	return nil
}

// c16Ante: the loop of x/paloma VerifyAuthorisedSignatureDecorator.AnteHandle must look at every
// message: no call of next(...) inside the loop body; shape of the "signed by creator" branch and of
// the rest of the body.
func c16Ante(c *Ctx) error {
	files, err := c.ParseDir("x/paloma")
	if err != nil {
		return err
	}
	fd := FindFuncIn(files, "VerifyAuthorisedSignatureDecorator", "AnteHandle")
	if fd == nil || fd.Body == nil {
		return fmt.Errorf("VerifyAuthorisedSignatureDecorator.AnteHandle not found")
	}
	var loop *ast.RangeStmt
	for _, st := range fd.Body.List {
		if rs, ok := st.(*ast.RangeStmt); ok && c16Norm(c.Src(rs.X)) == "msgs" {
			loop = rs
		}
	}
	if loop == nil {
		return fmt.Errorf("AnteHandle: `range msgs` loop not found")
	}
	nextCalls := len(Calls(loop.Body, "next"))
	var branch, tail []string
	seen := false
	for _, st := range loop.Body.List {
		if is, ok := st.(*ast.IfStmt); ok && c16Norm(c.Src(is.Cond)) == "signedByCreator" {
			if err := c16Steps(c, is.Body.List, &branch); err != nil {
				return fmt.Errorf("AnteHandle signedByCreator branch: %v", err)
			}
			seen = true
			continue
		}
		if seen {
			if is, ok := st.(*ast.IfStmt); ok && is.Init != nil {
				// `if v, found := m[k]; found {…}` and friends: keep init in the condition text
			}
			if err := c16AnteStep(c, st, &tail); err != nil {
				return fmt.Errorf("AnteHandle loop tail: %v", err)
			}
		}
	}
	if !seen {
		return fmt.Errorf("AnteHandle: `if signedByCreator` not found in the loop")
	}
	c.P("(* x/paloma/ante.go VerifyAuthorisedSignatureDecorator.AnteHandle, the loop over the messages *)")
	c.P("Definition ante_next_calls_inside_loop : Z := %d.", nextCalls)
	c.P("Definition ante_signed_by_creator_branch : list string := %s.", CoqStrList(branch))
	c.P("Definition ante_loop_tail : list string := %s.", CoqStrList(tail))
	c.Info("ante_next_calls_inside_loop", nextCalls)
	return nil
}

// c16AnteStep: like c16Steps for one statement, but an `if x, ok := …; ok {` keeps its init in the
// condition, and error branches may log before returning.
func c16AnteStep(c *Ctx, st ast.Stmt, out *[]string) error {
	switch s := st.(type) {
	case *ast.IfStmt:
		cond := c16Norm(c.Src(s.Cond))
		if s.Init != nil {
			cond = c16Norm(c.Src(s.Init)) + "; " + cond
		}
		if cond == "err != nil" {
			return nil
		}
		var inner []string
		for _, b := range s.Body.List {
			if err := c16AnteStep(c, b, &inner); err != nil {
				return err
			}
		}
		*out = append(*out, "if("+cond+"){"+strings.Join(inner, ";")+"}")
		return nil
	case *ast.RangeStmt:
		var inner []string
		for _, b := range s.Body.List {
			if err := c16AnteStep(c, b, &inner); err != nil {
				return err
			}
		}
		*out = append(*out, "range("+c16Norm(c.Src(s.X))+"){"+strings.Join(inner, ";")+"}")
		return nil
	}
	return c16Steps(c, []ast.Stmt{st}, out)
}

func extractC16(c *Ctx) error {
	types, err := c.ParseDir("x/tokenfactory/types")
	if err != nil {
		return err
	}
	keeper, err := c.ParseDir("x/tokenfactory/keeper")
	if err != nil {
		return err
	}
	// ---- constants of types/denoms.go ----
	pfx, ok := ConstValue(c, types, "ModuleDenomPrefix")
	if !ok || !strings.HasPrefix(pfx, "\"") {
		return fmt.Errorf("ModuleDenomPrefix string constant not found (got %q)", pfx)
	}
	prefix, err := strconv.Unquote(pfx)
	if err != nil {
		return err
	}
	c.P("(* x/tokenfactory/types/denoms.go *)")
	c.P("Definition module_denom_prefix : string := %s.", CoqStr(prefix))
	for _, kv := range [][2]string{{"MaxSubdenomLength", "max_subdenom_length"}, {"MaxHrpLength", "max_hrp_length"}, {"MaxCreatorLength", "max_creator_length"}} {
		v, err := c16ConstInt(c, types, &ast.Ident{Name: kv[0]}, 0)
		if err != nil {
			return fmt.Errorf("%s: %v", kv[0], err)
		}
		c.P("Definition %s : Z := %d.", kv[1], v)
		c.Info(kv[0], v)
	}
	mod, ok := ConstValue(c, types, "ModuleName")
	if !ok {
		return fmt.Errorf("ModuleName not found")
	}
	c.P("Definition module_name : string := %s.", CoqStr(strings.Trim(mod, "\"")))

	// ---- guard skeletons ----
	type fn struct {
		files      []*ast.File
		recv, name string
		coq        string
	}
	fns := []fn{
		{keeper, "msgServer", "CreateDenom", "srv_create_denom"},
		{keeper, "msgServer", "Mint", "srv_mint"},
		{keeper, "msgServer", "Burn", "srv_burn"},
		{keeper, "msgServer", "ChangeAdmin", "srv_change_admin"},
		{keeper, "msgServer", "SetDenomMetadata", "srv_set_denom_metadata"},
		{keeper, "Keeper", "mintTo", "k_mint_to"},
		{keeper, "Keeper", "burnFrom", "k_burn_from"},
		{keeper, "Keeper", "CreateDenom", "k_create_denom"},
		{keeper, "Keeper", "validateCreateDenom", "k_validate_create_denom"},
		{keeper, "Keeper", "chargeForCreateDenom", "k_charge_for_create_denom"},
		{keeper, "Keeper", "createDenomAfterValidation", "k_create_denom_after_validation"},
		{keeper, "Keeper", "GetAuthorityMetadata", "k_get_authority_metadata"},
		{keeper, "Keeper", "setAuthorityMetadata", "k_set_authority_metadata"},
		{keeper, "Keeper", "setAdmin", "k_set_admin"},
		{types, "", "GetTokenDenom", "t_get_token_denom"},
		{types, "", "DeconstructDenom", "t_deconstruct_denom"},
		{types, "DenomAuthorityMetadata", "Validate", "t_authority_validate"},
		{types, "MsgCreateDenom", "ValidateBasic", "vb_create_denom"},
		{types, "MsgMint", "ValidateBasic", "vb_mint"},
		{types, "MsgBurn", "ValidateBasic", "vb_burn"},
		{types, "MsgChangeAdmin", "ValidateBasic", "vb_change_admin"},
		{types, "MsgSetDenomMetadata", "ValidateBasic", "vb_set_denom_metadata"},
	}
	// ---- second round: bindings, params, genesis, index, libmeta ----
	bindings, err := c.ParseDir("x/tokenfactory/bindings")
	if err != nil {
		return err
	}
	libmeta, err := c.ParseDir("util/libmeta")
	if err != nil {
		return err
	}
	fns = append(fns,
		fn{bindings, "customMessenger", "DispatchMsg", "b_dispatch"},
		fn{bindings, "", "PerformCreateDenom", "b_perform_create_denom"},
		fn{bindings, "", "PerformMint", "b_perform_mint"},
		fn{bindings, "", "ChangeAdmin", "b_change_admin"},
		fn{bindings, "", "PerformBurn", "b_perform_burn"},
		fn{bindings, "", "PerformSetMetadata", "b_perform_set_metadata"},
		fn{bindings, "", "parseAddress", "b_parse_address"},
		fn{keeper, "msgServer", "UpdateParams", "srv_update_params"},
		fn{types, "MsgUpdateParams", "ValidateBasic", "vb_update_params"},
		fn{keeper, "Keeper", "addDenomFromCreator", "k_add_denom_from_creator"},
		fn{keeper, "Keeper", "GetDenomsFromCreator", "k_get_denoms_from_creator"},
		fn{keeper, "Keeper", "InitGenesis", "k_init_genesis"},
		fn{keeper, "Keeper", "ExportGenesis", "k_export_genesis"},
		fn{types, "GenesisState", "Validate", "t_genesis_validate"},
		fn{libmeta, "", "ValidateBasic", "libmeta_validate_basic"},
	)
	if err := c16Router(c); err != nil {
		return err
	}
	if err := c16DirectCallers(c); err != nil {
		return err
	}
	if err := c16GenesisOrder(c); err != nil {
		return err
	}
	if err := c16Ante(c); err != nil {
		return err
	}
	c.P("")
	c.P("(* guard skeletons: ordered calls and non-error-propagation conditions *)")
	for _, f := range fns {
		fd := FindFuncIn(f.files, f.recv, f.name)
		if fd == nil || fd.Body == nil {
			return fmt.Errorf("function %s.%s not found", f.recv, f.name)
		}
		var steps []string
		if err := c16Steps(c, fd.Body.List, &steps); err != nil {
			return fmt.Errorf("%s.%s: %v", f.recv, f.name, err)
		}
		c.P("Definition %s : list string := %s.", f.coq, CoqStrList(steps))
		c.Info(f.coq, len(steps))
	}
	return nil
}
