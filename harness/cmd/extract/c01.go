package main

import (
	"fmt"
	"go/ast"
	"go/token"
	"strconv"
	"strings"
)

// C01: constants of the batch life cycle (batch size, build period, timeout), which bridge
// functions run on a cached context committed on success, the order of the state writes and
// collaborator calls inside send / cancel / build, the chain filters of pickUnbatchedTxs and
// OutgoingTxBatchExecuted, the deposit fallback condition, and the order of the end-blocker steps.
func init() { extractors["C01"] = extractC01 }

// c01CallOrder lists, in source order, the calls inside fd whose last selector is in names.
func c01CallOrder(fd *ast.FuncDecl, names map[string]bool) []string {
	type hit struct {
		pos  token.Pos
		name string
	}
	var hits []hit
	ast.Inspect(fd.Body, func(x ast.Node) bool {
		ce, ok := x.(*ast.CallExpr)
		if !ok {
			return true
		}
		n := ""
		switch f := ce.Fun.(type) {
		case *ast.SelectorExpr:
			n = f.Sel.Name
		case *ast.Ident:
			n = f.Name
		}
		if names[n] {
			hits = append(hits, hit{ce.Pos(), n})
		}
		return true
	})
	for i := 1; i < len(hits); i++ {
		for j := i; j > 0 && hits[j].pos < hits[j-1].pos; j-- {
			hits[j], hits[j-1] = hits[j-1], hits[j]
		}
	}
	out := make([]string, len(hits))
	for i, h := range hits {
		out[i] = h.name
	}
	return out
}

func c01Set(xs ...string) map[string]bool {
	m := map[string]bool{}
	for _, x := range xs {
		m[x] = true
	}
	return m
}

// c01Cached: the body takes a CacheContext and has exactly one commit() call, guarded by an if.
func c01Cached(c *Ctx, fd *ast.FuncDecl) (bool, error) {
	if len(Calls(fd.Body, "CacheContext")) == 0 {
		return false, nil
	}
	guarded, total := 0, 0
	var walk func(n ast.Node, inIf bool)
	walk = func(n ast.Node, inIf bool) {
		ast.Inspect(n, func(x ast.Node) bool {
			switch v := x.(type) {
			case *ast.IfStmt:
				if v.Init != nil {
					walk(v.Init, inIf)
				}
				walk(v.Cond, inIf)
				walk(v.Body, true)
				if v.Else != nil {
					walk(v.Else, true)
				}
				return false
			case *ast.CallExpr:
				if id, ok := v.Fun.(*ast.Ident); ok && id.Name == "commit" {
					total++
					if inIf {
						guarded++
					}
				}
			}
			return true
		})
	}
	walk(fd.Body, false)
	if total != 1 || guarded != 1 {
		return false, fmt.Errorf("%s: CacheContext with %d commit() calls, %d guarded — shape not understood", fd.Name.Name, total, guarded)
	}
	return true, nil
}

func extractC01(c *Ctx) error {
	kfiles, err := c.ParseDir("x/skyway/keeper")
	if err != nil {
		return err
	}
	abci, err := c.Parse("x/skyway/abci.go")
	if err != nil {
		return err
	}
	need := func(files []*ast.File, recv, name string) (*ast.FuncDecl, error) {
		fd := FindFuncIn(files, recv, name)
		if fd == nil || fd.Body == nil {
			return nil, fmt.Errorf("function %s.%s not found", recv, name)
		}
		return fd, nil
	}

	// --- constants ---
	sv, ok := ConstValue(c, kfiles, "OutgoingTxBatchSize")
	if !ok {
		return fmt.Errorf("OutgoingTxBatchSize not found")
	}
	size, err := strconv.ParseInt(sv, 0, 64)
	if err != nil {
		return fmt.Errorf("OutgoingTxBatchSize = %s is not an integer literal", sv)
	}
	c.P("(* x/skyway/keeper/batch.go const OutgoingTxBatchSize *)")
	c.P("Definition batch_size : Z := %d.", size)
	c.Info("batch_size", size)

	cb, err := need([]*ast.File{abci}, "", "createBatch")
	if err != nil {
		return err
	}
	period := int64(-1)
	ast.Inspect(cb.Body, func(x ast.Node) bool {
		be, ok := x.(*ast.BinaryExpr)
		if !ok || be.Op != token.EQL {
			return true
		}
		rem, ok := be.X.(*ast.BinaryExpr)
		if !ok || rem.Op != token.REM || !strings.Contains(c.Src(rem.X), "BlockHeight()") || c.Src(be.Y) != "0" {
			return true
		}
		if lit, ok := rem.Y.(*ast.BasicLit); ok {
			if n, err := strconv.ParseInt(lit.Value, 0, 64); err == nil {
				period = n
			}
		}
		return true
	})
	if period <= 0 {
		return fmt.Errorf("createBatch: `BlockHeight()%%N == 0` not found")
	}
	c.P("(* x/skyway/abci.go createBatch: sdkCtx.BlockHeight()%%N == 0 *)")
	c.P("Definition batch_period : Z := %d.", period)
	c.Info("batch_period", period)
	bcalls := Calls(cb.Body, "BuildOutgoingTXBatch")
	if len(bcalls) != 1 || len(bcalls[0].Args) != 4 || c.Src(bcalls[0].Args[3]) != "keeper.OutgoingTxBatchSize" {
		return fmt.Errorf("createBatch: expected one BuildOutgoingTXBatch(ctx, chain, contract, keeper.OutgoingTxBatchSize) call")
	}

	to, err := need(kfiles, "Keeper", "getBatchTimeoutHeight")
	if err != nil {
		return err
	}
	adds := Calls(to.Body, "Add")
	if len(adds) != 1 || len(adds[0].Args) != 1 || !strings.Contains(c.Src(adds[0].Fun), "BlockTime()") {
		return fmt.Errorf("getBatchTimeoutHeight: expected BlockTime().Add(<duration>)")
	}
	ns, err := c12Dur(c, adds[0].Args[0])
	if err != nil {
		return err
	}
	if ns%1000000000 != 0 {
		return fmt.Errorf("batch timeout %d ns is not a whole number of seconds", ns)
	}
	c.P("(* x/skyway/keeper/batch.go getBatchTimeoutHeight: BlockTime().Add(%s).Unix() *)", c.Src(adds[0].Args[0]))
	c.P("Definition batch_timeout_secs : Z := %d.", ns/1000000000)
	c.Info("batch_timeout_secs", ns/1000000000)

	// --- which functions are all-or-nothing by themselves ---
	var cached []string
	for _, n := range []string{"BuildOutgoingTXBatch", "CancelOutgoingTXBatch", "OutgoingTxBatchExecuted", "UpdateBatchGasEstimate", "processAttestation", "AddToOutgoingPool", "RemoveFromOutgoingPoolAndRefund"} {
		fd, err := need(kfiles, "Keeper", n)
		if err != nil {
			return err
		}
		is, err := c01Cached(c, fd)
		if err != nil {
			return err
		}
		if is {
			cached = append(cached, n)
		}
	}
	c.P("(* keeper functions that run on a CacheContext committed by a single guarded commit() *)")
	c.P("Definition cached_context_fns : list string := %s.", CoqStrList(cached))
	c.Info("cached_context_fns", cached)

	// --- order of writes and collaborator calls ---
	order := func(name string, names ...string) error {
		fd, err := need(kfiles, "Keeper", name)
		if err != nil {
			return err
		}
		o := c01CallOrder(fd, c01Set(names...))
		c.P("Definition order_%s : list string := %s.", name, CoqStrList(o))
		c.Info("order_"+name, o)
		return nil
	}
	c.P("(* source order of the state writes and fallible collaborator calls *)")
	if err := order("AddToOutgoingPool", "GetERC20OfDenom", "SendCoinsFromAccountToModule", "autoIncrementID", "addUnbatchedTX", "GetChainInfo"); err != nil {
		return err
	}
	if err := order("RemoveFromOutgoingPoolAndRefund", "GetUnbatchedTxById", "removeUnbatchedTX", "GetDenomOfERC20", "SendCoinsFromModuleToAccount", "GetChainInfo"); err != nil {
		return err
	}
	if err := order("BuildOutgoingTXBatch", "pickUnbatchedTxs", "GetChainInfo", "autoIncrementID", "PickValidatorForMessage", "GetEthAddressByValidator", "StoreBatch"); err != nil {
		return err
	}
	if err := order("CancelOutgoingTXBatch", "GetOutgoingTXBatch", "addUnbatchedTX", "DeleteBatch", "GetChainInfo"); err != nil {
		return err
	}
	if err := order("OutgoingTxBatchExecuted", "GetOutgoingTXBatch", "GetDenomOfERC20", "BurnCoins", "DeleteBatch"); err != nil {
		return err
	}
	hs, err := need(kfiles, "AttestationHandler", "handleSendToPaloma")
	if err != nil {
		return err
	}
	ho := c01CallOrder(hs, c01Set("GetDenomOfERC20", "MintCoins", "sendCoinToLocalAddress", "SendToCommunityPool"))
	c.P("Definition order_handleSendToPaloma : list string := %s.", CoqStrList(ho))
	c.Info("order_handleSendToPaloma", ho)

	// --- chain filters ---
	mentions := func(fd *ast.FuncDecl, op token.Token, a, b string) bool {
		found := false
		ast.Inspect(fd.Body, func(x ast.Node) bool {
			be, ok := x.(*ast.BinaryExpr)
			if ok && be.Op == op {
				l, r := c.Src(be.X), c.Src(be.Y)
				if (strings.Contains(l, a) && strings.Contains(r, b)) || (strings.Contains(l, b) && strings.Contains(r, a)) {
					found = true
				}
			}
			return true
		})
		return found
	}
	pk, err := need(kfiles, "Keeper", "pickUnbatchedTxs")
	if err != nil {
		return err
	}
	pickChain := mentions(pk, token.NEQ, "Erc20Token.ChainReferenceID", "chainReferenceID")
	c.P("(* pickUnbatchedTxs skips transfers whose chain differs from the batch's *)")
	c.P("Definition pick_filters_chain : bool := %v.", pickChain)
	c.Info("pick_filters_chain", pickChain)
	ex, err := need(kfiles, "Keeper", "OutgoingTxBatchExecuted")
	if err != nil {
		return err
	}
	exChain := mentions(ex, token.NEQ, "b.ChainReferenceID", "claim.GetChainReferenceId()")
	c.P("(* OutgoingTxBatchExecuted rejects a claim from another chain than the batch's *)")
	c.P("Definition executed_checks_chain : bool := %v.", exChain)
	c.Info("executed_checks_chain", exChain)
	exTimeout := mentions(ex, token.LEQ, "b.BatchTimeout", "claim.EthBlockHeight")
	c.P("Definition executed_checks_timeout : bool := %v.", exTimeout)
	c.Info("executed_checks_timeout", exTimeout)

	// --- deposit fallback: the variable holding sendCoinToLocalAddress's error is never reassigned
	//     and `if <it> != nil` sets invalidAddress ---
	sendVar := ""
	ast.Inspect(hs.Body, func(x ast.Node) bool {
		as, ok := x.(*ast.AssignStmt)
		if ok && len(as.Rhs) == 1 && len(as.Lhs) == 1 && len(Calls(as.Rhs[0], "sendCoinToLocalAddress")) == 1 {
			if id, ok := as.Lhs[0].(*ast.Ident); ok {
				sendVar = id.Name
			}
		}
		return true
	})
	if sendVar == "" {
		return fmt.Errorf("handleSendToPaloma: assignment from sendCoinToLocalAddress not found")
	}
	var sendDef *ast.AssignStmt
	reassigned := false
	fallback := false
	ast.Inspect(hs.Body, func(x ast.Node) bool {
		switch v := x.(type) {
		case *ast.AssignStmt:
			for _, l := range v.Lhs {
				if id, ok := l.(*ast.Ident); ok && id.Name == sendVar {
					if len(v.Rhs) == 1 && len(Calls(v.Rhs[0], "sendCoinToLocalAddress")) == 1 && sendDef == nil {
						sendDef = v
					} else if sendDef != nil && v.Pos() > sendDef.Pos() {
						reassigned = true
					}
				}
			}
		case *ast.IfStmt:
			if sendDef != nil && v.Pos() > sendDef.Pos() && c.Src(v.Cond) == sendVar+" != nil" && strings.Contains(c.Src(v.Body), "invalidAddress = true") {
				fallback = true
			}
		}
		return true
	})
	dep := fallback && !reassigned
	c.P("(* handleSendToPaloma: a failed send to the receiver triggers the community-pool fallback *)")
	c.P("Definition deposit_fallback_on_send_error : bool := %v.", dep)
	c.Info("deposit_fallback_on_send_error", dep)

	// --- end-blocker order ---
	eb, err := need([]*ast.File{abci}, "", "EndBlocker")
	if err != nil {
		return err
	}
	eo := c01CallOrder(eb, c01Set("createBatch", "attestationTally", "pruneAttestations", "processGasEstimates", "cleanupTimedOutBatches"))
	c.P("Definition order_EndBlocker : list string := %s.", CoqStrList(eo))
	c.Info("order_EndBlocker", eo)
	cl, err := need([]*ast.File{abci}, "", "cleanupTimedOutBatches")
	if err != nil {
		return err
	}
	sweepCmp := mentions(cl, token.LSS, "batch.BatchTimeout", "currentTime")
	c.P("Definition sweep_cancels_when_timeout_lt_now : bool := %v.", sweepCmp)
	c.Info("sweep_cancels_when_timeout_lt_now", sweepCmp)
	return extractC01Round2(c, kfiles, abci, cached)
}

// c01PanicSafe: the function's commit() cannot run while a panic unwinds: it is not inside a deferred
// function literal, or that literal first re-raises a recovered panic (`if r := recover(); r != nil { panic(r) }`).
func c01PanicSafe(c *Ctx, fd *ast.FuncDecl) bool {
	safe := true
	ast.Inspect(fd.Body, func(x ast.Node) bool {
		ds, ok := x.(*ast.DeferStmt)
		if !ok {
			return true
		}
		fl, ok := ds.Call.Fun.(*ast.FuncLit)
		if !ok || len(Calls(fl.Body, "commit")) == 0 {
			return true
		}
		// the statement before the one holding commit() must be the re-raise
		reraised := false
		for _, st := range fl.Body.List {
			if len(Calls(st, "commit")) > 0 {
				break
			}
			if is, ok := st.(*ast.IfStmt); ok && is.Init != nil && len(Calls(is.Init, "recover")) == 1 && len(Calls(is.Body, "panic")) == 1 {
				reraised = true
			}
		}
		if !reraised {
			safe = false
		}
		return true
	})
	return safe
}

// funcs containing a call of the given name (function declarations of the files, by name)
func c01Callers(files []*ast.File, callee string) []string {
	set := map[string]bool{}
	for _, f := range files {
		for _, d := range f.Decls {
			if fd, ok := d.(*ast.FuncDecl); ok && fd.Body != nil && len(Calls(fd.Body, callee)) > 0 {
				set[fd.Name.Name] = true
			}
		}
	}
	return SortedSet(set)
}

func extractC01Round2(c *Ctx, kfiles []*ast.File, abci *ast.File, cached []string) error {
	need := func(files []*ast.File, recv, name string) (*ast.FuncDecl, error) {
		fd := FindFuncIn(files, recv, name)
		if fd == nil || fd.Body == nil {
			return nil, fmt.Errorf("function %s.%s not found", recv, name)
		}
		return fd, nil
	}
	// --- which cached-context functions survive a collaborator panic without committing ---
	var psafe []string
	for _, n := range cached {
		fd, err := need(kfiles, "Keeper", n)
		if err != nil {
			return err
		}
		if c01PanicSafe(c, fd) {
			psafe = append(psafe, n)
		}
	}
	// --- the deferred "commit only if <v> == nil" must read a NAMED RESULT: then every return statement,
	//     also one that builds a fresh error, assigns it before the deferred function runs.  With a local
	//     variable a `return nil, fmt.Errorf(...)` leaves it nil and the half-done change is committed. ---
	var named []string
	for _, n := range cached {
		fd, err := need(kfiles, "Keeper", n)
		if err != nil {
			return err
		}
		results := map[string]bool{}
		if fd.Type.Results != nil {
			for _, f := range fd.Type.Results.List {
				for _, id := range f.Names {
					results[id.Name] = true
				}
			}
		}
		ok := false
		ast.Inspect(fd.Body, func(x ast.Node) bool {
			ds, isDefer := x.(*ast.DeferStmt)
			if !isDefer {
				return true
			}
			fl, isLit := ds.Call.Fun.(*ast.FuncLit)
			if !isLit {
				return true
			}
			ast.Inspect(fl.Body, func(y ast.Node) bool {
				is, isIf := y.(*ast.IfStmt)
				if !isIf || len(Calls(is.Body, "commit")) == 0 {
					return true
				}
				if be, isBin := is.Cond.(*ast.BinaryExpr); isBin && be.Op == token.EQL && c.Src(be.Y) == "nil" {
					if id, isId := be.X.(*ast.Ident); isId && results[id.Name] {
						ok = true
					}
				}
				return true
			})
			return true
		})
		if ok {
			named = append(named, n)
		}
	}
	c.P("(* cached-context functions whose deferred commit is guarded by `<named result> == nil` *)")
	c.P("Definition deferred_commit_reads_named_result : list string := %s.", CoqStrList(named))
	c.Info("deferred_commit_reads_named_result", named)
	c.P("(* cached-context functions whose commit() cannot run while a panic unwinds *)")
	c.P("Definition panic_safe_commit_fns : list string := %s.", CoqStrList(psafe))
	c.Info("panic_safe_commit_fns", psafe)
	eb, err := need([]*ast.File{abci}, "", "EndBlocker")
	if err != nil {
		return err
	}
	recovers := false
	for _, st := range eb.Body.List {
		if ds, ok := st.(*ast.DeferStmt); ok && len(Calls(ds.Call, "recover")) == 1 {
			recovers = true
		}
	}
	c.P("Definition endblocker_recovers_panics : bool := %v.", recovers)
	c.Info("endblocker_recovers_panics", recovers)

	// --- the denom table: who writes it, who deletes from it, which writers check the binding first ---
	writers, deleters := map[string]bool{}, map[string]bool{}
	for _, f := range kfiles {
		for _, d := range f.Decls {
			fd, ok := d.(*ast.FuncDecl)
			if !ok || fd.Body == nil {
				continue
			}
			ast.Inspect(fd.Body, func(x ast.Node) bool {
				ce, ok := x.(*ast.CallExpr)
				if !ok {
					return true
				}
				src := c.Src(ce)
				if !strings.Contains(src, "GetDenomToERC20Key") && !strings.Contains(src, "GetERC20ToDenomKey") {
					return true
				}
				n := ""
				switch f := ce.Fun.(type) {
				case *ast.SelectorExpr:
					n = f.Sel.Name
				case *ast.Ident:
					n = f.Name
				}
				switch n {
				case "Save", "Set":
					writers[fd.Name.Name] = true
				case "Delete":
					deleters[fd.Name.Name] = true
				}
				return true
			})
		}
	}
	c.P("(* functions that write / delete entries of the DenomToERC20 / ERC20ToDenom indexes *)")
	c.P("Definition denom_table_writers : list string := %s.", CoqStrList(SortedSet(writers)))
	c.P("Definition denom_table_deleters : list string := %s.", CoqStrList(SortedSet(deleters)))
	c.Info("denom_table_writers", SortedSet(writers))
	c.Info("denom_table_deleters", SortedSet(deleters))
	callers := c01Callers(kfiles, "setDenomToERC20")
	c.P("Definition setDenomToERC20_callers : list string := %s.", CoqStrList(callers))
	c.Info("setDenomToERC20_callers", callers)
	var checking []string
	for _, n := range callers {
		for _, f := range kfiles {
			for _, d := range f.Decls {
				fd, ok := d.(*ast.FuncDecl)
				if !ok || fd.Body == nil || fd.Name.Name != n {
					continue
				}
				sets := Calls(fd.Body, "setDenomToERC20")
				gets := Calls(fd.Body, "GetDenomOfERC20")
				if len(sets) > 0 && len(gets) > 0 && gets[0].Pos() < sets[0].Pos() && strings.Contains(c.Src(fd.Body), "ErrDuplicateBinding") {
					checking = append(checking, n)
				}
			}
		}
	}
	c.P("(* ... of which look the contract up first and refuse a bound one (ErrDuplicateBinding) *)")
	c.P("Definition setDenomToERC20_callers_checking_binding : list string := %s.", CoqStrList(checking))
	c.Info("setDenomToERC20_callers_checking_binding", checking)
	sd, err := need(kfiles, "Keeper", "setDenomToERC20")
	if err != nil {
		return err
	}
	so := c01CallOrder(sd, c01Set("GetDenomToERC20Key", "GetERC20ToDenomKey"))
	c.P("Definition order_setDenomToERC20 : list string := %s.", CoqStrList(so))
	c.Info("order_setDenomToERC20", so)
	ad, err := need(kfiles, "msgServer", "SetERC20ToTokenDenom")
	if err != nil {
		return err
	}
	ao := c01CallOrder(ad, c01Set("GetChainInfo", "GetAuthorityMetadata", "GetDenomOfERC20", "setDenomToERC20"))
	c.P("Definition order_SetERC20ToTokenDenom : list string := %s.", CoqStrList(ao))
	c.Info("order_SetERC20ToTokenDenom", ao)

	// --- the transfer-limit check and the tax come before anything is written ---
	ap, err := need(kfiles, "Keeper", "AddToOutgoingPool")
	if err != nil {
		return err
	}
	apo := c01CallOrder(ap, c01Set("UpdateBridgeTransferUsageWithLimit", "bridgeTaxAmount", "GetERC20OfDenom", "SendCoinsFromAccountToModule"))
	c.P("Definition order_AddToOutgoingPool_checks : list string := %s.", CoqStrList(apo))
	c.Info("order_AddToOutgoingPool_checks", apo)

	// --- the end-blocker's steps ---
	cb, err := need([]*ast.File{abci}, "", "createBatch")
	if err != nil {
		return err
	}
	cbo := c01CallOrder(cb, c01Set("GetAllERC20ToDenoms", "GetERC20OfDenom", "BuildOutgoingTXBatch"))
	c.P("Definition order_createBatch : list string := %s.", CoqStrList(cbo))
	c.Info("order_createBatch", cbo)
	ta, err := need(kfiles, "Keeper", "TryAttestation")
	if err != nil {
		return err
	}
	tao := c01CallOrder(ta, c01Set("SetLastObservedEthereumBlockHeight", "setLastObservedSkywayNonce", "SetAttestation", "processAttestation", "emitObservedEvent"))
	c.P("Definition order_TryAttestation : list string := %s.", CoqStrList(tao))
	c.Info("order_TryAttestation", tao)
	eo, err := need(kfiles, "Keeper", "emitObservedEvent")
	if err != nil {
		return err
	}
	eoo := c01CallOrder(eo, c01Set("GetChainInfo"))
	c.P("Definition order_emitObservedEvent : list string := %s.", CoqStrList(eoo))
	c.Info("order_emitObservedEvent", eoo)
	pg, err := need([]*ast.File{abci}, "", "processGasEstimates")
	if err != nil {
		return err
	}
	pgo := c01CallOrder(pg, c01Set("IterateOutgoingTxBatches", "GetBatchGasEstimateByNonceAndTokenContract", "VerifyGasEstimates", "UpdateBatchGasEstimate"))
	c.P("Definition order_processGasEstimates : list string := %s.", CoqStrList(pgo))
	c.Info("order_processGasEstimates", pgo)
	// processAttestation swallows the handler's error (returns nil after logging) and commits only in the else branch
	pa, err := need(kfiles, "Keeper", "processAttestation")
	if err != nil {
		return err
	}
	swallow := false
	ast.Inspect(pa.Body, func(x ast.Node) bool {
		is, ok := x.(*ast.IfStmt)
		if !ok || is.Init == nil || len(Calls(is.Init, "Handle")) != 1 || is.Else == nil {
			return true
		}
		if len(Calls(is.Body, "commit")) == 0 && len(Calls(is.Else, "commit")) == 1 {
			swallow = true
		}
		return true
	})
	if last, ok := pa.Body.List[len(pa.Body.List)-1].(*ast.ReturnStmt); !ok || len(last.Results) != 1 || c.Src(last.Results[0]) != "nil" {
		swallow = false
	}
	c.P("Definition processAttestation_commits_only_on_handler_success_and_returns_nil : bool := %v.", swallow)
	c.Info("processAttestation_commits_only_on_handler_success_and_returns_nil", swallow)
	return extractC01Genesis(c, kfiles)
}

// extractC01Genesis: what ExportGenesis reads for the pool, the batches and the denom table (whole-store
// iterators; a per-token / per-index / filtered export is another list or breaks a flag), and what
// InitGenesis writes them back with.
func extractC01Genesis(c *Ctx, kfiles []*ast.File) error {
	need := func(recv, name string) (*ast.FuncDecl, error) {
		fd := FindFuncIn(kfiles, recv, name)
		if fd == nil || fd.Body == nil {
			return nil, fmt.Errorf("function %s.%s not found", recv, name)
		}
		return fd, nil
	}
	ex, err := need("", "ExportGenesis")
	if err != nil {
		return err
	}
	reads := c01CallOrder(ex, c01Set("GetUnbatchedTransactions", "GetUnbatchedTransactionsByContract", "IterateUnbatchedTransactions",
		"IterateUnbatchedTransactionsByContract", "GetUnbatchedTxById", "GetUnbatchedTxByAmountAndId", "collectUnbatchedTransactions",
		"filterAndIterateUnbatchedTransactions", "GetOutgoingTxBatches", "GetOutgoingTXBatch", "IterateOutgoingTxBatches",
		"GetOutgoingTxBatchesByNonce", "GetLastOutgoingBatchByTokenType", "GetUnSlashedBatches",
		"GetAllERC20ToDenoms", "GetAllERC20ToDenomsByContract", "GetAllDenomToERC20s", "GetERC20OfDenom", "GetDenomOfERC20", "CastAllERC20ToDenoms"))
	c.P("(* ExportGenesis: the reads of the pool, the batches and the denom table, in source order *)")
	c.P("Definition genesis_export_reads : list string := %s.", CoqStrList(reads))
	c.Info("genesis_export_reads", reads)
	// the exported pool / batch lists are not filtered afterwards: no `continue` and no if around an append in ExportGenesis
	// that mentions unbatchedTransfers / batches being built from a subset
	filtered := false
	ast.Inspect(ex.Body, func(x ast.Node) bool {
		if bs, ok := x.(*ast.BranchStmt); ok && bs.Tok == token.CONTINUE {
			filtered = true
		}
		return true
	})
	c.P("Definition genesis_export_skips_entries : bool := %v.", filtered)
	c.Info("genesis_export_skips_entries", filtered)
	// GetUnbatchedTransactions = collectUnbatchedTransactions(ctx, types.OutgoingTXPoolKey); the collector appends every item
	gu, err := need("Keeper", "GetUnbatchedTransactions")
	if err != nil {
		return err
	}
	whole := false
	if len(gu.Body.List) == 1 {
		if rs, ok := gu.Body.List[0].(*ast.ReturnStmt); ok && len(rs.Results) == 1 {
			if ce, ok := rs.Results[0].(*ast.CallExpr); ok && strings.HasSuffix(c.Src(ce.Fun), "collectUnbatchedTransactions") && len(ce.Args) == 2 && c.Src(ce.Args[1]) == "types.OutgoingTXPoolKey" {
				whole = true
			}
		}
	}
	appendsAll := func(fd *ast.FuncDecl) bool {
		// exactly one function literal callback whose body is `out = append(out, x)` followed by `return false`
		ok := false
		ast.Inspect(fd.Body, func(x ast.Node) bool {
			fl, isLit := x.(*ast.FuncLit)
			if !isLit || len(fl.Body.List) != 2 {
				return true
			}
			as, isAs := fl.Body.List[0].(*ast.AssignStmt)
			rs, isRet := fl.Body.List[1].(*ast.ReturnStmt)
			if isAs && isRet && len(as.Rhs) == 1 && len(Calls(as.Rhs[0], "append")) == 1 && len(rs.Results) == 1 && c.Src(rs.Results[0]) == "false" {
				ok = true
			}
			return true
		})
		return ok
	}
	cu, err := need("Keeper", "collectUnbatchedTransactions")
	if err != nil {
		return err
	}
	whole = whole && appendsAll(cu)
	c.P("(* GetUnbatchedTransactions collects every entry under the pool prefix *)")
	c.P("Definition pool_read_is_whole_prefix : bool := %v.", whole)
	c.Info("pool_read_is_whole_prefix", whole)
	gb, err := need("Keeper", "GetOutgoingTxBatches")
	if err != nil {
		return err
	}
	ib, err := need("Keeper", "IterateOutgoingTxBatches")
	if err != nil {
		return err
	}
	allB := appendsAll(gb) && len(Calls(gb.Body, "IterateOutgoingTxBatches")) == 1
	its := Calls(ib.Body, "ReverseIterator")
	allB = allB && len(its) == 1 && len(its[0].Args) == 2 && c.Src(its[0].Args[0]) == "nil" && c.Src(its[0].Args[1]) == "nil"
	c.P("(* GetOutgoingTxBatches collects every entry under the batch prefix *)")
	c.P("Definition batches_read_is_whole_prefix : bool := %v.", allB)
	c.Info("batches_read_is_whole_prefix", allB)
	ig, err := need("", "InitGenesis")
	if err != nil {
		return err
	}
	io := c01CallOrder(ig, c01Set("setID", "initBridgeDataFromGenesis", "addUnbatchedTX", "setDenomToERC20"))
	c.P("Definition order_InitGenesis : list string := %s.", CoqStrList(io))
	c.Info("order_InitGenesis", io)
	ibd, err := need("", "initBridgeDataFromGenesis")
	if err != nil {
		return err
	}
	ibo := c01CallOrder(ibd, c01Set("StoreBatch", "DeleteBatch", "CancelOutgoingTXBatch"))
	c.P("Definition order_initBridgeDataFromGenesis : list string := %s.", CoqStrList(ibo))
	c.Info("order_initBridgeDataFromGenesis", ibo)
	return nil
}
