package main

import (
	"fmt"
	"go/ast"
	"go/token"
	"os"
	"path/filepath"
	"strings"
)

// C19: the message-type priority table of NewDefaultTxPriority (type-URL prefix -> priority, the
// single-message condition, MinValue), the field order and direction of the two skip-list
// comparators, and the comparison shapes of the iterator / tie re-weighting that the model mirrors.
func init() { extractors["C19"] = extractC19 }

func coqInt64Expr(s string) (string, error) {
	s = strings.ReplaceAll(s, "math.MaxInt64", "9223372036854775807")
	s = strings.ReplaceAll(s, "math.MinInt64", "(-9223372036854775808)")
	for _, r := range s {
		if !(r >= '0' && r <= '9') && !strings.ContainsRune(" +-()", r) {
			return "", fmt.Errorf("priority expression %q is not a constant int64 expression the translator understands", s)
		}
	}
	return "(" + s + ")", nil
}

func extractC19(c *Ctx) error {
	f, err := c.Parse("app/mempool/priority_nonce.go")
	if err != nil {
		return err
	}
	fd := FindFunc(f, "", "NewDefaultTxPriority")
	if fd == nil {
		return fmt.Errorf("NewDefaultTxPriority not found")
	}
	var getPrio *ast.FuncLit
	minValue := ""
	ast.Inspect(fd.Body, func(n ast.Node) bool {
		kv, ok := n.(*ast.KeyValueExpr)
		if !ok {
			return true
		}
		switch c.Src(kv.Key) {
		case "GetTxPriority":
			if fl, ok := kv.Value.(*ast.FuncLit); ok {
				getPrio = fl
			}
		case "MinValue":
			minValue = c.Src(kv.Value)
		}
		return true
	})
	if getPrio == nil || minValue == "" {
		return fmt.Errorf("NewDefaultTxPriority: GetTxPriority func literal / MinValue not recognised")
	}
	mv, err := coqInt64Expr(minValue)
	if err != nil {
		return err
	}
	// body: msgs := tx.GetMsgs(); if len(msgs) == K { msgTypeStr := sdk.MsgTypeURL(msgs[0]); switch {...} }; return ctx.Priority()
	var ifs *ast.IfStmt
	var lastRet *ast.ReturnStmt
	for _, st := range getPrio.Body.List {
		switch s := st.(type) {
		case *ast.IfStmt:
			if ifs != nil {
				return fmt.Errorf("GetTxPriority: more than one top-level if")
			}
			ifs = s
		case *ast.ReturnStmt:
			lastRet = s
		case *ast.AssignStmt:
			if c.Src(s) != "msgs := tx.GetMsgs()" {
				return fmt.Errorf("GetTxPriority: unexpected statement %q", c.Src(s))
			}
		default:
			return fmt.Errorf("GetTxPriority: unexpected statement %q", c.Src(st))
		}
	}
	if ifs == nil || lastRet == nil || len(lastRet.Results) != 1 {
		return fmt.Errorf("GetTxPriority: shape not recognised")
	}
	if def := c.Src(lastRet.Results[0]); def != "sdk.UnwrapSDKContext(goCtx).Priority()" {
		return fmt.Errorf("GetTxPriority: default priority is %q, expected the CheckTx priority of the context", def)
	}
	cond, ok := ifs.Cond.(*ast.BinaryExpr)
	if !ok || cond.Op != token.EQL || c.Src(cond.X) != "len(msgs)" || ifs.Else != nil {
		return fmt.Errorf("GetTxPriority: condition %q is not len(msgs) == K", c.Src(ifs.Cond))
	}
	single := c.Src(cond.Y)
	var sw *ast.SwitchStmt
	for _, st := range ifs.Body.List {
		switch s := st.(type) {
		case *ast.SwitchStmt:
			sw = s
		case *ast.AssignStmt:
			if c.Src(s) != "msgTypeStr := sdk.MsgTypeURL(msgs[0])" {
				return fmt.Errorf("GetTxPriority: unexpected statement %q", c.Src(s))
			}
		default:
			return fmt.Errorf("GetTxPriority: unexpected statement %q in the single-message branch", c.Src(st))
		}
	}
	if sw == nil || sw.Tag != nil || sw.Init != nil {
		return fmt.Errorf("GetTxPriority: tagless switch over type-URL prefixes not found")
	}
	var rows, infoRows []string
	for _, cl := range sw.Body.List {
		cc := cl.(*ast.CaseClause)
		if len(cc.List) != 1 || len(cc.Body) != 1 {
			return fmt.Errorf("GetTxPriority: case clause %q not understood", c.Src(cc))
		}
		call, ok := cc.List[0].(*ast.CallExpr)
		if !ok || c.Src(call.Fun) != "strings.HasPrefix" || len(call.Args) != 2 || c.Src(call.Args[0]) != "msgTypeStr" {
			return fmt.Errorf("GetTxPriority: case %q is not strings.HasPrefix(msgTypeStr, <literal>)", c.Src(cc.List[0]))
		}
		lit, ok := call.Args[1].(*ast.BasicLit)
		if !ok || lit.Kind != token.STRING || !strings.HasPrefix(lit.Value, "\"") {
			return fmt.Errorf("GetTxPriority: prefix %q is not a string literal", c.Src(call.Args[1]))
		}
		ret, ok := cc.Body[0].(*ast.ReturnStmt)
		if !ok || len(ret.Results) != 1 {
			return fmt.Errorf("GetTxPriority: case body %q is not a single return", c.Src(cc.Body[0]))
		}
		v, err := coqInt64Expr(c.Src(ret.Results[0]))
		if err != nil {
			return err
		}
		rows = append(rows, fmt.Sprintf("(%s, %s)", CoqStr(strings.Trim(lit.Value, "\"")), v))
		infoRows = append(infoRows, strings.Trim(lit.Value, "\"")+" => "+c.Src(ret.Results[0]))
	}
	c.P("(* app/mempool/priority_nonce.go: NewDefaultTxPriority.GetTxPriority *)")
	c.P("Definition single_message_len : Z := %s.", single)
	c.P("Definition priority_table : list (string * Z) := [%s].", strings.Join(rows, "; "))
	c.P("Definition min_value : Z := %s.", mv)
	c.P("Definition max_int64 : Z := 9223372036854775807.")
	c.Info("priority_table", infoRows)
	c.Info("min_value", minValue)

	// ---- priority index comparator ----
	sc := FindFunc(f, "", "skiplistComparable")
	if sc == nil {
		return fmt.Errorf("skiplistComparable not found")
	}
	wrapper := ""
	var order []string
	ast.Inspect(sc.Body, func(n ast.Node) bool {
		ce, ok := n.(*ast.CallExpr)
		if !ok {
			return true
		}
		src := c.Src(ce.Fun)
		if strings.HasPrefix(src, "skiplist.") && strings.HasSuffix(src, "Func") {
			wrapper = src
		}
		if strings.HasSuffix(src, ".Compare") && len(ce.Args) == 2 {
			a, b := c.Src(ce.Args[0]), c.Src(ce.Args[1])
			if strings.HasPrefix(a, "keyA.") && strings.HasPrefix(b, "keyB.") && a[5:] == b[5:] {
				order = append(order, a[5:])
			} else {
				order = append(order, "?"+a+","+b)
			}
		}
		return true
	})
	c.P("(* skiplistComparable: %s(compare %s) *)", wrapper, strings.Join(order, ", "))
	c.P("Definition index_wrapper : string := %s.", CoqStr(wrapper))
	c.P("Definition index_order : list string := %s.", CoqStrList(order))
	c.Info("index_order", wrapper+" "+strings.Join(order, ","))

	// ---- sender index comparator (inside Insert) ----
	ins := FindFunc(f, "PriorityNonceMempool", "Insert")
	if ins == nil {
		return fmt.Errorf("Insert not found")
	}
	senderCmp := ""
	for _, ce := range Calls(ins.Body, "New") {
		if c.Src(ce.Fun) == "skiplist.New" && len(ce.Args) == 1 {
			if w, ok := ce.Args[0].(*ast.CallExpr); ok && len(w.Args) == 1 {
				if fl, ok := w.Args[0].(*ast.FuncLit); ok && len(fl.Body.List) == 1 {
					if r, ok := fl.Body.List[0].(*ast.ReturnStmt); ok && len(r.Results) == 1 {
						senderCmp = c.Src(w.Fun) + ": " + c.Src(r.Results[0])
					}
				}
			}
		}
	}
	if senderCmp == "" {
		return fmt.Errorf("Insert: sender index comparator not recognised")
	}
	c.P("Definition sender_index_cmp : string := %s.", CoqStr(senderCmp))
	// what Insert writes to scores / the index key (weight must start at the zero value)
	var insWrites []string
	ast.Inspect(ins.Body, func(n ast.Node) bool {
		as, ok := n.(*ast.AssignStmt)
		if ok && len(as.Lhs) == 1 && (c.Src(as.Lhs[0]) == "key" || c.Src(as.Lhs[0]) == "mp.scores[sk]") {
			insWrites = append(insWrites, c.Src(as.Lhs[0])+" = "+c.Src(as.Rhs[0]))
		}
		return true
	})
	c.P("Definition insert_writes : list string := %s.", CoqStrList(insWrites))

	// ---- iterator tests and the tie re-weighting condition ----
	nx := FindFunc(f, "PriorityNonceIterator", "Next")
	ro := FindFunc(f, "PriorityNonceMempool", "reorderPriorityTies")
	sw2 := FindFunc(f, "", "senderWeight")
	ip := FindFunc(f, "PriorityNonceIterator", "iteratePriority")
	ct := FindFunc(f, "PriorityNonceMempool", "CountTx")
	if nx == nil || ro == nil || sw2 == nil || ip == nil || ct == nil {
		return fmt.Errorf("Next / reorderPriorityTies / senderWeight / iteratePriority / CountTx not found")
	}
	conds := func(fd *ast.FuncDecl) []string {
		var out []string
		ast.Inspect(fd.Body, func(n ast.Node) bool {
			switch s := n.(type) {
			case *ast.IfStmt:
				out = append(out, c.Src(s.Cond))
			case *ast.ForStmt:
				if s.Cond != nil {
					out = append(out, "for "+c.Src(s.Cond))
				}
			}
			return true
		})
		return out
	}
	c.P("Definition next_conds : list string := %s.", CoqStrList(conds(nx)))
	c.P("Definition iterate_conds : list string := %s.", CoqStrList(conds(ip)))
	c.P("Definition reorder_conds : list string := %s.", CoqStrList(conds(ro)))
	c.P("Definition sender_weight_conds : list string := %s.", CoqStrList(conds(sw2)))
	cts := ""
	if len(ct.Body.List) == 1 {
		cts = c.Src(ct.Body.List[0])
	}
	c.P("Definition count_tx_body : string := %s.", CoqStr(cts))
	c.Info("next_conds", conds(nx))

	// ---- second round: the rest of the API, the configuration, the wiring ----
	flat := func(n ast.Node) string { return strings.Join(strings.Fields(c.Src(n)), " ") }
	// every exported function / method of package app/mempool: a new one must be modelled (or consciously listed)
	files, err := c.ParseDir("app/mempool")
	if err != nil {
		return err
	}
	api := map[string]bool{}
	for _, ff := range files {
		if strings.HasPrefix(filepath.Base(c.Fset.Position(ff.Pos()).Filename), "verif_hooks") {
			continue
		}
		for _, d := range ff.Decls {
			fn, ok := d.(*ast.FuncDecl)
			if !ok || !fn.Name.IsExported() {
				continue
			}
			name := fn.Name.Name
			if fn.Recv != nil && len(fn.Recv.List) == 1 {
				r := c.Src(fn.Recv.List[0].Type)
				r = strings.TrimPrefix(r, "*")
				if i := strings.Index(r, "["); i >= 0 {
					r = r[:i]
				}
				name = r + "." + name
			}
			api[name] = true
		}
	}
	c.P("Definition exported_api : list string := %s.", CoqStrList(SortedSet(api)))
	c.Info("exported_api", SortedSet(api))

	nst := FindFunc(f, "PriorityNonceMempool", "NextSenderTx")
	rm := FindFunc(f, "PriorityNonceMempool", "Remove")
	sel := FindFunc(f, "PriorityNonceMempool", "Select")
	ie := FindFunc(f, "", "IsEmpty")
	txf := FindFunc(f, "PriorityNonceIterator", "Tx")
	dcfg := FindFunc(f, "", "DefaultPriorityNonceMempoolConfig")
	dmp := FindFunc(f, "", "DefaultPriorityMempool")
	if nst == nil || rm == nil || sel == nil || ie == nil || txf == nil || dcfg == nil || dmp == nil {
		return fmt.Errorf("NextSenderTx / Remove / Select / IsEmpty / Tx / DefaultPriorityNonceMempoolConfig / DefaultPriorityMempool not found")
	}
	c.P("Definition next_sender_tx_conds : list string := %s.", CoqStrList(conds(nst)))
	c.P("Definition insert_conds : list string := %s.", CoqStrList(conds(ins)))
	c.P("Definition remove_conds : list string := %s.", CoqStrList(conds(rm)))
	c.P("Definition select_conds : list string := %s.", CoqStrList(conds(sel)))
	c.P("Definition is_empty_conds : list string := %s.", CoqStrList(conds(ie)))
	// the effects of Insert / Remove / reorderPriorityTies: every assignment, ++/--, delete and index call, in source order
	effects := func(fd *ast.FuncDecl) []string {
		var out []string
		ast.Inspect(fd.Body, func(n ast.Node) bool {
			switch s := n.(type) {
			case *ast.FuncLit:
				return false
			case *ast.AssignStmt:
				out = append(out, flat(s))
			case *ast.IncDecStmt:
				out = append(out, flat(s))
			case *ast.ExprStmt:
				out = append(out, flat(s))
			case *ast.ReturnStmt:
				out = append(out, flat(s))
			}
			return true
		})
		return out
	}
	c.P("Definition insert_effects : list string := %s.", CoqStrList(effects(ins)))
	c.P("Definition remove_effects : list string := %s.", CoqStrList(effects(rm)))
	c.P("Definition reorder_effects : list string := %s.", CoqStrList(effects(ro)))
	c.P("Definition select_effects : list string := %s.", CoqStrList(effects(sel)))
	c.P("Definition next_sender_tx_effects : list string := %s.", CoqStrList(effects(nst)))
	c.P("Definition tx_effects : list string := %s.", CoqStrList(effects(txf)))
	// OnRead: a configuration field; which functions use it
	var onRead []string
	for _, d := range f.Decls {
		fn, ok := d.(*ast.FuncDecl)
		if !ok || fn.Body == nil {
			continue
		}
		ast.Inspect(fn.Body, func(n ast.Node) bool {
			if se, ok := n.(*ast.SelectorExpr); ok && se.Sel.Name == "OnRead" {
				onRead = append(onRead, fn.Name.Name)
			}
			return true
		})
	}
	c.P("Definition on_read_uses : list string := %s.", CoqStrList(onRead))
	// the configuration the application installs
	c.P("Definition default_config_body : list string := %s.", CoqStrList(effects(dcfg)))
	c.P("Definition default_mempool_body : list string := %s.", CoqStrList(effects(dmp)))
	// the config struct's fields (a new knob must be modelled)
	var cfgFields []string
	ast.Inspect(f, func(n ast.Node) bool {
		ts, ok := n.(*ast.TypeSpec)
		if !ok || ts.Name.Name != "PriorityNonceMempoolConfig" {
			return true
		}
		if st, ok := ts.Type.(*ast.StructType); ok {
			for _, fl := range st.Fields.List {
				for _, nm := range fl.Names {
					cfgFields = append(cfgFields, nm.Name+" "+flat(fl.Type))
				}
			}
		}
		return false
	})
	c.P("Definition config_fields : list string := %s.", CoqStrList(cfgFields))

	// app/app.go: every statement that mentions the mempool or the proposal handlers, in order
	af, err := c.Parse("app/app.go")
	if err != nil {
		return err
	}
	newFn := FindFunc(af, "", "New")
	if newFn == nil {
		return fmt.Errorf("app.New not found")
	}
	var wiring []string
	for _, st := range newFn.Body.List {
		src := flat(st)
		low := strings.ToLower(src)
		if len(src) < 300 && (strings.Contains(low, "mempool") || strings.Contains(low, "proposal") || strings.Contains(src, "baseapp.NewBaseApp(")) &&
			!strings.Contains(low, "gov") {
			wiring = append(wiring, src)
		}
	}
	// the CheckTx priority every transaction gets: the TxFeeChecker app.go hands to the SDK ante handler
	feeChecker := ""
	ast.Inspect(newFn.Body, func(n ast.Node) bool {
		if kv, ok := n.(*ast.KeyValueExpr); ok && c.Src(kv.Key) == "TxFeeChecker" {
			feeChecker = c.Src(kv.Value)
		}
		return true
	})
	if feeChecker != "palomamodule.TxFeeSkipper" {
		return fmt.Errorf("app.New: TxFeeChecker is %q; the translator knows palomamodule.TxFeeSkipper (constant priority) only", feeChecker)
	}
	pf, err := c.Parse("x/paloma/ante.go")
	if err != nil {
		return err
	}
	skip := FindFunc(pf, "", "TxFeeSkipper")
	if skip == nil || len(skip.Body.List) != 1 {
		return fmt.Errorf("x/paloma TxFeeSkipper: single return statement expected")
	}
	ret, ok := skip.Body.List[0].(*ast.ReturnStmt)
	if !ok || len(ret.Results) != 3 {
		return fmt.Errorf("x/paloma TxFeeSkipper: return of (coins, priority, error) expected")
	}
	ctp, err := coqInt64Expr(c.Src(ret.Results[1]))
	if err != nil {
		return err
	}
	c.P("Definition app_tx_fee_checker : string := %s.", CoqStr(feeChecker))
	c.P("Definition app_check_tx_priority : Z := %s.", ctp)
	c.Info("app_check_tx_priority", c.Src(ret.Results[1]))
	c.P("Definition app_wiring : list string := %s.", CoqStrList(wiring))
	c.Info("app_wiring", wiring)
	// the pinned libraries the model trusts
	gm, err := os.ReadFile(filepath.Join(c.Repo, "go.mod"))
	if err != nil {
		return err
	}
	var pins []string
	for _, line := range strings.Split(string(gm), "\n") {
		fs := strings.Fields(line)
		for _, mod := range []string{"github.com/cosmos/cosmos-sdk", "github.com/huandu/skiplist", "github.com/cometbft/cometbft"} {
			if (len(fs) == 2 && fs[0] == mod) || (len(fs) >= 3 && fs[0] == "require" && fs[1] == mod) || (len(fs) >= 4 && fs[0] == mod && fs[1] == "=>") ||
				(len(fs) >= 5 && fs[0] == "replace" && fs[1] == mod) {
				pins = append(pins, strings.Join(fs, " "))
			}
		}
	}
	c.P("Definition library_pins : list string := %s.", CoqStrList(pins))
	return nil
}
