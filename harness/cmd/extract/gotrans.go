package main

// gotrans: a source-to-Gallina translator for a deliberately small, pure subset of Go.
//
// For every registered function (gotrans_specs.go) the BODY is read with go/parser and written as
// one Gallina Definition in coq/theories/GenFn/<Name>.v, over the primitives of
// coq/theories/Trans/GoSem.v (Z with explicit wrap-around, bool, option for nil-able values,
// `res` for panic / error).  coq/theories/Trans/<Prop>Fn.v proves, for all inputs, that the
// hand-written model function equals the generated one, and Properties/<Prop>.v lists that
// equivalence among the property's obligations: a readable change of the Go body changes the
// generated definition and breaks the proof; an unreadable one is an error here (non-zero exit).
//
// Nothing is guessed: an AST shape, type, method or identifier that is not in the tables of
// gotrans_expr.go / gotrans_stmt.go is an error.  The supported subset and the meaning given to
// each construct are documented in design/GoTrans.md.

import (
	"bytes"
	"fmt"
	"go/ast"
	"math/big"
	"os"
	"path/filepath"
	"sort"
	"strings"
)

type kind int

const (
	kUnknown kind = iota
	kUntyped      // exact integer constant (Go untyped constant)
	kU64          // uint64
	kI64          // int64, int, time.Duration
	kBool
	kBig    // *big.Int, non-nil
	kSdk    // sdkmath.Int, initialised
	kSdkOpt // sdkmath.Int that may be the zero value (nil inner pointer): option Z
	kDecOpt // math.LegacyDec that may be nil: option Z (raw integer, value * 10^18)
	kList   // slice of integers
	kStruct // local struct variable, flattened into one variable per field
	kUnit   // result of an error-only function
)

func (k kind) String() string {
	return [...]string{"unknown", "untyped-const", "uint64", "int64", "bool", "*big.Int", "sdkmath.Int", "sdkmath.Int(nil-able)", "LegacyDec(nil-able)", "[]int", "struct", "unit"}[k]
}

func coqType(k kind) string {
	switch k {
	case kUntyped, kU64, kI64, kBig, kSdk:
		return "Z"
	case kBool:
		return "bool"
	case kSdkOpt, kDecOpt:
		return "option Z"
	case kList:
		return "list Z"
	case kUnit:
		return "unit"
	}
	return "UNSUPPORTED_TYPE"
}

// val is a translated expression.
type val struct {
	code    string   // Gallina term; of type T, or `res T` when partial
	k       kind     // Go-side kind
	elem    kind     // element kind of a kList
	partial bool     // may panic
	cst     *big.Int // compile-time value when known
	fresh   bool     // *big.Int that nothing else points to (new(big.Int), big.NewInt, BigInt(), ...)
	mutVar  string   // *big.Int returned by a three-address method whose receiver is this local variable
	isNil   bool     // the literal nil
	isErr   bool     // an expression constructing a non-nil error
}

type binding struct {
	coq     string
	k       kind
	elem    kind
	zeroVal bool // declared by `var x T`, never assigned: the zero value
	param   bool
	cst     *big.Int
}

// argSpec: one input of the generated definition.
type argSpec struct {
	Go   string // identifier or selector path as written in the source, e.g. "share", "c.runningSum"
	Coq  string // binder name in the generated definition
	K    kind
	Elem kind
}

// fnSpec: one function (or fragment of a function) to translate.
type fnSpec struct {
	Props   []string          // properties whose check regenerates it
	File    string            // path of the file under the repository root
	Recv    string            // receiver type name ("" for plain functions)
	Func    string            // Go function name
	Name    string            // GenFn/<Name>.v ; Definition <Def>
	Def     string            // name of the generated Definition
	Args    []argSpec         // inputs; plain parameters are checked against the signature
	TypeArg map[string]string // instantiation of type parameters, e.g. E -> uint64
	Imports map[string]string // package alias -> directory, for package-level names of other packages
	Frag    *fragSpec         // nil: the whole body
}

// fragSpec selects a contiguous run of top-level statements of the body, or single expressions.
// Everything else in the function is NOT translated; its source text is emitted as
// <Def>_context so that Trans/<Prop>Fn.v can pin it (a change there needs a review).
type fragSpec struct {
	From, To string   // the first / last statement of the run are the unique top-level statements containing these texts
	Out      []string // on fall-through the fragment yields these variables (paths), as a tuple
	Result   kind     // kind of what `return e, nil` would yield inside the fragment (kUnit: error only)
	Exprs    []exprFrag
	PinRest  bool // emit the untranslated statements as <Def>_context
}

// exprFrag: one expression anchored inside the function, translated as its own Definition.
type exprFrag struct {
	Def    string
	Anchor string // "assign:<lhs>" (the unique assignment to <lhs>), "ifcond:<text>" (unique if whose condition contains text), "call:<text>" (unique call expression whose source is exactly text... prefix)
	Args   []argSpec
}

type trErr struct{ msg string }

func (e *trErr) Error() string { return e.msg }

type needRes struct{}

func (needRes) Error() string { return "needs res" }

// tr is the state of one function translation.
type tr struct {
	c       *Ctx
	spec    *fnSpec
	files   []*ast.File // the function's package
	file    *ast.File
	imports map[string]string // alias -> import path of the function's file
	scopes  []map[string]*binding
	tmp     int
	resMode bool
	result  kind
	resElem kind
	errRes  bool // the function has an error result
	loops   []*loopCtx
	pkgDefs []string          // emitted package-level definitions, in dependency order
	pkgVals map[string]*val   // cache
	pkgBusy map[string]bool   // cycle detection
	fallK   func() (string, error)
	inRet   bool
	typeArg map[string]string
}

type loopCtx struct {
	next string                 // code that continues with the next element
	done func() (string, error) // code after the loop
}

func (t *tr) errf(n ast.Node, format string, a ...any) error {
	pos := ""
	if n != nil {
		pos = t.c.Fset.Position(n.Pos()).String() + ": "
	}
	return &trErr{pos + "gotrans: " + fmt.Sprintf(format, a...)}
}

func (t *tr) fresh() string { t.tmp++; return fmt.Sprintf("t%d", t.tmp) }

func (t *tr) push()             { t.scopes = append(t.scopes, map[string]*binding{}) }
func (t *tr) pop()              { t.scopes = t.scopes[:len(t.scopes)-1] }
func (t *tr) lookup(name string) (*binding, int) {
	for i := len(t.scopes) - 1; i >= 0; i-- {
		if b, ok := t.scopes[i][name]; ok {
			return b, i
		}
	}
	return nil, -1
}

var coqReserved = map[string]bool{"at": true, "in": true, "end": true, "fix": true, "fun": true, "let": true, "match": true, "with": true,
	"if": true, "then": true, "else": true, "return": true, "as": true, "Type": true, "Prop": true, "Set": true, "forall": true, "exists": true,
	"bind": true, "res": true, "Val": true, "Fail": true, "Panic": true, "cofix": true, "where": true, "using": true, "for": true, "Some": true, "None": true,
	"tt": true, "true": true, "false": true, "nil": true, "cons": true, "negb": true, "andb": true, "orb": true, "repeat": true}

func coqIdent(goName string) string {
	s := strings.NewReplacer(".", "_").Replace(goName)
	if coqReserved[s] || strings.HasPrefix(s, "go_") || strings.HasPrefix(s, "pkg_") || (len(s) > 1 && s[0] == 't' && s[1] >= '0' && s[1] <= '9') {
		s += "_"
	}
	return s
}

func (t *tr) declare(n ast.Node, name string, k kind, elem kind) (*binding, error) {
	if name == "_" {
		return &binding{coq: "_", k: k, elem: elem}, nil
	}
	if b, _ := t.lookup(name); b != nil {
		return nil, t.errf(n, "declaration of %q shadows or repeats a name already in scope (not in the subset)", name)
	}
	b := &binding{coq: coqIdent(name), k: k, elem: elem}
	for _, ob := range t.scopes[0] {
		if ob.coq == b.coq {
			return nil, t.errf(n, "local %q would capture the input named %s in the generated definition (rename the input in the spec)", name, ob.coq)
		}
	}
	t.scopes[len(t.scopes)-1][name] = b
	return b, nil
}

// atom parenthesises a term unless it is a single token.
func atom(s string) string {
	if strings.ContainsAny(s, " \n") && !(strings.HasPrefix(s, "(") && closesAtEnd(s)) {
		return "(" + s + ")"
	}
	return s
}

func closesAtEnd(s string) bool {
	d := 0
	for i, r := range s {
		switch r {
		case '(':
			d++
		case ')':
			d--
			if d == 0 && i != len(s)-1 {
				return false
			}
		}
	}
	return d == 0
}

func zlit(x *big.Int) string {
	if x.Sign() < 0 {
		return "(" + x.String() + ")"
	}
	return x.String()
}

// lift combines operands with a pure combiner f (or a partial one when fPartial) and threads panics.
func (t *tr) lift(args []val, f func(codes []string) string, fPartial bool) (string, bool) {
	codes := make([]string, len(args))
	var binds [][2]string
	for i, a := range args {
		if a.partial {
			n := t.fresh()
			binds = append(binds, [2]string{a.code, n})
			codes[i] = n
		} else {
			codes[i] = atom(a.code)
		}
	}
	body := f(codes)
	partial := fPartial || len(binds) > 0
	if len(binds) > 0 && !fPartial {
		body = "Val " + atom(body)
	}
	for i := len(binds) - 1; i >= 0; i-- {
		body = fmt.Sprintf("bind %s (fun %s => %s)", atom(binds[i][0]), binds[i][1], body)
	}
	return body, partial
}

func commentSafe(s string) string {
	return strings.NewReplacer("(*", "( *", "*)", "* )").Replace(s)
}

// ---- driver -------------------------------------------------------------------------------

func genFnDir(c *Ctx) string { return filepath.Join(filepath.Dir(filepath.Clean(c.Out)), "GenFn") }

func writeIfChanged(path string, data []byte) error {
	old, _ := os.ReadFile(path)
	if bytes.Equal(old, data) {
		return nil
	}
	if err := os.MkdirAll(filepath.Dir(path), 0o755); err != nil {
		return err
	}
	return os.WriteFile(path, data, 0o644)
}

// translateSpec produces the text of GenFn/<Name>.v.
func translateSpec(c *Ctx, spec *fnSpec) (string, error) {
	f, err := c.Parse(spec.File)
	if err != nil {
		return "", err
	}
	files, err := c.ParseDir(filepath.Dir(spec.File))
	if err != nil {
		return "", err
	}
	fd := FindFunc(f, spec.Recv, spec.Func)
	if fd == nil || fd.Body == nil {
		return "", fmt.Errorf("gotrans: %s: func %s.%s not found", spec.File, spec.Recv, spec.Func)
	}
	t := &tr{c: c, spec: spec, files: files, file: f, imports: map[string]string{}, pkgVals: map[string]*val{}, pkgBusy: map[string]bool{}, typeArg: spec.TypeArg}
	for _, im := range f.Imports {
		p := strings.Trim(im.Path.Value, "\"")
		alias := filepath.Base(p)
		if im.Name != nil {
			alias = im.Name.Name
		}
		t.imports[alias] = p
	}
	var out bytes.Buffer
	fmt.Fprintf(&out, "(** GENERATED by /verif/harness/cmd/extract (gotrans) from %s — do not edit; regenerated on every check.\n", c.Repo)
	fmt.Fprintf(&out, "    Source: %s, func %s%s.  Semantics of every construct: Trans/GoSem.v, design/GoTrans.md. *)\n", spec.File, recvPrefix(spec.Recv), spec.Func)
	out.WriteString("From Coq Require Import List ZArith Bool.\nFrom Paloma Require Import Trans.GoSem.\nImport ListNotations.\nOpen Scope Z_scope.\n\n")
	fmt.Fprintf(&out, "(* Go source:\n%s\n*)\n\n", commentSafe(c.Src(fd)))
	var defs []string
	if spec.Frag == nil {
		d, err := t.wholeFunction(fd)
		if err != nil {
			return "", err
		}
		defs = append(defs, d)
	} else {
		ds, err := t.fragment(fd)
		if err != nil {
			return "", err
		}
		defs = append(defs, ds...)
	}
	for _, d := range t.pkgDefs {
		out.WriteString(d + "\n")
	}
	for _, d := range defs {
		out.WriteString(d + "\n")
	}
	return out.String(), nil
}

func recvPrefix(r string) string {
	if r == "" {
		return ""
	}
	return r + "."
}

func (t *tr) bindArgs(fd *ast.FuncDecl, args []argSpec) (string, error) {
	sig := map[string]ast.Expr{}
	if fd.Type.Params != nil {
		for _, fl := range fd.Type.Params.List {
			for _, n := range fl.Names {
				sig[n.Name] = fl.Type
			}
		}
	}
	var binders []string
	for _, a := range args {
		if ty, ok := sig[a.Go]; ok {
			k, el, err := t.typeKind(ty)
			if err != nil {
				return "", err
			}
			compatible := k == a.K || (k == kSdk && a.K == kSdkOpt) || (k == kDecOpt && a.K == kDecOpt)
			if !compatible || (k == kList && el != a.Elem) {
				return "", t.errf(ty, "parameter %s has type %s (%s) but the translation spec expects %s", a.Go, t.c.Src(ty), k, a.K)
			}
		}
		b := &binding{coq: a.Coq, k: a.K, elem: a.Elem, param: true}
		t.scopes[len(t.scopes)-1][a.Go] = b
		binders = append(binders, fmt.Sprintf("(%s : %s)", a.Coq, coqType(a.K)))
	}
	// every other name of the signature is in scope but unusable
	for n := range sig {
		if _, ok := t.scopes[len(t.scopes)-1][n]; !ok {
			t.scopes[len(t.scopes)-1][n] = &binding{coq: "UNTRANSLATED_" + n, k: kUnknown, param: true}
		}
	}
	if fd.Recv != nil && len(fd.Recv.List) == 1 && len(fd.Recv.List[0].Names) == 1 {
		n := fd.Recv.List[0].Names[0].Name
		if _, ok := t.scopes[len(t.scopes)-1][n]; !ok {
			t.scopes[len(t.scopes)-1][n] = &binding{coq: "UNTRANSLATED_" + n, k: kUnknown, param: true}
		}
	}
	return strings.Join(binders, " "), nil
}

func (t *tr) resultType() string {
	ty := coqType(t.result)
	if t.resMode {
		if strings.Contains(ty, " ") {
			ty = "(" + ty + ")"
		}
		return "res " + ty
	}
	return ty
}

func (t *tr) wholeFunction(fd *ast.FuncDecl) (string, error) {
	// result kinds
	rs := fd.Type.Results
	t.result, t.errRes = kUnit, false
	if rs != nil {
		var tys []ast.Expr
		for _, fl := range rs.List {
			n := len(fl.Names)
			if n == 0 {
				n = 1
			}
			for i := 0; i < n; i++ {
				tys = append(tys, fl.Type)
			}
			if len(fl.Names) > 0 {
				return "", t.errf(fl, "named results are not in the subset")
			}
		}
		if len(tys) > 0 && t.c.Src(tys[len(tys)-1]) == "error" {
			t.errRes = true
			tys = tys[:len(tys)-1]
		}
		switch len(tys) {
		case 0:
		case 1:
			k, el, err := t.typeKind(tys[0])
			if err != nil {
				return "", err
			}
			t.result, t.resElem = k, el
		default:
			return "", t.errf(rs, "more than one non-error result is not in the subset")
		}
	}
	if t.result == kUnit && !t.errRes {
		return "", t.errf(fd, "function without result is not in the subset")
	}
	run := func(resMode bool) (string, string, error) {
		t.resMode = resMode
		t.tmp = 0
		t.scopes = []map[string]*binding{{}}
		t.loops = nil
		binders, err := t.bindArgs(fd, t.spec.Args)
		if err != nil {
			return "", "", err
		}
		t.push()
		body, err := t.stmts(fd.Body.List, func() (string, error) {
			return "", t.errf(fd.Body, "control reaches the end of the function without a return (not in the subset)")
		})
		return binders, body, err
	}
	binders, body, err := run(t.errRes)
	if _, ok := err.(needRes); ok {
		binders, body, err = run(true)
	}
	if err != nil {
		return "", err
	}
	return fmt.Sprintf("Definition %s %s : %s :=\n  %s.\n", t.spec.Def, binders, t.resultType(), body), nil
}

// ---- registration ---------------------------------------------------------------------------

// genFnFor regenerates GenFn/<Name>.v for every spec of the property.  On an error the file is
// replaced by one that does not compile, so a stale translation can never satisfy a proof.
func genFnFor(c *Ctx, prop string) error {
	var errs []string
	var names []string
	for i := range goFnSpecs {
		spec := &goFnSpecs[i]
		use := false
		for _, p := range spec.Props {
			if p == prop {
				use = true
			}
		}
		if !use {
			continue
		}
		path := filepath.Join(genFnDir(c), spec.Name+".v")
		text, err := translateSpec(c, spec)
		if err != nil {
			errs = append(errs, err.Error())
			text = fmt.Sprintf("(* gotrans: TRANSLATION FAILED for %s %s: %s *)\nDefinition gotrans_translation_failed : True := 0.\n", spec.File, spec.Func, commentSafe(err.Error()))
		}
		if werr := writeIfChanged(path, []byte(text)); werr != nil {
			errs = append(errs, werr.Error())
		}
		names = append(names, spec.Name)
	}
	sort.Strings(names)
	c.Info("gotrans_functions", names)
	if len(errs) > 0 {
		return fmt.Errorf("%s", strings.Join(errs, "\n"))
	}
	return nil
}

// init wraps the extractor of every property that owns translated functions: the generated
// function bodies are produced first, then the property's own extractor runs.  Go runs the init
// functions of a package in file-name order, so c01.go … c19.go have registered before this file.
func init() {
	props := map[string]bool{}
	for _, s := range goFnSpecs {
		for _, p := range s.Props {
			props[p] = true
		}
	}
	for p := range props {
		p := p
		old, ok := extractors[p]
		if !ok {
			panic("gotrans: extractor for " + p + " is not registered before gotrans.go's init")
		}
		extractors[p] = func(c *Ctx) error {
			ferr := genFnFor(c, p)
			oerr := old(c)
			if ferr != nil && oerr != nil {
				return fmt.Errorf("%v\n%v", ferr, oerr)
			}
			if ferr != nil {
				return ferr
			}
			return oerr
		}
	}
}
