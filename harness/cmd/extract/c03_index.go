package main

import (
	"encoding/json"
	"fmt"
	"os"
	"go/ast"
	"go/token"
	"path/filepath"
	"sort"
	"strings"
)

// C03, second round: what every msg-server handler WRITES and under which key.
//
// For every rpc the scan walks the handler body in source order (descending, up to three levels,
// into the keeper functions of the module that receive the whole message) and records
//   - writes:   calls of functions that (transitively, by name, inside the nine keeper packages)
//               mutate a store, with the request fields their arguments (and receiver) derive from;
//   - lookups:  calls whose results are bound to variables, with the request fields THEIR arguments
//               derive from;
//   - guards:   `if` statements that bail out (end in a return) on
//                 * presence of a lookup's result (`len(d) > 0`, `x != nil`, `x != ""`, `found`,
//                   `store.Has(k)`)                                   -> "absent" guard,
//                 * a lookup's result differing from a creator-derived value
//                   (`md.Admin != sender.String()`, `!tx.Sender.Equals(sender)`) -> "owner" guard.
// A write whose arguments derive from a request field other than metadata.creator is an INDEX
// WRITE: the sender chooses the key. Every (rpc, written function) pair of that kind must be
// reviewed in tables/c03_fields.json ("index_writes"): which fields form the key and which
// discipline protects entries of other principals (absent / owner / under_creator / content / gov).
// The extracted guard keys are emitted next to the reviewed expectation; Coq checks that the guard
// is keyed by (at least) the fields of the index that is written.

type c03Lk struct {
	Callee string
	Fields map[string]bool
	Vars   []string
	Seq    int
}

type c03Wr struct {
	Callee string
	Fields map[string]bool
	Seq    int
	In     string
}

type c03Scan struct {
	c        *Ctx
	kfuncs   map[string][]*ast.FuncDecl // functions of the module's keeper packages, by name
	writers  map[string]bool            // names that mutate a store (all modules)
	seq      int
	lookups  []c03Lk
	absent   map[int]int // lookup index -> seq of the guard
	owner    map[int]int
	writes   []c03Wr
	byVar    map[string]int // variable name -> latest lookup index (per function frame; reset on descent)
	visiting map[string]bool
}

var c03DirectMutators = map[string]bool{"Set": true, "Delete": true, "Save": true, "Remove": true}

// c03Writers: names of functions in the keeper packages of all modules that mutate a store,
// directly (a call x.Set / x.Delete / keeperutil.Save ...) or through another such function.
func c03Writers(c *Ctx) (map[string]bool, map[string]map[string][]*ast.FuncDecl, error) {
	perMod := map[string]map[string][]*ast.FuncDecl{}
	all := map[string][]*ast.FuncDecl{}
	for _, mod := range c03Modules {
		dirs := []string{filepath.Join("x", mod, "keeper")}
		if mod == "consensus" {
			dirs = append(dirs, filepath.Join("x", mod, "keeper", "consensus"))
		}
		perMod[mod] = map[string][]*ast.FuncDecl{}
		for _, d := range dirs {
			files, err := c.ParseDir(d)
			if err != nil {
				return nil, nil, err
			}
			for _, f := range files {
				if strings.Contains(c.Fset.File(f.Pos()).Name(), "verif_hooks") || strings.HasSuffix(c.Fset.File(f.Pos()).Name(), "test_common.go") {
					continue
				}
				for _, dcl := range f.Decls {
					if fd, ok := dcl.(*ast.FuncDecl); ok && fd.Body != nil {
						perMod[mod][fd.Name.Name] = append(perMod[mod][fd.Name.Name], fd)
						all[fd.Name.Name] = append(all[fd.Name.Name], fd)
					}
				}
			}
		}
	}
	w := map[string]bool{}
	// keepers of the SDK the handlers call directly
	for _, n := range []string{"SendCoins", "SendCoinsFromModuleToAccount", "SendCoinsFromAccountToModule", "MintCoins", "BurnCoins",
		"SetDenomMetaData", "GrantAllowance", "SetAccount", "FundCommunityPool", "Jail", "Slash"} {
		w[n] = true
	}
	for changed := true; changed; {
		changed = false
		for name, fds := range all {
			if w[name] {
				continue
			}
			for _, fd := range fds {
				hit := false
				ast.Inspect(fd.Body, func(n ast.Node) bool {
					ce, ok := n.(*ast.CallExpr)
					if !ok || hit {
						return !hit
					}
					cn := c03CalleeName(ce)
					if _, isSel := ce.Fun.(*ast.SelectorExpr); isSel && c03DirectMutators[cn] {
						hit = true
					} else if w[cn] && cn != name {
						hit = true
					}
					return !hit
				})
				if hit {
					w[name] = true
					changed = true
					break
				}
			}
		}
	}
	// getters are never writers even if a by-name collision says so
	for name := range w {
		if strings.HasPrefix(name, "Get") || strings.HasPrefix(name, "get") || strings.HasPrefix(name, "Has") || strings.HasPrefix(name, "Iterate") ||
			strings.HasPrefix(name, "Validate") || strings.HasPrefix(name, "Is") || strings.HasPrefix(name, "Can") || strings.HasPrefix(name, "Logger") {
			delete(w, name)
		}
	}
	return w, perMod, nil
}

func c03RootIdent(e ast.Expr) string {
	for {
		switch x := e.(type) {
		case *ast.Ident:
			return x.Name
		case *ast.ParenExpr:
			e = x.X
		case *ast.StarExpr:
			e = x.X
		case *ast.UnaryExpr:
			e = x.X
		case *ast.SelectorExpr:
			e = x.X
		case *ast.IndexExpr:
			e = x.X
		case *ast.CallExpr:
			if id, ok := x.Fun.(*ast.Ident); ok && id.Name == "len" && len(x.Args) == 1 {
				e = x.Args[0]
				continue
			}
			if se, ok := x.Fun.(*ast.SelectorExpr); ok {
				e = se.X
				continue
			}
			return ""
		default:
			return ""
		}
	}
}

func c03Bails(body *ast.BlockStmt) bool {
	if body == nil || len(body.List) == 0 {
		return false
	}
	switch s := body.List[len(body.List)-1].(type) {
	case *ast.ReturnStmt:
		return true
	case *ast.ExprStmt:
		if ce, ok := s.X.(*ast.CallExpr); ok {
			n := c03CalleeName(ce)
			return n == "panic" || n == "Assert"
		}
	}
	return false
}

// presence: e is a test that holds when the value under the returned root variable EXISTS.
func c03Presence(e ast.Expr) (string, bool) {
	switch x := e.(type) {
	case *ast.ParenExpr:
		return c03Presence(x.X)
	case *ast.Ident:
		if x.Name == "found" || x.Name == "ok" || x.Name == "exists" || x.Name == "has" {
			return x.Name, true
		}
	case *ast.BinaryExpr:
		isZero := func(y ast.Expr) bool {
			switch v := y.(type) {
			case *ast.Ident:
				return v.Name == "nil"
			case *ast.BasicLit:
				return v.Value == "0" || v.Value == `""`
			}
			return false
		}
		switch x.Op {
		case token.NEQ, token.GTR:
			if isZero(x.Y) {
				if r := c03RootIdent(x.X); r != "" && r != "err" {
					return r, true
				}
			}
		case token.GEQ:
			if bl, ok := x.Y.(*ast.BasicLit); ok && bl.Value == "1" {
				if r := c03RootIdent(x.X); r != "" {
					return r, true
				}
			}
		}
	}
	return "", false
}

func (sc *c03Scan) fieldsOfCall(an *c03Fn, ce *ast.CallExpr) map[string]bool {
	paths := map[string]bool{}
	for _, arg := range ce.Args {
		for k := range an.d(arg) {
			paths[k] = true
		}
	}
	if se, ok := ce.Fun.(*ast.SelectorExpr); ok {
		for k := range an.d(se.X) {
			paths[k] = true
		}
	}
	delete(paths, c03Auth)
	return paths
}

func (sc *c03Scan) handleCall(an *c03Fn, ce *ast.CallExpr, vars []string, depth int, in string) {
	name := c03CalleeName(ce)
	if name == "" || c03Parsers[name] {
		return
	}
	sc.seq++
	paths := sc.fieldsOfCall(an, ce)
	whole := false
	for _, arg := range ce.Args {
		if d := an.d(arg); d[c03Whole] {
			whole = true
		}
	}
	fds := sc.kfuncs[name]
	if len(fds) > 0 && depth < 3 && (whole || (sc.writers[name] && len(paths) > 0 && depth < 2 && c03DelegatesOnly(fds))) && !sc.visiting[name] {
		// descend: the callee sees the request (or the derived values) through its parameters
		for _, fd := range fds {
			if fd.Type.Params == nil {
				continue
			}
			var params []string
			for _, p := range fd.Type.Params.List {
				for _, n := range p.Names {
					params = append(params, n.Name)
				}
			}
			if len(params) != len(ce.Args) {
				continue
			}
			sub := &c03Fn{c: sc.c, req: "", auth: map[string]bool{}, assign: map[string][]ast.Expr{}, bind: map[string]map[string]bool{}}
			for i, pn := range params {
				d := an.d(ce.Args[i])
				if len(d) == 1 && d[c03Whole] {
					sub.req = pn
				} else if len(d) > 0 {
					delete(d, c03Whole)
					sub.bind[pn] = d
				}
			}
			sub.collectAssigns(fd.Body)
			saved := sc.byVar
			sc.byVar = map[string]int{}
			sc.visiting[name] = true
			sc.walkBlock(sub, fd.Body, depth+1, name)
			delete(sc.visiting, name)
			sc.byVar = saved
		}
		if len(vars) > 0 {
			sc.lookups = append(sc.lookups, c03Lk{name, paths, vars, sc.seq})
			for _, v := range vars {
				sc.byVar[v] = len(sc.lookups) - 1
			}
		}
		return
	}
	if _, isSel := ce.Fun.(*ast.SelectorExpr); sc.writers[name] || (isSel && c03DirectMutators[name] && depth > 0) {
		sc.writes = append(sc.writes, c03Wr{name, paths, sc.seq, in})
		if len(vars) == 0 {
			return
		}
	}
	if len(vars) > 0 {
		sc.lookups = append(sc.lookups, c03Lk{name, paths, vars, sc.seq})
		for _, v := range vars {
			sc.byVar[v] = len(sc.lookups) - 1
		}
	}
}

// c03DelegatesOnly: placeholder for a finer criterion; writers that take derived values are
// recorded at the call site, not descended into.
func c03DelegatesOnly(fds []*ast.FuncDecl) bool { return true }

func (sc *c03Scan) walkExpr(an *c03Fn, e ast.Expr, depth int, in string) {
	if e == nil {
		return
	}
	ast.Inspect(e, func(n ast.Node) bool {
		switch x := n.(type) {
		case *ast.FuncLit:
			sc.walkBlock(an, x.Body, depth, in)
			return false
		case *ast.CallExpr:
			sc.handleCall(an, x, nil, depth, in)
		}
		return true
	})
}

func (sc *c03Scan) assignCall(an *c03Fn, lhs []ast.Expr, rhs []ast.Expr, depth int, in string) {
	if len(rhs) == 1 {
		if ce, ok := rhs[0].(*ast.CallExpr); ok {
			var vars []string
			for _, l := range lhs {
				if id, ok := l.(*ast.Ident); ok && id.Name != "_" && id.Name != "err" {
					vars = append(vars, id.Name)
				}
			}
			sc.handleCall(an, ce, vars, depth, in)
			for _, a := range ce.Args {
				sc.walkExpr(an, a, depth, in)
			}
			if se, ok := ce.Fun.(*ast.SelectorExpr); ok {
				sc.walkExpr(an, se.X, depth, in)
			}
			return
		}
	}
	for _, r := range rhs {
		sc.walkExpr(an, r, depth, in)
	}
}

func (sc *c03Scan) guardCheck(an *c03Fn, is *ast.IfStmt) {
	if !c03Bails(is.Body) {
		return
	}
	sc.seq++
	for _, dj := range c03Disjuncts(is.Cond) {
		// store.Has(key) used directly as the condition
		if ce, ok := dj.(*ast.CallExpr); ok && (c03CalleeName(ce) == "Has" || strings.HasSuffix(c03CalleeName(ce), "Exists")) {
			sc.lookups = append(sc.lookups, c03Lk{c03CalleeName(ce), sc.fieldsOfCall(an, ce), nil, sc.seq})
			sc.absent[len(sc.lookups)-1] = sc.seq
			continue
		}
		if v, ok := c03Presence(dj); ok {
			if li, ok := sc.byVar[v]; ok {
				sc.absent[li] = sc.seq
			}
			continue
		}
		if x, y, ok := c03Inequality(dj); ok {
			for _, pr := range [][2]ast.Expr{{x, y}, {y, x}} {
				if !c03Only(an.d(pr[1]), c03Creator) {
					continue
				}
				if li, ok := sc.byVar[c03RootIdent(pr[0])]; ok {
					sc.owner[li] = sc.seq
				}
			}
		}
	}
}

func (sc *c03Scan) walkStmt(an *c03Fn, st ast.Stmt, depth int, in string) {
	switch s := st.(type) {
	case nil:
	case *ast.BlockStmt:
		sc.walkBlock(an, s, depth, in)
	case *ast.IfStmt:
		sc.walkStmt(an, s.Init, depth, in)
		sc.walkExpr(an, s.Cond, depth, in)
		sc.guardCheck(an, s)
		sc.walkBlock(an, s.Body, depth, in)
		sc.walkStmt(an, s.Else, depth, in)
	case *ast.AssignStmt:
		sc.assignCall(an, s.Lhs, s.Rhs, depth, in)
	case *ast.DeclStmt:
		if gd, ok := s.Decl.(*ast.GenDecl); ok {
			for _, sp := range gd.Specs {
				if vs, ok := sp.(*ast.ValueSpec); ok {
					var lhs []ast.Expr
					for _, n := range vs.Names {
						lhs = append(lhs, n)
					}
					sc.assignCall(an, lhs, vs.Values, depth, in)
				}
			}
		}
	case *ast.ExprStmt:
		sc.walkExpr(an, s.X, depth, in)
	case *ast.ReturnStmt:
		for _, r := range s.Results {
			sc.walkExpr(an, r, depth, in)
		}
	case *ast.ForStmt:
		sc.walkStmt(an, s.Init, depth, in)
		sc.walkExpr(an, s.Cond, depth, in)
		sc.walkBlock(an, s.Body, depth, in)
		sc.walkStmt(an, s.Post, depth, in)
	case *ast.RangeStmt:
		sc.walkExpr(an, s.X, depth, in)
		sc.walkBlock(an, s.Body, depth, in)
	case *ast.SwitchStmt:
		sc.walkStmt(an, s.Init, depth, in)
		sc.walkExpr(an, s.Tag, depth, in)
		sc.walkBlock(an, s.Body, depth, in)
	case *ast.TypeSwitchStmt:
		sc.walkBlock(an, s.Body, depth, in)
	case *ast.CaseClause:
		for _, b := range s.Body {
			sc.walkStmt(an, b, depth, in)
		}
	case *ast.DeferStmt:
		sc.walkExpr(an, s.Call, depth, in)
	case *ast.GoStmt:
		sc.walkExpr(an, s.Call, depth, in)
	case *ast.IncDecStmt, *ast.BranchStmt, *ast.EmptyStmt, *ast.LabeledStmt, *ast.SendStmt, *ast.SelectStmt, *ast.CommClause:
	}
}

func (sc *c03Scan) walkBlock(an *c03Fn, b *ast.BlockStmt, depth int, in string) {
	if b == nil {
		return
	}
	for _, st := range b.List {
		sc.walkStmt(an, st, depth, in)
	}
}

type c03IdxRev struct {
	Kind string   `json:"kind"` // absent | owner | under_creator | content | gov
	Key  []string `json:"key,omitempty"`
	OKey []string `json:"owner_key,omitempty"`
	Why  string   `json:"why,omitempty"`
}

type c03IdxRow struct {
	Rpc, Callee string
	WFields     []string
	Absent      []string
	Owner       []string
	Kind        string
	Key         []string
	OKey        []string
}

func c03SortedKeys(m map[string]bool) []string {
	var out []string
	for k := range m {
		out = append(out, k)
	}
	sort.Strings(out)
	return out
}

// c03IndexRows scans one handler.
func c03IndexRows(c *Ctx, name string, hd *ast.FuncDecl, reqName string, kfuncs map[string][]*ast.FuncDecl, writers map[string]bool,
	rev map[string]c03IdxRev) ([]c03IdxRow, []string) {
	an := &c03Fn{c: c, req: reqName, auth: map[string]bool{}, assign: map[string][]ast.Expr{}, bind: map[string]map[string]bool{}}
	an.collectAssigns(hd.Body)
	sc := &c03Scan{c: c, kfuncs: kfuncs, writers: writers, absent: map[int]int{}, owner: map[int]int{}, byVar: map[string]int{}, visiting: map[string]bool{}}
	sc.walkBlock(an, hd.Body, 0, hd.Name.Name)
	var rows []c03IdxRow
	var unrev []string
	seen := map[string]bool{}
	for _, w := range sc.writes {
		sender := false
		for f := range w.Fields {
			if f != c03Creator && f != c03Whole {
				sender = true
			}
		}
		if !sender {
			continue // keyed by nothing the sender chooses beyond its own identity
		}
		ab, ow := map[string]bool{}, map[string]bool{}
		for li, gs := range sc.absent {
			if gs < w.Seq {
				for f := range sc.lookups[li].Fields {
					ab[f] = true
				}
			}
		}
		for li, gs := range sc.owner {
			if gs < w.Seq {
				for f := range sc.lookups[li].Fields {
					ow[f] = true
				}
			}
		}
		key := w.In + "." + w.Callee
		r, ok := rev[key]
		if !ok {
			unrev = append(unrev, fmt.Sprintf("%s: write %s(%s) not reviewed (index_writes) [extracted guards: absent on %v, owner on %v]", name, key, strings.Join(c03SortedKeys(w.Fields), ","), c03SortedKeys(ab), c03SortedKeys(ow)))
			if draft := os.Getenv("VERIF_C03_IDX_DRAFT"); draft != "" {
				kind, k := "content", []string(nil)
				switch {
				case len(ow) > 0:
					kind, k = "owner", c03SortedKeys(ow)
				case len(ab) > 0:
					kind, k = "absent", c03SortedKeys(ab)
				case w.Fields[c03Creator]:
					kind = "under_creator"
				}
				f, _ := os.OpenFile(draft, os.O_APPEND|os.O_CREATE|os.O_WRONLY, 0o644)
				kj, _ := json.Marshal(k)
				fmt.Fprintf(f, "%s\t%s\t%s\t%s\t%s\n", name, key, kind, kj, strings.Join(c03SortedKeys(w.Fields), ","))
				f.Close()
			}
			continue
		}
		if seen[key] {
			// several call sites of the same function: every one must be guarded; keep the weakest
			for i := range rows {
				if rows[i].Callee == key {
					rows[i].Absent = c03Intersect(rows[i].Absent, c03SortedKeys(ab))
					rows[i].Owner = c03Intersect(rows[i].Owner, c03SortedKeys(ow))
				}
			}
			continue
		}
		seen[key] = true
		rows = append(rows, c03IdxRow{name, key, c03SortedKeys(w.Fields), c03SortedKeys(ab), c03SortedKeys(ow), r.Kind, r.Key, r.OKey})
	}
	for k := range rev {
		if !seen[k] {
			unrev = append(unrev, fmt.Sprintf("%s: reviewed index write %s not found in the handler any more", name, k))
		}
	}
	return rows, unrev
}

func c03Intersect(a, b []string) []string {
	m := map[string]bool{}
	for _, x := range b {
		m[x] = true
	}
	var out []string
	for _, x := range a {
		if m[x] {
			out = append(out, x)
		}
	}
	return out
}

// c03TfGenesis: the keeper calls tokenfactory's InitGenesis makes per imported denom, in order.
func c03TfGenesis(c *Ctx) ([]string, error) {
	files, err := c.ParseDir("x/tokenfactory/keeper")
	if err != nil {
		return nil, err
	}
	ig := FindFuncIn(files, "Keeper", "InitGenesis")
	if ig == nil || ig.Body == nil || ig.Recv == nil || len(ig.Recv.List[0].Names) != 1 {
		return nil, fmt.Errorf("tokenfactory Keeper.InitGenesis not found")
	}
	recv := ig.Recv.List[0].Names[0].Name
	var loop *ast.RangeStmt
	for _, st := range ig.Body.List {
		if rs, ok := st.(*ast.RangeStmt); ok && strings.Contains(c.Src(rs.X), "FactoryDenoms") {
			if loop != nil {
				return nil, fmt.Errorf("tokenfactory InitGenesis: more than one loop over the factory denoms")
			}
			loop = rs
		}
	}
	if loop == nil {
		return nil, fmt.Errorf("tokenfactory InitGenesis: no loop over the factory denoms (shape not understood)")
	}
	var calls []string
	var bad error
	ast.Inspect(loop.Body, func(n ast.Node) bool {
		ce, ok := n.(*ast.CallExpr)
		if !ok {
			return true
		}
		se, ok := ce.Fun.(*ast.SelectorExpr)
		if !ok {
			return true
		}
		if id, ok := se.X.(*ast.Ident); !ok || id.Name != recv {
			return true
		}
		switch se.Sel.Name {
		case "createDenomAfterValidation", "setAuthorityMetadata":
			calls = append(calls, se.Sel.Name)
		default:
			bad = fmt.Errorf("tokenfactory InitGenesis: keeper call %s in the import loop is not modelled", se.Sel.Name)
		}
		return true
	})
	if bad != nil {
		return nil, bad
	}
	// createDenomAfterValidation writes {Admin: <its creator parameter>}
	cd := FindFuncIn(files, "Keeper", "createDenomAfterValidation")
	if cd == nil || cd.Body == nil {
		return nil, fmt.Errorf("tokenfactory createDenomAfterValidation not found")
	}
	writesCreator := false
	ast.Inspect(cd.Body, func(n ast.Node) bool {
		if cl, ok := n.(*ast.CompositeLit); ok && strings.HasSuffix(c.Src(cl.Type), "DenomAuthorityMetadata") {
			for _, el := range cl.Elts {
				if kv, ok := el.(*ast.KeyValueExpr); ok && c.Src(kv.Key) == "Admin" && c.Src(kv.Value) == "creatorAddr" {
					writesCreator = true
				}
			}
		}
		return true
	})
	if !writesCreator || len(Calls(cd.Body, "setAuthorityMetadata")) == 0 {
		return nil, fmt.Errorf("tokenfactory createDenomAfterValidation no longer writes {Admin: creatorAddr} (shape not understood)")
	}
	// ExportGenesis exports GetAuthorityMetadata of every denom
	eg := FindFuncIn(files, "Keeper", "ExportGenesis")
	if eg == nil || len(Calls(eg.Body, "GetAuthorityMetadata")) == 0 || len(Calls(eg.Body, "GetAllDenomsIterator")) == 0 {
		return nil, fmt.Errorf("tokenfactory ExportGenesis: does not export the authority metadata of every denom (shape not understood)")
	}
	return calls, nil
}
