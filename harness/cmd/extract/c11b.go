package main

import (
	"fmt"
	"go/ast"
	"go/token"
	"os"
	"path/filepath"
	"sort"
	"strings"
)

// C11, second round:
//   claim_impls       every struct type of x/skyway/types whose method set (own methods + methods promoted from embedded
//                     structs of the package) contains every method of the EthereumClaim interface
//   claim_registered  the implementations registered for the interface in RegisterInterfaces (what an Any inside a
//                     stored attestation can be unpacked to)
//   claim_asserted    `var _ EthereumClaim = &T{}`
//   claim_handled     the cases of the type switch in AttestationHandler.Handle
//   validate_checks   the stateless checks of each claim type's ValidateBasic, in order
//   batch_gate        the statements of additionalPatchChecks (what a batch claim must pass before Attest)
// It is an error (unknown shape) if an implementer has no ClaimHash of its own (promoted through embedding: the outer
// struct's fields would not be hashed), if a registered type is not an implementer, if the interface is registered
// anywhere outside x/skyway/types/codec.go, or if an implementer is not one of the claim types the model and the
// harness know (c11Known) — a claim type added later must be added there (and to harness/c11 build()) first.

var c11Known = []string{"MsgBatchSendToEthClaim", "MsgBatchSendToRemoteClaim", "MsgLightNodeSaleClaim", "MsgSendToPalomaClaim"}

const c11Iface = "EthereumClaim"

func refTypeName(e ast.Expr) string { // &T{} | T{} | *T | T
	switch y := e.(type) {
	case *ast.UnaryExpr:
		if y.Op == token.AND {
			return refTypeName(y.X)
		}
	case *ast.CompositeLit:
		return refTypeName(y.Type)
	case *ast.StarExpr:
		return refTypeName(y.X)
	case *ast.Ident:
		return y.Name
	case *ast.ParenExpr:
		return refTypeName(y.X)
	}
	return ""
}

func (x *c11X) extractImpls(names []string, tfiles []*ast.File) error {
	c := x.c
	// (a) interface methods
	var imethods []string
	for _, f := range tfiles {
		for _, d := range f.Decls {
			g, ok := d.(*ast.GenDecl)
			if !ok {
				continue
			}
			for _, s := range g.Specs {
				ts, ok := s.(*ast.TypeSpec)
				if !ok || ts.Name.Name != c11Iface {
					continue
				}
				it, ok := ts.Type.(*ast.InterfaceType)
				if !ok {
					return fmt.Errorf("%s is not an interface", c11Iface)
				}
				for _, m := range it.Methods.List {
					if len(m.Names) == 0 {
						return fmt.Errorf("%s embeds another interface (%s): unknown shape", c11Iface, c.Src(m.Type))
					}
					for _, n := range m.Names {
						imethods = append(imethods, n.Name)
					}
				}
			}
		}
	}
	if len(imethods) == 0 {
		return fmt.Errorf("interface %s not found in x/skyway/types", c11Iface)
	}
	// (b) structs, embedded fields, own methods
	embeds := map[string][]string{}
	isStruct := map[string]bool{}
	own := map[string]map[string]bool{}
	for _, f := range tfiles {
		for _, d := range f.Decls {
			switch g := d.(type) {
			case *ast.GenDecl:
				for _, s := range g.Specs {
					ts, ok := s.(*ast.TypeSpec)
					if !ok {
						continue
					}
					switch tt := ts.Type.(type) {
					case *ast.StructType:
						isStruct[ts.Name.Name] = true
						for _, fl := range tt.Fields.List {
							if len(fl.Names) == 0 {
								if n := refTypeName(fl.Type); n != "" {
									embeds[ts.Name.Name] = append(embeds[ts.Name.Name], n)
								}
							}
						}
					case *ast.Ident: // type T U: no methods inherited, but note it
						isStruct[ts.Name.Name] = isStruct[ts.Name.Name] || false
					}
				}
			case *ast.FuncDecl:
				if rt := recvType(g); rt != "" {
					if own[rt] == nil {
						own[rt] = map[string]bool{}
					}
					own[rt][g.Name.Name] = true
				}
			}
		}
	}
	var mset func(t string, depth int) map[string]bool
	mset = func(t string, depth int) map[string]bool {
		out := map[string]bool{}
		for m := range own[t] {
			out[m] = true
		}
		if depth < 4 {
			for _, e := range embeds[t] {
				for m := range mset(e, depth+1) {
					out[m] = true
				}
			}
		}
		return out
	}
	impl := map[string]bool{}
	for t := range isStruct {
		ms := mset(t, 0)
		all := true
		for _, m := range imethods {
			if !ms[m] {
				all = false
				break
			}
		}
		if all {
			impl[t] = true
		}
	}
	inNames := map[string]bool{}
	for _, n := range names {
		inNames[n] = true
	}
	for t := range impl {
		if !own[t]["ClaimHash"] {
			return fmt.Errorf("%s implements %s but has no ClaimHash of its own (promoted from an embedded claim %v): its own fields are not hashed", t, c11Iface, embeds[t])
		}
		if !inNames[t] {
			return fmt.Errorf("%s implements %s but was not found among the ClaimHash receivers", t, c11Iface)
		}
	}
	// a claim type embedding another struct of the package: the promoted fields are invisible to the field tables
	for _, n := range names {
		if len(embeds[n]) > 0 {
			return fmt.Errorf("claim type %s embeds %v: fields reached through embedding are not in the field tables (unknown shape)", n, embeds[n])
		}
	}
	// (e) registered implementations
	reg := map[string]bool{}
	regSites := 0
	for _, f := range tfiles {
		ast.Inspect(f, func(n ast.Node) bool {
			ce, ok := n.(*ast.CallExpr)
			if !ok {
				return true
			}
			se, ok := ce.Fun.(*ast.SelectorExpr)
			if !ok {
				return true
			}
			switch se.Sel.Name {
			case "RegisterInterface":
				if len(ce.Args) >= 2 && c.Src(ce.Args[1]) == "(*"+c11Iface+")(nil)" {
					if _, isLit := ce.Args[0].(*ast.BasicLit); !isLit {
						return true // amino: cdc.RegisterInterface((*EthereumClaim)(nil), nil)
					}
					regSites++
					for _, a := range ce.Args[2:] {
						reg[refTypeName(a)] = true
					}
				}
			case "RegisterImplementations":
				if len(ce.Args) >= 1 && c.Src(ce.Args[0]) == "(*"+c11Iface+")(nil)" {
					regSites++
					for _, a := range ce.Args[1:] {
						reg[refTypeName(a)] = true
					}
				}
			}
			return true
		})
	}
	if regSites != 1 {
		return fmt.Errorf("expected exactly one registration of %s implementations in x/skyway/types, found %d", c11Iface, regSites)
	}
	for t := range reg {
		if !impl[t] {
			return fmt.Errorf("%s is registered as an %s implementation but its method set does not cover the interface", t, c11Iface)
		}
	}
	// (f) no registration elsewhere in the tree
	var foreign []string
	for _, root := range []string{"x", "app", "util", "internal"} {
		_ = filepath.Walk(filepath.Join(c.Repo, root), func(p string, info os.FileInfo, err error) error {
			if err != nil || info.IsDir() || !strings.HasSuffix(p, ".go") || strings.HasSuffix(p, "_test.go") {
				return nil
			}
			if strings.Contains(p, filepath.Join("x", "skyway", "types")+string(filepath.Separator)) {
				return nil
			}
			bz, err := os.ReadFile(p)
			if err == nil && strings.Contains(string(bz), c11Iface+")(nil)") {
				foreign = append(foreign, strings.TrimPrefix(p, c.Repo+"/"))
			}
			return nil
		})
	}
	if len(foreign) > 0 {
		return fmt.Errorf("%s implementations are registered outside x/skyway/types: %v (unknown shape)", c11Iface, foreign)
	}
	// (g) compile-time assertions
	asserted := map[string]bool{}
	for _, f := range tfiles {
		ast.Inspect(f, func(n ast.Node) bool {
			vs, ok := n.(*ast.ValueSpec)
			if !ok || vs.Type == nil || c.Src(vs.Type) != c11Iface {
				return true
			}
			for _, v := range vs.Values {
				asserted[refTypeName(v)] = true
			}
			return true
		})
	}
	// (h) handled by the attestation handler
	handled := map[string]bool{}
	hf := FindFuncIn(x.kfiles, "AttestationHandler", "Handle")
	if hf == nil {
		return fmt.Errorf("AttestationHandler.Handle not found")
	}
	nsw := 0
	ast.Inspect(hf.Body, func(n ast.Node) bool {
		sw, ok := n.(*ast.TypeSwitchStmt)
		if !ok {
			return true
		}
		nsw++
		for _, cl := range sw.Body.List {
			for _, te := range cl.(*ast.CaseClause).List {
				handled[strings.TrimPrefix(refTypeNameSel(te), "types.")] = true
			}
		}
		return true
	})
	if nsw != 1 {
		return fmt.Errorf("AttestationHandler.Handle: expected exactly one type switch, found %d", nsw)
	}
	known := map[string]bool{}
	for _, k := range c11Known {
		known[k] = true
	}
	for t := range impl {
		if !known[t] {
			return fmt.Errorf("claim type %s implements %s but is not listed in the C11 model / harness (c11Known in cmd/extract/c11b.go, Claims.known_claim_types, harness/c11 build()): add it there before it can be verified", t, c11Iface)
		}
	}
	for t := range handled {
		if !impl[t] {
			return fmt.Errorf("AttestationHandler.Handle has a case for %s which is not an %s implementer", t, c11Iface)
		}
	}
	c.P("(* implementers of the %s interface (method set incl. promoted methods covers: %s) *)", c11Iface, strings.Join(imethods, ", "))
	c.P("Definition claim_impls : list string := %s.", CoqStrList(SortedSet(impl)))
	c.P("Definition claim_registered : list string := %s.", CoqStrList(SortedSet(reg)))
	c.P("Definition claim_asserted : list string := %s.", CoqStrList(SortedSet(asserted)))
	c.P("Definition claim_handled : list string := %s.", CoqStrList(SortedSet(handled)))
	c.Info("claim_impls", SortedSet(impl))
	c.Info("claim_registered", SortedSet(reg))
	c.Info("claim_handled", SortedSet(handled))
	return nil
}

func refTypeNameSel(e ast.Expr) string { // *types.T | types.T | *T
	switch y := e.(type) {
	case *ast.StarExpr:
		return refTypeNameSel(y.X)
	case *ast.SelectorExpr:
		return y.Sel.Name
	case *ast.Ident:
		return y.Name
	}
	return ""
}

// extractValidate: ValidateBasic of every claim type as a list of (check, field).
func (x *c11X) extractValidate(names []string) error {
	c := x.c
	table := map[string][][2]string{}
	for _, n := range names {
		t := x.types[n]
		fd := t.methods["ValidateBasic"]
		if fd == nil || fd.Body == nil {
			return fmt.Errorf("%s.ValidateBasic not found", n)
		}
		rv := recvName(fd)
		fieldOf := func(e ast.Expr) string {
			se, ok := e.(*ast.SelectorExpr)
			if !ok {
				return ""
			}
			if id, ok := se.X.(*ast.Ident); ok && id.Name == rv {
				if _, ok := t.kind[se.Sel.Name]; ok {
					return se.Sel.Name
				}
			}
			return ""
		}
		for i, st := range fd.Body.List {
			if i == len(fd.Body.List)-1 {
				if c.Src(st) != "return nil" {
					return fmt.Errorf("%s.ValidateBasic: last statement is not `return nil`: %s", n, c.Src(st))
				}
				break
			}
			ifs, ok := st.(*ast.IfStmt)
			if !ok || ifs.Else != nil || len(ifs.Body.List) != 1 {
				return fmt.Errorf("%s.ValidateBasic: statement not understood: %s", n, c.Src(st))
			}
			if _, ok := ifs.Body.List[0].(*ast.ReturnStmt); !ok {
				return fmt.Errorf("%s.ValidateBasic: guarded statement is not a return: %s", n, c.Src(st))
			}
			var it [2]string
			if ifs.Init != nil {
				as, ok := ifs.Init.(*ast.AssignStmt)
				if !ok || len(as.Rhs) != 1 || c.Src(ifs.Cond) != "err != nil" {
					return fmt.Errorf("%s.ValidateBasic: statement not understood: %s", n, c.Src(st))
				}
				ce, ok := as.Rhs[0].(*ast.CallExpr)
				if !ok || len(ce.Args) != 1 {
					return fmt.Errorf("%s.ValidateBasic: statement not understood: %s", n, c.Src(st))
				}
				switch c.Src(ce.Fun) {
				case "libmeta.ValidateBasic":
					if id, ok := ce.Args[0].(*ast.Ident); !ok || id.Name != rv {
						return fmt.Errorf("%s.ValidateBasic: libmeta.ValidateBasic not applied to the receiver", n)
					}
					it = [2]string{"meta", ""}
				case "ValidateEthAddress":
					f := fieldOf(ce.Args[0])
					if f == "" || t.kind[f] != "str" {
						return fmt.Errorf("%s.ValidateBasic: ValidateEthAddress argument not understood: %s", n, c.Src(ce.Args[0]))
					}
					it = [2]string{"eth", f}
				default:
					return fmt.Errorf("%s.ValidateBasic: unknown check %s", n, c.Src(ce.Fun))
				}
			} else {
				be, ok := ifs.Cond.(*ast.BinaryExpr)
				if !ok || be.Op != token.EQL || c.Src(be.Y) != "0" || fieldOf(be.X) == "" || t.kind[fieldOf(be.X)] != "num" {
					return fmt.Errorf("%s.ValidateBasic: condition not understood: %s", n, c.Src(ifs.Cond))
				}
				it = [2]string{"nonzero", fieldOf(be.X)}
			}
			table[n] = append(table[n], it)
		}
	}
	c.P("(* ValidateBasic of each claim type: meta = libmeta.ValidateBasic(msg) (creator / signers are account addresses), eth = ValidateEthAddress(field),")
	c.P("   nonzero = field == 0 is refused; any other statement is an unknown shape *)")
	c.P("Definition validate_checks (ct : string) : list (string * string) :=")
	for _, n := range names {
		q := make([]string, len(table[n]))
		for i, p := range table[n] {
			q[i] = "(" + CoqStr(p[0]) + ", " + CoqStr(p[1]) + ")"
		}
		c.P("  if String.eqb ct %s then [%s] else", CoqStr(n), strings.Join(q, "; "))
	}
	c.P("  [].")
	c.Info("validate_checks", table)
	// ValidateEthAddress itself
	lf, err := c.Parse("util/libeth/libeth.go")
	if err != nil {
		return err
	}
	ve := FindFunc(lf, "", "ValidateEthAddress")
	if ve == nil {
		return fmt.Errorf("libeth.ValidateEthAddress not found")
	}
	var steps []string
	pn := paramNames(ve)[0]
	for _, st := range ve.Body.List {
		switch s := st.(type) {
		case *ast.IfStmt:
			cond := c.Src(s.Cond)
			if s.Init != nil {
				cond = c.Src(s.Init) + "; " + cond
			}
			body := "return-error"
			if len(s.Body.List) == 1 {
				if _, isRet := s.Body.List[0].(*ast.ReturnStmt); !isRet {
					body = c.Src(s.Body.List[0])
				}
			}
			steps = append(steps, strings.ReplaceAll("if "+cond+" => "+body, pn, "$a"))
		case *ast.ReturnStmt:
			steps = append(steps, strings.ReplaceAll(c.Src(s), pn, "$a"))
		default:
			steps = append(steps, strings.ReplaceAll(c.Src(s), pn, "$a"))
		}
	}
	hp := FindFunc(lf, "", "has0xPrefix")
	if hp == nil || len(hp.Body.List) != 1 {
		return fmt.Errorf("libeth.has0xPrefix not recognised")
	}
	steps = append(steps, "has0xPrefix: "+strings.ReplaceAll(c.Src(hp.Body.List[0]), paramNames(hp)[0], "$a"))
	c.P("Definition eth_validate_shape : list string := %s.", CoqStrList(steps))
	return nil
}

// extractBatchGate: additionalPatchChecks, statement by statement, and its position in BatchSendToRemoteClaim.
func (x *c11X) extractBatchGate() error {
	c := x.c
	fd := FindFuncIn(x.kfiles, "", "additionalPatchChecks")
	if fd == nil {
		return fmt.Errorf("additionalPatchChecks not found")
	}
	pp := paramNames(fd)
	m := pp[len(pp)-1]
	norm := func(s string) string {
		s = strings.ReplaceAll(s, m+".", "$m.")
		return strings.Join(strings.Fields(s), " ")
	}
	var steps []string
	for _, st := range fd.Body.List {
		switch s := st.(type) {
		case *ast.AssignStmt:
			steps = append(steps, norm(c.Src(s)))
		case *ast.IfStmt:
			if s.Init != nil || s.Else != nil || len(s.Body.List) != 1 {
				return fmt.Errorf("additionalPatchChecks: statement not understood: %s", c.Src(s))
			}
			rs, ok := s.Body.List[0].(*ast.ReturnStmt)
			if !ok || len(rs.Results) != 1 {
				return fmt.Errorf("additionalPatchChecks: guarded statement is not a return: %s", c.Src(s))
			}
			res := "error"
			if c.Src(rs.Results[0]) == "nil" {
				res = "nil"
			}
			steps = append(steps, norm("if "+c.Src(s.Cond)+" return "+res))
		case *ast.ReturnStmt:
			steps = append(steps, norm(c.Src(s)))
		default:
			return fmt.Errorf("additionalPatchChecks: statement not understood: %s", c.Src(st))
		}
	}
	c.P("(* additionalPatchChecks(ctx, k, $m): what a batch claim passes before Attest *)")
	c.P("Definition batch_gate : list string := %s.", CoqStrList(steps))
	// position in the msg server: before claimHandlerCommon, error returned
	var users []string
	for _, f := range x.kfiles {
		for _, d := range f.Decls {
			g, ok := d.(*ast.FuncDecl)
			if !ok || g.Body == nil || g.Name.Name == "additionalPatchChecks" {
				continue
			}
			if len(Calls(g.Body, "additionalPatchChecks")) > 0 {
				users = append(users, g.Name.Name)
				src := strings.Join(strings.Fields(c.Src(g.Body)), " ")
				i := strings.Index(src, "additionalPatchChecks(")
				j := strings.Index(src, "claimHandlerCommon(")
				if i < 0 || j < 0 || i > j || !strings.Contains(src[i:j], "if err != nil { return nil, err }") {
					return fmt.Errorf("%s: additionalPatchChecks is not checked before claimHandlerCommon", g.Name.Name)
				}
			}
		}
	}
	sort.Strings(users)
	c.P("Definition batch_gate_users : list string := %s.", CoqStrList(users))
	c.Info("batch_gate", steps)
	return nil
}

// extractKeySites: every call of SetAttestation / GetAttestation / DeleteAttestation's store access in the keeper
// (Attest, TryAttestation, InitGenesis, …) must address the store with (X.GetChainReferenceId(), X.GetSkywayNonce(), hash)
// where hash is X.ClaimHash() of the SAME claim X in the same function, and the attestation written is the one that holds
// X (new: `Claim: anyClaim`; otherwise the attestation X was unpacked from).
func (x *c11X) extractKeySites() error {
	c := x.c
	var sites []string
	for _, f := range x.kfiles {
		for _, d := range f.Decls {
			fd, ok := d.(*ast.FuncDecl)
			if !ok || fd.Body == nil || fd.Name.Name == "SetAttestation" || fd.Name.Name == "GetAttestation" {
				continue
			}
			src := strings.Join(strings.Fields(c.Src(fd.Body)), " ")
			for _, fn := range []string{"SetAttestation", "GetAttestation"} {
				for _, ce := range Calls(fd.Body, fn) {
					if len(ce.Args) < 4 {
						return fmt.Errorf("%s: %s call with %d arguments", fd.Name.Name, fn, len(ce.Args))
					}
					g1, g2, h := c.Src(ce.Args[1]), c.Src(ce.Args[2]), c.Src(ce.Args[3])
					if !strings.HasSuffix(g1, ".GetChainReferenceId()") || !strings.HasSuffix(g2, ".GetSkywayNonce()") {
						return fmt.Errorf("%s: %s(%s, %s, %s): the store is not addressed by the claim's chain reference id and skyway nonce", fd.Name.Name, fn, g1, g2, h)
					}
					v := strings.TrimSuffix(g1, ".GetChainReferenceId()")
					if strings.TrimSuffix(g2, ".GetSkywayNonce()") != v {
						return fmt.Errorf("%s: %s: chain and nonce are taken from different claims (%s, %s)", fd.Name.Name, fn, g1, g2)
					}
					if !strings.Contains(src, h+", err := "+v+".ClaimHash()") {
						return fmt.Errorf("%s: %s: `%s` is not %s.ClaimHash() of the same claim", fd.Name.Name, fn, h, v)
					}
					if fn == "SetAttestation" && len(ce.Args) == 5 && fd.Name.Name != "Attest" {
						// the attestation written must be the one the claim was unpacked from
						a := strings.TrimPrefix(c.Src(ce.Args[4]), "&")
						if !strings.Contains(src, v+", err := k.UnpackAttestationClaim("+a+")") && !strings.Contains(src, v+", err := k.UnpackAttestationClaim(&"+a+")") {
							return fmt.Errorf("%s: SetAttestation writes %s, which is not the attestation claim %s was unpacked from", fd.Name.Name, a, v)
						}
					}
					sites = append(sites, fd.Name.Name+":"+fn)
				}
			}
		}
	}
	sort.Strings(sites)
	c.P("(* every keeper call site of SetAttestation / GetAttestation addresses the store with the chain, nonce and ClaimHash of ONE claim,")
	c.P("   and (outside Attest) writes the attestation that claim was unpacked from *)")
	c.P("Definition attestation_key_sites : list string := %s.", CoqStrList(sites))
	c.Info("attestation_key_sites", sites)
	return nil
}

// extractEffectReads: WHERE the fields exempted from the hash are read.
//   tally_fields         fields of a claim read on the tally path (TryAttestation and everything it hands the claim to —
//                        helpers taking the claim as an interface value included: a call claim.GetX() on the interface is
//                        attributed to field X of every claim type through the type's own getter —, processAttestation,
//                        emitObservedEvent, GetAttestationMapping, UnobservedBlocksByAddr, DeleteAttestation, the type's
//                        attestation handler)
//   submit_fields_nogate fields read on the submission path (msg server, additionalPatchChecks, claimHandlerCommon, Attest)
//                        other than inside the claim's ValidateBasic
// The model exempts Orchestrator / Metadata / EventNonce from the hash only as long as none of them is read on the tally
// path and EventNonce is read by nothing but ValidateBasic (Claims.excluded_ok).
func (x *c11X) extractEffectReads(names []string, entryGeneric []string) error {
	c := x.c
	tally := map[string][]string{}
	submit := map[string][]string{}
	for _, n := range names {
		t := x.types[n]
		// tally path: everything followed
		out := map[string]bool{}
		mseen, fseen := map[string]bool{}, map[string]bool{}
		for _, g := range entryGeneric {
			fd := FindFuncIn(x.kfiles, "Keeper", g)
			if fd == nil {
				return fmt.Errorf("keeper function %s not found", g)
			}
			x.walk(fd.Body, map[string]bool{}, t, out, mseen, fseen)
		}
		tally[n] = SortedSet(out)
		// submission path without the claim's ValidateBasic
		x.skip = map[string]bool{"ValidateBasic": true}
		out2 := map[string]bool{}
		mseen, fseen = map[string]bool{}, map[string]bool{}
		for _, f := range x.kfiles {
			for _, d := range f.Decls {
				fd, ok := d.(*ast.FuncDecl)
				if !ok || recvType(fd) != "msgServer" || fd.Body == nil {
					continue
				}
				for _, p := range fd.Type.Params.List {
					if c.Src(p.Type) == "*types."+n && len(p.Names) == 1 {
						x.walk(fd.Body, map[string]bool{p.Names[0].Name: true}, t, out2, mseen, fseen)
					}
				}
			}
		}
		x.skip = nil
		submit[n] = SortedSet(out2)
	}
	emit := func(def string, m map[string][]string) {
		c.P("Definition %s (ct : string) : list string :=", def)
		for _, n := range names {
			c.P("  if String.eqb ct %s then %s else", CoqStr(n), CoqStrList(m[n]))
		}
		c.P("  [].")
	}
	c.P("(* fields read on the tally path (TryAttestation + every keeper function the claim is handed to, the type's attestation handler) *)")
	emit("tally_fields", tally)
	c.P("(* fields read on the submission path outside the claim's own ValidateBasic *)")
	emit("submit_fields_nogate", submit)
	c.Info("tally_fields", tally)
	c.Info("submit_fields_nogate", submit)
	return nil
}
