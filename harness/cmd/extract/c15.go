package main

import (
	"fmt"
	"go/ast"
	"go/token"
	"regexp"
	"strconv"
	"strings"
)

// C15: bridge tax / transfer limit.  Translated from the source, so that a change of the code
// changes the definitions the model and the theorems are stated over:
//   - util/blocks constants and types.BridgeTransferLimit.BlockLimit (period -> blocks)
//   - UpdateBridgeTransferUsageWithLimit: window-restart comparison, limit comparison, what is
//     added to the tally, and that the tally is saved after the limit check
//   - bridgeTaxAmount: the tax expression (amount * num / den, truncated)
//   - AddToOutgoingPool: lock = amount + tax, tax recorded on the transfer, order limit -> tax -> lock
//   - RemoveFromOutgoingPoolAndRefund / OutgoingTxBatchExecuted: refund and burn expressions
func init() { extractors["C15"] = extractC15 }

var c15space = regexp.MustCompile(`\s+`)

func c15norm(s string) string { return c15space.ReplaceAllString(s, "") }

// c15evalInt evaluates an integer constant expression over literals, * + - and named constants.
func c15evalInt(e ast.Expr, env map[string]ast.Expr, depth int) (int64, error) {
	if depth > 20 {
		return 0, fmt.Errorf("constant expression too deep")
	}
	switch x := e.(type) {
	case *ast.BasicLit:
		if x.Kind != token.INT {
			return 0, fmt.Errorf("non-integer literal %s", x.Value)
		}
		return strconv.ParseInt(strings.ReplaceAll(x.Value, "_", ""), 0, 64)
	case *ast.Ident:
		d, ok := env[x.Name]
		if !ok {
			return 0, fmt.Errorf("unknown constant %s", x.Name)
		}
		return c15evalInt(d, env, depth+1)
	case *ast.ParenExpr:
		return c15evalInt(x.X, env, depth+1)
	case *ast.BinaryExpr:
		a, err := c15evalInt(x.X, env, depth+1)
		if err != nil {
			return 0, err
		}
		b, err := c15evalInt(x.Y, env, depth+1)
		if err != nil {
			return 0, err
		}
		switch x.Op {
		case token.MUL:
			return a * b, nil
		case token.ADD:
			return a + b, nil
		case token.SUB:
			return a - b, nil
		}
		return 0, fmt.Errorf("unsupported operator %s in constant", x.Op)
	}
	return 0, fmt.Errorf("unsupported constant expression")
}

func c15cmp(op string) (string, error) {
	switch op {
	case ">=", "GTE":
		return ">=?", nil
	case ">", "GT":
		return ">?", nil
	case "<=", "LTE":
		return "<=?", nil
	case "<", "LT":
		return "<?", nil
	}
	return "", fmt.Errorf("comparison %q not understood", op)
}

func extractC15(c *Ctx) error {
	// ---- 1. block constants ----
	bf, err := c.Parse("util/blocks/blocks.go")
	if err != nil {
		return err
	}
	env := map[string]ast.Expr{}
	for _, d := range bf.Decls {
		gd, ok := d.(*ast.GenDecl)
		if !ok || gd.Tok != token.CONST {
			continue
		}
		for _, s := range gd.Specs {
			vs := s.(*ast.ValueSpec)
			for i, n := range vs.Names {
				if i < len(vs.Values) {
					env[n.Name] = vs.Values[i]
				}
			}
		}
	}
	// ---- 2. BlockLimit switch ----
	lf, err := c.Parse("x/skyway/types/bridge_transfer_limit.go")
	if err != nil {
		return err
	}
	bl := FindFunc(lf, "BridgeTransferLimit", "BlockLimit")
	if bl == nil {
		return fmt.Errorf("BridgeTransferLimit.BlockLimit not found")
	}
	periods := map[string]int64{}
	var def *int64
	var sw *ast.SwitchStmt
	ast.Inspect(bl.Body, func(n ast.Node) bool {
		if s, ok := n.(*ast.SwitchStmt); ok && sw == nil {
			sw = s
		}
		return true
	})
	if sw == nil || c15norm(c.Src(sw.Tag)) != "m.LimitPeriod" {
		return fmt.Errorf("BlockLimit: expected `switch m.LimitPeriod`")
	}
	for _, st := range sw.Body.List {
		cc := st.(*ast.CaseClause)
		if len(cc.Body) != 1 {
			return fmt.Errorf("BlockLimit: case body shape")
		}
		rs, ok := cc.Body[0].(*ast.ReturnStmt)
		if !ok || len(rs.Results) != 1 {
			return fmt.Errorf("BlockLimit: case must return one value")
		}
		var v int64
		switch r := rs.Results[0].(type) {
		case *ast.SelectorExpr:
			if c.Src(r.X) != "blocks" {
				return fmt.Errorf("BlockLimit: unexpected package %s", c.Src(r.X))
			}
			v, err = c15evalInt(r.Sel, env, 0)
		default:
			v, err = c15evalInt(r, env, 0)
		}
		if err != nil {
			return fmt.Errorf("BlockLimit: %v", err)
		}
		if cc.List == nil {
			vv := v
			def = &vv
			continue
		}
		for _, e := range cc.List {
			name := c.Src(e)
			if !strings.HasPrefix(name, "LimitPeriod_") {
				return fmt.Errorf("BlockLimit: unexpected case %s", name)
			}
			periods[strings.TrimPrefix(name, "LimitPeriod_")] = v
		}
	}
	if def == nil {
		return fmt.Errorf("BlockLimit: no default case")
	}
	c.P("(* x/skyway/types/bridge_transfer_limit.go BlockLimit + util/blocks/blocks.go *)")
	for _, p := range []string{"DAILY", "WEEKLY", "MONTHLY", "YEARLY"} {
		v, ok := periods[p]
		if !ok {
			v = *def
		}
		c.P("Definition blocks_%s : Z := %d.", p, v)
	}
	if v, ok := periods["NONE"]; ok {
		c.P("Definition blocks_NONE : Z := %d.", v)
	} else {
		c.P("Definition blocks_NONE : Z := %d.", *def)
	}
	c.Info("periods", periods)

	// ---- 3. UpdateBridgeTransferUsageWithLimit ----
	kf, err := c.Parse("x/skyway/keeper/keeper.go")
	if err != nil {
		return err
	}
	up := FindFunc(kf, "Keeper", "UpdateBridgeTransferUsageWithLimit")
	if up == nil {
		return fmt.Errorf("UpdateBridgeTransferUsageWithLimit not found")
	}
	restart := ""
	ast.Inspect(up.Body, func(n ast.Node) bool {
		be, ok := n.(*ast.BinaryExpr)
		if ok && c15norm(c.Src(be.X)) == "blockHeight-usage.StartBlockHeight" && c15norm(c.Src(be.Y)) == "limits.BlockLimit()" {
			restart = be.Op.String()
		}
		return true
	})
	if restart == "" {
		return fmt.Errorf("window restart comparison `blockHeight-usage.StartBlockHeight <op> limits.BlockLimit()` not found")
	}
	rop, err := c15cmp(restart)
	if err != nil {
		return err
	}
	c.P("(* keeper.go UpdateBridgeTransferUsageWithLimit: blockHeight-usage.StartBlockHeight %s limits.BlockLimit() *)", restart)
	c.P("Definition window_restart (elapsed blocks : Z) : bool := elapsed %s blocks.", rop)
	// the two composite literals: fresh tally and running tally
	var totals []string
	ast.Inspect(up.Body, func(n ast.Node) bool {
		cl, ok := n.(*ast.CompositeLit)
		if !ok || !strings.HasSuffix(c.Src(cl.Type), "BridgeTransferUsage") {
			return true
		}
		tot, start := "", ""
		for _, el := range cl.Elts {
			kv, ok := el.(*ast.KeyValueExpr)
			if !ok {
				continue
			}
			switch c.Src(kv.Key) {
			case "Total":
				tot = c15norm(c.Src(kv.Value))
			case "StartBlockHeight":
				start = c15norm(c.Src(kv.Value))
			}
		}
		totals = append(totals, tot+"@"+start)
		return true
	})
	if len(totals) != 2 || totals[0] != "coin.Amount@blockHeight" || totals[1] != "usage.Total.Add(coin.Amount)@usage.StartBlockHeight" {
		return fmt.Errorf("usage tallies not recognised: %v", totals)
	}
	c.P("Definition fresh_total (amount : Z) : Z := amount.")
	c.P("Definition running_total (total amount : Z) : Z := total + amount.")
	// limit check and save order
	limitOp := ""
	var limitPos, savePos token.Pos
	for _, st := range up.Body.List {
		if is, ok := st.(*ast.IfStmt); ok {
			if ce, ok := is.Cond.(*ast.CallExpr); ok {
				if se, ok := ce.Fun.(*ast.SelectorExpr); ok && c15norm(c.Src(se.X)) == "newUsage.Total" &&
					len(ce.Args) == 1 && c15norm(c.Src(ce.Args[0])) == "limits.Limit" {
					if len(is.Body.List) == 1 {
						if rs, ok := is.Body.List[0].(*ast.ReturnStmt); ok && len(rs.Results) == 1 && c.Src(rs.Results[0]) != "nil" {
							limitOp = se.Sel.Name
							limitPos = is.Pos()
						}
					}
				}
			}
		}
	}
	for _, ce := range Calls(up.Body, "Save") {
		if len(ce.Args) == 4 && c15norm(c.Src(ce.Args[3])) == "&newUsage" {
			savePos = ce.Pos()
		}
	}
	if limitOp == "" || savePos == token.NoPos {
		return fmt.Errorf("limit check `if newUsage.Total.<cmp>(limits.Limit) { return err }` or Save(&newUsage) not found")
	}
	lop, err := c15cmp(limitOp)
	if err != nil {
		return err
	}
	c.P("(* if newUsage.Total.%s(limits.Limit) { return error } *)", limitOp)
	c.P("Definition limit_exceeded (total limit : Z) : bool := total %s limit.", lop)
	c.P("Definition usage_saved_after_limit_check : bool := %v.", savePos > limitPos)
	// exemption loop and NONE
	srcUp := c15norm(c.Src(up.Body))
	c.P("Definition limit_exemptions_honoured : bool := %v.", strings.Contains(srcUp, "for_,addr:=rangelimits.ExemptAddresses{ifsender.Equals(addr){"))
	c.P("Definition limit_period_none_unrestricted : bool := %v.", strings.Contains(srcUp, "iflimits.LimitPeriod==types.LimitPeriod_NONE{"))
	c.Info("window_restart", restart)
	c.Info("limit_check", limitOp)

	// ---- 4. bridgeTaxAmount ----
	bt := FindFunc(kf, "Keeper", "bridgeTaxAmount")
	if bt == nil {
		return fmt.Errorf("bridgeTaxAmount not found")
	}
	srcBt := c15norm(c.Src(bt.Body))
	if !strings.Contains(srcBt, "num:=math.NewIntFromBigInt(bRate.Num())") || !strings.Contains(srcBt, "denom:=math.NewIntFromBigInt(bRate.Denom())") {
		return fmt.Errorf("bridgeTaxAmount: num/denom are not bRate.Num()/bRate.Denom()")
	}
	last, ok := bt.Body.List[len(bt.Body.List)-1].(*ast.ReturnStmt)
	if !ok || len(last.Results) != 2 {
		return fmt.Errorf("bridgeTaxAmount: final return not recognised")
	}
	taxExpr := c15norm(c.Src(last.Results[0]))
	var taxCoq string
	switch taxExpr {
	case "coin.Amount.Mul(num).Quo(denom)":
		taxCoq = "Z.quot (amount * num) den"
	default:
		return fmt.Errorf("bridgeTaxAmount: tax expression %q not understood (expected coin.Amount.Mul(num).Quo(denom))", taxExpr)
	}
	c.P("(* keeper.go bridgeTaxAmount: return %s *)", taxExpr)
	c.P("Definition tax_formula (amount num den : Z) : Z := %s.", taxCoq)
	c.P("Definition tax_exemptions_honoured : bool := %v.", strings.Contains(srcBt, "for_,addr:=rangebridgeTax.ExemptAddresses{ifsender.Equals(addr){"))
	c.Info("tax_expr", taxExpr)

	// ---- 5. AddToOutgoingPool ----
	pf, err := c.Parse("x/skyway/keeper/pool.go")
	if err != nil {
		return err
	}
	ap := FindFunc(pf, "Keeper", "AddToOutgoingPool")
	if ap == nil {
		return fmt.Errorf("AddToOutgoingPool not found")
	}
	pos := func(name string) token.Pos {
		cs := Calls(ap.Body, name)
		if len(cs) != 1 {
			return token.NoPos
		}
		return cs[0].Pos()
	}
	pLimit, pTax, pLock := pos("UpdateBridgeTransferUsageWithLimit"), pos("bridgeTaxAmount"), pos("SendCoinsFromAccountToModule")
	if pLimit == token.NoPos || pTax == token.NoPos || pLock == token.NoPos {
		return fmt.Errorf("AddToOutgoingPool: limit / tax / lock calls not found exactly once")
	}
	if !(pLimit < pTax && pTax < pLock) {
		return fmt.Errorf("AddToOutgoingPool: order of limit update, tax computation and lock changed")
	}
	srcAp := c15norm(c.Src(ap.Body))
	limArg := c15norm(c.Src(Calls(ap.Body, "UpdateBridgeTransferUsageWithLimit")[0].Args[2]))
	taxArg := c15norm(c.Src(Calls(ap.Body, "bridgeTaxAmount")[0].Args[2]))
	if limArg != "amount" || taxArg != "amount" {
		return fmt.Errorf("AddToOutgoingPool: limit/tax are computed on %q/%q, expected amount", limArg, taxArg)
	}
	c.P("(* pool.go AddToOutgoingPool *)")
	c.P("Definition lock_includes_tax : bool := %v.", strings.Contains(srcAp, "Amount:amount.Amount.Add(taxedAmount)") &&
		strings.Contains(srcAp, "amountInVouchers:=sdk.Coins{totalAmount}") &&
		strings.Contains(srcAp, "SendCoinsFromAccountToModule(ctx,sender,types.ModuleName,amountInVouchers)"))
	c.P("Definition tax_recorded_on_transfer : bool := %v.", strings.Contains(srcAp, "BridgeTaxAmount:taxedAmount"))
	c.P("Definition amount_recorded_on_transfer : bool := %v.", strings.Contains(srcAp, "types.NewInternalERC20Token(amount.Amount,"))

	// ---- 6. refund ----
	rf := FindFunc(pf, "Keeper", "RemoveFromOutgoingPoolAndRefund")
	if rf == nil {
		return fmt.Errorf("RemoveFromOutgoingPoolAndRefund not found")
	}
	srcRf := c15norm(c.Src(rf.Body))
	refundFull := strings.Contains(srcRf, "totalToRefund:=sdk.NewCoin(denom,tx.Erc20Token.Amount.Add(tx.BridgeTaxAmount))") &&
		strings.Contains(srcRf, "totalToRefundCoins:=sdk.NewCoins(totalToRefund)") &&
		strings.Contains(srcRf, "SendCoinsFromModuleToAccount(ctx,types.ModuleName,sender,totalToRefundCoins)")
	refundAmountOnly := strings.Contains(srcRf, "totalToRefund:=sdk.NewCoin(denom,tx.Erc20Token.Amount)")
	if !refundFull && !refundAmountOnly {
		return fmt.Errorf("RemoveFromOutgoingPoolAndRefund: refund expression not understood")
	}
	c.P("Definition refund_includes_tax : bool := %v.", refundFull)

	// ---- 7. burn ----
	bfile, err := c.Parse("x/skyway/keeper/batch.go")
	if err != nil {
		return err
	}
	ex := FindFunc(bfile, "Keeper", "OutgoingTxBatchExecuted")
	if ex == nil {
		return fmt.Errorf("OutgoingTxBatchExecuted not found")
	}
	srcEx := c15norm(c.Src(ex.Body))
	burnFull := strings.Contains(srcEx, "totalToBurn=totalToBurn.Add(tx.Erc20Token.Amount).Add(tx.BridgeTaxAmount)")
	burnAmountOnly := strings.Contains(srcEx, "totalToBurn=totalToBurn.Add(tx.Erc20Token.Amount)}")
	if !burnFull && !burnAmountOnly {
		return fmt.Errorf("OutgoingTxBatchExecuted: burn expression not understood")
	}
	if !strings.Contains(srcEx, "BurnCoins(ctx,types.ModuleName,burnVouchers)") || !strings.Contains(srcEx, "burnVouchers:=sdk.NewCoins(sdk.NewCoin(denom,totalToBurn))") {
		return fmt.Errorf("OutgoingTxBatchExecuted: BurnCoins call not recognised")
	}
	c.P("Definition burn_includes_tax : bool := %v.", burnFull)
	return extractC15Gov(c)
}
