package main

import (
	"fmt"
	"go/ast"
	"go/token"
	"path/filepath"
	"reflect"
	"sort"
	"strings"
)

// C03, third round: the CosmWasm custom-message entry points (util/libwasm router -> the scheduler /
// skyway / tokenfactory bindings). The principal of such a message is the dispatching CONTRACT, the
// address wasmd hands to DispatchMsg. For every binding (one `case contractMsg.X != nil` of the
// messenger's DispatchMsg) the extractor
//   - enumerates the string-like leaves of the body struct (x/<mod>/bindings/types) and requires each
//     to be classified in tables/c03_fields.json (wasm_bindings): data | beneficiary | principal;
//   - follows the body and the contract address through the binding function and the functions of
//     the package they are handed to, and derives for every `principal` field what the code does with
//     it: Unused (never reaches a call), EqCreator (a rejection guard `field != contract` precedes),
//     Unguarded (a value derived from the field is an argument of a call: the contract's free text
//     becomes an identity a keeper acts on);
//   - requires that the contract address itself reaches a call (FromCreator).
// The rows use the vocabulary of the handler table (Auth/Discipline.v), so that the same Coq
// obligations and theorems apply with creator := the dispatching contract.

type c03WasmRev struct {
	Fields map[string]c03FieldRev `json:"fields"`
}

func c03JSONTag(f *ast.Field) string {
	if f.Tag == nil {
		return ""
	}
	tag := reflect.StructTag(strings.Trim(f.Tag.Value, "`")).Get("json")
	return strings.Split(tag, ",")[0]
}

// c03WasmUses: the calls (with the request paths their arguments derive from) in fd and, to depth 2,
// in the package functions that receive the body or values derived from it / from the contract.
func c03WasmUses(c *Ctx, funcs map[string][]*ast.FuncDecl, fd *ast.FuncDecl, an *c03Fn, depth int, out *[]c03Use, eqs *[]c03Eq) {
	an.collectAssigns(fd.Body)
	us := an.uses(fd.Body)
	*eqs = append(*eqs, an.guards(fd.Body, fd.Name.Name, token.NoPos)...)
	for _, u := range us {
		cal := funcs[u.Callee]
		descended := false
		if len(cal) > 0 && depth < 2 {
			// find the call expression again to bind the parameters
			ast.Inspect(fd.Body, func(n ast.Node) bool {
				ce, ok := n.(*ast.CallExpr)
				if !ok || ce.Pos() != u.Pos {
					return true
				}
				for _, g := range cal {
					var params []string
					for _, p := range g.Type.Params.List {
						for _, nm := range p.Names {
							params = append(params, nm.Name)
						}
					}
					if len(params) != len(ce.Args) || g.Body == nil {
						continue
					}
					sub := &c03Fn{c: c, req: "", auth: map[string]bool{}, assign: map[string][]ast.Expr{}, bind: map[string]map[string]bool{}}
					for i, pn := range params {
						d := an.d(ce.Args[i])
						if len(d) == 1 && d[c03Whole] {
							sub.req = pn
						} else if len(d) > 0 {
							delete(d, c03Whole)
							sub.bind[pn] = d
						}
					}
					c03WasmUses(c, funcs, g, sub, depth+1, out, eqs)
					descended = true
				}
				return false
			})
		}
		if !descended {
			*out = append(*out, u)
		}
	}
}

func extractC03Wasm(c *Ctx, tbl map[string]c03WasmRev) (specLines []string, unreviewed []string, n int, err error) {
	seen := map[string]bool{}
	for _, mod := range []string{"scheduler", "skyway", "tokenfactory"} {
		bfiles, err := c.ParseDir(filepath.Join("x", mod, "bindings"))
		if err != nil {
			return nil, nil, 0, err
		}
		tfiles, err := c.ParseDir(filepath.Join("x", mod, "bindings", "types"))
		if err != nil {
			return nil, nil, 0, err
		}
		structs, _ := c03CollectTypes(append(append([]*ast.File{}, tfiles...), bfiles...))
		funcs := map[string][]*ast.FuncDecl{}
		for _, f := range bfiles {
			for _, d := range f.Decls {
				if fd, ok := d.(*ast.FuncDecl); ok && fd.Body != nil {
					funcs[fd.Name.Name] = append(funcs[fd.Name.Name], fd)
				}
			}
		}
		// json tags of the Message struct
		tags := map[string]string{}
		bodyType := map[string]string{}
		for _, f := range tfiles {
			for _, d := range f.Decls {
				gd, ok := d.(*ast.GenDecl)
				if !ok || gd.Tok != token.TYPE {
					continue
				}
				for _, sp := range gd.Specs {
					ts := sp.(*ast.TypeSpec)
					st, ok := ts.Type.(*ast.StructType)
					if !ok || ts.Name.Name != "Message" {
						continue
					}
					for _, fl := range st.Fields.List {
						for _, nm := range fl.Names {
							tags[nm.Name] = c03JSONTag(fl)
							if se, ok := fl.Type.(*ast.StarExpr); ok {
								if id, ok := se.X.(*ast.Ident); ok {
									bodyType[nm.Name] = id.Name
								}
							}
						}
					}
				}
			}
		}
		type binding struct {
			name, typ, reqParam, contractParam string
			fd                                 *ast.FuncDecl
		}
		var bs []binding
		dm := FindFuncIn(bfiles, "customMessenger", "DispatchMsg")
		if dm == nil || dm.Body == nil || len(dm.Type.Params.List) < 4 {
			return nil, nil, 0, fmt.Errorf("x/%s/bindings: customMessenger.DispatchMsg not found", mod)
		}
		var pnames []string
		for _, p := range dm.Type.Params.List {
			for _, nm := range p.Names {
				pnames = append(pnames, nm.Name)
			}
		}
		if len(pnames) != 4 {
			return nil, nil, 0, fmt.Errorf("x/%s/bindings: DispatchMsg has unexpected parameters", mod)
		}
		contractP, msgP := pnames[1], pnames[3]
		var sw *ast.SwitchStmt
		for _, st := range dm.Body.List {
			if s, ok := st.(*ast.SwitchStmt); ok {
				sw = s
			}
		}
		if sw == nil {
			return nil, nil, 0, fmt.Errorf("x/%s/bindings: DispatchMsg has no switch over the message (shape not understood)", mod)
		}
		nCases := 0
		for _, cc := range sw.Body.List {
			cl := cc.(*ast.CaseClause)
			if len(cl.List) != 1 || len(cl.Body) != 1 {
				return nil, nil, 0, fmt.Errorf("x/%s/bindings: DispatchMsg case of unexpected shape", mod)
			}
			be, ok := cl.List[0].(*ast.BinaryExpr)
			if !ok || be.Op != token.NEQ {
				return nil, nil, 0, fmt.Errorf("x/%s/bindings: DispatchMsg case condition %s not understood", mod, c.Src(cl.List[0]))
			}
			se, ok := be.X.(*ast.SelectorExpr)
			if !ok || c.Src(se.X) != msgP {
				return nil, nil, 0, fmt.Errorf("x/%s/bindings: DispatchMsg case condition %s not understood", mod, c.Src(cl.List[0]))
			}
			X := se.Sel.Name
			rs, ok := cl.Body[0].(*ast.ReturnStmt)
			if !ok || len(rs.Results) != 1 {
				return nil, nil, 0, fmt.Errorf("x/%s/bindings: case %s does not return a single call", mod, X)
			}
			ce, ok := rs.Results[0].(*ast.CallExpr)
			if !ok {
				return nil, nil, 0, fmt.Errorf("x/%s/bindings: case %s does not return a single call", mod, X)
			}
			cands := funcs[c03CalleeName(ce)]
			if len(cands) != 1 {
				return nil, nil, 0, fmt.Errorf("x/%s/bindings: case %s: callee %s not resolved", mod, X, c03CalleeName(ce))
			}
			fd := cands[0]
			var params []string
			for _, p := range fd.Type.Params.List {
				for _, nm := range p.Names {
					params = append(params, nm.Name)
				}
			}
			if len(params) != len(ce.Args) {
				return nil, nil, 0, fmt.Errorf("x/%s/bindings: case %s: arity mismatch", mod, X)
			}
			b := binding{name: "wasm." + mod + "." + tags[X], typ: bodyType[X], fd: fd}
			for i, a := range ce.Args {
				switch c.Src(a) {
				case contractP:
					b.contractParam = params[i]
				case msgP + "." + X:
					b.reqParam = params[i]
				}
			}
			if b.reqParam == "" || b.contractParam == "" || tags[X] == "" || b.typ == "" {
				return nil, nil, 0, fmt.Errorf("x/%s/bindings: case %s: the body / the contract address is not handed to %s (shape not understood)", mod, X, fd.Name.Name)
			}
			bs = append(bs, b)
			nCases++
		}
		if nCases != len(tags) {
			return nil, nil, 0, fmt.Errorf("x/%s/bindings: Message has %d members but DispatchMsg dispatches %d", mod, len(tags), nCases)
		}
		if mod == "scheduler" {
			lg := FindFuncIn(bfiles, "customLegacyMessenger", "DispatchMsg")
			if lg == nil || lg.Body == nil {
				return nil, nil, 0, fmt.Errorf("x/scheduler/bindings: legacy messenger not found")
			}
			var lp []string
			for _, p := range lg.Type.Params.List {
				for _, nm := range p.Names {
					lp = append(lp, nm.Name)
				}
			}
			if len(lp) != 4 || len(Calls(lg.Body, "unmarshallJob")) != 1 {
				return nil, nil, 0, fmt.Errorf("x/scheduler/bindings: legacy messenger of unexpected shape")
			}
			bs = append(bs, binding{name: "wasm.scheduler.legacy_execute_job", typ: "executeJobWasmEvent", fd: lg, reqParam: "executeMsg", contractParam: lp[1]})
		}
		for _, b := range bs {
			seen[b.name] = true
			n++
			leaves, _, err := c03Leaves(c, structs, b.typ, "", 0, map[string]bool{})
			if err != nil {
				return nil, nil, 0, fmt.Errorf("%s: %v", b.name, err)
			}
			rev, ok := tbl[b.name]
			if !ok {
				unreviewed = append(unreviewed, fmt.Sprintf("%s: binding not in table wasm_bindings (fields: %s)", b.name, strings.Join(leaves, ", ")))
				continue
			}
			an := &c03Fn{c: c, req: b.reqParam, auth: map[string]bool{}, assign: map[string][]ast.Expr{},
				bind: map[string]map[string]bool{b.contractParam: {c03Creator: true}}}
			var uses []c03Use
			var eqs []c03Eq
			c03WasmUses(c, funcs, b.fd, an, 0, &uses, &eqs)
			used := map[string]bool{}
			for _, u := range uses {
				for p := range u.Paths {
					used[p] = true
				}
			}
			compared := false
			for _, e := range eqs {
				if c03Only(e.A, c03Creator) || c03Only(e.B, c03Creator) {
					compared = true // e.g. set_metadata: the denom's admin must be the contract
				}
			}
			if !used[c03Creator] && !compared {
				return nil, nil, 0, fmt.Errorf("%s: the contract address reaches no call (shape not understood)", b.name)
			}
			rows := []string{fmt.Sprintf("(%s, FromCreator)", CoqStr(c03Creator))}
			for _, lf := range leaves {
				fr, ok := rev.Fields[lf]
				if !ok {
					// prefix wildcard
					parts := strings.Split(lf, ".")
					for i := len(parts) - 1; i >= 1 && !ok; i-- {
						fr, ok = rev.Fields[strings.Join(parts[:i], ".")+".*"]
					}
				}
				if !ok {
					unreviewed = append(unreviewed, fmt.Sprintf("%s: body field %s not classified (wasm_bindings)", b.name, lf))
					continue
				}
				switch fr.Class {
				case "data", "external":
				case "beneficiary":
					rows = append(rows, fmt.Sprintf("(%s, Beneficiary)", CoqStr(lf)))
				case "principal":
					disc := "Unused"
					pinned := false
					for _, e := range eqs {
						if (c03Only(e.A, lf) && c03Only(e.B, c03Creator)) || (c03Only(e.B, lf) && c03Only(e.A, c03Creator)) {
							pinned = true
						}
					}
					hit := used[lf] || used[c03Whole]
					for p := range used {
						if strings.HasPrefix(lf, p+".") {
							hit = true
						}
					}
					switch {
					case pinned:
						disc = "EqCreator"
					case hit:
						disc = "Unguarded"
					}
					rows = append(rows, fmt.Sprintf("(%s, %s)", CoqStr(lf), disc))
				default:
					return nil, nil, 0, fmt.Errorf("%s.%s: class %q not understood", b.name, lf, fr.Class)
				}
			}
			specLines = append(specLines, fmt.Sprintf("  MkSpec %s SignMetadata true [%s]", CoqStr(b.name), strings.Join(rows, "; ")))
		}
	}
	for k := range tbl {
		if !seen[k] {
			return nil, nil, 0, fmt.Errorf("table wasm_bindings lists %s which no messenger dispatches", k)
		}
	}
	sort.Strings(unreviewed)
	return specLines, unreviewed, n, nil
}
