package main

import (
	"fmt"
	"go/ast"
	"strings"
)

// C04: the quorum inequality of consensusPower.consensus, what the evidence group key is built
// from, and the shape of Median's even-count expression.
func init() { extractors["C04"] = extractC04 }

func extractC04(c *Ctx) error {
	f, err := c.Parse("util/libcons/consensus.go")
	if err != nil {
		return err
	}
	fd := FindFunc(f, "consensusPower", "consensus")
	if fd == nil {
		return fmt.Errorf("consensusPower.consensus not found")
	}
	// expect: return c.runningSum.Mul(sdkmath.NewInt(A)).GTE(c.totalPower.Mul(sdkmath.NewInt(B)))
	var a, b string
	for _, ce := range Calls(fd.Body, "GTE") {
		lhs := ce.Fun.(*ast.SelectorExpr).X
		lm, ok1 := lhs.(*ast.CallExpr)
		rm, ok2 := ce.Args[0].(*ast.CallExpr)
		if !ok1 || !ok2 {
			continue
		}
		// exact shape: <recv>.runningSum.Mul(NewInt(a)).GTE(<recv>.totalPower.Mul(NewInt(b))), nothing added or subtracted
		if !strings.HasSuffix(c.Src(lm.Fun), ".runningSum.Mul") || !strings.HasSuffix(c.Src(rm.Fun), ".totalPower.Mul") {
			continue
		}
		if len(lm.Args) != 1 || len(rm.Args) != 1 {
			continue
		}
		ai := Calls(lm, "NewInt")
		bi := Calls(rm, "NewInt")
		if len(ai) == 1 && len(bi) == 1 {
			a, b = c.Src(ai[0].Args[0]), c.Src(bi[0].Args[0])
		}
	}
	if a == "" || b == "" {
		return fmt.Errorf("quorum inequality runningSum.Mul(NewInt(a)).GTE(totalPower.Mul(NewInt(b))) not recognised in consensusPower.consensus")
	}
	c.P("(* util/libcons/consensus.go: consensusPower.consensus: runningSum*%s >= totalPower*%s *)", a, b)
	c.P("Definition quorum_sum_factor : Z := %s.", a)
	c.P("Definition quorum_total_factor : Z := %s.", b)
	c.Info("quorum", a+"*sum >= "+b+"*total")

	// group key
	ve := FindFunc(f, "ConsensusChecker", "VerifyEvidence")
	if ve == nil {
		return fmt.Errorf("VerifyEvidence not found")
	}
	keyExpr := ""
	ast.Inspect(ve.Body, func(n ast.Node) bool {
		as, ok := n.(*ast.AssignStmt)
		if ok && len(as.Lhs) == 1 && c.Src(as.Lhs[0]) == "hash" && len(as.Rhs) == 1 {
			keyExpr = c.Src(as.Rhs[0])
		}
		return true
	})
	if keyExpr == "" {
		return fmt.Errorf("group key assignment `hash := ...` not found in VerifyEvidence")
	}
	usesType := strings.Contains(keyExpr, "TypeUrl")
	usesBytes := strings.Contains(keyExpr, "bytesToHash")
	c.P("(* VerifyEvidence group key: %s *)", keyExpr)
	c.P("Definition group_key_covers_type : bool := %v.", usesType)
	c.P("Definition group_key_covers_bytes : bool := %v.", usesBytes)
	c.Info("group_key", keyExpr)

	// median
	mf, err := c.Parse("util/palomath/median.go")
	if err != nil {
		return err
	}
	md := FindFunc(mf, "", "Median")
	if md == nil {
		return fmt.Errorf("Median not found")
	}
	even := ""
	ast.Inspect(md.Body, func(n ast.Node) bool {
		is, ok := n.(*ast.IfStmt)
		if ok && strings.Contains(c.Src(is.Cond), "%2 == 0") {
			if len(is.Body.List) == 1 {
				if rs, ok := is.Body.List[0].(*ast.ReturnStmt); ok && len(rs.Results) == 1 {
					even = c.Src(rs.Results[0])
				}
			}
		}
		return true
	})
	if even == "" {
		return fmt.Errorf("Median: even-count return expression not recognised")
	}
	c.P("Definition median_even_expr : string := %s.", CoqStr(even))
	c.Info("median_even", even)
	return nil
}
