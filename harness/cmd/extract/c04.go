package main

import (
	"fmt"
	"go/ast"
	"go/token"
	"io/fs"
	"os"
	"path/filepath"
	"sort"
	"strconv"
	"strings"
)

// C04: the quorum inequality of consensusPower.consensus, what the evidence group key is built
// from, and the shape of Median's even-count expression.
func init() { extractors["C04"] = extractC04 }

func extractC04(c *Ctx) error {
	f, err := c.Parse("util/libcons/consensus.go")
	if err != nil {
		return err
	}
	fd := FindFunc(f, "consensusPower", "consensus")
	if fd == nil {
		return fmt.Errorf("consensusPower.consensus not found")
	}
	// expect: return c.runningSum.Mul(sdkmath.NewInt(A)).GTE(c.totalPower.Mul(sdkmath.NewInt(B)))
	var a, b string
	for _, ce := range Calls(fd.Body, "GTE") {
		lhs := ce.Fun.(*ast.SelectorExpr).X
		lm, ok1 := lhs.(*ast.CallExpr)
		rm, ok2 := ce.Args[0].(*ast.CallExpr)
		if !ok1 || !ok2 {
			continue
		}
		// exact shape: <recv>.runningSum.Mul(NewInt(a)).GTE(<recv>.totalPower.Mul(NewInt(b))), nothing added or subtracted
		if !strings.HasSuffix(c.Src(lm.Fun), ".runningSum.Mul") || !strings.HasSuffix(c.Src(rm.Fun), ".totalPower.Mul") {
			continue
		}
		if len(lm.Args) != 1 || len(rm.Args) != 1 {
			continue
		}
		ai := Calls(lm, "NewInt")
		bi := Calls(rm, "NewInt")
		if len(ai) == 1 && len(bi) == 1 {
			a, b = c.Src(ai[0].Args[0]), c.Src(bi[0].Args[0])
		}
	}
	if a == "" || b == "" {
		return fmt.Errorf("quorum inequality runningSum.Mul(NewInt(a)).GTE(totalPower.Mul(NewInt(b))) not recognised in consensusPower.consensus")
	}
	c.P("(* util/libcons/consensus.go: consensusPower.consensus: runningSum*%s >= totalPower*%s *)", a, b)
	c.P("Definition quorum_sum_factor : Z := %s.", a)
	c.P("Definition quorum_total_factor : Z := %s.", b)
	c.Info("quorum", a+"*sum >= "+b+"*total")

	// group key
	ve := FindFunc(f, "ConsensusChecker", "VerifyEvidence")
	if ve == nil {
		return fmt.Errorf("VerifyEvidence not found")
	}
	keyExpr := ""
	ast.Inspect(ve.Body, func(n ast.Node) bool {
		as, ok := n.(*ast.AssignStmt)
		if ok && len(as.Lhs) == 1 && c.Src(as.Lhs[0]) == "hash" && len(as.Rhs) == 1 {
			keyExpr = c.Src(as.Rhs[0])
		}
		return true
	})
	if keyExpr == "" {
		return fmt.Errorf("group key assignment `hash := ...` not found in VerifyEvidence")
	}
	usesType := strings.Contains(keyExpr, "TypeUrl")
	usesBytes := strings.Contains(keyExpr, "bytesToHash")
	c.P("(* VerifyEvidence group key: %s *)", keyExpr)
	c.P("Definition group_key_covers_type : bool := %v.", usesType)
	c.P("Definition group_key_covers_bytes : bool := %v.", usesBytes)
	c.Info("group_key", keyExpr)

	// median
	mf, err := c.Parse("util/palomath/median.go")
	if err != nil {
		return err
	}
	md := FindFunc(mf, "", "Median")
	if md == nil {
		return fmt.Errorf("Median not found")
	}
	even := ""
	ast.Inspect(md.Body, func(n ast.Node) bool {
		is, ok := n.(*ast.IfStmt)
		if ok && strings.Contains(c.Src(is.Cond), "%2 == 0") {
			if len(is.Body.List) == 1 {
				if rs, ok := is.Body.List[0].(*ast.ReturnStmt); ok && len(rs.Results) == 1 {
					even = c.Src(rs.Results[0])
				}
			}
		}
		return true
	})
	if even == "" {
		return fmt.Errorf("Median: even-count return expression not recognised")
	}
	c.P("Definition median_even_expr : string := %s.", CoqStr(even))
	c.Info("median_even", even)
	return extractC04Bytes(c)
}

// ---- evidence bytes: which proof types are evidence, and what each BytesToHash writes ----
//
// Gen/C04.v gets
//   hashable_registered : the types registered as implementations of evm/types.Hashable (anywhere under x/, util/, app/)
//   hashable_methods    : the types that have a BytesToHash method
//   <t>_layout, <t>_each: for the three "rendering" proof types the sequence of pieces BytesToHash writes
//                         (kind, field, literal bytes); kinds: dec (decimal of a uint64 field), str (a string field),
//                         lit (literal bytes), each (loop over a repeated string field; its body is <t>_each with kinds
//                         lit, elem, lendec = decimal of len(element))
//   tx_proof_shape      : the statements of TxExecutedProof.BytesToHash / GetTX / GetReceipt that decide its bytes
// A statement or expression outside this small language is an error (the translator no longer understands the code).

type c04Piece struct {
	kind, field string
	lit         []byte
}

func (p c04Piece) coq() string {
	nums := make([]string, len(p.lit))
	for i, b := range p.lit {
		nums[i] = strconv.Itoa(int(b))
	}
	return fmt.Sprintf("(%s, %s, [%s])", CoqStr(p.kind), CoqStr(p.field), strings.Join(nums, "; "))
}

type c04Env struct {
	c    *Ctx
	recv string // receiver name
	elem string // range variable inside a loop ("" outside)
	acc  string // name of the accumulator ([]byte variable or bytes.Buffer)
}

func c04Lit(e ast.Expr) ([]byte, bool) {
	bl, ok := e.(*ast.BasicLit)
	if !ok {
		return nil, false
	}
	switch bl.Kind {
	case token.STRING:
		s, err := strconv.Unquote(bl.Value)
		if err != nil {
			return nil, false
		}
		return []byte(s), true
	case token.CHAR:
		s, err := strconv.Unquote(bl.Value)
		if err != nil || len(s) != 1 {
			return nil, false
		}
		return []byte(s), true
	}
	return nil, false
}

func (e *c04Env) field(x ast.Expr) (string, bool) {
	se, ok := x.(*ast.SelectorExpr)
	if !ok {
		return "", false
	}
	id, ok := se.X.(*ast.Ident)
	if !ok || id.Name != e.recv {
		return "", false
	}
	return se.Sel.Name, true
}

func (e *c04Env) isElem(x ast.Expr) bool {
	id, ok := x.(*ast.Ident)
	return ok && e.elem != "" && id.Name == e.elem
}

func (e *c04Env) isLenElem(x ast.Expr) bool {
	ce, ok := x.(*ast.CallExpr)
	if !ok || len(ce.Args) != 1 {
		return false
	}
	id, ok := ce.Fun.(*ast.Ident)
	return ok && id.Name == "len" && e.isElem(ce.Args[0])
}

// pieces of an expression of type string or []byte
func (e *c04Env) pieces(x ast.Expr) ([]c04Piece, error) {
	switch v := x.(type) {
	case *ast.ParenExpr:
		return e.pieces(v.X)
	case *ast.BasicLit:
		if b, ok := c04Lit(v); ok {
			return []c04Piece{{kind: "lit", lit: b}}, nil
		}
	case *ast.BinaryExpr:
		if v.Op == token.ADD {
			a, err := e.pieces(v.X)
			if err != nil {
				return nil, err
			}
			b, err := e.pieces(v.Y)
			if err != nil {
				return nil, err
			}
			return append(a, b...), nil
		}
	case *ast.Ident:
		if e.isElem(v) {
			return []c04Piece{{kind: "elem"}}, nil
		}
	case *ast.SelectorExpr:
		if f, ok := e.field(v); ok {
			return []c04Piece{{kind: "str", field: f}}, nil
		}
	case *ast.CallExpr:
		fun := e.c.Src(v.Fun)
		switch {
		case (fun == "[]byte" || fun == "string") && len(v.Args) == 1:
			return e.pieces(v.Args[0])
		case fun == "strconv.FormatUint" && len(v.Args) == 2 && e.c.Src(v.Args[1]) == "10":
			if f, ok := e.field(v.Args[0]); ok {
				return []c04Piece{{kind: "dec", field: f}}, nil
			}
		case fun == "strconv.Itoa" && len(v.Args) == 1 && e.isLenElem(v.Args[0]):
			return []c04Piece{{kind: "lendec"}}, nil
		case fun == "fmt.Sprintf" || fun == "fmt.Sprint":
			if fun == "fmt.Sprint" || len(v.Args) == 0 {
				break
			}
			fb, ok := c04Lit(v.Args[0])
			if !ok {
				break
			}
			return e.sprintf(string(fb), v.Args[1:])
		}
	}
	return nil, fmt.Errorf("BytesToHash: expression %q is outside the translated language", e.c.Src(x))
}

func (e *c04Env) sprintf(format string, args []ast.Expr) ([]c04Piece, error) {
	var out []c04Piece
	var lit []byte
	flush := func() {
		if len(lit) > 0 {
			out = append(out, c04Piece{kind: "lit", lit: lit})
			lit = nil
		}
	}
	ai := 0
	for i := 0; i < len(format); i++ {
		ch := format[i]
		if ch != '%' {
			lit = append(lit, ch)
			continue
		}
		i++
		if i >= len(format) {
			return nil, fmt.Errorf("BytesToHash: dangling %% in format %q", format)
		}
		verb := format[i]
		if verb == '%' {
			lit = append(lit, '%')
			continue
		}
		if ai >= len(args) {
			return nil, fmt.Errorf("BytesToHash: format %q has more verbs than arguments", format)
		}
		a := args[ai]
		ai++
		flush()
		switch verb {
		case 'd':
			if f, ok := e.field(a); ok {
				out = append(out, c04Piece{kind: "dec", field: f})
			} else if e.isLenElem(a) {
				out = append(out, c04Piece{kind: "lendec"})
			} else {
				return nil, fmt.Errorf("BytesToHash: %%d of %q not understood", e.c.Src(a))
			}
		case 's':
			if f, ok := e.field(a); ok {
				out = append(out, c04Piece{kind: "str", field: f})
			} else if e.isElem(a) {
				out = append(out, c04Piece{kind: "elem"})
			} else {
				return nil, fmt.Errorf("BytesToHash: %%s of %q not understood", e.c.Src(a))
			}
		default:
			return nil, fmt.Errorf("BytesToHash: verb %%%c in %q not understood", verb, format)
		}
	}
	flush()
	if ai != len(args) {
		return nil, fmt.Errorf("BytesToHash: format %q has fewer verbs than arguments", format)
	}
	return out, nil
}

// stmt translates one statement that writes to the accumulator; returns pieces (or a loop).
func (e *c04Env) stmts(list []ast.Stmt, top bool) (pieces []c04Piece, body []c04Piece, err error) {
	for _, st := range list {
		switch s := st.(type) {
		case *ast.DeclStmt: // var res []byte / var buf bytes.Buffer
			gd, ok := s.Decl.(*ast.GenDecl)
			if !ok || gd.Tok != token.VAR || len(gd.Specs) != 1 || !top {
				return nil, nil, fmt.Errorf("BytesToHash: declaration %q not understood", e.c.Src(s))
			}
			vs := gd.Specs[0].(*ast.ValueSpec)
			ty := ""
			if vs.Type != nil {
				ty = e.c.Src(vs.Type)
			}
			if len(vs.Names) != 1 || len(vs.Values) != 0 || (ty != "[]byte" && ty != "bytes.Buffer") || e.acc != "" {
				return nil, nil, fmt.Errorf("BytesToHash: declaration %q not understood", e.c.Src(s))
			}
			e.acc = vs.Names[0].Name
		case *ast.AssignStmt: // res = append(res, X...)
			if len(s.Lhs) != 1 || len(s.Rhs) != 1 || s.Tok != token.ASSIGN || e.c.Src(s.Lhs[0]) != e.acc {
				return nil, nil, fmt.Errorf("BytesToHash: assignment %q not understood", e.c.Src(s))
			}
			ce, ok := s.Rhs[0].(*ast.CallExpr)
			if !ok || e.c.Src(ce.Fun) != "append" || len(ce.Args) != 2 || e.c.Src(ce.Args[0]) != e.acc || ce.Ellipsis == token.NoPos {
				return nil, nil, fmt.Errorf("BytesToHash: assignment %q not understood", e.c.Src(s))
			}
			ps, err := e.pieces(ce.Args[1])
			if err != nil {
				return nil, nil, err
			}
			pieces = append(pieces, ps...)
		case *ast.ExprStmt: // buf.WriteString(X) / buf.WriteByte('c') / buf.Write([]byte(X))
			ce, ok := s.X.(*ast.CallExpr)
			if !ok || len(ce.Args) != 1 {
				return nil, nil, fmt.Errorf("BytesToHash: statement %q not understood", e.c.Src(s))
			}
			fun := e.c.Src(ce.Fun)
			if fun != e.acc+".WriteString" && fun != e.acc+".WriteByte" && fun != e.acc+".Write" {
				return nil, nil, fmt.Errorf("BytesToHash: statement %q not understood", e.c.Src(s))
			}
			ps, err := e.pieces(ce.Args[0])
			if err != nil {
				return nil, nil, err
			}
			pieces = append(pieces, ps...)
		case *ast.RangeStmt:
			f, ok := e.field(s.X)
			if !ok || !top || body != nil || s.Tok != token.DEFINE || s.Value == nil || (s.Key != nil && e.c.Src(s.Key) != "_") {
				return nil, nil, fmt.Errorf("BytesToHash: loop %q not understood", e.c.Src(s.X))
			}
			inner := &c04Env{c: e.c, recv: e.recv, elem: e.c.Src(s.Value), acc: e.acc}
			b, _, err := inner.stmts(s.Body.List, false)
			if err != nil {
				return nil, nil, err
			}
			if len(b) == 0 {
				return nil, nil, fmt.Errorf("BytesToHash: empty loop body over %s", f)
			}
			body = b
			pieces = append(pieces, c04Piece{kind: "each", field: f})
		case *ast.ReturnStmt:
			if !top || len(s.Results) != 2 || e.c.Src(s.Results[1]) != "nil" {
				return nil, nil, fmt.Errorf("BytesToHash: return %q not understood", e.c.Src(s))
			}
			r := e.c.Src(s.Results[0])
			if e.acc != "" && (r == e.acc || r == e.acc+".Bytes()") {
				continue
			}
			if e.acc == "" && len(pieces) == 0 { // return []byte(h.X), nil
				ps, err := e.pieces(s.Results[0])
				if err != nil {
					return nil, nil, err
				}
				pieces = append(pieces, ps...)
				continue
			}
			return nil, nil, fmt.Errorf("BytesToHash: return %q not understood", e.c.Src(s))
		default:
			return nil, nil, fmt.Errorf("BytesToHash: statement %q not understood", e.c.Src(st))
		}
	}
	return pieces, body, nil
}

func c04MergeLits(ps []c04Piece) []c04Piece {
	var out []c04Piece
	for _, p := range ps {
		if p.kind == "lit" && len(out) > 0 && out[len(out)-1].kind == "lit" {
			out[len(out)-1].lit = append(append([]byte{}, out[len(out)-1].lit...), p.lit...)
			continue
		}
		out = append(out, p)
	}
	return out
}

func c04RecvType(fd *ast.FuncDecl) (typ, name string) {
	if fd.Recv == nil || len(fd.Recv.List) != 1 {
		return "", ""
	}
	t := fd.Recv.List[0].Type
	if s, ok := t.(*ast.StarExpr); ok {
		t = s.X
	}
	if id, ok := t.(*ast.Ident); ok {
		typ = id.Name
	}
	if len(fd.Recv.List[0].Names) == 1 {
		name = fd.Recv.List[0].Names[0].Name
	}
	return
}

func extractC04Bytes(c *Ctx) error {
	// 1. every registration of implementations of Hashable, anywhere in the production tree
	registered := map[string]bool{}
	for _, root := range []string{"x", "util", "app", "internal"} {
		err := filepath.WalkDir(filepath.Join(c.Repo, root), func(p string, d fs.DirEntry, err error) error {
			if err != nil {
				if os.IsNotExist(err) {
					return nil
				}
				return err
			}
			if d.IsDir() || !strings.HasSuffix(p, ".go") || strings.HasSuffix(p, "_test.go") {
				return nil
			}
			src, err := os.ReadFile(p)
			if err != nil {
				return err
			}
			if !strings.Contains(string(src), "Hashable") {
				return nil
			}
			rel, _ := filepath.Rel(c.Repo, p)
			f, err := c.Parse(rel)
			if err != nil {
				return err
			}
			for _, ce := range Calls(f, "RegisterImplementations") {
				if len(ce.Args) < 1 || !strings.Contains(c.Src(ce.Args[0]), "Hashable") {
					continue
				}
				for _, a := range ce.Args[1:] {
					s := c.Src(a)
					if !strings.HasPrefix(s, "&") || !strings.HasSuffix(s, "{}") {
						return fmt.Errorf("%s: Hashable implementation %q not understood", rel, s)
					}
					s = strings.TrimSuffix(strings.TrimPrefix(s, "&"), "{}")
					if i := strings.LastIndex(s, "."); i >= 0 {
						s = s[i+1:]
					}
					registered[s] = true
				}
			}
			return nil
		})
		if err != nil {
			return err
		}
	}
	if len(registered) == 0 {
		return fmt.Errorf("no registration of Hashable implementations found")
	}
	// 2. every BytesToHash method of x/evm/types
	files, err := c.ParseDir("x/evm/types")
	if err != nil {
		return err
	}
	methods := map[string]*ast.FuncDecl{}
	for _, f := range files {
		for _, d := range f.Decls {
			fd, ok := d.(*ast.FuncDecl)
			if !ok || fd.Name.Name != "BytesToHash" || fd.Recv == nil {
				continue
			}
			t, _ := c04RecvType(fd)
			if t == "" {
				return fmt.Errorf("BytesToHash with a receiver that is not understood")
			}
			methods[t] = fd
		}
	}
	reg := SortedSet(registered)
	var meth []string
	for k := range methods {
		meth = append(meth, k)
	}
	sort.Strings(meth)
	c.P("(* evidence proof types: registered as Hashable / having a BytesToHash method *)")
	c.P("Definition hashable_registered : list string := %s.", CoqStrList(reg))
	c.P("Definition hashable_methods : list string := %s.", CoqStrList(meth))
	c.Info("hashable_registered", reg)
	known := map[string]string{
		"SmartContractExecutionErrorProof": "err", "ValidatorBalancesAttestationRes": "bal",
		"ReferenceBlockAttestationRes": "ref", "TxExecutedProof": "tx",
	}
	for _, t := range reg {
		if _, ok := known[t]; !ok {
			return fmt.Errorf("new evidence proof type %s is registered as Hashable: it has no model of its BytesToHash (Cons/EvidenceBytes.v)", t)
		}
		if methods[t] == nil {
			return fmt.Errorf("registered proof type %s has no BytesToHash method in x/evm/types", t)
		}
	}
	for _, t := range meth {
		if _, ok := known[t]; !ok {
			return fmt.Errorf("type %s has a BytesToHash method but no model (Cons/EvidenceBytes.v)", t)
		}
	}
	// 3. layouts of the rendering types
	for _, t := range []string{"SmartContractExecutionErrorProof", "ValidatorBalancesAttestationRes", "ReferenceBlockAttestationRes"} {
		fd := methods[t]
		if fd == nil {
			return fmt.Errorf("%s.BytesToHash not found", t)
		}
		_, rn := c04RecvType(fd)
		env := &c04Env{c: c, recv: rn}
		ps, body, err := env.stmts(fd.Body.List, true)
		if err != nil {
			return fmt.Errorf("%s: %v", t, err)
		}
		ps, body = c04MergeLits(ps), c04MergeLits(body)
		pc := make([]string, len(ps))
		for i, p := range ps {
			pc[i] = p.coq()
		}
		bc := make([]string, len(body))
		for i, p := range body {
			bc[i] = p.coq()
		}
		c.P("(* %s.BytesToHash *)", t)
		c.P("Definition %s_layout : list (string * string * list Z) := [%s].", known[t], strings.Join(pc, "; "))
		c.P("Definition %s_each : list (string * string * list Z) := [%s].", known[t], strings.Join(bc, "; "))
		c.Info(known[t]+"_layout", strings.Join(pc, " ")+" | each: "+strings.Join(bc, " "))
	}
	// 4. TxExecutedProof: the statements that decide its bytes, as source text
	tx := methods["TxExecutedProof"]
	if tx == nil {
		return fmt.Errorf("TxExecutedProof.BytesToHash not found")
	}
	var shape []string
	for _, st := range tx.Body.List {
		switch s := st.(type) {
		case *ast.AssignStmt:
			shape = append(shape, c.Src(s))
		case *ast.IfStmt:
			cond := c.Src(s.Cond)
			if cond == "err != nil" {
				continue // error propagation
			}
			var inner []string
			for _, b := range s.Body.List {
				inner = append(inner, c.Src(b))
			}
			if s.Else != nil {
				return fmt.Errorf("TxExecutedProof.BytesToHash: else branch not understood")
			}
			shape = append(shape, "if "+cond+" { "+strings.Join(inner, "; ")+" }")
		case *ast.ReturnStmt:
			shape = append(shape, c.Src(s))
		default:
			return fmt.Errorf("TxExecutedProof.BytesToHash: statement %q not understood", c.Src(st))
		}
	}
	for _, g := range []struct{ name, want string }{{"GetTX", "UnmarshalBinary"}, {"GetReceipt", "UnmarshalBinary"}} {
		fd := FindFuncIn(files, "TxExecutedProof", g.name)
		if fd == nil {
			return fmt.Errorf("TxExecutedProof.%s not found", g.name)
		}
		cs := Calls(fd.Body, g.want)
		if len(cs) != 1 {
			return fmt.Errorf("TxExecutedProof.%s: expected exactly one %s call", g.name, g.want)
		}
		shape = append(shape, g.name+": "+c.Src(cs[0]))
	}
	c.P("(* TxExecutedProof.BytesToHash / GetTX / GetReceipt *)")
	c.P("Definition tx_proof_shape : list string := %s.", CoqStrList(shape))
	c.Info("tx_proof_shape", shape)
	return extractC04Guards(c)
}

// ---- guards in front of the quorum decision ----
// For each wrapper that leads to VerifyEvidence / VerifyGasEstimates: the conditions of every early exit
// (return / continue / break) that lies before the call.  Gen/C04.v pins them; an exit that is not the body
// of a plain `if` (a switch, a bare return, a goto ...) is a shape the translator does not understand.

func c04HasExit(n ast.Node) bool {
	found := false
	ast.Inspect(n, func(x ast.Node) bool {
		switch x.(type) {
		case *ast.FuncLit:
			return false
		case *ast.ReturnStmt, *ast.BranchStmt:
			found = true
		}
		return !found
	})
	return found
}

func c04Guards(c *Ctx, fd *ast.FuncDecl, callee string) ([]string, error) {
	calls := Calls(fd.Body, callee)
	if len(calls) != 1 {
		return nil, fmt.Errorf("%s: expected exactly one call of %s, found %d", fd.Name.Name, callee, len(calls))
	}
	callPos := calls[0].Pos()
	var guards []string
	var walk func(list []ast.Stmt) error
	walk = func(list []ast.Stmt) error {
		for _, st := range list {
			if st.Pos() > callPos {
				return nil
			}
			contains := st.Pos() <= callPos && callPos < st.End()
			switch s := st.(type) {
			case *ast.IfStmt:
				if contains && s.Init != nil && s.Init.Pos() <= callPos && callPos < s.Init.End() {
					return nil // `if err := call(...); err != nil`: the call itself, unguarded
				}
				if contains { // the call sits inside this if: its condition guards the call itself
					return fmt.Errorf("%s: the call of %s is inside `if %s`", fd.Name.Name, callee, c.Src(s.Cond))
				}
				if c04HasExit(s) {
					if s.Else != nil {
						return fmt.Errorf("%s: early exit in an if/else before %s not understood", fd.Name.Name, callee)
					}
					g := c.Src(s.Cond)
					if s.Init != nil {
						g = c.Src(s.Init) + "; " + g
					}
					guards = append(guards, g)
				}
			case *ast.ForStmt:
				if err := walk(s.Body.List); err != nil {
					return err
				}
			case *ast.RangeStmt:
				if err := walk(s.Body.List); err != nil {
					return err
				}
			case *ast.BlockStmt:
				if err := walk(s.List); err != nil {
					return err
				}
			default:
				if !contains && c04HasExit(st) {
					return fmt.Errorf("%s: early exit before %s in a statement that is not a plain if: %q", fd.Name.Name, callee, c.Src(st))
				}
			}
		}
		return nil
	}
	if err := walk(fd.Body.List); err != nil {
		return nil, err
	}
	return guards, nil
}

func extractC04Guards(c *Ctx) error {
	for _, g := range []struct{ dir, recv, fn, callee, name string }{
		{"x/evm/keeper", "Keeper", "attestMessageWrapper", "VerifyEvidence", "attest_guards"},
		{"x/consensus/keeper", "Keeper", "CheckAndProcessAttestedMessages", "ProcessMessageForAttestation", "attest_loop_guards"},
		{"x/consensus/keeper", "Keeper", "checkAndProcessEstimatedMessage", "VerifyGasEstimates", "estimate_guards"},
		{"x/consensus/keeper", "Keeper", "CheckAndProcessEstimatedMessages", "checkAndProcessEstimatedMessage", "estimate_loop_guards"},
	} {
		files, err := c.ParseDir(g.dir)
		if err != nil {
			return err
		}
		fd := FindFuncIn(files, g.recv, g.fn)
		if fd == nil {
			return fmt.Errorf("%s.%s not found in %s", g.recv, g.fn, g.dir)
		}
		gs, err := c04Guards(c, fd, g.callee)
		if err != nil {
			return err
		}
		c.P("(* %s/%s: conditions of the early exits before %s *)", g.dir, g.fn, g.callee)
		c.P("Definition %s : list string := %s.", g.name, CoqStrList(gs))
		c.Info(g.name, gs)
	}
	// who calls the two quorum functions in production code
	var callers []string
	for _, root := range []string{"x", "util", "app"} {
		err := filepath.WalkDir(filepath.Join(c.Repo, root), func(p string, d fs.DirEntry, err error) error {
			if err != nil {
				if os.IsNotExist(err) {
					return nil
				}
				return err
			}
			if d.IsDir() || !strings.HasSuffix(p, ".go") || strings.HasSuffix(p, "_test.go") {
				return nil
			}
			src, err := os.ReadFile(p)
			if err != nil {
				return err
			}
			if !strings.Contains(string(src), "VerifyEvidence") && !strings.Contains(string(src), "VerifyGasEstimates") {
				return nil
			}
			rel, _ := filepath.Rel(c.Repo, p)
			f, err := c.Parse(rel)
			if err != nil {
				return err
			}
			for _, d := range f.Decls {
				fd, ok := d.(*ast.FuncDecl)
				if !ok || fd.Body == nil {
					continue
				}
				for _, callee := range []string{"VerifyEvidence", "VerifyGasEstimates"} {
					if fd.Name.Name != callee && len(Calls(fd.Body, callee)) > 0 {
						callers = append(callers, rel+":"+fd.Name.Name+"->"+callee)
					}
				}
			}
			return nil
		})
		if err != nil {
			return err
		}
	}
	sort.Strings(callers)
	c.P("Definition quorum_callers : list string := %s.", CoqStrList(callers))
	c.Info("quorum_callers", callers)
	return extractC04Submission(c)
}

// ---- the submission-time check and the order of the consensus end-blocker ----

func extractC04Submission(c *Ctx) error {
	files, err := c.ParseDir("x/consensus/keeper")
	if err != nil {
		return err
	}
	// validateEvidenceProof: a sequence of `if <cond> { return <error> }`, one `var x Hashable`, a final `return nil`;
	// one of the conditions must be `_, err := x.BytesToHash(); err != nil` on the variable UnpackAny filled.
	vd := FindFuncIn(files, "Keeper", "validateEvidenceProof")
	if vd == nil {
		return fmt.Errorf("Keeper.validateEvidenceProof not found")
	}
	var shape []string
	unpacked, hashed := "", false
	for i, st := range vd.Body.List {
		switch s := st.(type) {
		case *ast.DeclStmt:
			shape = append(shape, c.Src(s))
		case *ast.IfStmt:
			if s.Else != nil || len(s.Body.List) != 1 {
				return fmt.Errorf("validateEvidenceProof: `if %s` is not a plain refusal (unknown shape)", c.Src(s.Cond))
			}
			rs, ok := s.Body.List[0].(*ast.ReturnStmt)
			if !ok || len(rs.Results) != 1 || c.Src(rs.Results[0]) == "nil" {
				return fmt.Errorf("validateEvidenceProof: `if %s` does not return an error (unknown shape)", c.Src(s.Cond))
			}
			g := c.Src(s.Cond)
			if s.Init != nil {
				g = c.Src(s.Init) + "; " + g
				for _, ce := range Calls(s.Init, "UnpackAny") {
					if len(ce.Args) == 2 {
						unpacked = strings.TrimPrefix(c.Src(ce.Args[1]), "&")
					}
				}
				if unpacked != "" && g == "_, err := "+unpacked+".BytesToHash(); err != nil" {
					hashed = true
				}
			}
			shape = append(shape, "if "+g+" { return error }")
		case *ast.ReturnStmt:
			if i != len(vd.Body.List)-1 || len(s.Results) != 1 || c.Src(s.Results[0]) != "nil" {
				return fmt.Errorf("validateEvidenceProof: return %q not understood", c.Src(s))
			}
			shape = append(shape, "return nil")
		default:
			return fmt.Errorf("validateEvidenceProof: statement %q not understood (unknown shape)", c.Src(st))
		}
	}
	if !hashed {
		return fmt.Errorf("validateEvidenceProof does not refuse a proof whose BytesToHash fails (`if _, err := <unpacked>.BytesToHash(); err != nil { return … }` not found): stored evidence is no longer known to be hashable")
	}
	ad := FindFuncIn(files, "Keeper", "AddMessageEvidence")
	if ad == nil {
		return fmt.Errorf("Keeper.AddMessageEvidence not found")
	}
	vc, ac := Calls(ad.Body, "validateEvidenceProof"), Calls(ad.Body, "AddEvidence")
	if len(vc) != 1 || len(ac) != 1 || vc[0].Pos() > ac[0].Pos() {
		return fmt.Errorf("AddMessageEvidence: validateEvidenceProof must be called once, before the one AddEvidence")
	}
	if p := c.Src(vc[0]); !strings.Contains(p, "msg.GetProof()") {
		return fmt.Errorf("AddMessageEvidence: validateEvidenceProof is not applied to msg.GetProof(): %s", p)
	}
	c.P("(* x/consensus/keeper: validateEvidenceProof, called by AddMessageEvidence before AddEvidence *)")
	c.P("Definition evidence_validation : list string := %s.", CoqStrList(shape))
	c.Info("evidence_validation", shape)

	// consensus AppModule.EndBlock: keeper calls in order; the pruning condition
	mf, err := c.Parse("x/consensus/module.go")
	if err != nil {
		return err
	}
	eb := FindFunc(mf, "AppModule", "EndBlock")
	if eb == nil {
		return fmt.Errorf("consensus AppModule.EndBlock not found")
	}
	var calls []string
	pruneCond, pruneAge := "", ""
	ast.Inspect(eb.Body, func(n ast.Node) bool {
		switch x := n.(type) {
		case *ast.IfStmt:
			if len(Calls(x.Body, "PruneOldMessages")) == 1 && x.Init == nil {
				pruneCond = c.Src(x.Cond)
			}
		case *ast.CallExpr:
			if se, ok := x.Fun.(*ast.SelectorExpr); ok && strings.HasSuffix(c.Src(se.X), ".keeper") && se.Sel.Name != "Logger" {
				calls = append(calls, se.Sel.Name)
				if se.Sel.Name == "PruneOldMessages" && len(x.Args) == 2 {
					pruneAge = c.Src(x.Args[1])
				}
			}
		}
		return true
	})
	want := []string{"CheckAndProcessEstimatedMessages", "CheckAndProcessAttestedMessages", "PruneOldMessages"}
	if strings.Join(calls, ",") != strings.Join(want, ",") {
		return fmt.Errorf("consensus EndBlock: keeper calls are %v, expected %v (estimate and attest before prune): unknown shape", calls, want)
	}
	var every int
	if _, err := fmt.Sscanf(pruneCond, "ctx.BlockHeight()%%%d == 0", &every); err != nil || every <= 0 {
		return fmt.Errorf("consensus EndBlock: pruning condition %q not understood", pruneCond)
	}
	if _, err := strconv.Atoi(pruneAge); err != nil {
		return fmt.Errorf("consensus EndBlock: pruning age %q not understood", pruneAge)
	}
	of, err := c.Parse("x/consensus/keeper/cleanup.go")
	if err != nil {
		return err
	}
	od := FindFunc(of, "Keeper", "getMessagesOlderThan")
	older := ""
	if od != nil {
		ast.Inspect(od.Body, func(n ast.Node) bool {
			if fl, ok := n.(*ast.FuncLit); ok && len(fl.Body.List) == 1 {
				if rs, ok := fl.Body.List[0].(*ast.ReturnStmt); ok && len(rs.Results) == 1 {
					older = c.Src(rs.Results[0])
				}
			}
			return true
		})
	}
	if older != "bh-val.GetAddedAtBlockHeight() > blockAge" {
		return fmt.Errorf("getMessagesOlderThan: age test %q not understood", older)
	}
	if err := extractC04Flush(c); err != nil {
		return err
	}
	if err := extractC04Getters(c, files); err != nil {
		return err
	}
	if err := extractC04Reassign(c); err != nil {
		return err
	}
	c.P("(* x/consensus/module.go EndBlock *)")
	c.P("Definition endblock_calls : list string := %s.", CoqStrList(calls))
	c.P("Definition prune_every : Z := %d.", every)
	c.P("Definition prune_age : Z := %s.", pruneAge)
	c.Info("endblock_calls", calls)
	return nil
}

// ---- when does an attested message leave the queue: the flush condition of attestMessageWrapper, and that the
// sentinels it tests survive every error constructed on the attest paths of x/evm/keeper ----
func extractC04Flush(c *Ctx) error {
	files, err := c.ParseDir("x/evm/keeper")
	if err != nil {
		return err
	}
	wd := FindFuncIn(files, "Keeper", "attestMessageWrapper")
	if wd == nil {
		return fmt.Errorf("attestMessageWrapper not found")
	}
	flush := ""
	ast.Inspect(wd.Body, func(n ast.Node) bool {
		is, ok := n.(*ast.IfStmt)
		if ok && len(is.Body.List) == 1 && c.Src(is.Body.List[0]) == "writeCache()" && is.Else == nil {
			if flush != "" {
				flush = "?"
			} else {
				flush = c.Src(is.Cond)
			}
		}
		return true
	})
	flush = strings.Join(strings.Fields(flush), " ")
	if flush == "" || flush == "?" || len(Calls(wd.Body, "writeCache")) != 1 {
		return fmt.Errorf("attestMessageWrapper: exactly one `if <cond> { writeCache() }` expected (unknown shape)")
	}
	// the evidence handed to VerifyEvidence: msg.GetEvidence(), unfiltered
	ve := Calls(wd.Body, "VerifyEvidence")
	if len(ve) != 1 || len(ve[0].Args) != 2 {
		return fmt.Errorf("attestMessageWrapper: exactly one VerifyEvidence(ctx, evidence) expected")
	}
	src := ""
	if mc, ok := ve[0].Args[1].(*ast.CallExpr); ok && c.Src(mc.Fun) == "slice.Map" && len(mc.Args) == 2 {
		if fl, ok := mc.Args[1].(*ast.FuncLit); ok && len(fl.Body.List) == 1 && len(fl.Type.Params.List) == 1 && len(fl.Type.Params.List[0].Names) == 1 {
			if c.Src(fl.Body.List[0]) == "return "+fl.Type.Params.List[0].Names[0].Name {
				src = c.Src(mc.Args[0])
			}
		}
	}
	if src != "msg.GetEvidence()" {
		return fmt.Errorf("attestMessageWrapper: the evidence handed to VerifyEvidence is not msg.GetEvidence() as it is (%q): evidence filtered or re-sliced before the quorum decision is an unknown shape", c.Src(ve[0].Args[1]))
	}
	c.P("Definition attest_wrapper_evidence_source : string := %s.", CoqStr(src))
	c.Info("attest_wrapper_evidence_source", src)
	c.P("(* x/evm/keeper/attest.go attestMessageWrapper: the cache (removal of the message, effects) is written iff *)")
	c.P("Definition attest_flush_condition : string := %s.", CoqStr(flush))
	c.Info("attest_flush_condition", flush)
	// errors built on the attest paths: a wrapped error must stay reachable for errors.Is
	ents, err := os.ReadDir(filepath.Join(c.Repo, "x/evm/keeper"))
	if err != nil {
		return err
	}
	var wraps []string
	for _, e := range ents {
		n := e.Name()
		if !strings.HasPrefix(n, "attest") || !strings.HasSuffix(n, ".go") || strings.HasSuffix(n, "_test.go") {
			continue
		}
		f, err := c.Parse(filepath.Join("x/evm/keeper", n))
		if err != nil {
			return err
		}
		var bad error
		ast.Inspect(f, func(x ast.Node) bool {
			ce, ok := x.(*ast.CallExpr)
			if !ok || bad != nil {
				return bad == nil
			}
			se, ok := ce.Fun.(*ast.SelectorExpr)
			if !ok {
				return true
			}
			carriesErr := false
			for _, a := range ce.Args {
				if id, ok := a.(*ast.Ident); ok && (id.Name == "err" || id.Name == "retErr") {
					carriesErr = true
				}
			}
			format := ""
			if len(ce.Args) > 0 {
				if b, ok := c04Lit(ce.Args[0]); ok {
					format = string(b)
				}
			}
			switch {
			case se.Sel.Name == "JoinErrorf" || se.Sel.Name == "Join":
				// liberr.Error.Join / JoinErrorf flatten to a string: nothing wrapped inside is reachable for errors.Is
				if carriesErr || strings.Contains(format, "%w") {
					bad = fmt.Errorf("%s: %s wraps an error with liberr %s, which flattens it to a string (a sentinel like ErrEthTxNotVerified is lost for the flush condition): unknown shape", n, c.Src(ce), se.Sel.Name)
				}
			case c.Src(ce.Fun) == "fmt.Errorf" && carriesErr:
				if !strings.Contains(format, "%w") {
					bad = fmt.Errorf("%s: %s formats an error without %%w (a sentinel is lost for the flush condition): unknown shape", n, c.Src(ce))
				} else {
					wraps = append(wraps, n+": "+format)
				}
			case (se.Sel.Name == "New" || se.Sel.Name == "Wrap" || se.Sel.Name == "Wrapf") && carriesErr:
				bad = fmt.Errorf("%s: %s re-packs an error in a way the translator does not know: unknown shape", n, c.Src(ce))
			}
			return true
		})
		if bad != nil {
			return bad
		}
	}
	sort.Strings(wraps)
	c.P("Definition attest_error_wraps : list string := %s.", CoqStrList(wraps))
	c.Info("attest_error_wraps", wraps)
	return nil
}

// ---- how the two end-block loops obtain the messages of a queue: the whole queue (GetMessagesFromQueue(_, _, 0),
// ranged over as it is); a count argument, a slice bound or another getter is an unknown shape ----
func extractC04Getters(c *Ctx, files []*ast.File) error {
	var out []string
	for _, fn := range []string{"CheckAndProcessAttestedMessages", "CheckAndProcessEstimatedMessages"} {
		fd := FindFuncIn(files, "Keeper", fn)
		if fd == nil {
			return fmt.Errorf("Keeper.%s not found", fn)
		}
		calls := Calls(fd.Body, "GetMessagesFromQueue")
		if len(calls) != 1 || len(calls[0].Args) != 3 {
			return fmt.Errorf("%s: expected exactly one GetMessagesFromQueue(ctx, queue, n) (unknown shape)", fn)
		}
		if n := c.Src(calls[0].Args[2]); n != "0" {
			return fmt.Errorf("%s: the messages of a queue are fetched with a bound (%s): messages behind it are never looked at (unknown shape)", fn, n)
		}
		ranged := 0
		var bad error
		ast.Inspect(fd.Body, func(x ast.Node) bool {
			switch v := x.(type) {
			case *ast.RangeStmt:
				if id, ok := v.X.(*ast.Ident); ok && id.Name == "msgs" {
					ranged++
				} else if strings.Contains(c.Src(v.X), "msgs") {
					bad = fmt.Errorf("%s: the loop ranges over %q instead of the fetched messages (unknown shape)", fn, c.Src(v.X))
				}
			case *ast.AssignStmt:
				for i, l := range v.Lhs {
					if c.Src(l) == "msgs" && i < len(v.Rhs) && !strings.Contains(c.Src(v.Rhs[i]), "GetMessagesFromQueue") && len(v.Lhs) == len(v.Rhs) {
						bad = fmt.Errorf("%s: the fetched messages are re-assigned (%s) (unknown shape)", fn, c.Src(v))
					}
				}
			}
			return bad == nil
		})
		if bad != nil {
			return bad
		}
		if ranged != 1 {
			return fmt.Errorf("%s: expected exactly one loop over the fetched messages", fn)
		}
		out = append(out, fn+": "+c.Src(calls[0]))
	}
	gd := FindFuncIn(files, "Keeper", "GetMessagesFromQueue")
	if gd == nil {
		return fmt.Errorf("Keeper.GetMessagesFromQueue not found")
	}
	bound := ""
	for _, st := range gd.Body.List {
		if is, ok := st.(*ast.IfStmt); ok && strings.Contains(c.Src(is.Body), "msgs[:") {
			bound = strings.Join(strings.Fields("if "+c.Src(is.Cond)+" "+c.Src(is.Body)), " ")
		}
	}
	if bound != "if n > 0 && len(msgs) > n { msgs = msgs[:n] }" || len(Calls(gd.Body, "GetAll")) != 1 {
		return fmt.Errorf("GetMessagesFromQueue: bound %q not understood (expected: everything of GetAll unless n > 0)", bound)
	}
	c.P("(* x/consensus/keeper: how the end-block loops obtain the messages of a queue *)")
	c.P("Definition endblock_message_getters : list string := %s.", CoqStrList(out))
	c.Info("endblock_message_getters", out)
	return nil
}

// ---- Queue.ReassignValidator: what it writes on the stored message.  Only the packed consensus message (its assignee
// fields, through SetAssignee) may change; a write to any other field of the queued message, or a call of one of its
// mutators (SetElectedGasEstimate, AddGasEstimate, AddEvidence, AddSignData ...), is an unknown shape ----
func extractC04Reassign(c *Ctx) error {
	f, err := c.Parse("x/consensus/keeper/consensus/consensus.go")
	if err != nil {
		return err
	}
	fd := FindFunc(f, "Queue", "ReassignValidator")
	if fd == nil {
		return fmt.Errorf("Queue.ReassignValidator not found")
	}
	var writes []string
	var bad error
	ast.Inspect(fd.Body, func(x ast.Node) bool {
		switch v := x.(type) {
		case *ast.AssignStmt:
			for _, l := range v.Lhs {
				if se, ok := l.(*ast.SelectorExpr); ok {
					if c.Src(l) != "msg.Msg" {
						bad = fmt.Errorf("ReassignValidator writes %s (unknown shape: only the packed message may change)", c.Src(l))
					}
					_ = se
					writes = append(writes, c.Src(v))
				}
			}
		case *ast.IncDecStmt:
			bad = fmt.Errorf("ReassignValidator: %s (unknown shape)", c.Src(v))
		case *ast.CallExpr:
			if se, ok := v.Fun.(*ast.SelectorExpr); ok {
				recv, name := c.Src(se.X), se.Sel.Name
				mut := strings.HasPrefix(name, "Set") || strings.HasPrefix(name, "Add") || strings.HasPrefix(name, "Remove") || strings.HasPrefix(name, "Clear") || strings.HasPrefix(name, "Reset")
				switch {
				case recv == "assignable" && name == "SetAssignee":
					writes = append(writes, c.Src(v))
				case name == "save" && recv == "c":
					writes = append(writes, c.Src(v))
				case mut && (recv == "msg" || recv == "imsg" || recv == "c"):
					bad = fmt.Errorf("ReassignValidator calls %s (unknown shape: re-assigning a message must not touch its estimates, elected estimate, evidence or signatures)", c.Src(v))
				}
			}
		}
		return bad == nil
	})
	if bad != nil {
		return bad
	}
	c.P("(* x/consensus/keeper/consensus/consensus.go Queue.ReassignValidator: everything it writes *)")
	c.P("Definition reassign_writes : list string := %s.", CoqStrList(writes))
	c.Info("reassign_writes", writes)
	return nil
}
