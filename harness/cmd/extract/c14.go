package main

import (
	"fmt"
	"go/ast"
	"go/token"
	"io/fs"
	"os"
	"path/filepath"
	"strings"

	goparser "go/parser"
)

func goParse(fset *token.FileSet, p string, src []byte) (*ast.File, error) {
	return goparser.ParseFile(fset, p, src, 0)
}

// C14: the pool size and index expression of the relayer pick, the MEV trait, the default relay
// weights, the ORDER of the five relay filters (the per-sender one is stateful, so order matters),
// the two comparison expressions inside the filters, the response cap, and the fee formula chains.
func init() { extractors["C14"] = extractC14 }

// flattenAnd returns the operands of a left-nested a && b && c ... in source order.
func flattenAnd(e ast.Expr) []ast.Expr {
	if p, ok := e.(*ast.ParenExpr); ok {
		return flattenAnd(p.X)
	}
	if b, ok := e.(*ast.BinaryExpr); ok && b.Op == token.LAND {
		return append(flattenAnd(b.X), flattenAnd(b.Y)...)
	}
	return []ast.Expr{e}
}

// methodChain returns receiver source and the selector names of x.A(..).B(..).C() from inside out.
func methodChain(c *Ctx, e ast.Expr) (string, []string, []string) {
	var names, args []string
	for {
		ce, ok := e.(*ast.CallExpr)
		if !ok {
			break
		}
		se, ok := ce.Fun.(*ast.SelectorExpr)
		if !ok {
			break
		}
		names = append([]string{se.Sel.Name}, names...)
		a := ""
		if len(ce.Args) > 0 {
			a = c.Src(ce.Args[0])
		}
		args = append([]string{a}, args...)
		e = se.X
	}
	return c.Src(e), names, args
}

func lastReturn(fd *ast.FuncDecl) ast.Expr {
	var out ast.Expr
	for _, st := range fd.Body.List {
		if rs, ok := st.(*ast.ReturnStmt); ok && len(rs.Results) == 1 {
			out = rs.Results[0]
		}
	}
	return out
}

func extractC14(c *Ctx) error {
	// ---- msg_assigner.go ----
	evmk, err := c.ParseDir("x/evm/keeper")
	if err != nil {
		return err
	}
	pool, ok := ConstValue(c, evmk, "topValidatorPoolSize")
	if !ok {
		return fmt.Errorf("topValidatorPoolSize not found")
	}
	c.P("(* x/evm/keeper/msg_assigner.go *)")
	c.P("Definition top_validator_pool_size : Z := %s.", pool)
	c.Info("pool", pool)

	pick := FindFuncIn(evmk, "msgAssigner", "PickValidatorForMessage")
	if pick == nil {
		return fmt.Errorf("msgAssigner.PickValidatorForMessage not found")
	}
	idx := ""
	ast.Inspect(pick.Body, func(n ast.Node) bool {
		as, ok := n.(*ast.AssignStmt)
		if ok && len(as.Lhs) == 1 && c.Src(as.Lhs[0]) == "winnerIdx" && len(as.Rhs) == 1 {
			idx = c.Src(as.Rhs[0])
		}
		return true
	})
	if idx == "" {
		return fmt.Errorf("winnerIdx assignment not found in PickValidatorForMessage")
	}
	c.P("Definition winner_index_expr : string := %s.", CoqStr(idx))
	c.Info("winner_index", idx)
	// the sequence of the three stages: getSnapshotForRound, filterValidatorsForJob, index
	var stages []string
	ast.Inspect(pick.Body, func(n ast.Node) bool {
		if ce, ok := n.(*ast.CallExpr); ok {
			switch f := ce.Fun.(type) {
			case *ast.SelectorExpr:
				if f.Sel.Name == "getSnapshotForRound" || f.Sel.Name == "GetCurrentSnapshot" {
					stages = append(stages, f.Sel.Name)
				}
			case *ast.Ident:
				if f.Name == "filterValidatorsForJob" || f.Name == "removeWinnerFromSnapshot" {
					stages = append(stages, f.Name)
				}
			}
		}
		return true
	})
	c.P("Definition pick_stages : list string := %s.", CoqStrList(stages))

	// sort comparator: GT -> -1, LT -> 1, then strings.Compare(a.address, b.address)
	rk := FindFuncIn(evmk, "", "rankValidators")
	if rk == nil {
		return fmt.Errorf("rankValidators not found")
	}
	var cmp *ast.FuncLit
	for _, ce := range Calls(rk.Body, "SortStableFunc") {
		if len(ce.Args) == 2 {
			cmp, _ = ce.Args[1].(*ast.FuncLit)
		}
	}
	if cmp == nil {
		return fmt.Errorf("rankValidators: slices.SortStableFunc comparator not recognised")
	}
	var cmpShape []string
	for _, st := range cmp.Body.List {
		switch s := st.(type) {
		case *ast.IfStmt:
			for cur := s; cur != nil; {
				if len(cur.Body.List) != 1 {
					return fmt.Errorf("rankValidators comparator: unexpected branch body")
				}
				cmpShape = append(cmpShape, c.Src(cur.Cond)+" => "+strings.TrimPrefix(c.Src(cur.Body.List[0]), "return "))
				next, _ := cur.Else.(*ast.IfStmt)
				if cur.Else != nil && next == nil {
					return fmt.Errorf("rankValidators comparator: unexpected else")
				}
				cur = next
			}
		case *ast.ReturnStmt:
			cmpShape = append(cmpShape, "else => "+c.Src(s.Results[0]))
		default:
			return fmt.Errorf("rankValidators comparator: unexpected statement")
		}
	}
	c.P("Definition rank_comparator : list string := %s.", CoqStrList(cmpShape))
	c.Info("rank_comparator", cmpShape)

	// score formula: reverse flags per column
	var cols []string
	for _, ce := range Calls(rk.Body, "scoreValue") {
		if len(ce.Args) != 4 {
			return fmt.Errorf("scoreValue call with %d args", len(ce.Args))
		}
		cols = append(cols, c.Src(ce.Args[2])+":"+c.Src(ce.Args[3]))
	}
	c.P("Definition score_columns : list string := %s.", CoqStrList(cols))
	c.Info("score_columns", cols)

	// ---- traits / weights ----
	vt, err := c.ParseDir("x/valset/types")
	if err != nil {
		return err
	}
	mev, ok := ConstValue(c, vt, "PIGEON_TRAIT_MEV")
	if !ok {
		return fmt.Errorf("PIGEON_TRAIT_MEV not found")
	}
	c.P("Definition pigeon_trait_mev : string := %s.", CoqStr(strings.Trim(mev, "\"")))
	rw, err := c.Parse("x/evm/types/relay_weights.go")
	if err != nil {
		return err
	}
	vd := FindFunc(rw, "RelayWeights", "ValueOrDefault")
	if vd == nil {
		return fmt.Errorf("RelayWeights.ValueOrDefault not found")
	}
	var dw []string
	ast.Inspect(vd.Body, func(n ast.Node) bool {
		if kv, ok := n.(*ast.KeyValueExpr); ok {
			if bl, ok := kv.Value.(*ast.BasicLit); ok && bl.Kind == token.STRING {
				dw = append(dw, c.Src(kv.Key)+"="+strings.Trim(bl.Value, "\""))
			}
		}
		return true
	})
	if len(dw) != 5 {
		return fmt.Errorf("RelayWeights.ValueOrDefault: expected 5 default weights, got %d", len(dw))
	}
	c.P("Definition default_relay_weights : list string := %s.", CoqStrList(dw))
	c.Info("default_weights", dw)

	// ---- relay filters ----
	ck, err := c.Parse("x/consensus/keeper/concensus_keeper.go")
	if err != nil {
		return err
	}
	capv, ok := ConstValue(c, []*ast.File{ck}, "defaultResponseMessageCount")
	if !ok {
		return fmt.Errorf("defaultResponseMessageCount not found")
	}
	c.P("(* x/consensus/keeper/concensus_keeper.go *)")
	c.P("Definition default_response_message_count : Z := %s.", capv)
	gm := FindFunc(ck, "Keeper", "GetMessagesForRelaying")
	if gm == nil {
		return fmt.Errorf("GetMessagesForRelaying not found")
	}
	var order []string
	var nonEvm []string
	found := 0
	for _, ce := range Calls(gm.Body, "Filter") {
		if len(ce.Args) != 2 {
			continue
		}
		fl, ok := ce.Args[1].(*ast.FuncLit)
		if !ok {
			continue
		}
		found++
		for _, st := range fl.Body.List {
			switch s := st.(type) {
			case *ast.ReturnStmt:
				for _, op := range flattenAnd(s.Results[0]) {
					call, ok := op.(*ast.CallExpr)
					if !ok {
						return fmt.Errorf("GetMessagesForRelaying: filter operand %q is not a call", c.Src(op))
					}
					se, ok := call.Fun.(*ast.SelectorExpr)
					if !ok || c.Src(se.X) != "filters" {
						return fmt.Errorf("GetMessagesForRelaying: filter operand %q is not filters.X(...)", c.Src(op))
					}
					order = append(order, se.Sel.Name)
				}
			case *ast.IfStmt:
				// early exits for non-EVM messages: record what they return
				for _, b := range s.Body.List {
					if rs, ok := b.(*ast.ReturnStmt); ok && len(rs.Results) == 1 {
						nonEvm = append(nonEvm, c.Src(s.Cond)+" => "+c.Src(rs.Results[0]))
					}
				}
			}
		}
	}
	if found != 1 || len(order) == 0 {
		return fmt.Errorf("GetMessagesForRelaying: expected exactly one slice.Filter with a filters.* conjunction (found %d, %d operands)", found, len(order))
	}
	c.P("Definition relay_filter_order : list string := %s.", CoqStrList(order))
	c.P("Definition relay_non_evm_exits : list string := %s.", CoqStrList(nonEvm))
	c.Info("relay_filter_order", order)

	// pending valset updates: which action type, and no other condition
	pv := FindFunc(ck, "Keeper", "GetPendingValsetUpdates")
	if pv == nil {
		return fmt.Errorf("GetPendingValsetUpdates not found")
	}
	pvType := ""
	ast.Inspect(pv.Body, func(n ast.Node) bool {
		if ta, ok := n.(*ast.TypeAssertExpr); ok && ta.Type != nil && strings.Contains(c.Src(ta.Type), "Message_") {
			pvType = c.Src(ta.Type)
		}
		return true
	})
	if pvType == "" {
		return fmt.Errorf("GetPendingValsetUpdates: action type assertion not found")
	}
	c.P("Definition pending_valset_action : string := %s.", CoqStr(pvType))

	fdir, err := c.ParseDir("x/consensus/keeper/filters")
	if err != nil {
		return err
	}
	for _, nm := range []struct{ fn, def string }{
		{"IsNotBlockedByValset", "filter_valset_expr"},
		{"IsUnprocessed", "filter_unprocessed_expr"},
		{"HasGasEstimate", "filter_estimate_expr"},
		{"IsAssignedTo", "filter_assigned_expr"},
	} {
		fd := FindFuncIn(fdir, "", nm.fn)
		if fd == nil {
			return fmt.Errorf("filters.%s not found", nm.fn)
		}
		r := lastReturn(fd)
		if r == nil {
			return fmt.Errorf("filters.%s: final return not found", nm.fn)
		}
		c.P("Definition %s : string := %s.", nm.def, CoqStr(c.Src(r)))
		c.Info(nm.def, c.Src(r))
	}
	// the per-sender filter: which action carries the sender, and the look-up-table write
	op := FindFuncIn(fdir, "", "IsOldestMsgPerSender")
	if op == nil {
		return fmt.Errorf("filters.IsOldestMsgPerSender not found")
	}
	var shape []string
	for _, st := range op.Body.List {
		switch s := st.(type) {
		case *ast.IfStmt:
			init := ""
			if s.Init != nil {
				init = c.Src(s.Init) + "; "
			}
			body := ""
			for _, b := range s.Body.List {
				body += c.Src(b) + ";"
			}
			shape = append(shape, "if "+init+c.Src(s.Cond)+" {"+body+"}")
		default:
			shape = append(shape, c.Src(st))
		}
	}
	c.P("Definition filter_sender_shape : list string := %s.", CoqStrList(shape))

	// ---- fee formula ----
	est, err := c.Parse("x/consensus/keeper/estimate.go")
	if err != nil {
		return err
	}
	cf := FindFunc(est, "Keeper", "calculateFeesForEstimate")
	if cf == nil {
		return fmt.Errorf("calculateFeesForEstimate not found")
	}
	// fees.X, err = mulCeilUint64(multiplicators.X, <arg>)
	var formula []string
	ast.Inspect(cf.Body, func(n ast.Node) bool {
		as, ok := n.(*ast.AssignStmt)
		if !ok || len(as.Lhs) < 1 || len(as.Rhs) != 1 {
			return true
		}
		lhs := c.Src(as.Lhs[0])
		if !strings.HasPrefix(lhs, "fees.") {
			return true
		}
		ce, ok := as.Rhs[0].(*ast.CallExpr)
		if !ok {
			formula = append(formula, lhs+" = ?"+c.Src(as.Rhs[0]))
			return true
		}
		var args []string
		for _, a := range ce.Args {
			args = append(args, c.Src(a))
		}
		formula = append(formula, lhs+" = "+c.Src(ce.Fun)+"("+strings.Join(args, ", ")+")")
		return true
	})
	if len(formula) != 3 {
		return fmt.Errorf("calculateFeesForEstimate: expected 3 fee assignments, got %d", len(formula))
	}
	c.P("(* x/consensus/keeper/estimate.go *)")
	c.P("Definition fee_formula : list string := %s.", CoqStrList(formula))
	c.Info("fee_formula", formula)

	// the helper: guards, product, rounding, range check — statement by statement
	mc := FindFunc(est, "", "mulCeilUint64")
	if mc == nil {
		return fmt.Errorf("mulCeilUint64 not found")
	}
	var mcShape []string
	for _, st := range mc.Body.List {
		switch s := st.(type) {
		case *ast.IfStmt:
			if s.Else != nil || s.Init != nil {
				return fmt.Errorf("mulCeilUint64: unexpected if shape")
			}
			kind := "then"
			for _, b := range s.Body.List {
				if rs, ok := b.(*ast.ReturnStmt); ok {
					kind = "error"
					if len(rs.Results) == 2 && c.Src(rs.Results[1]) == "nil" {
						kind = "return " + c.Src(rs.Results[0])
					}
				} else {
					kind = c.Src(b)
				}
			}
			mcShape = append(mcShape, "if "+c.Src(s.Cond)+" => "+kind)
		default:
			mcShape = append(mcShape, c.Src(st))
		}
	}
	c.P("Definition mul_ceil_shape : list string := %s.", CoqStrList(mcShape))
	c.Info("mul_ceil_shape", mcShape)
	dp, ok := ConstValue(c, []*ast.File{est}, "decPrecisionDivisor")
	if !ok {
		return fmt.Errorf("decPrecisionDivisor not found")
	}
	c.P("Definition dec_precision_divisor_expr : string := %s.", CoqStr(dp))

	// ---- multiplicator validation on submission (x/treasury/keeper/msg_server.go) ----
	tm, err := c.Parse("x/treasury/keeper/msg_server.go")
	if err != nil {
		return err
	}
	mx, ok := ConstValue(c, []*ast.File{tm}, "maxRelayerFeeMultiplicator")
	if !ok {
		return fmt.Errorf("maxRelayerFeeMultiplicator not found")
	}
	mxCall, _ := func() (*ast.CallExpr, bool) {
		for _, d := range tm.Decls {
			gd, ok := d.(*ast.GenDecl)
			if !ok {
				continue
			}
			for _, sp := range gd.Specs {
				vs, ok := sp.(*ast.ValueSpec)
				if ok && len(vs.Names) == 1 && vs.Names[0].Name == "maxRelayerFeeMultiplicator" && len(vs.Values) == 1 {
					ce, ok := vs.Values[0].(*ast.CallExpr)
					return ce, ok
				}
			}
		}
		return nil, false
	}()
	if mxCall == nil || len(mxCall.Args) != 1 || !strings.HasSuffix(c.Src(mxCall.Fun), "LegacyNewDec") {
		return fmt.Errorf("maxRelayerFeeMultiplicator: expected math.LegacyNewDec(<int>), got %s", mx)
	}
	lit, ok := mxCall.Args[0].(*ast.BasicLit)
	if !ok || lit.Kind != token.INT {
		return fmt.Errorf("maxRelayerFeeMultiplicator: integer literal expected")
	}
	c.P("(* x/treasury/keeper/msg_server.go *)")
	c.P("Definition max_relayer_fee_multiplicator : Z := %s.", strings.ReplaceAll(lit.Value, "_", ""))
	vm := FindFunc(tm, "", "validateMultiplicator")
	if vm == nil {
		return fmt.Errorf("validateMultiplicator not found")
	}
	var vmConds []string
	for _, st := range vm.Body.List {
		if is, ok := st.(*ast.IfStmt); ok {
			vmConds = append(vmConds, c.Src(is.Cond))
		}
	}
	c.P("Definition validate_multiplicator_rejects : list string := %s.", CoqStrList(vmConds))
	up := FindFunc(tm, "msgServer", "UpsertRelayerFee")
	if up == nil || len(Calls(up.Body, "validateMultiplicator")) != 1 {
		return fmt.Errorf("UpsertRelayerFee: exactly one validateMultiplicator call expected")
	}
	c.Info("max_multiplicator", lit.Value)

	// ---- call-graph query: does anything in production reach the fee-keeping reassignment? ----
	callers, err := c14ReassignCallers(c.Repo)
	if err != nil {
		return err
	}
	c.P("(* non-test, non-verif call sites of ReassignOrphanedMessages, and of reassignMessageValidator outside it *)")
	c.P("Definition reassign_production_callers : list string := %s.", CoqStrList(callers))
	c.Info("reassign_production_callers", callers)

	// ---- second round (c14b.go): who enqueues what, and the retry rules ----
	if err := c14RetryRules(c); err != nil {
		return err
	}
	if err := c14MemoryState(c); err != nil {
		return err
	}
	if err := c14QueueGetters(c); err != nil {
		return err
	}
	if err := c14ReassignLoop(c); err != nil {
		return err
	}
	return c14EnqueueSites(c)
}

// c14ReassignCallers scans every non-test, non-verif-hook Go file of the tree (mocks, test utilities
// and generated docs excluded) for calls of ReassignOrphanedMessages / reassignMessageValidator.
func c14ReassignCallers(repo string) ([]string, error) {
	set := map[string]bool{}
	skipDir := map[string]bool{"mocks": true, "testutil": true, "tests": true, ".git": true, "node_modules": true, "vue": true, "docs": true, "proto": true}
	fset := token.NewFileSet()
	err := filepath.WalkDir(repo, func(p string, d fs.DirEntry, err error) error {
		if err != nil {
			return err
		}
		if d.IsDir() {
			if skipDir[d.Name()] {
				return filepath.SkipDir
			}
			return nil
		}
		n := d.Name()
		if !strings.HasSuffix(n, ".go") || strings.HasSuffix(n, "_test.go") || strings.HasPrefix(n, "verif_hooks") {
			return nil
		}
		src, err := os.ReadFile(p)
		if err != nil {
			return err
		}
		if !strings.Contains(string(src), "ReassignOrphanedMessages") && !strings.Contains(string(src), "reassignMessageValidator") {
			return nil
		}
		if strings.HasPrefix(strings.TrimSpace(string(src)), "//go:build verif") {
			return nil
		}
		f, err := goParse(fset, p, src)
		if err != nil {
			return err
		}
		rel, _ := filepath.Rel(repo, p)
		for _, dcl := range f.Decls {
			fd, ok := dcl.(*ast.FuncDecl)
			if !ok || fd.Body == nil {
				continue
			}
			who := rel + ":" + fd.Name.Name
			if len(Calls(fd.Body, "ReassignOrphanedMessages")) > 0 {
				set[who+" -> ReassignOrphanedMessages"] = true
			}
			if fd.Name.Name != "ReassignOrphanedMessages" && len(Calls(fd.Body, "reassignMessageValidator")) > 0 {
				set[who+" -> reassignMessageValidator"] = true
			}
		}
		return nil
	})
	if err != nil {
		return nil, err
	}
	return SortedSet(set), nil
}
