package main

import (
	"fmt"
	"go/ast"
	"go/token"
	"os"
	"path/filepath"
	"sort"
	"strings"
)

// C13: what archives a checkpoint (BuildOutgoingTXBatch, UpdateBatchGasEstimate), that the
// bad-signature evidence handler rejects archived checkpoints before it recovers a signer, which
// batch fields the checkpoint covers, the dummy gas estimate, and the pruning rules of the
// consensus keeper (undelivered test, 10 % floor, jail loop over the snapshot).
func init() { extractors["C13"] = extractC13 }

// c13ArchiveOf reports how fd archives a checkpoint: the source of the argument given to
// SetPastEthSignatureCheckpoint ("" when there is no call), and the position of the call.
func c13ArchiveCalls(c *Ctx, fd *ast.FuncDecl) []*ast.CallExpr {
	return Calls(fd.Body, "SetPastEthSignatureCheckpoint")
}

// c13AssignedFrom finds `name, err := <recv>.GetCheckpoint(...)` / `name, err = ...` in fd and
// returns the receiver's source text.
func c13CheckpointSource(c *Ctx, fd *ast.FuncDecl, name string) (string, token.Pos) {
	recv := ""
	var pos token.Pos
	ast.Inspect(fd.Body, func(n ast.Node) bool {
		as, ok := n.(*ast.AssignStmt)
		if !ok || len(as.Lhs) < 1 || len(as.Rhs) != 1 || c.Src(as.Lhs[0]) != name {
			return true
		}
		ce, ok := as.Rhs[0].(*ast.CallExpr)
		if !ok {
			return true
		}
		se, ok := ce.Fun.(*ast.SelectorExpr)
		if ok && se.Sel.Name == "GetCheckpoint" {
			recv = c.Src(se.X)
			pos = as.Pos()
		}
		return true
	})
	return recv, pos
}

func extractC13(c *Ctx) error {
	// ---- dummy estimate and checkpoint fields ----
	tf, err := c.Parse("x/skyway/types/batch.go")
	if err != nil {
		return err
	}
	dv, ok := ConstValue(c, []*ast.File{tf}, "cConservativeDummyGasEstimate")
	if !ok {
		return fmt.Errorf("cConservativeDummyGasEstimate not found")
	}
	dv = strings.ReplaceAll(dv, "_", "")
	c.P("(* x/skyway/types/batch.go *)")
	c.P("Definition dummy_gas_estimate : Z := %s.", dv)
	gc := FindFunc(tf, "InternalOutgoingTxBatch", "GetCheckpoint")
	if gc == nil {
		return fmt.Errorf("InternalOutgoingTxBatch.GetCheckpoint not found")
	}
	packs := Calls(gc.Body, "Pack")
	if len(packs) != 1 {
		return fmt.Errorf("GetCheckpoint: expected exactly one arguments.Pack call, found %d", len(packs))
	}
	var fields []string
	for _, a := range packs[0].Args {
		fields = append(fields, strings.Join(strings.Fields(c.Src(a)), " "))
	}
	c.P("Definition checkpoint_fields : list string := %s.", CoqStrList(fields))
	// the estimate that is packed: dummy unless GasEstimate != 0
	usesDummy := false
	ast.Inspect(gc.Body, func(n ast.Node) bool {
		is, ok := n.(*ast.IfStmt)
		if ok && strings.Join(strings.Fields(c.Src(is.Cond)), "") == "i.GasEstimate!=0" && strings.Contains(c.Src(is.Body), "estimate.SetUint64(i.GasEstimate)") {
			usesDummy = true
		}
		return true
	})
	if !usesDummy || !strings.Contains(c.Src(gc.Body), "estimate := big.NewInt(cConservativeDummyGasEstimate)") {
		return fmt.Errorf("GetCheckpoint: `estimate := big.NewInt(cConservativeDummyGasEstimate); if i.GasEstimate != 0 { estimate.SetUint64(i.GasEstimate) }` not recognised")
	}
	c.P("Definition estimate_zero_means_dummy : bool := true.")
	c.Info("checkpoint_fields", fields)

	// ---- who archives ----
	bf, err := c.Parse("x/skyway/keeper/batch.go")
	if err != nil {
		return err
	}
	archives := func(fn, wantRecv string, needBytesToSign bool) (bool, error) {
		fd := FindFunc(bf, "Keeper", fn)
		if fd == nil {
			return false, fmt.Errorf("%s not found", fn)
		}
		calls := c13ArchiveCalls(c, fd)
		if len(calls) == 0 {
			return false, nil
		}
		if len(calls) > 1 || len(calls[0].Args) != 2 {
			return false, fmt.Errorf("%s: unexpected SetPastEthSignatureCheckpoint call shape", fn)
		}
		arg := c.Src(calls[0].Args[1])
		recv, pos := c13CheckpointSource(c, fd, arg)
		if recv != wantRecv {
			return false, fmt.Errorf("%s: archived value %q is not `%s.GetCheckpoint(..)` (got receiver %q)", fn, arg, wantRecv, recv)
		}
		if pos > calls[0].Pos() {
			return false, fmt.Errorf("%s: archived value %q is computed after it is archived", fn, arg)
		}
		if needBytesToSign {
			// the archived value must be the one published as BytesToSign, computed after the estimate is set
			okAssign := false
			var estPos token.Pos
			ast.Inspect(fd.Body, func(n ast.Node) bool {
				as, ok := n.(*ast.AssignStmt)
				if !ok || len(as.Lhs) != 1 || len(as.Rhs) != 1 {
					return true
				}
				if c.Src(as.Lhs[0]) == wantRecv+".BytesToSign" && c.Src(as.Rhs[0]) == arg {
					okAssign = true
				}
				if c.Src(as.Lhs[0]) == wantRecv+".GasEstimate" {
					estPos = as.Pos()
				}
				return true
			})
			if !okAssign {
				return false, fmt.Errorf("%s: archived value %q is not the one stored as %s.BytesToSign", fn, arg, wantRecv)
			}
			if estPos == token.NoPos || estPos > pos {
				return false, fmt.Errorf("%s: checkpoint is not recomputed after the estimate is set", fn)
			}
		}
		return true, nil
	}
	ba, err := archives("BuildOutgoingTXBatch", "batch", false)
	if err != nil {
		return err
	}
	ra, err := archives("UpdateBatchGasEstimate", "entity", true)
	if err != nil {
		return err
	}
	c.P("(* x/skyway/keeper/batch.go: which functions archive the checkpoint they publish *)")
	c.P("Definition build_archives : bool := %v.", ba)
	c.P("Definition reissue_archives : bool := %v.", ra)
	c.Info("build_archives", ba)
	c.Info("reissue_archives", ra)
	// UpdateBatchGasEstimate refuses a second estimate
	ub := FindFunc(bf, "Keeper", "UpdateBatchGasEstimate")
	once := false
	ast.Inspect(ub.Body, func(n ast.Node) bool {
		is, ok := n.(*ast.IfStmt)
		if ok && strings.Join(strings.Fields(c.Src(is.Cond)), "") == "entity.GasEstimate>0" {
			if len(is.Body.List) == 1 {
				if _, ok := is.Body.List[0].(*ast.ReturnStmt); ok {
					once = true
				}
			}
		}
		return true
	})
	c.P("Definition estimate_set_once : bool := %v.", once)

	// ---- evidence handler ----
	ef, err := c.Parse("x/skyway/keeper/evidence.go")
	if err != nil {
		return err
	}
	eh := FindFunc(ef, "Keeper", "checkBadSignatureEvidenceInternal")
	if eh == nil {
		return fmt.Errorf("checkBadSignatureEvidenceInternal not found")
	}
	rejects := false
	var rejectPos, recoverPos, jailPos token.Pos
	ast.Inspect(eh.Body, func(n ast.Node) bool {
		switch x := n.(type) {
		case *ast.IfStmt:
			if strings.Join(strings.Fields(c.Src(x.Cond)), "") == "k.GetPastEthSignatureCheckpoint(ctx,checkpoint)" && len(x.Body.List) == 1 {
				if rs, ok := x.Body.List[0].(*ast.ReturnStmt); ok && len(rs.Results) == 1 && c.Src(rs.Results[0]) != "nil" {
					rejects = true
					rejectPos = x.Pos()
				}
			}
		case *ast.CallExpr:
			s := c.Src(x.Fun)
			if s == "types.EthAddressFromSignature" {
				if len(x.Args) != 2 || c.Src(x.Args[0]) != "checkpoint" {
					return true
				}
				recoverPos = x.Pos()
			}
			if s == "k.StakingKeeper.Jail" {
				jailPos = x.Pos()
			}
		}
		return true
	})
	cpRecv, _ := c13CheckpointSource(c, eh, "checkpoint")
	if cpRecv != "subject" {
		return fmt.Errorf("checkBadSignatureEvidenceInternal: checkpoint is not subject.GetCheckpoint(..)")
	}
	if recoverPos == token.NoPos || jailPos == token.NoPos {
		return fmt.Errorf("checkBadSignatureEvidenceInternal: EthAddressFromSignature(checkpoint, ..) / StakingKeeper.Jail not recognised")
	}
	if rejects && !(rejectPos < recoverPos && recoverPos < jailPos) {
		return fmt.Errorf("checkBadSignatureEvidenceInternal: archive test / recover / jail are not in the modelled order")
	}
	c.P("(* x/skyway/keeper/evidence.go *)")
	c.P("Definition evidence_rejects_archived : bool := %v.", rejects)
	c.Info("evidence_rejects_archived", rejects)

	// ---- pruning ----
	cf, err := c.Parse("x/consensus/keeper/concensus_keeper.go")
	if err != nil {
		return err
	}
	jn := FindFunc(cf, "Keeper", "jailValidatorsIfNecessary")
	jm := FindFunc(cf, "Keeper", "jailValidatorsWhichMissedAttestation")
	if jn == nil || jm == nil {
		return fmt.Errorf("jailValidatorsIfNecessary / jailValidatorsWhichMissedAttestation not found")
	}
	undel := ""
	ast.Inspect(jn.Body, func(n ast.Node) bool {
		is, ok := n.(*ast.IfStmt)
		if ok && strings.Contains(c.Src(is.Body), "punishValidatorForMissingRelay") {
			undel = strings.Join(strings.Fields(c.Src(is.Cond)), " ")
		}
		return true
	})
	if undel != "msg.GetPublicAccessData() == nil && msg.GetErrorData() == nil" {
		return fmt.Errorf("jailValidatorsIfNecessary: undelivered test %q not recognised", undel)
	}
	c.P("(* x/consensus/keeper/concensus_keeper.go *)")
	c.P("Definition undelivered_is_no_public_and_no_error : bool := true.")
	factor, strict := "", ""
	for _, ce := range Calls(jm.Body, "LT") {
		s := strings.Join(strings.Fields(c.Src(ce)), "")
		if strings.HasPrefix(s, "r.TotalVotes.Mul(math.NewInt(") && strings.HasSuffix(s, ")).LT(r.TotalShares)") {
			factor = strings.TrimSuffix(strings.TrimPrefix(s, "r.TotalVotes.Mul(math.NewInt("), ")).LT(r.TotalShares)")
			strict = "true"
		}
	}
	for _, ce := range Calls(jm.Body, "LTE") {
		s := strings.Join(strings.Fields(c.Src(ce)), "")
		if strings.HasPrefix(s, "r.TotalVotes.Mul(math.NewInt(") && strings.HasSuffix(s, ")).LTE(r.TotalShares)") {
			factor = strings.TrimSuffix(strings.TrimPrefix(s, "r.TotalVotes.Mul(math.NewInt("), ")).LTE(r.TotalShares)")
			strict = "false"
		}
	}
	if factor == "" {
		return fmt.Errorf("jailValidatorsWhichMissedAttestation: floor test r.TotalVotes.Mul(math.NewInt(k)).LT(r.TotalShares) not recognised")
	}
	c.P("Definition prune_floor_factor : Z := %s.", strings.ReplaceAll(factor, "_", ""))
	c.P("Definition prune_floor_strict : bool := %s.", strict)
	c.Info("prune_floor", factor+"*votes "+map[string]string{"true": "<", "false": "<="}[strict]+" total => nobody jailed")
	// the jail loop: over snapshot.Validators, guarded by absence from the evidence lookup
	loopOK := false
	ast.Inspect(jm.Body, func(n ast.Node) bool {
		rs, ok := n.(*ast.RangeStmt)
		if !ok || c.Src(rs.X) != "snapshot.Validators" {
			return true
		}
		if len(rs.Body.List) == 1 {
			if is, ok := rs.Body.List[0].(*ast.IfStmt); ok {
				cond := strings.Join(strings.Fields(c.Src(is.Cond)), "")
				init := ""
				if is.Init != nil {
					init = strings.Join(strings.Fields(c.Src(is.Init)), "")
				}
				if cond == "!fnd" && init == "_,fnd:=vlkUp[v.GetAddress().String()]" && len(Calls(is.Body, "Jail")) == 1 {
					loopOK = true
				}
			}
		}
		return true
	})
	if !loopOK {
		return fmt.Errorf("jailValidatorsWhichMissedAttestation: jail loop `for _, v := range snapshot.Validators { if _, fnd := vlkUp[..]; !fnd { Jail } }` not recognised")
	}
	if len(Calls(jm.Body, "Jail")) != 1 {
		return fmt.Errorf("jailValidatorsWhichMissedAttestation: expected exactly one Jail call")
	}
	c.P("Definition prune_jails_snapshot_vals_without_evidence : bool := true.")
	if err := c13AddEvidence(c); err != nil {
		return err
	}
	if err := c13SignBytesChannels(c); err != nil {
		return err
	}
	if err := c13ConfirmChecks(c); err != nil {
		return err
	}
	if err := c13EvidenceLookup(c); err != nil {
		return err
	}
	if err := c13EvidenceListWriters(c); err != nil {
		return err
	}
	return c13BatchRecordWriters(c)
}

// c13BatchRecordWriters: who writes a batch record (and with it a BytesToSign the queries will
// serve): StoreBatch -- called by BuildOutgoingTXBatch and by the genesis import only -- and the
// in-place rewrite in UpdateBatchGasEstimate.  Both keeper functions publish and archive in ONE
// cache context (all or nothing).  The genesis import either archives the BytesToSign of every
// batch it stores (genesis_archives_live = true) or does not archive at all (false).
func c13BatchRecordWriters(c *Ctx) error {
	kfs, err := c.ParseDir("x/skyway/keeper")
	if err != nil {
		return err
	}
	var callers, setters []string
	for _, f := range kfs {
		if strings.Contains(c.Fset.Position(f.Pos()).Filename, "verif_hooks") {
			continue
		}
		for _, d := range f.Decls {
			fd, ok := d.(*ast.FuncDecl)
			if !ok || fd.Body == nil {
				continue
			}
			if len(Calls(fd.Body, "StoreBatch")) > 0 {
				callers = append(callers, fd.Name.Name)
			}
			// store.Set(<key derived from GetOutgoingTxBatchKey>, ..)
			usesKey := len(Calls(fd.Body, "GetOutgoingTxBatchKey")) > 0
			if usesKey {
				for _, ce := range Calls(fd.Body, "Set") {
					if c13norm(c, ce.Fun) == "store.Set" {
						setters = append(setters, fd.Name.Name)
					}
				}
			}
		}
	}
	sort.Strings(callers)
	sort.Strings(setters)
	if strings.Join(callers, ",") != "BuildOutgoingTXBatch,initBridgeDataFromGenesis" {
		return fmt.Errorf("callers of StoreBatch: %v, expected BuildOutgoingTXBatch and initBridgeDataFromGenesis", callers)
	}
	if j := strings.Join(setters, ","); j != "StoreBatch,UpdateBatchGasEstimate" && j != "StoreBatch,UpdateBatchGasEstimate,refreshOpenBatchCheckpoints" {
		return fmt.Errorf("functions writing a batch record (store.Set with GetOutgoingTxBatchKey): %v, expected StoreBatch, UpdateBatchGasEstimate (and refreshOpenBatchCheckpoints)", setters)
	}
	// one cache context for record and archive
	bf, err := c.Parse("x/skyway/keeper/batch.go")
	if err != nil {
		return err
	}
	if err := c13Reissue(c, bf); err != nil {
		return err
	}
	for _, fn := range []string{"BuildOutgoingTXBatch", "UpdateBatchGasEstimate", "refreshOpenBatchCheckpoints"} {
		fd := FindFunc(bf, "Keeper", fn)
		if fd == nil && fn == "refreshOpenBatchCheckpoints" {
			continue
		}
		if fd == nil || len(fd.Body.List) < 2 {
			return fmt.Errorf("%s not found", fn)
		}
		if c13norm(c, fd.Body.List[0]) != "ctx,commit:=sdk.UnwrapSDKContext(c).CacheContext()" {
			return fmt.Errorf("%s: does not start with ctx, commit := sdk.UnwrapSDKContext(c).CacheContext()", fn)
		}
		ds, ok := fd.Body.List[1].(*ast.DeferStmt)
		if !ok || !strings.Contains(c13norm(c, ds), "iferr==nil{commit()}") {
			return fmt.Errorf("%s: no `defer func() { if err == nil { commit() } }()`", fn)
		}
		named := false
		if fd.Type.Results != nil {
			for _, fl := range fd.Type.Results.List {
				for _, nm := range fl.Names {
					if nm.Name == "err" {
						named = true
					}
				}
			}
		}
		if !named {
			return fmt.Errorf("%s: result err is not named", fn)
		}
		for _, nm := range []string{"SetPastEthSignatureCheckpoint", "StoreBatch", "GetStore"} {
			for _, ce := range Calls(fd.Body, nm) {
				if len(ce.Args) < 1 || c13norm(c, ce.Args[0]) != "ctx" {
					return fmt.Errorf("%s: %s is not called on the cache context ctx", fn, nm)
				}
			}
		}
		// nobody shadows or reassigns ctx
		n := 0
		ast.Inspect(fd.Body, func(x ast.Node) bool {
			if as, ok := x.(*ast.AssignStmt); ok {
				for _, l := range as.Lhs {
					if c13norm(c, l) == "ctx" {
						n++
					}
				}
			}
			return true
		})
		if n != 1 {
			return fmt.Errorf("%s: ctx is assigned %d times", fn, n)
		}
	}
	c.P("Definition publish_and_archive_in_one_cache_context : bool := true.")
	// genesis import
	gf, err := c.Parse("x/skyway/keeper/genesis.go")
	if err != nil {
		return err
	}
	gi := FindFunc(gf, "", "initBridgeDataFromGenesis")
	if gi == nil {
		return fmt.Errorf("initBridgeDataFromGenesis not found")
	}
	var loop *ast.RangeStmt
	ast.Inspect(gi.Body, func(x ast.Node) bool {
		if rs, ok := x.(*ast.RangeStmt); ok && c13norm(c, rs.X) == "data.Batches" {
			loop = rs
		}
		return true
	})
	if loop == nil || len(Calls(loop.Body, "StoreBatch")) != 1 {
		return fmt.Errorf("initBridgeDataFromGenesis: `for _, batch := range data.Batches { .. k.StoreBatch(ctx, *intBatch) .. }` not recognised")
	}
	sb := Calls(loop.Body, "StoreBatch")[0]
	if c13norm(c, sb) != "k.StoreBatch(ctx,*intBatch)" {
		return fmt.Errorf("initBridgeDataFromGenesis: StoreBatch call %q not recognised", c13norm(c, sb))
	}
	arch := Calls(gi.Body, "SetPastEthSignatureCheckpoint")
	live := false
	switch len(arch) {
	case 0:
	case 1:
		inLoop := arch[0].Pos() > loop.Body.Pos() && arch[0].End() < loop.Body.End()
		if !inLoop || c13norm(c, arch[0]) != "k.SetPastEthSignatureCheckpoint(ctx,intBatch.BytesToSign)" || arch[0].Pos() < sb.Pos() {
			return fmt.Errorf("initBridgeDataFromGenesis: archive call %q is not `k.SetPastEthSignatureCheckpoint(ctx, intBatch.BytesToSign)` after StoreBatch inside the loop", c13norm(c, arch[0]))
		}
		// unconditional: a direct statement of the loop body
		direct := false
		for _, st := range loop.Body.List {
			if es, ok := st.(*ast.ExprStmt); ok && es.X == ast.Expr(arch[0]) {
				direct = true
			}
		}
		if !direct {
			return fmt.Errorf("initBridgeDataFromGenesis: the archive call is conditional")
		}
		live = true
	default:
		return fmt.Errorf("initBridgeDataFromGenesis: %d archive calls", len(arch))
	}
	c.P("(* x/skyway/keeper/genesis.go: does InitGenesis archive the BytesToSign of the batches it imports *)")
	c.P("Definition genesis_archives_live : bool := %v.", live)
	c.Info("genesis_archives_live", live)
	return nil
}

// c13ConfirmChecks: which bytes MsgConfirmBatch verifies a confirmation against -- the checkpoint
// recomputed for the deployment id in force at confirmation time (true) or the stored BytesToSign
// (false).
func c13ConfirmChecks(c *Ctx) error {
	mf, err := c.Parse("x/skyway/keeper/msg_server.go")
	if err != nil {
		return err
	}
	fd := FindFunc(mf, "msgServer", "ConfirmBatch")
	if fd == nil {
		return fmt.Errorf("msgServer.ConfirmBatch not found")
	}
	cs := Calls(fd.Body, "confirmHandlerCommon")
	if len(cs) != 1 || len(cs[0].Args) != 6 {
		return fmt.Errorf("ConfirmBatch: expected one confirmHandlerCommon(ctx, signer, orch, signature, checkpoint, chain) call")
	}
	arg := c13norm(c, cs[0].Args[4])
	recomputes := false
	switch arg {
	case "batch.BytesToSign":
	case "checkpoint":
		recv, pos := c13CheckpointSource(c, fd, "checkpoint")
		if recv != "batch" || pos > cs[0].Pos() {
			return fmt.Errorf("ConfirmBatch: checkpoint is not batch.GetCheckpoint(..) computed before the check")
		}
		ok := false
		ast.Inspect(fd.Body, func(n ast.Node) bool {
			as, isA := n.(*ast.AssignStmt)
			if isA && len(as.Lhs) >= 1 && c13norm(c, as.Lhs[0]) == "checkpoint" && len(as.Rhs) == 1 &&
				c13norm(c, as.Rhs[0]) == "batch.GetCheckpoint(string(ci.SmartContractUniqueID))" {
				ok = true
			}
			return true
		})
		ciOK := false
		ast.Inspect(fd.Body, func(n ast.Node) bool {
			as, isA := n.(*ast.AssignStmt)
			if isA && len(as.Lhs) >= 1 && c13norm(c, as.Lhs[0]) == "ci" && len(as.Rhs) == 1 &&
				c13norm(c, as.Rhs[0]) == "k.EVMKeeper.GetChainInfo(ctx,batch.ChainReferenceID)" {
				ciOK = true
			}
			return true
		})
		if !ok || !ciOK {
			return fmt.Errorf("ConfirmBatch: checkpoint is not batch.GetCheckpoint(string(ci.SmartContractUniqueID)) with ci the batch's chain info")
		}
		recomputes = true
	default:
		return fmt.Errorf("ConfirmBatch: confirmation verified against %q, neither the recomputed checkpoint nor batch.BytesToSign", arg)
	}
	bOK := false
	ast.Inspect(fd.Body, func(n ast.Node) bool {
		as, isA := n.(*ast.AssignStmt)
		if isA && len(as.Lhs) >= 1 && c13norm(c, as.Lhs[0]) == "batch" && len(as.Rhs) == 1 &&
			strings.HasPrefix(c13norm(c, as.Rhs[0]), "k.GetOutgoingTXBatch(") {
			bOK = true
		}
		return true
	})
	if !bOK {
		return fmt.Errorf("ConfirmBatch: batch is not read with k.GetOutgoingTXBatch")
	}
	c.P("(* x/skyway/keeper/msg_server.go: ConfirmBatch verifies against the checkpoint recomputed for the id in force now *)")
	c.P("Definition confirm_verifies_recomputed : bool := %v.", recomputes)
	c.Info("confirm_verifies_recomputed", recomputes)
	return nil
}

func c13norm(c *Ctx, n ast.Node) string { return strings.Join(strings.Fields(c.Src(n)), "") }

// c13AddEvidence: the per-message evidence list keeps ONE entry per validator (a re-sent proof
// replaces the stored one), whatever its position; VerifyEvidence adds shares once per entry, so
// this is what makes TotalVotes the DISTINCT attesting share.
func c13AddEvidence(c *Ctx) error {
	tf, err := c.Parse("x/consensus/types/consensus.go")
	if err != nil {
		return err
	}
	fd := FindFunc(tf, "QueuedSignedMessage", "AddEvidence")
	if fd == nil {
		return fmt.Errorf("QueuedSignedMessage.AddEvidence not found")
	}
	bad := func(why string) error {
		return fmt.Errorf("QueuedSignedMessage.AddEvidence: %s; expected `for i := range q.Evidence { if q.Evidence[i].ValAddress.Equals(data.ValAddress) { q.Evidence[i].Proof = data.Proof; return } }; q.Evidence = append(q.Evidence, &data)`", why)
	}
	var loops []*ast.RangeStmt
	var others []ast.Stmt
	for _, st := range fd.Body.List {
		switch x := st.(type) {
		case *ast.RangeStmt:
			loops = append(loops, x)
		case *ast.IfStmt:
			// `if q.Evidence == nil { q.Evidence = []*Evidence{} }` is harmless
			if c13norm(c, x.Cond) == "q.Evidence==nil" && x.Else == nil && len(x.Body.List) == 1 && c13norm(c, x.Body.List[0]) == "q.Evidence=[]*Evidence{}" {
				continue
			}
			return bad("unrecognised if statement `" + c13norm(c, x.Cond) + "`")
		default:
			others = append(others, st)
		}
	}
	if len(loops) != 1 {
		return bad(fmt.Sprintf("%d range loops", len(loops)))
	}
	lp := loops[0]
	if c13norm(c, lp.X) != "q.Evidence" || lp.Key == nil || c13norm(c, lp.Key) != "i" || lp.Value != nil || len(lp.Body.List) != 1 {
		return bad("loop is not `for i := range q.Evidence` with a single statement")
	}
	is, ok := lp.Body.List[0].(*ast.IfStmt)
	if !ok || is.Init != nil || is.Else != nil || c13norm(c, is.Cond) != "q.Evidence[i].ValAddress.Equals(data.ValAddress)" || len(is.Body.List) != 2 {
		return bad("loop body is not the same-validator test")
	}
	if c13norm(c, is.Body.List[0]) != "q.Evidence[i].Proof=data.Proof" {
		return bad("same validator: the stored proof is not replaced")
	}
	if rs, ok := is.Body.List[1].(*ast.ReturnStmt); !ok || len(rs.Results) != 0 {
		return bad("same validator: no return after replacing")
	}
	if len(others) != 1 || c13norm(c, others[0]) != "q.Evidence=append(q.Evidence,&data)" {
		return bad("the new entry is not appended exactly once after the loop")
	}
	if lp.Pos() > others[0].Pos() {
		return bad("append before the loop")
	}
	// the queue's AddEvidence goes through it, once
	qf, err := c.Parse("x/consensus/keeper/consensus/consensus.go")
	if err != nil {
		return err
	}
	qa := FindFunc(qf, "Queue", "AddEvidence")
	if qa == nil {
		return fmt.Errorf("Queue.AddEvidence not found")
	}
	if cs := Calls(qa.Body, "AddEvidence"); len(cs) != 1 || c13norm(c, cs[0]) != "msg.AddEvidence(*evidence)" {
		return fmt.Errorf("Queue.AddEvidence: expected exactly one msg.AddEvidence(*evidence)")
	}
	c.P("(* x/consensus/types/consensus.go: QueuedSignedMessage.AddEvidence keeps one entry per validator *)")
	c.P("Definition add_evidence_one_entry_per_validator : bool := true.")
	c.Info("add_evidence", "one entry per validator, re-sent proof replaces")
	return nil
}

// c13SignBytesChannels enumerates every way bytes to sign leave the skyway module or enter a
// batch record: (1) the protobuf types that carry an OutgoingTxBatch (the only message with a
// bytes_to_sign field) and the functions that build them -- the query handlers relayers read what
// to sign from; each must hand out the STORED batch (the value that was archived when it was
// written), untouched; (2) every assignment to a BytesToSign field in x/skyway.  Anything not of
// the recognised shape is an error.
func c13SignBytesChannels(c *Ctx) error {
	pbs, err := c.ParseDir("x/skyway/types")
	if err != nil {
		return err
	}
	// (0) which messages have a sign-bytes field at all
	var signMsgs []string
	carriers := map[string]string{} // struct -> field carrying batches
	mentions := func(e ast.Expr, name string) bool {
		found := false
		ast.Inspect(e, func(n ast.Node) bool {
			if id, ok := n.(*ast.Ident); ok && id.Name == name {
				found = true
			}
			return true
		})
		return found
	}
	for _, f := range pbs {
		if !strings.HasSuffix(c.Fset.Position(f.Pos()).Filename, ".pb.go") {
			continue
		}
		for _, d := range f.Decls {
			gd, ok := d.(*ast.GenDecl)
			if !ok {
				continue
			}
			for _, sp := range gd.Specs {
				ts, ok := sp.(*ast.TypeSpec)
				if !ok {
					continue
				}
				st, ok := ts.Type.(*ast.StructType)
				if !ok {
					continue
				}
				for _, fl := range st.Fields.List {
					for _, nm := range fl.Names {
						if strings.Contains(strings.ToLower(nm.Name), "bytestosign") || strings.Contains(strings.ToLower(nm.Name), "checkpoint") {
							signMsgs = append(signMsgs, ts.Name.Name+"."+nm.Name)
						}
						if ts.Name.Name != "OutgoingTxBatch" && mentions(fl.Type, "OutgoingTxBatch") {
							carriers[ts.Name.Name] = nm.Name
						}
					}
				}
			}
		}
	}
	if len(signMsgs) != 1 || signMsgs[0] != "OutgoingTxBatch.BytesToSign" {
		return fmt.Errorf("sign-bytes fields in x/skyway/types/*.pb.go: %v, expected only OutgoingTxBatch.BytesToSign", signMsgs)
	}
	wantCarriers := map[string]string{
		"QueryLastPendingBatchRequestByAddrResponse":    "LastPendingBatchRequestByAddr",
		"QueryOutgoingTxBatchesResponse":                "OutgoingTxBatches",
		"QueryBatchRequestByNonceResponse":              "BatchRequestByNonce",
		"QueryLastPendingBatchForGasEstimationResponse": "LastPendingBatchForGasEstimation",
		"GenesisState":                                  "ExportGenesis",
	}
	for k := range carriers {
		if _, ok := wantCarriers[k]; !ok {
			return fmt.Errorf("message %s carries OutgoingTxBatch (bytes to sign) and is not a known channel", k)
		}
	}
	for k := range wantCarriers {
		if _, ok := carriers[k]; !ok {
			return fmt.Errorf("message %s no longer carries OutgoingTxBatch: channel list out of date", k)
		}
	}
	// (1) who builds a carrier
	kfs, err := c.ParseDir("x/skyway/keeper")
	if err != nil {
		return err
	}
	mfs, err := c.ParseDir("x/skyway")
	if err != nil {
		return err
	}
	builders := map[string][]*ast.FuncDecl{}
	for _, f := range append(append([]*ast.File{}, kfs...), mfs...) {
		if strings.Contains(c.Fset.Position(f.Pos()).Filename, "verif_hooks") {
			continue
		}
		for _, d := range f.Decls {
			fd, ok := d.(*ast.FuncDecl)
			if !ok || fd.Body == nil {
				continue
			}
			ast.Inspect(fd.Body, func(n ast.Node) bool {
				cl, ok := n.(*ast.CompositeLit)
				if !ok {
					return true
				}
				if se, ok := cl.Type.(*ast.SelectorExpr); ok {
					if _, isC := carriers[se.Sel.Name]; isC {
						// a literal that does not set the batch field carries nothing
						for _, el := range cl.Elts {
							if kv, ok := el.(*ast.KeyValueExpr); ok && c13norm(c, kv.Key) == carriers[se.Sel.Name] {
								builders[se.Sel.Name] = append(builders[se.Sel.Name], fd)
								return true
							}
						}
					}
				}
				return true
			})
		}
	}
	var handlers []string
	for _, msg := range SortedSet(func() map[string]bool {
		m := map[string]bool{}
		for k := range wantCarriers {
			m[k] = true
		}
		return m
	}()) {
		want := wantCarriers[msg]
		fds := builders[msg]
		if len(fds) == 0 {
			return fmt.Errorf("nobody builds %s: channel list out of date", msg)
		}
		for _, fd := range fds {
			if fd.Name.Name != want {
				return fmt.Errorf("%s is built by %s, expected only %s", msg, fd.Name.Name, want)
			}
		}
		fd := fds[0]
		if msg == "GenesisState" {
			continue // chain export, not read by relayers; C11's subject
		}
		if err := c13ServesStored(c, fd, carriers[msg]); err != nil {
			return err
		}
		handlers = append(handlers, fd.Name.Name)
	}
	// (2) writers of a BytesToSign field anywhere in x/skyway (non-test, non-pb, hooks excluded)
	tfs, err := c.ParseDir("x/skyway/types")
	if err != nil {
		return err
	}
	var writes []string
	for _, f := range append(append(append([]*ast.File{}, kfs...), mfs...), tfs...) {
		fn := c.Fset.Position(f.Pos()).Filename
		if strings.HasSuffix(fn, ".pb.go") || strings.HasSuffix(fn, ".pb.gw.go") || strings.Contains(fn, "verif_hooks") {
			continue
		}
		for _, d := range f.Decls {
			fd, ok := d.(*ast.FuncDecl)
			if !ok || fd.Body == nil {
				continue
			}
			ast.Inspect(fd.Body, func(n ast.Node) bool {
				switch x := n.(type) {
				case *ast.AssignStmt:
					for i, l := range x.Lhs {
						if se, ok := l.(*ast.SelectorExpr); ok && se.Sel.Name == "BytesToSign" {
							r := "?"
							if i < len(x.Rhs) {
								r = c13norm(c, x.Rhs[i])
							}
							writes = append(writes, fd.Name.Name+":"+c13norm(c, l)+"="+r)
						}
					}
				case *ast.KeyValueExpr:
					if id, ok := x.Key.(*ast.Ident); ok && id.Name == "BytesToSign" {
						writes = append(writes, fd.Name.Name+":{"+c13norm(c, x.Value)+"}")
					}
				}
				return true
			})
		}
	}
	sort.Strings(writes)
	wantWrites := []string{
		"NewInternalOutgingTxBatch:ret.BytesToSign=bytesToSign",
		"NewInternalOutgingTxBatchFromExternalBatch:{batch.BytesToSign}",
		"ToExternal:{i.BytesToSign}",
		"ToExternalArray:{val.BytesToSign}",
		"UpdateBatchGasEstimate:entity.BytesToSign=bts",
		"refreshOpenBatchCheckpoints:batch.BytesToSign=bts", // absent on trees before the re-issue on activation
	}
	if strings.Join(writes, " | ") != strings.Join(wantWrites, " | ") && strings.Join(writes, " | ") != strings.Join(wantWrites[:len(wantWrites)-1], " | ") {
		return fmt.Errorf("writers of a BytesToSign field in x/skyway: %v, expected %v (a new writer publishes sign bytes the model does not know)", writes, wantWrites)
	}
	sort.Strings(handlers)
	c.P("(* x/skyway/keeper/grpc_query.go: every query that hands out batches serves the stored record untouched *)")
	c.P("Definition batch_queries : list string := %s.", CoqStrList(handlers))
	c.P("Definition queries_serve_stored : bool := true.")
	c.Info("batch_queries", handlers)
	return nil
}

// c13ServesStored: in a query handler the batches put into the response are the records read from
// the store (IterateOutgoingTxBatches callback parameter / GetOutgoingTXBatch result), converted
// with ToExternal / ToExternalArray and nothing else.
func c13ServesStored(c *Ctx, fd *ast.FuncDecl, field string) error {
	name := fd.Name.Name
	bad := func(why string) error {
		return fmt.Errorf("%s: %s -- the batches it serves are not recognisably the stored records", name, why)
	}
	// names bound to stored records
	stored := map[string]bool{}
	for _, ce := range Calls(fd.Body, "IterateOutgoingTxBatches") {
		if len(ce.Args) != 2 {
			return bad("IterateOutgoingTxBatches call shape")
		}
		fl, ok := ce.Args[1].(*ast.FuncLit)
		if !ok || len(fl.Type.Params.List) != 2 || len(fl.Type.Params.List[1].Names) != 1 {
			return bad("IterateOutgoingTxBatches callback shape")
		}
		stored[fl.Type.Params.List[1].Names[0].Name] = true
	}
	ast.Inspect(fd.Body, func(n ast.Node) bool {
		as, ok := n.(*ast.AssignStmt)
		if ok && len(as.Rhs) == 1 && len(as.Lhs) >= 1 {
			if ce, ok := as.Rhs[0].(*ast.CallExpr); ok && c13norm(c, ce.Fun) == "k.GetOutgoingTXBatch" {
				stored[c13norm(c, as.Lhs[0])] = true
			}
		}
		return true
	})
	if len(stored) == 0 {
		return bad("no read of the batch store found")
	}
	// collections of stored records
	coll := map[string]string{} // var -> "internal" | "external"
	var firstErr error
	fail := func(why string) {
		if firstErr == nil {
			firstErr = bad(why)
		}
	}
	okElem := func(e ast.Expr) string {
		s := c13norm(c, e)
		for v := range stored {
			if s == v {
				return "internal"
			}
			if s == v+".ToExternal()" {
				return "external"
			}
		}
		return ""
	}
	ast.Inspect(fd.Body, func(n ast.Node) bool {
		switch x := n.(type) {
		case *ast.AssignStmt:
			for i, l := range x.Lhs {
				ls := c13norm(c, l)
				// nobody may assign to a stored record or one of its fields
				root := ls
				if j := strings.IndexAny(root, ".["); j >= 0 {
					root = root[:j]
				}
				if stored[root] {
					if ce, ok := x.Rhs[0].(*ast.CallExpr); ok && len(x.Rhs) == 1 && c13norm(c, ce.Fun) == "k.GetOutgoingTXBatch" && ls == root {
						continue
					}
					fail("assignment to the stored record `" + ls + "`")
				}
				if i >= len(x.Rhs) {
					continue
				}
				if ce, ok := x.Rhs[i].(*ast.CallExpr); ok {
					if id, ok := ce.Fun.(*ast.Ident); ok && id.Name == "append" {
						if len(ce.Args) != 2 || c13norm(c, ce.Args[0]) != ls {
							fail("append shape `" + c13norm(c, x) + "`")
							continue
						}
						kind := okElem(ce.Args[1])
						if kind == "" {
							fail("appends `" + c13norm(c, ce.Args[1]) + "`, not a stored record / its ToExternal()")
							continue
						}
						if old, ok := coll[ls]; ok && old != kind {
							fail("mixed collection " + ls)
						}
						coll[ls] = kind
					}
					if se, ok := ce.Fun.(*ast.SelectorExpr); ok && se.Sel.Name == "ToExternalArray" {
						if coll[c13norm(c, se.X)] != "internal" {
							fail("ToExternalArray of `" + c13norm(c, se.X) + "`, not a collection of stored records")
							continue
						}
						coll[ls] = "external"
					}
				}
			}
		case *ast.CallExpr:
			if se, ok := x.Fun.(*ast.SelectorExpr); ok && se.Sel.Name == "GetCheckpoint" {
				fail("computes a checkpoint")
			}
		}
		return true
	})
	if firstErr != nil {
		return firstErr
	}
	// every response literal's batch field
	n := 0
	ast.Inspect(fd.Body, func(nd ast.Node) bool {
		cl, ok := nd.(*ast.CompositeLit)
		if !ok {
			return true
		}
		se, ok := cl.Type.(*ast.SelectorExpr)
		if !ok || !strings.HasPrefix(se.Sel.Name, "Query") || !strings.HasSuffix(se.Sel.Name, "Response") {
			return true
		}
		for _, el := range cl.Elts {
			kv, ok := el.(*ast.KeyValueExpr)
			if !ok || c13norm(c, kv.Key) != field {
				continue
			}
			v := c13norm(c, kv.Value)
			switch {
			case v == "nil", v == "[]types.OutgoingTxBatch{}":
			case coll[v] == "external":
				n++
			case okElem(kv.Value) == "external":
				n++
			default:
				fail("response field " + field + " = `" + v + "`")
			}
		}
		return true
	})
	if firstErr != nil {
		return firstErr
	}
	if n == 0 {
		return bad("no response carrying stored batches found")
	}
	return nil
}

// c13Reissue: skyway's handler of EVMActivatedChainEvent re-issues every open batch of the chain
// for the id the event carries (refreshOpenBatchCheckpoints): the recomputed checkpoint is stored
// as BytesToSign AND archived.  Absent function and absent call = a tree that does not re-issue
// (false); any other shape is an error.  Also: where evm publishes the event.
func c13Reissue(c *Ctx, bf *ast.File) error {
	kf, err := c.Parse("x/skyway/keeper/keeper.go")
	if err != nil {
		return err
	}
	fd := FindFunc(bf, "Keeper", "refreshOpenBatchCheckpoints")
	var sub *ast.CallExpr
	for _, ce := range Calls(kf, "refreshOpenBatchCheckpoints") {
		sub = ce
	}
	if fd == nil && sub == nil {
		c.P("(* x/skyway/keeper: no re-issue of open batches when a compass is activated *)")
		c.P("Definition redeploy_reissues_and_archives : bool := false.")
		c.Info("redeploy_reissues_and_archives", false)
		return nil
	}
	bad := func(why string) error {
		return fmt.Errorf("refreshOpenBatchCheckpoints: %s", why)
	}
	if fd == nil || sub == nil {
		return bad("function and its call from the EVMActivatedChain subscription must both exist")
	}
	if c13norm(c, sub) != "k.refreshOpenBatchCheckpoints(ctx,e.ChainReferenceID,string(e.SmartContractUniqueID))" {
		return bad("called as " + c13norm(c, sub))
	}
	// the call sits in the handler subscribed to EVMActivatedChain
	inSub := false
	for _, ce := range Calls(kf, "Subscribe") {
		if strings.HasPrefix(c13norm(c, ce.Fun), "eventbus.EVMActivatedChain()") && sub.Pos() > ce.Pos() && sub.End() < ce.End() {
			inSub = true
		}
	}
	if !inSub {
		return bad("not called from the eventbus.EVMActivatedChain() subscription")
	}
	if len(fd.Type.Params.List) != 2 || len(fd.Type.Params.List[1].Names) != 2 || fd.Type.Params.List[1].Names[0].Name != "chainReferenceID" || fd.Type.Params.List[1].Names[1].Name != "compassID" {
		return bad("parameters are not (c context.Context, chainReferenceID, compassID string)")
	}
	var loop *ast.RangeStmt
	for _, st := range fd.Body.List {
		if rs, ok := st.(*ast.RangeStmt); ok && c13norm(c, rs.X) == "batches" {
			loop = rs
		}
	}
	if loop == nil || loop.Value == nil || c13norm(c, loop.Value) != "batch" {
		return bad("`for _, batch := range batches` not found")
	}
	srcOK := false
	ast.Inspect(fd.Body, func(n ast.Node) bool {
		if as, ok := n.(*ast.AssignStmt); ok && len(as.Lhs) >= 1 && c13norm(c, as.Lhs[0]) == "batches" && len(as.Rhs) == 1 && c13norm(c, as.Rhs[0]) == "k.GetOutgoingTxBatches(ctx)" {
			srcOK = true
		}
		return true
	})
	if !srcOK {
		return bad("batches is not k.GetOutgoingTxBatches(ctx)")
	}
	want := []string{
		"ifbatch.ChainReferenceID!=chainReferenceID{continue}",
		"bts,err:=batch.GetCheckpoint(compassID)",
		"iferr!=nil{returnerr}",
		"ifbytes.Equal(bts,batch.BytesToSign){continue}",
		"batch.BytesToSign=bts",
		"k.SetPastEthSignatureCheckpoint(ctx,bts)",
		"externalBatch:=batch.ToExternal()",
		"store.Set(types.GetOutgoingTxBatchKey(batch.TokenContract,batch.BatchNonce),k.cdc.MustMarshal(&externalBatch))",
		"iferr:=k.DeleteBatchConfirms(ctx,batch);err!=nil{returnerr}",
	}
	if len(loop.Body.List) != len(want) {
		return bad(fmt.Sprintf("loop body has %d statements, expected %d", len(loop.Body.List), len(want)))
	}
	for i, st := range loop.Body.List {
		if got := c13norm(c, st); got != want[i] {
			return bad(fmt.Sprintf("loop statement %d is `%s`, expected `%s`", i, got, want[i]))
		}
	}
	c.P("(* x/skyway/keeper: on EVMActivatedChainEvent every open batch of the chain is re-issued for the event's id, stored and archived *)")
	c.P("Definition redeploy_reissues_and_archives : bool := true.")
	c.Info("redeploy_reissues_and_archives", true)
	// evm side: the id in force is written by ActivateChainReferenceID only, which publishes the event on every nil return
	ef, err := c.Parse("x/evm/keeper/keeper.go")
	if err != nil {
		return err
	}
	efs, err := c.ParseDir("x/evm/keeper")
	if err != nil {
		return err
	}
	var idWriters []string
	for _, f := range efs {
		if strings.Contains(c.Fset.Position(f.Pos()).Filename, "verif_hooks") {
			continue
		}
		for _, d := range f.Decls {
			fdd, ok := d.(*ast.FuncDecl)
			if !ok || fdd.Body == nil {
				continue
			}
			ast.Inspect(fdd.Body, func(n ast.Node) bool {
				if as, ok := n.(*ast.AssignStmt); ok {
					for _, l := range as.Lhs {
						if se, ok := l.(*ast.SelectorExpr); ok && se.Sel.Name == "SmartContractUniqueID" {
							idWriters = append(idWriters, fdd.Name.Name)
						}
					}
				}
				return true
			})
		}
	}
	if strings.Join(idWriters, ",") != "ActivateChainReferenceID" {
		return fmt.Errorf("x/evm/keeper: SmartContractUniqueID is assigned in %v, expected ActivateChainReferenceID only", idWriters)
	}
	act := FindFunc(ef, "Keeper", "ActivateChainReferenceID")
	if act == nil {
		return fmt.Errorf("ActivateChainReferenceID not found")
	}
	pubs := Calls(act.Body, "Publish")
	if len(pubs) != 1 || !strings.HasPrefix(c13norm(c, pubs[0]), "eventbus.EVMActivatedChain().Publish(ctx,eventbus.EVMActivatedChainEvent{ChainReferenceID:chainReferenceID,SmartContractUniqueID:smartContractUniqueID") {
		return fmt.Errorf("ActivateChainReferenceID: publication of EVMActivatedChainEvent{ChainReferenceID: chainReferenceID, SmartContractUniqueID: smartContractUniqueID} not recognised")
	}
	// the early return for a contract version not above the active one
	var early *ast.IfStmt
	ast.Inspect(act.Body, func(n ast.Node) bool {
		if is, ok := n.(*ast.IfStmt); ok && c13norm(c, is.Cond) == "chainInfo.GetActiveSmartContractID()>=smartContract.GetId()" && c13norm(c, is.Body) == "{returnnil}" {
			early = is
		}
		return true
	})
	// is the publication reached on that nil return?  Two recognised shapes: (old) the deferred
	// function publishes whenever retErr == nil; (fixed) it publishes only in the final else of
	// `if retErr != nil {..} else if !activated {..} else { Publish }`, with `activated := false`
	// at the top and the only `activated = true` after the early return.
	guarded := false
	ast.Inspect(act.Body, func(n ast.Node) bool {
		is, ok := n.(*ast.IfStmt)
		if !ok || c13norm(c, is.Cond) != "!activated" {
			return true
		}
		if eb, ok := is.Else.(*ast.BlockStmt); ok && pubs[0].Pos() > eb.Pos() && pubs[0].End() < eb.End() && len(Calls(is.Body, "Publish")) == 0 {
			guarded = true
		}
		return true
	})
	stale := early != nil
	if guarded {
		nInit, nSet := 0, 0
		okPos := true
		ast.Inspect(act.Body, func(n ast.Node) bool {
			as, ok := n.(*ast.AssignStmt)
			if !ok || len(as.Lhs) != 1 || c13norm(c, as.Lhs[0]) != "activated" {
				return true
			}
			switch c13norm(c, as) {
			case "activated:=false":
				nInit++
			case "activated=true":
				nSet++
				if early == nil || as.Pos() < early.End() {
					okPos = false
				}
			default:
				okPos = false
			}
			return true
		})
		if nInit != 1 || nSet != 1 || !okPos {
			return fmt.Errorf("ActivateChainReferenceID: the `activated` flag guarding the event is not `activated := false` once and `activated = true` once after the early return")
		}
		stale = false
	} else if func() bool {
		used := false
		ast.Inspect(act.Body, func(n ast.Node) bool {
			if id, ok := n.(*ast.Ident); ok && id.Name == "activated" {
				used = true
			}
			return true
		})
		return used
	}() {
		return fmt.Errorf("ActivateChainReferenceID: unrecognised use of an `activated` flag around the event publication")
	}
	c.P("Definition stale_activation_still_publishes_event : bool := %v.", stale)
	c.Info("stale_activation_still_publishes_event", stale)
	return nil
}

// c13EvidenceLookup: the validator the evidence handler jails is found through
// GetValidatorByEthAddress -> EVMKeeper.GetValidatorAddressByEthAddress, which must consult the
// LIVE external-chain-info registry (Valset.GetAllChainInfos) and nothing else: first entry whose
// chain and address match.  A read of any other store (e.g. the valset snapshot, rebuilt only
// every 50 blocks) is an unknown shape.
func c13EvidenceLookup(c *Ctx) error {
	ef, err := c.Parse("x/evm/keeper/keeper.go")
	if err != nil {
		return err
	}
	fd := FindFunc(ef, "Keeper", "GetValidatorAddressByEthAddress")
	if fd == nil {
		return fmt.Errorf("GetValidatorAddressByEthAddress not found")
	}
	bad := func(why string) error {
		return fmt.Errorf("GetValidatorAddressByEthAddress: %s; expected a single walk over k.Valset.GetAllChainInfos(ctx) returning the first entry with the chain and the address", why)
	}
	var reads []string
	ast.Inspect(fd.Body, func(n ast.Node) bool {
		if ce, ok := n.(*ast.CallExpr); ok {
			f := c13norm(c, ce.Fun)
			if strings.HasPrefix(f, "k.") {
				reads = append(reads, f)
			}
		}
		return true
	})
	if strings.Join(reads, ",") != "k.Valset.GetAllChainInfos" {
		return bad(fmt.Sprintf("keeper reads %v", reads))
	}
	if len(fd.Body.List) != 4 {
		return bad(fmt.Sprintf("%d top-level statements", len(fd.Body.List)))
	}
	if c13norm(c, fd.Body.List[0]) != "validatorsExternalAccounts,err:=k.Valset.GetAllChainInfos(ctx)" {
		return bad("first statement `" + c13norm(c, fd.Body.List[0]) + "`")
	}
	outer, ok := fd.Body.List[2].(*ast.RangeStmt)
	if !ok || c13norm(c, outer.X) != "validatorsExternalAccounts" || len(outer.Body.List) != 1 {
		return bad("outer loop")
	}
	inner, ok := outer.Body.List[0].(*ast.RangeStmt)
	if !ok || c13norm(c, inner.X) != "validatorExternalAccounts.ExternalChainInfo" || len(inner.Body.List) != 1 {
		return bad("inner loop")
	}
	is, ok := inner.Body.List[0].(*ast.IfStmt)
	if !ok || c13norm(c, is.Cond) != "chainInfo.GetChainReferenceID()==chainReferenceId&&ethAddr.GetAddress().String()==chainInfo.GetAddress()" ||
		c13norm(c, is.Body) != "{returnvalidatorExternalAccounts.Address,true,nil}" {
		return bad("match test / result")
	}
	if rs, ok := fd.Body.List[3].(*ast.ReturnStmt); !ok || len(rs.Results) != 0 {
		return bad("no plain return (not found) at the end")
	}
	// the handler goes through it
	kf, err := c.Parse("x/skyway/keeper/keeper_delegate_key.go")
	if err != nil {
		return err
	}
	gv := FindFunc(kf, "Keeper", "GetValidatorByEthAddress")
	if gv == nil || len(Calls(gv.Body, "GetValidatorAddressByEthAddress")) != 1 {
		return fmt.Errorf("skyway GetValidatorByEthAddress does not go through EVMKeeper.GetValidatorAddressByEthAddress once")
	}
	hf, err := c.Parse("x/skyway/keeper/evidence.go")
	if err != nil {
		return err
	}
	eh := FindFunc(hf, "Keeper", "checkBadSignatureEvidenceInternal")
	if eh == nil || len(Calls(eh.Body, "GetValidatorByEthAddress")) != 1 {
		return fmt.Errorf("checkBadSignatureEvidenceInternal does not look the validator up with GetValidatorByEthAddress once")
	}
	c.P("(* x/evm/keeper/keeper.go: the evidence handler's validator lookup reads the live external-chain-info registry only *)")
	c.P("Definition evidence_lookup_is_live_registry : bool := true.")
	return nil
}

// c13EvidenceListWriters enumerates every statement in x/ (non-test, non-generated) that writes the
// Evidence list of a queued message -- an assignment to a field named Evidence, to an element of it,
// or an `Evidence:` key in a QueuedSignedMessage literal.  Only QueuedSignedMessage.AddEvidence may
// (its shape is checked by c13AddEvidence): a clearing or rewriting assignment anywhere else is an
// unknown shape.
func c13EvidenceListWriters(c *Ctx) error {
	var dirs []string
	root := filepath.Join(c.Repo, "x")
	err := filepath.WalkDir(root, func(p string, d os.DirEntry, err error) error {
		if err == nil && d.IsDir() {
			rel, _ := filepath.Rel(c.Repo, p)
			dirs = append(dirs, rel)
		}
		return nil
	})
	if err != nil {
		return err
	}
	var writes []string
	for _, dir := range dirs {
		fs, err := c.ParseDir(dir)
		if err != nil {
			return err
		}
		for _, f := range fs {
			fn := c.Fset.Position(f.Pos()).Filename
			if strings.HasSuffix(fn, ".pb.go") || strings.HasSuffix(fn, ".pb.gw.go") || strings.Contains(fn, "verif_hooks") || strings.Contains(fn, "/mocks/") {
				continue
			}
			for _, d := range f.Decls {
				fd, ok := d.(*ast.FuncDecl)
				if !ok || fd.Body == nil {
					continue
				}
				ast.Inspect(fd.Body, func(n ast.Node) bool {
					switch x := n.(type) {
					case *ast.AssignStmt:
						for i, l := range x.Lhs {
							ls := c13norm(c, l)
							if strings.HasSuffix(ls, ".Evidence") || strings.Contains(ls, ".Evidence[") {
								r := "?"
								if i < len(x.Rhs) {
									r = c13norm(c, x.Rhs[i])
								}
								writes = append(writes, filepath.Base(fn)+":"+fd.Name.Name+":"+ls+"="+r)
							}
						}
					case *ast.CompositeLit:
						if strings.Contains(c13norm(c, x.Type), "QueuedSignedMessage") {
							for _, el := range x.Elts {
								if kv, ok := el.(*ast.KeyValueExpr); ok && c13norm(c, kv.Key) == "Evidence" {
									writes = append(writes, filepath.Base(fn)+":"+fd.Name.Name+":{Evidence:"+c13norm(c, kv.Value)+"}")
								}
							}
						}
					}
					return true
				})
			}
		}
	}
	sort.Strings(writes)
	want := []string{
		"consensus.go:AddEvidence:q.Evidence=[]*Evidence{}",
		"consensus.go:AddEvidence:q.Evidence=append(q.Evidence,&data)",
		"consensus.go:AddEvidence:q.Evidence[i].Proof=data.Proof",
	}
	if strings.Join(writes, " | ") != strings.Join(want, " | ") {
		return fmt.Errorf("writers of a queued message's Evidence list in x/: %v, expected only QueuedSignedMessage.AddEvidence %v", writes, want)
	}
	c.P("(* x/: the Evidence list of a queued message is written by QueuedSignedMessage.AddEvidence only *)")
	c.P("Definition evidence_list_written_only_by_add_evidence : bool := true.")
	return nil
}
