package main

import (
	"fmt"
	"go/ast"
	"go/token"
	"strings"
)

// C13: what archives a checkpoint (BuildOutgoingTXBatch, UpdateBatchGasEstimate), that the
// bad-signature evidence handler rejects archived checkpoints before it recovers a signer, which
// batch fields the checkpoint covers, the dummy gas estimate, and the pruning rules of the
// consensus keeper (undelivered test, 10 % floor, jail loop over the snapshot).
func init() { extractors["C13"] = extractC13 }

// c13ArchiveOf reports how fd archives a checkpoint: the source of the argument given to
// SetPastEthSignatureCheckpoint ("" when there is no call), and the position of the call.
func c13ArchiveCalls(c *Ctx, fd *ast.FuncDecl) []*ast.CallExpr {
	return Calls(fd.Body, "SetPastEthSignatureCheckpoint")
}

// c13AssignedFrom finds `name, err := <recv>.GetCheckpoint(...)` / `name, err = ...` in fd and
// returns the receiver's source text.
func c13CheckpointSource(c *Ctx, fd *ast.FuncDecl, name string) (string, token.Pos) {
	recv := ""
	var pos token.Pos
	ast.Inspect(fd.Body, func(n ast.Node) bool {
		as, ok := n.(*ast.AssignStmt)
		if !ok || len(as.Lhs) < 1 || len(as.Rhs) != 1 || c.Src(as.Lhs[0]) != name {
			return true
		}
		ce, ok := as.Rhs[0].(*ast.CallExpr)
		if !ok {
			return true
		}
		se, ok := ce.Fun.(*ast.SelectorExpr)
		if ok && se.Sel.Name == "GetCheckpoint" {
			recv = c.Src(se.X)
			pos = as.Pos()
		}
		return true
	})
	return recv, pos
}

func extractC13(c *Ctx) error {
	// ---- dummy estimate and checkpoint fields ----
	tf, err := c.Parse("x/skyway/types/batch.go")
	if err != nil {
		return err
	}
	dv, ok := ConstValue(c, []*ast.File{tf}, "cConservativeDummyGasEstimate")
	if !ok {
		return fmt.Errorf("cConservativeDummyGasEstimate not found")
	}
	dv = strings.ReplaceAll(dv, "_", "")
	c.P("(* x/skyway/types/batch.go *)")
	c.P("Definition dummy_gas_estimate : Z := %s.", dv)
	gc := FindFunc(tf, "InternalOutgoingTxBatch", "GetCheckpoint")
	if gc == nil {
		return fmt.Errorf("InternalOutgoingTxBatch.GetCheckpoint not found")
	}
	packs := Calls(gc.Body, "Pack")
	if len(packs) != 1 {
		return fmt.Errorf("GetCheckpoint: expected exactly one arguments.Pack call, found %d", len(packs))
	}
	var fields []string
	for _, a := range packs[0].Args {
		fields = append(fields, strings.Join(strings.Fields(c.Src(a)), " "))
	}
	c.P("Definition checkpoint_fields : list string := %s.", CoqStrList(fields))
	// the estimate that is packed: dummy unless GasEstimate != 0
	usesDummy := false
	ast.Inspect(gc.Body, func(n ast.Node) bool {
		is, ok := n.(*ast.IfStmt)
		if ok && strings.Join(strings.Fields(c.Src(is.Cond)), "") == "i.GasEstimate!=0" && strings.Contains(c.Src(is.Body), "estimate.SetUint64(i.GasEstimate)") {
			usesDummy = true
		}
		return true
	})
	if !usesDummy || !strings.Contains(c.Src(gc.Body), "estimate := big.NewInt(cConservativeDummyGasEstimate)") {
		return fmt.Errorf("GetCheckpoint: `estimate := big.NewInt(cConservativeDummyGasEstimate); if i.GasEstimate != 0 { estimate.SetUint64(i.GasEstimate) }` not recognised")
	}
	c.P("Definition estimate_zero_means_dummy : bool := true.")
	c.Info("checkpoint_fields", fields)

	// ---- who archives ----
	bf, err := c.Parse("x/skyway/keeper/batch.go")
	if err != nil {
		return err
	}
	archives := func(fn, wantRecv string, needBytesToSign bool) (bool, error) {
		fd := FindFunc(bf, "Keeper", fn)
		if fd == nil {
			return false, fmt.Errorf("%s not found", fn)
		}
		calls := c13ArchiveCalls(c, fd)
		if len(calls) == 0 {
			return false, nil
		}
		if len(calls) > 1 || len(calls[0].Args) != 2 {
			return false, fmt.Errorf("%s: unexpected SetPastEthSignatureCheckpoint call shape", fn)
		}
		arg := c.Src(calls[0].Args[1])
		recv, pos := c13CheckpointSource(c, fd, arg)
		if recv != wantRecv {
			return false, fmt.Errorf("%s: archived value %q is not `%s.GetCheckpoint(..)` (got receiver %q)", fn, arg, wantRecv, recv)
		}
		if pos > calls[0].Pos() {
			return false, fmt.Errorf("%s: archived value %q is computed after it is archived", fn, arg)
		}
		if needBytesToSign {
			// the archived value must be the one published as BytesToSign, computed after the estimate is set
			okAssign := false
			var estPos token.Pos
			ast.Inspect(fd.Body, func(n ast.Node) bool {
				as, ok := n.(*ast.AssignStmt)
				if !ok || len(as.Lhs) != 1 || len(as.Rhs) != 1 {
					return true
				}
				if c.Src(as.Lhs[0]) == wantRecv+".BytesToSign" && c.Src(as.Rhs[0]) == arg {
					okAssign = true
				}
				if c.Src(as.Lhs[0]) == wantRecv+".GasEstimate" {
					estPos = as.Pos()
				}
				return true
			})
			if !okAssign {
				return false, fmt.Errorf("%s: archived value %q is not the one stored as %s.BytesToSign", fn, arg, wantRecv)
			}
			if estPos == token.NoPos || estPos > pos {
				return false, fmt.Errorf("%s: checkpoint is not recomputed after the estimate is set", fn)
			}
		}
		return true, nil
	}
	ba, err := archives("BuildOutgoingTXBatch", "batch", false)
	if err != nil {
		return err
	}
	ra, err := archives("UpdateBatchGasEstimate", "entity", true)
	if err != nil {
		return err
	}
	c.P("(* x/skyway/keeper/batch.go: which functions archive the checkpoint they publish *)")
	c.P("Definition build_archives : bool := %v.", ba)
	c.P("Definition reissue_archives : bool := %v.", ra)
	c.Info("build_archives", ba)
	c.Info("reissue_archives", ra)
	// UpdateBatchGasEstimate refuses a second estimate
	ub := FindFunc(bf, "Keeper", "UpdateBatchGasEstimate")
	once := false
	ast.Inspect(ub.Body, func(n ast.Node) bool {
		is, ok := n.(*ast.IfStmt)
		if ok && strings.Join(strings.Fields(c.Src(is.Cond)), "") == "entity.GasEstimate>0" {
			if len(is.Body.List) == 1 {
				if _, ok := is.Body.List[0].(*ast.ReturnStmt); ok {
					once = true
				}
			}
		}
		return true
	})
	c.P("Definition estimate_set_once : bool := %v.", once)

	// ---- evidence handler ----
	ef, err := c.Parse("x/skyway/keeper/evidence.go")
	if err != nil {
		return err
	}
	eh := FindFunc(ef, "Keeper", "checkBadSignatureEvidenceInternal")
	if eh == nil {
		return fmt.Errorf("checkBadSignatureEvidenceInternal not found")
	}
	rejects := false
	var rejectPos, recoverPos, jailPos token.Pos
	ast.Inspect(eh.Body, func(n ast.Node) bool {
		switch x := n.(type) {
		case *ast.IfStmt:
			if strings.Join(strings.Fields(c.Src(x.Cond)), "") == "k.GetPastEthSignatureCheckpoint(ctx,checkpoint)" && len(x.Body.List) == 1 {
				if rs, ok := x.Body.List[0].(*ast.ReturnStmt); ok && len(rs.Results) == 1 && c.Src(rs.Results[0]) != "nil" {
					rejects = true
					rejectPos = x.Pos()
				}
			}
		case *ast.CallExpr:
			s := c.Src(x.Fun)
			if s == "types.EthAddressFromSignature" {
				if len(x.Args) != 2 || c.Src(x.Args[0]) != "checkpoint" {
					return true
				}
				recoverPos = x.Pos()
			}
			if s == "k.StakingKeeper.Jail" {
				jailPos = x.Pos()
			}
		}
		return true
	})
	cpRecv, _ := c13CheckpointSource(c, eh, "checkpoint")
	if cpRecv != "subject" {
		return fmt.Errorf("checkBadSignatureEvidenceInternal: checkpoint is not subject.GetCheckpoint(..)")
	}
	if recoverPos == token.NoPos || jailPos == token.NoPos {
		return fmt.Errorf("checkBadSignatureEvidenceInternal: EthAddressFromSignature(checkpoint, ..) / StakingKeeper.Jail not recognised")
	}
	if rejects && !(rejectPos < recoverPos && recoverPos < jailPos) {
		return fmt.Errorf("checkBadSignatureEvidenceInternal: archive test / recover / jail are not in the modelled order")
	}
	c.P("(* x/skyway/keeper/evidence.go *)")
	c.P("Definition evidence_rejects_archived : bool := %v.", rejects)
	c.Info("evidence_rejects_archived", rejects)

	// ---- pruning ----
	cf, err := c.Parse("x/consensus/keeper/concensus_keeper.go")
	if err != nil {
		return err
	}
	jn := FindFunc(cf, "Keeper", "jailValidatorsIfNecessary")
	jm := FindFunc(cf, "Keeper", "jailValidatorsWhichMissedAttestation")
	if jn == nil || jm == nil {
		return fmt.Errorf("jailValidatorsIfNecessary / jailValidatorsWhichMissedAttestation not found")
	}
	undel := ""
	ast.Inspect(jn.Body, func(n ast.Node) bool {
		is, ok := n.(*ast.IfStmt)
		if ok && strings.Contains(c.Src(is.Body), "punishValidatorForMissingRelay") {
			undel = strings.Join(strings.Fields(c.Src(is.Cond)), " ")
		}
		return true
	})
	if undel != "msg.GetPublicAccessData() == nil && msg.GetErrorData() == nil" {
		return fmt.Errorf("jailValidatorsIfNecessary: undelivered test %q not recognised", undel)
	}
	c.P("(* x/consensus/keeper/concensus_keeper.go *)")
	c.P("Definition undelivered_is_no_public_and_no_error : bool := true.")
	factor, strict := "", ""
	for _, ce := range Calls(jm.Body, "LT") {
		s := strings.Join(strings.Fields(c.Src(ce)), "")
		if strings.HasPrefix(s, "r.TotalVotes.Mul(math.NewInt(") && strings.HasSuffix(s, ")).LT(r.TotalShares)") {
			factor = strings.TrimSuffix(strings.TrimPrefix(s, "r.TotalVotes.Mul(math.NewInt("), ")).LT(r.TotalShares)")
			strict = "true"
		}
	}
	for _, ce := range Calls(jm.Body, "LTE") {
		s := strings.Join(strings.Fields(c.Src(ce)), "")
		if strings.HasPrefix(s, "r.TotalVotes.Mul(math.NewInt(") && strings.HasSuffix(s, ")).LTE(r.TotalShares)") {
			factor = strings.TrimSuffix(strings.TrimPrefix(s, "r.TotalVotes.Mul(math.NewInt("), ")).LTE(r.TotalShares)")
			strict = "false"
		}
	}
	if factor == "" {
		return fmt.Errorf("jailValidatorsWhichMissedAttestation: floor test r.TotalVotes.Mul(math.NewInt(k)).LT(r.TotalShares) not recognised")
	}
	c.P("Definition prune_floor_factor : Z := %s.", strings.ReplaceAll(factor, "_", ""))
	c.P("Definition prune_floor_strict : bool := %s.", strict)
	c.Info("prune_floor", factor+"*votes "+map[string]string{"true": "<", "false": "<="}[strict]+" total => nobody jailed")
	// the jail loop: over snapshot.Validators, guarded by absence from the evidence lookup
	loopOK := false
	ast.Inspect(jm.Body, func(n ast.Node) bool {
		rs, ok := n.(*ast.RangeStmt)
		if !ok || c.Src(rs.X) != "snapshot.Validators" {
			return true
		}
		if len(rs.Body.List) == 1 {
			if is, ok := rs.Body.List[0].(*ast.IfStmt); ok {
				cond := strings.Join(strings.Fields(c.Src(is.Cond)), "")
				init := ""
				if is.Init != nil {
					init = strings.Join(strings.Fields(c.Src(is.Init)), "")
				}
				if cond == "!fnd" && init == "_,fnd:=vlkUp[v.GetAddress().String()]" && len(Calls(is.Body, "Jail")) == 1 {
					loopOK = true
				}
			}
		}
		return true
	})
	if !loopOK {
		return fmt.Errorf("jailValidatorsWhichMissedAttestation: jail loop `for _, v := range snapshot.Validators { if _, fnd := vlkUp[..]; !fnd { Jail } }` not recognised")
	}
	if len(Calls(jm.Body, "Jail")) != 1 {
		return fmt.Errorf("jailValidatorsWhichMissedAttestation: expected exactly one Jail call")
	}
	c.P("Definition prune_jails_snapshot_vals_without_evidence : bool := true.")
	return nil
}
