package main

import (
	"fmt"
	"go/ast"
	"go/token"
	"io/fs"
	"os"
	"path/filepath"
	"sort"
	"strings"
)

// C14, second round: the inventory of every place that puts a message into a consensus queue
// (who calls Keeper.PutMessageInQueue, into which queue, with which payload, and where the
// Assignee / AssigneeRemoteAddress of the payload come from), every direct Queue.Put outside the
// queue implementation, and the retry rules of the three attesters that re-enqueue a message
// after an error proof.

type c14File struct {
	rel string
	f   *ast.File
}

// c14ProdFiles parses every production Go file under x/, util/, internal/, app/ (tests, mocks,
// verif hooks and generated protobuf code excluded).
func c14ProdFiles(c *Ctx) ([]c14File, error) {
	var out []c14File
	skipDir := map[string]bool{"mocks": true, "testutil": true, "tests": true, ".git": true, "node_modules": true, "vue": true, "docs": true, "proto": true}
	for _, root := range []string{"x", "util", "internal", "app"} {
		base := filepath.Join(c.Repo, root)
		if _, err := os.Stat(base); err != nil {
			continue
		}
		err := filepath.WalkDir(base, func(p string, d fs.DirEntry, err error) error {
			if err != nil {
				return err
			}
			if d.IsDir() {
				if skipDir[d.Name()] {
					return filepath.SkipDir
				}
				return nil
			}
			n := d.Name()
			if !strings.HasSuffix(n, ".go") || strings.HasSuffix(n, "_test.go") || strings.HasPrefix(n, "verif_hooks") ||
				strings.HasSuffix(n, ".pb.go") || strings.HasSuffix(n, ".pb.gw.go") {
				return nil
			}
			src, err := os.ReadFile(p)
			if err != nil {
				return err
			}
			if strings.HasPrefix(strings.TrimSpace(string(src)), "//go:build verif") {
				return nil
			}
			s := string(src)
			if !strings.Contains(s, "PutMessageInQueue") && !strings.Contains(s, ".Put(") && !strings.Contains(s, "SendValsetMsgForChain") {
				return nil
			}
			f, err := goParse(c.Fset, p, src)
			if err != nil {
				return err
			}
			rel, _ := filepath.Rel(c.Repo, p)
			out = append(out, c14File{rel, f})
			return nil
		})
		if err != nil {
			return nil, err
		}
	}
	sort.Slice(out, func(i, j int) bool { return out[i].rel < out[j].rel })
	return out, nil
}

func c14RecvName(fd *ast.FuncDecl) string {
	if fd.Recv == nil || len(fd.Recv.List) != 1 {
		return ""
	}
	t := fd.Recv.List[0].Type
	if s, ok := t.(*ast.StarExpr); ok {
		t = s.X
	}
	if id, ok := t.(*ast.Ident); ok {
		return id.Name
	}
	return ""
}

func c14ParamIndex(fd *ast.FuncDecl, name string) int {
	i := 0
	for _, fl := range fd.Type.Params.List {
		for _, n := range fl.Names {
			if n.Name == name {
				return i
			}
			i++
		}
	}
	return -1
}

// c14PickOrigin describes where identifier `name` gets its value inside fd, as seen from the
// statement list of the function body: "pick#<k>(<chain>, <req>) guarded" when it is the k-th
// result of a PickValidatorForMessage call whose error is returned by the very next statement,
// "param#<i>" when it is a parameter, otherwise "?<what>".
func c14PickOrigin(c *Ctx, fd *ast.FuncDecl, name string) string {
	if i := c14ParamIndex(fd, name); i >= 0 {
		return fmt.Sprintf("param#%d", i)
	}
	origin := "?unassigned"
	for idx, st := range fd.Body.List {
		as, ok := st.(*ast.AssignStmt)
		if !ok || len(as.Rhs) != 1 {
			continue
		}
		pos := -1
		for i, l := range as.Lhs {
			if c.Src(l) == name {
				pos = i
			}
		}
		if pos < 0 {
			continue
		}
		ce, ok := as.Rhs[0].(*ast.CallExpr)
		if !ok {
			return "?" + c.Src(as.Rhs[0])
		}
		se, ok := ce.Fun.(*ast.SelectorExpr)
		if !ok || se.Sel.Name != "PickValidatorForMessage" || len(ce.Args) != 3 || len(as.Lhs) != 3 {
			return "?" + c.Src(as.Rhs[0])
		}
		guard := "unguarded"
		if idx+1 < len(fd.Body.List) {
			if is, ok := fd.Body.List[idx+1].(*ast.IfStmt); ok && c.Src(is.Cond) == "err != nil" && is.Else == nil {
				if n := len(is.Body.List); n > 0 {
					if rs, ok := is.Body.List[n-1].(*ast.ReturnStmt); ok && len(rs.Results) > 0 && c.Src(rs.Results[len(rs.Results)-1]) == "err" {
						guard = "guarded"
					}
				}
			}
		}
		origin = fmt.Sprintf("pick#%d(%s, %s) %s", pos, c.Src(ce.Args[1]), c.Src(ce.Args[2]), guard)
	}
	return origin
}

func c14KV(c *Ctx, cl *ast.CompositeLit, key string) ast.Expr {
	for _, el := range cl.Elts {
		if kv, ok := el.(*ast.KeyValueExpr); ok && c.Src(kv.Key) == key {
			return kv.Value
		}
	}
	return nil
}

func c14EnqueueSites(c *Ctx) error {
	files, err := c14ProdFiles(c)
	if err != nil {
		return err
	}
	type fref struct {
		rel string
		fd  *ast.FuncDecl
	}
	var funcs []fref
	for _, pf := range files {
		for _, d := range pf.f.Decls {
			if fd, ok := d.(*ast.FuncDecl); ok && fd.Body != nil {
				funcs = append(funcs, fref{pf.rel, fd})
			}
		}
	}
	// callers of a function by name (syntactic), with the argument expressions
	callersOf := func(name string) []struct {
		who  fref
		call *ast.CallExpr
	} {
		var out []struct {
			who  fref
			call *ast.CallExpr
		}
		for _, fr := range funcs {
			if fr.fd.Name.Name == name {
				continue
			}
			for _, ce := range Calls(fr.fd.Body, name) {
				out = append(out, struct {
					who  fref
					call *ast.CallExpr
				}{fr, ce})
			}
		}
		return out
	}
	// resolve an origin that is a parameter through every caller of the function
	var resolve func(fr fref, name string, depth int) (string, error)
	resolve = func(fr fref, name string, depth int) (string, error) {
		o := c14PickOrigin(c, fr.fd, name)
		if !strings.HasPrefix(o, "param#") {
			return o, nil
		}
		if depth > 2 {
			return "", fmt.Errorf("%s:%s: parameter chain too deep for %s", fr.rel, fr.fd.Name.Name, name)
		}
		var pi int
		fmt.Sscanf(o, "param#%d", &pi)
		cs := callersOf(fr.fd.Name.Name)
		if len(cs) == 0 {
			return "param (no production caller)", nil
		}
		var parts []string
		for _, cl := range cs {
			if pi >= len(cl.call.Args) {
				return "", fmt.Errorf("%s:%s calls %s with too few arguments", cl.who.rel, cl.who.fd.Name.Name, fr.fd.Name.Name)
			}
			id, ok := cl.call.Args[pi].(*ast.Ident)
			if !ok {
				return "", fmt.Errorf("%s:%s passes a non-identifier %q as %s", cl.who.rel, cl.who.fd.Name.Name, c.Src(cl.call.Args[pi]), name)
			}
			sub, err := resolve(cl.who, id.Name, depth+1)
			if err != nil {
				return "", err
			}
			parts = append(parts, "via "+cl.who.fd.Name.Name+": "+sub)
		}
		sort.Strings(parts)
		return strings.Join(parts, " | "), nil
	}

	var sites, direct, facts []string
	for _, fr := range funcs {
		who := fr.rel + ":" + fr.fd.Name.Name
		for _, ce := range Calls(fr.fd.Body, "PutMessageInQueue") {
			if len(ce.Args) != 4 {
				return fmt.Errorf("%s: PutMessageInQueue with %d arguments", who, len(ce.Args))
			}
			qc, ok := ce.Args[1].(*ast.CallExpr)
			if !ok || !strings.HasSuffix(c.Src(qc.Fun), "Queue") || len(qc.Args) != 3 {
				return fmt.Errorf("%s: queue name %q is not consensustypes.Queue(sub, type, chain)", who, c.Src(ce.Args[1]))
			}
			queue := c.Src(qc.Args[0])
			chain := c.Src(qc.Args[2])
			payload, action, asg, rem := "?", "-", "-", "-"
			switch m := ce.Args[2].(type) {
			case *ast.UnaryExpr:
				switch x := m.X.(type) {
				case *ast.CompositeLit:
					payload = c.Src(x.Type)
					if payload == "types.Message" {
						av := c14KV(c, x, "Action")
						if av == nil {
							return fmt.Errorf("%s: types.Message literal without Action", who)
						}
						if u, ok := av.(*ast.UnaryExpr); ok {
							if cl, ok := u.X.(*ast.CompositeLit); ok {
								action = c.Src(cl.Type)
							}
						}
						for _, fld := range []struct {
							key string
							dst *string
						}{{"Assignee", &asg}, {"AssigneeRemoteAddress", &rem}} {
							v := c14KV(c, x, fld.key)
							if v == nil {
								*fld.dst = "unset"
								continue
							}
							id, ok := v.(*ast.Ident)
							if !ok {
								return fmt.Errorf("%s: %s is set from %q, not from an identifier", who, fld.key, c.Src(v))
							}
							o, err := resolve(fr, id.Name, 0)
							if err != nil {
								return err
							}
							*fld.dst = o
						}
					} else {
						for _, el := range x.Elts {
							if kv, ok := el.(*ast.KeyValueExpr); ok && strings.Contains(c.Src(kv.Key), "Assignee") {
								return fmt.Errorf("%s: %s literal sets %s (not understood)", who, payload, c.Src(kv.Key))
							}
						}
					}
				case *ast.Ident:
					// &msg with `var msg types.X` declared in the function
					ast.Inspect(fr.fd.Body, func(n ast.Node) bool {
						if vs, ok := n.(*ast.ValueSpec); ok && len(vs.Names) == 1 && vs.Names[0].Name == x.Name && vs.Type != nil {
							payload = c.Src(vs.Type)
						}
						return true
					})
					ast.Inspect(fr.fd.Body, func(n ast.Node) bool {
						if as, ok := n.(*ast.AssignStmt); ok {
							for _, l := range as.Lhs {
								if strings.HasPrefix(c.Src(l), x.Name+".Assignee") {
									asg = "?assigned " + c.Src(l)
								}
							}
						}
						return true
					})
				default:
					return fmt.Errorf("%s: payload %q not understood", who, c.Src(ce.Args[2]))
				}
			default:
				return fmt.Errorf("%s: payload %q not understood", who, c.Src(ce.Args[2]))
			}
			opts := "nil"
			if u, ok := ce.Args[3].(*ast.UnaryExpr); ok {
				if cl, ok := u.X.(*ast.CompositeLit); ok {
					var kv []string
					for _, el := range cl.Elts {
						if p, ok := el.(*ast.KeyValueExpr); ok {
							k := c.Src(p.Key)
							if k == "PublicAccessData" {
								kv = append(kv, k)
							} else {
								kv = append(kv, k+"="+c.Src(p.Value))
							}
						}
					}
					opts = strings.Join(kv, ",")
				}
			} else if c.Src(ce.Args[3]) != "nil" {
				opts = "?" + c.Src(ce.Args[3])
			}
			sites = append(sites, strings.Join([]string{who, queue, chain, payload, action, "assignee<-" + asg, "remote<-" + rem, "opts:" + opts}, " ; "))
			// the same, decided: (function, turnstone queue?, Assignee = result 0 and AssigneeRemoteAddress = result 1 of
			// the same PickValidatorForMessage call on every path?, every such pick guarded?, payload without assignee?)
			turn := queue == "types.ConsensusTurnstoneMessage"
			fromPick, guarded := asg != "-" && rem != "-", true
			aa, rr := strings.Split(asg, " | "), strings.Split(rem, " | ")
			if len(aa) != len(rr) {
				fromPick = false
			}
			for i := range aa {
				a := aa[i][strings.LastIndex(aa[i], ": ")+1:]
				a = strings.TrimSpace(a)
				if i >= len(rr) {
					break
				}
				r := strings.TrimSpace(rr[i][strings.LastIndex(rr[i], ": ")+1:])
				if !strings.HasPrefix(a, "pick#0(") || !strings.HasPrefix(r, "pick#1(") || a[len("pick#0"):] != r[len("pick#1"):] ||
					aa[i][:strings.LastIndex(aa[i], ": ")+1] != rr[i][:strings.LastIndex(rr[i], ": ")+1] {
					fromPick = false
				}
				if !strings.HasSuffix(a, " guarded") || !strings.HasSuffix(r, " guarded") {
					guarded = false
				}
			}
			facts = append(facts, fmt.Sprintf("(%s, %v, %v, %v, %v)", CoqStr(who), turn, fromPick, fromPick && guarded, asg == "-" && rem == "-"))
		}
		// direct Queue.Put outside the queue implementation and outside PutMessageInQueue itself
		if strings.HasPrefix(fr.rel, "x/consensus/keeper/consensus/") {
			continue
		}
		for _, ce := range Calls(fr.fd.Body, "Put") {
			if len(ce.Args) != 3 {
				continue
			}
			kind := "opts=" + c.Src(ce.Args[2])
			if u, ok := ce.Args[2].(*ast.UnaryExpr); ok {
				if cl, ok := u.X.(*ast.CompositeLit); ok && len(cl.Elts) == 1 {
					if kv, ok := cl.Elts[0].(*ast.KeyValueExpr); ok && c.Src(kv.Key) == "MsgIDToReplace" {
						kind = "replace " + c.Src(kv.Value)
					}
				}
			}
			direct = append(direct, who+" ; "+kind)
		}
	}
	sort.Strings(sites)
	sort.Strings(direct)
	c.P("(* every production call of Keeper.PutMessageInQueue: function ; queue ; chain ; payload ; action ; where Assignee and")
	c.P("   AssigneeRemoteAddress come from (k-th result of PickValidatorForMessage(chain, requirements), guarded = the")
	c.P("   pick's error is returned by the next statement) ; PutOptions *)")
	c.P("Definition enqueue_sites : list string := %s.", CoqStrList(sites))
	sort.Strings(facts)
	c.P("(* (function, turnstone queue, assignee+remote are results 0 and 1 of one pick on every path, that pick's error is")
	c.P("   returned before the put, payload carries no assignee) *)")
	c.P("Definition enqueue_site_facts : list (string * bool * bool * bool * bool) := [%s].", strings.Join(facts, "; "))
	c.P("(* direct Queue.Put calls outside x/consensus/keeper/consensus *)")
	c.P("Definition direct_queue_puts : list string := %s.", CoqStrList(direct))
	c.Info("enqueue_sites", sites)
	c.Info("direct_queue_puts", direct)
	return nil
}

// c14RetryRules: the retry bound, and for each attester what an error proof does.
func c14RetryRules(c *Ctx) error {
	evmk, err := c.ParseDir("x/evm/keeper")
	if err != nil {
		return err
	}
	var prod []*ast.File
	for _, f := range evmk {
		if !strings.HasPrefix(filepath.Base(c.Fset.Position(f.Pos()).Filename), "verif_hooks") {
			prod = append(prod, f)
		}
	}
	mx, ok := ConstValue(c, prod, "cMaxSubmitLogicCallRetries")
	if !ok {
		return fmt.Errorf("cMaxSubmitLogicCallRetries not found")
	}
	if _, err := fmt.Sscanf(mx, "%d", new(int)); err != nil {
		return fmt.Errorf("cMaxSubmitLogicCallRetries: integer literal expected, got %q", mx)
	}
	c.P("(* x/evm/keeper/attest*.go *)")
	c.P("Definition max_message_retries : Z := %s.", mx)
	var rules []string
	for _, at := range []string{"submitLogicCallAttester", "uploadSmartContractAttester", "uploadUserSmartContractAttester", "updateValsetAttester", "compassHandoverAttester"} {
		ex := FindFuncIn(prod, at, "Execute")
		if ex == nil {
			return fmt.Errorf("%s.Execute not found", at)
		}
		// the case for the error proof
		onErr := "?"
		ast.Inspect(ex.Body, func(n ast.Node) bool {
			cc, ok := n.(*ast.CaseClause)
			if !ok || len(cc.List) != 1 || c.Src(cc.List[0]) != "*types.SmartContractExecutionErrorProof" {
				return true
			}
			onErr = "no-retry"
			for _, st := range cc.Body {
				if len(Calls(st, "attemptRetry")) > 0 {
					onErr = "attemptRetry"
				}
			}
			return true
		})
		if onErr == "?" {
			return fmt.Errorf("%s.Execute: no case for SmartContractExecutionErrorProof", at)
		}
		rule := at + ": " + onErr
		if onErr == "attemptRetry" {
			ar := FindFuncIn(prod, at, "attemptRetry")
			if ar == nil {
				return fmt.Errorf("%s.attemptRetry not found", at)
			}
			var conds, clears, calls []string
			ast.Inspect(ar.Body, func(n ast.Node) bool {
				switch x := n.(type) {
				case *ast.IfStmt:
					if strings.Contains(c.Src(x.Cond), "Retries") {
						conds = append(conds, c.Src(x.Cond))
					}
				case *ast.AssignStmt:
					// every write to a field of the action before it is re-enqueued (Fees = nil is the expected one)
					if _, isSel := x.Lhs[0].(*ast.SelectorExpr); len(x.Lhs) == 1 && isSel && x.Tok == token.ASSIGN {
						clears = append(clears, c.Src(x))
					}
				case *ast.IncDecStmt:
					if strings.HasSuffix(c.Src(x.X), ".Retries") && x.Tok == token.INC {
						clears = append(clears, c.Src(x.X)+"++")
					}
				case *ast.CallExpr:
					if se, ok := x.Fun.(*ast.SelectorExpr); ok && strings.HasPrefix(se.Sel.Name, "Add") && strings.HasSuffix(se.Sel.Name, "ToConsensus") {
						calls = append(calls, se.Sel.Name)
					}
				}
				return true
			})
			if len(conds) != 1 || len(calls) != 1 {
				return fmt.Errorf("%s.attemptRetry: expected one Retries condition and one re-enqueue call, got %v / %v", at, conds, calls)
			}
			rule += " ; if " + conds[0] + " ; " + strings.Join(clears, ", ") + " ; " + calls[0]
		}
		rules = append(rules, rule)
	}
	c.P("Definition retry_rules : list string := %s.", CoqStrList(rules))
	c.Info("retry_rules", rules)

	// the score cache of msgAssigner is dead as long as PickValidatorForMessage has a value receiver
	// (ma.scores / removeWinnerFromSnapshot are written to a copy): the models recompute per call
	pk := FindFuncIn(prod, "msgAssigner", "PickValidatorForMessage")
	if pk == nil || pk.Recv == nil || len(pk.Recv.List) != 1 {
		return fmt.Errorf("msgAssigner.PickValidatorForMessage not found")
	}
	recv := "value"
	if _, ok := pk.Recv.List[0].Type.(*ast.StarExpr); ok {
		recv = "pointer"
	}
	c.P("Definition msg_assigner_pick_receiver : string := %s.", CoqStr(recv))

	if err := c14WeightsValidation(c, prod); err != nil {
		return err
	}

	// the truncation at the end of GetMessagesForRelaying
	ck, err := c.Parse("x/consensus/keeper/concensus_keeper.go")
	if err != nil {
		return err
	}
	gm := FindFunc(ck, "Keeper", "GetMessagesForRelaying")
	if gm == nil {
		return fmt.Errorf("GetMessagesForRelaying not found")
	}
	var capShape []string
	for _, st := range gm.Body.List {
		if is, ok := st.(*ast.IfStmt); ok && strings.Contains(c.Src(is.Cond), "defaultResponseMessageCount") {
			body := ""
			for _, b := range is.Body.List {
				body += c.Src(b) + ";"
			}
			capShape = append(capShape, "if "+c.Src(is.Cond)+" {"+body+"}")
		}
	}
	if len(capShape) != 1 {
		return fmt.Errorf("GetMessagesForRelaying: expected exactly one truncation by defaultResponseMessageCount, got %d", len(capShape))
	}
	c.P("Definition relay_cap_shape : string := %s.", CoqStr(capShape[0]))
	return nil
}

// c14WeightsValidation: relay weights are validated when they are set (C09 repair c16efebc).
// Pins: SetRelayWeights calls weights.Validate() and returns its error before anything is written;
// Validate parses the five strings (DecValues) and rejects a negative weight or one above
// maxRelayWeight; no other production code assigns ChainInfo.RelayWeights (the literal defaults of
// AddSupportForNewChain aside).
func c14WeightsValidation(c *Ctx, evmk []*ast.File) error {
	sw := FindFuncIn(evmk, "Keeper", "SetRelayWeights")
	if sw == nil {
		return fmt.Errorf("Keeper.SetRelayWeights not found")
	}
	validateAt, writeAt := -1, -1
	for i, st := range sw.Body.List {
		if is, ok := st.(*ast.IfStmt); ok && c.Src(is.Cond) == "weights != nil" && len(is.Body.List) == 1 && validateAt < 0 {
			inner, ok := is.Body.List[0].(*ast.IfStmt)
			if ok && inner.Init != nil && c.Src(inner.Init) == "err := weights.Validate()" && c.Src(inner.Cond) == "err != nil" &&
				len(inner.Body.List) == 1 && c.Src(inner.Body.List[0]) == "return err" {
				validateAt = i
			}
		}
		w := false
		ast.Inspect(st, func(n ast.Node) bool {
			switch x := n.(type) {
			case *ast.AssignStmt:
				for _, l := range x.Lhs {
					if strings.HasSuffix(c.Src(l), ".RelayWeights") {
						w = true
					}
				}
			case *ast.CallExpr:
				if se, ok := x.Fun.(*ast.SelectorExpr); ok && (se.Sel.Name == "Save" || se.Sel.Name == "updateChainInfo" || se.Sel.Name == "Set") {
					w = true
				}
			}
			return true
		})
		if w && writeAt < 0 {
			writeAt = i
		}
	}
	if writeAt < 0 {
		return fmt.Errorf("SetRelayWeights: the write of the weights was not recognised")
	}
	if validateAt < 0 && len(Calls(sw.Body, "Validate")) > 0 {
		return fmt.Errorf("SetRelayWeights: a Validate call is present but not in the shape `if weights != nil { if err := weights.Validate(); err != nil { return err } }`")
	}
	c.P("(* x/evm/keeper/keeper.go:SetRelayWeights, x/evm/types/relay_weights.go:Validate *)")
	c.P("Definition set_relay_weights_validates_before_write : bool := %v.", validateAt >= 0 && validateAt < writeAt)

	rw, err := c.Parse("x/evm/types/relay_weights.go")
	if err != nil {
		return err
	}
	vd := FindFunc(rw, "RelayWeights", "Validate")
	if vd == nil {
		// a tree before the repair: nothing is validated
		c.P("Definition max_relay_weight : Z := 0.")
		c.P("Definition relay_weights_validate_rejects : list string := [].")
		c.P("Definition relay_weights_validated_fields : list string := [].")
	} else {
		var mxLit string
		for _, d := range rw.Decls {
			gd, ok := d.(*ast.GenDecl)
			if !ok {
				continue
			}
			for _, sp := range gd.Specs {
				vs, ok := sp.(*ast.ValueSpec)
				if ok && len(vs.Names) == 1 && vs.Names[0].Name == "maxRelayWeight" && len(vs.Values) == 1 {
					ce, ok := vs.Values[0].(*ast.CallExpr)
					if ok && strings.HasSuffix(c.Src(ce.Fun), "LegacyNewDec") && len(ce.Args) == 1 {
						if bl, ok := ce.Args[0].(*ast.BasicLit); ok && bl.Kind == token.INT {
							mxLit = strings.ReplaceAll(bl.Value, "_", "")
						}
					}
				}
			}
		}
		if mxLit == "" {
			return fmt.Errorf("maxRelayWeight: expected math.LegacyNewDec(<int literal>)")
		}
		if len(Calls(vd.Body, "DecValues")) != 1 {
			return fmt.Errorf("RelayWeights.Validate: expected exactly one DecValues call")
		}
		var conds, fields []string
		ast.Inspect(vd.Body, func(n ast.Node) bool {
			switch x := n.(type) {
			case *ast.IfStmt:
				if c.Src(x.Cond) != "err != nil" {
					conds = append(conds, c.Src(x.Cond))
				}
			case *ast.CompositeLit:
				if len(x.Elts) == 2 && x.Type == nil {
					if sel, ok := x.Elts[1].(*ast.SelectorExpr); ok && c.Src(sel.X) == "w" {
						fields = append(fields, sel.Sel.Name)
					}
				}
			}
			return true
		})
		c.P("Definition max_relay_weight : Z := %s.", mxLit)
		c.P("Definition relay_weights_validate_rejects : list string := %s.", CoqStrList(conds))
		c.P("Definition relay_weights_validated_fields : list string := %s.", CoqStrList(fields))
	}
	// who else assigns ChainInfo.RelayWeights
	var writers []string
	for _, f := range evmk {
		for _, d := range f.Decls {
			fd, ok := d.(*ast.FuncDecl)
			if !ok || fd.Body == nil {
				continue
			}
			ast.Inspect(fd.Body, func(n ast.Node) bool {
				switch x := n.(type) {
				case *ast.AssignStmt:
					for _, l := range x.Lhs {
						if strings.HasSuffix(c.Src(l), ".RelayWeights") {
							writers = append(writers, fd.Name.Name+": "+c.Src(x))
						}
					}
				case *ast.KeyValueExpr:
					if c.Src(x.Key) == "RelayWeights" {
						v := c.Src(x.Value)
						v = strings.Join(strings.Fields(v), " ")
						writers = append(writers, fd.Name.Name+": literal "+v)
					}
				}
				return true
			})
		}
	}
	sort.Strings(writers)
	c.P("Definition relay_weights_writers : list string := %s.", CoqStrList(writers))
	c.Info("relay_weights_writers", writers)
	return nil
}

// c14MemoryState: inventory of everything a keeper reachable from the assignment keeps OUTSIDE the
// store: every field of the keeper structs (Keeper, msgAssigner, msgSender, registry, ...) with its
// type, and every package-level variable, of x/treasury/keeper, x/evm/keeper, x/metrix/keeper,
// x/consensus/keeper.  The list is pinned in Coq (memory_state_is): a new field or variable - e.g. a
// memo table that is not rolled back with a discarded store branch - is unclassified and breaks P
// until it has been reviewed.
func c14MemoryState(c *Ctx) error {
	var out []string
	for _, dir := range []string{"x/treasury/keeper", "x/evm/keeper", "x/metrix/keeper", "x/consensus/keeper"} {
		files, err := c.ParseDir(dir)
		if err != nil {
			return err
		}
		for _, f := range files {
			base := filepath.Base(c.Fset.Position(f.Pos()).Filename)
			if strings.HasPrefix(base, "verif_hooks") {
				continue
			}
			for _, d := range f.Decls {
				gd, ok := d.(*ast.GenDecl)
				if !ok {
					continue
				}
				for _, sp := range gd.Specs {
					switch x := sp.(type) {
					case *ast.TypeSpec:
						st, ok := x.Type.(*ast.StructType)
						if !ok {
							continue
						}
						n := x.Name.Name
						keeperish := n == "Keeper" || n == "msgAssigner" || n == "msgSender" || n == "registry" || n == "msgServer" ||
							strings.HasSuffix(n, "Keeper") || strings.Contains(strings.ToLower(n), "cache") || strings.Contains(strings.ToLower(n), "table")
						if !keeperish {
							continue
						}
						for _, fl := range st.Fields.List {
							ty := strings.Join(strings.Fields(c.Src(fl.Type)), " ")
							if len(fl.Names) == 0 {
								out = append(out, dir+":"+n+".(embedded) "+ty)
							}
							for _, fn := range fl.Names {
								out = append(out, dir+":"+n+"."+fn.Name+" "+ty)
							}
						}
					case *ast.ValueSpec:
						if gd.Tok != token.VAR {
							continue
						}
						for _, nm := range x.Names {
							if nm.Name == "_" {
								continue
							}
							ty := ""
							if x.Type != nil {
								ty = " " + strings.Join(strings.Fields(c.Src(x.Type)), " ")
							}
							out = append(out, dir+":var "+nm.Name+ty)
						}
					}
				}
			}
		}
	}
	sort.Strings(out)
	c.P("(* fields of the keeper structs and package-level variables of the packages the assignment reads *)")
	c.P("Definition memory_state : list string := %s.", CoqStrList(out))
	c.Info("memory_state", len(out))
	return nil
}

// c14QueueGetters (seeded C14-Q): how the relay query, the gas-estimation query and
// GetPendingValsetUpdates obtain the queue: the unbounded getter (count argument 0), and no slice
// bound before the filter.  c14ReassignLoop (seeded C14-P): ReassignOrphanedMessages picks once per
// stale message, with that message's requirements, at the top level of the per-message loop.
func c14QueueGetters(c *Ctx) error {
	ck, err := c.Parse("x/consensus/keeper/concensus_keeper.go")
	if err != nil {
		return err
	}
	var out []string
	for _, fn := range []string{"GetPendingValsetUpdates", "GetMessagesForRelaying", "GetMessagesForGasEstimation"} {
		fd := FindFunc(ck, "Keeper", fn)
		if fd == nil {
			return fmt.Errorf("%s not found", fn)
		}
		calls := Calls(fd.Body, "GetMessagesFromQueue")
		if len(calls) != 1 || len(calls[0].Args) != 3 {
			return fmt.Errorf("%s: expected exactly one GetMessagesFromQueue(ctx, queue, n) call", fn)
		}
		// slice expressions before the Filter call would bound what the filter sees
		filterPos := token.Pos(0)
		for _, ce := range Calls(fd.Body, "Filter") {
			if filterPos == 0 || ce.Pos() < filterPos {
				filterPos = ce.Pos()
			}
		}
		if filterPos == 0 {
			return fmt.Errorf("%s: slice.Filter call not found", fn)
		}
		bounded := false
		ast.Inspect(fd.Body, func(n ast.Node) bool {
			if se, ok := n.(*ast.SliceExpr); ok && se.Pos() < filterPos {
				bounded = true
			}
			return true
		})
		out = append(out, fmt.Sprintf("%s: GetMessagesFromQueue(_, _, %s) sliced-before-filter=%v", fn, c.Src(calls[0].Args[2]), bounded))
	}
	// n == 0 means "all" in GetMessagesFromQueue / Queue.GetAll
	gq := FindFunc(ck, "Keeper", "GetMessagesFromQueue")
	if gq == nil {
		return fmt.Errorf("GetMessagesFromQueue not found")
	}
	var bound []string
	ast.Inspect(gq.Body, func(n ast.Node) bool {
		if is, ok := n.(*ast.IfStmt); ok && strings.Contains(c.Src(is.Cond), "n") && strings.Contains(c.Src(is.Cond), "len(") {
			bound = append(bound, c.Src(is.Cond))
		}
		return true
	})
	c.P("(* x/consensus/keeper/concensus_keeper.go: how the pollers read the queue *)")
	c.P("Definition queue_getters : list string := %s.", CoqStrList(out))
	c.P("Definition get_messages_from_queue_bound : list string := %s.", CoqStrList(bound))
	c.Info("queue_getters", out)
	return nil
}

func c14ReassignLoop(c *Ctx) error {
	cl, err := c.Parse("x/consensus/keeper/cleanup.go")
	if err != nil {
		return err
	}
	fd := FindFunc(cl, "Keeper", "ReassignOrphanedMessages")
	if fd == nil {
		c.P("Definition reassign_loop_shape : list string := [].")
		return nil
	}
	// the per-message loop: `for _, msg := range msgs`
	var loop *ast.RangeStmt
	ast.Inspect(fd.Body, func(n ast.Node) bool {
		if rs, ok := n.(*ast.RangeStmt); ok && c.Src(rs.X) == "msgs" {
			loop = rs
		}
		return true
	})
	if loop == nil {
		return fmt.Errorf("ReassignOrphanedMessages: the loop over the stale messages was not recognised")
	}
	if n := len(Calls(fd.Body, "PickValidatorForMessage")); n != 1 {
		return fmt.Errorf("ReassignOrphanedMessages: expected exactly one PickValidatorForMessage call, got %d", n)
	}
	var shape []string
	for _, st := range loop.Body.List {
		if as, ok := st.(*ast.AssignStmt); ok {
			src := c.Src(as)
			if strings.Contains(src, "deriveMessageRequirements") || strings.Contains(src, "PickValidatorForMessage") {
				shape = append(shape, src)
			}
		}
	}
	if len(shape) != 2 {
		return fmt.Errorf("ReassignOrphanedMessages: the requirements and the pick must be two top-level statements of the per-message loop (found %d): unknown shape", len(shape))
	}
	c.P("(* x/consensus/keeper/cleanup.go: the pick of ReassignOrphanedMessages, per stale message *)")
	c.P("Definition reassign_loop_shape : list string := %s.", CoqStrList(shape))
	c.Info("reassign_loop_shape", shape)
	return nil
}
