package main

import (
	"bytes"
	"fmt"
	"go/ast"
	"go/token"
	"os"
	"path/filepath"
	"regexp"
	"sort"
	"strconv"
	"strings"

	"github.com/ethereum/go-ethereum/accounts/abi"
)

// C05: for every signing-bytes function (x/evm/types/turnstone_abi.go keccak256 methods,
// x/skyway/types/batch.go GetCheckpoint):
//   <m>_method / <m>_selector : the abi.NewMethod name and its 4-byte id (computed with go-ethereum from the
//                               abi.NewType strings of the abi.Arguments literal)
//   <m>_sig                   : the abi.Arguments literal as a Base.Abi type list
//   <m>_signed                : the argument expressions of <arguments>.Pack(...), each leaf mapped to a message
//                               field (Evm.SignFields.field) through a table of known Go expressions; a local
//                               variable is identified by the statements that define it
// and for every VerifyAgainstTX in x/evm/types/eth_txable.go:
//   <m>_delivered(_method)    : the fields handed to contractABI.Pack("<method>", args...), the consensus
//                               (signatures + current valset) argument excluded.
// Also: default estimate / default fees, the arguments Keccak256WithSignedMessage passes on, the shape of
// UploadSmartContract's pre-image and the id-counter key used by consensus.Queue.Put.
// Any expression or statement shape not in the tables is an error (the obligation is then reported broken).
func init() { extractors["C05"] = extractC05 }

var c05ws = regexp.MustCompile(`\s+`)

func c05norm(s string) string { return c05ws.ReplaceAllString(s, "") }

// ---- tables: normalised Go expression (with defining statements of locals) -> field ----

var c05Signed = map[string]string{
	// logic_call / deploy_contract
	"common.HexToAddress(m.GetHexContractAddress())": "FContract",
	"m.GetPayload()":                                   "FPayload",
	"new(big.Int).SetUint64(fees.RelayerFee)<-fees:=feesOrDefault(m.Fees)":   "FRelayerFee",
	"new(big.Int).SetUint64(fees.CommunityFee)<-fees:=feesOrDefault(m.Fees)": "FCommunityFee",
	"new(big.Int).SetUint64(fees.SecurityFee)<-fees:=feesOrDefault(m.Fees)":  "FSecurityFee",
	"senderAddress<-senderAddress:=[32]byte(append(padding,m.SenderAddress...));padding:=bytes.Repeat([]byte{0},32-len(m.SenderAddress))": "FFeePayer",
	"new(big.Int).SetInt64(int64(nonce))":                         "FMsgId",
	"bytes32<-varbytes32[32]byte;copy(bytes32[:],orig.GetTurnstoneID())": "FTurnstoneId",
	"big.NewInt(m.GetDeadline())":                                 "FDeadline",
	"common.HexToAddress(orig.AssigneeRemoteAddress)":             "FRelayer",
	"common.HexToAddress(m.GetDeployerAddress())":                 "FDeployer",
	"m.GetBytecode()":                                             "FBytecode",
	// update_valset / compass_update_batch
	"big.NewInt(0).SetUint64(estimate)<-estimate:=gasEstimate;ifestimate==0{estimate=300_000}": "FEstimate",
	"hash32<-varhash32[32]byte;copy(hash32[:],checkpointHash);checkpointHash:=crypto.Keccak256(checkpointBytes);checkpointBytes,err:=checkpointArgs.Pack(@);checkpointBytes=append(checkpointMethod.ID[:],checkpointBytes...)": "FCheckpoint",
	"slice.Map(m.GetValset().GetValidators(),func(sstring)common.Address{returncommon.HexToAddress(s)})": "FValidators",
	"slice.Map(m.GetValset().GetPowers(),func(auint64)*big.Int{returnbig.NewInt(int64(a))})":           "FPowers",
	"big.NewInt(int64(m.GetValset().GetValsetID()))":                                                     "FValsetId",
	"slice.Map(m.GetForwardCallArgs(),func(argCompassHandover_ForwardCallArgs)logicCallArg{returnlogicCallArg{common.HexToAddress(arg.GetHexContractAddress()),arg.GetPayload(),}})": "FCalls",
	// batch_call
	"i.TokenContract.GetAddress()": "FToken",
	"txDestinations<-txDestinations:=make([]common.Address,len(i.Transactions));forj,tx:=rangei.Transactions{txAmounts[j]=tx.Erc20Token.Amount.BigInt()txDestinations[j]=tx.DestAddress.GetAddress()};txAmounts:=make([]*big.Int,len(i.Transactions))": "FReceivers",
	"txAmounts<-txAmounts:=make([]*big.Int,len(i.Transactions));forj,tx:=rangei.Transactions{txAmounts[j]=tx.Erc20Token.Amount.BigInt()txDestinations[j]=tx.DestAddress.GetAddress()};txDestinations:=make([]common.Address,len(i.Transactions))":               "FAmounts",
	"big.NewInt(int64(i.BatchNonce))":   "FBatchNonce",
	"big.NewInt(int64(i.BatchTimeout))": "FBatchTimeout",
	"turnstoneBytes32<-varturnstoneBytes32[32]byte;copy(turnstoneBytes32[:],turnstoneID)": "FTurnstoneId",
	"i.AssigneeRemoteAddress": "FRelayer",
	"estimate<-estimate:=big.NewInt(cConservativeDummyGasEstimate);ifi.GasEstimate!=0{estimate.SetUint64(i.GasEstimate)}": "FEstimate",
}

var c05Delivered = map[string]string{
	"common.HexToAddress(m.GetHexContractAddress())":    "FContract",
	"m.GetPayload()":                                      "FPayload",
	"big.NewInt(0).SetUint64(m.Fees.RelayerFee)":         "FRelayerFee",
	"big.NewInt(0).SetUint64(m.Fees.CommunityFee)":       "FCommunityFee",
	"big.NewInt(0).SetUint64(m.Fees.SecurityFee)":        "FSecurityFee",
	"paddedSenderAddress<-paddedSenderAddress:=[32]byte(append(padding,m.SenderAddress...));padding:=bytes.Repeat([]byte{0},32-len(m.SenderAddress))": "FFeePayer",
	"paddedAuthor<-paddedAuthor:=[32]byte(append(padding,m.SenderAddress...));padding:=bytes.Repeat([]byte{0},32-len(m.SenderAddress))":               "FFeePayer",
	"new(big.Int).SetInt64(int64(msg.GetId()))":          "FMsgId",
	"new(big.Int).SetInt64(m.GetDeadline())":             "FDeadline",
	"common.HexToAddress(relayer)":                        "FRelayer",
	"big.NewInt(0).SetUint64(msg.GetGasEstimate())":      "FEstimate",
	"common.HexToAddress(m.GetDeployerAddress())":        "FDeployer",
	"m.GetBytecode()":                                     "FBytecode",
	"forwardArgs<-forwardArgs:=slice.Map(m.GetForwardCallArgs(),func(argCompassHandover_ForwardCallArgs)CompassLogicCallArgs{returnCompassLogicCallArgs{common.HexToAddress(arg.GetHexContractAddress()),arg.GetPayload(),}})": "FCalls",
	"TransformValsetToCompassValset(m.Valset).Validators=slice.Map(val.GetValidators(),func(sstring)common.Address{returncommon.HexToAddress(s)})": "FValidators",
	"TransformValsetToCompassValset(m.Valset).Powers=slice.Map(val.GetPowers(),func(puint64)*big.Int{returnbig.NewInt(int64(p))})":                 "FPowers",
	"TransformValsetToCompassValset(m.Valset).ValsetId=big.NewInt(int64(val.GetValsetID()))":                                                       "FValsetId",
}

// submit_batch: ABI input name (tuple components dotted) -> batch field and the ABI type expected there
var c05BatchABI = map[string][2]string{
	"token":         {"FToken", "address"},
	"args.receiver": {"FReceivers", "address[]"},
	"args.amount":   {"FAmounts", "uint256[]"},
	"batch_id":      {"FBatchNonce", "uint256"},
	"deadline":      {"FBatchTimeout", "uint256"},
	"relayer":       {"FRelayer", "address"},
	"gas_estimate":  {"FEstimate", "uint256"},
}

// the four message methods: ABI input name (tuple components dotted) -> the message field the CONTRACT means by it
var c05MsgABI = map[string]string{
	"args.logic_contract_address": "FContract", "args.payload": "FPayload",
	"fee_args.relayer_fee": "FRelayerFee", "fee_args.community_fee": "FCommunityFee", "fee_args.security_fee": "FSecurityFee",
	"fee_args.fee_payer_paloma_address": "FFeePayer",
	"message_id": "FMsgId", "deadline": "FDeadline", "relayer": "FRelayer", "gas_estimate": "FEstimate",
	"_deployer": "FDeployer", "_bytecode": "FBytecode",
	"new_valset.validators": "FValidators", "new_valset.powers": "FPowers", "new_valset.valset_id": "FValsetId",
	"update_compass_args": "FCalls",
}

var c05pkgs = map[string]bool{"bytes": true, "big": true, "common": true, "crypto": true, "abi": true, "slice": true, "whoops": true, "binary": true, "math": true}

type c05fn struct {
	c    *Ctx
	fd   *ast.FuncDecl
	dump bool
	errs []string
}

func (f *c05fn) topStmts() []ast.Stmt { return f.fd.Body.List }

// assignsTo reports whether stmt (top level) defines or mutates local `name`.
func (f *c05fn) assignsTo(st ast.Stmt, name string) bool {
	found := false
	check := func(e ast.Expr) {
		switch x := e.(type) {
		case *ast.Ident:
			if x.Name == name {
				found = true
			}
		case *ast.IndexExpr:
			if id, ok := x.X.(*ast.Ident); ok && id.Name == name {
				found = true
			}
		}
	}
	ast.Inspect(st, func(n ast.Node) bool {
		switch s := n.(type) {
		case *ast.AssignStmt:
			for _, l := range s.Lhs {
				check(l)
			}
		case *ast.ValueSpec:
			for _, nm := range s.Names {
				if nm.Name == name {
					found = true
				}
			}
		case *ast.CallExpr:
			// copy(name[:], ...), name.SetUint64(...)
			if id, ok := s.Fun.(*ast.Ident); ok && id.Name == "copy" && len(s.Args) > 0 {
				if sl, ok := s.Args[0].(*ast.SliceExpr); ok {
					check(sl.X)
				}
			}
			if se, ok := s.Fun.(*ast.SelectorExpr); ok && strings.HasPrefix(se.Sel.Name, "Set") {
				check(se.X)
			}
		}
		return true
	})
	return found
}

// locals: names introduced at top level by := or var.
func (f *c05fn) locals() map[string]bool {
	out := map[string]bool{}
	for _, st := range f.topStmts() {
		switch s := st.(type) {
		case *ast.AssignStmt:
			if s.Tok == token.DEFINE {
				for _, l := range s.Lhs {
					if id, ok := l.(*ast.Ident); ok && id.Name != "_" && id.Name != "err" {
						out[id.Name] = true
					}
				}
			}
		case *ast.DeclStmt:
			if gd, ok := s.Decl.(*ast.GenDecl); ok {
				for _, sp := range gd.Specs {
					if vs, ok := sp.(*ast.ValueSpec); ok {
						for _, n := range vs.Names {
							out[n.Name] = true
						}
					}
				}
			}
		}
	}
	return out
}

func (f *c05fn) stmtSrc(st ast.Stmt) string {
	s := c05norm(f.c.Src(st))
	// the arguments of an inner Pack call are reported separately (checkpoint_signed)
	if i := strings.Index(s, ".Pack("); i >= 0 && strings.Contains(s, "err:=") {
		return s[:i] + ".Pack(@)"
	}
	return s
}

// defs returns the defining statements of local `name`, followed transitively by those of the locals they mention.
func (f *c05fn) defs(name string) string {
	loc := f.locals()
	seen := map[string]bool{name: true}
	queue := []string{name}
	var parts []string
	usedStmt := map[ast.Stmt]bool{}
	for len(queue) > 0 {
		n := queue[0]
		queue = queue[1:]
		for _, st := range f.topStmts() {
			if usedStmt[st] || !f.assignsTo(st, n) {
				continue
			}
			// an `if err != nil` block is never a definition
			usedStmt[st] = true
			parts = append(parts, f.stmtSrc(st))
			ast.Inspect(st, func(x ast.Node) bool {
				if ce, ok := x.(*ast.CallExpr); ok {
					if se, ok := ce.Fun.(*ast.SelectorExpr); ok && se.Sel.Name == "Pack" {
						return false // do not follow the inner Pack's arguments
					}
				}
				if se, ok := x.(*ast.SelectorExpr); ok {
					if id, ok := se.X.(*ast.Ident); ok && c05pkgs[id.Name] {
						return false // package-qualified name (a local may shadow the package: `bytes`)
					}
				}
				if id, ok := x.(*ast.Ident); ok && loc[id.Name] && !seen[id.Name] {
					// only follow data-carrying locals, not the abi descriptors
					if id.Name != "arguments" && id.Name != "method" && id.Name != "checkpointArgs" && id.Name != "checkpointMethod" && id.Name != "m" {
						seen[id.Name] = true
						queue = append(queue, id.Name)
					}
				}
				return true
			})
		}
	}
	return strings.Join(parts, ";")
}

func (f *c05fn) rootIdent(e ast.Expr) string {
	switch x := e.(type) {
	case *ast.Ident:
		return x.Name
	case *ast.SelectorExpr:
		return f.rootIdent(x.X)
	case *ast.CallExpr:
		// new(big.Int).SetUint64(fees.RelayerFee), big.NewInt(0).SetUint64(estimate)
		for _, a := range x.Args {
			if r := f.rootIdent(a); r != "" && f.locals()[r] {
				return r
			}
		}
	}
	return ""
}

func (f *c05fn) singleCompositeDef(name string) *ast.CompositeLit {
	var lit *ast.CompositeLit
	n := 0
	for _, st := range f.topStmts() {
		if !f.assignsTo(st, name) {
			continue
		}
		n++
		if as, ok := st.(*ast.AssignStmt); ok && len(as.Rhs) == 1 {
			if cl, ok := as.Rhs[0].(*ast.CompositeLit); ok {
				lit = cl
			}
		}
	}
	if n == 1 {
		return lit
	}
	return nil
}

func c05camel(s string) string { return abi.ToCamelCase(s) }

// litValues returns the element values of a struct literal in struct-field order.
func (f *c05fn) litValues(cl *ast.CompositeLit, wantNames []string) ([]ast.Expr, error) {
	var vals []ast.Expr
	keyed := map[string]ast.Expr{}
	for _, e := range cl.Elts {
		if kv, ok := e.(*ast.KeyValueExpr); ok {
			keyed[f.c.Src(kv.Key)] = kv.Value
		} else {
			vals = append(vals, e)
		}
	}
	st, _ := cl.Type.(*ast.StructType)
	var fieldNames []string
	if st != nil {
		for _, fl := range st.Fields.List {
			for _, n := range fl.Names {
				fieldNames = append(fieldNames, n.Name)
			}
		}
	}
	if wantNames != nil {
		if fieldNames != nil {
			if len(fieldNames) != len(wantNames) {
				return nil, fmt.Errorf("struct literal has %d fields, abi tuple has %d", len(fieldNames), len(wantNames))
			}
			for i := range fieldNames {
				if fieldNames[i] != c05camel(wantNames[i]) {
					return nil, fmt.Errorf("struct field %s does not match abi component %s", fieldNames[i], wantNames[i])
				}
			}
		}
	}
	if len(keyed) > 0 {
		if len(vals) > 0 {
			return nil, fmt.Errorf("mixed keyed/unkeyed literal")
		}
		order := fieldNames
		if order == nil && wantNames != nil {
			// named struct type packed into an ABI tuple: go-ethereum matches struct fields to tuple
			// components BY NAME (ToCamelCase of the component name), so the order is the ABI's
			if len(wantNames) != len(keyed) {
				return nil, fmt.Errorf("struct literal sets %d fields, abi tuple has %d components", len(keyed), len(wantNames))
			}
			for _, n := range wantNames {
				order = append(order, c05camel(n))
			}
		}
		if order == nil {
			// named struct type: keep source order of the keys (only used for flat field sets)
			for _, e := range cl.Elts {
				order = append(order, f.c.Src(e.(*ast.KeyValueExpr).Key))
			}
		}
		for _, n := range order {
			v, ok := keyed[n]
			if !ok {
				return nil, fmt.Errorf("struct literal leaves field %s unset", n)
			}
			vals = append(vals, v)
		}
	}
	return vals, nil
}

type c05slot struct {
	field string
	sub   []*c05slot
}

func (s *c05slot) coq() string {
	if s.sub == nil {
		return "SF " + s.field
	}
	parts := make([]string, len(s.sub))
	for i, x := range s.sub {
		parts[i] = x.coq()
	}
	return "ST [" + strings.Join(parts, "; ") + "]"
}

func (s *c05slot) flat(out *[]string) {
	if s.sub == nil {
		*out = append(*out, s.field)
		return
	}
	for _, x := range s.sub {
		x.flat(out)
	}
}

// slotOf maps one Pack argument to a slot; ty is the abi type at that position (nil on the delivered side).
func (f *c05fn) slotOf(e ast.Expr, ty *abi.Type, table map[string]string) (*c05slot, error) {
	var names []string
	if ty != nil && ty.T == abi.TupleTy {
		names = ty.TupleRawNames
	}
	var cl *ast.CompositeLit
	if x, ok := e.(*ast.CompositeLit); ok {
		cl = x
	} else if id, ok := e.(*ast.Ident); ok {
		cl = f.singleCompositeDef(id.Name)
	}
	if cl != nil {
		if _, isArr := cl.Type.(*ast.ArrayType); !isArr {
			vals, err := f.litValues(cl, names)
			if err != nil {
				return nil, err
			}
			s := &c05slot{sub: []*c05slot{}}
			for i, v := range vals {
				var sub *abi.Type
				if ty != nil && ty.T == abi.TupleTy && i < len(ty.TupleElems) {
					sub = ty.TupleElems[i]
				}
				x, err := f.slotOf(v, sub, table)
				if err != nil {
					return nil, err
				}
				s.sub = append(s.sub, x)
			}
			return s, nil
		}
	}
	key := c05norm(f.c.Src(e))
	if r := f.rootIdent(e); r != "" && f.locals()[r] {
		key += "<-" + f.defs(r)
	}
	if f.dump {
		fmt.Fprintf(os.Stderr, "KEY %s\n", key)
	}
	fld, ok := table[key]
	if !ok {
		return nil, fmt.Errorf("%s: argument expression not recognised: %s", f.fd.Name.Name, key)
	}
	return &c05slot{field: fld}, nil
}

// ---- abi.Arguments literal -> go-ethereum types ----

func c05strLit(e ast.Expr) (string, bool) {
	bl, ok := e.(*ast.BasicLit)
	if !ok || bl.Kind != token.STRING {
		return "", false
	}
	s, err := strconv.Unquote(bl.Value)
	return s, err == nil
}

func (f *c05fn) parseArguments(cl *ast.CompositeLit) (abi.Arguments, error) {
	var out abi.Arguments
	for _, el := range cl.Elts {
		ecl, ok := el.(*ast.CompositeLit)
		if !ok || len(ecl.Elts) != 1 {
			return nil, fmt.Errorf("abi.Arguments element shape not recognised: %s", f.c.Src(el))
		}
		kv, ok := ecl.Elts[0].(*ast.KeyValueExpr)
		if !ok || f.c.Src(kv.Key) != "Type" {
			return nil, fmt.Errorf("abi.Arguments element without Type: %s", f.c.Src(el))
		}
		nts := Calls(kv.Value, "NewType")
		if len(nts) != 1 || len(nts[0].Args) != 3 || !strings.HasPrefix(c05norm(f.c.Src(kv.Value)), "whoops.Must(abi.NewType(") {
			return nil, fmt.Errorf("Type is not whoops.Must(abi.NewType(..)): %s", f.c.Src(kv.Value))
		}
		ts, ok := c05strLit(nts[0].Args[0])
		if !ok {
			return nil, fmt.Errorf("NewType type is not a string literal")
		}
		var comps []abi.ArgumentMarshaling
		if c05norm(f.c.Src(nts[0].Args[2])) != "nil" {
			ccl, ok := nts[0].Args[2].(*ast.CompositeLit)
			if !ok {
				return nil, fmt.Errorf("NewType components not a literal")
			}
			for _, ce := range ccl.Elts {
				cc, ok := ce.(*ast.CompositeLit)
				if !ok {
					return nil, fmt.Errorf("component not a literal")
				}
				var am abi.ArgumentMarshaling
				for _, fe := range cc.Elts {
					kv, ok := fe.(*ast.KeyValueExpr)
					if !ok {
						return nil, fmt.Errorf("component field not keyed")
					}
					v, ok := c05strLit(kv.Value)
					if !ok {
						return nil, fmt.Errorf("component value not a string literal")
					}
					switch f.c.Src(kv.Key) {
					case "Name":
						am.Name = v
					case "Type":
						am.Type = v
					default:
						return nil, fmt.Errorf("component key %s not supported", f.c.Src(kv.Key))
					}
				}
				comps = append(comps, am)
			}
		}
		t, err := abi.NewType(ts, "", comps)
		if err != nil {
			return nil, fmt.Errorf("abi.NewType(%q): %v", ts, err)
		}
		out = append(out, abi.Argument{Type: t})
	}
	return out, nil
}

func c05coqType(t *abi.Type) (string, error) {
	switch t.T {
	case abi.UintTy, abi.IntTy, abi.AddressTy, abi.FixedBytesTy, abi.BoolTy:
		return "TWord", nil
	case abi.BytesTy, abi.StringTy:
		return "TBytes", nil
	case abi.SliceTy:
		e, err := c05coqType(t.Elem)
		if err != nil {
			return "", err
		}
		return "TArr (" + e + ")", nil
	case abi.TupleTy:
		var parts []string
		for _, e := range t.TupleElems {
			s, err := c05coqType(e)
			if err != nil {
				return "", err
			}
			parts = append(parts, s)
		}
		return "TTuple [" + strings.Join(parts, "; ") + "]", nil
	}
	return "", fmt.Errorf("abi type %s outside the modelled universe", t.String())
}

// signedPart handles one (argumentsVar, methodVar) pair inside a signing function.
func (f *c05fn) signedPart(prefix, argsVar, methodVar string) error {
	c := f.c
	var lit *ast.CompositeLit
	var methodCall *ast.CallExpr
	for _, st := range f.topStmts() {
		as, ok := st.(*ast.AssignStmt)
		if !ok || len(as.Lhs) != 1 || len(as.Rhs) != 1 {
			continue
		}
		switch c.Src(as.Lhs[0]) {
		case argsVar:
			if cl, ok := as.Rhs[0].(*ast.CompositeLit); ok && c.Src(cl.Type) == "abi.Arguments" {
				lit = cl
			}
		case methodVar:
			if ce, ok := as.Rhs[0].(*ast.CallExpr); ok && c.Src(ce.Fun) == "abi.NewMethod" {
				methodCall = ce
			}
		}
	}
	if lit == nil || methodCall == nil {
		return fmt.Errorf("%s: %s := abi.Arguments{..} / %s := abi.NewMethod(..) not found", prefix, argsVar, methodVar)
	}
	args, err := f.parseArguments(lit)
	if err != nil {
		return fmt.Errorf("%s: %v", prefix, err)
	}
	if len(methodCall.Args) != 8 || c.Src(methodCall.Args[6]) != argsVar || c.Src(methodCall.Args[2]) != "abi.Function" {
		return fmt.Errorf("%s: abi.NewMethod call shape not recognised: %s", prefix, c.Src(methodCall))
	}
	name, ok1 := c05strLit(methodCall.Args[0])
	raw, ok2 := c05strLit(methodCall.Args[1])
	if !ok1 || !ok2 {
		return fmt.Errorf("%s: method name not a literal", prefix)
	}
	m := abi.NewMethod(name, raw, abi.Function, "", false, false, args, abi.Arguments{})
	// the Pack call
	var pack *ast.CallExpr
	for _, ce := range Calls(f.fd.Body, "Pack") {
		if se, ok := ce.Fun.(*ast.SelectorExpr); ok && c.Src(se.X) == argsVar {
			if pack != nil {
				return fmt.Errorf("%s: more than one %s.Pack call", prefix, argsVar)
			}
			pack = ce
		}
	}
	if pack == nil {
		return fmt.Errorf("%s: %s.Pack(...) not found", prefix, argsVar)
	}
	if len(pack.Args) != len(args) {
		return fmt.Errorf("%s: Pack has %d arguments, abi.Arguments has %d", prefix, len(pack.Args), len(args))
	}
	var slots, tys []string
	var flat []string
	for i, a := range pack.Args {
		t := args[i].Type
		s, err := f.slotOf(a, &t, c05Signed)
		if err != nil {
			return fmt.Errorf("%s: %v", prefix, err)
		}
		slots = append(slots, s.coq())
		s.flat(&flat)
		ct, err := c05coqType(&t)
		if err != nil {
			return fmt.Errorf("%s: %v", prefix, err)
		}
		tys = append(tys, ct)
	}
	// what is hashed: <v> = append(<method>.ID[:], <v>...) then crypto.Keccak256(<v>)
	body := c05norm(c.Src(f.fd.Body))
	re := regexp.MustCompile(`(\w+),err:=` + argsVar + `\.Pack\(`)
	mm := re.FindStringSubmatch(body)
	if mm == nil {
		return fmt.Errorf("%s: result of Pack not bound as `v, err := %s.Pack(`", prefix, argsVar)
	}
	v := mm[1]
	if !strings.Contains(body, v+"=append("+methodVar+".ID[:],"+v+"...)") {
		return fmt.Errorf("%s: selector not prepended as %s = append(%s.ID[:], %s...)", prefix, v, methodVar, v)
	}
	if !strings.Contains(body, "crypto.Keccak256("+v+")") {
		return fmt.Errorf("%s: crypto.Keccak256(%s) not found", prefix, v)
	}
	sel := make([]string, 4)
	for i := 0; i < 4; i++ {
		sel[i] = strconv.Itoa(int(m.ID[i]))
	}
	c.P("(* %s.%s: %s *)", c05recv(f.fd), f.fd.Name.Name, m.Sig)
	c.P("Definition %s_method : string := %s.", prefix, CoqStr(m.RawName))
	c.P("Definition %s_selector : list Z := [%s].", prefix, strings.Join(sel, "; "))
	c.P("Definition %s_sig : list abity := [%s].", prefix, strings.Join(tys, "; "))
	c.P("Definition %s_signed : list slot := [%s].", prefix, strings.Join(slots, "; "))
	c.Info(prefix+"_signed", strings.Join(flat, ","))
	c.Info(prefix+"_sig", m.Sig)
	return nil
}

func c05recv(fd *ast.FuncDecl) string {
	if fd.Recv == nil || len(fd.Recv.List) != 1 {
		return ""
	}
	t := fd.Recv.List[0].Type
	if s, ok := t.(*ast.StarExpr); ok {
		t = s.X
	}
	if id, ok := t.(*ast.Ident); ok {
		return id.Name
	}
	return ""
}

func c05params(fd *ast.FuncDecl) []string {
	var out []string
	for _, f := range fd.Type.Params.List {
		if len(f.Names) == 0 {
			out = append(out, "_")
		}
		for _, n := range f.Names {
			out = append(out, n.Name)
		}
	}
	return out
}

func extractC05(c *Ctx) error {
	dump := os.Getenv("C05_DUMP") != ""
	c.P("From Paloma Require Import Base.Abi Evm.SignFields.")
	af, err := c.Parse("x/evm/types/turnstone_abi.go")
	if err != nil {
		return err
	}
	var errs []string
	type part struct{ prefix, args, method string }
	signing := []struct {
		recv  string
		parts []part
		uses  [2]string // expected names of params 2 (id) and 3 (estimate)
	}{
		{"Message_SubmitLogicCall", []part{{"logic_call", "arguments", "method"}}, [2]string{"nonce", "_"}},
		{"Message_UploadUserSmartContract", []part{{"deploy_contract", "arguments", "method"}}, [2]string{"nonce", "_"}},
		{"Message_CompassHandover", []part{{"compass_update_batch", "arguments", "method"}}, [2]string{"_", "gasEstimate"}},
		{"Message_UpdateValset", []part{{"checkpoint", "checkpointArgs", "checkpointMethod"}, {"update_valset", "arguments", "method"}}, [2]string{"_", "gasEstimate"}},
	}
	for _, s := range signing {
		fd := FindFunc(af, s.recv, "keccak256")
		if fd == nil {
			return fmt.Errorf("%s.keccak256 not found", s.recv)
		}
		ps := c05params(fd)
		if len(ps) != 3 || ps[1] != s.uses[0] || ps[2] != s.uses[1] {
			return fmt.Errorf("%s.keccak256: parameters %v, expected (orig, %s, %s)", s.recv, ps, s.uses[0], s.uses[1])
		}
		// m := _m.<Action>
		if len(fd.Body.List) == 0 || !regexp.MustCompile(`^m:=_m\.\w+$`).MatchString(c05norm(c.Src(fd.Body.List[0]))) {
			return fmt.Errorf("%s.keccak256: first statement is not m := _m.<Action>", s.recv)
		}
		f := &c05fn{c: c, fd: fd, dump: dump}
		for _, p := range s.parts {
			if err := f.signedPart(p.prefix, p.args, p.method); err != nil {
				errs = append(errs, err.Error())
			}
		}
	}
	// Keccak256WithSignedMessage passes (m, q.GetId(), q.GasEstimate)
	kw := FindFunc(af, "Message", "Keccak256WithSignedMessage")
	if kw == nil {
		return fmt.Errorf("Message.Keccak256WithSignedMessage not found")
	}
	kcalls := Calls(kw.Body, "keccak256")
	if len(kcalls) != 1 || c05norm(c.Src(kcalls[0])) != "k.keccak256(m,q.GetId(),q.GasEstimate)" {
		return fmt.Errorf("Keccak256WithSignedMessage does not call k.keccak256(m, q.GetId(), q.GasEstimate)")
	}
	c.P("Definition keccak_call_args : string := %s.", CoqStr(c05norm(c.Src(kcalls[0]))))
	// UploadSmartContract pre-image
	up := FindFunc(af, "Message_UploadSmartContract", "keccak256")
	if up == nil {
		return fmt.Errorf("Message_UploadSmartContract.keccak256 not found")
	}
	ups := c05params(up)
	var upExpr string
	for _, ce := range Calls(up.Body, "Keccak256") {
		if len(ce.Args) == 1 {
			upExpr = c05norm(c.Src(ce.Args[0]))
		}
	}
	if len(ups) != 3 || ups[1] != "nonce" {
		return fmt.Errorf("Message_UploadSmartContract.keccak256 parameters %v", ups)
	}
	u64 := FindFunc(af, "", "uint64ToByte")
	if u64 == nil || !strings.Contains(c05norm(c.Src(u64.Body)), "b:=make([]byte,8)binary.BigEndian.PutUint64(b,n)returnb") {
		return fmt.Errorf("uint64ToByte is not the 8-byte big-endian encoder")
	}
	c.P("Definition upload_preimage_expr : string := %s.", CoqStr(upExpr))
	// defaults
	fo := FindFunc(af, "", "feesOrDefault")
	if fo == nil {
		return fmt.Errorf("feesOrDefault not found")
	}
	fob := c05norm(c.Src(fo.Body))
	fre := regexp.MustCompile(`^\{iffees!=nil\{returnfees\}.*return&Fees\{RelayerFee:([0-9_]+),CommunityFee:([0-9_]+),SecurityFee:([0-9_]+),\}\}$`)
	fm := fre.FindStringSubmatch(fob)
	if fm == nil {
		return fmt.Errorf("feesOrDefault body not recognised: %s", fob)
	}
	un := func(s string) string { return strings.ReplaceAll(s, "_", "") }
	c.P("Definition default_relayer_fee : Z := %s.", un(fm[1]))
	c.P("Definition default_community_fee : Z := %s.", un(fm[2]))
	c.P("Definition default_security_fee : Z := %s.", un(fm[3]))
	c.P("Definition default_estimate : Z := 300000. (* `if estimate == 0 { estimate = 300_000 }` is part of the recognised definition of `estimate` *)")

	// ---- skyway batch checkpoint ----
	bf, err := c.Parse("x/skyway/types/batch.go")
	if err != nil {
		return err
	}
	gc := FindFunc(bf, "InternalOutgoingTxBatch", "GetCheckpoint")
	if gc == nil {
		return fmt.Errorf("InternalOutgoingTxBatch.GetCheckpoint not found")
	}
	bfn := &c05fn{c: c, fd: gc, dump: dump}
	// the Pack result variable is abiEncodedBatch
	if err := bfn.signedPart("batch_call", "arguments", "method"); err != nil {
		errs = append(errs, err.Error())
	}
	dv, ok := ConstValue(c, []*ast.File{bf}, "cConservativeDummyGasEstimate")
	if !ok {
		return fmt.Errorf("cConservativeDummyGasEstimate not found")
	}
	c.P("Definition batch_default_estimate : Z := %s.", un(dv))
	// the external form goes through ToInternal and the same function
	eg := FindFunc(bf, "OutgoingTxBatch", "GetCheckpoint")
	if eg == nil || !strings.Contains(c05norm(c.Src(eg.Body)), "i,err:=o.ToInternal()") || !strings.Contains(c05norm(c.Src(eg.Body)), "returni.GetCheckpoint(turnstoneID)") {
		return fmt.Errorf("OutgoingTxBatch.GetCheckpoint does not delegate to the internal form")
	}

	// ---- delivered side ----
	tf, err := c.Parse("x/evm/types/eth_txable.go")
	if err != nil {
		return err
	}
	tv := FindFunc(af, "", "TransformValsetToCompassValset")
	if tv == nil {
		return fmt.Errorf("TransformValsetToCompassValset not found")
	}
	var tvLit *ast.CompositeLit
	if len(tv.Body.List) == 1 {
		if rs, ok := tv.Body.List[0].(*ast.ReturnStmt); ok && len(rs.Results) == 1 {
			tvLit, _ = rs.Results[0].(*ast.CompositeLit)
		}
	}
	if tvLit == nil || c05params(tv)[0] != "val" {
		return fmt.Errorf("TransformValsetToCompassValset shape not recognised")
	}
	// the compass ABI shipped in the repository (the one the evm keeper tests hand to VerifyAgainstTX)
	const compassABIPath = "x/evm/keeper/testdata/sample-abi.json"
	rawABI, err := os.ReadFile(filepath.Join(c.Repo, compassABIPath))
	if err != nil {
		return err
	}
	compassABI, err := abi.JSON(bytes.NewReader(rawABI))
	if err != nil {
		return fmt.Errorf("%s: %v", compassABIPath, err)
	}
	const consensusSig = "((address[],uint256[],uint256),(uint256,uint256,uint256)[])"
	// abiMethod returns the method's inputs after the leading consensus argument
	abiMethod := func(name string) (abi.Method, abi.Arguments, error) {
		m, ok := compassABI.Methods[name]
		if !ok {
			return m, nil, fmt.Errorf("%s: no method %s", compassABIPath, name)
		}
		if len(m.Inputs) == 0 || m.Inputs[0].Name != "consensus" || m.Inputs[0].Type.String() != consensusSig {
			return m, nil, fmt.Errorf("%s: %s does not start with consensus %s", compassABIPath, name, consensusSig)
		}
		return m, m.Inputs[1:], nil
	}
	emitABI := func(prefix string, m abi.Method, ins abi.Arguments) error {
		var tys, names, sel []string
		for _, in := range ins {
			t := in.Type
			ct, err := c05coqType(&t)
			if err != nil {
				return fmt.Errorf("%s.%s: %v", m.RawName, in.Name, err)
			}
			tys = append(tys, ct)
			names = append(names, CoqStr(in.Name))
		}
		for i := 0; i < 4; i++ {
			sel = append(sel, strconv.Itoa(int(m.ID[i])))
		}
		c.P("(* %s: %s *)", compassABIPath, m.Sig)
		c.P("Definition %s_abi_method : string := %s.", prefix, CoqStr(m.RawName))
		c.P("Definition %s_abi_selector : list Z := [%s].", prefix, strings.Join(sel, "; "))
		c.P("Definition %s_abi_names : list string := [%s].", prefix, strings.Join(names, "; "))
		c.P("Definition %s_abi_sig : list abity := [%s].", prefix, strings.Join(tys, "; "))
		c.Info(prefix+"_abi", m.Sig)
		return nil
	}
	// the slots the ABI's input NAMES stand for (so that an argument packed at the position of another input of the
	// same type -- deadline where message_id is expected -- does not go unnoticed)
	var namedSlot func(path string, t abi.Type) (*c05slot, error)
	namedSlot = func(path string, t abi.Type) (*c05slot, error) {
		if fld, ok := c05MsgABI[path]; ok {
			return &c05slot{field: fld}, nil
		}
		if t.T == abi.TupleTy {
			s := &c05slot{sub: []*c05slot{}}
			for i, cn := range t.TupleRawNames {
				x, err := namedSlot(path+"."+cn, *t.TupleElems[i])
				if err != nil {
					return nil, err
				}
				s.sub = append(s.sub, x)
			}
			return s, nil
		}
		return nil, fmt.Errorf("abi input %s (%s) is not a known message field", path, t.String())
	}
	emitNamed := func(prefix string, ins abi.Arguments) error {
		var slots []string
		for _, in := range ins {
			s, err := namedSlot(in.Name, in.Type)
			if err != nil {
				return err
			}
			slots = append(slots, s.coq())
		}
		c.P("Definition %s_abi_named_slots : list slot := [%s].", prefix, strings.Join(slots, "; "))
		return nil
	}
	c.P("Definition compass_abi_path : string := %s.", CoqStr(compassABIPath))
	// the struct types go-ethereum maps onto the ABI tuples by field name
	structFields := func(name string) string {
		var out []string
		for _, d := range append(append([]ast.Decl{}, af.Decls...), tf.Decls...) {
			gd, ok := d.(*ast.GenDecl)
			if !ok {
				continue
			}
			for _, sp := range gd.Specs {
				ts, ok := sp.(*ast.TypeSpec)
				if !ok || ts.Name.Name != name {
					continue
				}
				if st, ok := ts.Type.(*ast.StructType); ok {
					for _, fl := range st.Fields.List {
						for _, n := range fl.Names {
							out = append(out, n.Name+":"+c05norm(c.Src(fl.Type)))
						}
					}
				}
			}
		}
		return strings.Join(out, ",")
	}
	for name, want := range map[string]string{
		"CompassLogicCallArgs": "LogicContractAddress:common.Address,Payload:[]byte",
		"FeeArgs":              "RelayerFee:*big.Int,CommunityFee:*big.Int,SecurityFee:*big.Int,FeePayerPalomaAddress:[32]byte",
		"CompassValset":        "ValsetId:*big.Int,Validators:[]common.Address,Powers:[]*big.Int",
	} {
		if got := structFields(name); got != want {
			errs = append(errs, fmt.Sprintf("struct %s has fields {%s}, expected {%s}", name, got, want))
		}
	}
	delivered := []struct{ recv, prefix, method string }{
		{"SubmitLogicCall", "logic_call", "submit_logic_call"},
		{"UploadUserSmartContract", "deploy_contract", "deploy_contract"},
		{"CompassHandover", "compass_update_batch", "compass_update_batch"},
		{"UpdateValset", "update_valset", "update_valset"},
	}
	for _, d := range delivered {
		fd := FindFunc(tf, d.recv, "VerifyAgainstTX")
		if fd == nil {
			return fmt.Errorf("%s.VerifyAgainstTX not found", d.recv)
		}
		ps := c05params(fd)
		if len(ps) != 6 || ps[2] != "msg" || ps[5] != "relayer" {
			return fmt.Errorf("%s.VerifyAgainstTX parameters %v", d.recv, ps)
		}
		f := &c05fn{c: c, fd: fd, dump: dump}
		var argsLit *ast.CompositeLit
		var packs []*ast.CallExpr
		ast.Inspect(fd.Body, func(n ast.Node) bool {
			switch x := n.(type) {
			case *ast.AssignStmt:
				if len(x.Lhs) == 1 && c.Src(x.Lhs[0]) == "args" && len(x.Rhs) == 1 {
					if cl, ok := x.Rhs[0].(*ast.CompositeLit); ok && c05norm(c.Src(cl.Type)) == "[]any" {
						argsLit = cl
					}
				}
			case *ast.CallExpr:
				if se, ok := x.Fun.(*ast.SelectorExpr); ok && se.Sel.Name == "Pack" && c.Src(se.X) == "contractABI" {
					packs = append(packs, x)
				}
			}
			return true
		})
		if argsLit == nil || len(packs) != 1 || len(packs[0].Args) != 2 || c05norm(c.Src(packs[0].Args[1])) != "args" || !packs[0].Ellipsis.IsValid() {
			errs = append(errs, fmt.Sprintf("%s.VerifyAgainstTX: args := []any{..} / contractABI.Pack(\"m\", args...) not recognised", d.recv))
			continue
		}
		if !strings.Contains(c05norm(c.Src(fd.Body)), "contractABI,err:=abi.JSON(strings.NewReader(compass.GetAbiJSON()))") {
			errs = append(errs, fmt.Sprintf("%s.VerifyAgainstTX: contractABI is not the compass ABI JSON", d.recv))
			continue
		}
		mname, ok := c05strLit(packs[0].Args[0])
		if !ok {
			errs = append(errs, fmt.Sprintf("%s.VerifyAgainstTX: method name not a literal", d.recv))
			continue
		}
		if mname != d.method {
			errs = append(errs, fmt.Sprintf("%s.VerifyAgainstTX packs %q, expected %q", d.recv, mname, d.method))
			continue
		}
		am, ins, err := abiMethod(mname)
		if err != nil {
			errs = append(errs, err.Error())
			continue
		}
		if len(argsLit.Elts) != len(ins)+1 {
			errs = append(errs, fmt.Sprintf("%s.VerifyAgainstTX: Pack(%q) is given %d arguments, the ABI lists %d inputs", d.recv, mname, len(argsLit.Elts), len(ins)+1))
			continue
		}
		var flat, slots []string
		bad := false
		for i, e := range argsLit.Elts {
			src := c05norm(c.Src(e))
			if i == 0 {
				if src != "BuildCompassConsensus(valset,msg.GetSignData()[0:i])" {
					errs = append(errs, fmt.Sprintf("%s.VerifyAgainstTX: first argument is not the consensus: %s", d.recv, src))
					bad = true
				}
				continue
			}
			aty := ins[i-1].Type
			if src == "TransformValsetToCompassValset(m.Valset)" {
				if aty.T != abi.TupleTy || len(aty.TupleRawNames) != len(tvLit.Elts) {
					errs = append(errs, fmt.Sprintf("%s.VerifyAgainstTX: %s is packed into %s", d.recv, src, aty.String()))
					bad = true
					continue
				}
				keyed := map[string]ast.Expr{}
				for _, el := range tvLit.Elts {
					kv, ok := el.(*ast.KeyValueExpr)
					if !ok {
						errs = append(errs, "TransformValsetToCompassValset: unkeyed literal")
						bad = true
						continue
					}
					keyed[c.Src(kv.Key)] = kv.Value
				}
				st := &c05slot{sub: []*c05slot{}}
				// struct fields are matched to tuple components by name
				for _, cn := range aty.TupleRawNames {
					v, ok := keyed[c05camel(cn)]
					if !ok {
						errs = append(errs, fmt.Sprintf("TransformValsetToCompassValset sets no field for abi component %s", cn))
						bad = true
						continue
					}
					key := src + "." + c05camel(cn) + "=" + c05norm(c.Src(v))
					if dump {
						fmt.Fprintf(os.Stderr, "DKEY %s\n", key)
					}
					fld, ok := c05Delivered[key]
					if !ok {
						errs = append(errs, fmt.Sprintf("%s.VerifyAgainstTX: delivered expression not recognised: %s", d.recv, key))
						bad = true
						continue
					}
					st.sub = append(st.sub, &c05slot{field: fld})
				}
				st.flat(&flat)
				slots = append(slots, st.coq())
				continue
			}
			s, err := f.slotOf(e, &aty, c05Delivered)
			if err != nil {
				errs = append(errs, fmt.Sprintf("%s.VerifyAgainstTX: %v", d.recv, err))
				bad = true
				continue
			}
			s.flat(&flat)
			slots = append(slots, s.coq())
		}
		if bad {
			continue
		}
		c.P("(* %s.VerifyAgainstTX: contractABI.Pack(%q, consensus, ...) *)", d.recv, mname)
		c.P("Definition %s_delivered_method : string := %s.", d.prefix, CoqStr(mname))
		c.P("Definition %s_delivered_slots : list slot := [%s].", d.prefix, strings.Join(slots, "; "))
		c.P("Definition %s_delivered : list field := [%s].", d.prefix, strings.Join(flat, "; "))
		c.Info(d.prefix+"_delivered", strings.Join(flat, ","))
		if err := emitABI(d.prefix, am, ins); err != nil {
			errs = append(errs, err.Error())
		}
		if err := emitNamed(d.prefix, ins); err != nil {
			errs = append(errs, fmt.Sprintf("%s: %v", mname, err))
		}
	}
	// submit_batch is packed by the relayer (pigeon), not in this repository: its delivered arguments are
	// derived from the ABI's input list, each input / tuple component NAME mapped to a batch field.
	{
		am, ins, err := abiMethod("submit_batch")
		if err != nil {
			errs = append(errs, err.Error())
		} else {
			var flat, slots []string
			var walk func(path string, t abi.Type) (*c05slot, error)
			walk = func(path string, t abi.Type) (*c05slot, error) {
				if t.T == abi.TupleTy {
					s := &c05slot{sub: []*c05slot{}}
					for i, cn := range t.TupleRawNames {
						x, err := walk(path+"."+cn, *t.TupleElems[i])
						if err != nil {
							return nil, err
						}
						s.sub = append(s.sub, x)
					}
					return s, nil
				}
				want, ok := c05BatchABI[path]
				if !ok {
					return nil, fmt.Errorf("submit_batch: abi input %s (%s) is not a known batch field", path, t.String())
				}
				if want[1] != t.String() {
					return nil, fmt.Errorf("submit_batch: abi input %s has type %s, expected %s", path, t.String(), want[1])
				}
				return &c05slot{field: want[0]}, nil
			}
			bad := false
			for _, in := range ins {
				s, err := walk(in.Name, in.Type)
				if err != nil {
					errs = append(errs, err.Error())
					bad = true
					continue
				}
				s.flat(&flat)
				slots = append(slots, s.coq())
			}
			if !bad {
				c.P("Definition submit_batch_delivered_slots : list slot := [%s].", strings.Join(slots, "; "))
				c.P("Definition submit_batch_delivered : list field := [%s].", strings.Join(flat, "; "))
				c.Info("submit_batch_delivered", strings.Join(flat, ","))
				if err := emitABI("submit_batch", am, ins); err != nil {
					errs = append(errs, err.Error())
				}
			}
		}
	}

	// ---- the relay gate: nothing is handed out for relaying before an estimate was elected ----
	{
		hf, err := c.Parse("x/consensus/keeper/filters/has_gas_estimate.go")
		if err != nil {
			return err
		}
		hg := FindFunc(hf, "", "HasGasEstimate")
		ck, err := c.Parse("x/consensus/keeper/concensus_keeper.go")
		if err != nil {
			return err
		}
		gr := FindFunc(ck, "Keeper", "GetMessagesForRelaying")
		okGate := hg != nil && gr != nil &&
			c05norm(c.Src(hg.Body)) == "{if!msg.GetRequireGasEstimation(){returntrue}returnmsg.GetGasEstimate()>0}" &&
			strings.Contains(c05norm(c.Src(gr.Body)), "filters.HasGasEstimate(msg)&&")
		c.P("Definition relay_filter_has_gas_estimate : bool := %v. (* GetMessagesForRelaying keeps msg only if filters.HasGasEstimate(msg); that is RequireGasEstimation -> GasEstimate > 0 *)", okGate)
		// every enqueue site of a bridge-delivered action passes RequireGasEstimation: true
		kfiles, err := c.ParseDir("x/evm/keeper")
		if err != nil {
			return err
		}
		var sites []string
		for _, kf := range kfiles {
			for _, ce := range Calls(kf, "PutMessageInQueue") {
				if len(ce.Args) != 4 {
					continue
				}
				msgSrc := c05norm(c.Src(ce.Args[2]))
				mm := regexp.MustCompile(`Action:&types\.(Message_\w+)\{`).FindStringSubmatch(msgSrc)
				if mm == nil {
					continue
				}
				opt := c05norm(c.Src(ce.Args[3]))
				req := strings.HasPrefix(opt, "&consensus.PutOptions{") && strings.Contains(opt, "RequireGasEstimation:true,")
				sites = append(sites, fmt.Sprintf("(%s, %v)", CoqStr(mm[1]), req))
			}
		}
		sort.Strings(sites)
		c.P("Definition enqueue_sites_require_estimation : list (string * bool) := [%s].", strings.Join(sites, "; "))
		c.Info("enqueue_sites_require_estimation", strings.Join(sites, " "))
		gq, err := c.Parse("x/skyway/keeper/grpc_query.go")
		if err != nil {
			return err
		}
		ob := FindFunc(gq, "Keeper", "OutgoingTxBatches")
		c.P("Definition batch_relay_requires_estimate : bool := %v. (* OutgoingTxBatches skips `batch.GasEstimate < 1` *)",
			ob != nil && strings.Contains(c05norm(c.Src(ob.Body)), "ifbatch.GasEstimate<1{returnfalse}"))
		ef, err := c.Parse("x/consensus/keeper/estimate.go")
		if err != nil {
			return err
		}
		cp := FindFunc(ef, "Keeper", "checkAndProcessEstimatedMessage")
		fp := FindFunc(ef, "Keeper", "checkAndProcessEstimatedFeePayer")
		okFees := cp != nil && fp != nil
		if okFees {
			b := c05norm(c.Src(cp.Body))
			i := strings.Index(b, "iferr:=q.SetElectedGasEstimate(ctx,msg.GetId(),estimate);err!=nil{return")
			j := strings.Index(b, "iferr:=k.checkAndProcessEstimatedFeePayer(ctx,msg,q,estimate);err!=nil{return")
			fb := c05norm(c.Src(fp.Body))
			okFees = i >= 0 && j > i &&
				strings.Contains(fb, "fees,err:=k.calculateFeesForEstimate(ctx,valAddr,m.GetChainReferenceID(),estimate)iferr!=nil{return") &&
				strings.Contains(fb, "action.SetFees(fees)_,err=q.Put(ctx,m,&consensus.PutOptions{MsgIDToReplace:msg.GetId(),})returnerr")
			cm := FindFunc(ef, "Keeper", "CheckAndProcessEstimatedMessages")
			okFees = okFees && cm != nil && strings.Contains(c05norm(c.Src(cm.Body)),
				"cachedCtx,commit:=sdk.UnwrapSDKContext(ctx).CacheContext()iferr:=k.checkAndProcessEstimatedMessage(cachedCtx,msg,cq);err!=nil{")
		}
		c.P("Definition fees_elected_with_estimate : bool := %v. (* estimate and fees are written under one cache context, fees through action.SetFees + Put(MsgIDToReplace) *)", okFees)
	}

	// ---- id counter ----
	qf, err := c.Parse("x/consensus/keeper/consensus/consensus.go")
	if err != nil {
		return err
	}
	put := FindFunc(qf, "Queue", "Put")
	if put == nil {
		return fmt.Errorf("Queue.Put not found")
	}
	incs := Calls(put.Body, "IncrementNextID")
	if len(incs) != 1 || len(incs[0].Args) != 2 {
		return fmt.Errorf("Queue.Put: exactly one IncrementNextID(ctx, key) expected")
	}
	c.P("(* consensus.Queue.Put: %s *)", c05norm(c.Src(incs[0])))
	c.P("Definition id_counter_key_expr : string := %s.", CoqStr(c05norm(c.Src(incs[0].Args[1]))))
	pb := c05norm(c.Src(put.Body))
	c.P("Definition put_replace_guard : bool := %v. (* `if mid != 0 { GetMsgByID(mid) ... m.Msg = anyMsg } else { mid = IncrementNextID }` *)",
		strings.Contains(pb, "mid=opts.MsgIDToReplace") && strings.Contains(pb, "ifmid!=0{") && strings.Contains(pb, "qsmi,err:=c.GetMsgByID(sdkCtx,mid)") &&
			strings.Contains(pb, "}else{mid=c.qo.Ider.IncrementNextID("))
	// the counter is touched by Put alone: no other function of the queue (Remove, save, ...) reaches the id generator
	nIder := 0
	var iderIn []string
	for _, d := range qf.Decls {
		fd, ok := d.(*ast.FuncDecl)
		if !ok || fd.Body == nil {
			continue
		}
		k := strings.Count(c05norm(c.Src(fd.Body)), ".Ider.")
		if k > 0 {
			nIder += k
			iderIn = append(iderIn, fd.Name.Name)
		}
	}
	c.P("Definition id_generator_uses_in_queue : Z := %d. (* in: %s *)", nIder, strings.Join(iderIn, ","))
	c.P("Definition id_generator_used_by_put_only : bool := %v.", nIder == 1 && len(iderIn) == 1 && iderIn[0] == "Put")
	idf, err := c.Parse("util/keeper/id_generation.go")
	if err != nil {
		return err
	}
	inc := FindFunc(idf, "IDGenerator", "IncrementNextID")
	if inc == nil {
		return fmt.Errorf("IncrementNextID not found")
	}
	ib := c05norm(c.Src(inc.Body))
	c.P("Definition id_increment_is_last_plus_one : bool := %v.", strings.Contains(ib, "nextID:=i.GetLastID(ctx,name)+1") && strings.Contains(ib, "store.Set(prefixKey,Uint64ToByte(nextID))") && strings.Contains(ib, "returnnextID"))
	// the generator's store is written by IncrementNextID alone
	nSet := 0
	for _, d := range idf.Decls {
		if fd, ok := d.(*ast.FuncDecl); ok && fd.Body != nil {
			b := c05norm(c.Src(fd.Body))
			nSet += strings.Count(b, ".Set(") + strings.Count(b, ".Delete(")
		}
	}
	c.P("Definition id_generator_store_writes : Z := %d. (* Set/Delete calls in util/keeper/id_generation.go *)", nSet)

	// ---- BatchQueue: a second counter for staging keys; messages get their ids from the shared one ----
	{
		bqf, err := c.Parse("x/consensus/keeper/consensus/batch.go")
		if err != nil {
			return err
		}
		bput := FindFunc(bqf, "BatchQueue", "Put")
		bproc := FindFunc(bqf, "BatchQueue", "ProcessBatches")
		if bput == nil || bproc == nil {
			return fmt.Errorf("BatchQueue.Put / ProcessBatches not found")
		}
		bincs := Calls(bput.Body, "IncrementNextID")
		if len(bincs) != 1 || len(bincs[0].Args) != 2 {
			return fmt.Errorf("BatchQueue.Put: exactly one IncrementNextID(ctx, key) expected")
		}
		c.P("(* consensus.BatchQueue.Put: %s *)", c05norm(c.Src(bincs[0])))
		c.P("Definition batch_id_counter_key_expr : string := %s.", CoqStr(c05norm(c.Src(bincs[0].Args[1]))))
		bb := c05norm(c.Src(bput.Body))
		c.P("Definition batch_put_stages_only : bool := %v. (* the staged item is written under the batching: prefix with the staging id as key; no base Put *)",
			strings.Contains(bb, "batchQueue.Set(sdk.Uint64ToBigEndian(newID),data)returnnewID,nil") && !strings.Contains(bb, "c.base.Put("))
		pb2 := c05norm(c.Src(bproc.Body))
		c.P("Definition batch_process_puts_through_base : bool := %v. (* every batch of at most consensusQueueMaxBatchSize staged messages becomes ONE message through Queue.Put(.., nil) *)",
			strings.Contains(pb2, "ifbatch==nil||len(batch.Msgs)>=consensusQueueMaxBatchSize{batch=&types.Batch{}batches=append(batches,batch)}") &&
				strings.Contains(pb2, "for_,batch:=rangebatches{_,err:=c.base.Put(sdkCtx,batch,nil)iferr!=nil{returnerr}}") &&
				strings.Contains(pb2, "for_,deleteKey:=rangedeleteKeys{queue.Delete(deleteKey)}"))
		tyf, err := c.Parse("x/consensus/keeper/consensus/types.go")
		if err != nil {
			return err
		}
		mx, ok1 := ConstValue(c, []*ast.File{tyf}, "consensusQueueMaxBatchSize")
		k1, ok2 := ConstValue(c, []*ast.File{tyf}, "consensusQueueIDCounterKey")
		k2, ok3 := ConstValue(c, []*ast.File{tyf}, "consensusBatchQueueIDCounterKey")
		if !ok1 || !ok2 || !ok3 {
			return fmt.Errorf("consensusQueueMaxBatchSize / counter key constants not found")
		}
		c.P("Definition batch_max_size : Z := %s.", strings.ReplaceAll(mx, "_", ""))
		c.P("Definition id_counter_keys_distinct : bool := %v. (* %s vs %s *)", k1 != k2, k1, k2)
		// is any queue configured as batched outside the consensus queue package and tests?
		n := 0
		for _, dir := range []string{"x/evm/keeper", "x/evm/types", "x/evm", "x/consensus/keeper", "x/consensus", "x/skyway/keeper", "x/valset/keeper", "x/paloma/keeper", "x/scheduler/keeper", "x/treasury/keeper", "x/metrix/keeper", "app"} {
			fs, err := c.ParseDir(dir)
			if err != nil {
				continue
			}
			for _, f := range fs {
				n += len(Calls(f, "WithBatch"))
				ast.Inspect(f, func(x ast.Node) bool {
					if kv, ok := x.(*ast.KeyValueExpr); ok {
						if id, ok := kv.Key.(*ast.Ident); ok && id.Name == "Batched" {
							n++
						}
					}
					return true
				})
			}
		}
		c.P("Definition batched_queue_configurations : Z := %d. (* WithBatch(..) calls / Batched: keys outside x/consensus/keeper/consensus and tests *)", n)
	}

	// ---- what the chain hands out as bytes to sign: every `BytesToSign:` of the consensus module ----
	{
		var sites []string
		for _, dir := range []string{"x/consensus/keeper", "x/consensus/keeper/consensus"} {
			fs, err := c.ParseDir(dir)
			if err != nil {
				return err
			}
			for _, f := range fs {
				if strings.Contains(filepath.Base(c.Fset.File(f.Pos()).Name()), "verif_hooks") {
					continue
				}
				for _, d := range f.Decls {
					fd, ok := d.(*ast.FuncDecl)
					if !ok || fd.Body == nil {
						continue
					}
					ast.Inspect(fd.Body, func(n ast.Node) bool {
						kv, ok := n.(*ast.KeyValueExpr)
						if !ok {
							return true
						}
						id, ok := kv.Key.(*ast.Ident)
						if !ok || id.Name != "BytesToSign" {
							return true
						}
						// the value must be a local bound ONCE, by <the function's message parameter>.GetBytesToSign(<codec>)
						v, ok := kv.Value.(*ast.Ident)
						shape := "unknown:" + c05norm(c.Src(kv.Value))
						if ok {
							var defs []string
							for _, st := range fd.Body.List {
								if as, ok := st.(*ast.AssignStmt); ok && len(as.Lhs) >= 1 {
									if l, ok := as.Lhs[0].(*ast.Ident); ok && l.Name == v.Name {
										defs = append(defs, c05norm(c.Src(as)))
									}
								}
							}
							if len(defs) == 1 && regexp.MustCompile(`^`+v.Name+`,err:=msg\.GetBytesToSign\((k\.cdc|cdc)\)$`).MatchString(defs[0]) {
								isParam := false
								for _, pn := range c05params(fd) {
									isParam = isParam || pn == "msg"
								}
								if isParam {
									shape = "msg.GetBytesToSign"
								}
							} else {
								shape = "unknown:" + strings.Join(defs, ";")
							}
						}
						sites = append(sites, fmt.Sprintf("(%s, %s)", CoqStr(fd.Name.Name), CoqStr(shape)))
						return true
					})
				}
			}
		}
		sort.Strings(sites)
		c.P("Definition bytes_to_sign_sites : list (string * string) := [%s]. (* every `BytesToSign:` in x/consensus/keeper(/consensus): function, how the value is computed *)", strings.Join(sites, "; "))
		c.Info("bytes_to_sign_sites", strings.Join(sites, " "))
		// the keeper's fields: a map / cache / pointer to mutable state at keeper level would outlive the store
		kf, err := c.Parse("x/consensus/keeper/keeper.go")
		if err != nil {
			return err
		}
		var fields []string
		for _, d := range kf.Decls {
			gd, ok := d.(*ast.GenDecl)
			if !ok {
				continue
			}
			for _, sp := range gd.Specs {
				ts, ok := sp.(*ast.TypeSpec)
				if !ok || ts.Name.Name != "Keeper" {
					continue
				}
				st, ok := ts.Type.(*ast.StructType)
				if !ok {
					return fmt.Errorf("consensus Keeper is not a struct")
				}
				for _, fl := range st.Fields.List {
					for _, n := range fl.Names {
						fields = append(fields, fmt.Sprintf("(%s, %s)", CoqStr(n.Name), CoqStr(c05norm(c.Src(fl.Type)))))
					}
					if len(fl.Names) == 0 {
						fields = append(fields, fmt.Sprintf("(%s, %s)", CoqStr("<embedded>"), CoqStr(c05norm(c.Src(fl.Type)))))
					}
				}
			}
		}
		c.P("Definition consensus_keeper_fields : list (string * string) := [%s].", strings.Join(fields, "; "))
		// package-level variables of the keeper packages holding maps / sync primitives
		nv := 0
		for _, dir := range []string{"x/consensus/keeper", "x/consensus/keeper/consensus"} {
			fs, _ := c.ParseDir(dir)
			for _, f := range fs {
				for _, d := range f.Decls {
					gd, ok := d.(*ast.GenDecl)
					if !ok || gd.Tok != token.VAR {
						continue
					}
					src := c05norm(c.Src(gd))
					if strings.Contains(src, "map[") || strings.Contains(src, "sync.") {
						nv++
					}
				}
			}
		}
		c.P("Definition consensus_package_level_maps : Z := %d. (* package-level vars with a map / sync type in x/consensus/keeper(/consensus) *)", nv)
	}

	// ---- skyway: the bytes to sign stored with a batch follow the chain's compass ----
	{
		sb, err := c.Parse("x/skyway/keeper/batch.go")
		if err != nil {
			return err
		}
		rf := FindFunc(sb, "Keeper", "refreshOpenBatchCheckpoints")
		if rf == nil {
			return fmt.Errorf("Keeper.refreshOpenBatchCheckpoints not found")
		}
		// the loop over the open batches: every way a batch can be skipped
		var loop *ast.RangeStmt
		for _, st := range rf.Body.List {
			if rs, ok := st.(*ast.RangeStmt); ok && c05norm(c.Src(rs.X)) == "batches" {
				if loop != nil {
					return fmt.Errorf("refreshOpenBatchCheckpoints: more than one loop over batches")
				}
				loop = rs
			}
		}
		if loop == nil {
			return fmt.Errorf("refreshOpenBatchCheckpoints: `for _, batch := range batches` not found")
		}
		var skips []string
		ast.Inspect(loop.Body, func(n ast.Node) bool {
			is, ok := n.(*ast.IfStmt)
			if !ok {
				return true
			}
			leaves := false
			ast.Inspect(is.Body, func(m ast.Node) bool {
				if bs, ok := m.(*ast.BranchStmt); ok && (bs.Tok == token.CONTINUE || bs.Tok == token.BREAK || bs.Tok == token.GOTO) {
					leaves = true
				}
				if rs, ok := m.(*ast.ReturnStmt); ok && len(rs.Results) == 1 && c05norm(c.Src(rs.Results[0])) == "nil" {
					leaves = true // a silent early exit leaves the remaining batches as they are
				}
				return true
			})
			if leaves {
				skips = append(skips, CoqStr(c05norm(c.Src(is.Cond))))
			}
			return true
		})
		c.P("Definition batch_refresh_skip_conditions : list string := [%s]. (* refreshOpenBatchCheckpoints: conditions under which an open batch is left as it is *)", strings.Join(skips, "; "))
		lb := c05norm(c.Src(loop.Body))
		c.P("Definition batch_refresh_rewrites_bytes : bool := %v. (* bts, err := batch.GetCheckpoint(compassID) ... batch.BytesToSign = bts ... store.Set(key, batch) ... DeleteBatchConfirms *)",
			strings.Contains(lb, "bts,err:=batch.GetCheckpoint(compassID)") && strings.Contains(lb, "batch.BytesToSign=bts") &&
				strings.Contains(lb, "store.Set(types.GetOutgoingTxBatchKey(batch.TokenContract,batch.BatchNonce),k.cdc.MustMarshal(&externalBatch))") &&
				strings.Contains(lb, "k.DeleteBatchConfirms(ctx,batch)"))
		c.P("Definition batch_refresh_reads_all_open_batches : bool := %v.", strings.Contains(c05norm(c.Src(rf.Body)), "batches,err:=k.GetOutgoingTxBatches(ctx)"))
		sk, err := c.Parse("x/skyway/keeper/keeper.go")
		if err != nil {
			return err
		}
		sub := false
		for _, d := range sk.Decls {
			if fd, ok := d.(*ast.FuncDecl); ok && fd.Body != nil {
				b := c05norm(c.Src(fd.Body))
				if strings.Contains(b, "eventbus.EVMActivatedChain().Subscribe(") &&
					strings.Contains(b, "iferr:=k.refreshOpenBatchCheckpoints(ctx,e.ChainReferenceID,string(e.SmartContractUniqueID));err!=nil{returnerr}") {
					sub = true
				}
			}
		}
		c.P("Definition batch_refresh_on_compass_activation : bool := %v. (* the skyway subscriber of EVMActivatedChain calls it with the event's chain and compass id *)", sub)
		ue := FindFunc(sb, "Keeper", "UpdateBatchGasEstimate")
		okUE := false
		if ue != nil {
			b := c05norm(c.Src(ue.Body))
			okUE = strings.Contains(b, "entity.GasEstimate=estimate") && strings.Contains(b, "bts,err:=entity.GetCheckpoint(string(ci.SmartContractUniqueID))") && strings.Contains(b, "entity.BytesToSign=bts")
		}
		c.P("Definition batch_estimate_election_rewrites_bytes : bool := %v.", okUE)
		// every write of a batch's BytesToSign in the skyway keeper
		var writes []string
		kfs, err := c.ParseDir("x/skyway/keeper")
		if err != nil {
			return err
		}
		for _, f := range kfs {
			if strings.Contains(filepath.Base(c.Fset.File(f.Pos()).Name()), "verif_hooks") {
				continue
			}
			for _, d := range f.Decls {
				fd, ok := d.(*ast.FuncDecl)
				if !ok || fd.Body == nil {
					continue
				}
				ast.Inspect(fd.Body, func(n ast.Node) bool {
					as, ok := n.(*ast.AssignStmt)
					if !ok {
						return true
					}
					for _, l := range as.Lhs {
						if se, ok := l.(*ast.SelectorExpr); ok && se.Sel.Name == "BytesToSign" {
							writes = append(writes, CoqStr(fd.Name.Name+":"+c05norm(c.Src(as))))
						}
					}
					return true
				})
			}
		}
		sort.Strings(writes)
		c.P("Definition batch_bytes_to_sign_writes : list string := [%s].", strings.Join(writes, "; "))
	}

	if len(errs) > 0 {
		sort.Strings(errs)
		return fmt.Errorf("%s", strings.Join(errs, "\n"))
	}
	return nil
}
