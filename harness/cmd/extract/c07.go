package main

import (
	"fmt"
	"go/ast"
	"go/token"
	"os"
	"path/filepath"
	"regexp"
	"sort"
	"strings"
)

// C07: what each VerifyAgainstTX re-packs (the ordered list of message / queue fields that flow
// into every argument of contractABI.Pack("<method>", ...)), the shape of the signature-prefix
// loop, the byte comparison, and the three gates of x/evm/keeper/attest.go (flush condition of the
// wrapper's cache context, receipt status gate, processed-set check before verification).
func init() { extractors["C07"] = extractC07 }

type c07fn struct {
	c      *Ctx
	fd     *ast.FuncDecl
	locals map[string]ast.Expr // single-assignment locals `x := rhs`
}

var c07roots = map[string]bool{"m": true, "msg": true, "valset": true, "relayer": true, "arg": true}

func (x *c07fn) collectLocals() {
	x.locals = map[string]ast.Expr{}
	ast.Inspect(x.fd.Body, func(n ast.Node) bool {
		as, ok := n.(*ast.AssignStmt)
		if !ok || as.Tok != token.DEFINE || len(as.Lhs) != len(as.Rhs) {
			return true
		}
		for i, l := range as.Lhs {
			if id, ok := l.(*ast.Ident); ok && !c07roots[id.Name] {
				x.locals[id.Name] = as.Rhs[i]
			}
		}
		return true
	})
}

// path of a selector / getter chain rooted at one of the roots: m.GetFees().RelayerFee -> m.Fees.RelayerFee
func c07path(e ast.Expr) (string, bool) {
	switch v := e.(type) {
	case *ast.Ident:
		if c07roots[v.Name] {
			return v.Name, true
		}
	case *ast.SelectorExpr:
		if p, ok := c07path(v.X); ok {
			return p + "." + strings.TrimPrefix(v.Sel.Name, "Get"), true
		}
	case *ast.CallExpr:
		if se, ok := v.Fun.(*ast.SelectorExpr); ok && len(v.Args) == 0 && strings.HasPrefix(se.Sel.Name, "Get") {
			return c07path(se)
		}
	case *ast.ParenExpr:
		return c07path(v.X)
	}
	return "", false
}

// leaves: the distinct message/queue sources an expression is computed from, in order of appearance
func (x *c07fn) leaves(e ast.Expr, seen map[string]bool, out *[]string, depth int) error {
	if depth > 12 {
		return fmt.Errorf("local definitions nest too deep in %s", x.fd.Name.Name)
	}
	var err error
	add := func(s string) {
		if !seen[s] {
			seen[s] = true
			*out = append(*out, s)
		}
	}
	ast.Inspect(e, func(n ast.Node) bool {
		if err != nil || n == nil {
			return false
		}
		switch v := n.(type) {
		case *ast.SliceExpr:
			if p, ok := c07path(v.X); ok {
				lo, hi := "", ""
				if v.Low != nil {
					lo = x.c.Src(v.Low)
				}
				if v.High != nil {
					hi = x.c.Src(v.High)
				}
				add(fmt.Sprintf("%s[%s:%s]", p, lo, hi))
				return false
			}
		case *ast.FuncLit:
			for _, st := range v.Body.List {
				if rs, ok := st.(*ast.ReturnStmt); ok {
					for _, r := range rs.Results {
						if e2 := x.leaves(r, seen, out, depth+1); e2 != nil {
							err = e2
						}
					}
				} else {
					err = fmt.Errorf("%s: function literal with a statement other than return", x.fd.Name.Name)
				}
			}
			return false
		case *ast.CallExpr:
			if p, ok := c07path(v); ok {
				add(p)
				return false
			}
		case *ast.SelectorExpr:
			if p, ok := c07path(v); ok {
				add(p)
				return false
			}
			// pkg.Func / value.Method: only the receiver expression can carry data
			if id, ok := v.X.(*ast.Ident); ok {
				if rhs, isLocal := x.locals[id.Name]; isLocal {
					if e2 := x.leaves(rhs, seen, out, depth+1); e2 != nil {
						err = e2
					}
				}
				return false
			}
		case *ast.Ident:
			if c07roots[v.Name] {
				add(v.Name)
			} else if rhs, ok := x.locals[v.Name]; ok {
				if e2 := x.leaves(rhs, seen, out, depth+1); e2 != nil {
					err = e2
				}
			}
		case *ast.KeyValueExpr:
			if e2 := x.leaves(v.Value, seen, out, depth+1); e2 != nil {
				err = e2
			}
			return false
		}
		return true
	})
	return err
}

// components: one ABI argument may be a struct literal (or a local holding one) or the
// BuildCompassConsensus call: split those into their parts, everything else is one component
func (x *c07fn) components(e ast.Expr, depth int) ([]ast.Expr, error) {
	if depth > 6 {
		return nil, fmt.Errorf("argument nesting too deep")
	}
	switch v := e.(type) {
	case *ast.Ident:
		if rhs, ok := x.locals[v.Name]; ok {
			if _, isLit := rhs.(*ast.CompositeLit); isLit {
				return x.components(rhs, depth+1)
			}
		}
	case *ast.CompositeLit:
		if _, isArr := v.Type.(*ast.ArrayType); isArr || v.Type == nil {
			break
		}
		var out []ast.Expr
		for _, el := range v.Elts {
			if kv, ok := el.(*ast.KeyValueExpr); ok {
				el = kv.Value
			}
			cs, err := x.components(el, depth+1)
			if err != nil {
				return nil, err
			}
			out = append(out, cs...)
		}
		return out, nil
	case *ast.CallExpr:
		if id, ok := v.Fun.(*ast.Ident); ok && id.Name == "BuildCompassConsensus" {
			if len(v.Args) != 2 {
				return nil, fmt.Errorf("BuildCompassConsensus: expected 2 arguments")
			}
			return []ast.Expr{v.Args[0], v.Args[1]}, nil
		}
	}
	return []ast.Expr{e}, nil
}

var c07tokens = map[string]string{
	"valset":                  "F_cur_valset",
	"msg.SignData[0:i]":       "F_sig_prefix",
	"m.HexContractAddress":    "F_contract_address",
	"m.Payload":               "F_payload",
	"m.Fees.RelayerFee":       "F_fee_relayer",
	"m.Fees.CommunityFee":     "F_fee_community",
	"m.Fees.SecurityFee":      "F_fee_security",
	"m.SenderAddress":         "F_sender",
	"msg.Id":                  "F_msg_id",
	"m.Deadline":              "F_deadline",
	"relayer":                 "F_relayer",
	"m.Valset":                "F_new_valset",
	"msg.GasEstimate":         "F_gas_estimate",
	"m.DeployerAddress":       "F_deployer",
	"m.Bytecode":              "F_bytecode",
	"m.ConstructorInput":      "F_constructor_input",
	"m.ForwardCallArgs+arg.HexContractAddress+arg.Payload": "F_forward_calls",
}

var c07fieldOrder = []string{"F_cur_valset", "F_sig_prefix", "F_contract_address", "F_payload", "F_fee_relayer",
	"F_fee_community", "F_fee_security", "F_sender", "F_msg_id", "F_deadline", "F_relayer", "F_new_valset",
	"F_gas_estimate", "F_deployer", "F_bytecode", "F_constructor_input", "F_forward_calls"}

func (x *c07fn) packed(method string) ([]string, error) {
	name := x.fd.Name.Name
	var loop *ast.ForStmt
	ast.Inspect(x.fd.Body, func(n ast.Node) bool {
		if f, ok := n.(*ast.ForStmt); ok && loop == nil {
			loop = f
		}
		return true
	})
	if loop == nil {
		return nil, fmt.Errorf("%s: no signature-prefix loop", name)
	}
	hdr := fmt.Sprintf("%s; %s; %s", x.c.Src(loop.Init), x.c.Src(loop.Cond), x.c.Src(loop.Post))
	if hdr != "i := len(msg.GetSignData()); i > 0; i--" {
		return nil, fmt.Errorf("%s: signature-prefix loop header is `%s`", name, hdr)
	}
	packs := Calls(loop.Body, "Pack")
	if len(packs) != 1 || len(packs[0].Args) != 2 || !packs[0].Ellipsis.IsValid() {
		return nil, fmt.Errorf("%s: expected exactly one contractABI.Pack(\"%s\", args...) in the loop", name, method)
	}
	if got := x.c.Src(packs[0].Args[0]); got != "\""+method+"\"" {
		return nil, fmt.Errorf("%s: packs method %s, expected \"%s\"", name, got, method)
	}
	// args := []any{...} inside the loop
	var lit *ast.CompositeLit
	argName := x.c.Src(packs[0].Args[1])
	var packLhs string
	for _, st := range loop.Body.List {
		as, ok := st.(*ast.AssignStmt)
		if !ok {
			continue
		}
		if len(as.Lhs) == 1 && x.c.Src(as.Lhs[0]) == argName {
			lit, _ = as.Rhs[0].(*ast.CompositeLit)
		}
		if len(as.Rhs) == 1 && as.Rhs[0] == ast.Expr(packs[0]) && len(as.Lhs) == 2 {
			packLhs = x.c.Src(as.Lhs[0])
		}
	}
	if lit == nil || packLhs == "" {
		return nil, fmt.Errorf("%s: `%s := []any{...}` / `input, err := Pack(...)` not recognised", name, argName)
	}
	// if bytes.Equal(tx.Data(), input) { ...; return nil }
	okCmp := false
	for _, st := range loop.Body.List {
		is, ok := st.(*ast.IfStmt)
		if !ok || x.c.Src(is.Cond) != "bytes.Equal(tx.Data(), "+packLhs+")" {
			continue
		}
		if n := len(is.Body.List); n > 0 {
			if rs, ok := is.Body.List[n-1].(*ast.ReturnStmt); ok && len(rs.Results) == 1 && x.c.Src(rs.Results[0]) == "nil" {
				okCmp = true
			}
		}
	}
	if !okCmp {
		return nil, fmt.Errorf("%s: `if bytes.Equal(tx.Data(), %s) { return nil }` not found in the loop", name, packLhs)
	}
	// after the loop the only way out is ErrEthTxNotVerified
	last := x.fd.Body.List[len(x.fd.Body.List)-1]
	if rs, ok := last.(*ast.ReturnStmt); !ok || len(rs.Results) != 1 || x.c.Src(rs.Results[0]) != "ErrEthTxNotVerified" {
		return nil, fmt.Errorf("%s: does not end in `return ErrEthTxNotVerified`", name)
	}
	var out []string
	for _, el := range lit.Elts {
		comps, err := x.components(el, 0)
		if err != nil {
			return nil, fmt.Errorf("%s: %v", name, err)
		}
		for _, ce := range comps {
			var ls []string
			if err := x.leaves(ce, map[string]bool{}, &ls, 0); err != nil {
				return nil, err
			}
			tok := strings.Join(ls, "+")
			f, ok := c07tokens[tok]
			if !ok {
				return nil, fmt.Errorf("%s: argument component `%s` is computed from `%s`, which the translator does not know", name, x.c.Src(ce), tok)
			}
			out = append(out, f)
		}
	}
	return out, nil
}

func extractC07(c *Ctx) error {
	f, err := c.Parse("x/evm/types/eth_txable.go")
	if err != nil {
		return err
	}
	c.P("Inductive field := %s.", strings.Join(c07fieldOrder, " | "))
	c.P("Definition field_index (f : field) : Z := match f with %s end.", func() string {
		var s []string
		for i, n := range c07fieldOrder {
			s = append(s, fmt.Sprintf("| %s => %d", n, i))
		}
		return strings.Join(s, " ")
	}())
	type ent struct{ recv, method, coq string }
	ents := []ent{
		{"SubmitLogicCall", "submit_logic_call", "packed_submit_logic_call"},
		{"UpdateValset", "update_valset", "packed_update_valset"},
		{"CompassHandover", "compass_update_batch", "packed_compass_handover"},
		{"UploadUserSmartContract", "deploy_contract", "packed_upload_user_contract"},
	}
	info := map[string][]string{}
	for _, e := range ents {
		fd := FindFunc(f, e.recv, "VerifyAgainstTX")
		if fd == nil {
			return fmt.Errorf("%s.VerifyAgainstTX not found", e.recv)
		}
		x := &c07fn{c: c, fd: fd}
		x.collectLocals()
		fs, err := x.packed(e.method)
		if err != nil {
			return err
		}
		c.P("(* x/evm/types/eth_txable.go: %s.VerifyAgainstTX packs \"%s\" *)", e.recv, e.method)
		c.P("Definition %s : list field := [%s].", e.coq, strings.Join(fs, "; "))
		c.P("Definition method_%s : string := %s.", e.coq[len("packed_"):], CoqStr(e.method))
		info[e.method] = fs
	}
	// the two fee-carrying actions refuse a message without fees before touching m.Fees
	var nilFees []string
	for _, recv := range []string{"SubmitLogicCall", "UploadUserSmartContract"} {
		fd := FindFunc(f, recv, "VerifyAgainstTX")
		ok := false
		for _, st := range fd.Body.List {
			is, isIf := st.(*ast.IfStmt)
			if isIf && c.Src(is.Cond) == "m.Fees == nil" && len(is.Body.List) > 0 {
				if rs, isRet := is.Body.List[len(is.Body.List)-1].(*ast.ReturnStmt); isRet && len(rs.Results) == 1 && c.Src(rs.Results[0]) == "ErrEthTxNotVerified" {
					ok = true
				}
				break
			}
			if strings.Contains(c.Src(st), "m.Fees.") {
				break // fees used before any nil check
			}
		}
		if ok {
			nilFees = append(nilFees, recv)
		}
	}
	c.P("(* VerifyAgainstTX starts with `if m.Fees == nil { ...; return ErrEthTxNotVerified }` in *)")
	c.P("Definition nil_fees_not_verified : list string := %s.", CoqStrList(nilFees))
	c.Info("nil_fees_not_verified", nilFees)
	// UploadSmartContract: bytecode ++ re-packed constructor input, compared as a whole, no loop
	fd := FindFunc(f, "UploadSmartContract", "VerifyAgainstTX")
	if fd == nil {
		return fmt.Errorf("UploadSmartContract.VerifyAgainstTX not found")
	}
	src := c.Src(fd.Body)
	for _, need := range []string{"copy(mData, m.GetBytecode())", "Unpack(m.GetConstructorInput())", "contractABI.Pack(\"\", params...)",
		"mData = append(mData, input...)", "!bytes.Equal(tx.Data(), mData)"} {
		if !strings.Contains(src, need) {
			return fmt.Errorf("UploadSmartContract.VerifyAgainstTX: `%s` not found", need)
		}
	}
	hasLoop := false
	ast.Inspect(fd.Body, func(n ast.Node) bool {
		if _, ok := n.(*ast.ForStmt); ok {
			hasLoop = true
		}
		return true
	})
	if hasLoop {
		return fmt.Errorf("UploadSmartContract.VerifyAgainstTX: unexpected loop")
	}
	c.P("(* UploadSmartContract.VerifyAgainstTX: tx.Data() == bytecode ++ Pack(\"\", Unpack(constructor input)) *)")
	c.P("Definition packed_upload_compass : list field := [F_bytecode; F_constructor_input].")
	info["<deploy>"] = []string{"F_bytecode", "F_constructor_input"}
	c.P("Definition sig_prefix_loop : string := \"i := len(msg.GetSignData()); i > 0; i--\".")

	// ---- x/evm/keeper/attest.go ----
	af, err := c.Parse("x/evm/keeper/attest.go")
	if err != nil {
		return err
	}
	w := FindFunc(af, "Keeper", "attestMessageWrapper")
	if w == nil {
		return fmt.Errorf("attestMessageWrapper not found")
	}
	// the deferred `if <cond> { writeCache() }`
	var flush []string
	ast.Inspect(w.Body, func(n ast.Node) bool {
		is, ok := n.(*ast.IfStmt)
		if !ok || len(is.Body.List) != 1 || c.Src(is.Body.List[0]) != "writeCache()" {
			return true
		}
		var walk func(e ast.Expr) bool
		walk = func(e ast.Expr) bool {
			if be, ok := e.(*ast.BinaryExpr); ok && be.Op == token.LOR {
				return walk(be.X) && walk(be.Y)
			}
			s := c.Src(e)
			switch {
			case s == "retErr == nil":
				flush = append(flush, "nil")
			case strings.HasPrefix(s, "errors.Is(retErr, types.") && strings.HasSuffix(s, ")"):
				flush = append(flush, strings.TrimSuffix(strings.TrimPrefix(s, "errors.Is(retErr, types."), ")"))
			default:
				flush = append(flush, "?"+s)
			}
			return true
		}
		walk(is.Cond)
		return true
	})
	if len(flush) == 0 {
		return fmt.Errorf("attestMessageWrapper: deferred `if ... { writeCache() }` not found")
	}
	if strings.Count(c.Src(w.Body), "writeCache()") != 1 {
		return fmt.Errorf("attestMessageWrapper: writeCache() is called in more than one place")
	}
	c.P("(* x/evm/keeper/attest.go attestMessageWrapper: the cache context is written iff the attester returned one of *)")
	c.P("Definition flush_on : list string := %s.", CoqStrList(flush))
	// the attester and the queue removal both run on the cache context
	if !strings.Contains(c.Src(w.Body), "q.Remove(cacheCtx, msg.GetId())") || !strings.Contains(c.Src(w.Body), "return fn(cacheCtx, q, msg, result.Winner)") {
		return fmt.Errorf("attestMessageWrapper: attester / q.Remove no longer run on cacheCtx")
	}
	c.P("Definition attester_and_removal_on_cache_ctx : bool := true.")

	ra := FindFunc(af, "Keeper", "routerAttester")
	if ra == nil {
		return fmt.Errorf("routerAttester not found")
	}
	gate := ""
	ast.Inspect(ra.Body, func(n ast.Node) bool {
		is, ok := n.(*ast.IfStmt)
		if !ok || !strings.Contains(c.Src(is.Cond), "receipt.Status") {
			return true
		}
		if k := len(is.Body.List); k > 0 {
			if rs, ok := is.Body.List[k-1].(*ast.ReturnStmt); ok && len(rs.Results) == 1 {
				gate = c.Src(is.Cond) + " => " + c.Src(rs.Results[0])
			}
		}
		return true
	})
	c.P("Definition receipt_gate : string := %s.", CoqStr(gate))
	// the receipt gate comes before the action switch
	body := c.Src(ra.Body)
	ig, is := strings.Index(body, "receipt.Status"), strings.Index(body, "switch rawAction.(type)")
	c.P("Definition receipt_gate_before_actions : bool := %v.", ig >= 0 && is >= 0 && ig < is)
	// what the deferred function reports to the metrix listener
	flag := "?"
	switch {
	case strings.Contains(body, "success = retErr == nil") || strings.Contains(body, "success = err == nil"):
		flag = "attester returned nil"
	case strings.Contains(body, "success = true"):
		flag = "winner is a transaction proof"
	}
	c.P("Definition relay_success_means : string := %s.", CoqStr(flag))

	ti := FindFunc(af, "", "attestTransactionIntegrity")
	if ti == nil {
		return fmt.Errorf("attestTransactionIntegrity not found")
	}
	tb := c.Src(ti.Body)
	ip, iv := strings.Index(tb, "k.isTxProcessed(ctx, tx)"), strings.Index(tb, "verifyTx(ctx, tx, msg, &valset, compass, relayer)")
	if ip < 0 || iv < 0 {
		return fmt.Errorf("attestTransactionIntegrity: processed check / verifyTx call not recognised")
	}
	c.P("Definition processed_check_before_verify : bool := %v.", ip < iv)
	keyedByHash := true
	for _, fn := range []string{"setTxAsAlreadyProcessed", "isTxProcessed"} {
		d := FindFunc(af, "Keeper", fn)
		if d == nil {
			return fmt.Errorf("%s not found", fn)
		}
		if !strings.Contains(c.Src(d.Body), "(tx.Hash().Bytes()") {
			keyedByHash = false // reported through the definition: gates_as_modelled breaks
		}
	}
	c.P("Definition processed_set_keyed_by_tx_hash : bool := %v.", keyedByHash)
	// isTxProcessed must be pure key presence: anything else (value, block height, time) is an unknown shape
	itp := FindFunc(af, "Keeper", "isTxProcessed")
	// (reported through the generated definition, so that the theorem gates_as_modelled -- the proof step -- breaks,
	// together with the list of functions that delete from the store)
	consults := "key presence"
	if len(itp.Body.List) != 2 || c.Src(itp.Body.List[0]) != "kv := k.txAlreadyProcessedStore(ctx)" ||
		c.Src(itp.Body.List[1]) != "return kv.Has(tx.Hash().Bytes())" {
		consults = "UNKNOWN SHAPE (more than key presence): " + strings.Join(strings.Fields(c.Src(itp.Body)), " ")
	}
	c.P("Definition is_tx_processed_consults : string := %s.", CoqStr(consults))
	c.Info("is_tx_processed_consults", consults)
	// who touches the processed-tx store at all, and who deletes from / iterates over it
	users, deleters := map[string]bool{}, map[string]bool{}
	for _, dir := range []string{"x/evm", "x/evm/keeper"} {
		ents, err := os.ReadDir(filepath.Join(c.Repo, dir))
		if err != nil {
			return err
		}
		for _, e := range ents {
			n := e.Name()
			if e.IsDir() || !strings.HasSuffix(n, ".go") || strings.HasSuffix(n, "_test.go") || strings.HasPrefix(n, "verif_hooks") {
				continue
			}
			pf, err := c.Parse(filepath.Join(dir, n))
			if err != nil {
				return err
			}
			for _, d := range pf.Decls {
				fd, ok := d.(*ast.FuncDecl)
				if !ok || fd.Body == nil {
					continue
				}
				b := c.Src(fd.Body)
				if !strings.Contains(b, "txAlreadyProcessedStore(") && !strings.Contains(b, "\"tx-processed\"") {
					continue
				}
				users[fd.Name.Name] = true
				if strings.Contains(b, ".Delete(") || strings.Contains(b, "Iterator(") {
					deleters[fd.Name.Name] = true
				}
			}
		}
	}
	c.P("(* every function of x/evm that reaches the \"tx-processed\" store; those that delete from or iterate over it *)")
	c.P("Definition processed_store_users : list string := %s.", CoqStrList(SortedSet(users)))
	c.P("Definition processed_store_deleters : list string := %s.", CoqStrList(SortedSet(deleters)))
	c.Info("processed_store_users", SortedSet(users))
	c.Info("processed_store_deleters", SortedSet(deleters))
	// ---- x/consensus/keeper/attest.go: what the end-blocker loop does when attesting one message fails ----
	cf, err := c.Parse("x/consensus/keeper/attest.go")
	if err != nil {
		return err
	}
	cl := FindFunc(cf, "Keeper", "CheckAndProcessAttestedMessages")
	if cl == nil {
		return fmt.Errorf("CheckAndProcessAttestedMessages not found")
	}
	onErr := ""
	ast.Inspect(cl.Body, func(n ast.Node) bool {
		is, ok := n.(*ast.IfStmt)
		if !ok || is.Init == nil || !strings.Contains(c.Src(is.Init), "ProcessMessageForAttestation(") || c.Src(is.Cond) != "err != nil" || len(is.Body.List) == 0 {
			return true
		}
		switch last := is.Body.List[len(is.Body.List)-1].(type) {
		case *ast.BranchStmt:
			if last.Tok == token.CONTINUE && last.Label == nil {
				onErr = "continue"
			}
		case *ast.ReturnStmt:
			if len(last.Results) == 1 && c.Src(last.Results[0]) == "err" {
				onErr = "return"
			}
		}
		return true
	})
	if onErr == "" {
		return fmt.Errorf("CheckAndProcessAttestedMessages: `if err := opt.ProcessMessageForAttestation(...); err != nil { ...; continue | return err }` not recognised")
	}
	if n := len(Calls(cl.Body, "ProcessMessageForAttestation")); n != 1 {
		return fmt.Errorf("CheckAndProcessAttestedMessages: %d calls of ProcessMessageForAttestation", n)
	}
	c.P("(* x/consensus/keeper/attest.go CheckAndProcessAttestedMessages: when attesting one message fails *)")
	c.P("Definition endblock_on_attest_error : string := %s.", CoqStr(onErr))
	c.Info("endblock_on_attest_error", onErr)
	c.Info("packed", info)
	c.Info("flush_on", flush)
	c.Info("receipt_gate", gate)
	c.Info("relay_success_means", flag)
	return extractC07Evidence(c)
}

// resolve an expression through the single-assignment locals of a function (`x, err := rhs` binds x
// to rhs when rhs is one call): identifiers are replaced by what they were defined as
func c07resolve(c *Ctx, locals map[string]ast.Expr, e ast.Expr, depth int) string {
	if depth > 8 {
		return "?" + c.Src(e)
	}
	switch v := e.(type) {
	case *ast.Ident:
		if r, ok := locals[v.Name]; ok {
			return c07resolve(c, locals, r, depth+1)
		}
		return v.Name
	case *ast.SelectorExpr:
		return c07resolve(c, locals, v.X, depth+1) + "." + v.Sel.Name
	case *ast.CallExpr:
		as := make([]string, len(v.Args))
		for i, a := range v.Args {
			as[i] = c07resolve(c, locals, a, depth+1)
		}
		return c07resolve(c, locals, v.Fun, depth+1) + "(" + strings.Join(as, ", ") + ")"
	}
	return strings.Join(strings.Fields(c.Src(e)), " ")
}

// second round: the seam between evidence consensus and the attester.  What the bytes by which the
// validators' reports are grouped cover (TxExecutedProof.BytesToHash must be the WHOLE serialised
// transaction followed by the WHOLE serialised receipt; anything else is reported through the
// generated definitions, so that the proofs that need the coverage break), how the proof's two
// byte fields are decoded, who is handed to the attester, and the wrapper's handling of "nothing
// agreed on".
func extractC07Evidence(c *Ctx) error {
	pf, err := c.Parse("x/evm/types/proofs_hash_bytes.go")
	if err != nil {
		return err
	}
	bth := FindFunc(pf, "TxExecutedProof", "BytesToHash")
	if bth == nil {
		return fmt.Errorf("TxExecutedProof.BytesToHash not found")
	}
	locals := map[string]ast.Expr{}
	ast.Inspect(bth.Body, func(n ast.Node) bool {
		as, ok := n.(*ast.AssignStmt)
		if !ok || as.Tok != token.DEFINE || len(as.Rhs) != 1 || len(as.Lhs) == 0 {
			return true
		}
		if id, ok := as.Lhs[0].(*ast.Ident); ok && id.Name != "_" && id.Name != "err" {
			if _, dup := locals[id.Name]; dup {
				locals[id.Name] = &ast.Ident{Name: "?reassigned:" + id.Name}
			} else {
				locals[id.Name] = as.Rhs[0]
			}
		}
		return true
	})
	// plain assignments to a local make it unknown
	ast.Inspect(bth.Body, func(n ast.Node) bool {
		if as, ok := n.(*ast.AssignStmt); ok && as.Tok == token.ASSIGN {
			for _, l := range as.Lhs {
				if id, ok := l.(*ast.Ident); ok && id.Name != "err" && id.Name != "_" {
					locals[id.Name] = &ast.Ident{Name: "?reassigned:" + id.Name}
				}
			}
		}
		return true
	})
	// the statements: the last one returns the bytes with a receipt; an `if h.SerializedReceipt == nil { return ... }` the bytes without
	var parts []string
	without := "?"
	nReturnsOK := 0
	for _, st := range bth.Body.List {
		switch v := st.(type) {
		case *ast.IfStmt:
			if c.Src(v.Cond) == "h.SerializedReceipt == nil" && len(v.Body.List) >= 1 {
				if rs, ok := v.Body.List[len(v.Body.List)-1].(*ast.ReturnStmt); ok && len(rs.Results) >= 1 {
					without = c07resolve(c, locals, rs.Results[0], 0)
				}
			}
		case *ast.ReturnStmt:
			if len(v.Results) == 2 && c.Src(v.Results[1]) == "nil" {
				nReturnsOK++
				r := v.Results[0]
				if ce, ok := r.(*ast.CallExpr); ok && c.Src(ce.Fun) == "slices.Concat" {
					for _, a := range ce.Args {
						parts = append(parts, c07resolve(c, locals, a, 0))
					}
				} else {
					parts = append(parts, c07resolve(c, locals, r, 0))
				}
			}
		}
	}
	if nReturnsOK != 1 {
		parts = append(parts, fmt.Sprintf("?%d top-level returns of bytes", nReturnsOK))
	}
	const fullTx, fullRc = "h.GetTX().MarshalBinary()", "h.GetReceipt().MarshalBinary()"
	coversTx := len(parts) >= 1 && parts[0] == fullTx && without == fullTx
	coversRc := len(parts) == 2 && parts[0] == fullTx && parts[1] == fullRc
	c.P("(* x/evm/types/proofs_hash_bytes.go TxExecutedProof.BytesToHash: the bytes the reports are grouped by, resolved to the proof's own parts *)")
	c.P("Definition bth_tx_proof_parts : list string := %s.", CoqStrList(parts))
	c.P("Definition bth_without_receipt : string := %s.", CoqStr(without))
	c.P("Definition bth_covers_full_tx : bool := %v.", coversTx)
	c.P("Definition bth_covers_full_receipt : bool := %v.", coversRc)
	c.Info("bth_tx_proof_parts", parts)
	c.Info("bth_without_receipt", without)
	// GetTX / GetReceipt decode exactly the two byte fields
	dec := func(fn, want string) string {
		d := FindFunc(pf, "TxExecutedProof", fn)
		if d == nil {
			return "?missing"
		}
		if cs := Calls(d.Body, "UnmarshalBinary"); len(cs) == 1 && c.Src(cs[0]) == want {
			return want
		}
		return "?" + strings.Join(strings.Fields(c.Src(d.Body)), " ")
	}
	c.P("Definition get_tx_decodes : string := %s.", CoqStr(dec("GetTX", "tx.UnmarshalBinary(h.SerializedTX)")))
	c.P("Definition get_receipt_decodes : string := %s.", CoqStr(dec("GetReceipt", "receipt.UnmarshalBinary(h.SerializedReceipt)")))
	eb := FindFunc(pf, "SmartContractExecutionErrorProof", "BytesToHash")
	ebs := "?missing"
	if eb != nil && len(eb.Body.List) == 1 {
		if rs, ok := eb.Body.List[0].(*ast.ReturnStmt); ok && len(rs.Results) == 2 {
			ebs = c.Src(rs.Results[0])
		}
	}
	c.P("Definition bth_error_proof : string := %s.", CoqStr(ebs))

	// util/libcons VerifyEvidence: the winner handed out is the evidence that opened the winning group
	lf, err := c.Parse("util/libcons/consensus.go")
	if err != nil {
		return err
	}
	ve := FindFunc(lf, "ConsensusChecker", "VerifyEvidence")
	if ve == nil {
		return fmt.Errorf("ConsensusChecker.VerifyEvidence not found")
	}
	rep := "?"
	ast.Inspect(ve.Body, func(n ast.Node) bool {
		is, ok := n.(*ast.IfStmt)
		if ok && c.Src(is.Cond) == "val.evidence == nil" && len(is.Body.List) == 1 && c.Src(is.Body.List[0]) == "val.evidence = hashable" && is.Else == nil {
			rep = "first evidence of the group"
		}
		return true
	})
	vsrc := c.Src(ve.Body)
	if strings.Count(vsrc, "val.evidence = ") != 1 || strings.Count(vsrc, "result.Winner =") != 1 || !strings.Contains(vsrc, "result.Winner = group.evidence") {
		rep = "?winner is not simply the group's stored evidence"
	}
	c.P("(* util/libcons/consensus.go VerifyEvidence: result.Winner *)")
	c.P("Definition winner_is : string := %s.", CoqStr(rep))

	// attestMessageWrapper: no evidence -> nil; consensus not achieved -> nil; other errors returned; the winner goes to the attester
	af, err := c.Parse("x/evm/keeper/attest.go")
	if err != nil {
		return err
	}
	w := FindFunc(af, "Keeper", "attestMessageWrapper")
	if w == nil {
		return fmt.Errorf("attestMessageWrapper not found")
	}
	var seam []string
	if len(w.Body.List) > 0 {
		if is, ok := w.Body.List[0].(*ast.IfStmt); ok && c.Src(is.Cond) == "len(msg.GetEvidence()) == 0" && len(is.Body.List) == 1 && c.Src(is.Body.List[0]) == "return nil" {
			seam = append(seam, "no evidence => nil")
		}
	}
	ws := c.Src(w.Body)
	if cs := Calls(w.Body, "VerifyEvidence"); len(cs) == 1 && strings.HasPrefix(c.Src(cs[0]), "k.consensusChecker.VerifyEvidence(ctx,") && len(cs[0].Args) == 2 &&
		strings.HasPrefix(c.Src(cs[0].Args[1]), "slice.Map(msg.GetEvidence(), func(evidence *consensustypes.Evidence) libcons.Evidence {") &&
		len(Calls(cs[0].Args[1], "Map")) == 1 {
		if fl, ok := cs[0].Args[1].(*ast.CallExpr).Args[1].(*ast.FuncLit); ok && len(fl.Body.List) == 1 && c.Src(fl.Body.List[0]) == "return evidence" {
			seam = append(seam, "VerifyEvidence over all stored evidence")
		}
	}
	ast.Inspect(w.Body, func(n ast.Node) bool {
		is, ok := n.(*ast.IfStmt)
		if !ok || c.Src(is.Cond) != "err != nil" || len(is.Body.List) != 2 {
			return true
		}
		inner, ok1 := is.Body.List[0].(*ast.IfStmt)
		ret, ok2 := is.Body.List[1].(*ast.ReturnStmt)
		if ok1 && ok2 && c.Src(inner.Cond) == "errors.Is(err, ErrConsensusNotAchieved)" && len(inner.Body.List) > 0 &&
			c.Src(inner.Body.List[len(inner.Body.List)-1]) == "return nil" && c.Src(ret) == "return err" {
			seam = append(seam, "consensus not achieved => nil", "other error => returned")
		}
		return true
	})
	if strings.Contains(ws, "return fn(cacheCtx, q, msg, result.Winner)") && strings.Count(ws, "fn(") == 1 {
		seam = append(seam, "attester gets result.Winner")
	}
	c.P("(* x/evm/keeper/attest.go attestMessageWrapper, up to the call of the attester *)")
	c.P("Definition evidence_seam : list string := %s.", CoqStrList(seam))
	// the snapshot the votes are weighed with
	kf, err := c.Parse("x/evm/keeper/keeper.go")
	if err != nil {
		return err
	}
	prov := "?"
	ast.Inspect(kf, func(n ast.Node) bool {
		as, ok := n.(*ast.AssignStmt)
		if ok && len(as.Lhs) == 1 && len(as.Rhs) == 1 && c.Src(as.Lhs[0]) == "k.consensusChecker" {
			prov = c.Src(as.Rhs[0])
		}
		return true
	})
	c.P("Definition consensus_checker : string := %s.", CoqStr(prov))
	// QueuedSignedMessage.AddEvidence: one entry per validator, the proof replaced in place
	tf, err := c.Parse("x/consensus/types/consensus.go")
	if err != nil {
		return err
	}
	ae := FindFunc(tf, "QueuedSignedMessage", "AddEvidence")
	shape := "?"
	if ae != nil {
		src := strings.Join(strings.Fields(c.Src(ae.Body)), " ")
		if strings.Contains(src, "for i := range q.Evidence { if q.Evidence[i].ValAddress.Equals(data.ValAddress) { q.Evidence[i].Proof = data.Proof return } }") &&
			strings.HasSuffix(src, "q.Evidence = append(q.Evidence, &data) }") {
			shape = "replace the validator's proof in place, else append"
		} else {
			shape = "?" + src
		}
	}
	c.P("Definition add_evidence_shape : string := %s.", CoqStr(shape))
	c.Info("evidence_seam", seam)
	c.Info("winner_is", rep)
	return extractC07Guards(c)
}

// third round: per ACTION TYPE, the guards between the winner and the follow-up.  Every attester
// must hand a transaction proof to its `attest`, whose first statement must run the shared
// attestTransactionIntegrity (processed-tx check, last compass, VerifyAgainstTX, in this order) and
// return on its error; an attester with a helper of its own gets the guards that helper runs.  The
// lists go into the model (Evm/AttestSym.v code_guards) and into a proof obligation.  Also: the key by
// which the success follow-up of a user contract upload finds the deployment record it writes to.
func extractC07Guards(c *Ctx) error {
	af, err := c.Parse("x/evm/keeper/attest.go")
	if err != nil {
		return err
	}
	ti := FindFunc(af, "", "attestTransactionIntegrity")
	if ti == nil {
		return fmt.Errorf("attestTransactionIntegrity not found")
	}
	// the guards a body runs, in source order; each must be followed by an error return
	guardsOf := func(body *ast.BlockStmt) []string {
		type hit struct {
			pos token.Pos
			g   string
		}
		var hits []hit
		ast.Inspect(body, func(n ast.Node) bool {
			ce, ok := n.(*ast.CallExpr)
			if !ok {
				return true
			}
			name := ""
			switch f := ce.Fun.(type) {
			case *ast.SelectorExpr:
				name = f.Sel.Name
			case *ast.Ident:
				name = f.Name
			}
			switch name {
			case "isTxProcessed":
				hits = append(hits, hit{ce.Pos(), "processed"})
			case "GetLastCompassContract":
				hits = append(hits, hit{ce.Pos(), "compass"})
			case "VerifyAgainstTX", "verifyTx":
				hits = append(hits, hit{ce.Pos(), "verify"})
			}
			return true
		})
		sort.Slice(hits, func(i, j int) bool { return hits[i].pos < hits[j].pos })
		var out []string
		for _, h := range hits {
			out = append(out, h.g)
		}
		return out
	}
	integrity := guardsOf(ti.Body)
	tb := strings.Join(strings.Fields(c.Src(ti.Body)), " ")
	for _, need := range []string{
		"if k.isTxProcessed(ctx, tx) {", "return nil, ErrUnexpectedError.JoinErrorf(\"transaction %s is already processed\", tx.Hash())",
		"compass, err := k.GetLastCompassContract(ctx) if err != nil { return nil, err }",
		"err = verifyTx(ctx, tx, msg, &valset, compass, relayer) if err != nil {", "return nil, fmt.Errorf(\"tx failed to verify: %w\", err)",
	} {
		if !strings.Contains(tb, need) {
			integrity = append(integrity, "?attestTransactionIntegrity lost `"+need+"`")
		}
	}
	c.P("(* x/evm/keeper/attest.go attestTransactionIntegrity: its guards, in order *)")
	c.P("Definition integrity_guards : list string := %s.", CoqStrList(integrity))
	type att struct{ file, recv, coq string }
	for _, a := range []att{
		{"x/evm/keeper/attest_submit_logic_call.go", "submitLogicCallAttester", "guards_submit_logic_call"},
		{"x/evm/keeper/attest_update_valset.go", "updateValsetAttester", "guards_update_valset"},
		{"x/evm/keeper/attest_upload_smart_contract.go", "uploadSmartContractAttester", "guards_upload_smart_contract"},
		{"x/evm/keeper/attest_upload_user_smart_contract.go", "uploadUserSmartContractAttester", "guards_upload_user_smart_contract"},
		{"x/evm/keeper/attest_compass_handover.go", "compassHandoverAttester", "guards_compass_handover"},
	} {
		f, err := c.Parse(a.file)
		if err != nil {
			return err
		}
		var gs []string
		ex, at := FindFunc(f, a.recv, "Execute"), FindFunc(f, a.recv, "attest")
		if ex == nil || at == nil {
			return fmt.Errorf("%s: Execute / attest not found", a.recv)
		}
		// Execute: case *types.TxExecutedProof: return a.attest(ctx, <the proof>)
		routed := false
		ast.Inspect(ex.Body, func(n ast.Node) bool {
			cc, ok := n.(*ast.CaseClause)
			if !ok || len(cc.List) != 1 || c.Src(cc.List[0]) != "*types.TxExecutedProof" {
				return true
			}
			if len(cc.Body) == 1 {
				if rs, ok := cc.Body[0].(*ast.ReturnStmt); ok && len(rs.Results) == 1 && strings.HasPrefix(c.Src(rs.Results[0]), "a.attest(ctx, ") {
					routed = true
				}
			}
			return true
		})
		if !routed {
			gs = append(gs, "?Execute does not hand the transaction proof straight to attest")
		}
		// attest: first statement = the integrity call (or a helper of the attester's own), second = return on its error
		if len(at.Body.List) < 2 {
			gs = append(gs, "?attest too short")
		} else {
			first, _ := at.Body.List[0].(*ast.AssignStmt)
			second, _ := at.Body.List[1].(*ast.IfStmt)
			okRet := false
			if second != nil && c.Src(second.Cond) == "err != nil" && len(second.Body.List) > 0 {
				if rs, ok := second.Body.List[len(second.Body.List)-1].(*ast.ReturnStmt); ok && len(rs.Results) == 1 && c.Src(rs.Results[0]) == "err" {
					okRet = true
				}
			}
			switch {
			case first == nil || len(first.Rhs) != 1:
				gs = append(gs, "?first statement of attest is not a guard call")
			default:
				call, _ := first.Rhs[0].(*ast.CallExpr)
				src := ""
				if call != nil {
					src = strings.Join(strings.Fields(c.Src(call)), " ")
				}
				switch {
				case src == "attestTransactionIntegrity(ctx, a.originalMessage, a.k, evidence, a.chainReferenceID, a.msg.AssigneeRemoteAddress, a.action.VerifyAgainstTX)":
					gs = append(gs, integrity...)
				case call != nil && strings.HasPrefix(src, "a."):
					// a helper of the attester's own: whatever guards it runs
					if se, ok := call.Fun.(*ast.SelectorExpr); ok {
						if h := FindFunc(f, a.recv, se.Sel.Name); h != nil {
							hg := guardsOf(h.Body)
							for _, ic := range Calls(h.Body, "attestTransactionIntegrity") {
								_ = ic
								hg = append(hg, integrity...)
							}
							gs = append(gs, hg...)
							gs = append(gs, "?own helper "+se.Sel.Name)
						} else {
							gs = append(gs, "?helper not found: "+src)
						}
					}
				default:
					gs = append(gs, "?unknown first statement: "+src)
				}
			}
			if !okRet {
				gs = append(gs, "?the guard's error is not returned at once")
			}
		}
		c.P("Definition %s : list string := %s.", a.coq, CoqStrList(gs))
		c.Info(a.coq, gs)
	}

	// finishUserSmartContractDeployment: which fields of a deployment record are compared with (targetChain, blockHeight)
	uf, err := c.Parse("x/evm/keeper/user_smart_contract.go")
	if err != nil {
		return err
	}
	fin := FindFunc(uf, "Keeper", "finishUserSmartContractDeployment")
	if fin == nil {
		return fmt.Errorf("finishUserSmartContractDeployment not found")
	}
	keys := map[string]bool{}
	var scan func(body *ast.BlockStmt, depth int)
	scan = func(body *ast.BlockStmt, depth int) {
		ast.Inspect(body, func(n ast.Node) bool {
			switch v := n.(type) {
			case *ast.BinaryExpr:
				if v.Op == token.EQL || v.Op == token.NEQ {
					for _, pr := range [][2]ast.Expr{{v.X, v.Y}, {v.Y, v.X}} {
						se, ok1 := pr[0].(*ast.SelectorExpr)
						id, ok2 := pr[1].(*ast.Ident)
						if ok1 && ok2 && (id.Name == "targetChain" || id.Name == "blockHeight") {
							keys[se.Sel.Name+"~"+id.Name] = true
						}
					}
				}
			case *ast.CallExpr:
				if id, ok := v.Fun.(*ast.Ident); ok && depth < 2 {
					if h := FindFunc(uf, "", id.Name); h != nil {
						scan(h.Body, depth+1)
					}
				}
			}
			return true
		})
	}
	scan(fin.Body, 0)
	ks := SortedSet(keys)
	c.P("(* x/evm/keeper/user_smart_contract.go finishUserSmartContractDeployment: the record it writes to is the first whose ... *)")
	c.P("Definition user_deployment_lookup : list string := %s.", CoqStrList(ks))
	c.P("Definition user_lookup_by_created : bool := %v.", len(ks) == 2 && ks[0] == "ChainReferenceId~targetChain" && ks[1] == "CreatedAtBlockHeight~blockHeight")
	c.Info("user_deployment_lookup", ks)
	cr := FindFunc(uf, "Keeper", "CreateUserSmartContractDeployment")
	crs := "?"
	if cr != nil {
		src := strings.Join(strings.Fields(c.Src(cr.Body)), " ")
		if strings.Contains(src, "Status: types.UserSmartContract_Deployment_IN_FLIGHT, CreatedAtBlockHeight: blockHeight, UpdatedAtBlockHeight: blockHeight, }") &&
			strings.Contains(src, "blockHeight := sdk.UnwrapSDKContext(ctx).BlockHeight()") && strings.Contains(src, "contract.Deployments = append(contract.Deployments, deployment)") {
			crs = "appended, IN_FLIGHT, created = updated = current height"
		}
	}
	c.P("Definition user_deployment_created : string := %s.", CoqStr(crs))

	// fourth round: writer and reader of the processed-tx store must derive the key by the SAME expression from the SAME
	// decoded object.  Writer: the call in routerAttester's deferred function; reader: the call in attestTransactionIntegrity.
	// Each is resolved to the key expression handed to kv.Set / kv.Has, with the callee's parameter replaced by the caller's
	// argument and the caller's locals replaced by what they were defined as.
	keyOf := func(caller *ast.FuncDecl, calleePrefix string, storeOp string) string {
		if caller == nil {
			return "?caller not found"
		}
		locals := map[string]ast.Expr{}
		ast.Inspect(caller.Body, func(n ast.Node) bool {
			as, ok := n.(*ast.AssignStmt)
			if ok && as.Tok == token.DEFINE && len(as.Rhs) == 1 && len(as.Lhs) >= 1 {
				if id, ok := as.Lhs[0].(*ast.Ident); ok && id.Name != "_" && id.Name != "err" {
					if _, dup := locals[id.Name]; !dup {
						locals[id.Name] = as.Rhs[0]
					}
				}
			}
			return true
		})
		var calls []*ast.CallExpr
		ast.Inspect(caller.Body, func(n ast.Node) bool {
			if ce, ok := n.(*ast.CallExpr); ok {
				if se, ok := ce.Fun.(*ast.SelectorExpr); ok && strings.HasPrefix(se.Sel.Name, calleePrefix) && c.Src(se.X) == "k" {
					calls = append(calls, ce)
				}
			}
			return true
		})
		if len(calls) != 1 {
			return fmt.Sprintf("?%d calls of k.%s* in %s", len(calls), calleePrefix, caller.Name.Name)
		}
		call := calls[0]
		arg := "?"
		if len(call.Args) == 2 {
			arg = c07resolve(c, locals, call.Args[1], 0)
		}
		name := call.Fun.(*ast.SelectorExpr).Sel.Name
		for depth := 0; depth < 4; depth++ {
			d := FindFunc(af, "Keeper", name)
			if d == nil || d.Type.Params == nil || len(d.Type.Params.List) != 2 || len(d.Type.Params.List[1].Names) != 1 {
				return "?callee " + name + " not recognised"
			}
			param := d.Type.Params.List[1].Names[0].Name
			subst := func(e ast.Expr) string {
				return regexp.MustCompile(`\b`+param+`\b`).ReplaceAllString(strings.Join(strings.Fields(c.Src(e)), " "), arg)
			}
			if ops := Calls(d.Body, storeOp); len(ops) == 1 && len(ops[0].Args) >= 1 && strings.HasPrefix(c.Src(ops[0].Fun), "kv.") {
				return subst(ops[0].Args[0])
			}
			// forwarded to another function of the keeper
			next := ""
			ast.Inspect(d.Body, func(n ast.Node) bool {
				if ce, ok := n.(*ast.CallExpr); ok {
					if se, ok := ce.Fun.(*ast.SelectorExpr); ok && c.Src(se.X) == "k" && len(ce.Args) == 2 && se.Sel.Name != "txAlreadyProcessedStore" {
						next, arg = se.Sel.Name, subst(ce.Args[1])
					}
				}
				return true
			})
			if next == "" {
				return "?no " + storeOp + " in " + name
			}
			name = next
		}
		return "?too deep"
	}
	norm := func(s string) string { // the proof object is called `winner` in the router and `proof` in the integrity check
		return strings.ReplaceAll(regexp.MustCompile(`\b(winner|proof)\b`).ReplaceAllString(s, "<proof>"), "<proof>.(type)", "<proof>")
	}
	wk := norm(keyOf(FindFunc(af, "Keeper", "routerAttester"), "setTx", "Set"))
	rk := norm(keyOf(ti, "isTxProcessed", "Has"))
	c.P("(* x/evm/keeper/attest.go: the key under which routerAttester records a used transaction, and the key attestTransactionIntegrity looks up *)")
	c.P("Definition processed_key_written : string := %s.", CoqStr(wk))
	c.P("Definition processed_key_read : string := %s.", CoqStr(rk))
	c.Info("processed_key_written", wk)
	c.Info("processed_key_read", rk)

	// fifth round: the compass upload's follow-up decides "first deployment on this chain" (current snapshot listed on the
	// chain, contract active at once) vs "upgrade" (deployment waits, handover scheduled) by whether GetLatestSnapshotOnChain
	// finds a snapshot.  That walk must look at EVERY stored snapshot: `for {` without header, leaving only by `found`, by a
	// store error, or when the id is exhausted.
	vf, err := c.Parse("x/valset/keeper/keeper.go")
	if err != nil {
		return err
	}
	walk := "?"
	if gl := FindFunc(vf, "Keeper", "GetLatestSnapshotOnChain"); gl != nil {
		var loops []*ast.ForStmt
		nRange := 0
		ast.Inspect(gl.Body, func(n ast.Node) bool {
			switch v := n.(type) {
			case *ast.ForStmt:
				loops = append(loops, v)
			case *ast.RangeStmt:
				nRange++
			}
			return true
		})
		src := strings.Join(strings.Fields(c.Src(gl.Body)), " ")
		switch {
		case len(loops) != 1:
			walk = fmt.Sprintf("?%d loops", len(loops))
		case loops[0].Init != nil || loops[0].Cond != nil || loops[0].Post != nil:
			hdr := ""
			if loops[0].Init != nil {
				hdr += c.Src(loops[0].Init)
			}
			hdr += "; "
			if loops[0].Cond != nil {
				hdr += c.Src(loops[0].Cond)
			}
			hdr += "; "
			if loops[0].Post != nil {
				hdr += c.Src(loops[0].Post)
			}
			walk = "?bounded walk: for " + hdr
		case nRange != 1 || strings.Count(src, "break") != 1 || strings.Count(src, "return") != 3 || strings.Contains(src, "continue") || strings.Contains(src, "goto") ||
			!strings.Contains(src, "snapshotId := k.ider.GetLastID(sdkCtx, snapshotIDKey)") ||
			!strings.Contains(src, "snapshot, err := k.FindSnapshotByID(ctx, snapshotId) if err != nil { return nil, err }") ||
			!strings.Contains(src, "for _, chain := range snapshot.Chains { if chain == chainReferenceID { return snapshot, nil } }") ||
			!strings.Contains(src, "snapshotId = snapshot.GetId() - 1 if snapshotId == 0 { break }") ||
			!strings.Contains(src, "return nil, keeperutil.ErrNotFound.Format("):
			walk = "?unknown shape: " + src
		default:
			walk = "every stored snapshot, from the last id down to 1; found => that snapshot; none => ErrNotFound"
		}
	}
	c.P("(* x/valset/keeper/keeper.go GetLatestSnapshotOnChain *)")
	c.P("Definition latest_snapshot_on_chain_walk : string := %s.", CoqStr(walk))
	c.Info("latest_snapshot_on_chain_walk", walk)
	uf2, err := c.Parse("x/evm/keeper/attest_upload_smart_contract.go")
	if err != nil {
		return err
	}
	decision := "?"
	if at := FindFunc(uf2, "uploadSmartContractAttester", "attest"); at != nil {
		src := strings.Join(strings.Fields(c.Src(at.Body)), " ")
		i1 := strings.Index(src, "_, err = a.k.Valset.GetLatestSnapshotOnChain(ctx, a.chainReferenceID) if err != nil { if !errors.Is(err, keeperutil.ErrNotFound) { return err }")
		i2 := strings.Index(src, "err = a.k.Valset.SetSnapshotOnChain(ctx, snapshot.Id, a.chainReferenceID)")
		i3 := strings.Index(src, "return a.k.SetSmartContractAsActive(ctx, smartContractID, a.chainReferenceID) }")
		i4 := strings.Index(src, "return a.startCompassHandover(ctx, newCompassAddr)")
		if i1 >= 0 && i1 < i2 && i2 < i3 && i3 < i4 && strings.Count(src, "GetLatestSnapshotOnChain") == 1 && strings.Count(src, "SetSmartContractAsActive") == 1 &&
			strings.Count(src, "SetSnapshotOnChain") == 1 && strings.HasSuffix(src, "return a.startCompassHandover(ctx, newCompassAddr) }") {
			decision = "ErrNotFound => current snapshot listed on the chain, contract active; found => handover scheduled"
		} else {
			decision = "?unknown shape"
		}
	}
	c.P("Definition upload_first_deployment_decision : string := %s.", CoqStr(decision))

	// sixth round: state of the evm keeper that is NOT in the store.  Every field of the Keeper struct, with its type: a field
	// the model does not know (a map, a cache, a memo of projections ...) is unclassified.  And attestTransactionIntegrity must
	// project the named snapshot for the message's own chain by calling transformSnapshotToCompass itself.
	kf2, err := c.Parse("x/evm/keeper/keeper.go")
	if err != nil {
		return err
	}
	var fields []string
	for _, d := range kf2.Decls {
		gd, ok := d.(*ast.GenDecl)
		if !ok {
			continue
		}
		for _, sp := range gd.Specs {
			ts, ok := sp.(*ast.TypeSpec)
			if !ok || ts.Name.Name != "Keeper" {
				continue
			}
			st, ok := ts.Type.(*ast.StructType)
			if !ok {
				return fmt.Errorf("x/evm/keeper Keeper is not a struct")
			}
			for _, f := range st.Fields.List {
				ty := strings.Join(strings.Fields(c.Src(f.Type)), " ")
				if len(f.Names) == 0 {
					fields = append(fields, "<embedded> "+ty)
				}
				for _, n := range f.Names {
					fields = append(fields, n.Name+" "+ty)
				}
			}
		}
	}
	c.P("(* x/evm/keeper/keeper.go: every field of the Keeper struct *)")
	c.P("Definition evm_keeper_fields : list string := %s.", CoqStrList(fields))
	c.Info("evm_keeper_fields", fields)
	proj := "?"
	{
		var rhs []string
		ast.Inspect(ti.Body, func(n ast.Node) bool {
			as, ok := n.(*ast.AssignStmt)
			if ok && len(as.Lhs) == 1 && len(as.Rhs) == 1 && c.Src(as.Lhs[0]) == "valset" && as.Tok == token.ASSIGN {
				rhs = append(rhs, strings.Join(strings.Fields(c.Src(as.Rhs[0])), " "))
			}
			return true
		})
		if len(rhs) == 1 {
			proj = rhs[0]
		} else {
			proj = fmt.Sprintf("?%d assignments to valset: %v", len(rhs), rhs)
		}
		if tf := FindFunc(kf2, "", "transformSnapshotToCompass"); tf == nil || tf.Type.Params == nil || len(tf.Type.Params.List) != 3 ||
			!strings.Contains(c.Src(tf.Body), "ext.GetChainReferenceID() == chainReferenceID") {
			proj = "?transformSnapshotToCompass no longer filters the accounts by its chainReferenceID parameter; " + proj
		}
	}
	c.P("Definition integrity_valset_projection : string := %s.", CoqStr(proj))
	return nil
}
