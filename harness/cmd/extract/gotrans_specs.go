package main

// gotrans: the functions whose bodies are translated, and the properties that hinge on them.
// GenFn/<Name>.v holds `Definition <Def>`; Trans/<Prop>Fn.v holds the equivalence with the model.

var goFnSpecs = []fnSpec{
	{ // 3 * runningSum >= 2 * totalPower
		Props: []string{"C04"}, File: "util/libcons/consensus.go", Recv: "consensusPower", Func: "consensus",
		Name: "Consensus", Def: "consensus",
		Args: []argSpec{{Go: "c.runningSum", Coq: "runningSum", K: kSdkOpt}, {Go: "c.totalPower", Coq: "totalPower", K: kSdk}},
	},
	{ // median of a uint64 slice
		Props: []string{"C04"}, File: "util/palomath/median.go", Func: "Median",
		Name: "Median", Def: "median", TypeArg: map[string]string{"E": "uint64"},
		Args: []argSpec{{Go: "s", Coq: "s", K: kList, Elem: kU64}},
	},
	{ // floor(share * 2^32 / total) as uint64
		Props: []string{"C10"}, File: "x/evm/keeper/keeper.go", Func: "normalizePower",
		Name: "NormalizePower", Def: "normalizePower",
		Args: []argSpec{{Go: "share", Coq: "share", K: kSdk}, {Go: "total", Coq: "total", K: kSdk}},
	},
	{ // wrapping uint64 sum of the powers >= thresholdForConsensus
		Props: []string{"C10"}, File: "x/evm/keeper/keeper.go", Func: "isEnoughToReachConsensus",
		Name: "IsEnoughToReachConsensus", Def: "isEnoughToReachConsensus",
		Args: []argSpec{{Go: "val.Powers", Coq: "powers", K: kList, Elem: kU64}},
	},
	{ // ceil(d * n) with error instead of panic
		Props: []string{"C09", "C14"}, File: "x/consensus/keeper/estimate.go", Func: "mulCeilUint64",
		Name: "MulCeilUint64", Def: "mulCeilUint64",
		Args: []argSpec{{Go: "d", Coq: "d", K: kDecOpt}, {Go: "n", Coq: "n", K: kU64}},
	},
	{ // 0 < m <= maxRelayerFeeMultiplicator
		Props: []string{"C09", "C14"}, File: "x/treasury/keeper/msg_server.go", Func: "validateMultiplicator",
		Name: "ValidateMultiplicator", Def: "validateMultiplicator",
		Args: []argSpec{{Go: "m", Coq: "m", K: kDecOpt}},
	},
	{ // next jail sentence
		Props: []string{"C12"}, File: "x/valset/keeper/keeper.go", Func: "deriveJailSentence",
		Name: "DeriveJailSentence", Def: "deriveJailSentence",
		Args: []argSpec{{Go: "d", Coq: "d", K: kI64}},
	},
	{ // max(30 min, d + d/20)
		Props: []string{"C12"}, File: "x/valset/keeper/keeper.go", Func: "calculateJailSentenceResetThreshold",
		Name: "JailSentenceResetThreshold", Def: "calculateJailSentenceResetThreshold",
		Args: []argSpec{{Go: "d", Coq: "d", K: kI64}},
	},
	{ // amount * num quo den, from the parsed rate on
		Props: []string{"C15"}, File: "x/skyway/keeper/keeper.go", Recv: "Keeper", Func: "bridgeTaxAmount",
		Name: "BridgeTaxAmount", Def: "bridgeTaxAmount_tail",
		Args: []argSpec{{Go: "coin.Amount", Coq: "amount", K: kSdk}, {Go: "bRate.Num()", Coq: "rateNum", K: kBig}, {Go: "bRate.Denom()", Coq: "rateDenom", K: kBig}},
		Frag: &fragSpec{From: "num := ", To: "return coin.Amount", PinRest: true},
	},
	{ // window restart, running total, limit comparison
		Props: []string{"C15"}, File: "x/skyway/keeper/keeper.go", Recv: "Keeper", Func: "UpdateBridgeTransferUsageWithLimit",
		Name: "BridgeTransferUsage", Def: "updateUsage_window",
		Args: []argSpec{{Go: "usage == nil", Coq: "usage_nil", K: kBool}, {Go: "usage.Total", Coq: "usage_total", K: kSdkOpt},
			{Go: "usage.StartBlockHeight", Coq: "usage_start", K: kI64}, {Go: "blockHeight", Coq: "blockHeight", K: kI64},
			{Go: "limits.BlockLimit()", Coq: "blockLimit", K: kI64}, {Go: "coin.Amount", Coq: "amount", K: kSdk}, {Go: "limits.Limit", Coq: "limit", K: kSdk}},
		Frag: &fragSpec{From: "var newUsage", To: "newUsage.Total.GT(", Out: []string{"newUsage.Total", "newUsage.StartBlockHeight"}, PinRest: true},
	},
	{ // requiredPower, the running vote power and the comparison that fires the attestation
		Props: []string{"C02"}, File: "x/skyway/keeper/attestation.go", Recv: "Keeper", Func: "TryAttestation",
		Name: "TryAttestation", Def: "tryAttestation",
		Imports: map[string]string{"types": "x/skyway/types"},
		Frag: &fragSpec{Exprs: []exprFrag{
			{Def: "tryAttestation_requiredPower", Anchor: "stmt:requiredPower :=", Args: []argSpec{{Go: "totalPower", Coq: "totalPower", K: kSdk}}},
			{Def: "tryAttestation_initialPower", Anchor: "stmt:attestationPower :=", Args: nil},
			{Def: "tryAttestation_addVote", Anchor: "stmt:attestationPower =", Args: []argSpec{{Go: "attestationPower", Coq: "attestationPower", K: kSdk}, {Go: "validatorPower", Coq: "validatorPower", K: kI64}}},
			{Def: "tryAttestation_fires", Anchor: "ifcond:attestationPower.", Args: []argSpec{{Go: "attestationPower", Coq: "attestationPower", K: kSdk}, {Go: "requiredPower", Coq: "requiredPower", K: kSdk}}},
		}},
	},
}
