package main

// gotrans, expressions.  Every case is explicit; anything else is an error.

import (
	"fmt"
	"go/ast"
	"go/token"
	"math/big"
	"path/filepath"
	"strings"
)

var (
	bigTwo63 = new(big.Int).Lsh(big.NewInt(1), 63)
	bigTwo64 = new(big.Int).Lsh(big.NewInt(1), 64)
)

func inRange(x *big.Int, k kind) bool {
	switch k {
	case kU64:
		return x.Sign() >= 0 && x.Cmp(bigTwo64) < 0
	case kI64:
		return x.Cmp(new(big.Int).Neg(bigTwo63)) >= 0 && x.Cmp(bigTwo63) < 0
	}
	return true
}

// typeKind maps a Go type expression to a kind.
func (t *tr) typeKind(e ast.Expr) (kind, kind, error) {
	s := strings.ReplaceAll(t.c.Src(e), " ", "")
	if ta, ok := t.typeArg[s]; ok {
		s = ta
	}
	if strings.HasPrefix(s, "[]") {
		el := s[2:]
		if ta, ok := t.typeArg[el]; ok {
			el = ta
		}
		switch el {
		case "uint64":
			return kList, kU64, nil
		case "int64", "int", "time.Duration":
			return kList, kI64, nil
		}
		return kUnknown, 0, t.errf(e, "slice type %s is not in the subset", s)
	}
	switch s {
	case "uint64":
		return kU64, 0, nil
	case "int64", "int", "time.Duration":
		return kI64, 0, nil
	case "bool":
		return kBool, 0, nil
	case "*big.Int":
		return kBig, 0, nil
	}
	// qualified names: resolve the alias through the file's imports
	if i := strings.Index(s, "."); i > 0 {
		path := t.imports[s[:i]]
		name := s[i+1:]
		if path == "cosmossdk.io/math" {
			switch name {
			case "Int":
				return kSdk, 0, nil
			case "LegacyDec":
				return kDecOpt, 0, nil
			}
		}
	}
	return kUnknown, 0, t.errf(e, "type %s is not in the subset", s)
}

func (t *tr) coerce(n ast.Node, v val, k kind) (val, error) {
	if v.k == k {
		return v, nil
	}
	if v.k == kUntyped && (k == kU64 || k == kI64) {
		if !inRange(v.cst, k) {
			return v, t.errf(n, "constant %s overflows %s", v.cst, k)
		}
		v.k = k
		return v, nil
	}
	if v.k == kSdk && k == kSdkOpt {
		return t.wrapSome(v), nil
	}
	return v, t.errf(n, "type mismatch: %s where %s is needed", v.k, k)
}

func (t *tr) wrapSome(v val) val {
	code, partial := t.lift([]val{v}, func(c []string) string { return "Some " + c[0] }, false)
	return val{code: code, k: kSdkOpt, partial: partial}
}

func constVal(x *big.Int, k kind) val { return val{code: zlit(x), k: k, cst: x} }

var timeConsts = map[string]int64{"Nanosecond": 1, "Microsecond": 1e3, "Millisecond": 1e6, "Second": 1e9, "Minute": 60e9, "Hour": 3600e9}

func pathOf(e ast.Expr) string {
	switch x := e.(type) {
	case *ast.Ident:
		return x.Name
	case *ast.SelectorExpr:
		p := pathOf(x.X)
		if p == "" {
			return ""
		}
		return p + "." + x.Sel.Name
	}
	return ""
}

func (t *tr) expr(e ast.Expr) (val, error) {
	// an expression declared, by its source text, as an input of the translation
	if _, isIdent := e.(*ast.Ident); !isIdent {
		src := t.c.Src(e)
		if b, ok := t.scopes[0][src]; ok && b.param {
			return t.fromBinding(e, src, b)
		}
	}
	switch x := e.(type) {
	case *ast.ParenExpr:
		return t.expr(x.X)
	case *ast.BasicLit:
		switch x.Kind {
		case token.INT:
			n, ok := new(big.Int).SetString(strings.ReplaceAll(x.Value, "_", ""), 0)
			if !ok {
				return val{}, t.errf(x, "integer literal %s not understood", x.Value)
			}
			return constVal(n, kUntyped), nil
		case token.FLOAT:
			r, ok := new(big.Rat).SetString(strings.ReplaceAll(x.Value, "_", ""))
			if !ok || !r.IsInt() {
				return val{}, t.errf(x, "floating-point constant %s is not integral (floats are not in the subset)", x.Value)
			}
			return constVal(new(big.Int).Set(r.Num()), kUntyped), nil
		}
		return val{}, t.errf(x, "literal %s is not in the subset", x.Value)
	case *ast.Ident:
		return t.ident(x)
	case *ast.SelectorExpr:
		return t.selector(x)
	case *ast.UnaryExpr:
		return t.unary(x)
	case *ast.BinaryExpr:
		return t.binary(x)
	case *ast.CallExpr:
		return t.call(x)
	case *ast.IndexExpr:
		return t.index(x)
	case *ast.CompositeLit:
		return t.sliceLit(x)
	}
	return val{}, t.errf(e, "expression form %T (%s) is not in the subset", e, t.c.Src(e))
}

func (t *tr) fromBinding(n ast.Node, name string, b *binding) (val, error) {
	if b.k == kUnknown {
		return val{}, t.errf(n, "%s has a type outside the subset and is not declared as an input of the translation", name)
	}
	if b.k == kStruct {
		return val{}, t.errf(n, "struct variable %s used as a value (only its fields can be read)", name)
	}
	return val{code: b.coq, k: b.k, elem: b.elem, cst: b.cst}, nil
}

func (t *tr) ident(x *ast.Ident) (val, error) {
	if b, _ := t.lookup(x.Name); b != nil {
		return t.fromBinding(x, x.Name, b)
	}
	switch x.Name {
	case "true", "false":
		return val{code: x.Name, k: kBool}, nil
	case "nil":
		return val{isNil: true}, nil
	case "iota":
		return val{}, t.errf(x, "iota is not in the subset")
	}
	return t.pkgName(x, "", x.Name)
}

func (t *tr) selector(x *ast.SelectorExpr) (val, error) {
	if p := pathOf(x); p != "" {
		if b, _ := t.lookup(p); b != nil {
			return t.fromBinding(x, p, b)
		}
	}
	if id, ok := x.X.(*ast.Ident); ok {
		if b, _ := t.lookup(id.Name); b == nil {
			path, isPkg := t.imports[id.Name]
			if isPkg {
				switch path {
				case "time":
					if v, ok := timeConsts[x.Sel.Name]; ok {
						return constVal(big.NewInt(v), kI64), nil
					}
				case "cosmossdk.io/math":
					if x.Sel.Name == "LegacyPrecision" {
						return constVal(big.NewInt(18), kUntyped), nil
					}
				}
				if dir, ok := t.spec.Imports[id.Name]; ok {
					return t.pkgName(x, dir, x.Sel.Name)
				}
				return val{}, t.errf(x, "package-level name %s.%s is not in the tables", id.Name, x.Sel.Name)
			}
		}
	}
	return val{}, t.errf(x, "selector %s is neither a declared input, a known field, nor a known package-level name", t.c.Src(x))
}

// pkgName translates a package-level const / var by translating its initialiser, and emits it as
// a separate Definition.  A var must never be assigned anywhere in its package.
func (t *tr) pkgName(n ast.Node, dir, name string) (val, error) {
	key := dir + ":" + name
	if v, ok := t.pkgVals[key]; ok {
		return *v, nil
	}
	if t.pkgBusy[key] {
		return val{}, t.errf(n, "initialisation cycle at %s", name)
	}
	t.pkgBusy[key] = true
	defer delete(t.pkgBusy, key)
	files := t.files
	if dir != "" {
		fs, err := t.c.ParseDir(dir)
		if err != nil {
			return val{}, err
		}
		files = fs
	}
	var spec *ast.ValueSpec
	var idx int
	var isVar bool
	var declFile *ast.File
	for _, f := range files {
		for _, d := range f.Decls {
			gd, ok := d.(*ast.GenDecl)
			if !ok || (gd.Tok != token.CONST && gd.Tok != token.VAR) {
				continue
			}
			for _, s := range gd.Specs {
				vs := s.(*ast.ValueSpec)
				for i, id := range vs.Names {
					if id.Name == name {
						if spec != nil {
							return val{}, t.errf(n, "package-level name %s is declared twice (build tags?)", name)
						}
						spec, idx, isVar, declFile = vs, i, gd.Tok == token.VAR, f
					}
				}
			}
		}
	}
	if spec == nil {
		return val{}, t.errf(n, "identifier %s is not a local, an input, or a package-level const/var", name)
	}
	if idx >= len(spec.Values) || len(spec.Values) != len(spec.Names) {
		return val{}, t.errf(spec, "package-level %s has no initialiser of its own (iota / multi-value forms are not in the subset)", name)
	}
	if isVar {
		for _, f := range files {
			var bad ast.Node
			ast.Inspect(f, func(m ast.Node) bool {
				switch s := m.(type) {
				case *ast.AssignStmt:
					for _, l := range s.Lhs {
						if id, ok := l.(*ast.Ident); ok && id.Name == name && s.Tok != token.DEFINE {
							bad = s
						}
					}
				case *ast.IncDecStmt:
					if id, ok := s.X.(*ast.Ident); ok && id.Name == name {
						bad = s
					}
				case *ast.UnaryExpr:
					if id, ok := s.X.(*ast.Ident); ok && id.Name == name && s.Op == token.AND {
						bad = s
					}
				}
				return true
			})
			if bad != nil {
				return val{}, t.errf(bad, "package-level var %s is assigned or has its address taken: it cannot be read as its initialiser", name)
			}
		}
	}
	// translate the initialiser in an empty local environment, with the declaring file's imports
	sub := &tr{c: t.c, spec: t.spec, files: files, file: declFile, imports: map[string]string{}, pkgVals: t.pkgVals, pkgBusy: t.pkgBusy, typeArg: t.typeArg, resMode: true}
	for _, im := range declFile.Imports {
		p := strings.Trim(im.Path.Value, "\"")
		alias := filepath.Base(p)
		if im.Name != nil {
			alias = im.Name.Name
		}
		sub.imports[alias] = p
	}
	sub.scopes = []map[string]*binding{{}}
	sub.pkgDefs = t.pkgDefs
	v, err := sub.expr(spec.Values[idx])
	t.pkgDefs = sub.pkgDefs
	if err != nil {
		return val{}, err
	}
	if spec.Type != nil {
		k, _, err := sub.typeKind(spec.Type)
		if err != nil {
			return val{}, err
		}
		if v, err = sub.coerce(spec.Type, v, k); err != nil {
			return val{}, err
		}
	}
	if v.partial {
		return val{}, t.errf(spec, "initialiser of %s can panic (not in the subset)", name)
	}
	if v.isNil || v.isErr || v.k == kUnknown {
		return val{}, t.errf(spec, "initialiser of %s is not a value of the subset", name)
	}
	dn := "pkg_" + strings.NewReplacer(".", "_").Replace(name)
	t.pkgDefs = append(t.pkgDefs, fmt.Sprintf("(* %s%s: %s *)\nDefinition %s : %s := %s.\n",
		map[bool]string{true: dir + " ", false: ""}[dir != ""], map[bool]string{true: "var", false: "const"}[isVar], commentSafe(t.c.Src(spec)), dn, coqType(v.k), v.code))
	out := val{code: dn, k: v.k, elem: v.elem, cst: v.cst}
	if isVar && v.k == kBig {
		// a shared pointer: never a fresh receiver
		out.fresh = false
	}
	t.pkgVals[key] = &out
	return out, nil
}

func (t *tr) sliceLit(x *ast.CompositeLit) (val, error) {
	k, el, err := t.typeKind(x.Type)
	if err != nil {
		return val{}, err
	}
	if k != kList {
		return val{}, t.errf(x, "composite literal of type %s is not in the subset", t.c.Src(x.Type))
	}
	var parts []string
	for _, e := range x.Elts {
		if _, ok := e.(*ast.KeyValueExpr); ok {
			return val{}, t.errf(e, "keyed slice literal is not in the subset")
		}
		v, err := t.expr(e)
		if err != nil {
			return val{}, err
		}
		if v, err = t.coerce(e, v, el); err != nil {
			return val{}, err
		}
		if v.partial {
			return val{}, t.errf(e, "slice element can panic (not in the subset)")
		}
		parts = append(parts, v.code)
	}
	return val{code: "[" + strings.Join(parts, "; ") + "]", k: kList, elem: el}, nil
}

func (t *tr) index(x *ast.IndexExpr) (val, error) {
	l, err := t.expr(x.X)
	if err != nil {
		return val{}, err
	}
	if l.k != kList {
		return val{}, t.errf(x, "indexing a %s is not in the subset", l.k)
	}
	i, err := t.expr(x.Index)
	if err != nil {
		return val{}, err
	}
	if i.k == kUntyped {
		i.k = kI64
	}
	if i.k != kI64 && i.k != kU64 {
		return val{}, t.errf(x.Index, "index of kind %s", i.k)
	}
	code, _ := t.lift([]val{l, i}, func(c []string) string { return fmt.Sprintf("go_index %s %s", c[0], c[1]) }, true)
	return val{code: code, k: l.elem, partial: true}, nil
}

func (t *tr) unary(x *ast.UnaryExpr) (val, error) {
	v, err := t.expr(x.X)
	if err != nil {
		return val{}, err
	}
	switch x.Op {
	case token.NOT:
		if v.k != kBool {
			return val{}, t.errf(x, "! on %s", v.k)
		}
		code, p := t.lift([]val{v}, func(c []string) string { return "negb " + c[0] }, false)
		return val{code: code, k: kBool, partial: p}, nil
	case token.SUB:
		if v.cst != nil {
			n := new(big.Int).Neg(v.cst)
			if !inRange(n, v.k) {
				return val{}, t.errf(x, "constant overflows %s", v.k)
			}
			return constVal(n, v.k), nil
		}
		switch v.k {
		case kI64:
			code, p := t.lift([]val{v}, func(c []string) string { return "go_i64 (- " + c[0] + ")" }, false)
			return val{code: code, k: kI64, partial: p}, nil
		case kU64:
			code, p := t.lift([]val{v}, func(c []string) string { return "go_u64 (- " + c[0] + ")" }, false)
			return val{code: code, k: kU64, partial: p}, nil
		}
	case token.ADD:
		if v.k == kI64 || v.k == kU64 || v.k == kUntyped {
			return v, nil
		}
	}
	return val{}, t.errf(x, "unary %s on %s is not in the subset", x.Op, v.k)
}

func (t *tr) binary(x *ast.BinaryExpr) (val, error) {
	// short-circuit operators first: the right operand is evaluated only when needed
	if x.Op == token.LAND || x.Op == token.LOR {
		a, err := t.expr(x.X)
		if err != nil {
			return val{}, err
		}
		b, err := t.expr(x.Y)
		if err != nil {
			return val{}, err
		}
		if a.k != kBool || b.k != kBool {
			return val{}, t.errf(x, "%s on %s and %s", x.Op, a.k, b.k)
		}
		op := map[token.Token]string{token.LAND: "&&", token.LOR: "||"}[x.Op]
		if !b.partial {
			code, p := t.lift([]val{a, b}, func(c []string) string { return fmt.Sprintf("%s %s %s", c[0], op, c[1]) }, false)
			return val{code: code, k: kBool, partial: p}, nil
		}
		// b can panic: evaluate it only on the branch where Go evaluates it
		code, _ := t.lift([]val{a}, func(c []string) string {
			if x.Op == token.LAND {
				return fmt.Sprintf("if %s then %s else Val false", c[0], b.code)
			}
			return fmt.Sprintf("if %s then Val true else %s", c[0], b.code)
		}, true)
		return val{code: code, k: kBool, partial: true}, nil
	}
	a, err := t.expr(x.X)
	if err != nil {
		return val{}, err
	}
	b, err := t.expr(x.Y)
	if err != nil {
		return val{}, err
	}
	switch x.Op {
	case token.EQL, token.NEQ, token.LSS, token.LEQ, token.GTR, token.GEQ:
		return t.compare(x, a, b)
	case token.ADD, token.SUB, token.MUL, token.QUO, token.REM, token.SHL, token.SHR:
		return t.arith(x, x.Op, a, b)
	}
	return val{}, t.errf(x, "operator %s is not in the subset", x.Op)
}

func (t *tr) unify(n ast.Node, a, b val) (val, val, kind, error) {
	switch {
	case a.k == b.k:
		return a, b, a.k, nil
	case a.k == kUntyped && (b.k == kU64 || b.k == kI64):
		a2, err := t.coerce(n, a, b.k)
		return a2, b, b.k, err
	case b.k == kUntyped && (a.k == kU64 || a.k == kI64):
		b2, err := t.coerce(n, b, a.k)
		return a, b2, a.k, err
	}
	return a, b, 0, t.errf(n, "operands of kinds %s and %s", a.k, b.k)
}

func (t *tr) compare(x *ast.BinaryExpr, a, b val) (val, error) {
	// comparison with the zero value of a nil-able sdkmath.Int (struct equality = pointer equality)
	if a.k == kSdkOpt || b.k == kSdkOpt {
		isZero := func(e ast.Expr) bool {
			id, ok := e.(*ast.Ident)
			if !ok {
				return false
			}
			bd, _ := t.lookup(id.Name)
			return bd != nil && bd.zeroVal
		}
		var other val
		switch {
		case isZero(x.Y) && a.k == kSdkOpt:
			other = a
		case isZero(x.X) && b.k == kSdkOpt:
			other = b
		default:
			return val{}, t.errf(x, "== on sdkmath.Int values compares pointers; only comparison with a never-assigned `var zero sdkmath.Int` is in the subset")
		}
		if x.Op != token.EQL && x.Op != token.NEQ {
			return val{}, t.errf(x, "%s on sdkmath.Int", x.Op)
		}
		code, p := t.lift([]val{other}, func(c []string) string {
			if x.Op == token.NEQ {
				return "negb (go_isnil " + c[0] + ")"
			}
			return "go_isnil " + c[0]
		}, false)
		return val{code: code, k: kBool, partial: p}, nil
	}
	a, b, k, err := t.unify(x, a, b)
	if err != nil {
		return val{}, err
	}
	var f func(c []string) string
	switch k {
	case kU64, kI64, kUntyped:
		switch x.Op {
		case token.EQL:
			f = func(c []string) string { return c[0] + " =? " + c[1] }
		case token.NEQ:
			f = func(c []string) string { return "negb (" + c[0] + " =? " + c[1] + ")" }
		case token.LSS:
			f = func(c []string) string { return c[0] + " <? " + c[1] }
		case token.LEQ:
			f = func(c []string) string { return c[0] + " <=? " + c[1] }
		case token.GTR:
			f = func(c []string) string { return c[1] + " <? " + c[0] }
		case token.GEQ:
			f = func(c []string) string { return c[1] + " <=? " + c[0] }
		}
	case kBool:
		switch x.Op {
		case token.EQL:
			f = func(c []string) string { return "Bool.eqb " + c[0] + " " + c[1] }
		case token.NEQ:
			f = func(c []string) string { return "negb (Bool.eqb " + c[0] + " " + c[1] + ")" }
		}
	}
	if f == nil {
		return val{}, t.errf(x, "comparison %s on %s is not in the subset", x.Op, k)
	}
	code, p := t.lift([]val{a, b}, f, false)
	return val{code: code, k: kBool, partial: p}, nil
}

func (t *tr) arith(n ast.Node, op token.Token, a, b val) (val, error) {
	a, b, k, err := t.unify(n, a, b)
	if err != nil {
		return val{}, err
	}
	if k != kU64 && k != kI64 && k != kUntyped {
		return val{}, t.errf(n, "arithmetic %s on %s is not in the subset", op, k)
	}
	// constant expressions are evaluated exactly, as the Go compiler does (overflow = compile error)
	if a.cst != nil && b.cst != nil {
		r := new(big.Int)
		switch op {
		case token.ADD:
			r.Add(a.cst, b.cst)
		case token.SUB:
			r.Sub(a.cst, b.cst)
		case token.MUL:
			r.Mul(a.cst, b.cst)
		case token.QUO:
			if b.cst.Sign() == 0 {
				return val{}, t.errf(n, "constant division by zero")
			}
			r.Quo(a.cst, b.cst)
		case token.REM:
			if b.cst.Sign() == 0 {
				return val{}, t.errf(n, "constant division by zero")
			}
			r.Rem(a.cst, b.cst)
		case token.SHL:
			if !b.cst.IsUint64() || b.cst.Uint64() > 512 {
				return val{}, t.errf(n, "shift count")
			}
			r.Lsh(a.cst, uint(b.cst.Uint64()))
		case token.SHR:
			if !b.cst.IsUint64() || b.cst.Uint64() > 512 {
				return val{}, t.errf(n, "shift count")
			}
			r.Rsh(a.cst, uint(b.cst.Uint64()))
		}
		if !inRange(r, k) {
			return val{}, t.errf(n, "constant expression overflows %s", k)
		}
		return constVal(r, k), nil
	}
	if k == kUntyped {
		return val{}, t.errf(n, "untyped non-constant arithmetic")
	}
	wrap := map[kind]string{kU64: "go_u64", kI64: "go_i64"}[k]
	switch op {
	case token.ADD, token.SUB, token.MUL:
		sym := map[token.Token]string{token.ADD: "+", token.SUB: "-", token.MUL: "*"}[op]
		code, p := t.lift([]val{a, b}, func(c []string) string { return fmt.Sprintf("%s (%s %s %s)", wrap, c[0], sym, c[1]) }, false)
		return val{code: code, k: k, partial: p}, nil
	case token.QUO, token.REM:
		// a constant divisor other than 0 (and, signed, other than -1) can neither panic nor overflow
		if b.cst != nil && b.cst.Sign() != 0 && !(k == kI64 && b.cst.Cmp(big.NewInt(-1)) == 0) {
			var f func(c []string) string
			switch {
			case k == kU64 && op == token.QUO:
				f = func(c []string) string { return c[0] + " / " + c[1] }
			case k == kU64 && op == token.REM:
				f = func(c []string) string { return c[0] + " mod " + c[1] }
			case k == kI64 && op == token.QUO:
				f = func(c []string) string { return "Z.quot " + c[0] + " " + c[1] }
			default:
				f = func(c []string) string { return "Z.rem " + c[0] + " " + c[1] }
			}
			code, p := t.lift([]val{a, b}, f, false)
			return val{code: code, k: k, partial: p}, nil
		}
		fn := map[kind]map[token.Token]string{kU64: {token.QUO: "go_u64_div", token.REM: "go_u64_mod"}, kI64: {token.QUO: "go_i64_div", token.REM: "go_i64_mod"}}[k][op]
		code, _ := t.lift([]val{a, b}, func(c []string) string { return fn + " " + c[0] + " " + c[1] }, true)
		return val{code: code, k: k, partial: true}, nil
	}
	return val{}, t.errf(n, "operator %s on non-constant operands is not in the subset", op)
}

// ---- calls ------------------------------------------------------------------------------------

func (t *tr) args(es []ast.Expr) ([]val, error) {
	var out []val
	for _, e := range es {
		v, err := t.expr(e)
		if err != nil {
			return nil, err
		}
		out = append(out, v)
	}
	return out, nil
}

func (t *tr) call(x *ast.CallExpr) (val, error) {
	if x.Ellipsis.IsValid() {
		return val{}, t.errf(x, "variadic call is not in the subset")
	}
	switch f := x.Fun.(type) {
	case *ast.Ident:
		if b, _ := t.lookup(f.Name); b != nil {
			return val{}, t.errf(x, "call of a local function value is not in the subset")
		}
		return t.builtin(x, f.Name)
	case *ast.SelectorExpr:
		if id, ok := f.X.(*ast.Ident); ok {
			if b, _ := t.lookup(id.Name); b == nil {
				if path, isPkg := t.imports[id.Name]; isPkg {
					return t.pkgCall(x, path, f.Sel.Name)
				}
			}
		}
		recv, err := t.expr(f.X)
		if err != nil {
			return val{}, err
		}
		return t.method(x, f, recv)
	}
	return val{}, t.errf(x, "call form %s is not in the subset", t.c.Src(x.Fun))
}

func (t *tr) convert(x *ast.CallExpr, to kind) (val, error) {
	if len(x.Args) != 1 {
		return val{}, t.errf(x, "conversion arity")
	}
	v, err := t.expr(x.Args[0])
	if err != nil {
		return val{}, err
	}
	if v.cst != nil {
		if !inRange(v.cst, to) {
			return val{}, t.errf(x, "constant %s overflows %s", v.cst, to)
		}
		return constVal(v.cst, to), nil
	}
	switch {
	case v.k == to:
		return v, nil
	case (v.k == kU64 || v.k == kI64) && (to == kU64 || to == kI64):
		wrap := map[kind]string{kU64: "go_u64", kI64: "go_i64"}[to]
		code, p := t.lift([]val{v}, func(c []string) string { return wrap + " " + c[0] }, false)
		return val{code: code, k: to, partial: p}, nil
	}
	return val{}, t.errf(x, "conversion from %s to %s is not in the subset", v.k, to)
}

func (t *tr) builtin(x *ast.CallExpr, name string) (val, error) {
	if ta, ok := t.typeArg[name]; ok {
		name = ta
	}
	switch name {
	case "uint64":
		return t.convert(x, kU64)
	case "int64", "int":
		return t.convert(x, kI64)
	case "float64", "float32":
		return val{}, t.errf(x, "floating point is not in the subset")
	case "len":
		vs, err := t.args(x.Args)
		if err != nil {
			return val{}, err
		}
		if len(vs) != 1 || vs[0].k != kList {
			return val{}, t.errf(x, "len of a non-slice")
		}
		code, p := t.lift(vs, func(c []string) string { return "go_len " + c[0] }, false)
		return val{code: code, k: kI64, partial: p}, nil
	case "max", "min":
		vs, err := t.args(x.Args)
		if err != nil {
			return val{}, err
		}
		if len(vs) != 2 {
			return val{}, t.errf(x, "%s with %d arguments", name, len(vs))
		}
		a, b, k, err := t.unify(x, vs[0], vs[1])
		if err != nil {
			return val{}, err
		}
		if k != kU64 && k != kI64 {
			return val{}, t.errf(x, "%s on %s", name, k)
		}
		fn := map[string]string{"max": "Z.max", "min": "Z.min"}[name]
		code, p := t.lift([]val{a, b}, func(c []string) string { return fn + " " + c[0] + " " + c[1] }, false)
		return val{code: code, k: k, partial: p}, nil
	case "new":
		if len(x.Args) == 1 && t.c.Src(x.Args[0]) == "big.Int" && t.imports["big"] == "math/big" {
			return val{code: "0", k: kBig, fresh: true, cst: big.NewInt(0)}, nil
		}
		return val{}, t.errf(x, "new(%s) is not in the subset", t.c.Src(x.Args[0]))
	case "make":
		if len(x.Args) == 2 {
			k, el, err := t.typeKind(x.Args[0])
			if err != nil {
				return val{}, err
			}
			n, err := t.expr(x.Args[1])
			if err != nil {
				return val{}, err
			}
			if k == kList && (n.k == kI64 || n.k == kUntyped) {
				code, _ := t.lift([]val{n}, func(c []string) string { return "go_make " + c[0] }, true)
				return val{code: code, k: kList, elem: el, partial: true}, nil
			}
		}
		return val{}, t.errf(x, "this form of make is not in the subset")
	}
	return val{}, t.errf(x, "call of %s is not in the subset", name)
}

func (t *tr) pkgCall(x *ast.CallExpr, path, name string) (val, error) {
	switch path + "." + name {
	case "time.Duration":
		return t.convert(x, kI64)
	case "fmt.Errorf", "errors.New":
		return val{isErr: true}, nil
	}
	vs, err := t.args(x.Args)
	if err != nil {
		return val{}, err
	}
	one := func(k kind) (val, error) {
		if len(vs) != 1 {
			return val{}, t.errf(x, "%s.%s arity", path, name)
		}
		return t.coerce(x, vs[0], k)
	}
	switch path + "." + name {
	case "math/big.NewInt":
		v, err := one(kI64)
		if err != nil {
			return val{}, err
		}
		v.k, v.fresh = kBig, true
		return v, nil
	case "cosmossdk.io/math.NewInt":
		v, err := one(kI64)
		if err != nil {
			return val{}, err
		}
		v.k = kSdk
		return v, nil
	case "cosmossdk.io/math.NewIntFromUint64":
		v, err := one(kU64)
		if err != nil {
			return val{}, err
		}
		v.k = kSdk
		return v, nil
	case "cosmossdk.io/math.NewIntFromBigInt":
		v, err := one(kBig)
		if err != nil {
			return val{}, err
		}
		code, _ := t.lift([]val{v}, func(c []string) string { return "go_sdk_chk " + c[0] }, true)
		return val{code: code, k: kSdk, partial: true}, nil
	case "cosmossdk.io/math.ZeroInt":
		if len(vs) == 0 {
			return val{code: "0", k: kSdk, cst: big.NewInt(0)}, nil
		}
	case "cosmossdk.io/math.OneInt":
		if len(vs) == 0 {
			return val{code: "1", k: kSdk, cst: big.NewInt(1)}, nil
		}
	case "cosmossdk.io/math.LegacyNewDec":
		v, err := one(kI64)
		if err != nil {
			return val{}, err
		}
		if v.cst != nil {
			r := new(big.Int).Mul(v.cst, new(big.Int).Exp(big.NewInt(10), big.NewInt(18), nil))
			return val{code: "Some " + zlit(r), k: kDecOpt}, nil
		}
		code, p := t.lift([]val{v}, func(c []string) string { return "Some (" + c[0] + " * go_dec_unit)" }, false)
		return val{code: code, k: kDecOpt, partial: p}, nil
	}
	return val{}, t.errf(x, "call of %s.%s is not in the subset", path, name)
}

func (t *tr) method(x *ast.CallExpr, f *ast.SelectorExpr, recv val) (val, error) {
	name := f.Sel.Name
	vs, err := t.args(x.Args)
	if err != nil {
		return val{}, err
	}
	switch recv.k {
	case kSdk:
		return t.sdkMethod(x, name, recv, vs)
	case kSdkOpt:
		if name == "IsNil" && len(vs) == 0 {
			code, p := t.lift([]val{recv}, func(c []string) string { return "go_isnil " + c[0] }, false)
			return val{code: code, k: kBool, partial: p}, nil
		}
		// any other method dereferences the inner pointer
		d := t.deref(recv, kSdk)
		return t.sdkMethod(x, name, d, vs)
	case kDecOpt:
		return t.decMethod(x, name, recv, vs)
	case kBig:
		return t.bigMethod(x, f, name, recv, vs)
	}
	return val{}, t.errf(x, "method %s on %s is not in the subset", name, recv.k)
}

func (t *tr) deref(v val, to kind) val {
	code, _ := t.lift([]val{v}, func(c []string) string { return "go_deref " + c[0] }, true)
	return val{code: code, k: to, partial: true}
}

func (t *tr) sdkArg(x ast.Node, v val) (val, error) {
	switch v.k {
	case kSdk:
		return v, nil
	case kSdkOpt:
		return t.deref(v, kSdk), nil
	}
	return v, t.errf(x, "argument of kind %s where sdkmath.Int is needed", v.k)
}

func (t *tr) sdkMethod(x *ast.CallExpr, name string, recv val, vs []val) (val, error) {
	pure := func(k kind, f func(c []string) string, all ...val) (val, error) {
		code, p := t.lift(all, f, false)
		return val{code: code, k: k, partial: p}, nil
	}
	part := func(k kind, f func(c []string) string, all ...val) (val, error) {
		code, _ := t.lift(all, f, true)
		return val{code: code, k: k, partial: true}, nil
	}
	switch len(vs) {
	case 0:
		switch name {
		case "IsZero":
			return pure(kBool, func(c []string) string { return c[0] + " =? 0" }, recv)
		case "IsPositive":
			return pure(kBool, func(c []string) string { return "0 <? " + c[0] }, recv)
		case "IsNegative":
			return pure(kBool, func(c []string) string { return c[0] + " <? 0" }, recv)
		case "Sign":
			return pure(kI64, func(c []string) string { return "Z.sgn " + c[0] }, recv)
		case "IsUint64":
			return pure(kBool, func(c []string) string { return "go_is_uint64 " + c[0] }, recv)
		case "IsInt64":
			return pure(kBool, func(c []string) string { return "go_is_int64 " + c[0] }, recv)
		case "Uint64":
			return part(kU64, func(c []string) string { return "go_sdk_uint64 " + c[0] }, recv)
		case "Int64":
			return part(kI64, func(c []string) string { return "go_sdk_int64 " + c[0] }, recv)
		case "BigInt":
			v, err := pure(kBig, func(c []string) string { return c[0] }, recv)
			v.fresh = true
			if !v.partial {
				v.code = recv.code
			}
			return v, err
		case "Neg":
			return pure(kSdk, func(c []string) string { return "- " + c[0] }, recv)
		case "IsNil":
			return val{code: "false", k: kBool}, t.errf(x, "IsNil on an sdkmath.Int that the translation spec declares initialised; declare it nil-able")
		}
	case 1:
		a := vs[0]
		switch name {
		case "Add", "Sub", "Mul", "Quo", "GT", "GTE", "LT", "LTE", "Equal":
			var err error
			if a, err = t.sdkArg(x, a); err != nil {
				return val{}, err
			}
		case "AddRaw", "SubRaw", "MulRaw", "QuoRaw":
			var err error
			if a, err = t.coerce(x, a, kI64); err != nil {
				return val{}, err
			}
		}
		switch name {
		case "Add", "AddRaw":
			return part(kSdk, func(c []string) string { return "go_sdk_chk (" + c[0] + " + " + c[1] + ")" }, recv, a)
		case "Sub", "SubRaw":
			return part(kSdk, func(c []string) string { return "go_sdk_chk (" + c[0] + " - " + c[1] + ")" }, recv, a)
		case "Mul", "MulRaw":
			return part(kSdk, func(c []string) string { return "go_sdk_chk (" + c[0] + " * " + c[1] + ")" }, recv, a)
		case "Quo", "QuoRaw":
			if a.cst != nil && a.cst.Sign() != 0 {
				return pure(kSdk, func(c []string) string { return "Z.quot " + c[0] + " " + c[1] }, recv, a)
			}
			return part(kSdk, func(c []string) string { return "go_quo " + c[0] + " " + c[1] }, recv, a)
		case "GT":
			return pure(kBool, func(c []string) string { return c[1] + " <? " + c[0] }, recv, a)
		case "GTE":
			return pure(kBool, func(c []string) string { return c[1] + " <=? " + c[0] }, recv, a)
		case "LT":
			return pure(kBool, func(c []string) string { return c[0] + " <? " + c[1] }, recv, a)
		case "LTE":
			return pure(kBool, func(c []string) string { return c[0] + " <=? " + c[1] }, recv, a)
		case "Equal":
			return pure(kBool, func(c []string) string { return c[0] + " =? " + c[1] }, recv, a)
		}
	}
	return val{}, t.errf(x, "sdkmath.Int method %s/%d is not in the subset", name, len(vs))
}

func (t *tr) decMethod(x *ast.CallExpr, name string, recv val, vs []val) (val, error) {
	if name == "IsNil" && len(vs) == 0 {
		code, p := t.lift([]val{recv}, func(c []string) string { return "go_isnil " + c[0] }, false)
		return val{code: code, k: kBool, partial: p}, nil
	}
	d := t.deref(recv, kI64) // raw integer; kind used only locally
	mk := func(k kind, f func(c []string) string, all ...val) (val, error) {
		code, p := t.lift(all, f, false)
		return val{code: code, k: k, partial: p}, nil
	}
	switch len(vs) {
	case 0:
		switch name {
		case "IsZero":
			return mk(kBool, func(c []string) string { return c[0] + " =? 0" }, d)
		case "IsPositive":
			return mk(kBool, func(c []string) string { return "0 <? " + c[0] }, d)
		case "IsNegative":
			return mk(kBool, func(c []string) string { return c[0] + " <? 0" }, d)
		case "BigInt":
			// a nil Dec yields a nil *big.Int; nil pointers are not values of the subset, so the
			// nil case is the panic its first use would raise
			v, err := mk(kBig, func(c []string) string { return c[0] }, d)
			v.fresh = true
			return v, err
		}
	case 1:
		if vs[0].k != kDecOpt {
			return val{}, t.errf(x, "LegacyDec.%s with an argument of kind %s", name, vs[0].k)
		}
		e := t.deref(vs[0], kI64)
		switch name {
		case "GT":
			return mk(kBool, func(c []string) string { return c[1] + " <? " + c[0] }, d, e)
		case "GTE":
			return mk(kBool, func(c []string) string { return c[1] + " <=? " + c[0] }, d, e)
		case "LT":
			return mk(kBool, func(c []string) string { return c[0] + " <? " + c[1] }, d, e)
		case "LTE":
			return mk(kBool, func(c []string) string { return c[0] + " <=? " + c[1] }, d, e)
		case "Equal":
			return mk(kBool, func(c []string) string { return c[0] + " =? " + c[1] }, d, e)
		}
	}
	return val{}, t.errf(x, "LegacyDec method %s/%d is not in the subset", name, len(vs))
}

// bigMethod: *big.Int.  Three-address methods z.Op(x, y) set z and return z.  The receiver must be
// a fresh value (then the call is just its result) or a local variable (then the variable is
// updated; allowed only where gotrans_stmt.go can account for the update).
func (t *tr) bigMethod(x *ast.CallExpr, f *ast.SelectorExpr, name string, recv val, vs []val) (val, error) {
	mk := func(k kind, f func(c []string) string, all ...val) (val, error) {
		code, p := t.lift(all, f, false)
		return val{code: code, k: k, partial: p}, nil
	}
	// observers
	switch {
	case len(vs) == 0 && name == "Sign":
		return mk(kI64, func(c []string) string { return "Z.sgn " + c[0] }, recv)
	case len(vs) == 0 && name == "IsUint64":
		return mk(kBool, func(c []string) string { return "go_is_uint64 " + c[0] }, recv)
	case len(vs) == 0 && name == "IsInt64":
		return mk(kBool, func(c []string) string { return "go_is_int64 " + c[0] }, recv)
	case len(vs) == 0 && name == "Uint64":
		return mk(kU64, func(c []string) string { return "go_big_uint64 " + c[0] }, recv)
	case len(vs) == 1 && name == "Cmp" && vs[0].k == kBig:
		return mk(kI64, func(c []string) string { return "go_cmp " + c[0] + " " + c[1] }, recv, vs[0])
	}
	// mutators
	mutVar := ""
	if !recv.fresh {
		id, ok := f.X.(*ast.Ident)
		if !ok {
			return val{}, t.errf(x, "receiver of (*big.Int).%s is neither fresh nor a local variable", name)
		}
		b, _ := t.lookup(id.Name)
		if b == nil || b.param {
			return val{}, t.errf(x, "(*big.Int).%s would modify %s, which is not a local variable", name, id.Name)
		}
		mutVar = id.Name
	}
	for _, v := range vs {
		if v.k == kBig && v.mutVar != "" {
			return val{}, t.errf(x, "nested in-place *big.Int updates are not in the subset")
		}
	}
	var out val
	var err error
	bigs := func(n int) bool {
		if len(vs) != n {
			return false
		}
		for _, v := range vs {
			if v.k != kBig {
				return false
			}
		}
		return true
	}
	switch {
	case name == "Add" && bigs(2):
		out, err = mk(kBig, func(c []string) string { return c[0] + " + " + c[1] }, vs...)
	case name == "Sub" && bigs(2):
		out, err = mk(kBig, func(c []string) string { return c[0] + " - " + c[1] }, vs...)
	case name == "Mul" && bigs(2):
		out, err = mk(kBig, func(c []string) string { return c[0] + " * " + c[1] }, vs...)
	case (name == "Quo" || name == "Rem") && bigs(2):
		pureFn := map[string]string{"Quo": "Z.quot", "Rem": "Z.rem"}[name]
		partFn := map[string]string{"Quo": "go_quo", "Rem": "go_rem"}[name]
		if vs[1].cst != nil && vs[1].cst.Sign() != 0 {
			out, err = mk(kBig, func(c []string) string { return pureFn + " " + c[0] + " " + c[1] }, vs...)
		} else {
			code, _ := t.lift(vs, func(c []string) string { return partFn + " " + c[0] + " " + c[1] }, true)
			out = val{code: code, k: kBig, partial: true}
		}
	case name == "Set" && bigs(1):
		out = vs[0]
	case name == "SetUint64" && len(vs) == 1:
		v, e := t.coerce(x, vs[0], kU64)
		if e != nil {
			return val{}, e
		}
		out = v
		out.k = kBig
	case name == "SetInt64" && len(vs) == 1:
		v, e := t.coerce(x, vs[0], kI64)
		if e != nil {
			return val{}, e
		}
		out = v
		out.k = kBig
	case name == "Exp" && len(vs) == 3 && vs[0].k == kBig && vs[1].k == kBig && vs[2].isNil:
		if vs[0].cst != nil && vs[1].cst != nil && vs[1].cst.IsInt64() && vs[1].cst.Int64() <= 4096 {
			r := big.NewInt(1)
			if vs[1].cst.Sign() > 0 {
				r = new(big.Int).Exp(vs[0].cst, vs[1].cst, nil)
			}
			out = constVal(r, kBig)
		} else {
			out, err = mk(kBig, func(c []string) string { return "go_big_exp " + c[0] + " " + c[1] }, vs[0], vs[1])
		}
	default:
		return val{}, t.errf(x, "(*big.Int).%s/%d is not in the subset", name, len(vs))
	}
	if err != nil {
		return val{}, err
	}
	out.k = kBig
	out.fresh = mutVar == ""
	out.mutVar = mutVar
	out.isNil = false
	return out, nil
}
