package main

import (
	"fmt"
	"go/ast"
	"os"
	"path/filepath"
	"sort"
	"strings"
)

// C17: what the model of the scheduler mirrors, read from the source:
//   - the pad size of injectSenderIntoPayload (zeroPadBytes(senderBytes, N)) and the order of its append,
//   - the order of the sender / contract cases in evm ExecuteJob and what each SubmitLogicCall field is fed from,
//   - the two payload guards of ScheduleNow,
//   - the duplicate-id guard of AddNewJob, the owner assignment of the CreateJob msg server,
//   - what the msg server / the wasm binding pass to keeper.ExecuteJob,
//   - the field list of scheduler types.Job (so that a new field is noticed by the immutability model),
//   - whether unmarshalJob validates the hex payload.
func init() { extractors["C17"] = extractC17 }

func squash(s string) string { return strings.Join(strings.Fields(s), " ") }

func extractC17(c *Ctx) error {
	// ---------- x/evm/keeper/scheduler_job.go ----------
	f, err := c.Parse("x/evm/keeper/scheduler_job.go")
	if err != nil {
		return err
	}
	inj := FindFunc(f, "", "injectSenderIntoPayload")
	if inj == nil {
		return fmt.Errorf("injectSenderIntoPayload not found")
	}
	zp := Calls(inj.Body, "zeroPadBytes")
	if len(zp) != 1 || len(zp[0].Args) != 2 {
		return fmt.Errorf("injectSenderIntoPayload: expected exactly one zeroPadBytes(x, N) call")
	}
	padArg := c.Src(zp[0].Args[0])
	padSize := c.Src(zp[0].Args[1])
	for _, r := range padSize {
		if r < '0' || r > '9' {
			return fmt.Errorf("zeroPadBytes size %q is not a literal", padSize)
		}
	}
	// return append(payload, appendSenderBytes...), nil
	var ret *ast.ReturnStmt
	for _, st := range inj.Body.List {
		if r, ok := st.(*ast.ReturnStmt); ok {
			ret = r
		}
	}
	if ret == nil || len(ret.Results) != 2 {
		return fmt.Errorf("injectSenderIntoPayload: final return not recognised")
	}
	c.P("(* x/evm/keeper/scheduler_job.go: injectSenderIntoPayload *)")
	c.P("Definition sender_pad_size : Z := %s.", padSize)
	c.P("Definition inject_pad_arg : string := %s.", CoqStr(padArg))
	c.P("Definition inject_return : string := %s.", CoqStr(squash(c.Src(ret.Results[0]))))

	zf := FindFunc(f, "", "zeroPadBytes")
	if zf == nil {
		return fmt.Errorf("zeroPadBytes not found")
	}
	var zguard, zcopy string
	ast.Inspect(zf.Body, func(n ast.Node) bool {
		switch x := n.(type) {
		case *ast.IfStmt:
			if zguard == "" {
				zguard = squash(c.Src(x.Cond))
			}
		case *ast.CallExpr:
			if id, ok := x.Fun.(*ast.Ident); ok && id.Name == "copy" {
				zcopy = squash(c.Src(x))
			}
		}
		return true
	})
	if zguard == "" || zcopy == "" {
		return fmt.Errorf("zeroPadBytes: guard / copy not recognised")
	}
	c.P("Definition zeropad_guard : string := %s.", CoqStr(zguard))
	c.P("Definition zeropad_copy : string := %s.", CoqStr(zcopy))

	ex := FindFunc(f, "Keeper", "ExecuteJob")
	if ex == nil {
		return fmt.Errorf("evm Keeper.ExecuteJob not found")
	}
	// switch { case jcfg.SenderAddress != nil: ... case jcfg.ContractAddress != nil: ... }
	var caseConds []string
	ast.Inspect(ex.Body, func(n ast.Node) bool {
		sw, ok := n.(*ast.SwitchStmt)
		if !ok || sw.Tag != nil {
			return true
		}
		for _, st := range sw.Body.List {
			cc := st.(*ast.CaseClause)
			for _, e := range cc.List {
				caseConds = append(caseConds, squash(c.Src(e)))
			}
			if len(cc.List) == 0 {
				caseConds = append(caseConds, "default")
			}
		}
		return false
	})
	if len(caseConds) == 0 {
		return fmt.Errorf("evm ExecuteJob: sender switch not recognised")
	}
	c.P("(* evm ExecuteJob: order of the suffix sources *)")
	c.P("Definition suffix_cases : list string := %s.", CoqStrList(caseConds))
	injCalls := Calls(ex.Body, "injectSenderIntoPayload")
	if len(injCalls) != 1 {
		return fmt.Errorf("evm ExecuteJob: expected one injectSenderIntoPayload call")
	}
	c.P("Definition inject_call : string := %s.", CoqStr(squash(c.Src(injCalls[0]))))
	// the SubmitLogicCall literal
	var lit *ast.CompositeLit
	ast.Inspect(ex.Body, func(n ast.Node) bool {
		cl, ok := n.(*ast.CompositeLit)
		if ok && strings.HasSuffix(c.Src(cl.Type), "SubmitLogicCall") {
			lit = cl
			return false
		}
		return true
	})
	if lit == nil {
		return fmt.Errorf("evm ExecuteJob: SubmitLogicCall literal not found")
	}
	var fields []string
	for _, e := range lit.Elts {
		kv, ok := e.(*ast.KeyValueExpr)
		if !ok {
			return fmt.Errorf("SubmitLogicCall literal: positional element")
		}
		k := c.Src(kv.Key)
		if k == "Deadline" { // time-dependent, not part of the property
			continue
		}
		fields = append(fields, k+" := "+squash(c.Src(kv.Value)))
	}
	c.P("Definition logic_call_fields : list string := %s.", CoqStrList(fields))
	adds := Calls(ex.Body, "AddSmartContractExecutionToConsensus")
	if len(adds) != 1 || len(adds[0].Args) != 4 {
		return fmt.Errorf("evm ExecuteJob: AddSmartContractExecutionToConsensus call not recognised")
	}
	c.P("Definition enqueue_args : list string := %s.", CoqStrList([]string{squash(c.Src(adds[0].Args[1])), squash(c.Src(adds[0].Args[2]))}))

	um := FindFunc(f, "Keeper", "unmarshalJob")
	if um == nil {
		return fmt.Errorf("unmarshalJob not found")
	}
	// the two documents are decoded separately, each into its own value
	var decodes []string
	for _, ce := range Calls(um.Body, "Unmarshal") {
		var as []string
		for _, a := range ce.Args {
			as = append(as, squash(c.Src(a)))
		}
		decodes = append(decodes, strings.Join(as, ", "))
	}
	c.P("Definition unmarshal_decodes : list string := %s.", CoqStrList(decodes))
	validates := len(Calls(um.Body, "validateHexPayload")) == 1
	c.P("Definition unmarshal_validates_hex : bool := %v.", validates)
	if vf := FindFunc(f, "", "validateHexPayload"); vf != nil {
		strict := len(Calls(vf.Body, "DecodeString")) == 1
		c.P("Definition hex_validation_uses_decodestring : bool := %v.", strict)
	} else {
		c.P("Definition hex_validation_uses_decodestring : bool := false.")
	}

	// ---------- x/evm/keeper/smart_contract_deployment.go ----------
	sf, err := c.Parse("x/evm/keeper/smart_contract_deployment.go")
	if err != nil {
		return err
	}
	add := FindFunc(sf, "Keeper", "AddSmartContractExecutionToConsensus")
	if add == nil {
		return fmt.Errorf("AddSmartContractExecutionToConsensus not found")
	}
	puts := Calls(add.Body, "PutMessageInQueue")
	picks := Calls(add.Body, "PickValidatorForMessage")
	if len(puts) != 1 || len(picks) != 1 || len(puts[0].Args) != 4 {
		return fmt.Errorf("AddSmartContractExecutionToConsensus: expected one pick and one put")
	}
	if picks[0].Pos() > puts[0].Pos() {
		return fmt.Errorf("AddSmartContractExecutionToConsensus: put before pick")
	}
	c.P("(* AddSmartContractExecutionToConsensus: one pick, then one put *)")
	c.P("Definition put_queue : string := %s.", CoqStr(squash(c.Src(puts[0].Args[1]))))
	var mfields []string
	ast.Inspect(puts[0].Args[2], func(n ast.Node) bool {
		cl, ok := n.(*ast.CompositeLit)
		if ok && strings.HasSuffix(c.Src(cl.Type), "types.Message") {
			for _, e := range cl.Elts {
				if kv, ok := e.(*ast.KeyValueExpr); ok {
					k := c.Src(kv.Key)
					if k == "AssignedAtBlockHeight" {
						continue
					}
					mfields = append(mfields, k+" := "+squash(c.Src(kv.Value)))
				}
			}
			return false
		}
		return true
	})
	c.P("Definition put_message_fields : list string := %s.", CoqStrList(mfields))

	// ---------- x/scheduler/keeper/keeper.go ----------
	kf, err := c.Parse("x/scheduler/keeper/keeper.go")
	if err != nil {
		return err
	}
	sn := FindFunc(kf, "Keeper", "ScheduleNow")
	if sn == nil {
		return fmt.Errorf("ScheduleNow not found")
	}
	var guards []string
	for _, st := range sn.Body.List {
		if is, ok := st.(*ast.IfStmt); ok {
			cond := squash(c.Src(is.Cond))
			if strings.Contains(cond, "Modifiable") {
				body := ""
				if len(is.Body.List) > 0 {
					body = squash(c.Src(is.Body.List[len(is.Body.List)-1]))
				}
				if strings.HasPrefix(body, "return") {
					body = "return error"
				}
				guards = append(guards, cond+" => "+body)
			}
		}
	}
	if len(guards) == 0 {
		return fmt.Errorf("ScheduleNow: payload guards not recognised")
	}
	c.P("(* x/scheduler/keeper/keeper.go: ScheduleNow *)")
	c.P("Definition schedule_guards : list string := %s.", CoqStrList(guards))
	var jcfg []string
	ast.Inspect(sn.Body, func(n ast.Node) bool {
		cl, ok := n.(*ast.CompositeLit)
		if ok && strings.HasSuffix(c.Src(cl.Type), "JobConfiguration") {
			for _, e := range cl.Elts {
				if kv, ok := e.(*ast.KeyValueExpr); ok {
					jcfg = append(jcfg, c.Src(kv.Key)+" := "+squash(c.Src(kv.Value)))
				}
			}
			return false
		}
		return true
	})
	c.P("Definition job_configuration : list string := %s.", CoqStrList(jcfg))

	an := FindFunc(kf, "Keeper", "AddNewJob")
	if an == nil || len(an.Body.List) == 0 {
		return fmt.Errorf("AddNewJob not found")
	}
	first, ok := an.Body.List[0].(*ast.IfStmt)
	if !ok {
		return fmt.Errorf("AddNewJob: first statement is not the duplicate guard")
	}
	c.P("Definition addnewjob_first_guard : string := %s.", CoqStr(squash(c.Src(first.Cond))))
	ej := FindFunc(kf, "Keeper", "ExecuteJob")
	if ej == nil {
		return fmt.Errorf("scheduler Keeper.ExecuteJob not found")
	}
	var order []string
	ast.Inspect(ej.Body, func(n ast.Node) bool {
		if ce, ok := n.(*ast.CallExpr); ok {
			if se, ok := ce.Fun.(*ast.SelectorExpr); ok {
				switch se.Sel.Name {
				case "GetJob", "PreJobExecution", "ScheduleNow":
					order = append(order, squash(c.Src(ce)))
				}
			}
		}
		return true
	})
	c.P("Definition keeper_execute_calls : list string := %s.", CoqStrList(order))

	// saves: every Save into the jobs store
	files, err := c.ParseDir("x/scheduler/keeper")
	if err != nil {
		return err
	}
	var writers []string
	for _, file := range files {
		for _, d := range file.Decls {
			fd, ok := d.(*ast.FuncDecl)
			if !ok || fd.Body == nil {
				continue
			}
			n := 0
			ast.Inspect(fd.Body, func(x ast.Node) bool {
				ce, ok := x.(*ast.CallExpr)
				if !ok {
					return true
				}
				s := c.Src(ce.Fun)
				if (strings.HasSuffix(s, ".Save") || strings.HasSuffix(s, ".Set") || strings.HasSuffix(s, ".Delete")) && strings.Contains(c.Src(ce), "jobsStore") {
					n++
				}
				return true
			})
			if n > 0 {
				writers = append(writers, fd.Name.Name)
			}
		}
	}
	c.P("(* functions of x/scheduler/keeper that write to the jobs store *)")
	c.P("Definition jobs_store_writers : list string := %s.", CoqStrList(writers))
	var saveCallers []string
	for _, file := range files {
		for _, d := range file.Decls {
			fd, ok := d.(*ast.FuncDecl)
			if !ok || fd.Body == nil {
				continue
			}
			if len(Calls(fd.Body, "saveJob")) > 0 {
				saveCallers = append(saveCallers, fd.Name.Name)
			}
		}
	}
	c.P("Definition savejob_callers : list string := %s.", CoqStrList(saveCallers))

	// ---------- msg servers / binding ----------
	cf, err := c.Parse("x/scheduler/keeper/msg_server_create_job.go")
	if err != nil {
		return err
	}
	cj := FindFunc(cf, "msgServer", "CreateJob")
	if cj == nil {
		return fmt.Errorf("msgServer.CreateJob not found")
	}
	owner := ""
	ast.Inspect(cj.Body, func(n ast.Node) bool {
		as, ok := n.(*ast.AssignStmt)
		if ok && len(as.Lhs) >= 1 && strings.HasSuffix(c.Src(as.Lhs[0]), ".Owner") && len(as.Rhs) == 1 {
			owner = squash(c.Src(as.Lhs[0])) + " := " + squash(c.Src(as.Rhs[0]))
		}
		return true
	})
	if owner == "" {
		return fmt.Errorf("CreateJob: owner assignment not recognised")
	}
	c.P("Definition create_owner : string := %s.", CoqStr(owner))
	xf, err := c.Parse("x/scheduler/keeper/msg_server_execute_job.go")
	if err != nil {
		return err
	}
	xj := FindFunc(xf, "msgServer", "ExecuteJob")
	if xj == nil {
		return fmt.Errorf("msgServer.ExecuteJob not found")
	}
	xc := Calls(xj.Body, "ExecuteJob")
	if len(xc) != 1 {
		return fmt.Errorf("msgServer.ExecuteJob: keeper call not recognised")
	}
	var xargs []string
	for _, a := range xc[0].Args[1:] {
		xargs = append(xargs, squash(c.Src(a)))
	}
	c.P("Definition msgserver_execute_args : list string := %s.", CoqStrList(xargs))
	sender := ""
	ast.Inspect(xj.Body, func(n ast.Node) bool {
		as, ok := n.(*ast.AssignStmt)
		if ok && len(as.Lhs) == 1 && c.Src(as.Lhs[0]) == "senderAddress" && len(as.Rhs) == 1 {
			sender = squash(c.Src(as.Rhs[0]))
		}
		return true
	})
	c.P("Definition msgserver_sender : string := %s.", CoqStr(sender))
	bf, err := c.Parse("x/scheduler/bindings/msg_plugin.go")
	if err != nil {
		return err
	}
	be := FindFunc(bf, "customMessenger", "executeJob")
	if be == nil {
		return fmt.Errorf("customMessenger.executeJob not found")
	}
	bc := Calls(be.Body, "ExecuteJob")
	if len(bc) != 1 {
		return fmt.Errorf("customMessenger.executeJob: keeper call not recognised")
	}
	var bargs []string
	for _, a := range bc[0].Args[1:] {
		bargs = append(bargs, squash(c.Src(a)))
	}
	c.P("Definition binding_execute_args : list string := %s.", CoqStrList(bargs))
	wrap := ""
	ast.Inspect(be.Body, func(n ast.Node) bool {
		as, ok := n.(*ast.AssignStmt)
		if ok && len(as.Lhs) == 1 && c.Src(as.Lhs[0]) == "injected" && len(as.Rhs) == 1 {
			wrap = squash(c.Src(as.Rhs[0]))
		}
		return true
	})
	c.P("Definition binding_wrap : string := %s.", CoqStr(wrap))

	// ---------- types.Job field list ----------
	jf, err := c.Parse("x/scheduler/types/job.pb.go")
	if err != nil {
		return err
	}
	var jobFields []string
	for _, d := range jf.Decls {
		gd, ok := d.(*ast.GenDecl)
		if !ok {
			continue
		}
		for _, s := range gd.Specs {
			ts, ok := s.(*ast.TypeSpec)
			if !ok || ts.Name.Name != "Job" {
				continue
			}
			st, ok := ts.Type.(*ast.StructType)
			if !ok {
				return fmt.Errorf("types.Job is not a struct")
			}
			for _, fl := range st.Fields.List {
				for _, n := range fl.Names {
					jobFields = append(jobFields, n.Name)
				}
			}
		}
	}
	if len(jobFields) == 0 {
		return fmt.Errorf("types.Job fields not found")
	}
	c.P("(* x/scheduler/types/job.pb.go: fields of Job *)")
	c.P("Definition job_fields : list string := %s.", CoqStrList(jobFields))
	c.Info("pad", padSize)
	c.Info("job_fields", jobFields)
	c.Info("validates_hex", validates)
	return extractC17Entry(c, kf, bf)
}

// c17RecvName: receiver type name of a method declaration ("" for a plain function).
func c17RecvName(fd *ast.FuncDecl) string {
	if fd.Recv == nil || len(fd.Recv.List) != 1 {
		return ""
	}
	t := fd.Recv.List[0].Type
	if s, ok := t.(*ast.StarExpr); ok {
		t = s.X
	}
	if ix, ok := t.(*ast.IndexExpr); ok {
		t = ix.X
	}
	if id, ok := t.(*ast.Ident); ok {
		return id.Name
	}
	return ""
}

// c17CallSites lists, over every non-test, non-generated, non-mock, non-hook Go file of the tree, the
// functions that contain a call whose callee's last name is one of names: "dir/file.go:Recv.Func -> name".
// Purely syntactic (by name): a new caller anywhere in the tree shows up, whatever it calls it on.
func c17CallSites(c *Ctx, names map[string]bool) ([]string, error) {
	set := map[string]bool{}
	err := filepath.Walk(c.Repo, func(path string, info os.FileInfo, err error) error {
		if err != nil {
			return err
		}
		rel, _ := filepath.Rel(c.Repo, path)
		if info.IsDir() {
			b := info.Name()
			if rel != "." && (strings.HasPrefix(b, ".") || b == "tests" || b == "testutil" || b == "mocks" || b == "node_modules" || b == "testdata" || b == "simulation") {
				return filepath.SkipDir
			}
			return nil
		}
		if !strings.HasSuffix(rel, ".go") || strings.HasSuffix(rel, "_test.go") || strings.HasSuffix(rel, ".pb.go") || strings.HasSuffix(rel, ".pb.gw.go") ||
			strings.HasPrefix(filepath.Base(rel), "verif_hooks") || filepath.Base(rel) == "test_common.go" {
			return nil
		}
		src, err := os.ReadFile(path)
		if err != nil {
			return err
		}
		hit := false
		for n := range names {
			if strings.Contains(string(src), n+"(") {
				hit = true
			}
		}
		if !hit {
			return nil
		}
		f, err := c.Parse(rel)
		if err != nil {
			return err
		}
		for _, d := range f.Decls {
			fd, ok := d.(*ast.FuncDecl)
			if !ok || fd.Body == nil {
				continue
			}
			who := fd.Name.Name
			if r := c17RecvName(fd); r != "" {
				who = r + "." + who
			}
			for n := range names {
				if len(Calls(fd.Body, n)) > 0 {
					set[filepath.ToSlash(rel)+":"+who+" -> "+n] = true
				}
			}
		}
		return nil
	})
	if err != nil {
		return nil, err
	}
	out := SortedSet(set)
	sort.Strings(out)
	return out, nil
}

// c17Calls is Calls that also sees through generic instantiations (keeperutil.Load[*types.Job](...)).
func c17Calls(n ast.Node, name string) []*ast.CallExpr {
	var out []*ast.CallExpr
	ast.Inspect(n, func(x ast.Node) bool {
		ce, ok := x.(*ast.CallExpr)
		if !ok {
			return true
		}
		fun := ce.Fun
		if ix, ok := fun.(*ast.IndexExpr); ok {
			fun = ix.X
		}
		switch f := fun.(type) {
		case *ast.SelectorExpr:
			if f.Sel.Name == name {
				out = append(out, ce)
			}
		case *ast.Ident:
			if f.Name == name {
				out = append(out, ce)
			}
		}
		return true
	})
	return out
}

func c17CallArgs(c *Ctx, ce *ast.CallExpr) []string {
	var out []string
	for _, a := range ce.Args {
		out = append(out, squash(c.Src(a)))
	}
	return out
}

func c17StructFields(f *ast.File, name string) []string {
	var out []string
	for _, d := range f.Decls {
		gd, ok := d.(*ast.GenDecl)
		if !ok {
			continue
		}
		for _, s := range gd.Specs {
			ts, ok := s.(*ast.TypeSpec)
			if !ok || ts.Name.Name != name {
				continue
			}
			if st, ok := ts.Type.(*ast.StructType); ok {
				for _, fl := range st.Fields.List {
					for _, n := range fl.Names {
						out = append(out, n.Name)
					}
				}
			}
		}
	}
	return out
}

// Second part (round 2): every entry point that can create or run a job, genesis and block hooks,
// the job-id key functions, the caller identity each entry point hands over, SendValsetMsgForChain.
func extractC17Entry(c *Ctx, kf, bf *ast.File) error {
	// ---------- who calls what, in the whole tree ----------
	sites, err := c17CallSites(c, map[string]bool{"AddNewJob": true, "saveJob": true, "ScheduleNow": true, "ExecuteJob": true,
		"PreJobExecution": true, "SendValsetMsgForChain": true, "jobsStore": true})
	if err != nil {
		return err
	}
	if len(sites) == 0 {
		return fmt.Errorf("no call sites found: tree walk broken")
	}
	c.P("(* every function of the tree (tests, mocks, generated files, verif hooks excluded) that calls one of")
	c.P("   AddNewJob / saveJob / ScheduleNow / ExecuteJob / PreJobExecution / SendValsetMsgForChain / jobsStore, by name *)")
	c.P("Definition entry_points : list string := %s.", CoqStrList(sites))

	// ---------- genesis and block hooks ----------
	gf, err := c.Parse("x/scheduler/genesis.go")
	if err != nil {
		return err
	}
	for _, fn := range []string{"InitGenesis", "ExportGenesis"} {
		fd := FindFunc(gf, "", fn)
		if fd == nil {
			return fmt.Errorf("scheduler %s not found", fn)
		}
		var calls []string
		ast.Inspect(fd.Body, func(n ast.Node) bool {
			if ce, ok := n.(*ast.CallExpr); ok {
				calls = append(calls, squash(c.Src(ce)))
			}
			return true
		})
		c.P("Definition genesis_%s_calls : list string := %s.", strings.ToLower(strings.TrimSuffix(fn, "Genesis")), CoqStrList(calls))
	}
	gp, err := c.Parse("x/scheduler/types/genesis.pb.go")
	if err != nil {
		return err
	}
	gfields := c17StructFields(gp, "GenesisState")
	if len(gfields) == 0 {
		return fmt.Errorf("scheduler GenesisState not found")
	}
	c.P("Definition genesis_state_fields : list string := %s.", CoqStrList(gfields))
	af, err := c.Parse("x/scheduler/abci.go")
	if err != nil {
		return err
	}
	var blockers []string
	for _, fn := range []string{"BeginBlocker", "EndBlocker"} {
		fd := FindFunc(af, "", fn)
		if fd == nil {
			return fmt.Errorf("scheduler %s not found", fn)
		}
		blockers = append(blockers, fmt.Sprintf("%s: %d statements", fn, len(fd.Body.List)))
	}
	mf, err := c.Parse("x/scheduler/module.go")
	if err != nil {
		return err
	}
	for _, fn := range []string{"BeginBlock", "EndBlock"} {
		fd := FindFunc(mf, "AppModule", fn)
		if fd == nil {
			return fmt.Errorf("scheduler AppModule.%s not found", fn)
		}
		var body []string
		for _, st := range fd.Body.List {
			body = append(body, squash(c.Src(st)))
		}
		blockers = append(blockers, "AppModule."+fn+": "+strings.Join(body, "; "))
	}
	c.P("Definition block_hooks : list string := %s.", CoqStrList(blockers))

	// ---------- the job id: duplicate check, store key, lookups ----------
	keyOf := func(fn, callee string, argIdx int) (string, error) {
		fd := FindFunc(kf, "Keeper", fn)
		if fd == nil {
			return "", fmt.Errorf("%s not found", fn)
		}
		cs := c17Calls(fd.Body, callee)
		if len(cs) != 1 || len(cs[0].Args) <= argIdx {
			return "", fmt.Errorf("%s: expected exactly one %s call", fn, callee)
		}
		return squash(c.Src(cs[0].Args[argIdx])), nil
	}
	var idk []string
	for _, q := range []struct {
		fn, callee string
		idx        int
	}{{"JobIDExists", "Has", 0}, {"saveJob", "Save", 2}, {"GetJob", "Load", 2}, {"AddNewJob", "JobIDExists", 1}, {"ExecuteJob", "GetJob", 1}, {"ScheduleNow", "GetJob", 1}, {"ExecuteJob", "ScheduleNow", 1}} {
		k, err := keyOf(q.fn, q.callee, q.idx)
		if err != nil {
			return err
		}
		idk = append(idk, q.fn+": "+q.callee+"("+k+")")
	}
	jf, err := c.Parse("x/scheduler/types/job.pb.go")
	if err != nil {
		return err
	}
	gid := FindFunc(jf, "Job", "GetID")
	if gid == nil {
		return fmt.Errorf("Job.GetID not found")
	}
	var rets []string
	ast.Inspect(gid.Body, func(n ast.Node) bool {
		if r, ok := n.(*ast.ReturnStmt); ok && len(r.Results) == 1 {
			rets = append(rets, squash(c.Src(r.Results[0])))
		}
		return true
	})
	idk = append(idk, "Job.GetID: return "+strings.Join(rets, " | "))
	// no function on the way rewrites the id (or replaces the job) before it is used as a key
	var rewrites []string
	for _, fn := range []string{"AddNewJob", "saveJob", "JobIDExists", "GetJob", "ExecuteJob", "ScheduleNow"} {
		fd := FindFunc(kf, "Keeper", fn)
		if fd == nil {
			return fmt.Errorf("%s not found", fn)
		}
		ast.Inspect(fd.Body, func(n ast.Node) bool {
			as, ok := n.(*ast.AssignStmt)
			if !ok {
				return true
			}
			for _, l := range as.Lhs {
				t := c.Src(l)
				if t == "jobID" || t == "id" || t == "job.ID" || (t == "job" && fn != "ExecuteJob" && fn != "ScheduleNow" && fn != "GetJob") {
					rewrites = append(rewrites, fn+": "+squash(c.Src(as)))
				}
			}
			return true
		})
	}
	c.P("Definition job_id_rewrites : list string := %s.", CoqStrList(rewrites))
	// the owner assignment of the CreateJob handler is a top-level statement (not under a condition)
	cf2, err := c.Parse("x/scheduler/keeper/msg_server_create_job.go")
	if err != nil {
		return err
	}
	cj2 := FindFunc(cf2, "msgServer", "CreateJob")
	if cj2 == nil {
		return fmt.Errorf("msgServer.CreateJob not found")
	}
	ownerTop := false
	for _, st := range cj2.Body.List {
		if as, ok := st.(*ast.AssignStmt); ok && len(as.Lhs) >= 1 && strings.HasSuffix(c.Src(as.Lhs[0]), ".Owner") {
			ownerTop = true
		}
	}
	c.P("Definition create_owner_unconditional : bool := %v.", ownerTop)
	c.P("(* the id the duplicate check, the store key and the lookups use: the submitted string, untransformed *)")
	c.P("Definition job_id_keys : list string := %s.", CoqStrList(idk))

	// ---------- caller identity per entry point ----------
	xf, err := c.Parse("x/scheduler/keeper/msg_server_execute_job.go")
	if err != nil {
		return err
	}
	xj := FindFunc(xf, "msgServer", "ExecuteJob")
	creator := ""
	ast.Inspect(xj.Body, func(n ast.Node) bool {
		as, ok := n.(*ast.AssignStmt)
		if ok && len(as.Lhs) == 2 && c.Src(as.Lhs[0]) == "creator" && len(as.Rhs) == 1 {
			creator = squash(c.Src(as.Rhs[0]))
		}
		return true
	})
	c.P("Definition msgserver_creator : string := %s.", CoqStr(creator))
	// every statement of the handler that assigns the creator or the sender handed to the keeper
	var idAssign []string
	ast.Inspect(xj.Body, func(n ast.Node) bool {
		as, ok := n.(*ast.AssignStmt)
		if !ok {
			return true
		}
		for _, l := range as.Lhs {
			if t := c.Src(l); t == "creator" || t == "senderAddress" {
				idAssign = append(idAssign, squash(c.Src(as)))
				break
			}
		}
		return true
	})
	c.P("Definition msgserver_identity_assignments : list string := %s.", CoqStrList(idAssign))
	be := FindFunc(bf, "customMessenger", "executeJob")
	readsSender := false
	ast.Inspect(be.Body, func(n ast.Node) bool {
		if se, ok := n.(*ast.SelectorExpr); ok && se.Sel.Name == "Sender" {
			readsSender = true
		}
		return true
	})
	c.P("Definition binding_reads_message_sender : bool := %v.", readsSender)
	bd := FindFunc(bf, "customMessenger", "DispatchMsg")
	if bd == nil {
		return fmt.Errorf("customMessenger.DispatchMsg not found")
	}
	var disp []string
	for _, n := range []string{"createJob", "executeJob"} {
		for _, ce := range Calls(bd.Body, n) {
			disp = append(disp, n+"("+strings.Join(c17CallArgs(c, ce), ", ")+")")
		}
	}
	c.P("Definition binding_dispatch : list string := %s.", CoqStrList(disp))
	bcj := FindFunc(bf, "customMessenger", "createJob")
	if bcj == nil {
		return fmt.Errorf("customMessenger.createJob not found")
	}
	nm := Calls(bcj.Body, "NewMsgCreateJob")
	if len(nm) != 1 {
		return fmt.Errorf("customMessenger.createJob: NewMsgCreateJob call not recognised")
	}
	c.P("Definition binding_create_msg : string := %s.", CoqStr(squash(c.Src(nm[0]))))
	lf, err := c.Parse("x/scheduler/bindings/legacy.go")
	if err != nil {
		return err
	}
	ld := FindFunc(lf, "customLegacyMessenger", "DispatchMsg")
	if ld == nil {
		return fmt.Errorf("customLegacyMessenger.DispatchMsg not found")
	}
	lc := Calls(ld.Body, "ExecuteJob")
	if len(lc) != 1 {
		return fmt.Errorf("legacy DispatchMsg: keeper call not recognised")
	}
	c.P("Definition legacy_execute_args : list string := %s.", CoqStrList(c17CallArgs(c, lc[0])[1:]))
	c.P("Definition legacy_message_fields : list string := %s.", CoqStrList(c17StructFields(lf, "executeJobWasmEvent")))
	// unmarshallJob: the payload bytes are hex-encoded and wrapped UNCONDITIONALLY -- straight-line code; any branch
	// (if / switch / loop / function literal) in it is an unknown shape
	uj := FindFunc(lf, "", "unmarshallJob")
	if uj == nil {
		return fmt.Errorf("legacy unmarshallJob not found")
	}
	var ujs []string
	for _, st := range uj.Body.List {
		switch st.(type) {
		case *ast.AssignStmt, *ast.DeclStmt, *ast.ReturnStmt:
		default:
			return fmt.Errorf("legacy unmarshallJob: statement %q is not straight-line (the wrapping of the payload must not depend on its content)", squash(c.Src(st)))
		}
		branch := false
		ast.Inspect(st, func(n ast.Node) bool {
			switch n.(type) {
			case *ast.FuncLit, *ast.IfStmt, *ast.SwitchStmt, *ast.TypeSwitchStmt, *ast.ForStmt, *ast.RangeStmt:
				branch = true
			}
			return true
		})
		if branch {
			return fmt.Errorf("legacy unmarshallJob: branch inside %q", squash(c.Src(st)))
		}
		ujs = append(ujs, squash(c.Src(st)))
	}
	c.P("Definition legacy_unmarshal_stmts : list string := %s.", CoqStrList(ujs))
	// the new messenger: the statements of executeJob that mention the payload
	var bps []string
	for _, st := range be.Body.List {
		txt := squash(c.Src(st))
		if is, ok := st.(*ast.IfStmt); ok {
			if strings.Contains(c.Src(is.Cond), "Payload") {
				bps = append(bps, "if "+squash(c.Src(is.Cond)))
			}
			continue
		}
		if strings.Contains(txt, "Payload") || strings.Contains(txt, "hexString") {
			bps = append(bps, txt)
		}
	}
	c.P("Definition binding_payload_stmts : list string := %s.", CoqStrList(bps))
	rf, err := c.Parse("util/libwasm/plugin.go")
	if err != nil {
		return err
	}
	rd := FindFunc(rf, "router", "DispatchMsg")
	if rd == nil {
		return fmt.Errorf("libwasm router.DispatchMsg not found")
	}
	var routes []string
	for _, ce := range Calls(rd.Body, "DispatchMsg") {
		if r := squash(c.Src(ce)); strings.HasPrefix(r, "h.scheduler.") || strings.HasPrefix(r, "h.legacyFallback.") {
			routes = append(routes, r)
		}
	}
	if len(routes) != 2 {
		return fmt.Errorf("libwasm router: scheduler / legacy routes not recognised")
	}
	c.P("(* util/libwasm: the dispatching contract's address is handed on unchanged *)")
	c.P("Definition router_dispatch : list string := %s.", CoqStrList(routes))
	apf, err := c.Parse("app/app.go")
	if err != nil {
		return err
	}
	nAnte := 0
	ast.Inspect(apf, func(n ast.Node) bool {
		if ce, ok := n.(*ast.CallExpr); ok {
			if se, ok := ce.Fun.(*ast.SelectorExpr); ok && se.Sel.Name == "NewVerifyAuthorisedSignatureDecorator" {
				nAnte++
			}
		}
		return true
	})
	c.P("Definition ante_checks_creator_authorisation : bool := %v.", nAnte == 1)

	// ---------- SendValsetMsgForChain ----------
	ek, err := c.Parse("x/evm/keeper/keeper.go")
	if err != nil {
		return err
	}
	pj := FindFunc(ek, "Keeper", "PreJobExecution")
	if pj == nil {
		return fmt.Errorf("evm PreJobExecution not found")
	}
	var pjc []string
	for _, n := range []string{"GetChainInfo", "justInTimeValsetUpdate", "PublishValsetToChain", "PublishSnapshotToAllChains", "SendValsetMsgForChain"} {
		for _, ce := range Calls(pj.Body, n) {
			pjc = append(pjc, squash(c.Src(ce)))
		}
	}
	c.P("(* evm PreJobExecution: the job's chain only *)")
	c.P("Definition prejob_calls : list string := %s.", CoqStrList(pjc))
	sv := FindFunc(ek, "msgSender", "SendValsetMsgForChain")
	if sv == nil {
		return fmt.Errorf("SendValsetMsgForChain not found")
	}
	var loop *ast.RangeStmt
	var shape []string
	for _, st := range sv.Body.List {
		if rs, ok := st.(*ast.RangeStmt); ok {
			if loop != nil {
				return fmt.Errorf("SendValsetMsgForChain: more than one loop")
			}
			loop = rs
			shape = append(shape, "for "+squash(c.Src(rs.X)))
			continue
		}
		if len(Calls(st, "PutMessageInQueue")) > 0 {
			if loop == nil {
				return fmt.Errorf("SendValsetMsgForChain: put before the loop")
			}
			shape = append(shape, "put")
		}
		if len(Calls(st, "GetMessagesFromQueue")) > 0 {
			shape = append(shape, "read "+squash(c.Src(Calls(st, "GetMessagesFromQueue")[0].Args[1])))
		}
	}
	if loop == nil {
		return fmt.Errorf("SendValsetMsgForChain: loop not found")
	}
	var inLoop []string
	var walk func(list []ast.Stmt)
	walk = func(list []ast.Stmt) {
		for _, st := range list {
			is, ok := st.(*ast.IfStmt)
			if !ok {
				continue
			}
			cond := squash(c.Src(is.Cond))
			if is.Init != nil {
				cond = squash(c.Src(is.Init)) + "; " + cond
			}
			if strings.Contains(cond, "err != nil") && !strings.Contains(cond, "DeleteJob") {
				continue
			}
			last := ""
			if n := len(is.Body.List); n > 0 {
				last = squash(c.Src(is.Body.List[n-1]))
			}
			if strings.HasPrefix(last, "return") {
				inLoop = append(inLoop, cond+" => "+last)
			} else {
				inLoop = append(inLoop, cond+" =>")
				walk(is.Body.List)
			}
		}
		for _, st := range list {
			if as, ok := st.(*ast.AssignStmt); ok && len(Calls(as, "DeleteJob")) == 1 {
				inLoop = append(inLoop, squash(c.Src(Calls(as, "DeleteJob")[0])))
			}
		}
	}
	walk(loop.Body.List)
	c.P("(* x/evm/keeper/keeper.go: SendValsetMsgForChain *)")
	c.P("Definition send_valset_shape : list string := %s.", CoqStrList(shape))
	c.P("Definition send_valset_loop : list string := %s.", CoqStrList(inLoop))
	c.Info("entry_points", sites)
	if err := extractC17Run(c); err != nil {
		return err
	}
	return extractC17Keys(c)
}

// Round 7: the sender word is appended unconditionally; a run reports success only after the enqueue.
func extractC17Run(c *Ctx) error {
	f, err := c.Parse("x/evm/keeper/scheduler_job.go")
	if err != nil {
		return err
	}
	inj := FindFunc(f, "", "injectSenderIntoPayload")
	if inj == nil {
		return fmt.Errorf("injectSenderIntoPayload not found")
	}
	var stmts []string
	for _, st := range inj.Body.List {
		switch x := st.(type) {
		case *ast.AssignStmt, *ast.ReturnStmt:
		case *ast.IfStmt:
			if cond := squash(c.Src(x.Cond)); cond != "err != nil" || x.Init != nil || x.Else != nil {
				return fmt.Errorf("injectSenderIntoPayload: branch on %q (the sender word must be appended whatever the payload is)", cond)
			}
		default:
			return fmt.Errorf("injectSenderIntoPayload: statement %q is not straight-line", squash(c.Src(st)))
		}
		nested := false
		ast.Inspect(st, func(n ast.Node) bool {
			switch n.(type) {
			case *ast.FuncLit, *ast.SwitchStmt, *ast.TypeSwitchStmt, *ast.ForStmt, *ast.RangeStmt:
				nested = true
			case *ast.IfStmt:
				if n != st {
					nested = true
				}
			}
			return true
		})
		if nested {
			return fmt.Errorf("injectSenderIntoPayload: branch inside %q", squash(c.Src(st)))
		}
		stmts = append(stmts, squash(c.Src(st)))
	}
	c.P("(* injectSenderIntoPayload: straight-line, the only condition is the error of zeroPadBytes *)")
	c.P("Definition inject_stmts : list string := %s.", CoqStrList(stmts))

	// every return with a nil error comes after the call that enqueues (or hands the run on)
	type fnq struct{ file, recv, name, callee string }
	var rets []string
	for _, q := range []fnq{
		{"x/evm/keeper/scheduler_job.go", "Keeper", "ExecuteJob", "AddSmartContractExecutionToConsensus"},
		{"x/evm/keeper/smart_contract_deployment.go", "Keeper", "AddSmartContractExecutionToConsensus", "PutMessageInQueue"},
		{"x/scheduler/keeper/keeper.go", "Keeper", "ScheduleNow", "ExecuteJob"},
		{"x/scheduler/keeper/keeper.go", "Keeper", "ExecuteJob", "ScheduleNow"},
		{"x/scheduler/keeper/msg_server_execute_job.go", "msgServer", "ExecuteJob", "ExecuteJob"},
		{"x/scheduler/bindings/msg_plugin.go", "customMessenger", "executeJob", "ExecuteJob"},
		{"x/scheduler/bindings/legacy.go", "customLegacyMessenger", "DispatchMsg", "ExecuteJob"},
	} {
		pf, err := c.Parse(q.file)
		if err != nil {
			return err
		}
		fd := FindFunc(pf, q.recv, q.name)
		if fd == nil {
			return fmt.Errorf("%s.%s not found", q.recv, q.name)
		}
		cs := Calls(fd.Body, q.callee)
		if len(cs) != 1 {
			return fmt.Errorf("%s.%s: expected exactly one call of %s", q.recv, q.name, q.callee)
		}
		at := cs[0].Pos()
		var bad error
		ast.Inspect(fd.Body, func(n ast.Node) bool {
			if _, ok := n.(*ast.FuncLit); ok {
				return false
			}
			r, ok := n.(*ast.ReturnStmt)
			if !ok || len(r.Results) == 0 {
				return true
			}
			last := r.Results[len(r.Results)-1]
			id, isNil := last.(*ast.Ident)
			if isNil && id.Name == "nil" {
				if r.Pos() < at {
					bad = fmt.Errorf("%s.%s: %q reports success before %s is called", q.recv, q.name, squash(c.Src(r)), q.callee)
				}
				rets = append(rets, q.recv+"."+q.name+": "+squash(c.Src(r))+" after "+q.callee)
			} else if len(Calls(r, q.callee)) == 1 {
				rets = append(rets, q.recv+"."+q.name+": returns what "+q.callee+" returns")
			}
			return true
		})
		if bad != nil {
			return bad
		}
	}
	c.P("(* on the way of a run: every return with a nil error follows the call that enqueues / hands the run on *)")
	c.P("Definition success_returns : list string := %s.", CoqStrList(rets))
	return nil
}

// Third part (round 3): the key families of the scheduler module's store.  Every KeyPrefix("lit") in
// x/scheduler (non-test), the prefix of every prefix.NewStore in the keeper package, the id generator's key,
// and every call of the keeper package that writes to a store.
func extractC17Keys(c *Ctx) error {
	files, err := c.ParseDir("x/scheduler/keeper")
	if err != nil {
		return err
	}
	tfiles, err := c.ParseDir("x/scheduler/types")
	if err != nil {
		return err
	}
	mfiles, err := c.ParseDir("x/scheduler")
	if err != nil {
		return err
	}
	lit := func(e ast.Expr) (string, bool) {
		bl, ok := e.(*ast.BasicLit)
		if !ok || len(bl.Value) < 2 || bl.Value[0] != '"' {
			return "", false
		}
		return strings.Trim(bl.Value, "\""), true
	}
	jobPrefix := ""
	others := map[string]bool{}
	var writes []string
	isHook := func(f *ast.File) bool {
		return strings.HasPrefix(filepath.Base(c.Fset.Position(f.Pos()).Filename), "verif_hooks")
	}
	for _, f := range append(append(append([]*ast.File{}, files...), tfiles...), mfiles...) {
		if isHook(f) || strings.HasSuffix(c.Fset.Position(f.Pos()).Filename, ".pb.go") || strings.HasSuffix(c.Fset.Position(f.Pos()).Filename, ".pb.gw.go") {
			continue
		}
		var bad error
		for _, d := range f.Decls {
			inJobsStore := false
			if fd, ok := d.(*ast.FuncDecl); ok && fd.Name.Name == "jobsStore" {
				inJobsStore = true
			}
			ast.Inspect(d, func(n ast.Node) bool {
				ce, ok := n.(*ast.CallExpr)
				if !ok {
					return true
				}
				name := ""
				switch fn := ce.Fun.(type) {
				case *ast.SelectorExpr:
					name = fn.Sel.Name
				case *ast.Ident:
					name = fn.Name
				}
				switch name {
				case "KeyPrefix":
					if len(ce.Args) != 1 {
						return true
					}
					l, ok := lit(ce.Args[0])
					if !ok {
						if _, isParam := ce.Args[0].(*ast.Ident); isParam {
							return true // the definition's own body / a pass-through
						}
						bad = fmt.Errorf("KeyPrefix with a non-literal argument: %s", c.Src(ce))
						return true
					}
					if inJobsStore {
						if jobPrefix != "" && jobPrefix != l {
							bad = fmt.Errorf("jobsStore uses two prefixes")
						}
						jobPrefix = l
					} else {
						others[l] = true
					}
				case "NewStore":
					if len(ce.Args) == 2 {
						inner, ok := ce.Args[1].(*ast.CallExpr)
						if !ok || len(Calls(inner, "KeyPrefix")) != 1 {
							bad = fmt.Errorf("prefix.NewStore with a prefix that is not KeyPrefix(\"...\"): %s", c.Src(ce))
						}
					}
				case "NewIDGenerator":
					if len(ce.Args) == 2 {
						if id, ok := ce.Args[1].(*ast.Ident); ok && id.Name == "nil" {
							uf, err := c.Parse("util/keeper/id_generation.go")
							if err != nil {
								bad = err
								return true
							}
							v, ok := ConstValue(c, []*ast.File{uf}, "defaultIDKey")
							if !ok {
								bad = fmt.Errorf("defaultIDKey not found")
								return true
							}
							others[strings.Trim(v, "\"")] = true
						} else if l, ok := lit(ce.Args[1]); ok {
							others[l] = true
						} else {
							bad = fmt.Errorf("NewIDGenerator with a key that is not a literal: %s", c.Src(ce))
						}
					}
				}
				return true
			})
		}
		if bad != nil {
			return bad
		}
	}
	if jobPrefix == "" {
		return fmt.Errorf("prefix of the jobs store not found")
	}
	// every store write of the keeper package
	for _, f := range files {
		if isHook(f) {
			continue
		}
		for _, d := range f.Decls {
			fd, ok := d.(*ast.FuncDecl)
			if !ok || fd.Body == nil {
				continue
			}
			ast.Inspect(fd.Body, func(n ast.Node) bool {
				ce, ok := n.(*ast.CallExpr)
				if !ok {
					return true
				}
				if se, ok := ce.Fun.(*ast.SelectorExpr); ok {
					switch se.Sel.Name {
					case "Set", "Delete", "Save", "IncrementNextID":
						writes = append(writes, fd.Name.Name+": "+squash(c.Src(ce)))
					}
				}
				return true
			})
		}
	}
	c.P("(* the key families of the scheduler module's store *)")
	c.P("Definition job_record_prefix : string := %s.", CoqStr(jobPrefix))
	c.P("Definition other_key_prefixes : list string := %s.", CoqStrList(SortedSet(others)))
	c.P("Definition store_write_sites : list string := %s.", CoqStrList(writes))
	return nil
}
