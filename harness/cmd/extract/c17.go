package main

import (
	"fmt"
	"go/ast"
	"strings"
)

// C17: what the model of the scheduler mirrors, read from the source:
//   - the pad size of injectSenderIntoPayload (zeroPadBytes(senderBytes, N)) and the order of its append,
//   - the order of the sender / contract cases in evm ExecuteJob and what each SubmitLogicCall field is fed from,
//   - the two payload guards of ScheduleNow,
//   - the duplicate-id guard of AddNewJob, the owner assignment of the CreateJob msg server,
//   - what the msg server / the wasm binding pass to keeper.ExecuteJob,
//   - the field list of scheduler types.Job (so that a new field is noticed by the immutability model),
//   - whether unmarshalJob validates the hex payload.
func init() { extractors["C17"] = extractC17 }

func squash(s string) string { return strings.Join(strings.Fields(s), " ") }

func extractC17(c *Ctx) error {
	// ---------- x/evm/keeper/scheduler_job.go ----------
	f, err := c.Parse("x/evm/keeper/scheduler_job.go")
	if err != nil {
		return err
	}
	inj := FindFunc(f, "", "injectSenderIntoPayload")
	if inj == nil {
		return fmt.Errorf("injectSenderIntoPayload not found")
	}
	zp := Calls(inj.Body, "zeroPadBytes")
	if len(zp) != 1 || len(zp[0].Args) != 2 {
		return fmt.Errorf("injectSenderIntoPayload: expected exactly one zeroPadBytes(x, N) call")
	}
	padArg := c.Src(zp[0].Args[0])
	padSize := c.Src(zp[0].Args[1])
	for _, r := range padSize {
		if r < '0' || r > '9' {
			return fmt.Errorf("zeroPadBytes size %q is not a literal", padSize)
		}
	}
	// return append(payload, appendSenderBytes...), nil
	var ret *ast.ReturnStmt
	for _, st := range inj.Body.List {
		if r, ok := st.(*ast.ReturnStmt); ok {
			ret = r
		}
	}
	if ret == nil || len(ret.Results) != 2 {
		return fmt.Errorf("injectSenderIntoPayload: final return not recognised")
	}
	c.P("(* x/evm/keeper/scheduler_job.go: injectSenderIntoPayload *)")
	c.P("Definition sender_pad_size : Z := %s.", padSize)
	c.P("Definition inject_pad_arg : string := %s.", CoqStr(padArg))
	c.P("Definition inject_return : string := %s.", CoqStr(squash(c.Src(ret.Results[0]))))

	zf := FindFunc(f, "", "zeroPadBytes")
	if zf == nil {
		return fmt.Errorf("zeroPadBytes not found")
	}
	var zguard, zcopy string
	ast.Inspect(zf.Body, func(n ast.Node) bool {
		switch x := n.(type) {
		case *ast.IfStmt:
			if zguard == "" {
				zguard = squash(c.Src(x.Cond))
			}
		case *ast.CallExpr:
			if id, ok := x.Fun.(*ast.Ident); ok && id.Name == "copy" {
				zcopy = squash(c.Src(x))
			}
		}
		return true
	})
	if zguard == "" || zcopy == "" {
		return fmt.Errorf("zeroPadBytes: guard / copy not recognised")
	}
	c.P("Definition zeropad_guard : string := %s.", CoqStr(zguard))
	c.P("Definition zeropad_copy : string := %s.", CoqStr(zcopy))

	ex := FindFunc(f, "Keeper", "ExecuteJob")
	if ex == nil {
		return fmt.Errorf("evm Keeper.ExecuteJob not found")
	}
	// switch { case jcfg.SenderAddress != nil: ... case jcfg.ContractAddress != nil: ... }
	var caseConds []string
	ast.Inspect(ex.Body, func(n ast.Node) bool {
		sw, ok := n.(*ast.SwitchStmt)
		if !ok || sw.Tag != nil {
			return true
		}
		for _, st := range sw.Body.List {
			cc := st.(*ast.CaseClause)
			for _, e := range cc.List {
				caseConds = append(caseConds, squash(c.Src(e)))
			}
			if len(cc.List) == 0 {
				caseConds = append(caseConds, "default")
			}
		}
		return false
	})
	if len(caseConds) == 0 {
		return fmt.Errorf("evm ExecuteJob: sender switch not recognised")
	}
	c.P("(* evm ExecuteJob: order of the suffix sources *)")
	c.P("Definition suffix_cases : list string := %s.", CoqStrList(caseConds))
	injCalls := Calls(ex.Body, "injectSenderIntoPayload")
	if len(injCalls) != 1 {
		return fmt.Errorf("evm ExecuteJob: expected one injectSenderIntoPayload call")
	}
	c.P("Definition inject_call : string := %s.", CoqStr(squash(c.Src(injCalls[0]))))
	// the SubmitLogicCall literal
	var lit *ast.CompositeLit
	ast.Inspect(ex.Body, func(n ast.Node) bool {
		cl, ok := n.(*ast.CompositeLit)
		if ok && strings.HasSuffix(c.Src(cl.Type), "SubmitLogicCall") {
			lit = cl
			return false
		}
		return true
	})
	if lit == nil {
		return fmt.Errorf("evm ExecuteJob: SubmitLogicCall literal not found")
	}
	var fields []string
	for _, e := range lit.Elts {
		kv, ok := e.(*ast.KeyValueExpr)
		if !ok {
			return fmt.Errorf("SubmitLogicCall literal: positional element")
		}
		k := c.Src(kv.Key)
		if k == "Deadline" { // time-dependent, not part of the property
			continue
		}
		fields = append(fields, k+" := "+squash(c.Src(kv.Value)))
	}
	c.P("Definition logic_call_fields : list string := %s.", CoqStrList(fields))
	adds := Calls(ex.Body, "AddSmartContractExecutionToConsensus")
	if len(adds) != 1 || len(adds[0].Args) != 4 {
		return fmt.Errorf("evm ExecuteJob: AddSmartContractExecutionToConsensus call not recognised")
	}
	c.P("Definition enqueue_args : list string := %s.", CoqStrList([]string{squash(c.Src(adds[0].Args[1])), squash(c.Src(adds[0].Args[2]))}))

	um := FindFunc(f, "Keeper", "unmarshalJob")
	if um == nil {
		return fmt.Errorf("unmarshalJob not found")
	}
	// the two documents are decoded separately, each into its own value
	var decodes []string
	for _, ce := range Calls(um.Body, "Unmarshal") {
		var as []string
		for _, a := range ce.Args {
			as = append(as, squash(c.Src(a)))
		}
		decodes = append(decodes, strings.Join(as, ", "))
	}
	c.P("Definition unmarshal_decodes : list string := %s.", CoqStrList(decodes))
	validates := len(Calls(um.Body, "validateHexPayload")) == 1
	c.P("Definition unmarshal_validates_hex : bool := %v.", validates)
	if vf := FindFunc(f, "", "validateHexPayload"); vf != nil {
		strict := len(Calls(vf.Body, "DecodeString")) == 1
		c.P("Definition hex_validation_uses_decodestring : bool := %v.", strict)
	} else {
		c.P("Definition hex_validation_uses_decodestring : bool := false.")
	}

	// ---------- x/evm/keeper/smart_contract_deployment.go ----------
	sf, err := c.Parse("x/evm/keeper/smart_contract_deployment.go")
	if err != nil {
		return err
	}
	add := FindFunc(sf, "Keeper", "AddSmartContractExecutionToConsensus")
	if add == nil {
		return fmt.Errorf("AddSmartContractExecutionToConsensus not found")
	}
	puts := Calls(add.Body, "PutMessageInQueue")
	picks := Calls(add.Body, "PickValidatorForMessage")
	if len(puts) != 1 || len(picks) != 1 || len(puts[0].Args) != 4 {
		return fmt.Errorf("AddSmartContractExecutionToConsensus: expected one pick and one put")
	}
	if picks[0].Pos() > puts[0].Pos() {
		return fmt.Errorf("AddSmartContractExecutionToConsensus: put before pick")
	}
	c.P("(* AddSmartContractExecutionToConsensus: one pick, then one put *)")
	c.P("Definition put_queue : string := %s.", CoqStr(squash(c.Src(puts[0].Args[1]))))
	var mfields []string
	ast.Inspect(puts[0].Args[2], func(n ast.Node) bool {
		cl, ok := n.(*ast.CompositeLit)
		if ok && strings.HasSuffix(c.Src(cl.Type), "types.Message") {
			for _, e := range cl.Elts {
				if kv, ok := e.(*ast.KeyValueExpr); ok {
					k := c.Src(kv.Key)
					if k == "AssignedAtBlockHeight" {
						continue
					}
					mfields = append(mfields, k+" := "+squash(c.Src(kv.Value)))
				}
			}
			return false
		}
		return true
	})
	c.P("Definition put_message_fields : list string := %s.", CoqStrList(mfields))

	// ---------- x/scheduler/keeper/keeper.go ----------
	kf, err := c.Parse("x/scheduler/keeper/keeper.go")
	if err != nil {
		return err
	}
	sn := FindFunc(kf, "Keeper", "ScheduleNow")
	if sn == nil {
		return fmt.Errorf("ScheduleNow not found")
	}
	var guards []string
	for _, st := range sn.Body.List {
		if is, ok := st.(*ast.IfStmt); ok {
			cond := squash(c.Src(is.Cond))
			if strings.Contains(cond, "Modifiable") {
				body := ""
				if len(is.Body.List) > 0 {
					body = squash(c.Src(is.Body.List[len(is.Body.List)-1]))
				}
				if strings.HasPrefix(body, "return") {
					body = "return error"
				}
				guards = append(guards, cond+" => "+body)
			}
		}
	}
	if len(guards) == 0 {
		return fmt.Errorf("ScheduleNow: payload guards not recognised")
	}
	c.P("(* x/scheduler/keeper/keeper.go: ScheduleNow *)")
	c.P("Definition schedule_guards : list string := %s.", CoqStrList(guards))
	var jcfg []string
	ast.Inspect(sn.Body, func(n ast.Node) bool {
		cl, ok := n.(*ast.CompositeLit)
		if ok && strings.HasSuffix(c.Src(cl.Type), "JobConfiguration") {
			for _, e := range cl.Elts {
				if kv, ok := e.(*ast.KeyValueExpr); ok {
					jcfg = append(jcfg, c.Src(kv.Key)+" := "+squash(c.Src(kv.Value)))
				}
			}
			return false
		}
		return true
	})
	c.P("Definition job_configuration : list string := %s.", CoqStrList(jcfg))

	an := FindFunc(kf, "Keeper", "AddNewJob")
	if an == nil || len(an.Body.List) == 0 {
		return fmt.Errorf("AddNewJob not found")
	}
	first, ok := an.Body.List[0].(*ast.IfStmt)
	if !ok {
		return fmt.Errorf("AddNewJob: first statement is not the duplicate guard")
	}
	c.P("Definition addnewjob_first_guard : string := %s.", CoqStr(squash(c.Src(first.Cond))))
	ej := FindFunc(kf, "Keeper", "ExecuteJob")
	if ej == nil {
		return fmt.Errorf("scheduler Keeper.ExecuteJob not found")
	}
	var order []string
	ast.Inspect(ej.Body, func(n ast.Node) bool {
		if ce, ok := n.(*ast.CallExpr); ok {
			if se, ok := ce.Fun.(*ast.SelectorExpr); ok {
				switch se.Sel.Name {
				case "GetJob", "PreJobExecution", "ScheduleNow":
					order = append(order, squash(c.Src(ce)))
				}
			}
		}
		return true
	})
	c.P("Definition keeper_execute_calls : list string := %s.", CoqStrList(order))

	// saves: every Save into the jobs store
	files, err := c.ParseDir("x/scheduler/keeper")
	if err != nil {
		return err
	}
	var writers []string
	for _, file := range files {
		for _, d := range file.Decls {
			fd, ok := d.(*ast.FuncDecl)
			if !ok || fd.Body == nil {
				continue
			}
			n := 0
			ast.Inspect(fd.Body, func(x ast.Node) bool {
				ce, ok := x.(*ast.CallExpr)
				if !ok {
					return true
				}
				s := c.Src(ce.Fun)
				if (strings.HasSuffix(s, ".Save") || strings.HasSuffix(s, ".Set") || strings.HasSuffix(s, ".Delete")) && strings.Contains(c.Src(ce), "jobsStore") {
					n++
				}
				return true
			})
			if n > 0 {
				writers = append(writers, fd.Name.Name)
			}
		}
	}
	c.P("(* functions of x/scheduler/keeper that write to the jobs store *)")
	c.P("Definition jobs_store_writers : list string := %s.", CoqStrList(writers))
	var saveCallers []string
	for _, file := range files {
		for _, d := range file.Decls {
			fd, ok := d.(*ast.FuncDecl)
			if !ok || fd.Body == nil {
				continue
			}
			if len(Calls(fd.Body, "saveJob")) > 0 {
				saveCallers = append(saveCallers, fd.Name.Name)
			}
		}
	}
	c.P("Definition savejob_callers : list string := %s.", CoqStrList(saveCallers))

	// ---------- msg servers / binding ----------
	cf, err := c.Parse("x/scheduler/keeper/msg_server_create_job.go")
	if err != nil {
		return err
	}
	cj := FindFunc(cf, "msgServer", "CreateJob")
	if cj == nil {
		return fmt.Errorf("msgServer.CreateJob not found")
	}
	owner := ""
	ast.Inspect(cj.Body, func(n ast.Node) bool {
		as, ok := n.(*ast.AssignStmt)
		if ok && len(as.Lhs) >= 1 && strings.HasSuffix(c.Src(as.Lhs[0]), ".Owner") && len(as.Rhs) == 1 {
			owner = squash(c.Src(as.Lhs[0])) + " := " + squash(c.Src(as.Rhs[0]))
		}
		return true
	})
	if owner == "" {
		return fmt.Errorf("CreateJob: owner assignment not recognised")
	}
	c.P("Definition create_owner : string := %s.", CoqStr(owner))
	xf, err := c.Parse("x/scheduler/keeper/msg_server_execute_job.go")
	if err != nil {
		return err
	}
	xj := FindFunc(xf, "msgServer", "ExecuteJob")
	if xj == nil {
		return fmt.Errorf("msgServer.ExecuteJob not found")
	}
	xc := Calls(xj.Body, "ExecuteJob")
	if len(xc) != 1 {
		return fmt.Errorf("msgServer.ExecuteJob: keeper call not recognised")
	}
	var xargs []string
	for _, a := range xc[0].Args[1:] {
		xargs = append(xargs, squash(c.Src(a)))
	}
	c.P("Definition msgserver_execute_args : list string := %s.", CoqStrList(xargs))
	sender := ""
	ast.Inspect(xj.Body, func(n ast.Node) bool {
		as, ok := n.(*ast.AssignStmt)
		if ok && len(as.Lhs) == 1 && c.Src(as.Lhs[0]) == "senderAddress" && len(as.Rhs) == 1 {
			sender = squash(c.Src(as.Rhs[0]))
		}
		return true
	})
	c.P("Definition msgserver_sender : string := %s.", CoqStr(sender))
	bf, err := c.Parse("x/scheduler/bindings/msg_plugin.go")
	if err != nil {
		return err
	}
	be := FindFunc(bf, "customMessenger", "executeJob")
	if be == nil {
		return fmt.Errorf("customMessenger.executeJob not found")
	}
	bc := Calls(be.Body, "ExecuteJob")
	if len(bc) != 1 {
		return fmt.Errorf("customMessenger.executeJob: keeper call not recognised")
	}
	var bargs []string
	for _, a := range bc[0].Args[1:] {
		bargs = append(bargs, squash(c.Src(a)))
	}
	c.P("Definition binding_execute_args : list string := %s.", CoqStrList(bargs))
	wrap := ""
	ast.Inspect(be.Body, func(n ast.Node) bool {
		as, ok := n.(*ast.AssignStmt)
		if ok && len(as.Lhs) == 1 && c.Src(as.Lhs[0]) == "injected" && len(as.Rhs) == 1 {
			wrap = squash(c.Src(as.Rhs[0]))
		}
		return true
	})
	c.P("Definition binding_wrap : string := %s.", CoqStr(wrap))

	// ---------- types.Job field list ----------
	jf, err := c.Parse("x/scheduler/types/job.pb.go")
	if err != nil {
		return err
	}
	var jobFields []string
	for _, d := range jf.Decls {
		gd, ok := d.(*ast.GenDecl)
		if !ok {
			continue
		}
		for _, s := range gd.Specs {
			ts, ok := s.(*ast.TypeSpec)
			if !ok || ts.Name.Name != "Job" {
				continue
			}
			st, ok := ts.Type.(*ast.StructType)
			if !ok {
				return fmt.Errorf("types.Job is not a struct")
			}
			for _, fl := range st.Fields.List {
				for _, n := range fl.Names {
					jobFields = append(jobFields, n.Name)
				}
			}
		}
	}
	if len(jobFields) == 0 {
		return fmt.Errorf("types.Job fields not found")
	}
	c.P("(* x/scheduler/types/job.pb.go: fields of Job *)")
	c.P("Definition job_fields : list string := %s.", CoqStrList(jobFields))
	c.Info("pad", padSize)
	c.Info("job_fields", jobFields)
	c.Info("validates_hex", validates)
	return nil
}
