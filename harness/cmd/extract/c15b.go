package main

import (
	"fmt"
	"go/ast"
	"regexp"
	"strings"
)

// C15, second part: WHICH token the settings are stored under and looked up by.
//
//   - governance_proposals.go: the SetBridgeTaxProposal / SetBridgeTransferLimitProposal cases build
//     the stored record from the proposal's fields unmodified (`Token: c.Token`, `Rate: c.Rate`, ...),
//     the only computed field being the exempt list (bech32 -> AccAddress, same order).  Any other
//     statement, any call around a field, any field taken from somewhere else = unknown shape.
//   - keeper.go: SetBridgeTax / SetBridgeTransferLimit save under `[]byte(<record>.Token)`; BridgeTax /
//     BridgeTransferLimit / BridgeTransferUsage load `[]byte(token)`; bridgeTaxAmount and
//     UpdateBridgeTransferUsageWithLimit look up and save by `coin.Denom`.
//   - genesis.go: ExportGenesis / InitGenesis carry the tax and limit records; whether the usage tally
//     is carried is reported as a boolean the model uses.
//   - batch.go: OutgoingTxBatchSize.
var c15lineComment = regexp.MustCompile(`(?m)//.*$`)

func c15stripComments(s string) string { return c15lineComment.ReplaceAllString(s, "") }

func extractC15Gov(c *Ctx) error {
	gf, err := c.Parse("x/skyway/keeper/governance_proposals.go")
	if err != nil {
		return err
	}
	h := FindFunc(gf, "", "NewSkywayProposalHandler")
	if h == nil {
		return fmt.Errorf("NewSkywayProposalHandler not found")
	}
	var ts *ast.TypeSwitchStmt
	ast.Inspect(h.Body, func(n ast.Node) bool {
		if s, ok := n.(*ast.TypeSwitchStmt); ok && ts == nil {
			ts = s
		}
		return true
	})
	if ts == nil || c15norm(c.Src(ts.Assign)) != "c:=content.(type)" {
		return fmt.Errorf("proposal handler: expected `switch c := content.(type)`")
	}
	const loop = "for_,addr:=rangec.ExemptAddresses{address,err:=sdk.AccAddressFromBech32(addr)iferr!=nil{returnerr}addresses=append(addresses,address)}"
	type want struct {
		caseType, recType, setter string
		fields                    map[string]string
	}
	wants := []want{
		{"*types.SetBridgeTaxProposal", "types.BridgeTax", "SetBridgeTax",
			map[string]string{"Rate": "c.Rate", "Token": "c.Token", "ExemptAddresses": "addresses"}},
		{"*types.SetBridgeTransferLimitProposal", "types.BridgeTransferLimit", "SetBridgeTransferLimit",
			map[string]string{"Token": "c.Token", "Limit": "c.Limit", "LimitPeriod": "c.LimitPeriod", "ExemptAddresses": "addresses"}},
	}
	for _, w := range wants {
		var cc *ast.CaseClause
		for _, st := range ts.Body.List {
			x := st.(*ast.CaseClause)
			if len(x.List) == 1 && c15norm(c.Src(x.List[0])) == w.caseType {
				cc = x
			}
		}
		if cc == nil {
			return fmt.Errorf("proposal handler: case %s not found", w.caseType)
		}
		if len(cc.Body) != 4 {
			return fmt.Errorf("proposal handler %s: %d statements, expected 4 (make, exempt loop, record literal, return k.%s) — a statement that changes what is stored is not understood", w.caseType, len(cc.Body), w.setter)
		}
		if got := c15norm(c.Src(cc.Body[0])); got != "addresses:=make([]sdk.AccAddress,0,len(c.ExemptAddresses))" {
			return fmt.Errorf("proposal handler %s: first statement %q not understood", w.caseType, got)
		}
		if got := c15norm(c.Src(cc.Body[1])); got != loop {
			return fmt.Errorf("proposal handler %s: exempt-address loop not understood: %q", w.caseType, got)
		}
		as, ok := cc.Body[2].(*ast.AssignStmt)
		if !ok || len(as.Lhs) != 1 || len(as.Rhs) != 1 {
			return fmt.Errorf("proposal handler %s: record assignment not understood", w.caseType)
		}
		recVar := c.Src(as.Lhs[0])
		ue, ok := as.Rhs[0].(*ast.UnaryExpr)
		if !ok {
			return fmt.Errorf("proposal handler %s: record is not &%s{...}", w.caseType, w.recType)
		}
		cl, ok := ue.X.(*ast.CompositeLit)
		if !ok || c15norm(c.Src(cl.Type)) != w.recType {
			return fmt.Errorf("proposal handler %s: record is not &%s{...}", w.caseType, w.recType)
		}
		seen := map[string]bool{}
		for _, el := range cl.Elts {
			kv, ok := el.(*ast.KeyValueExpr)
			if !ok {
				return fmt.Errorf("proposal handler %s: positional record literal", w.caseType)
			}
			key, val := c.Src(kv.Key), c15norm(c.Src(kv.Value))
			exp, known := w.fields[key]
			if !known {
				return fmt.Errorf("proposal handler %s: unexpected record field %s", w.caseType, key)
			}
			if val != exp {
				return fmt.Errorf("proposal handler %s: stored %s is %q, expected the submitted value %q unmodified — transformation of a submitted field is not understood", w.caseType, key, val, exp)
			}
			seen[key] = true
		}
		for f := range w.fields {
			if !seen[f] {
				return fmt.Errorf("proposal handler %s: record field %s not set from the proposal", w.caseType, f)
			}
		}
		if got := c15norm(c.Src(cc.Body[3])); got != "returnk."+w.setter+"(ctx,"+recVar+")" {
			return fmt.Errorf("proposal handler %s: last statement %q, expected return k.%s(ctx, %s)", w.caseType, got, w.setter, recVar)
		}
	}
	c.P("(* governance_proposals.go: the stored record takes Token / Rate / Limit / LimitPeriod from the proposal unmodified *)")
	c.P("Definition gov_tax_token (submitted : Z) : Z := submitted.")
	c.P("Definition gov_limit_token (submitted : Z) : Z := submitted.")

	// ---- keeper.go: store keys ----
	kf, err := c.Parse("x/skyway/keeper/keeper.go")
	if err != nil {
		return err
	}
	body := func(name string) (string, error) {
		fd := FindFunc(kf, "Keeper", name)
		if fd == nil {
			return "", fmt.Errorf("%s not found", name)
		}
		return c15norm(c.Src(fd.Body)), nil
	}
	// the getters and setters are read whole: every call goes to the store (no cache, no fallback key)
	for fn, whole := range map[string]string{
		"SetBridgeTax": `{iftax.Token==""{returnerrors.New("emptytaxtoken")}taxRate,ok:=new(big.Rat).SetString(tax.Rate)` +
			`if!ok||taxRate.Sign()<0{returnfmt.Errorf("invalidtaxratevalue:%s",tax.Rate)}` +
			`st:=k.GetStore(ctx,types.BridgeTaxPrefix)returnkeeperutil.Save(st,k.cdc,[]byte(tax.Token),tax)}`,
		"BridgeTax": `{st:=k.GetStore(ctx,types.BridgeTaxPrefix)returnkeeperutil.Load[*types.BridgeTax](st,k.cdc,[]byte(token))}`,
		"SetBridgeTransferLimit": `{iflimit.Token==""{returnerrors.New("emptytransferlimittoken")}` +
			`st:=k.GetStore(ctx,types.BridgeTransferLimitPrefix)returnkeeperutil.Save(st,k.cdc,[]byte(limit.Token),limit)}`,
		"BridgeTransferLimit": `{st:=k.GetStore(ctx,types.BridgeTransferLimitPrefix)returnkeeperutil.Load[*types.BridgeTransferLimit](st,k.cdc,[]byte(token))}`,
		"BridgeTransferUsage": `{st:=k.GetStore(ctx,types.BridgeTransferUsagePrefix)returnkeeperutil.Load[*types.BridgeTransferUsage](st,k.cdc,[]byte(token))}`,
	} {
		fd := FindFunc(kf, "Keeper", fn)
		if fd == nil {
			return fmt.Errorf("%s not found", fn)
		}
		// comments are not part of the printed AST nodes of statements; strip any that the printer kept
		got := c15norm(c15stripComments(c.Src(fd.Body)))
		if got != whole {
			return fmt.Errorf("%s: body not understood (expected a plain store access keyed by the token as given):\n got  %s\n want %s", fn, got, whole)
		}
	}
	type keyFact struct{ fn, must string }
	for _, kfact := range []keyFact{
		{"bridgeTaxAmount", "bridgeTax,err:=k.BridgeTax(ctx,coin.Denom)"},
		{"UpdateBridgeTransferUsageWithLimit", "limits,err:=k.BridgeTransferLimit(ctx,coin.Denom)"},
		{"UpdateBridgeTransferUsageWithLimit", "usage,err:=k.BridgeTransferUsage(ctx,coin.Denom)"},
		{"UpdateBridgeTransferUsageWithLimit", "st:=k.GetStore(ctx,types.BridgeTransferUsagePrefix)returnkeeperutil.Save(st,k.cdc,[]byte(coin.Denom),&newUsage)"},
	} {
		src, err := body(kfact.fn)
		if err != nil {
			return err
		}
		if !strings.Contains(src, kfact.must) {
			return fmt.Errorf("%s: the store key is not the token / coin denom as given (expected %q) — key shape not understood", kfact.fn, kfact.must)
		}
	}
	// the token names inside SetBridgeTax / SetBridgeTransferLimit are never reassigned
	for _, fn := range []string{"SetBridgeTax", "SetBridgeTransferLimit", "BridgeTax", "BridgeTransferLimit", "BridgeTransferUsage"} {
		src, _ := body(fn)
		for _, bad := range []string{"tax.Token=", "limit.Token=", "token=", "token:="} {
			if strings.Contains(strings.ReplaceAll(src, "==", "~~"), bad) {
				return fmt.Errorf("%s: the token is reassigned (%s) — not understood", fn, bad)
			}
		}
	}
	for _, fn := range []string{"bridgeTaxAmount", "UpdateBridgeTransferUsageWithLimit"} {
		src, _ := body(fn)
		if strings.Contains(strings.ReplaceAll(src, "==", "~~"), "coin.Denom=") || strings.Contains(src, "coin=") || strings.Contains(src, "coin:=") {
			return fmt.Errorf("%s: the coin / its denom is reassigned — not understood", fn)
		}
	}
	c.P("(* keeper.go: records saved under []byte(record.Token), loaded by []byte(token) with token = coin.Denom *)")
	c.P("Definition settings_keyed_by_exact_denom : bool := true.")

	// ---- genesis.go ----
	gn, err := c.Parse("x/skyway/keeper/genesis.go")
	if err != nil {
		return err
	}
	ex := FindFunc(gn, "", "ExportGenesis")
	in := FindFunc(gn, "", "InitGenesis")
	if ex == nil || in == nil {
		return fmt.Errorf("ExportGenesis / InitGenesis not found")
	}
	srcEx, srcIn := c15norm(c.Src(ex.Body)), c15norm(c.Src(in.Body))
	for _, must := range []string{"taxes,err:=k.AllBridgeTaxes(ctx)", "limits,err:=k.AllBridgeTransferLimits(ctx)", "BridgeTaxes:taxes,", "BridgeTransferLimits:limits,",
		"unbatchedTransfers,err:=k.GetUnbatchedTransactions(ctx)", "batches,err:=k.GetOutgoingTxBatches(ctx)"} {
		if !strings.Contains(srcEx, must) {
			return fmt.Errorf("ExportGenesis: %q not found — export shape not understood", must)
		}
	}
	for _, must := range []string{"for_,tax:=rangedata.BridgeTaxes{iferr:=k.SetBridgeTax(ctx,tax);err!=nil{panic(err)}}",
		"for_,limit:=rangedata.BridgeTransferLimits{iferr:=k.SetBridgeTransferLimit(ctx,limit);err!=nil{panic(err)}}"} {
		if !strings.Contains(srcIn, must) {
			return fmt.Errorf("InitGenesis: %q not found — import shape not understood", must)
		}
	}
	usageOut := strings.Contains(srcEx, "Usage")
	usageIn := strings.Contains(srcIn, "Usage")
	if usageOut != usageIn {
		return fmt.Errorf("genesis: usage tally exported=%v imported=%v — not understood", usageOut, usageIn)
	}
	c.P("(* genesis.go: ExportGenesis / InitGenesis carry BridgeTaxes and BridgeTransferLimits; usage tally carried: %v *)", usageOut)
	c.P("Definition genesis_carries_settings : bool := true.")
	c.P("Definition genesis_carries_usage : bool := %v.", usageOut)
	c.Info("genesis_carries_usage", usageOut)

	// ---- batch.go: OutgoingTxBatchSize ----
	bfile, err := c.Parse("x/skyway/keeper/batch.go")
	if err != nil {
		return err
	}
	v, ok := ConstValue(c, []*ast.File{bfile}, "OutgoingTxBatchSize")
	if !ok {
		return fmt.Errorf("OutgoingTxBatchSize not found")
	}
	c.P("(* batch.go *)")
	c.P("Definition batch_size : Z := %s.", v)
	pk := FindFunc(bfile, "Keeper", "pickUnbatchedTxs")
	if pk == nil {
		return fmt.Errorf("pickUnbatchedTxs not found")
	}
	srcPk := c15norm(c.Src(pk.Body))
	if !strings.Contains(srcPk, "returnuint(len(selectedTxs))==maxElements") || !strings.Contains(srcPk, "k.IterateUnbatchedTransactionsByContract(ctx,contractAddress,") {
		return fmt.Errorf("pickUnbatchedTxs: selection loop not understood")
	}
	pf, err := c.Parse("x/skyway/keeper/pool.go")
	if err != nil {
		return err
	}
	fi := FindFunc(pf, "Keeper", "filterAndIterateUnbatchedTransactions")
	if fi == nil || !strings.Contains(c15norm(c.Src(fi.Body)), "iter:=prefixStore.ReverseIterator(start,end)") {
		return fmt.Errorf("filterAndIterateUnbatchedTransactions: reverse iteration not recognised")
	}
	tk, err := c.Parse("x/skyway/types/key.go")
	if err != nil {
		return err
	}
	pkf := FindFunc(tk, "", "GetOutgoingTxPoolKey")
	if pkf == nil || !strings.Contains(c15norm(c.Src(pkf.Body)), "returnAppendBytes(OutgoingTXPoolKey,token.Contract.GetAddress().Bytes(),amount,UInt64Bytes(id))") ||
		!strings.Contains(c15norm(c.Src(pkf.Body)), "amount=token.Amount.BigInt().FillBytes(amount)") {
		return fmt.Errorf("GetOutgoingTxPoolKey: key is not contract ++ amount(32 bytes big endian) ++ id")
	}
	c.P("(* pool key = contract ++ amount ++ id, iterated in reverse: largest (amount, id) first *)")
	c.P("Definition batch_picks_largest_amount_then_id_first : bool := true.")
	return nil
}
