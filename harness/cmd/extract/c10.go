package main

import (
	"fmt"
	"go/ast"
	"go/token"
	"os"
	"path/filepath"
	"sort"
	"strconv"
	"strings"
)

// C10: constants of the compass projection (maxPower, thresholdForConsensus), the shape of the power
// normalisation and of the per-validator account selection in transformSnapshotToCompass, the quorum
// comparison, createNewSnapshot's eligibility conjuncts and share source, and the inventory of
// functions that write the valset snapshot store.
func init() { extractors["C10"] = extractC10 }

func evalConstInt(src string) (string, error) {
	s := strings.ReplaceAll(strings.ReplaceAll(src, "_", ""), " ", "")
	if i := strings.Index(s, "<<"); i >= 0 {
		a, err1 := strconv.ParseUint(s[:i], 0, 64)
		b, err2 := strconv.ParseUint(s[i+2:], 0, 64)
		if err1 != nil || err2 != nil || b > 62 {
			return "", fmt.Errorf("cannot evaluate constant %q", src)
		}
		return strconv.FormatUint(a<<b, 10), nil
	}
	v, err := strconv.ParseUint(s, 0, 64)
	if err != nil {
		return "", fmt.Errorf("cannot evaluate constant %q", src)
	}
	return strconv.FormatUint(v, 10), nil
}

func extractC10(c *Ctx) error {
	ef, err := c.Parse("x/evm/keeper/keeper.go")
	if err != nil {
		return err
	}
	for _, name := range []string{"maxPower", "thresholdForConsensus"} {
		src, ok := ConstValue(c, []*ast.File{ef}, name)
		if !ok {
			return fmt.Errorf("constant %s not found in x/evm/keeper/keeper.go", name)
		}
		v, err := evalConstInt(src)
		if err != nil {
			return err
		}
		coq := map[string]string{"maxPower": "max_power", "thresholdForConsensus": "threshold_for_consensus"}[name]
		c.P("(* x/evm/keeper/keeper.go: %s = %s *)", name, src)
		c.P("Definition %s : Z := %s.", coq, v)
		c.Info(name, v)
	}

	// --- isEnoughToReachConsensus: `return sum >= thresholdForConsensus`
	ie := FindFunc(ef, "", "isEnoughToReachConsensus")
	if ie == nil {
		return fmt.Errorf("isEnoughToReachConsensus not found")
	}
	cmp := ""
	ast.Inspect(ie.Body, func(n ast.Node) bool {
		if rs, ok := n.(*ast.ReturnStmt); ok && len(rs.Results) == 1 {
			cmp = c.Src(rs.Results[0])
		}
		return true
	})
	if cmp == "" {
		return fmt.Errorf("isEnoughToReachConsensus: return expression not recognised")
	}
	c.P("Definition quorum_comparison : string := %s.", CoqStr(cmp))
	c.Info("quorum_comparison", cmp)

	// --- transformSnapshotToCompass
	tf := FindFunc(ef, "", "transformSnapshotToCompass")
	if tf == nil {
		return fmt.Errorf("transformSnapshotToCompass not found")
	}
	// (a) sort comparator
	sortCmp := ""
	for _, ce := range Calls(tf.Body, "SliceStable") {
		if len(ce.Args) == 2 {
			if fl, ok := ce.Args[1].(*ast.FuncLit); ok {
				ast.Inspect(fl.Body, func(n ast.Node) bool {
					if rs, ok := n.(*ast.ReturnStmt); ok && len(rs.Results) == 1 {
						sortCmp = c.Src(rs.Results[0])
					}
					return true
				})
			}
		}
	}
	if sortCmp == "" {
		return fmt.Errorf("transformSnapshotToCompass: sort.SliceStable comparator not recognised")
	}
	c.P("Definition sort_comparator : string := %s.", CoqStr(sortCmp))
	c.Info("sort_comparator", sortCmp)
	// (b) the innermost loop over the validator's external chain infos: the match condition, what is
	// appended to Powers, and whether the loop stops at the first matching account.
	var inner *ast.RangeStmt
	ast.Inspect(tf.Body, func(n ast.Node) bool {
		if rs, ok := n.(*ast.RangeStmt); ok && strings.Contains(c.Src(rs.X), "GetExternalChainInfos") {
			inner = rs
		}
		return true
	})
	if inner == nil {
		return fmt.Errorf("transformSnapshotToCompass: loop over GetExternalChainInfos() not found")
	}
	var match *ast.IfStmt
	for _, st := range inner.Body.List {
		if is, ok := st.(*ast.IfStmt); ok && strings.Contains(c.Src(is.Cond), "chainReferenceID") {
			match = is
		}
	}
	if match == nil {
		return fmt.Errorf("transformSnapshotToCompass: account match condition not recognised")
	}
	cond := strings.Join(strings.Fields(c.Src(match.Cond)), " ")
	breaks := false
	if n := len(match.Body.List); n > 0 {
		if bs, ok := match.Body.List[n-1].(*ast.BranchStmt); ok && bs.Tok == token.BREAK && bs.Label == nil {
			breaks = true
		}
	}
	powerExpr := ""
	for _, ce := range Calls(match.Body, "append") {
		if len(ce.Args) == 2 && strings.Contains(c.Src(ce.Args[0]), "Powers") {
			powerExpr = c.Src(ce.Args[1])
		}
	}
	if powerExpr == "" {
		return fmt.Errorf("transformSnapshotToCompass: append(valset.Powers, …) not recognised")
	}
	// follow one level: `power := …` local, or a helper function called with (share, total)
	powerSrc := powerExpr
	ast.Inspect(match.Body, func(n ast.Node) bool {
		if as, ok := n.(*ast.AssignStmt); ok && len(as.Lhs) == 1 && len(as.Rhs) == 1 && strings.Contains(powerExpr, c.Src(as.Lhs[0])) {
			powerSrc += " where " + c.Src(as.Lhs[0]) + " := " + c.Src(as.Rhs[0])
		}
		return true
	})
	if ce, ok := func() (*ast.CallExpr, bool) {
		var found *ast.CallExpr
		ast.Inspect(match.Body, func(n ast.Node) bool {
			if x, ok := n.(*ast.CallExpr); ok {
				if id, ok := x.Fun.(*ast.Ident); ok && FindFunc(ef, "", id.Name) != nil && id.Name != "append" {
					found = x
				}
			}
			return true
		})
		return found, found != nil
	}(); ok {
		helper := FindFunc(ef, "", ce.Fun.(*ast.Ident).Name)
		powerSrc += " where func " + helper.Name.Name + " " + strings.Join(strings.Fields(c.Src(helper.Body)), " ")
	}
	usesFloat := strings.Contains(powerSrc, "float")
	integerFloor := !usesFloat && strings.Contains(powerSrc, "Mul(") && strings.Contains(powerSrc, "Quo(") && strings.Contains(powerSrc, "maxPower")
	c.P("(* transformSnapshotToCompass: account match: %s *)", cond)
	c.P("Definition account_match : string := %s.", CoqStr(cond))
	c.P("Definition account_match_stops_at_first : bool := %v.", breaks)
	c.P("(* power: %s *)", strings.ReplaceAll(powerSrc, "*)", "* )"))
	c.P("Definition power_uses_float : bool := %v.", usesFloat)
	c.P("Definition power_is_integer_mul_quo : bool := %v.", integerFloor)
	c.Info("power", powerSrc)
	c.Info("account_match_stops_at_first", breaks)

	// --- createNewSnapshot
	vf, err := c.Parse("x/valset/keeper/keeper.go")
	if err != nil {
		return err
	}
	cn := FindFunc(vf, "Keeper", "createNewSnapshot")
	if cn == nil {
		return fmt.Errorf("createNewSnapshot not found")
	}
	var conj []string
	ast.Inspect(cn.Body, func(n ast.Node) bool {
		is, ok := n.(*ast.IfStmt)
		if !ok || !strings.Contains(c.Src(is.Cond), "IsBonded") {
			return true
		}
		var walk func(e ast.Expr)
		walk = func(e ast.Expr) {
			if be, ok := e.(*ast.BinaryExpr); ok && be.Op == token.LAND {
				walk(be.X)
				walk(be.Y)
				return
			}
			conj = append(conj, strings.Join(strings.Fields(c.Src(e)), " "))
		}
		walk(is.Cond)
		return false
	})
	if len(conj) == 0 {
		return fmt.Errorf("createNewSnapshot: eligibility condition not recognised")
	}
	c.P("Definition eligibility_conjuncts : list string := %s.", CoqStrList(conj))
	c.Info("eligibility", conj)
	share, total := "", ""
	ast.Inspect(cn.Body, func(n ast.Node) bool {
		switch x := n.(type) {
		case *ast.KeyValueExpr:
			if c.Src(x.Key) == "ShareCount" {
				share = c.Src(x.Value)
			}
		case *ast.AssignStmt:
			if len(x.Lhs) == 1 && c.Src(x.Lhs[0]) == "snapshot.TotalShares" && len(x.Rhs) == 1 {
				total = c.Src(x.Rhs[0])
			}
		}
		return true
	})
	if share == "" || total == "" {
		return fmt.Errorf("createNewSnapshot: ShareCount / TotalShares sources not recognised")
	}
	c.P("Definition share_source : string := %s.", CoqStr(share))
	c.P("Definition total_update : string := %s.", CoqStr(total))
	c.Info("share_source", share)

	// --- writers of the snapshot store and of the snapshot id counter in x/valset/keeper
	files, err := c.ParseDir("x/valset/keeper")
	if err != nil {
		return err
	}
	writers := map[string]bool{}
	idUsers := map[string]bool{}
	for _, f := range files {
		if strings.Contains(c.Src(f.Name), "_test") {
			continue
		}
		for _, d := range f.Decls {
			fd, ok := d.(*ast.FuncDecl)
			if !ok || fd.Body == nil || strings.HasPrefix(fd.Name.Name, "Verif") {
				continue
			}
			src := c.Src(fd.Body)
			if strings.Contains(src, "snapshotStore(") && (strings.Contains(src, "Save(") || strings.Contains(src, ".Set(") || strings.Contains(src, ".Delete(")) {
				writers[fd.Name.Name] = true
			}
			if strings.Contains(src, "IncrementNextID(") && strings.Contains(src, "snapshotIDKey") {
				idUsers[fd.Name.Name] = true
			}
		}
	}
	w := SortedSet(writers)
	sort.Strings(w)
	c.P("Definition snapshot_store_writers : list string := %s.", CoqStrList(w))
	c.P("Definition snapshot_id_allocators : list string := %s.", CoqStrList(SortedSet(idUsers)))
	c.Info("snapshot_store_writers", w)
	// SetSnapshotOnChain must only append to Chains
	so := FindFunc(vf, "Keeper", "SetSnapshotOnChain")
	if so == nil {
		return fmt.Errorf("SetSnapshotOnChain not found")
	}
	var mut []string
	ast.Inspect(so.Body, func(n ast.Node) bool {
		if as, ok := n.(*ast.AssignStmt); ok {
			for i, l := range as.Lhs {
				if strings.HasPrefix(c.Src(l), "snapshot.") && i < len(as.Rhs) {
					mut = append(mut, c.Src(l)+" = "+strings.Join(strings.Fields(c.Src(as.Rhs[i])), " "))
				}
			}
		}
		return true
	})
	c.P("Definition set_on_chain_mutations : list string := %s.", CoqStrList(mut))
	c.Info("set_on_chain_mutations", mut)
	if err := extractC10Ids(c, ef, vf); err != nil {
		return err
	}
	if err := extractC10Worthy(c, vf); err != nil {
		return err
	}
	if err := extractC10Gates(c, ef); err != nil {
		return err
	}
	if err := extractC10Stores(c); err != nil {
		return err
	}
	return extractC10Callers(c)
}

// extractC10Stores: every prefix store of x/valset/keeper (accessor function or keeper field -> prefix)
// and, per accessor, which functions write (Set / Save / IncrementNextID) and which delete through it.
// The snapshot id counter lives under prefix "IDs" (keeper field ider) — a prefix the jail log shares:
// the theorem pins that nothing deletes under that prefix and that the counter's only writer is the
// id generator called from setSnapshotAsCurrent.  A Set / Delete whose receiver cannot be resolved to
// an accessor is listed as unresolved (pinned to the empty list).
func extractC10Stores(c *Ctx) error {
	files, err := c.ParseDir("x/valset/keeper")
	if err != nil {
		return err
	}
	prefixOf := map[string]string{} // accessor / field -> prefix expression
	firstPrefix := func(n ast.Node) string {
		p := ""
		ast.Inspect(n, func(x ast.Node) bool {
			if ce, ok := x.(*ast.CallExpr); ok && oneLine(c.Src(ce.Fun)) == "prefix.NewStore" && len(ce.Args) == 2 && p == "" {
				p = oneLine(c.Src(ce.Args[1]))
				if base, ok := ce.Args[0].(*ast.CallExpr); ok {
					if se, ok := base.Fun.(*ast.SelectorExpr); ok && c.Src(se.X) == "k" {
						p = se.Sel.Name + "+" + p
					}
				}
			}
			return true
		})
		return p
	}
	var decls []*ast.FuncDecl
	for _, f := range files {
		for _, d := range f.Decls {
			fd, ok := d.(*ast.FuncDecl)
			if !ok || fd.Body == nil || strings.HasPrefix(fd.Name.Name, "Verif") {
				continue
			}
			decls = append(decls, fd)
			if fd.Name.Name == "NewKeeper" {
				for _, st := range fd.Body.List {
					if as, ok := st.(*ast.AssignStmt); ok && len(as.Lhs) == 1 && len(as.Rhs) == 1 {
						if se, ok := as.Lhs[0].(*ast.SelectorExpr); ok && c.Src(se.X) == "k" {
							if p := firstPrefix(as.Rhs[0]); p != "" {
								prefixOf[se.Sel.Name] = p
							}
						}
					}
				}
				continue
			}
			// an accessor: a function that does nothing but return a prefix store
			if n := len(fd.Body.List); n > 0 && n <= 2 {
				if rs, ok := fd.Body.List[n-1].(*ast.ReturnStmt); ok && len(rs.Results) == 1 {
					if ce, ok := rs.Results[0].(*ast.CallExpr); ok && oneLine(c.Src(ce.Fun)) == "prefix.NewStore" {
						prefixOf[fd.Name.Name] = firstPrefix(rs)
					}
				}
			}
		}
	}
	if len(prefixOf) == 0 {
		return fmt.Errorf("x/valset/keeper: no prefix store found")
	}
	type ops struct{ set, del map[string]bool }
	use := map[string]*ops{}
	for a := range prefixOf {
		use[a] = &ops{map[string]bool{}, map[string]bool{}}
	}
	var unresolved []string
	for _, fd := range decls {
		if _, isAcc := prefixOf[fd.Name.Name]; isAcc {
			continue
		}
		// local names bound to an accessor: `store := k.fooStore(ctx)`
		local := map[string]string{}
		var resolve func(e ast.Expr) string
		resolve = func(e ast.Expr) string {
			switch x := e.(type) {
			case *ast.CallExpr:
				if se, ok := x.Fun.(*ast.SelectorExpr); ok && c.Src(se.X) == "k" {
					if _, ok := prefixOf[se.Sel.Name]; ok {
						return se.Sel.Name
					}
				}
			case *ast.SelectorExpr:
				if c.Src(x.X) == "k" {
					if _, ok := prefixOf[x.Sel.Name]; ok {
						return x.Sel.Name
					}
				}
			case *ast.Ident:
				return local[x.Name]
			}
			return ""
		}
		ast.Inspect(fd.Body, func(n ast.Node) bool {
			if as, ok := n.(*ast.AssignStmt); ok && len(as.Lhs) == len(as.Rhs) {
				for i := range as.Lhs {
					if id, ok := as.Lhs[i].(*ast.Ident); ok {
						if a := resolve(as.Rhs[i]); a != "" {
							local[id.Name] = a
						}
					}
				}
			}
			return true
		})
		ast.Inspect(fd.Body, func(n ast.Node) bool {
			ce, ok := n.(*ast.CallExpr)
			if !ok {
				return true
			}
			fun := oneLine(c.Src(ce.Fun))
			var recv ast.Expr
			kind := ""
			if se, ok := ce.Fun.(*ast.SelectorExpr); ok {
				switch se.Sel.Name {
				case "Set", "IncrementNextID":
					recv, kind = se.X, "set"
				case "Delete":
					recv, kind = se.X, "del"
				}
			}
			if fun == "keeperutil.Save" && len(ce.Args) > 0 {
				recv, kind = ce.Args[0], "set"
			}
			if fun == "keeperutil.Delete" && len(ce.Args) > 0 {
				recv, kind = ce.Args[0], "del"
			}
			if kind == "" {
				return true
			}
			a := resolve(recv)
			if a == "" {
				// a receiver that is no store at all (maps, sets, loggers) is told apart by name
				src := oneLine(c.Src(recv))
				if strings.Contains(strings.ToLower(src), "store") || strings.Contains(src, "jailLog") || strings.Contains(src, "ider") || kind == "del" {
					unresolved = append(unresolved, fd.Name.Name+": "+oneLine(c.Src(ce.Fun)))
				}
				return true
			}
			if kind == "set" {
				use[a].set[fd.Name.Name] = true
			} else {
				use[a].del[fd.Name.Name] = true
			}
			return true
		})
	}
	var rows []string
	for a, p := range prefixOf {
		rows = append(rows, fmt.Sprintf("%s | %s | set: %s | delete: %s", p, a, strings.Join(SortedSet(use[a].set), ","), strings.Join(SortedSet(use[a].del), ",")))
	}
	sort.Strings(rows)
	sort.Strings(unresolved)
	c.P("(* x/valset/keeper: prefix | accessor | functions writing through it | functions deleting through it *)")
	c.P("Definition valset_stores : list string := %s.", CoqStrList(rows))
	c.P("Definition valset_unresolved_store_ops : list string := %s.", CoqStrList(unresolved))
	c.Info("valset_stores", rows)
	return nil
}

// extractC10Gates: every function of x/evm/keeper that hands a valset to a remote chain
// (SendValsetMsgForChain, or the compass constructor input of a deployment) and the quorum guard in
// front of it: a top-level `if !isEnoughToReachConsensus(v) { … return … }` that precedes the
// statement using v, where v is the result of transformSnapshotToCompass or the function's parameter.
func extractC10Gates(c *Ctx, ef *ast.File) error {
	files, err := c.ParseDir("x/evm/keeper")
	if err != nil {
		return err
	}
	var facts []string
	for _, f := range files {
		for _, d := range f.Decls {
			fd, ok := d.(*ast.FuncDecl)
			if !ok || fd.Body == nil || strings.HasPrefix(fd.Name.Name, "Verif") {
				continue
			}
			// the statements (top level) that let a valset leave: a SendValsetMsgForChain call or
			// TransformValsetToCompassValset (constructor input of a compass deployment)
			use, useArg := -1, ""
			for i, st := range fd.Body.List {
				for _, name := range []string{"SendValsetMsgForChain", "TransformValsetToCompassValset"} {
					for _, ce := range Calls(st, name) {
						if use < 0 {
							use = i
							a := ce.Args[len(ce.Args)-1]
							if name == "SendValsetMsgForChain" && len(ce.Args) >= 3 {
								a = ce.Args[2]
							}
							useArg = strings.TrimPrefix(oneLine(c.Src(a)), "&")
						}
					}
				}
			}
			if use < 0 || fd.Name.Name == "SendValsetMsgForChain" {
				continue
			}
			gate, gateArg, returns := -1, "", false
			for i, st := range fd.Body.List {
				is, ok := st.(*ast.IfStmt)
				if !ok || is.Init != nil {
					continue
				}
				ue, ok := is.Cond.(*ast.UnaryExpr)
				if !ok || ue.Op != token.NOT {
					continue
				}
				ce, ok := ue.X.(*ast.CallExpr)
				if !ok || oneLine(c.Src(ce.Fun)) != "isEnoughToReachConsensus" || len(ce.Args) != 1 {
					continue
				}
				gate, gateArg = i, oneLine(c.Src(ce.Args[0]))
				if k := len(is.Body.List); k > 0 {
					_, returns = is.Body.List[k-1].(*ast.ReturnStmt)
				}
				break
			}
			origin := "parameter"
			for _, st := range fd.Body.List {
				if as, ok := st.(*ast.AssignStmt); ok && len(as.Lhs) == 1 && len(as.Rhs) == 1 && oneLine(c.Src(as.Lhs[0])) == useArg {
					if ce, ok := as.Rhs[0].(*ast.CallExpr); ok {
						origin = oneLine(c.Src(ce.Fun))
					}
				}
			}
			facts = append(facts, fmt.Sprintf("%s: valset %s from %s; gate on %s returns=%v before use=%v",
				fd.Name.Name, useArg, origin, gateArg, returns, gate >= 0 && gate < use))
		}
	}
	// every projection of a snapshot to a chain: who calls transformSnapshotToCompass with which
	// snapshot and which reference id
	var projections []string
	for _, f := range files {
		for _, d := range f.Decls {
			fd, ok := d.(*ast.FuncDecl)
			if !ok || fd.Body == nil || strings.HasPrefix(fd.Name.Name, "Verif") {
				continue
			}
			for _, ce := range Calls(fd.Body, "transformSnapshotToCompass") {
				projections = append(projections, fd.Name.Name+": "+oneLine(c.Src(ce)))
			}
		}
	}
	sort.Strings(projections)
	c.P("Definition projection_calls : list string := %s.", CoqStrList(projections))
	sort.Strings(facts)
	c.P("(* x/evm/keeper: where a valset leaves for a remote chain, and the quorum guard in front *)")
	c.P("Definition quorum_gates : list string := %s.", CoqStrList(facts))
	c.Info("quorum_gates", facts)
	return nil
}

// extractC10Worthy: the shape of isNewSnapshotWorthy that the model Valset/Worthy.v follows: the
// conditions of its early `return true`s in source order, the sort comparator, the two stake
// fractions, the account key, and that everything else returns false.
func extractC10Worthy(c *Ctx, vf *ast.File) error {
	fn := FindFunc(vf, "Keeper", "isNewSnapshotWorthy")
	if fn == nil {
		return fmt.Errorf("isNewSnapshotWorthy not found")
	}
	isRet := func(st ast.Stmt, val string) bool {
		rs, ok := st.(*ast.ReturnStmt)
		return ok && len(rs.Results) == 1 && c.Src(rs.Results[0]) == val
	}
	var conds []string
	nReturns := 0
	ast.Inspect(fn.Body, func(n ast.Node) bool {
		switch x := n.(type) {
		case *ast.FuncLit:
			if len(Calls(x, "Info")) > 0 { // the logging closure
				return false
			}
		case *ast.ReturnStmt:
			if len(x.Results) == 1 && (c.Src(x.Results[0]) == "true" || c.Src(x.Results[0]) == "false") {
				nReturns++
			}
		case *ast.IfStmt:
			if k := len(x.Body.List); k > 0 && isRet(x.Body.List[k-1], "true") {
				cond := oneLine(c.Src(x.Cond))
				if x.Init != nil {
					cond = oneLine(c.Src(x.Init)) + "; " + cond
				}
				conds = append(conds, cond)
			}
		}
		return true
	})
	last := fn.Body.List[len(fn.Body.List)-1]
	if !isRet(last, "false") || nReturns != len(conds)+1 {
		return fmt.Errorf("isNewSnapshotWorthy: %d boolean returns for %d recognised `if … return true` (expected one final `return false` besides them)", nReturns, len(conds))
	}
	less := ""
	for _, ce := range Calls(fn.Body, "SliceStable") {
		if len(ce.Args) == 2 {
			if fl, ok := ce.Args[1].(*ast.FuncLit); ok && len(fl.Body.List) == 1 {
				if rs, ok := fl.Body.List[0].(*ast.ReturnStmt); ok && len(rs.Results) == 1 {
					less = oneLine(c.Src(rs.Results[0]))
				}
			}
		}
	}
	key := ""
	for _, ce := range Calls(fn.Body, "Sprintf") {
		key = oneLine(c.Src(ce))
	}
	var fr []string
	ast.Inspect(fn.Body, func(n ast.Node) bool {
		if as, ok := n.(*ast.AssignStmt); ok && len(as.Lhs) == 1 && len(as.Rhs) == 1 && strings.HasPrefix(c.Src(as.Lhs[0]), "percentage") {
			fr = append(fr, oneLine(c.Src(as.Lhs[0])+" := "+c.Src(as.Rhs[0])))
		}
		return true
	})
	if less == "" || key == "" || len(fr) != 2 {
		return fmt.Errorf("isNewSnapshotWorthy: sort comparator / account key / stake fractions not recognised")
	}
	c.P("(* x/valset/keeper/keeper.go isNewSnapshotWorthy *)")
	c.P("Definition worthy_return_true_conditions : list string := %s.", CoqStrList(conds))
	c.P("Definition worthy_sort_less : string := %s.", CoqStr(less))
	c.P("Definition worthy_fractions : list string := %s.", CoqStrList(fr))
	c.P("Definition worthy_account_key : string := %s.", CoqStr(key))
	c.Info("worthy_return_true_conditions", conds)

	// TriggerSnapshotBuild: the keeper methods it calls, in source order, and the guard between the
	// verdict and the store
	tb := FindFunc(vf, "Keeper", "TriggerSnapshotBuild")
	if tb == nil {
		return fmt.Errorf("TriggerSnapshotBuild not found")
	}
	var seq []string
	ast.Inspect(tb.Body, func(n ast.Node) bool {
		if ce, ok := n.(*ast.CallExpr); ok {
			if se, ok := ce.Fun.(*ast.SelectorExpr); ok && c.Src(se.X) == "k" && se.Sel.Name != "Logger" {
				seq = append(seq, se.Sel.Name)
			}
		}
		return true
	})
	guard := ""
	for _, st := range tb.Body.List {
		if is, ok := st.(*ast.IfStmt); ok && strings.Contains(c.Src(is.Cond), "worthy") {
			guard = oneLine(c.Src(is))
		}
	}
	if guard == "" {
		return fmt.Errorf("TriggerSnapshotBuild: guard on the verdict not recognised")
	}
	c.P("Definition trigger_build_calls : list string := %s.", CoqStrList(seq))
	c.P("Definition trigger_build_guard : string := %s.", CoqStr(guard))
	return nil
}

func oneLine(s string) string { return strings.Join(strings.Fields(s), " ") }

// callSet: the callee expressions of every call inside n, sorted, without duplicates.
func callSet(c *Ctx, n ast.Node) []string {
	set := map[string]bool{}
	ast.Inspect(n, func(x ast.Node) bool {
		if ce, ok := x.(*ast.CallExpr); ok {
			set[oneLine(c.Src(ce.Fun))] = true
		}
		return true
	})
	out := SortedSet(set)
	sort.Strings(out)
	return out
}

// normalising: calls that fold, trim or otherwise rewrite a string before it is compared
// (package strings / unicode / cases / norm / bytes, or a method / function whose name says so).
func normalisingCalls(calls []string) []string {
	var out []string
	for _, f := range calls {
		l := strings.ToLower(f)
		last := l
		if i := strings.LastIndex(l, "."); i >= 0 {
			last = l[i+1:]
		}
		switch {
		case strings.HasPrefix(l, "strings."), strings.HasPrefix(l, "unicode."), strings.HasPrefix(l, "cases."),
			strings.HasPrefix(l, "norm."), strings.HasPrefix(l, "bytes."), strings.HasPrefix(l, "regexp."),
			strings.Contains(last, "lower"), strings.Contains(last, "upper"), strings.Contains(last, "fold"),
			strings.Contains(last, "trim"), strings.Contains(last, "normal"), strings.Contains(last, "canonical"),
			strings.Contains(last, "title"), strings.Contains(last, "replace"), strings.Contains(last, "hasprefix"),
			strings.Contains(last, "hassuffix"), strings.Contains(last, "contains"):
			out = append(out, f)
		}
	}
	return out
}

// extractC10Ids: how chain reference ids and chain types are compared by the code behind the
// snapshot's "account on every active chain" filter: evm Keeper.MissingChains (set of the input ids,
// walk over the chain infos) and valset Keeper.ValidatorSupportsAllChains (what it feeds in, how it
// reads the result), and the constant the chain type is compared with.
func extractC10Ids(c *Ctx, ef, vf *ast.File) error {
	mc := FindFunc(ef, "Keeper", "MissingChains")
	if mc == nil {
		return fmt.Errorf("MissingChains not found")
	}
	if mc.Type.Params == nil || len(mc.Type.Params.List) != 2 || len(mc.Type.Params.List[1].Names) != 1 {
		return fmt.Errorf("MissingChains: parameter list not recognised")
	}
	input := mc.Type.Params.List[1].Names[0].Name
	var build, walk []string
	nRange := 0
	for _, st := range mc.Body.List {
		rs, ok := st.(*ast.RangeStmt)
		if !ok {
			continue
		}
		nRange++
		head := "range " + oneLine(c.Src(rs.X)) + " -> " + oneLine(c.Src(rs.Value))
		var body []string
		for _, b := range rs.Body.List {
			body = append(body, oneLine(c.Src(b)))
		}
		if oneLine(c.Src(rs.X)) == input {
			build = append([]string{head}, body...)
		} else {
			walk = append([]string{head}, body...)
		}
	}
	if nRange != 2 || build == nil || walk == nil {
		return fmt.Errorf("MissingChains: expected one loop over the input ids and one over the chain infos, found %d loops", nRange)
	}
	calls := callSet(c, mc.Body)
	c.P("(* x/evm/keeper/keeper.go MissingChains: the set of input ids, the walk over the chain infos, every callee *)")
	c.P("Definition missing_chains_set_build : list string := %s.", CoqStrList(build))
	c.P("Definition missing_chains_walk : list string := %s.", CoqStrList(walk))
	c.P("Definition missing_chains_calls : list string := %s.", CoqStrList(calls))
	c.P("Definition missing_chains_normalising_calls : list string := %s.", CoqStrList(normalisingCalls(calls)))
	c.Info("missing_chains_walk", walk)
	c.Info("missing_chains_normalising_calls", normalisingCalls(calls))

	vs := FindFunc(vf, "Keeper", "ValidatorSupportsAllChains")
	if vs == nil {
		return fmt.Errorf("ValidatorSupportsAllChains not found")
	}
	var mcCall *ast.CallExpr
	for _, ce := range Calls(vs.Body, "MissingChains") {
		mcCall = ce
	}
	if mcCall == nil || len(mcCall.Args) != 2 {
		return fmt.Errorf("ValidatorSupportsAllChains: call of MissingChains not recognised")
	}
	arg := oneLine(c.Src(mcCall.Args[1]))
	elem := ""
	ast.Inspect(vs.Body, func(n ast.Node) bool {
		if as, ok := n.(*ast.AssignStmt); ok && len(as.Lhs) == 1 && len(as.Rhs) == 1 {
			if ix, ok := as.Lhs[0].(*ast.IndexExpr); ok && oneLine(c.Src(ix.X)) == arg {
				elem = oneLine(c.Src(as.Rhs[0]))
			}
		}
		return true
	})
	if elem == "" {
		return fmt.Errorf("ValidatorSupportsAllChains: how %s is filled not recognised", arg)
	}
	res := ""
	if n := len(vs.Body.List); n > 0 {
		if rs, ok := vs.Body.List[n-1].(*ast.ReturnStmt); ok && len(rs.Results) == 1 {
			res = oneLine(c.Src(rs.Results[0]))
		}
	}
	if res == "" {
		return fmt.Errorf("ValidatorSupportsAllChains: final return not recognised")
	}
	var vrets []string
	ast.Inspect(vs.Body, func(n ast.Node) bool {
		if rs, ok := n.(*ast.ReturnStmt); ok && len(rs.Results) == 1 {
			vrets = append(vrets, oneLine(c.Src(rs.Results[0])))
		}
		return true
	})
	c.P("Definition supports_all_returns : list string := %s.", CoqStrList(vrets))
	vcalls := callSet(c, vs.Body)
	c.P("(* x/valset/keeper/keeper.go ValidatorSupportsAllChains *)")
	c.P("Definition supports_all_input_element : string := %s.", CoqStr(elem))
	c.P("Definition supports_all_result : string := %s.", CoqStr(res))
	c.P("Definition supports_all_normalising_calls : list string := %s.", CoqStrList(normalisingCalls(vcalls)))
	c.Info("supports_all_result", res)

	// var xchainType = xchain.Type("evm")
	sf, err := c.Parse("x/evm/keeper/scheduler_job.go")
	if err != nil {
		return err
	}
	xt := ""
	ast.Inspect(sf, func(n ast.Node) bool {
		vsp, ok := n.(*ast.ValueSpec)
		if !ok || len(vsp.Names) != 1 || vsp.Names[0].Name != "xchainType" || len(vsp.Values) != 1 {
			return true
		}
		if ce, ok := vsp.Values[0].(*ast.CallExpr); ok && len(ce.Args) == 1 && oneLine(c.Src(ce.Fun)) == "xchain.Type" {
			if bl, ok := ce.Args[0].(*ast.BasicLit); ok && bl.Kind == token.STRING {
				if v, err := strconv.Unquote(bl.Value); err == nil {
					xt = v
				}
			}
		}
		return true
	})
	if xt == "" {
		return fmt.Errorf("x/evm/keeper/scheduler_job.go: var xchainType = xchain.Type(\"…\") not recognised")
	}
	c.P("(* x/evm/keeper/scheduler_job.go: var xchainType = xchain.Type(%q) *)", xt)
	c.P("Definition xchain_type : string := %s.", CoqStr(xt))
	c.Info("xchain_type", xt)
	return nil
}

// extractC10Callers: who calls the three writers of the snapshot store, over every non-test .go file
// of the tree (syntactic, by selector name).  SaveModifiedSnapshot ("needed for integration tests")
// must have no caller: it is not an operation of the history model.
func extractC10Callers(c *Ctx) error {
	callers := map[string]map[string]bool{"SaveModifiedSnapshot": {}, "setSnapshotAsCurrent": {}, "SetSnapshotOnChain": {}, "TriggerSnapshotBuild": {}, "SendValsetMsgForChain": {}, "PublishValsetToChain": {}}
	err := filepath.WalkDir(c.Repo, func(path string, d os.DirEntry, err error) error {
		if err != nil {
			return err
		}
		if d.IsDir() {
			n := d.Name()
			if path != c.Repo && (strings.HasPrefix(n, ".") || n == "tests" || n == "testutil" || n == "mocks" || n == "node_modules" || n == "vendor") {
				return filepath.SkipDir
			}
			return nil
		}
		n := d.Name()
		if !strings.HasSuffix(n, ".go") || strings.HasSuffix(n, "_test.go") || strings.HasPrefix(n, "verif_hooks") || strings.HasSuffix(n, ".pb.go") || strings.HasSuffix(n, ".pb.gw.go") {
			return nil
		}
		rel, _ := filepath.Rel(c.Repo, path)
		f, perr := c.Parse(rel)
		if perr != nil {
			return nil // not our business here (generated / broken files are caught by the build)
		}
		for _, dcl := range f.Decls {
			fd, ok := dcl.(*ast.FuncDecl)
			if !ok || fd.Body == nil {
				continue
			}
			for name := range callers {
				if len(Calls(fd.Body, name)) > 0 {
					callers[name][filepath.ToSlash(filepath.Dir(rel))+":"+fd.Name.Name] = true
				}
			}
		}
		return nil
	})
	if err != nil {
		return err
	}
	for _, name := range []string{"SaveModifiedSnapshot", "setSnapshotAsCurrent", "SetSnapshotOnChain", "TriggerSnapshotBuild", "SendValsetMsgForChain", "PublishValsetToChain"} {
		l := SortedSet(callers[name])
		sort.Strings(l)
		c.P("Definition callers_of_%s : list string := %s.", name, CoqStrList(l))
		c.Info("callers_of_"+name, l)
	}
	return nil
}
