package main

import (
	"fmt"
	"go/ast"
	"go/token"
	"sort"
	"strconv"
	"strings"
)

// C10: constants of the compass projection (maxPower, thresholdForConsensus), the shape of the power
// normalisation and of the per-validator account selection in transformSnapshotToCompass, the quorum
// comparison, createNewSnapshot's eligibility conjuncts and share source, and the inventory of
// functions that write the valset snapshot store.
func init() { extractors["C10"] = extractC10 }

func evalConstInt(src string) (string, error) {
	s := strings.ReplaceAll(strings.ReplaceAll(src, "_", ""), " ", "")
	if i := strings.Index(s, "<<"); i >= 0 {
		a, err1 := strconv.ParseUint(s[:i], 0, 64)
		b, err2 := strconv.ParseUint(s[i+2:], 0, 64)
		if err1 != nil || err2 != nil || b > 62 {
			return "", fmt.Errorf("cannot evaluate constant %q", src)
		}
		return strconv.FormatUint(a<<b, 10), nil
	}
	v, err := strconv.ParseUint(s, 0, 64)
	if err != nil {
		return "", fmt.Errorf("cannot evaluate constant %q", src)
	}
	return strconv.FormatUint(v, 10), nil
}

func extractC10(c *Ctx) error {
	ef, err := c.Parse("x/evm/keeper/keeper.go")
	if err != nil {
		return err
	}
	for _, name := range []string{"maxPower", "thresholdForConsensus"} {
		src, ok := ConstValue(c, []*ast.File{ef}, name)
		if !ok {
			return fmt.Errorf("constant %s not found in x/evm/keeper/keeper.go", name)
		}
		v, err := evalConstInt(src)
		if err != nil {
			return err
		}
		coq := map[string]string{"maxPower": "max_power", "thresholdForConsensus": "threshold_for_consensus"}[name]
		c.P("(* x/evm/keeper/keeper.go: %s = %s *)", name, src)
		c.P("Definition %s : Z := %s.", coq, v)
		c.Info(name, v)
	}

	// --- isEnoughToReachConsensus: `return sum >= thresholdForConsensus`
	ie := FindFunc(ef, "", "isEnoughToReachConsensus")
	if ie == nil {
		return fmt.Errorf("isEnoughToReachConsensus not found")
	}
	cmp := ""
	ast.Inspect(ie.Body, func(n ast.Node) bool {
		if rs, ok := n.(*ast.ReturnStmt); ok && len(rs.Results) == 1 {
			cmp = c.Src(rs.Results[0])
		}
		return true
	})
	if cmp == "" {
		return fmt.Errorf("isEnoughToReachConsensus: return expression not recognised")
	}
	c.P("Definition quorum_comparison : string := %s.", CoqStr(cmp))
	c.Info("quorum_comparison", cmp)

	// --- transformSnapshotToCompass
	tf := FindFunc(ef, "", "transformSnapshotToCompass")
	if tf == nil {
		return fmt.Errorf("transformSnapshotToCompass not found")
	}
	// (a) sort comparator
	sortCmp := ""
	for _, ce := range Calls(tf.Body, "SliceStable") {
		if len(ce.Args) == 2 {
			if fl, ok := ce.Args[1].(*ast.FuncLit); ok {
				ast.Inspect(fl.Body, func(n ast.Node) bool {
					if rs, ok := n.(*ast.ReturnStmt); ok && len(rs.Results) == 1 {
						sortCmp = c.Src(rs.Results[0])
					}
					return true
				})
			}
		}
	}
	if sortCmp == "" {
		return fmt.Errorf("transformSnapshotToCompass: sort.SliceStable comparator not recognised")
	}
	c.P("Definition sort_comparator : string := %s.", CoqStr(sortCmp))
	c.Info("sort_comparator", sortCmp)
	// (b) the innermost loop over the validator's external chain infos: the match condition, what is
	// appended to Powers, and whether the loop stops at the first matching account.
	var inner *ast.RangeStmt
	ast.Inspect(tf.Body, func(n ast.Node) bool {
		if rs, ok := n.(*ast.RangeStmt); ok && strings.Contains(c.Src(rs.X), "GetExternalChainInfos") {
			inner = rs
		}
		return true
	})
	if inner == nil {
		return fmt.Errorf("transformSnapshotToCompass: loop over GetExternalChainInfos() not found")
	}
	var match *ast.IfStmt
	for _, st := range inner.Body.List {
		if is, ok := st.(*ast.IfStmt); ok && strings.Contains(c.Src(is.Cond), "chainReferenceID") {
			match = is
		}
	}
	if match == nil {
		return fmt.Errorf("transformSnapshotToCompass: account match condition not recognised")
	}
	cond := strings.Join(strings.Fields(c.Src(match.Cond)), " ")
	breaks := false
	if n := len(match.Body.List); n > 0 {
		if bs, ok := match.Body.List[n-1].(*ast.BranchStmt); ok && bs.Tok == token.BREAK && bs.Label == nil {
			breaks = true
		}
	}
	powerExpr := ""
	for _, ce := range Calls(match.Body, "append") {
		if len(ce.Args) == 2 && strings.Contains(c.Src(ce.Args[0]), "Powers") {
			powerExpr = c.Src(ce.Args[1])
		}
	}
	if powerExpr == "" {
		return fmt.Errorf("transformSnapshotToCompass: append(valset.Powers, …) not recognised")
	}
	// follow one level: `power := …` local, or a helper function called with (share, total)
	powerSrc := powerExpr
	ast.Inspect(match.Body, func(n ast.Node) bool {
		if as, ok := n.(*ast.AssignStmt); ok && len(as.Lhs) == 1 && len(as.Rhs) == 1 && strings.Contains(powerExpr, c.Src(as.Lhs[0])) {
			powerSrc += " where " + c.Src(as.Lhs[0]) + " := " + c.Src(as.Rhs[0])
		}
		return true
	})
	if ce, ok := func() (*ast.CallExpr, bool) {
		var found *ast.CallExpr
		ast.Inspect(match.Body, func(n ast.Node) bool {
			if x, ok := n.(*ast.CallExpr); ok {
				if id, ok := x.Fun.(*ast.Ident); ok && FindFunc(ef, "", id.Name) != nil && id.Name != "append" {
					found = x
				}
			}
			return true
		})
		return found, found != nil
	}(); ok {
		helper := FindFunc(ef, "", ce.Fun.(*ast.Ident).Name)
		powerSrc += " where func " + helper.Name.Name + " " + strings.Join(strings.Fields(c.Src(helper.Body)), " ")
	}
	usesFloat := strings.Contains(powerSrc, "float")
	integerFloor := !usesFloat && strings.Contains(powerSrc, "Mul(") && strings.Contains(powerSrc, "Quo(") && strings.Contains(powerSrc, "maxPower")
	c.P("(* transformSnapshotToCompass: account match: %s *)", cond)
	c.P("Definition account_match : string := %s.", CoqStr(cond))
	c.P("Definition account_match_stops_at_first : bool := %v.", breaks)
	c.P("(* power: %s *)", strings.ReplaceAll(powerSrc, "*)", "* )"))
	c.P("Definition power_uses_float : bool := %v.", usesFloat)
	c.P("Definition power_is_integer_mul_quo : bool := %v.", integerFloor)
	c.Info("power", powerSrc)
	c.Info("account_match_stops_at_first", breaks)

	// --- createNewSnapshot
	vf, err := c.Parse("x/valset/keeper/keeper.go")
	if err != nil {
		return err
	}
	cn := FindFunc(vf, "Keeper", "createNewSnapshot")
	if cn == nil {
		return fmt.Errorf("createNewSnapshot not found")
	}
	var conj []string
	ast.Inspect(cn.Body, func(n ast.Node) bool {
		is, ok := n.(*ast.IfStmt)
		if !ok || !strings.Contains(c.Src(is.Cond), "IsBonded") {
			return true
		}
		var walk func(e ast.Expr)
		walk = func(e ast.Expr) {
			if be, ok := e.(*ast.BinaryExpr); ok && be.Op == token.LAND {
				walk(be.X)
				walk(be.Y)
				return
			}
			conj = append(conj, strings.Join(strings.Fields(c.Src(e)), " "))
		}
		walk(is.Cond)
		return false
	})
	if len(conj) == 0 {
		return fmt.Errorf("createNewSnapshot: eligibility condition not recognised")
	}
	c.P("Definition eligibility_conjuncts : list string := %s.", CoqStrList(conj))
	c.Info("eligibility", conj)
	share, total := "", ""
	ast.Inspect(cn.Body, func(n ast.Node) bool {
		switch x := n.(type) {
		case *ast.KeyValueExpr:
			if c.Src(x.Key) == "ShareCount" {
				share = c.Src(x.Value)
			}
		case *ast.AssignStmt:
			if len(x.Lhs) == 1 && c.Src(x.Lhs[0]) == "snapshot.TotalShares" && len(x.Rhs) == 1 {
				total = c.Src(x.Rhs[0])
			}
		}
		return true
	})
	if share == "" || total == "" {
		return fmt.Errorf("createNewSnapshot: ShareCount / TotalShares sources not recognised")
	}
	c.P("Definition share_source : string := %s.", CoqStr(share))
	c.P("Definition total_update : string := %s.", CoqStr(total))
	c.Info("share_source", share)

	// --- writers of the snapshot store and of the snapshot id counter in x/valset/keeper
	files, err := c.ParseDir("x/valset/keeper")
	if err != nil {
		return err
	}
	writers := map[string]bool{}
	idUsers := map[string]bool{}
	for _, f := range files {
		if strings.Contains(c.Src(f.Name), "_test") {
			continue
		}
		for _, d := range f.Decls {
			fd, ok := d.(*ast.FuncDecl)
			if !ok || fd.Body == nil || strings.HasPrefix(fd.Name.Name, "Verif") {
				continue
			}
			src := c.Src(fd.Body)
			if strings.Contains(src, "snapshotStore(") && (strings.Contains(src, "Save(") || strings.Contains(src, ".Set(") || strings.Contains(src, ".Delete(")) {
				writers[fd.Name.Name] = true
			}
			if strings.Contains(src, "IncrementNextID(") && strings.Contains(src, "snapshotIDKey") {
				idUsers[fd.Name.Name] = true
			}
		}
	}
	w := SortedSet(writers)
	sort.Strings(w)
	c.P("Definition snapshot_store_writers : list string := %s.", CoqStrList(w))
	c.P("Definition snapshot_id_allocators : list string := %s.", CoqStrList(SortedSet(idUsers)))
	c.Info("snapshot_store_writers", w)
	// SetSnapshotOnChain must only append to Chains
	so := FindFunc(vf, "Keeper", "SetSnapshotOnChain")
	if so == nil {
		return fmt.Errorf("SetSnapshotOnChain not found")
	}
	var mut []string
	ast.Inspect(so.Body, func(n ast.Node) bool {
		if as, ok := n.(*ast.AssignStmt); ok {
			for i, l := range as.Lhs {
				if strings.HasPrefix(c.Src(l), "snapshot.") && i < len(as.Rhs) {
					mut = append(mut, c.Src(l)+" = "+strings.Join(strings.Fields(c.Src(as.Rhs[i])), " "))
				}
			}
		}
		return true
	})
	c.P("Definition set_on_chain_mutations : list string := %s.", CoqStrList(mut))
	c.Info("set_on_chain_mutations", mut)
	return nil
}
