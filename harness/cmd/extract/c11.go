package main

import (
	"fmt"
	"go/ast"
	"go/token"
	"sort"
	"strconv"
	"strings"
)

// C11: for every type that has a ClaimHash method in x/skyway/types —
//   struct_fields : the struct's fields with a kind (num = uint64, str = string, amt = math.Int, meta = other)
//   hash_items    : what ClaimHash renders, in order: (render kind, field) from the Sprintf verbs and arguments
//   handler_fields: the fields the keeper reads from a claim of that type on the submission path (msg server,
//                   additionalPatchChecks, claimHandlerCommon, Attest), the tally path (TryAttestation,
//                   processAttestation, emitObservedEvent, GetAttestationMapping, UnobservedBlocksByAddr,
//                   DeleteAttestation) and the type's attestation handler, transitively through the
//                   claim's own methods and through keeper functions the claim is passed to
//   key_fields    : the fields that Attest feeds into the attestation store key besides the hash
// plus the escape table of claimPathEscaper and the shape of GetAttestationKey / GetStore.
func init() { extractors["C11"] = extractC11 }

type c11T struct {
	name    string
	fields  []string          // declaration order
	kind    map[string]string // field -> kind
	methods map[string]*ast.FuncDecl
}

type c11X struct {
	c      *Ctx
	types  map[string]*c11T
	kfiles []*ast.File // keeper package + abci.go
	opaque map[string]bool
	skip   map[string]bool // claim methods not followed by walk (besides ClaimHash)
}

func kindOfType(c *Ctx, e ast.Expr) string {
	switch c.Src(e) {
	case "uint64":
		return "num"
	case "string":
		return "str"
	case "cosmossdk_io_math.Int", "math.Int", "sdkmath.Int":
		return "amt"
	}
	return "meta"
}

func recvName(fd *ast.FuncDecl) string {
	if fd.Recv != nil && len(fd.Recv.List) == 1 && len(fd.Recv.List[0].Names) == 1 {
		return fd.Recv.List[0].Names[0].Name
	}
	return ""
}

func recvType(fd *ast.FuncDecl) string {
	if fd.Recv == nil || len(fd.Recv.List) != 1 {
		return ""
	}
	t := fd.Recv.List[0].Type
	if s, ok := t.(*ast.StarExpr); ok {
		t = s.X
	}
	if id, ok := t.(*ast.Ident); ok {
		return id.Name
	}
	return ""
}

func paramNames(fd *ast.FuncDecl) []string {
	var out []string
	for _, f := range fd.Type.Params.List {
		if len(f.Names) == 0 {
			out = append(out, "_")
		}
		for _, n := range f.Names {
			out = append(out, n.Name)
		}
	}
	return out
}

// stripRef removes *, & and parentheses around an identifier expression.
func stripRef(e ast.Expr) ast.Expr {
	for {
		switch x := e.(type) {
		case *ast.StarExpr:
			e = x.X
		case *ast.ParenExpr:
			e = x.X
		case *ast.UnaryExpr:
			if x.Op == token.AND {
				e = x.X
			} else {
				return e
			}
		default:
			return e
		}
	}
}

func isIdent(e ast.Expr, names map[string]bool) bool {
	id, ok := stripRef(e).(*ast.Ident)
	return ok && names[id.Name]
}

// methodFields: fields of T read by T's method m (transitively through T's other methods).
func (x *c11X) methodFields(t *c11T, m string, seen map[string]bool, out map[string]bool) {
	if seen[m] {
		return
	}
	seen[m] = true
	fd := t.methods[m]
	if fd == nil || fd.Body == nil {
		return
	}
	x.walk(fd.Body, map[string]bool{recvName(fd): true}, t, out, seen, map[string]bool{})
}

// walk collects into out the fields of t read through any identifier in vars inside node n.
func (x *c11X) walk(n ast.Node, vars map[string]bool, t *c11T, out map[string]bool, mseen map[string]bool, fseen map[string]bool) {
	// identifiers assigned from UnpackAttestationClaim are claim bodies as well
	ast.Inspect(n, func(y ast.Node) bool {
		as, ok := y.(*ast.AssignStmt)
		if !ok || len(as.Rhs) != 1 {
			return true
		}
		if ce, ok := as.Rhs[0].(*ast.CallExpr); ok {
			if se, ok := ce.Fun.(*ast.SelectorExpr); ok && se.Sel.Name == "UnpackAttestationClaim" {
				if id, ok := as.Lhs[0].(*ast.Ident); ok && id.Name != "_" {
					vars[id.Name] = true
				}
			}
		}
		return true
	})
	ast.Inspect(n, func(y ast.Node) bool {
		switch e := y.(type) {
		case *ast.TypeSwitchStmt:
			// switch v := claim.(type) { case *types.T: ... }  — only the clause of t is walked, with v bound
			var bound string
			var subject ast.Expr
			switch a := e.Assign.(type) {
			case *ast.AssignStmt:
				if id, ok := a.Lhs[0].(*ast.Ident); ok {
					bound = id.Name
				}
				if ta, ok := a.Rhs[0].(*ast.TypeAssertExpr); ok {
					subject = ta.X
				}
			case *ast.ExprStmt:
				if ta, ok := a.X.(*ast.TypeAssertExpr); ok {
					subject = ta.X
				}
			}
			if subject == nil || !isIdent(subject, vars) {
				return true
			}
			for _, cl := range e.Body.List {
				cc := cl.(*ast.CaseClause)
				match := false
				for _, te := range cc.List {
					s := x.c.Src(te)
					if s == "*types."+t.name || s == "types."+t.name || s == "*"+t.name {
						match = true
					}
				}
				if cc.List == nil { // default clause: reached by types without a case
					has := false
					for _, cl2 := range e.Body.List {
						for _, te := range cl2.(*ast.CaseClause).List {
							s := x.c.Src(te)
							if s == "*types."+t.name || s == "types."+t.name {
								has = true
							}
						}
					}
					match = !has
				}
				if match {
					v2 := map[string]bool{}
					for k := range vars {
						v2[k] = true
					}
					if bound != "" {
						v2[bound] = true
					}
					for _, st := range cc.Body {
						x.walk(st, v2, t, out, mseen, fseen)
					}
				}
			}
			return false
		case *ast.SelectorExpr:
			if isIdent(e.X, vars) {
				if _, ok := t.kind[e.Sel.Name]; ok {
					out[e.Sel.Name] = true
				}
			}
		case *ast.CallExpr:
			// method of the claim
			if se, ok := e.Fun.(*ast.SelectorExpr); ok && isIdent(se.X, vars) {
				if _, isField := t.kind[se.Sel.Name]; !isField {
					if se.Sel.Name != "ClaimHash" && !x.skip[se.Sel.Name] { // the hash itself is not an effect
						x.methodFields(t, se.Sel.Name, mseen, out)
					}
				}
			}
			// claim passed on to another function
			for i, a := range e.Args {
				if !isIdent(a, vars) {
					continue
				}
				callee := ""
				switch f := e.Fun.(type) {
				case *ast.Ident:
					callee = f.Name
				case *ast.SelectorExpr:
					callee = f.Sel.Name
				}
				fd := x.findKeeperFunc(callee, len(e.Args))
				if fd == nil {
					x.opaque[x.c.Src(e.Fun)] = true
					continue
				}
				key := fmt.Sprintf("%s/%d/%s", callee, i, t.name)
				if fseen[key] {
					continue
				}
				fseen[key] = true
				pn := paramNames(fd)
				if i < len(pn) && fd.Body != nil {
					x.walk(fd.Body, map[string]bool{pn[i]: true}, t, out, mseen, fseen)
				}
			}
		}
		return true
	})
}

func (x *c11X) findKeeperFunc(name string, nargs int) *ast.FuncDecl {
	for _, f := range x.kfiles {
		for _, d := range f.Decls {
			if fd, ok := d.(*ast.FuncDecl); ok && fd.Name.Name == name && len(paramNames(fd)) == nargs {
				return fd
			}
		}
	}
	return nil
}

func unq(s string) (string, error) { return strconv.Unquote(s) }

func extractC11(c *Ctx) error {
	tfiles, err := c.ParseDir("x/skyway/types")
	if err != nil {
		return err
	}
	kfiles, err := c.ParseDir("x/skyway/keeper")
	if err != nil {
		return err
	}
	abci, err := c.Parse("x/skyway/abci.go")
	if err != nil {
		return err
	}
	var kf []*ast.File
	for _, f := range kfiles {
		name := c.Fset.File(f.Pos()).Name()
		if strings.HasSuffix(name, "test_common.go") || strings.Contains(name, "verif_hooks") {
			continue
		}
		kf = append(kf, f)
	}
	kf = append(kf, abci)
	x := &c11X{c: c, types: map[string]*c11T{}, kfiles: kf, opaque: map[string]bool{}}

	// claim types = receivers of a ClaimHash method
	var names []string
	for _, f := range tfiles {
		for _, d := range f.Decls {
			if fd, ok := d.(*ast.FuncDecl); ok && fd.Name.Name == "ClaimHash" && fd.Recv != nil {
				names = append(names, recvType(fd))
			}
		}
	}
	sort.Strings(names)
	if len(names) == 0 {
		return fmt.Errorf("no ClaimHash method found in x/skyway/types")
	}
	for _, n := range names {
		t := &c11T{name: n, kind: map[string]string{}, methods: map[string]*ast.FuncDecl{}}
		for _, f := range tfiles {
			for _, d := range f.Decls {
				switch g := d.(type) {
				case *ast.GenDecl:
					for _, s := range g.Specs {
						ts, ok := s.(*ast.TypeSpec)
						if !ok || ts.Name.Name != n {
							continue
						}
						st, ok := ts.Type.(*ast.StructType)
						if !ok {
							return fmt.Errorf("%s is not a struct", n)
						}
						for _, fl := range st.Fields.List {
							for _, fn := range fl.Names {
								t.fields = append(t.fields, fn.Name)
								t.kind[fn.Name] = kindOfType(c, fl.Type)
							}
						}
					}
				case *ast.FuncDecl:
					if recvType(g) == n {
						t.methods[g.Name.Name] = g
					}
				}
			}
		}
		if len(t.fields) == 0 {
			return fmt.Errorf("struct %s not found", n)
		}
		x.types[n] = t
	}

	// escape table
	var pairs [][2]string
	if v, ok := ConstValue(c, tfiles, "claimPathEscaper"); ok {
		fs := token.NewFileSet()
		_ = fs
		if !strings.HasPrefix(v, "strings.NewReplacer(") {
			return fmt.Errorf("claimPathEscaper is not a strings.NewReplacer(...) call: %s", v)
		}
		var lits []string
		for _, f := range tfiles {
			ast.Inspect(f, func(n ast.Node) bool {
				vs, ok := n.(*ast.ValueSpec)
				if !ok || len(vs.Names) != 1 || vs.Names[0].Name != "claimPathEscaper" || len(vs.Values) != 1 {
					return true
				}
				ce, ok := vs.Values[0].(*ast.CallExpr)
				if !ok {
					return true
				}
				for _, a := range ce.Args {
					if bl, ok := a.(*ast.BasicLit); ok && bl.Kind == token.STRING {
						s, _ := unq(bl.Value)
						lits = append(lits, s)
					} else {
						lits = append(lits, "\x00non-literal")
					}
				}
				return true
			})
		}
		if len(lits)%2 != 0 {
			return fmt.Errorf("claimPathEscaper: odd number of replacer arguments")
		}
		for i := 0; i+1 < len(lits); i += 2 {
			if strings.HasPrefix(lits[i], "\x00") || strings.HasPrefix(lits[i+1], "\x00") {
				return fmt.Errorf("claimPathEscaper: non-literal replacer argument")
			}
			pairs = append(pairs, [2]string{lits[i], lits[i+1]})
		}
		ef := FindFuncIn(tfiles, "", "escapeClaimPathField")
		if ef == nil || len(ef.Body.List) != 1 || !strings.Contains(c.Src(ef.Body.List[0]), "claimPathEscaper.Replace("+paramNames(ef)[0]+")") {
			return fmt.Errorf("escapeClaimPathField is not `return claimPathEscaper.Replace(s)`")
		}
	}

	c.P("Definition claim_types : list string := %s.", CoqStrList(names))
	emitTable := func(def, ty string, row func(t *c11T) string) {
		c.P("Definition %s (ct : string) : %s :=", def, ty)
		for _, n := range names {
			c.P("  if String.eqb ct %s then %s else", CoqStr(n), row(x.types[n]))
		}
		c.P("  [].")
	}
	pairList := func(ps [][2]string) string {
		q := make([]string, len(ps))
		for i, p := range ps {
			q[i] = "(" + CoqStr(p[0]) + ", " + CoqStr(p[1]) + ")"
		}
		return "[" + strings.Join(q, "; ") + "]"
	}
	emitTable("struct_fields", "list (string * string)", func(t *c11T) string {
		var ps [][2]string
		for _, f := range t.fields {
			ps = append(ps, [2]string{f, t.kind[f]})
		}
		return pairList(ps)
	})

	// hash items
	hashInfo := map[string]string{}
	var sep string
	items := map[string][][2]string{}
	for _, n := range names {
		t := x.types[n]
		fd := t.methods["ClaimHash"]
		rv := recvName(fd)
		sp := Calls(fd.Body, "Sprintf")
		if len(sp) != 1 || len(Calls(fd.Body, "Sum")) != 1 || !strings.Contains(c.Src(fd.Body), "tmhash.Sum([]byte(path))") {
			return fmt.Errorf("%s.ClaimHash: expected exactly one fmt.Sprintf and `tmhash.Sum([]byte(path))`", n)
		}
		bl, ok := sp[0].Args[0].(*ast.BasicLit)
		if !ok {
			return fmt.Errorf("%s.ClaimHash: format is not a literal", n)
		}
		format, _ := unq(bl.Value)
		verbs := strings.Split(format, "/")
		if sep == "" {
			sep = "/"
		}
		args := sp[0].Args[1:]
		if len(verbs) != len(args) {
			return fmt.Errorf("%s.ClaimHash: %d verbs for %d arguments (format %q)", n, len(verbs), len(args), format)
		}
		for i, v := range verbs {
			a := args[i]
			field := func(e ast.Expr) string {
				se, ok := e.(*ast.SelectorExpr)
				if !ok {
					return ""
				}
				if id, ok := se.X.(*ast.Ident); ok && id.Name == rv {
					if _, ok := t.kind[se.Sel.Name]; ok {
						return se.Sel.Name
					}
				}
				return ""
			}
			var it [2]string
			switch {
			case v == "%d" && field(a) != "" && t.kind[field(a)] == "num":
				it = [2]string{"dec", field(a)}
			case v == "%s" && field(a) != "" && t.kind[field(a)] == "str":
				it = [2]string{"raw", field(a)}
			case v == "%s":
				ce, ok := a.(*ast.CallExpr)
				if !ok {
					return fmt.Errorf("%s.ClaimHash: argument %d (%s) not understood", n, i, c.Src(a))
				}
				if se, ok := ce.Fun.(*ast.SelectorExpr); ok && se.Sel.Name == "String" && len(ce.Args) == 0 && field(se.X) != "" && t.kind[field(se.X)] == "amt" {
					it = [2]string{"amt", field(se.X)}
				} else if id, ok := ce.Fun.(*ast.Ident); ok && id.Name == "escapeClaimPathField" && len(ce.Args) == 1 && field(ce.Args[0]) != "" && t.kind[field(ce.Args[0])] == "str" {
					if len(pairs) == 0 {
						return fmt.Errorf("escapeClaimPathField used but claimPathEscaper not found")
					}
					it = [2]string{"esc", field(ce.Args[0])}
				} else {
					return fmt.Errorf("%s.ClaimHash: argument %d (%s) not understood", n, i, c.Src(a))
				}
			default:
				return fmt.Errorf("%s.ClaimHash: verb %q with argument %s not understood", n, v, c.Src(a))
			}
			items[n] = append(items[n], it)
		}
		hashInfo[n] = format
	}
	c.P("(* ClaimHash = tmhash.Sum(Sprintf(...)): items joined by %s; render kinds: dec = %%d of a uint64, amt = %%s of math.Int.String(),", CoqStr(sep))
	c.P("   raw = %%s of the string field, esc = %%s of escapeClaimPathField(field) *)")
	c.P("Definition hash_sep : string := %s.", CoqStr(sep))
	emitTable("hash_items", "list (string * string)", func(t *c11T) string { return pairList(items[t.name]) })
	c.P("Definition escape_pairs : list (string * string) := %s.", pairList(pairs))
	c.Info("hash_formats", hashInfo)

	// key: GetAttestationKey and GetStore shapes, key fields from Attest
	kt, err := c.Parse("x/skyway/types/key.go")
	if err != nil {
		return err
	}
	gk := FindFunc(kt, "", "GetAttestationKey")
	if gk == nil || len(gk.Body.List) != 1 {
		return fmt.Errorf("GetAttestationKey not recognised")
	}
	ab := Calls(gk.Body, "AppendBytes")
	if len(ab) != 1 {
		return fmt.Errorf("GetAttestationKey: AppendBytes call not found")
	}
	var shape []string
	for _, a := range ab[0].Args {
		shape = append(shape, c.Src(a))
	}
	pn := paramNames(gk)
	for i := range shape {
		if len(pn) == 2 {
			shape[i] = strings.ReplaceAll(strings.ReplaceAll(shape[i], pn[0], "$nonce"), pn[1], "$hash")
		}
	}
	c.P("Definition key_shape : list string := %s.", CoqStrList(shape))
	gs := FindFuncIn(kf, "Keeper", "GetStore")
	if gs == nil {
		return fmt.Errorf("Keeper.GetStore not found")
	}
	ns := Calls(gs.Body, "NewStore")
	if len(ns) != 1 || len(ns[0].Args) != 2 {
		return fmt.Errorf("Keeper.GetStore: prefix.NewStore call not recognised")
	}
	gpn := paramNames(gs)
	c.P("Definition store_prefix : string := %s.", CoqStr(strings.ReplaceAll(c.Src(ns[0].Args[1]), gpn[len(gpn)-1], "$chain")))
	for _, fn := range []string{"GetAttestation", "SetAttestation"} {
		fd := FindFuncIn(kf, "Keeper", fn)
		if fd == nil {
			return fmt.Errorf("%s not found", fn)
		}
		p := paramNames(fd)
		src := c.Src(fd.Body)
		if !strings.Contains(src, "k.GetStore(ctx, "+p[1]+")") || !strings.Contains(src, "types.GetAttestationKey("+p[2]+", "+p[3]+")") {
			return fmt.Errorf("%s: expected store of param 1 and GetAttestationKey(param 2, param 3)", fn)
		}
	}
	at := FindFuncIn(kf, "Keeper", "Attest")
	if at == nil {
		return fmt.Errorf("Keeper.Attest not found")
	}
	claimVar := paramNames(at)[1]
	var keyGetters []string
	for _, fn := range []string{"GetAttestation", "SetAttestation"} {
		for _, ce := range Calls(at.Body, fn) {
			if len(ce.Args) < 4 {
				return fmt.Errorf("Attest: %s call with %d args", fn, len(ce.Args))
			}
			g1, g2, h := c.Src(ce.Args[1]), c.Src(ce.Args[2]), c.Src(ce.Args[3])
			if !strings.HasPrefix(g1, claimVar+".Get") || !strings.HasPrefix(g2, claimVar+".Get") || h != "hash" {
				return fmt.Errorf("Attest: %s(%s, %s, %s) not understood", fn, g1, g2, h)
			}
			got := []string{strings.TrimSuffix(strings.TrimPrefix(g1, claimVar+"."), "()"), strings.TrimSuffix(strings.TrimPrefix(g2, claimVar+"."), "()")}
			if keyGetters == nil {
				keyGetters = got
			} else if keyGetters[0] != got[0] || keyGetters[1] != got[1] {
				return fmt.Errorf("Attest: GetAttestation and SetAttestation use different key arguments")
			}
		}
	}
	if keyGetters == nil {
		return fmt.Errorf("Attest: no GetAttestation/SetAttestation call")
	}
	if !strings.Contains(c.Src(at.Body), "hash, err := "+claimVar+".ClaimHash()") {
		return fmt.Errorf("Attest: hash is not claim.ClaimHash()")
	}
	single := func(t *c11T, getter string) (string, error) {
		out := map[string]bool{}
		x.methodFields(t, getter, map[string]bool{}, out)
		fs := SortedSet(out)
		if len(fs) != 1 {
			return "", fmt.Errorf("%s.%s reads %v, expected exactly one field", t.name, getter, fs)
		}
		return fs[0], nil
	}
	var kerr error
	emitTable("key_fields", "list string", func(t *c11T) string {
		a, e1 := single(t, keyGetters[0])
		b, e2 := single(t, keyGetters[1])
		if e1 != nil {
			kerr = e1
		}
		if e2 != nil {
			kerr = e2
		}
		return CoqStrList([]string{a, b}) + " (* chain prefix, nonce *)"
	})
	if kerr != nil {
		return kerr
	}

	// pass-through: the value that is hashed is the value that is stored
	if err := x.checkPassThrough(names); err != nil {
		return err
	}
	c.P("(* msg server: Any := NewAnyWithValue(msg); claimHandlerCommon(ctx, Any, msg) -> Attest(ctx, msg, Any); Attest hashes `claim` and stores")
	c.P("   `Claim: anyClaim` for a new attestation; none of these functions (nor the claim's ClaimHash / Get* / ValidateBasic methods) assigns to the")
	c.P("   claim, its fields or the Any, or hands them to any other function. *)")
	c.P("Definition attest_stores_hashed_claim : bool := true.")

	// handler fields
	entryGeneric := []string{"TryAttestation", "GetAttestationMapping", "UnobservedBlocksByAddr", "DeleteAttestation"}
	hf := map[string][]string{}
	live := []string{}
	for _, n := range names {
		t := x.types[n]
		out := map[string]bool{}
		mseen := map[string]bool{}
		fseen := map[string]bool{}
		// msg server entry
		for _, f := range kf {
			for _, d := range f.Decls {
				fd, ok := d.(*ast.FuncDecl)
				if !ok || recvType(fd) != "msgServer" || fd.Body == nil {
					continue
				}
				for _, p := range fd.Type.Params.List {
					if c.Src(p.Type) == "*types."+n && len(p.Names) == 1 {
						live = append(live, n)
						x.walk(fd.Body, map[string]bool{p.Names[0].Name: true}, t, out, mseen, fseen)
					}
				}
			}
		}
		for _, g := range entryGeneric {
			fd := FindFuncIn(kf, "Keeper", g)
			if fd == nil {
				return fmt.Errorf("keeper function %s not found", g)
			}
			x.walk(fd.Body, map[string]bool{}, t, out, mseen, fseen)
		}
		hf[n] = SortedSet(out)
	}
	emitTable("handler_fields", "list string", func(t *c11T) string { return CoqStrList(hf[t.name]) })
	c.P("(* claim types that have a msg-server route (can be submitted) *)")
	c.P("Definition live_types : list string := %s.", CoqStrList(live))
	c.P("(* calls that receive a claim and are not keeper functions (not followed): %s *)", strings.Join(SortedSet(x.opaque), ", "))
	c.Info("handler_fields", hf)
	c.Info("hash_items", items)
	c.Info("opaque_calls", SortedSet(x.opaque))
	// second round (c11b.go): implementers of the claim interface, ValidateBasic tables, additionalPatchChecks
	if err := x.extractImpls(names, tfiles); err != nil {
		return err
	}
	if err := x.extractValidate(names); err != nil {
		return err
	}
	if err := x.extractBatchGate(); err != nil {
		return err
	}
	if err := x.extractKeySites(); err != nil {
		return err
	}
	return x.extractEffectReads(names, entryGeneric)
}

// rootIdent returns the identifier at the root of an lvalue / argument expression (x, x.f, *x, &x, x[i], (x)).
func rootIdent(e ast.Expr) string {
	for {
		switch y := e.(type) {
		case *ast.Ident:
			return y.Name
		case *ast.SelectorExpr:
			e = y.X
		case *ast.StarExpr:
			e = y.X
		case *ast.ParenExpr:
			e = y.X
		case *ast.IndexExpr:
			e = y.X
		case *ast.UnaryExpr:
			e = y.X
		default:
			return ""
		}
	}
}

// noMutation checks that, inside fd, none of the identifiers in vars is assigned to (directly or through a field),
// re-declared, inc/dec-remented, address-taken, or passed to a call that is not in allowedCalls (callee name -> true);
// methods called on them must be read-only accessors.
func (x *c11X) noMutation(fd *ast.FuncDecl, vars map[string]bool, allowedCalls map[string]bool) error {
	var err error
	fail := func(n ast.Node, what string) {
		if err == nil {
			err = fmt.Errorf("%s: %s: `%s` — the claim that is hashed may no longer be the claim that is stored (unknown shape)", fd.Name.Name, what, x.c.Src(n))
		}
	}
	roMethod := func(m string) bool {
		return strings.HasPrefix(m, "Get") || m == "ClaimHash" || m == "ValidateBasic" || m == "String" || m == "Type" || m == "Route"
	}
	ast.Inspect(fd.Body, func(n ast.Node) bool {
		switch e := n.(type) {
		case *ast.AssignStmt:
			for _, l := range e.Lhs {
				if vars[rootIdent(l)] {
					fail(e, "assignment to the claim / Any")
				}
			}
		case *ast.IncDecStmt:
			if vars[rootIdent(e.X)] {
				fail(e, "modification of the claim")
			}
		case *ast.RangeStmt:
			if (e.Key != nil && vars[rootIdent(e.Key)]) || (e.Value != nil && vars[rootIdent(e.Value)]) {
				fail(e, "re-declaration of the claim / Any")
			}
		case *ast.UnaryExpr:
			if e.Op == token.AND && vars[rootIdent(e.X)] {
				fail(e, "address of the claim taken")
			}
		case *ast.CallExpr:
			callee := ""
			switch f := e.Fun.(type) {
			case *ast.Ident:
				callee = f.Name
			case *ast.SelectorExpr:
				callee = f.Sel.Name
				if id, ok := f.X.(*ast.Ident); ok && vars[id.Name] && !roMethod(callee) {
					fail(e, "non-accessor method called on the claim")
				}
			}
			for _, a := range e.Args {
				if id, ok := stripRef(a).(*ast.Ident); ok && vars[id.Name] && !allowedCalls[callee] {
					fail(e, "claim / Any handed to another function")
				}
			}
		}
		return true
	})
	return err
}

func (x *c11X) checkPassThrough(names []string) error {
	c := x.c
	// Attest(ctx, claim, anyClaim)
	at := FindFuncIn(x.kfiles, "Keeper", "Attest")
	ap := paramNames(at)
	if len(ap) != 3 {
		return fmt.Errorf("Attest: expected (ctx, claim, anyClaim)")
	}
	if err := x.noMutation(at, map[string]bool{ap[1]: true, ap[2]: true}, map[string]bool{}); err != nil {
		return err
	}
	stored := false
	ast.Inspect(at.Body, func(n ast.Node) bool {
		if kv, ok := n.(*ast.KeyValueExpr); ok && c.Src(kv.Key) == "Claim" {
			if c.Src(kv.Value) == ap[2] {
				stored = true
			} else {
				stored = false
			}
		}
		return true
	})
	if !stored {
		return fmt.Errorf("Attest: a new attestation does not store `Claim: %s`", ap[2])
	}
	// claimHandlerCommon(ctx, msgAny, msg) -> k.Attest(ctx, msg, msgAny)
	ch := FindFuncIn(x.kfiles, "msgServer", "claimHandlerCommon")
	if ch == nil {
		return fmt.Errorf("claimHandlerCommon not found")
	}
	cp := paramNames(ch)
	if len(cp) != 3 {
		return fmt.Errorf("claimHandlerCommon: expected (ctx, msgAny, msg)")
	}
	if err := x.noMutation(ch, map[string]bool{cp[1]: true, cp[2]: true}, map[string]bool{"Attest": true}); err != nil {
		return err
	}
	ac := Calls(ch.Body, "Attest")
	if len(ac) != 1 || len(ac[0].Args) != 3 || c.Src(ac[0].Args[1]) != cp[2] || c.Src(ac[0].Args[2]) != cp[1] {
		return fmt.Errorf("claimHandlerCommon: expected exactly one k.Attest(ctx, %s, %s)", cp[2], cp[1])
	}
	// msg server methods
	for _, f := range x.kfiles {
		for _, d := range f.Decls {
			fd, ok := d.(*ast.FuncDecl)
			if !ok || recvType(fd) != "msgServer" || fd.Body == nil {
				continue
			}
			for _, n := range names {
				for _, p := range fd.Type.Params.List {
					if c.Src(p.Type) != "*types."+n || len(p.Names) != 1 {
						continue
					}
					msg := p.Names[0].Name
					// Any variable: X, err := codectypes.NewAnyWithValue(msg)
					anyVar := ""
					ast.Inspect(fd.Body, func(y ast.Node) bool {
						as, ok := y.(*ast.AssignStmt)
						if ok && len(as.Rhs) == 1 {
							if ce, ok := as.Rhs[0].(*ast.CallExpr); ok && strings.HasSuffix(c.Src(ce.Fun), "NewAnyWithValue") && len(ce.Args) == 1 && c.Src(ce.Args[0]) == msg {
								if id, ok := as.Lhs[0].(*ast.Ident); ok {
									if anyVar != "" {
										anyVar = "\x00twice"
									} else {
										anyVar = id.Name
									}
								}
							}
						}
						return true
					})
					if anyVar == "" || strings.HasPrefix(anyVar, "\x00") {
						return fmt.Errorf("%s: expected exactly one `X, err := codectypes.NewAnyWithValue(%s)`", fd.Name.Name, msg)
					}
					cc := Calls(fd.Body, "claimHandlerCommon")
					if len(cc) != 1 || len(cc[0].Args) != 3 || c.Src(cc[0].Args[1]) != anyVar || c.Src(cc[0].Args[2]) != msg {
						return fmt.Errorf("%s: expected exactly one k.claimHandlerCommon(ctx, %s, %s)", fd.Name.Name, anyVar, msg)
					}
					// msg may only be read; the Any variable is assigned exactly once (checked above) and only passed on
					if err := x.noMutation(fd, map[string]bool{msg: true}, map[string]bool{"NewAnyWithValue": true, "claimHandlerCommon": true, "additionalPatchChecks": true}); err != nil {
						return err
					}
					nAssign := 0
					ast.Inspect(fd.Body, func(y ast.Node) bool {
						if as, ok := y.(*ast.AssignStmt); ok {
							for _, l := range as.Lhs {
								if rootIdent(l) == anyVar {
									nAssign++
								}
							}
						}
						return true
					})
					if nAssign != 1 {
						return fmt.Errorf("%s: the Any %s is assigned %d times", fd.Name.Name, anyVar, nAssign)
					}
				}
			}
		}
	}
	if apc := FindFuncIn(x.kfiles, "", "additionalPatchChecks"); apc != nil {
		pp := paramNames(apc)
		if err := x.noMutation(apc, map[string]bool{pp[len(pp)-1]: true}, map[string]bool{}); err != nil {
			return err
		}
	}
	// the claim's own accessors / ClaimHash / ValidateBasic must not write to the receiver
	for _, n := range names {
		t := x.types[n]
		for m, fd := range t.methods {
			if fd.Body == nil || !(strings.HasPrefix(m, "Get") || m == "ClaimHash" || m == "ValidateBasic") {
				continue
			}
			rv := recvName(fd)
			if rv == "" {
				continue
			}
			var bad ast.Node
			ast.Inspect(fd.Body, func(y ast.Node) bool {
				switch e := y.(type) {
				case *ast.AssignStmt:
					for _, l := range e.Lhs {
						if _, isSel := l.(*ast.SelectorExpr); (isSel || func() bool { _, s := l.(*ast.StarExpr); return s }()) && rootIdent(l) == rv {
							bad = e
						}
					}
				case *ast.IncDecStmt:
					if rootIdent(e.X) == rv {
						bad = e
					}
				}
				return true
			})
			if bad != nil {
				return fmt.Errorf("%s.%s writes to its receiver: `%s` (unknown shape)", n, m, c.Src(bad))
			}
		}
	}
	return nil
}
